import Lean
import BlockCiphers.Gen.Cipher_Des
import BlockCiphers.Impl.Des
import BlockCiphers.Proofs.GenFuncsDes
import Std.Tactic.BVDecide
/-
Tie of the regenerated whole-cipher functions of the `des` crate (`Gen/Cipher_Des.lean`: `Des`, `TdesEde3`, `TdesEde2`,
`TdesEee3`, `TdesEee2` `encrypt_block` / `decrypt_block`, translated from the current Rust text with all calls inlined and
the round loop unrolled) to the hand-written model `Impl/Des.lean`, for ALL round keys and ALL blocks.

Method: the generated text is one long chain of `let`s.  `extract_lets` turns it into local definitions (sharing kept),
then every segment of the chain is recognised, by `rfl`, as one call of a regenerated leaf function of `Gen/Funcs.lean`
(`des_ip`, `des_round`, `des_fp`), and `Proofs/GenFuncsDes.lean` (`ip_eq`, `round_eq`, `fp_eq`) rewrites these to the
model's functions.  No bit-blasting except for `bytes_id` (`u64::from_be_bytes` of the block bytes is the block).
This file is produced by `tools/gen_des.py` from the generated text (it refers to the `let` names of
`Gen/Cipher_Des.lean`): after a re-translation re-run the script, then check the file with `lean`.
-/
namespace BC.GenCipher.Des
open BC.Gen.Fn
set_option maxRecDepth 100000

open Lean Elab Tactic Meta in
/-- make the (hygienic) names of the local `let` variables introduced by `extract_lets` accessible -/
elab "name_lets" : tactic => do
  liftMetaTactic fun g => g.withContext do
    let mut lctx ← getLCtx
    for d in lctx do
      if d.isLet then lctx := lctx.setUserName d.fvarId d.userName.eraseMacroScopes
    let g' ← mkFreshExprMVarAt lctx (← getLocalInstances) (← g.getType) .syntheticOpaque (← g.getTag)
    g.assign g'
    return [g'.mvarId!]

/-- `u64::from_be_bytes(block)` / `to_be_bytes`: in the translator's block convention (byte 0 = most significant byte)
both are the identity -/
theorem bytes_id (x : BitVec 64) :
    (x.extractLsb' 56 8) ++ (x.extractLsb' 48 8) ++ (x.extractLsb' 40 8) ++ (x.extractLsb' 32 8) ++
      (x.extractLsb' 24 8) ++ (x.extractLsb' 16 8) ++ (x.extractLsb' 8 8) ++ (x.extractLsb' 0 8) = x := by
  bv_decide

/-- the sixteen rounds in key order = `Des::encrypt` of the model -/
theorem core_enc (k0 k1 k2 k3 k4 k5 k6 k7 k8 k9 k10 k11 k12 k13 k14 k15 x : BitVec 64) :
    des_fp ((des_round (des_round (des_round (des_round (des_round (des_round (des_round (des_round (des_round (des_round (des_round (des_round (des_round (des_round (des_round (des_round (des_ip x) k0) k1) k2) k3) k4) k5) k6) k7) k8) k9) k10) k11) k12) k13) k14) k15).rotateRight 32) =
      BC.Des.encrypt [k0, k1, k2, k3, k4, k5, k6, k7, k8, k9, k10, k11, k12, k13, k14, k15] x := by
  simp only [GenFuncs.Des.fp_eq, GenFuncs.Des.round_eq, GenFuncs.Des.ip_eq, BC.Des.encrypt, List.foldl]

/-- the sixteen rounds in reverse key order = `Des::decrypt` of the model -/
theorem core_dec (k0 k1 k2 k3 k4 k5 k6 k7 k8 k9 k10 k11 k12 k13 k14 k15 x : BitVec 64) :
    des_fp ((des_round (des_round (des_round (des_round (des_round (des_round (des_round (des_round (des_round (des_round (des_round (des_round (des_round (des_round (des_round (des_round (des_ip x) k15) k14) k13) k12) k11) k10) k9) k8) k7) k6) k5) k4) k3) k2) k1) k0).rotateRight 32) =
      BC.Des.decrypt [k0, k1, k2, k3, k4, k5, k6, k7, k8, k9, k10, k11, k12, k13, k14, k15] x := by
  simp only [GenFuncs.Des.fp_eq, GenFuncs.Des.round_eq, GenFuncs.Des.ip_eq, BC.Des.decrypt, List.foldl,
    List.reverse, List.reverseAux]

/-- `des_encrypt_block` (regenerated) is the model's function, for all round keys and blocks -/
theorem des_encrypt_block_eq (self_keys0 self_keys1 self_keys2 self_keys3 self_keys4 self_keys5 self_keys6 self_keys7 self_keys8 self_keys9 self_keys10 self_keys11 self_keys12 self_keys13 self_keys14 self_keys15 block : BitVec 64) :
    des_encrypt_block self_keys0 self_keys1 self_keys2 self_keys3 self_keys4 self_keys5 self_keys6 self_keys7 self_keys8 self_keys9 self_keys10 self_keys11 self_keys12 self_keys13 self_keys14 self_keys15 block =
      BC.Des.encrypt [self_keys0, self_keys1, self_keys2, self_keys3, self_keys4, self_keys5, self_keys6, self_keys7, self_keys8, self_keys9, self_keys10, self_keys11, self_keys12, self_keys13, self_keys14, self_keys15] block := by
  unfold des_encrypt_block
  extract_lets -merge
  name_lets
  have hd : data = block := bytes_id block
  have hi0 : delta_swap_r_4 = des_ip data := rfl
  have hr0_0 : round_r = des_round delta_swap_r_4 self_keys0 := rfl
  have hr0_1 : round_r_1 = des_round round_r self_keys1 := rfl
  have hr0_2 : round_r_2 = des_round round_r_1 self_keys2 := rfl
  have hr0_3 : round_r_3 = des_round round_r_2 self_keys3 := rfl
  have hr0_4 : round_r_4 = des_round round_r_3 self_keys4 := rfl
  have hr0_5 : round_r_5 = des_round round_r_4 self_keys5 := rfl
  have hr0_6 : round_r_6 = des_round round_r_5 self_keys6 := rfl
  have hr0_7 : round_r_7 = des_round round_r_6 self_keys7 := rfl
  have hr0_8 : round_r_8 = des_round round_r_7 self_keys8 := rfl
  have hr0_9 : round_r_9 = des_round round_r_8 self_keys9 := rfl
  have hr0_10 : round_r_10 = des_round round_r_9 self_keys10 := rfl
  have hr0_11 : round_r_11 = des_round round_r_10 self_keys11 := rfl
  have hr0_12 : round_r_12 = des_round round_r_11 self_keys12 := rfl
  have hr0_13 : round_r_13 = des_round round_r_12 self_keys13 := rfl
  have hr0_14 : round_r_14 = des_round round_r_13 self_keys14 := rfl
  have hr0_15 : round_r_15 = des_round round_r_14 self_keys15 := rfl
  have hf0 : delta_swap_r_9 = des_fp (round_r_15.rotateRight 32) := rfl
  have hs0 : delta_swap_r_9 = BC.Des.encrypt [self_keys0, self_keys1, self_keys2, self_keys3, self_keys4, self_keys5, self_keys6, self_keys7, self_keys8, self_keys9, self_keys10, self_keys11, self_keys12, self_keys13, self_keys14, self_keys15] data := by
    rw [hf0, hr0_15, hr0_14, hr0_13, hr0_12, hr0_11, hr0_10, hr0_9, hr0_8, hr0_7, hr0_6, hr0_5, hr0_4, hr0_3, hr0_2, hr0_1, hr0_0, hi0]
    apply core_enc
  rw [bytes_id, hs0, hd]

/-- `des_decrypt_block` (regenerated) is the model's function, for all round keys and blocks -/
theorem des_decrypt_block_eq (self_keys0 self_keys1 self_keys2 self_keys3 self_keys4 self_keys5 self_keys6 self_keys7 self_keys8 self_keys9 self_keys10 self_keys11 self_keys12 self_keys13 self_keys14 self_keys15 block : BitVec 64) :
    des_decrypt_block self_keys0 self_keys1 self_keys2 self_keys3 self_keys4 self_keys5 self_keys6 self_keys7 self_keys8 self_keys9 self_keys10 self_keys11 self_keys12 self_keys13 self_keys14 self_keys15 block =
      BC.Des.decrypt [self_keys0, self_keys1, self_keys2, self_keys3, self_keys4, self_keys5, self_keys6, self_keys7, self_keys8, self_keys9, self_keys10, self_keys11, self_keys12, self_keys13, self_keys14, self_keys15] block := by
  unfold des_decrypt_block
  extract_lets -merge
  name_lets
  have hd : data = block := bytes_id block
  have hi0 : delta_swap_r_4 = des_ip data := rfl
  have hr0_0 : round_r = des_round delta_swap_r_4 self_keys15 := rfl
  have hr0_1 : round_r_1 = des_round round_r self_keys14 := rfl
  have hr0_2 : round_r_2 = des_round round_r_1 self_keys13 := rfl
  have hr0_3 : round_r_3 = des_round round_r_2 self_keys12 := rfl
  have hr0_4 : round_r_4 = des_round round_r_3 self_keys11 := rfl
  have hr0_5 : round_r_5 = des_round round_r_4 self_keys10 := rfl
  have hr0_6 : round_r_6 = des_round round_r_5 self_keys9 := rfl
  have hr0_7 : round_r_7 = des_round round_r_6 self_keys8 := rfl
  have hr0_8 : round_r_8 = des_round round_r_7 self_keys7 := rfl
  have hr0_9 : round_r_9 = des_round round_r_8 self_keys6 := rfl
  have hr0_10 : round_r_10 = des_round round_r_9 self_keys5 := rfl
  have hr0_11 : round_r_11 = des_round round_r_10 self_keys4 := rfl
  have hr0_12 : round_r_12 = des_round round_r_11 self_keys3 := rfl
  have hr0_13 : round_r_13 = des_round round_r_12 self_keys2 := rfl
  have hr0_14 : round_r_14 = des_round round_r_13 self_keys1 := rfl
  have hr0_15 : round_r_15 = des_round round_r_14 self_keys0 := rfl
  have hf0 : delta_swap_r_9 = des_fp (round_r_15.rotateRight 32) := rfl
  have hs0 : delta_swap_r_9 = BC.Des.decrypt [self_keys0, self_keys1, self_keys2, self_keys3, self_keys4, self_keys5, self_keys6, self_keys7, self_keys8, self_keys9, self_keys10, self_keys11, self_keys12, self_keys13, self_keys14, self_keys15] data := by
    rw [hf0, hr0_15, hr0_14, hr0_13, hr0_12, hr0_11, hr0_10, hr0_9, hr0_8, hr0_7, hr0_6, hr0_5, hr0_4, hr0_3, hr0_2, hr0_1, hr0_0, hi0]
    apply core_dec
  rw [bytes_id, hs0, hd]

/-- `tdesede3_encrypt_block` (regenerated) is the model's function, for all round keys and blocks -/
theorem tdesede3_encrypt_block_eq (self_d1_keys0 self_d1_keys1 self_d1_keys2 self_d1_keys3 self_d1_keys4 self_d1_keys5 self_d1_keys6 self_d1_keys7 self_d1_keys8 self_d1_keys9 self_d1_keys10 self_d1_keys11 self_d1_keys12 self_d1_keys13 self_d1_keys14 self_d1_keys15 self_d2_keys0 self_d2_keys1 self_d2_keys2 self_d2_keys3 self_d2_keys4 self_d2_keys5 self_d2_keys6 self_d2_keys7 self_d2_keys8 self_d2_keys9 self_d2_keys10 self_d2_keys11 self_d2_keys12 self_d2_keys13 self_d2_keys14 self_d2_keys15 self_d3_keys0 self_d3_keys1 self_d3_keys2 self_d3_keys3 self_d3_keys4 self_d3_keys5 self_d3_keys6 self_d3_keys7 self_d3_keys8 self_d3_keys9 self_d3_keys10 self_d3_keys11 self_d3_keys12 self_d3_keys13 self_d3_keys14 self_d3_keys15 block : BitVec 64) :
    tdesede3_encrypt_block self_d1_keys0 self_d1_keys1 self_d1_keys2 self_d1_keys3 self_d1_keys4 self_d1_keys5 self_d1_keys6 self_d1_keys7 self_d1_keys8 self_d1_keys9 self_d1_keys10 self_d1_keys11 self_d1_keys12 self_d1_keys13 self_d1_keys14 self_d1_keys15 self_d2_keys0 self_d2_keys1 self_d2_keys2 self_d2_keys3 self_d2_keys4 self_d2_keys5 self_d2_keys6 self_d2_keys7 self_d2_keys8 self_d2_keys9 self_d2_keys10 self_d2_keys11 self_d2_keys12 self_d2_keys13 self_d2_keys14 self_d2_keys15 self_d3_keys0 self_d3_keys1 self_d3_keys2 self_d3_keys3 self_d3_keys4 self_d3_keys5 self_d3_keys6 self_d3_keys7 self_d3_keys8 self_d3_keys9 self_d3_keys10 self_d3_keys11 self_d3_keys12 self_d3_keys13 self_d3_keys14 self_d3_keys15 block =
      BC.Des.ede3Enc { d1 := [self_d1_keys0, self_d1_keys1, self_d1_keys2, self_d1_keys3, self_d1_keys4, self_d1_keys5, self_d1_keys6, self_d1_keys7, self_d1_keys8, self_d1_keys9, self_d1_keys10, self_d1_keys11, self_d1_keys12, self_d1_keys13, self_d1_keys14, self_d1_keys15], d2 := [self_d2_keys0, self_d2_keys1, self_d2_keys2, self_d2_keys3, self_d2_keys4, self_d2_keys5, self_d2_keys6, self_d2_keys7, self_d2_keys8, self_d2_keys9, self_d2_keys10, self_d2_keys11, self_d2_keys12, self_d2_keys13, self_d2_keys14, self_d2_keys15], d3 := [self_d3_keys0, self_d3_keys1, self_d3_keys2, self_d3_keys3, self_d3_keys4, self_d3_keys5, self_d3_keys6, self_d3_keys7, self_d3_keys8, self_d3_keys9, self_d3_keys10, self_d3_keys11, self_d3_keys12, self_d3_keys13, self_d3_keys14, self_d3_keys15] } block := by
  unfold tdesede3_encrypt_block
  extract_lets -merge
  name_lets
  have hd : data = block := bytes_id block
  have hi0 : delta_swap_r_4 = des_ip data := rfl
  have hr0_0 : round_r = des_round delta_swap_r_4 self_d1_keys0 := rfl
  have hr0_1 : round_r_1 = des_round round_r self_d1_keys1 := rfl
  have hr0_2 : round_r_2 = des_round round_r_1 self_d1_keys2 := rfl
  have hr0_3 : round_r_3 = des_round round_r_2 self_d1_keys3 := rfl
  have hr0_4 : round_r_4 = des_round round_r_3 self_d1_keys4 := rfl
  have hr0_5 : round_r_5 = des_round round_r_4 self_d1_keys5 := rfl
  have hr0_6 : round_r_6 = des_round round_r_5 self_d1_keys6 := rfl
  have hr0_7 : round_r_7 = des_round round_r_6 self_d1_keys7 := rfl
  have hr0_8 : round_r_8 = des_round round_r_7 self_d1_keys8 := rfl
  have hr0_9 : round_r_9 = des_round round_r_8 self_d1_keys9 := rfl
  have hr0_10 : round_r_10 = des_round round_r_9 self_d1_keys10 := rfl
  have hr0_11 : round_r_11 = des_round round_r_10 self_d1_keys11 := rfl
  have hr0_12 : round_r_12 = des_round round_r_11 self_d1_keys12 := rfl
  have hr0_13 : round_r_13 = des_round round_r_12 self_d1_keys13 := rfl
  have hr0_14 : round_r_14 = des_round round_r_13 self_d1_keys14 := rfl
  have hr0_15 : round_r_15 = des_round round_r_14 self_d1_keys15 := rfl
  have hf0 : delta_swap_r_9 = des_fp (round_r_15.rotateRight 32) := rfl
  have hs0 : delta_swap_r_9 = BC.Des.encrypt [self_d1_keys0, self_d1_keys1, self_d1_keys2, self_d1_keys3, self_d1_keys4, self_d1_keys5, self_d1_keys6, self_d1_keys7, self_d1_keys8, self_d1_keys9, self_d1_keys10, self_d1_keys11, self_d1_keys12, self_d1_keys13, self_d1_keys14, self_d1_keys15] data := by
    rw [hf0, hr0_15, hr0_14, hr0_13, hr0_12, hr0_11, hr0_10, hr0_9, hr0_8, hr0_7, hr0_6, hr0_5, hr0_4, hr0_3, hr0_2, hr0_1, hr0_0, hi0]
    apply core_enc
  have hi1 : delta_swap_r_14 = des_ip delta_swap_r_9 := rfl
  have hr1_0 : round_r_16 = des_round delta_swap_r_14 self_d2_keys15 := rfl
  have hr1_1 : round_r_17 = des_round round_r_16 self_d2_keys14 := rfl
  have hr1_2 : round_r_18 = des_round round_r_17 self_d2_keys13 := rfl
  have hr1_3 : round_r_19 = des_round round_r_18 self_d2_keys12 := rfl
  have hr1_4 : round_r_20 = des_round round_r_19 self_d2_keys11 := rfl
  have hr1_5 : round_r_21 = des_round round_r_20 self_d2_keys10 := rfl
  have hr1_6 : round_r_22 = des_round round_r_21 self_d2_keys9 := rfl
  have hr1_7 : round_r_23 = des_round round_r_22 self_d2_keys8 := rfl
  have hr1_8 : round_r_24 = des_round round_r_23 self_d2_keys7 := rfl
  have hr1_9 : round_r_25 = des_round round_r_24 self_d2_keys6 := rfl
  have hr1_10 : round_r_26 = des_round round_r_25 self_d2_keys5 := rfl
  have hr1_11 : round_r_27 = des_round round_r_26 self_d2_keys4 := rfl
  have hr1_12 : round_r_28 = des_round round_r_27 self_d2_keys3 := rfl
  have hr1_13 : round_r_29 = des_round round_r_28 self_d2_keys2 := rfl
  have hr1_14 : round_r_30 = des_round round_r_29 self_d2_keys1 := rfl
  have hr1_15 : round_r_31 = des_round round_r_30 self_d2_keys0 := rfl
  have hf1 : delta_swap_r_19 = des_fp (round_r_31.rotateRight 32) := rfl
  have hs1 : delta_swap_r_19 = BC.Des.decrypt [self_d2_keys0, self_d2_keys1, self_d2_keys2, self_d2_keys3, self_d2_keys4, self_d2_keys5, self_d2_keys6, self_d2_keys7, self_d2_keys8, self_d2_keys9, self_d2_keys10, self_d2_keys11, self_d2_keys12, self_d2_keys13, self_d2_keys14, self_d2_keys15] delta_swap_r_9 := by
    rw [hf1, hr1_15, hr1_14, hr1_13, hr1_12, hr1_11, hr1_10, hr1_9, hr1_8, hr1_7, hr1_6, hr1_5, hr1_4, hr1_3, hr1_2, hr1_1, hr1_0, hi1]
    apply core_dec
  have hi2 : delta_swap_r_24 = des_ip delta_swap_r_19 := rfl
  have hr2_0 : round_r_32 = des_round delta_swap_r_24 self_d3_keys0 := rfl
  have hr2_1 : round_r_33 = des_round round_r_32 self_d3_keys1 := rfl
  have hr2_2 : round_r_34 = des_round round_r_33 self_d3_keys2 := rfl
  have hr2_3 : round_r_35 = des_round round_r_34 self_d3_keys3 := rfl
  have hr2_4 : round_r_36 = des_round round_r_35 self_d3_keys4 := rfl
  have hr2_5 : round_r_37 = des_round round_r_36 self_d3_keys5 := rfl
  have hr2_6 : round_r_38 = des_round round_r_37 self_d3_keys6 := rfl
  have hr2_7 : round_r_39 = des_round round_r_38 self_d3_keys7 := rfl
  have hr2_8 : round_r_40 = des_round round_r_39 self_d3_keys8 := rfl
  have hr2_9 : round_r_41 = des_round round_r_40 self_d3_keys9 := rfl
  have hr2_10 : round_r_42 = des_round round_r_41 self_d3_keys10 := rfl
  have hr2_11 : round_r_43 = des_round round_r_42 self_d3_keys11 := rfl
  have hr2_12 : round_r_44 = des_round round_r_43 self_d3_keys12 := rfl
  have hr2_13 : round_r_45 = des_round round_r_44 self_d3_keys13 := rfl
  have hr2_14 : round_r_46 = des_round round_r_45 self_d3_keys14 := rfl
  have hr2_15 : round_r_47 = des_round round_r_46 self_d3_keys15 := rfl
  have hf2 : delta_swap_r_29 = des_fp (round_r_47.rotateRight 32) := rfl
  have hs2 : delta_swap_r_29 = BC.Des.encrypt [self_d3_keys0, self_d3_keys1, self_d3_keys2, self_d3_keys3, self_d3_keys4, self_d3_keys5, self_d3_keys6, self_d3_keys7, self_d3_keys8, self_d3_keys9, self_d3_keys10, self_d3_keys11, self_d3_keys12, self_d3_keys13, self_d3_keys14, self_d3_keys15] delta_swap_r_19 := by
    rw [hf2, hr2_15, hr2_14, hr2_13, hr2_12, hr2_11, hr2_10, hr2_9, hr2_8, hr2_7, hr2_6, hr2_5, hr2_4, hr2_3, hr2_2, hr2_1, hr2_0, hi2]
    apply core_enc
  rw [bytes_id, hs2, hs1, hs0, hd]
  rfl

/-- `tdesede3_decrypt_block` (regenerated) is the model's function, for all round keys and blocks -/
theorem tdesede3_decrypt_block_eq (self_d1_keys0 self_d1_keys1 self_d1_keys2 self_d1_keys3 self_d1_keys4 self_d1_keys5 self_d1_keys6 self_d1_keys7 self_d1_keys8 self_d1_keys9 self_d1_keys10 self_d1_keys11 self_d1_keys12 self_d1_keys13 self_d1_keys14 self_d1_keys15 self_d2_keys0 self_d2_keys1 self_d2_keys2 self_d2_keys3 self_d2_keys4 self_d2_keys5 self_d2_keys6 self_d2_keys7 self_d2_keys8 self_d2_keys9 self_d2_keys10 self_d2_keys11 self_d2_keys12 self_d2_keys13 self_d2_keys14 self_d2_keys15 self_d3_keys0 self_d3_keys1 self_d3_keys2 self_d3_keys3 self_d3_keys4 self_d3_keys5 self_d3_keys6 self_d3_keys7 self_d3_keys8 self_d3_keys9 self_d3_keys10 self_d3_keys11 self_d3_keys12 self_d3_keys13 self_d3_keys14 self_d3_keys15 block : BitVec 64) :
    tdesede3_decrypt_block self_d1_keys0 self_d1_keys1 self_d1_keys2 self_d1_keys3 self_d1_keys4 self_d1_keys5 self_d1_keys6 self_d1_keys7 self_d1_keys8 self_d1_keys9 self_d1_keys10 self_d1_keys11 self_d1_keys12 self_d1_keys13 self_d1_keys14 self_d1_keys15 self_d2_keys0 self_d2_keys1 self_d2_keys2 self_d2_keys3 self_d2_keys4 self_d2_keys5 self_d2_keys6 self_d2_keys7 self_d2_keys8 self_d2_keys9 self_d2_keys10 self_d2_keys11 self_d2_keys12 self_d2_keys13 self_d2_keys14 self_d2_keys15 self_d3_keys0 self_d3_keys1 self_d3_keys2 self_d3_keys3 self_d3_keys4 self_d3_keys5 self_d3_keys6 self_d3_keys7 self_d3_keys8 self_d3_keys9 self_d3_keys10 self_d3_keys11 self_d3_keys12 self_d3_keys13 self_d3_keys14 self_d3_keys15 block =
      BC.Des.ede3Dec { d1 := [self_d1_keys0, self_d1_keys1, self_d1_keys2, self_d1_keys3, self_d1_keys4, self_d1_keys5, self_d1_keys6, self_d1_keys7, self_d1_keys8, self_d1_keys9, self_d1_keys10, self_d1_keys11, self_d1_keys12, self_d1_keys13, self_d1_keys14, self_d1_keys15], d2 := [self_d2_keys0, self_d2_keys1, self_d2_keys2, self_d2_keys3, self_d2_keys4, self_d2_keys5, self_d2_keys6, self_d2_keys7, self_d2_keys8, self_d2_keys9, self_d2_keys10, self_d2_keys11, self_d2_keys12, self_d2_keys13, self_d2_keys14, self_d2_keys15], d3 := [self_d3_keys0, self_d3_keys1, self_d3_keys2, self_d3_keys3, self_d3_keys4, self_d3_keys5, self_d3_keys6, self_d3_keys7, self_d3_keys8, self_d3_keys9, self_d3_keys10, self_d3_keys11, self_d3_keys12, self_d3_keys13, self_d3_keys14, self_d3_keys15] } block := by
  unfold tdesede3_decrypt_block
  extract_lets -merge
  name_lets
  have hd : data = block := bytes_id block
  have hi0 : delta_swap_r_4 = des_ip data := rfl
  have hr0_0 : round_r = des_round delta_swap_r_4 self_d3_keys15 := rfl
  have hr0_1 : round_r_1 = des_round round_r self_d3_keys14 := rfl
  have hr0_2 : round_r_2 = des_round round_r_1 self_d3_keys13 := rfl
  have hr0_3 : round_r_3 = des_round round_r_2 self_d3_keys12 := rfl
  have hr0_4 : round_r_4 = des_round round_r_3 self_d3_keys11 := rfl
  have hr0_5 : round_r_5 = des_round round_r_4 self_d3_keys10 := rfl
  have hr0_6 : round_r_6 = des_round round_r_5 self_d3_keys9 := rfl
  have hr0_7 : round_r_7 = des_round round_r_6 self_d3_keys8 := rfl
  have hr0_8 : round_r_8 = des_round round_r_7 self_d3_keys7 := rfl
  have hr0_9 : round_r_9 = des_round round_r_8 self_d3_keys6 := rfl
  have hr0_10 : round_r_10 = des_round round_r_9 self_d3_keys5 := rfl
  have hr0_11 : round_r_11 = des_round round_r_10 self_d3_keys4 := rfl
  have hr0_12 : round_r_12 = des_round round_r_11 self_d3_keys3 := rfl
  have hr0_13 : round_r_13 = des_round round_r_12 self_d3_keys2 := rfl
  have hr0_14 : round_r_14 = des_round round_r_13 self_d3_keys1 := rfl
  have hr0_15 : round_r_15 = des_round round_r_14 self_d3_keys0 := rfl
  have hf0 : delta_swap_r_9 = des_fp (round_r_15.rotateRight 32) := rfl
  have hs0 : delta_swap_r_9 = BC.Des.decrypt [self_d3_keys0, self_d3_keys1, self_d3_keys2, self_d3_keys3, self_d3_keys4, self_d3_keys5, self_d3_keys6, self_d3_keys7, self_d3_keys8, self_d3_keys9, self_d3_keys10, self_d3_keys11, self_d3_keys12, self_d3_keys13, self_d3_keys14, self_d3_keys15] data := by
    rw [hf0, hr0_15, hr0_14, hr0_13, hr0_12, hr0_11, hr0_10, hr0_9, hr0_8, hr0_7, hr0_6, hr0_5, hr0_4, hr0_3, hr0_2, hr0_1, hr0_0, hi0]
    apply core_dec
  have hi1 : delta_swap_r_14 = des_ip delta_swap_r_9 := rfl
  have hr1_0 : round_r_16 = des_round delta_swap_r_14 self_d2_keys0 := rfl
  have hr1_1 : round_r_17 = des_round round_r_16 self_d2_keys1 := rfl
  have hr1_2 : round_r_18 = des_round round_r_17 self_d2_keys2 := rfl
  have hr1_3 : round_r_19 = des_round round_r_18 self_d2_keys3 := rfl
  have hr1_4 : round_r_20 = des_round round_r_19 self_d2_keys4 := rfl
  have hr1_5 : round_r_21 = des_round round_r_20 self_d2_keys5 := rfl
  have hr1_6 : round_r_22 = des_round round_r_21 self_d2_keys6 := rfl
  have hr1_7 : round_r_23 = des_round round_r_22 self_d2_keys7 := rfl
  have hr1_8 : round_r_24 = des_round round_r_23 self_d2_keys8 := rfl
  have hr1_9 : round_r_25 = des_round round_r_24 self_d2_keys9 := rfl
  have hr1_10 : round_r_26 = des_round round_r_25 self_d2_keys10 := rfl
  have hr1_11 : round_r_27 = des_round round_r_26 self_d2_keys11 := rfl
  have hr1_12 : round_r_28 = des_round round_r_27 self_d2_keys12 := rfl
  have hr1_13 : round_r_29 = des_round round_r_28 self_d2_keys13 := rfl
  have hr1_14 : round_r_30 = des_round round_r_29 self_d2_keys14 := rfl
  have hr1_15 : round_r_31 = des_round round_r_30 self_d2_keys15 := rfl
  have hf1 : delta_swap_r_19 = des_fp (round_r_31.rotateRight 32) := rfl
  have hs1 : delta_swap_r_19 = BC.Des.encrypt [self_d2_keys0, self_d2_keys1, self_d2_keys2, self_d2_keys3, self_d2_keys4, self_d2_keys5, self_d2_keys6, self_d2_keys7, self_d2_keys8, self_d2_keys9, self_d2_keys10, self_d2_keys11, self_d2_keys12, self_d2_keys13, self_d2_keys14, self_d2_keys15] delta_swap_r_9 := by
    rw [hf1, hr1_15, hr1_14, hr1_13, hr1_12, hr1_11, hr1_10, hr1_9, hr1_8, hr1_7, hr1_6, hr1_5, hr1_4, hr1_3, hr1_2, hr1_1, hr1_0, hi1]
    apply core_enc
  have hi2 : delta_swap_r_24 = des_ip delta_swap_r_19 := rfl
  have hr2_0 : round_r_32 = des_round delta_swap_r_24 self_d1_keys15 := rfl
  have hr2_1 : round_r_33 = des_round round_r_32 self_d1_keys14 := rfl
  have hr2_2 : round_r_34 = des_round round_r_33 self_d1_keys13 := rfl
  have hr2_3 : round_r_35 = des_round round_r_34 self_d1_keys12 := rfl
  have hr2_4 : round_r_36 = des_round round_r_35 self_d1_keys11 := rfl
  have hr2_5 : round_r_37 = des_round round_r_36 self_d1_keys10 := rfl
  have hr2_6 : round_r_38 = des_round round_r_37 self_d1_keys9 := rfl
  have hr2_7 : round_r_39 = des_round round_r_38 self_d1_keys8 := rfl
  have hr2_8 : round_r_40 = des_round round_r_39 self_d1_keys7 := rfl
  have hr2_9 : round_r_41 = des_round round_r_40 self_d1_keys6 := rfl
  have hr2_10 : round_r_42 = des_round round_r_41 self_d1_keys5 := rfl
  have hr2_11 : round_r_43 = des_round round_r_42 self_d1_keys4 := rfl
  have hr2_12 : round_r_44 = des_round round_r_43 self_d1_keys3 := rfl
  have hr2_13 : round_r_45 = des_round round_r_44 self_d1_keys2 := rfl
  have hr2_14 : round_r_46 = des_round round_r_45 self_d1_keys1 := rfl
  have hr2_15 : round_r_47 = des_round round_r_46 self_d1_keys0 := rfl
  have hf2 : delta_swap_r_29 = des_fp (round_r_47.rotateRight 32) := rfl
  have hs2 : delta_swap_r_29 = BC.Des.decrypt [self_d1_keys0, self_d1_keys1, self_d1_keys2, self_d1_keys3, self_d1_keys4, self_d1_keys5, self_d1_keys6, self_d1_keys7, self_d1_keys8, self_d1_keys9, self_d1_keys10, self_d1_keys11, self_d1_keys12, self_d1_keys13, self_d1_keys14, self_d1_keys15] delta_swap_r_19 := by
    rw [hf2, hr2_15, hr2_14, hr2_13, hr2_12, hr2_11, hr2_10, hr2_9, hr2_8, hr2_7, hr2_6, hr2_5, hr2_4, hr2_3, hr2_2, hr2_1, hr2_0, hi2]
    apply core_dec
  rw [bytes_id, hs2, hs1, hs0, hd]
  rfl

/-- `tdesede2_encrypt_block` (regenerated) is the model's function, for all round keys and blocks -/
theorem tdesede2_encrypt_block_eq (self_d1_keys0 self_d1_keys1 self_d1_keys2 self_d1_keys3 self_d1_keys4 self_d1_keys5 self_d1_keys6 self_d1_keys7 self_d1_keys8 self_d1_keys9 self_d1_keys10 self_d1_keys11 self_d1_keys12 self_d1_keys13 self_d1_keys14 self_d1_keys15 self_d2_keys0 self_d2_keys1 self_d2_keys2 self_d2_keys3 self_d2_keys4 self_d2_keys5 self_d2_keys6 self_d2_keys7 self_d2_keys8 self_d2_keys9 self_d2_keys10 self_d2_keys11 self_d2_keys12 self_d2_keys13 self_d2_keys14 self_d2_keys15 block : BitVec 64) :
    tdesede2_encrypt_block self_d1_keys0 self_d1_keys1 self_d1_keys2 self_d1_keys3 self_d1_keys4 self_d1_keys5 self_d1_keys6 self_d1_keys7 self_d1_keys8 self_d1_keys9 self_d1_keys10 self_d1_keys11 self_d1_keys12 self_d1_keys13 self_d1_keys14 self_d1_keys15 self_d2_keys0 self_d2_keys1 self_d2_keys2 self_d2_keys3 self_d2_keys4 self_d2_keys5 self_d2_keys6 self_d2_keys7 self_d2_keys8 self_d2_keys9 self_d2_keys10 self_d2_keys11 self_d2_keys12 self_d2_keys13 self_d2_keys14 self_d2_keys15 block =
      BC.Des.ede2Enc { d1 := [self_d1_keys0, self_d1_keys1, self_d1_keys2, self_d1_keys3, self_d1_keys4, self_d1_keys5, self_d1_keys6, self_d1_keys7, self_d1_keys8, self_d1_keys9, self_d1_keys10, self_d1_keys11, self_d1_keys12, self_d1_keys13, self_d1_keys14, self_d1_keys15], d2 := [self_d2_keys0, self_d2_keys1, self_d2_keys2, self_d2_keys3, self_d2_keys4, self_d2_keys5, self_d2_keys6, self_d2_keys7, self_d2_keys8, self_d2_keys9, self_d2_keys10, self_d2_keys11, self_d2_keys12, self_d2_keys13, self_d2_keys14, self_d2_keys15] } block := by
  unfold tdesede2_encrypt_block
  extract_lets -merge
  name_lets
  have hd : data = block := bytes_id block
  have hi0 : delta_swap_r_4 = des_ip data := rfl
  have hr0_0 : round_r = des_round delta_swap_r_4 self_d1_keys0 := rfl
  have hr0_1 : round_r_1 = des_round round_r self_d1_keys1 := rfl
  have hr0_2 : round_r_2 = des_round round_r_1 self_d1_keys2 := rfl
  have hr0_3 : round_r_3 = des_round round_r_2 self_d1_keys3 := rfl
  have hr0_4 : round_r_4 = des_round round_r_3 self_d1_keys4 := rfl
  have hr0_5 : round_r_5 = des_round round_r_4 self_d1_keys5 := rfl
  have hr0_6 : round_r_6 = des_round round_r_5 self_d1_keys6 := rfl
  have hr0_7 : round_r_7 = des_round round_r_6 self_d1_keys7 := rfl
  have hr0_8 : round_r_8 = des_round round_r_7 self_d1_keys8 := rfl
  have hr0_9 : round_r_9 = des_round round_r_8 self_d1_keys9 := rfl
  have hr0_10 : round_r_10 = des_round round_r_9 self_d1_keys10 := rfl
  have hr0_11 : round_r_11 = des_round round_r_10 self_d1_keys11 := rfl
  have hr0_12 : round_r_12 = des_round round_r_11 self_d1_keys12 := rfl
  have hr0_13 : round_r_13 = des_round round_r_12 self_d1_keys13 := rfl
  have hr0_14 : round_r_14 = des_round round_r_13 self_d1_keys14 := rfl
  have hr0_15 : round_r_15 = des_round round_r_14 self_d1_keys15 := rfl
  have hf0 : delta_swap_r_9 = des_fp (round_r_15.rotateRight 32) := rfl
  have hs0 : delta_swap_r_9 = BC.Des.encrypt [self_d1_keys0, self_d1_keys1, self_d1_keys2, self_d1_keys3, self_d1_keys4, self_d1_keys5, self_d1_keys6, self_d1_keys7, self_d1_keys8, self_d1_keys9, self_d1_keys10, self_d1_keys11, self_d1_keys12, self_d1_keys13, self_d1_keys14, self_d1_keys15] data := by
    rw [hf0, hr0_15, hr0_14, hr0_13, hr0_12, hr0_11, hr0_10, hr0_9, hr0_8, hr0_7, hr0_6, hr0_5, hr0_4, hr0_3, hr0_2, hr0_1, hr0_0, hi0]
    apply core_enc
  have hi1 : delta_swap_r_14 = des_ip delta_swap_r_9 := rfl
  have hr1_0 : round_r_16 = des_round delta_swap_r_14 self_d2_keys15 := rfl
  have hr1_1 : round_r_17 = des_round round_r_16 self_d2_keys14 := rfl
  have hr1_2 : round_r_18 = des_round round_r_17 self_d2_keys13 := rfl
  have hr1_3 : round_r_19 = des_round round_r_18 self_d2_keys12 := rfl
  have hr1_4 : round_r_20 = des_round round_r_19 self_d2_keys11 := rfl
  have hr1_5 : round_r_21 = des_round round_r_20 self_d2_keys10 := rfl
  have hr1_6 : round_r_22 = des_round round_r_21 self_d2_keys9 := rfl
  have hr1_7 : round_r_23 = des_round round_r_22 self_d2_keys8 := rfl
  have hr1_8 : round_r_24 = des_round round_r_23 self_d2_keys7 := rfl
  have hr1_9 : round_r_25 = des_round round_r_24 self_d2_keys6 := rfl
  have hr1_10 : round_r_26 = des_round round_r_25 self_d2_keys5 := rfl
  have hr1_11 : round_r_27 = des_round round_r_26 self_d2_keys4 := rfl
  have hr1_12 : round_r_28 = des_round round_r_27 self_d2_keys3 := rfl
  have hr1_13 : round_r_29 = des_round round_r_28 self_d2_keys2 := rfl
  have hr1_14 : round_r_30 = des_round round_r_29 self_d2_keys1 := rfl
  have hr1_15 : round_r_31 = des_round round_r_30 self_d2_keys0 := rfl
  have hf1 : delta_swap_r_19 = des_fp (round_r_31.rotateRight 32) := rfl
  have hs1 : delta_swap_r_19 = BC.Des.decrypt [self_d2_keys0, self_d2_keys1, self_d2_keys2, self_d2_keys3, self_d2_keys4, self_d2_keys5, self_d2_keys6, self_d2_keys7, self_d2_keys8, self_d2_keys9, self_d2_keys10, self_d2_keys11, self_d2_keys12, self_d2_keys13, self_d2_keys14, self_d2_keys15] delta_swap_r_9 := by
    rw [hf1, hr1_15, hr1_14, hr1_13, hr1_12, hr1_11, hr1_10, hr1_9, hr1_8, hr1_7, hr1_6, hr1_5, hr1_4, hr1_3, hr1_2, hr1_1, hr1_0, hi1]
    apply core_dec
  have hi2 : delta_swap_r_24 = des_ip delta_swap_r_19 := rfl
  have hr2_0 : round_r_32 = des_round delta_swap_r_24 self_d1_keys0 := rfl
  have hr2_1 : round_r_33 = des_round round_r_32 self_d1_keys1 := rfl
  have hr2_2 : round_r_34 = des_round round_r_33 self_d1_keys2 := rfl
  have hr2_3 : round_r_35 = des_round round_r_34 self_d1_keys3 := rfl
  have hr2_4 : round_r_36 = des_round round_r_35 self_d1_keys4 := rfl
  have hr2_5 : round_r_37 = des_round round_r_36 self_d1_keys5 := rfl
  have hr2_6 : round_r_38 = des_round round_r_37 self_d1_keys6 := rfl
  have hr2_7 : round_r_39 = des_round round_r_38 self_d1_keys7 := rfl
  have hr2_8 : round_r_40 = des_round round_r_39 self_d1_keys8 := rfl
  have hr2_9 : round_r_41 = des_round round_r_40 self_d1_keys9 := rfl
  have hr2_10 : round_r_42 = des_round round_r_41 self_d1_keys10 := rfl
  have hr2_11 : round_r_43 = des_round round_r_42 self_d1_keys11 := rfl
  have hr2_12 : round_r_44 = des_round round_r_43 self_d1_keys12 := rfl
  have hr2_13 : round_r_45 = des_round round_r_44 self_d1_keys13 := rfl
  have hr2_14 : round_r_46 = des_round round_r_45 self_d1_keys14 := rfl
  have hr2_15 : round_r_47 = des_round round_r_46 self_d1_keys15 := rfl
  have hf2 : delta_swap_r_29 = des_fp (round_r_47.rotateRight 32) := rfl
  have hs2 : delta_swap_r_29 = BC.Des.encrypt [self_d1_keys0, self_d1_keys1, self_d1_keys2, self_d1_keys3, self_d1_keys4, self_d1_keys5, self_d1_keys6, self_d1_keys7, self_d1_keys8, self_d1_keys9, self_d1_keys10, self_d1_keys11, self_d1_keys12, self_d1_keys13, self_d1_keys14, self_d1_keys15] delta_swap_r_19 := by
    rw [hf2, hr2_15, hr2_14, hr2_13, hr2_12, hr2_11, hr2_10, hr2_9, hr2_8, hr2_7, hr2_6, hr2_5, hr2_4, hr2_3, hr2_2, hr2_1, hr2_0, hi2]
    apply core_enc
  rw [bytes_id, hs2, hs1, hs0, hd]
  rfl

/-- `tdesede2_decrypt_block` (regenerated) is the model's function, for all round keys and blocks -/
theorem tdesede2_decrypt_block_eq (self_d1_keys0 self_d1_keys1 self_d1_keys2 self_d1_keys3 self_d1_keys4 self_d1_keys5 self_d1_keys6 self_d1_keys7 self_d1_keys8 self_d1_keys9 self_d1_keys10 self_d1_keys11 self_d1_keys12 self_d1_keys13 self_d1_keys14 self_d1_keys15 self_d2_keys0 self_d2_keys1 self_d2_keys2 self_d2_keys3 self_d2_keys4 self_d2_keys5 self_d2_keys6 self_d2_keys7 self_d2_keys8 self_d2_keys9 self_d2_keys10 self_d2_keys11 self_d2_keys12 self_d2_keys13 self_d2_keys14 self_d2_keys15 block : BitVec 64) :
    tdesede2_decrypt_block self_d1_keys0 self_d1_keys1 self_d1_keys2 self_d1_keys3 self_d1_keys4 self_d1_keys5 self_d1_keys6 self_d1_keys7 self_d1_keys8 self_d1_keys9 self_d1_keys10 self_d1_keys11 self_d1_keys12 self_d1_keys13 self_d1_keys14 self_d1_keys15 self_d2_keys0 self_d2_keys1 self_d2_keys2 self_d2_keys3 self_d2_keys4 self_d2_keys5 self_d2_keys6 self_d2_keys7 self_d2_keys8 self_d2_keys9 self_d2_keys10 self_d2_keys11 self_d2_keys12 self_d2_keys13 self_d2_keys14 self_d2_keys15 block =
      BC.Des.ede2Dec { d1 := [self_d1_keys0, self_d1_keys1, self_d1_keys2, self_d1_keys3, self_d1_keys4, self_d1_keys5, self_d1_keys6, self_d1_keys7, self_d1_keys8, self_d1_keys9, self_d1_keys10, self_d1_keys11, self_d1_keys12, self_d1_keys13, self_d1_keys14, self_d1_keys15], d2 := [self_d2_keys0, self_d2_keys1, self_d2_keys2, self_d2_keys3, self_d2_keys4, self_d2_keys5, self_d2_keys6, self_d2_keys7, self_d2_keys8, self_d2_keys9, self_d2_keys10, self_d2_keys11, self_d2_keys12, self_d2_keys13, self_d2_keys14, self_d2_keys15] } block := by
  unfold tdesede2_decrypt_block
  extract_lets -merge
  name_lets
  have hd : data = block := bytes_id block
  have hi0 : delta_swap_r_4 = des_ip data := rfl
  have hr0_0 : round_r = des_round delta_swap_r_4 self_d1_keys15 := rfl
  have hr0_1 : round_r_1 = des_round round_r self_d1_keys14 := rfl
  have hr0_2 : round_r_2 = des_round round_r_1 self_d1_keys13 := rfl
  have hr0_3 : round_r_3 = des_round round_r_2 self_d1_keys12 := rfl
  have hr0_4 : round_r_4 = des_round round_r_3 self_d1_keys11 := rfl
  have hr0_5 : round_r_5 = des_round round_r_4 self_d1_keys10 := rfl
  have hr0_6 : round_r_6 = des_round round_r_5 self_d1_keys9 := rfl
  have hr0_7 : round_r_7 = des_round round_r_6 self_d1_keys8 := rfl
  have hr0_8 : round_r_8 = des_round round_r_7 self_d1_keys7 := rfl
  have hr0_9 : round_r_9 = des_round round_r_8 self_d1_keys6 := rfl
  have hr0_10 : round_r_10 = des_round round_r_9 self_d1_keys5 := rfl
  have hr0_11 : round_r_11 = des_round round_r_10 self_d1_keys4 := rfl
  have hr0_12 : round_r_12 = des_round round_r_11 self_d1_keys3 := rfl
  have hr0_13 : round_r_13 = des_round round_r_12 self_d1_keys2 := rfl
  have hr0_14 : round_r_14 = des_round round_r_13 self_d1_keys1 := rfl
  have hr0_15 : round_r_15 = des_round round_r_14 self_d1_keys0 := rfl
  have hf0 : delta_swap_r_9 = des_fp (round_r_15.rotateRight 32) := rfl
  have hs0 : delta_swap_r_9 = BC.Des.decrypt [self_d1_keys0, self_d1_keys1, self_d1_keys2, self_d1_keys3, self_d1_keys4, self_d1_keys5, self_d1_keys6, self_d1_keys7, self_d1_keys8, self_d1_keys9, self_d1_keys10, self_d1_keys11, self_d1_keys12, self_d1_keys13, self_d1_keys14, self_d1_keys15] data := by
    rw [hf0, hr0_15, hr0_14, hr0_13, hr0_12, hr0_11, hr0_10, hr0_9, hr0_8, hr0_7, hr0_6, hr0_5, hr0_4, hr0_3, hr0_2, hr0_1, hr0_0, hi0]
    apply core_dec
  have hi1 : delta_swap_r_14 = des_ip delta_swap_r_9 := rfl
  have hr1_0 : round_r_16 = des_round delta_swap_r_14 self_d2_keys0 := rfl
  have hr1_1 : round_r_17 = des_round round_r_16 self_d2_keys1 := rfl
  have hr1_2 : round_r_18 = des_round round_r_17 self_d2_keys2 := rfl
  have hr1_3 : round_r_19 = des_round round_r_18 self_d2_keys3 := rfl
  have hr1_4 : round_r_20 = des_round round_r_19 self_d2_keys4 := rfl
  have hr1_5 : round_r_21 = des_round round_r_20 self_d2_keys5 := rfl
  have hr1_6 : round_r_22 = des_round round_r_21 self_d2_keys6 := rfl
  have hr1_7 : round_r_23 = des_round round_r_22 self_d2_keys7 := rfl
  have hr1_8 : round_r_24 = des_round round_r_23 self_d2_keys8 := rfl
  have hr1_9 : round_r_25 = des_round round_r_24 self_d2_keys9 := rfl
  have hr1_10 : round_r_26 = des_round round_r_25 self_d2_keys10 := rfl
  have hr1_11 : round_r_27 = des_round round_r_26 self_d2_keys11 := rfl
  have hr1_12 : round_r_28 = des_round round_r_27 self_d2_keys12 := rfl
  have hr1_13 : round_r_29 = des_round round_r_28 self_d2_keys13 := rfl
  have hr1_14 : round_r_30 = des_round round_r_29 self_d2_keys14 := rfl
  have hr1_15 : round_r_31 = des_round round_r_30 self_d2_keys15 := rfl
  have hf1 : delta_swap_r_19 = des_fp (round_r_31.rotateRight 32) := rfl
  have hs1 : delta_swap_r_19 = BC.Des.encrypt [self_d2_keys0, self_d2_keys1, self_d2_keys2, self_d2_keys3, self_d2_keys4, self_d2_keys5, self_d2_keys6, self_d2_keys7, self_d2_keys8, self_d2_keys9, self_d2_keys10, self_d2_keys11, self_d2_keys12, self_d2_keys13, self_d2_keys14, self_d2_keys15] delta_swap_r_9 := by
    rw [hf1, hr1_15, hr1_14, hr1_13, hr1_12, hr1_11, hr1_10, hr1_9, hr1_8, hr1_7, hr1_6, hr1_5, hr1_4, hr1_3, hr1_2, hr1_1, hr1_0, hi1]
    apply core_enc
  have hi2 : delta_swap_r_24 = des_ip delta_swap_r_19 := rfl
  have hr2_0 : round_r_32 = des_round delta_swap_r_24 self_d1_keys15 := rfl
  have hr2_1 : round_r_33 = des_round round_r_32 self_d1_keys14 := rfl
  have hr2_2 : round_r_34 = des_round round_r_33 self_d1_keys13 := rfl
  have hr2_3 : round_r_35 = des_round round_r_34 self_d1_keys12 := rfl
  have hr2_4 : round_r_36 = des_round round_r_35 self_d1_keys11 := rfl
  have hr2_5 : round_r_37 = des_round round_r_36 self_d1_keys10 := rfl
  have hr2_6 : round_r_38 = des_round round_r_37 self_d1_keys9 := rfl
  have hr2_7 : round_r_39 = des_round round_r_38 self_d1_keys8 := rfl
  have hr2_8 : round_r_40 = des_round round_r_39 self_d1_keys7 := rfl
  have hr2_9 : round_r_41 = des_round round_r_40 self_d1_keys6 := rfl
  have hr2_10 : round_r_42 = des_round round_r_41 self_d1_keys5 := rfl
  have hr2_11 : round_r_43 = des_round round_r_42 self_d1_keys4 := rfl
  have hr2_12 : round_r_44 = des_round round_r_43 self_d1_keys3 := rfl
  have hr2_13 : round_r_45 = des_round round_r_44 self_d1_keys2 := rfl
  have hr2_14 : round_r_46 = des_round round_r_45 self_d1_keys1 := rfl
  have hr2_15 : round_r_47 = des_round round_r_46 self_d1_keys0 := rfl
  have hf2 : delta_swap_r_29 = des_fp (round_r_47.rotateRight 32) := rfl
  have hs2 : delta_swap_r_29 = BC.Des.decrypt [self_d1_keys0, self_d1_keys1, self_d1_keys2, self_d1_keys3, self_d1_keys4, self_d1_keys5, self_d1_keys6, self_d1_keys7, self_d1_keys8, self_d1_keys9, self_d1_keys10, self_d1_keys11, self_d1_keys12, self_d1_keys13, self_d1_keys14, self_d1_keys15] delta_swap_r_19 := by
    rw [hf2, hr2_15, hr2_14, hr2_13, hr2_12, hr2_11, hr2_10, hr2_9, hr2_8, hr2_7, hr2_6, hr2_5, hr2_4, hr2_3, hr2_2, hr2_1, hr2_0, hi2]
    apply core_dec
  rw [bytes_id, hs2, hs1, hs0, hd]
  rfl

/-- `tdeseee3_encrypt_block` (regenerated) is the model's function, for all round keys and blocks -/
theorem tdeseee3_encrypt_block_eq (self_d1_keys0 self_d1_keys1 self_d1_keys2 self_d1_keys3 self_d1_keys4 self_d1_keys5 self_d1_keys6 self_d1_keys7 self_d1_keys8 self_d1_keys9 self_d1_keys10 self_d1_keys11 self_d1_keys12 self_d1_keys13 self_d1_keys14 self_d1_keys15 self_d2_keys0 self_d2_keys1 self_d2_keys2 self_d2_keys3 self_d2_keys4 self_d2_keys5 self_d2_keys6 self_d2_keys7 self_d2_keys8 self_d2_keys9 self_d2_keys10 self_d2_keys11 self_d2_keys12 self_d2_keys13 self_d2_keys14 self_d2_keys15 self_d3_keys0 self_d3_keys1 self_d3_keys2 self_d3_keys3 self_d3_keys4 self_d3_keys5 self_d3_keys6 self_d3_keys7 self_d3_keys8 self_d3_keys9 self_d3_keys10 self_d3_keys11 self_d3_keys12 self_d3_keys13 self_d3_keys14 self_d3_keys15 block : BitVec 64) :
    tdeseee3_encrypt_block self_d1_keys0 self_d1_keys1 self_d1_keys2 self_d1_keys3 self_d1_keys4 self_d1_keys5 self_d1_keys6 self_d1_keys7 self_d1_keys8 self_d1_keys9 self_d1_keys10 self_d1_keys11 self_d1_keys12 self_d1_keys13 self_d1_keys14 self_d1_keys15 self_d2_keys0 self_d2_keys1 self_d2_keys2 self_d2_keys3 self_d2_keys4 self_d2_keys5 self_d2_keys6 self_d2_keys7 self_d2_keys8 self_d2_keys9 self_d2_keys10 self_d2_keys11 self_d2_keys12 self_d2_keys13 self_d2_keys14 self_d2_keys15 self_d3_keys0 self_d3_keys1 self_d3_keys2 self_d3_keys3 self_d3_keys4 self_d3_keys5 self_d3_keys6 self_d3_keys7 self_d3_keys8 self_d3_keys9 self_d3_keys10 self_d3_keys11 self_d3_keys12 self_d3_keys13 self_d3_keys14 self_d3_keys15 block =
      BC.Des.eee3Enc { d1 := [self_d1_keys0, self_d1_keys1, self_d1_keys2, self_d1_keys3, self_d1_keys4, self_d1_keys5, self_d1_keys6, self_d1_keys7, self_d1_keys8, self_d1_keys9, self_d1_keys10, self_d1_keys11, self_d1_keys12, self_d1_keys13, self_d1_keys14, self_d1_keys15], d2 := [self_d2_keys0, self_d2_keys1, self_d2_keys2, self_d2_keys3, self_d2_keys4, self_d2_keys5, self_d2_keys6, self_d2_keys7, self_d2_keys8, self_d2_keys9, self_d2_keys10, self_d2_keys11, self_d2_keys12, self_d2_keys13, self_d2_keys14, self_d2_keys15], d3 := [self_d3_keys0, self_d3_keys1, self_d3_keys2, self_d3_keys3, self_d3_keys4, self_d3_keys5, self_d3_keys6, self_d3_keys7, self_d3_keys8, self_d3_keys9, self_d3_keys10, self_d3_keys11, self_d3_keys12, self_d3_keys13, self_d3_keys14, self_d3_keys15] } block := by
  unfold tdeseee3_encrypt_block
  extract_lets -merge
  name_lets
  have hd : data = block := bytes_id block
  have hi0 : delta_swap_r_4 = des_ip data := rfl
  have hr0_0 : round_r = des_round delta_swap_r_4 self_d1_keys0 := rfl
  have hr0_1 : round_r_1 = des_round round_r self_d1_keys1 := rfl
  have hr0_2 : round_r_2 = des_round round_r_1 self_d1_keys2 := rfl
  have hr0_3 : round_r_3 = des_round round_r_2 self_d1_keys3 := rfl
  have hr0_4 : round_r_4 = des_round round_r_3 self_d1_keys4 := rfl
  have hr0_5 : round_r_5 = des_round round_r_4 self_d1_keys5 := rfl
  have hr0_6 : round_r_6 = des_round round_r_5 self_d1_keys6 := rfl
  have hr0_7 : round_r_7 = des_round round_r_6 self_d1_keys7 := rfl
  have hr0_8 : round_r_8 = des_round round_r_7 self_d1_keys8 := rfl
  have hr0_9 : round_r_9 = des_round round_r_8 self_d1_keys9 := rfl
  have hr0_10 : round_r_10 = des_round round_r_9 self_d1_keys10 := rfl
  have hr0_11 : round_r_11 = des_round round_r_10 self_d1_keys11 := rfl
  have hr0_12 : round_r_12 = des_round round_r_11 self_d1_keys12 := rfl
  have hr0_13 : round_r_13 = des_round round_r_12 self_d1_keys13 := rfl
  have hr0_14 : round_r_14 = des_round round_r_13 self_d1_keys14 := rfl
  have hr0_15 : round_r_15 = des_round round_r_14 self_d1_keys15 := rfl
  have hf0 : delta_swap_r_9 = des_fp (round_r_15.rotateRight 32) := rfl
  have hs0 : delta_swap_r_9 = BC.Des.encrypt [self_d1_keys0, self_d1_keys1, self_d1_keys2, self_d1_keys3, self_d1_keys4, self_d1_keys5, self_d1_keys6, self_d1_keys7, self_d1_keys8, self_d1_keys9, self_d1_keys10, self_d1_keys11, self_d1_keys12, self_d1_keys13, self_d1_keys14, self_d1_keys15] data := by
    rw [hf0, hr0_15, hr0_14, hr0_13, hr0_12, hr0_11, hr0_10, hr0_9, hr0_8, hr0_7, hr0_6, hr0_5, hr0_4, hr0_3, hr0_2, hr0_1, hr0_0, hi0]
    apply core_enc
  have hi1 : delta_swap_r_14 = des_ip delta_swap_r_9 := rfl
  have hr1_0 : round_r_16 = des_round delta_swap_r_14 self_d2_keys0 := rfl
  have hr1_1 : round_r_17 = des_round round_r_16 self_d2_keys1 := rfl
  have hr1_2 : round_r_18 = des_round round_r_17 self_d2_keys2 := rfl
  have hr1_3 : round_r_19 = des_round round_r_18 self_d2_keys3 := rfl
  have hr1_4 : round_r_20 = des_round round_r_19 self_d2_keys4 := rfl
  have hr1_5 : round_r_21 = des_round round_r_20 self_d2_keys5 := rfl
  have hr1_6 : round_r_22 = des_round round_r_21 self_d2_keys6 := rfl
  have hr1_7 : round_r_23 = des_round round_r_22 self_d2_keys7 := rfl
  have hr1_8 : round_r_24 = des_round round_r_23 self_d2_keys8 := rfl
  have hr1_9 : round_r_25 = des_round round_r_24 self_d2_keys9 := rfl
  have hr1_10 : round_r_26 = des_round round_r_25 self_d2_keys10 := rfl
  have hr1_11 : round_r_27 = des_round round_r_26 self_d2_keys11 := rfl
  have hr1_12 : round_r_28 = des_round round_r_27 self_d2_keys12 := rfl
  have hr1_13 : round_r_29 = des_round round_r_28 self_d2_keys13 := rfl
  have hr1_14 : round_r_30 = des_round round_r_29 self_d2_keys14 := rfl
  have hr1_15 : round_r_31 = des_round round_r_30 self_d2_keys15 := rfl
  have hf1 : delta_swap_r_19 = des_fp (round_r_31.rotateRight 32) := rfl
  have hs1 : delta_swap_r_19 = BC.Des.encrypt [self_d2_keys0, self_d2_keys1, self_d2_keys2, self_d2_keys3, self_d2_keys4, self_d2_keys5, self_d2_keys6, self_d2_keys7, self_d2_keys8, self_d2_keys9, self_d2_keys10, self_d2_keys11, self_d2_keys12, self_d2_keys13, self_d2_keys14, self_d2_keys15] delta_swap_r_9 := by
    rw [hf1, hr1_15, hr1_14, hr1_13, hr1_12, hr1_11, hr1_10, hr1_9, hr1_8, hr1_7, hr1_6, hr1_5, hr1_4, hr1_3, hr1_2, hr1_1, hr1_0, hi1]
    apply core_enc
  have hi2 : delta_swap_r_24 = des_ip delta_swap_r_19 := rfl
  have hr2_0 : round_r_32 = des_round delta_swap_r_24 self_d3_keys0 := rfl
  have hr2_1 : round_r_33 = des_round round_r_32 self_d3_keys1 := rfl
  have hr2_2 : round_r_34 = des_round round_r_33 self_d3_keys2 := rfl
  have hr2_3 : round_r_35 = des_round round_r_34 self_d3_keys3 := rfl
  have hr2_4 : round_r_36 = des_round round_r_35 self_d3_keys4 := rfl
  have hr2_5 : round_r_37 = des_round round_r_36 self_d3_keys5 := rfl
  have hr2_6 : round_r_38 = des_round round_r_37 self_d3_keys6 := rfl
  have hr2_7 : round_r_39 = des_round round_r_38 self_d3_keys7 := rfl
  have hr2_8 : round_r_40 = des_round round_r_39 self_d3_keys8 := rfl
  have hr2_9 : round_r_41 = des_round round_r_40 self_d3_keys9 := rfl
  have hr2_10 : round_r_42 = des_round round_r_41 self_d3_keys10 := rfl
  have hr2_11 : round_r_43 = des_round round_r_42 self_d3_keys11 := rfl
  have hr2_12 : round_r_44 = des_round round_r_43 self_d3_keys12 := rfl
  have hr2_13 : round_r_45 = des_round round_r_44 self_d3_keys13 := rfl
  have hr2_14 : round_r_46 = des_round round_r_45 self_d3_keys14 := rfl
  have hr2_15 : round_r_47 = des_round round_r_46 self_d3_keys15 := rfl
  have hf2 : delta_swap_r_29 = des_fp (round_r_47.rotateRight 32) := rfl
  have hs2 : delta_swap_r_29 = BC.Des.encrypt [self_d3_keys0, self_d3_keys1, self_d3_keys2, self_d3_keys3, self_d3_keys4, self_d3_keys5, self_d3_keys6, self_d3_keys7, self_d3_keys8, self_d3_keys9, self_d3_keys10, self_d3_keys11, self_d3_keys12, self_d3_keys13, self_d3_keys14, self_d3_keys15] delta_swap_r_19 := by
    rw [hf2, hr2_15, hr2_14, hr2_13, hr2_12, hr2_11, hr2_10, hr2_9, hr2_8, hr2_7, hr2_6, hr2_5, hr2_4, hr2_3, hr2_2, hr2_1, hr2_0, hi2]
    apply core_enc
  rw [bytes_id, hs2, hs1, hs0, hd]
  rfl

/-- `tdeseee3_decrypt_block` (regenerated) is the model's function, for all round keys and blocks -/
theorem tdeseee3_decrypt_block_eq (self_d1_keys0 self_d1_keys1 self_d1_keys2 self_d1_keys3 self_d1_keys4 self_d1_keys5 self_d1_keys6 self_d1_keys7 self_d1_keys8 self_d1_keys9 self_d1_keys10 self_d1_keys11 self_d1_keys12 self_d1_keys13 self_d1_keys14 self_d1_keys15 self_d2_keys0 self_d2_keys1 self_d2_keys2 self_d2_keys3 self_d2_keys4 self_d2_keys5 self_d2_keys6 self_d2_keys7 self_d2_keys8 self_d2_keys9 self_d2_keys10 self_d2_keys11 self_d2_keys12 self_d2_keys13 self_d2_keys14 self_d2_keys15 self_d3_keys0 self_d3_keys1 self_d3_keys2 self_d3_keys3 self_d3_keys4 self_d3_keys5 self_d3_keys6 self_d3_keys7 self_d3_keys8 self_d3_keys9 self_d3_keys10 self_d3_keys11 self_d3_keys12 self_d3_keys13 self_d3_keys14 self_d3_keys15 block : BitVec 64) :
    tdeseee3_decrypt_block self_d1_keys0 self_d1_keys1 self_d1_keys2 self_d1_keys3 self_d1_keys4 self_d1_keys5 self_d1_keys6 self_d1_keys7 self_d1_keys8 self_d1_keys9 self_d1_keys10 self_d1_keys11 self_d1_keys12 self_d1_keys13 self_d1_keys14 self_d1_keys15 self_d2_keys0 self_d2_keys1 self_d2_keys2 self_d2_keys3 self_d2_keys4 self_d2_keys5 self_d2_keys6 self_d2_keys7 self_d2_keys8 self_d2_keys9 self_d2_keys10 self_d2_keys11 self_d2_keys12 self_d2_keys13 self_d2_keys14 self_d2_keys15 self_d3_keys0 self_d3_keys1 self_d3_keys2 self_d3_keys3 self_d3_keys4 self_d3_keys5 self_d3_keys6 self_d3_keys7 self_d3_keys8 self_d3_keys9 self_d3_keys10 self_d3_keys11 self_d3_keys12 self_d3_keys13 self_d3_keys14 self_d3_keys15 block =
      BC.Des.eee3Dec { d1 := [self_d1_keys0, self_d1_keys1, self_d1_keys2, self_d1_keys3, self_d1_keys4, self_d1_keys5, self_d1_keys6, self_d1_keys7, self_d1_keys8, self_d1_keys9, self_d1_keys10, self_d1_keys11, self_d1_keys12, self_d1_keys13, self_d1_keys14, self_d1_keys15], d2 := [self_d2_keys0, self_d2_keys1, self_d2_keys2, self_d2_keys3, self_d2_keys4, self_d2_keys5, self_d2_keys6, self_d2_keys7, self_d2_keys8, self_d2_keys9, self_d2_keys10, self_d2_keys11, self_d2_keys12, self_d2_keys13, self_d2_keys14, self_d2_keys15], d3 := [self_d3_keys0, self_d3_keys1, self_d3_keys2, self_d3_keys3, self_d3_keys4, self_d3_keys5, self_d3_keys6, self_d3_keys7, self_d3_keys8, self_d3_keys9, self_d3_keys10, self_d3_keys11, self_d3_keys12, self_d3_keys13, self_d3_keys14, self_d3_keys15] } block := by
  unfold tdeseee3_decrypt_block
  extract_lets -merge
  name_lets
  have hd : data = block := bytes_id block
  have hi0 : delta_swap_r_4 = des_ip data := rfl
  have hr0_0 : round_r = des_round delta_swap_r_4 self_d3_keys15 := rfl
  have hr0_1 : round_r_1 = des_round round_r self_d3_keys14 := rfl
  have hr0_2 : round_r_2 = des_round round_r_1 self_d3_keys13 := rfl
  have hr0_3 : round_r_3 = des_round round_r_2 self_d3_keys12 := rfl
  have hr0_4 : round_r_4 = des_round round_r_3 self_d3_keys11 := rfl
  have hr0_5 : round_r_5 = des_round round_r_4 self_d3_keys10 := rfl
  have hr0_6 : round_r_6 = des_round round_r_5 self_d3_keys9 := rfl
  have hr0_7 : round_r_7 = des_round round_r_6 self_d3_keys8 := rfl
  have hr0_8 : round_r_8 = des_round round_r_7 self_d3_keys7 := rfl
  have hr0_9 : round_r_9 = des_round round_r_8 self_d3_keys6 := rfl
  have hr0_10 : round_r_10 = des_round round_r_9 self_d3_keys5 := rfl
  have hr0_11 : round_r_11 = des_round round_r_10 self_d3_keys4 := rfl
  have hr0_12 : round_r_12 = des_round round_r_11 self_d3_keys3 := rfl
  have hr0_13 : round_r_13 = des_round round_r_12 self_d3_keys2 := rfl
  have hr0_14 : round_r_14 = des_round round_r_13 self_d3_keys1 := rfl
  have hr0_15 : round_r_15 = des_round round_r_14 self_d3_keys0 := rfl
  have hf0 : delta_swap_r_9 = des_fp (round_r_15.rotateRight 32) := rfl
  have hs0 : delta_swap_r_9 = BC.Des.decrypt [self_d3_keys0, self_d3_keys1, self_d3_keys2, self_d3_keys3, self_d3_keys4, self_d3_keys5, self_d3_keys6, self_d3_keys7, self_d3_keys8, self_d3_keys9, self_d3_keys10, self_d3_keys11, self_d3_keys12, self_d3_keys13, self_d3_keys14, self_d3_keys15] data := by
    rw [hf0, hr0_15, hr0_14, hr0_13, hr0_12, hr0_11, hr0_10, hr0_9, hr0_8, hr0_7, hr0_6, hr0_5, hr0_4, hr0_3, hr0_2, hr0_1, hr0_0, hi0]
    apply core_dec
  have hi1 : delta_swap_r_14 = des_ip delta_swap_r_9 := rfl
  have hr1_0 : round_r_16 = des_round delta_swap_r_14 self_d2_keys15 := rfl
  have hr1_1 : round_r_17 = des_round round_r_16 self_d2_keys14 := rfl
  have hr1_2 : round_r_18 = des_round round_r_17 self_d2_keys13 := rfl
  have hr1_3 : round_r_19 = des_round round_r_18 self_d2_keys12 := rfl
  have hr1_4 : round_r_20 = des_round round_r_19 self_d2_keys11 := rfl
  have hr1_5 : round_r_21 = des_round round_r_20 self_d2_keys10 := rfl
  have hr1_6 : round_r_22 = des_round round_r_21 self_d2_keys9 := rfl
  have hr1_7 : round_r_23 = des_round round_r_22 self_d2_keys8 := rfl
  have hr1_8 : round_r_24 = des_round round_r_23 self_d2_keys7 := rfl
  have hr1_9 : round_r_25 = des_round round_r_24 self_d2_keys6 := rfl
  have hr1_10 : round_r_26 = des_round round_r_25 self_d2_keys5 := rfl
  have hr1_11 : round_r_27 = des_round round_r_26 self_d2_keys4 := rfl
  have hr1_12 : round_r_28 = des_round round_r_27 self_d2_keys3 := rfl
  have hr1_13 : round_r_29 = des_round round_r_28 self_d2_keys2 := rfl
  have hr1_14 : round_r_30 = des_round round_r_29 self_d2_keys1 := rfl
  have hr1_15 : round_r_31 = des_round round_r_30 self_d2_keys0 := rfl
  have hf1 : delta_swap_r_19 = des_fp (round_r_31.rotateRight 32) := rfl
  have hs1 : delta_swap_r_19 = BC.Des.decrypt [self_d2_keys0, self_d2_keys1, self_d2_keys2, self_d2_keys3, self_d2_keys4, self_d2_keys5, self_d2_keys6, self_d2_keys7, self_d2_keys8, self_d2_keys9, self_d2_keys10, self_d2_keys11, self_d2_keys12, self_d2_keys13, self_d2_keys14, self_d2_keys15] delta_swap_r_9 := by
    rw [hf1, hr1_15, hr1_14, hr1_13, hr1_12, hr1_11, hr1_10, hr1_9, hr1_8, hr1_7, hr1_6, hr1_5, hr1_4, hr1_3, hr1_2, hr1_1, hr1_0, hi1]
    apply core_dec
  have hi2 : delta_swap_r_24 = des_ip delta_swap_r_19 := rfl
  have hr2_0 : round_r_32 = des_round delta_swap_r_24 self_d1_keys15 := rfl
  have hr2_1 : round_r_33 = des_round round_r_32 self_d1_keys14 := rfl
  have hr2_2 : round_r_34 = des_round round_r_33 self_d1_keys13 := rfl
  have hr2_3 : round_r_35 = des_round round_r_34 self_d1_keys12 := rfl
  have hr2_4 : round_r_36 = des_round round_r_35 self_d1_keys11 := rfl
  have hr2_5 : round_r_37 = des_round round_r_36 self_d1_keys10 := rfl
  have hr2_6 : round_r_38 = des_round round_r_37 self_d1_keys9 := rfl
  have hr2_7 : round_r_39 = des_round round_r_38 self_d1_keys8 := rfl
  have hr2_8 : round_r_40 = des_round round_r_39 self_d1_keys7 := rfl
  have hr2_9 : round_r_41 = des_round round_r_40 self_d1_keys6 := rfl
  have hr2_10 : round_r_42 = des_round round_r_41 self_d1_keys5 := rfl
  have hr2_11 : round_r_43 = des_round round_r_42 self_d1_keys4 := rfl
  have hr2_12 : round_r_44 = des_round round_r_43 self_d1_keys3 := rfl
  have hr2_13 : round_r_45 = des_round round_r_44 self_d1_keys2 := rfl
  have hr2_14 : round_r_46 = des_round round_r_45 self_d1_keys1 := rfl
  have hr2_15 : round_r_47 = des_round round_r_46 self_d1_keys0 := rfl
  have hf2 : delta_swap_r_29 = des_fp (round_r_47.rotateRight 32) := rfl
  have hs2 : delta_swap_r_29 = BC.Des.decrypt [self_d1_keys0, self_d1_keys1, self_d1_keys2, self_d1_keys3, self_d1_keys4, self_d1_keys5, self_d1_keys6, self_d1_keys7, self_d1_keys8, self_d1_keys9, self_d1_keys10, self_d1_keys11, self_d1_keys12, self_d1_keys13, self_d1_keys14, self_d1_keys15] delta_swap_r_19 := by
    rw [hf2, hr2_15, hr2_14, hr2_13, hr2_12, hr2_11, hr2_10, hr2_9, hr2_8, hr2_7, hr2_6, hr2_5, hr2_4, hr2_3, hr2_2, hr2_1, hr2_0, hi2]
    apply core_dec
  rw [bytes_id, hs2, hs1, hs0, hd]
  rfl

/-- `tdeseee2_encrypt_block` (regenerated) is the model's function, for all round keys and blocks -/
theorem tdeseee2_encrypt_block_eq (self_d1_keys0 self_d1_keys1 self_d1_keys2 self_d1_keys3 self_d1_keys4 self_d1_keys5 self_d1_keys6 self_d1_keys7 self_d1_keys8 self_d1_keys9 self_d1_keys10 self_d1_keys11 self_d1_keys12 self_d1_keys13 self_d1_keys14 self_d1_keys15 self_d2_keys0 self_d2_keys1 self_d2_keys2 self_d2_keys3 self_d2_keys4 self_d2_keys5 self_d2_keys6 self_d2_keys7 self_d2_keys8 self_d2_keys9 self_d2_keys10 self_d2_keys11 self_d2_keys12 self_d2_keys13 self_d2_keys14 self_d2_keys15 block : BitVec 64) :
    tdeseee2_encrypt_block self_d1_keys0 self_d1_keys1 self_d1_keys2 self_d1_keys3 self_d1_keys4 self_d1_keys5 self_d1_keys6 self_d1_keys7 self_d1_keys8 self_d1_keys9 self_d1_keys10 self_d1_keys11 self_d1_keys12 self_d1_keys13 self_d1_keys14 self_d1_keys15 self_d2_keys0 self_d2_keys1 self_d2_keys2 self_d2_keys3 self_d2_keys4 self_d2_keys5 self_d2_keys6 self_d2_keys7 self_d2_keys8 self_d2_keys9 self_d2_keys10 self_d2_keys11 self_d2_keys12 self_d2_keys13 self_d2_keys14 self_d2_keys15 block =
      BC.Des.eee2Enc { d1 := [self_d1_keys0, self_d1_keys1, self_d1_keys2, self_d1_keys3, self_d1_keys4, self_d1_keys5, self_d1_keys6, self_d1_keys7, self_d1_keys8, self_d1_keys9, self_d1_keys10, self_d1_keys11, self_d1_keys12, self_d1_keys13, self_d1_keys14, self_d1_keys15], d2 := [self_d2_keys0, self_d2_keys1, self_d2_keys2, self_d2_keys3, self_d2_keys4, self_d2_keys5, self_d2_keys6, self_d2_keys7, self_d2_keys8, self_d2_keys9, self_d2_keys10, self_d2_keys11, self_d2_keys12, self_d2_keys13, self_d2_keys14, self_d2_keys15] } block := by
  unfold tdeseee2_encrypt_block
  extract_lets -merge
  name_lets
  have hd : data = block := bytes_id block
  have hi0 : delta_swap_r_4 = des_ip data := rfl
  have hr0_0 : round_r = des_round delta_swap_r_4 self_d1_keys0 := rfl
  have hr0_1 : round_r_1 = des_round round_r self_d1_keys1 := rfl
  have hr0_2 : round_r_2 = des_round round_r_1 self_d1_keys2 := rfl
  have hr0_3 : round_r_3 = des_round round_r_2 self_d1_keys3 := rfl
  have hr0_4 : round_r_4 = des_round round_r_3 self_d1_keys4 := rfl
  have hr0_5 : round_r_5 = des_round round_r_4 self_d1_keys5 := rfl
  have hr0_6 : round_r_6 = des_round round_r_5 self_d1_keys6 := rfl
  have hr0_7 : round_r_7 = des_round round_r_6 self_d1_keys7 := rfl
  have hr0_8 : round_r_8 = des_round round_r_7 self_d1_keys8 := rfl
  have hr0_9 : round_r_9 = des_round round_r_8 self_d1_keys9 := rfl
  have hr0_10 : round_r_10 = des_round round_r_9 self_d1_keys10 := rfl
  have hr0_11 : round_r_11 = des_round round_r_10 self_d1_keys11 := rfl
  have hr0_12 : round_r_12 = des_round round_r_11 self_d1_keys12 := rfl
  have hr0_13 : round_r_13 = des_round round_r_12 self_d1_keys13 := rfl
  have hr0_14 : round_r_14 = des_round round_r_13 self_d1_keys14 := rfl
  have hr0_15 : round_r_15 = des_round round_r_14 self_d1_keys15 := rfl
  have hf0 : delta_swap_r_9 = des_fp (round_r_15.rotateRight 32) := rfl
  have hs0 : delta_swap_r_9 = BC.Des.encrypt [self_d1_keys0, self_d1_keys1, self_d1_keys2, self_d1_keys3, self_d1_keys4, self_d1_keys5, self_d1_keys6, self_d1_keys7, self_d1_keys8, self_d1_keys9, self_d1_keys10, self_d1_keys11, self_d1_keys12, self_d1_keys13, self_d1_keys14, self_d1_keys15] data := by
    rw [hf0, hr0_15, hr0_14, hr0_13, hr0_12, hr0_11, hr0_10, hr0_9, hr0_8, hr0_7, hr0_6, hr0_5, hr0_4, hr0_3, hr0_2, hr0_1, hr0_0, hi0]
    apply core_enc
  have hi1 : delta_swap_r_14 = des_ip delta_swap_r_9 := rfl
  have hr1_0 : round_r_16 = des_round delta_swap_r_14 self_d2_keys0 := rfl
  have hr1_1 : round_r_17 = des_round round_r_16 self_d2_keys1 := rfl
  have hr1_2 : round_r_18 = des_round round_r_17 self_d2_keys2 := rfl
  have hr1_3 : round_r_19 = des_round round_r_18 self_d2_keys3 := rfl
  have hr1_4 : round_r_20 = des_round round_r_19 self_d2_keys4 := rfl
  have hr1_5 : round_r_21 = des_round round_r_20 self_d2_keys5 := rfl
  have hr1_6 : round_r_22 = des_round round_r_21 self_d2_keys6 := rfl
  have hr1_7 : round_r_23 = des_round round_r_22 self_d2_keys7 := rfl
  have hr1_8 : round_r_24 = des_round round_r_23 self_d2_keys8 := rfl
  have hr1_9 : round_r_25 = des_round round_r_24 self_d2_keys9 := rfl
  have hr1_10 : round_r_26 = des_round round_r_25 self_d2_keys10 := rfl
  have hr1_11 : round_r_27 = des_round round_r_26 self_d2_keys11 := rfl
  have hr1_12 : round_r_28 = des_round round_r_27 self_d2_keys12 := rfl
  have hr1_13 : round_r_29 = des_round round_r_28 self_d2_keys13 := rfl
  have hr1_14 : round_r_30 = des_round round_r_29 self_d2_keys14 := rfl
  have hr1_15 : round_r_31 = des_round round_r_30 self_d2_keys15 := rfl
  have hf1 : delta_swap_r_19 = des_fp (round_r_31.rotateRight 32) := rfl
  have hs1 : delta_swap_r_19 = BC.Des.encrypt [self_d2_keys0, self_d2_keys1, self_d2_keys2, self_d2_keys3, self_d2_keys4, self_d2_keys5, self_d2_keys6, self_d2_keys7, self_d2_keys8, self_d2_keys9, self_d2_keys10, self_d2_keys11, self_d2_keys12, self_d2_keys13, self_d2_keys14, self_d2_keys15] delta_swap_r_9 := by
    rw [hf1, hr1_15, hr1_14, hr1_13, hr1_12, hr1_11, hr1_10, hr1_9, hr1_8, hr1_7, hr1_6, hr1_5, hr1_4, hr1_3, hr1_2, hr1_1, hr1_0, hi1]
    apply core_enc
  have hi2 : delta_swap_r_24 = des_ip delta_swap_r_19 := rfl
  have hr2_0 : round_r_32 = des_round delta_swap_r_24 self_d1_keys0 := rfl
  have hr2_1 : round_r_33 = des_round round_r_32 self_d1_keys1 := rfl
  have hr2_2 : round_r_34 = des_round round_r_33 self_d1_keys2 := rfl
  have hr2_3 : round_r_35 = des_round round_r_34 self_d1_keys3 := rfl
  have hr2_4 : round_r_36 = des_round round_r_35 self_d1_keys4 := rfl
  have hr2_5 : round_r_37 = des_round round_r_36 self_d1_keys5 := rfl
  have hr2_6 : round_r_38 = des_round round_r_37 self_d1_keys6 := rfl
  have hr2_7 : round_r_39 = des_round round_r_38 self_d1_keys7 := rfl
  have hr2_8 : round_r_40 = des_round round_r_39 self_d1_keys8 := rfl
  have hr2_9 : round_r_41 = des_round round_r_40 self_d1_keys9 := rfl
  have hr2_10 : round_r_42 = des_round round_r_41 self_d1_keys10 := rfl
  have hr2_11 : round_r_43 = des_round round_r_42 self_d1_keys11 := rfl
  have hr2_12 : round_r_44 = des_round round_r_43 self_d1_keys12 := rfl
  have hr2_13 : round_r_45 = des_round round_r_44 self_d1_keys13 := rfl
  have hr2_14 : round_r_46 = des_round round_r_45 self_d1_keys14 := rfl
  have hr2_15 : round_r_47 = des_round round_r_46 self_d1_keys15 := rfl
  have hf2 : delta_swap_r_29 = des_fp (round_r_47.rotateRight 32) := rfl
  have hs2 : delta_swap_r_29 = BC.Des.encrypt [self_d1_keys0, self_d1_keys1, self_d1_keys2, self_d1_keys3, self_d1_keys4, self_d1_keys5, self_d1_keys6, self_d1_keys7, self_d1_keys8, self_d1_keys9, self_d1_keys10, self_d1_keys11, self_d1_keys12, self_d1_keys13, self_d1_keys14, self_d1_keys15] delta_swap_r_19 := by
    rw [hf2, hr2_15, hr2_14, hr2_13, hr2_12, hr2_11, hr2_10, hr2_9, hr2_8, hr2_7, hr2_6, hr2_5, hr2_4, hr2_3, hr2_2, hr2_1, hr2_0, hi2]
    apply core_enc
  rw [bytes_id, hs2, hs1, hs0, hd]
  rfl

/-- `tdeseee2_decrypt_block` (regenerated) is the model's function, for all round keys and blocks -/
theorem tdeseee2_decrypt_block_eq (self_d1_keys0 self_d1_keys1 self_d1_keys2 self_d1_keys3 self_d1_keys4 self_d1_keys5 self_d1_keys6 self_d1_keys7 self_d1_keys8 self_d1_keys9 self_d1_keys10 self_d1_keys11 self_d1_keys12 self_d1_keys13 self_d1_keys14 self_d1_keys15 self_d2_keys0 self_d2_keys1 self_d2_keys2 self_d2_keys3 self_d2_keys4 self_d2_keys5 self_d2_keys6 self_d2_keys7 self_d2_keys8 self_d2_keys9 self_d2_keys10 self_d2_keys11 self_d2_keys12 self_d2_keys13 self_d2_keys14 self_d2_keys15 block : BitVec 64) :
    tdeseee2_decrypt_block self_d1_keys0 self_d1_keys1 self_d1_keys2 self_d1_keys3 self_d1_keys4 self_d1_keys5 self_d1_keys6 self_d1_keys7 self_d1_keys8 self_d1_keys9 self_d1_keys10 self_d1_keys11 self_d1_keys12 self_d1_keys13 self_d1_keys14 self_d1_keys15 self_d2_keys0 self_d2_keys1 self_d2_keys2 self_d2_keys3 self_d2_keys4 self_d2_keys5 self_d2_keys6 self_d2_keys7 self_d2_keys8 self_d2_keys9 self_d2_keys10 self_d2_keys11 self_d2_keys12 self_d2_keys13 self_d2_keys14 self_d2_keys15 block =
      BC.Des.eee2Dec { d1 := [self_d1_keys0, self_d1_keys1, self_d1_keys2, self_d1_keys3, self_d1_keys4, self_d1_keys5, self_d1_keys6, self_d1_keys7, self_d1_keys8, self_d1_keys9, self_d1_keys10, self_d1_keys11, self_d1_keys12, self_d1_keys13, self_d1_keys14, self_d1_keys15], d2 := [self_d2_keys0, self_d2_keys1, self_d2_keys2, self_d2_keys3, self_d2_keys4, self_d2_keys5, self_d2_keys6, self_d2_keys7, self_d2_keys8, self_d2_keys9, self_d2_keys10, self_d2_keys11, self_d2_keys12, self_d2_keys13, self_d2_keys14, self_d2_keys15] } block := by
  unfold tdeseee2_decrypt_block
  extract_lets -merge
  name_lets
  have hd : data = block := bytes_id block
  have hi0 : delta_swap_r_4 = des_ip data := rfl
  have hr0_0 : round_r = des_round delta_swap_r_4 self_d1_keys15 := rfl
  have hr0_1 : round_r_1 = des_round round_r self_d1_keys14 := rfl
  have hr0_2 : round_r_2 = des_round round_r_1 self_d1_keys13 := rfl
  have hr0_3 : round_r_3 = des_round round_r_2 self_d1_keys12 := rfl
  have hr0_4 : round_r_4 = des_round round_r_3 self_d1_keys11 := rfl
  have hr0_5 : round_r_5 = des_round round_r_4 self_d1_keys10 := rfl
  have hr0_6 : round_r_6 = des_round round_r_5 self_d1_keys9 := rfl
  have hr0_7 : round_r_7 = des_round round_r_6 self_d1_keys8 := rfl
  have hr0_8 : round_r_8 = des_round round_r_7 self_d1_keys7 := rfl
  have hr0_9 : round_r_9 = des_round round_r_8 self_d1_keys6 := rfl
  have hr0_10 : round_r_10 = des_round round_r_9 self_d1_keys5 := rfl
  have hr0_11 : round_r_11 = des_round round_r_10 self_d1_keys4 := rfl
  have hr0_12 : round_r_12 = des_round round_r_11 self_d1_keys3 := rfl
  have hr0_13 : round_r_13 = des_round round_r_12 self_d1_keys2 := rfl
  have hr0_14 : round_r_14 = des_round round_r_13 self_d1_keys1 := rfl
  have hr0_15 : round_r_15 = des_round round_r_14 self_d1_keys0 := rfl
  have hf0 : delta_swap_r_9 = des_fp (round_r_15.rotateRight 32) := rfl
  have hs0 : delta_swap_r_9 = BC.Des.decrypt [self_d1_keys0, self_d1_keys1, self_d1_keys2, self_d1_keys3, self_d1_keys4, self_d1_keys5, self_d1_keys6, self_d1_keys7, self_d1_keys8, self_d1_keys9, self_d1_keys10, self_d1_keys11, self_d1_keys12, self_d1_keys13, self_d1_keys14, self_d1_keys15] data := by
    rw [hf0, hr0_15, hr0_14, hr0_13, hr0_12, hr0_11, hr0_10, hr0_9, hr0_8, hr0_7, hr0_6, hr0_5, hr0_4, hr0_3, hr0_2, hr0_1, hr0_0, hi0]
    apply core_dec
  have hi1 : delta_swap_r_14 = des_ip delta_swap_r_9 := rfl
  have hr1_0 : round_r_16 = des_round delta_swap_r_14 self_d2_keys15 := rfl
  have hr1_1 : round_r_17 = des_round round_r_16 self_d2_keys14 := rfl
  have hr1_2 : round_r_18 = des_round round_r_17 self_d2_keys13 := rfl
  have hr1_3 : round_r_19 = des_round round_r_18 self_d2_keys12 := rfl
  have hr1_4 : round_r_20 = des_round round_r_19 self_d2_keys11 := rfl
  have hr1_5 : round_r_21 = des_round round_r_20 self_d2_keys10 := rfl
  have hr1_6 : round_r_22 = des_round round_r_21 self_d2_keys9 := rfl
  have hr1_7 : round_r_23 = des_round round_r_22 self_d2_keys8 := rfl
  have hr1_8 : round_r_24 = des_round round_r_23 self_d2_keys7 := rfl
  have hr1_9 : round_r_25 = des_round round_r_24 self_d2_keys6 := rfl
  have hr1_10 : round_r_26 = des_round round_r_25 self_d2_keys5 := rfl
  have hr1_11 : round_r_27 = des_round round_r_26 self_d2_keys4 := rfl
  have hr1_12 : round_r_28 = des_round round_r_27 self_d2_keys3 := rfl
  have hr1_13 : round_r_29 = des_round round_r_28 self_d2_keys2 := rfl
  have hr1_14 : round_r_30 = des_round round_r_29 self_d2_keys1 := rfl
  have hr1_15 : round_r_31 = des_round round_r_30 self_d2_keys0 := rfl
  have hf1 : delta_swap_r_19 = des_fp (round_r_31.rotateRight 32) := rfl
  have hs1 : delta_swap_r_19 = BC.Des.decrypt [self_d2_keys0, self_d2_keys1, self_d2_keys2, self_d2_keys3, self_d2_keys4, self_d2_keys5, self_d2_keys6, self_d2_keys7, self_d2_keys8, self_d2_keys9, self_d2_keys10, self_d2_keys11, self_d2_keys12, self_d2_keys13, self_d2_keys14, self_d2_keys15] delta_swap_r_9 := by
    rw [hf1, hr1_15, hr1_14, hr1_13, hr1_12, hr1_11, hr1_10, hr1_9, hr1_8, hr1_7, hr1_6, hr1_5, hr1_4, hr1_3, hr1_2, hr1_1, hr1_0, hi1]
    apply core_dec
  have hi2 : delta_swap_r_24 = des_ip delta_swap_r_19 := rfl
  have hr2_0 : round_r_32 = des_round delta_swap_r_24 self_d1_keys15 := rfl
  have hr2_1 : round_r_33 = des_round round_r_32 self_d1_keys14 := rfl
  have hr2_2 : round_r_34 = des_round round_r_33 self_d1_keys13 := rfl
  have hr2_3 : round_r_35 = des_round round_r_34 self_d1_keys12 := rfl
  have hr2_4 : round_r_36 = des_round round_r_35 self_d1_keys11 := rfl
  have hr2_5 : round_r_37 = des_round round_r_36 self_d1_keys10 := rfl
  have hr2_6 : round_r_38 = des_round round_r_37 self_d1_keys9 := rfl
  have hr2_7 : round_r_39 = des_round round_r_38 self_d1_keys8 := rfl
  have hr2_8 : round_r_40 = des_round round_r_39 self_d1_keys7 := rfl
  have hr2_9 : round_r_41 = des_round round_r_40 self_d1_keys6 := rfl
  have hr2_10 : round_r_42 = des_round round_r_41 self_d1_keys5 := rfl
  have hr2_11 : round_r_43 = des_round round_r_42 self_d1_keys4 := rfl
  have hr2_12 : round_r_44 = des_round round_r_43 self_d1_keys3 := rfl
  have hr2_13 : round_r_45 = des_round round_r_44 self_d1_keys2 := rfl
  have hr2_14 : round_r_46 = des_round round_r_45 self_d1_keys1 := rfl
  have hr2_15 : round_r_47 = des_round round_r_46 self_d1_keys0 := rfl
  have hf2 : delta_swap_r_29 = des_fp (round_r_47.rotateRight 32) := rfl
  have hs2 : delta_swap_r_29 = BC.Des.decrypt [self_d1_keys0, self_d1_keys1, self_d1_keys2, self_d1_keys3, self_d1_keys4, self_d1_keys5, self_d1_keys6, self_d1_keys7, self_d1_keys8, self_d1_keys9, self_d1_keys10, self_d1_keys11, self_d1_keys12, self_d1_keys13, self_d1_keys14, self_d1_keys15] delta_swap_r_19 := by
    rw [hf2, hr2_15, hr2_14, hr2_13, hr2_12, hr2_11, hr2_10, hr2_9, hr2_8, hr2_7, hr2_6, hr2_5, hr2_4, hr2_3, hr2_2, hr2_1, hr2_0, hi2]
    apply core_dec
  rw [bytes_id, hs2, hs1, hs0, hd]
  rfl

end BC.GenCipher.Des
