import BlockCiphers.Proofs.BlowfishSpec
/-
Schneier's published Blowfish vectors, checked by the Lean kernel on the model of the crate.

Evaluating the model directly in the kernel is hopeless (one key set-up = 521 encryptions over lazily
updated 1024-entry arrays: > 5 min per vector).  So the vectors are evaluated on a *shadow* of the model
whose two tables are packed into two natural numbers (entry `i` = bits `32i..32i+31`; the kernel's GMP
arithmetic makes every look-up / update one shift / xor), and the shadow is proved to simulate the model
(`RepSt`): `kat_transfer` turns a kernel-evaluated shadow result into a statement about the model.
-/
namespace BC.Blowfish.Kat
open BC.Blowfish

/-- entry `i` of a packed table -/
def nget (n i : Nat) : BitVec 32 := BitVec.ofNat 32 (n >>> (32 * i))

/-- packed table with entry `i` replaced by `v` -/
def nset (n i : Nat) (v : BitVec 32) : Nat :=
  n ^^^ ((((n >>> (32 * i)) % 2 ^ 32) ^^^ v.toNat) <<< (32 * i))

theorem testBit_toNat_ge (v : BitVec 32) (t : Nat) (ht : 32 ≤ t) : v.toNat.testBit t = false := by
  apply Nat.testBit_lt_two_pow
  exact Nat.lt_of_lt_of_le v.isLt (Nat.pow_le_pow_right (by decide) ht)

theorem nset_testBit (n i : Nat) (v : BitVec 32) (t : Nat) :
    (nset n i v).testBit t
      = if 32 * i ≤ t ∧ t < 32 * i + 32 then v.toNat.testBit (t - 32 * i) else n.testBit t := by
  unfold nset
  rw [Nat.testBit_xor, Nat.testBit_shiftLeft, Nat.testBit_xor, Nat.testBit_mod_two_pow,
    Nat.testBit_shiftRight]
  by_cases h1 : 32 * i ≤ t
  · by_cases h2 : t < 32 * i + 32
    · have h3 : t - 32 * i < 32 := by omega
      have e : 32 * i + (t - 32 * i) = t := by omega
      simp [h1, h2, h3, e]
    · have h32 : 32 ≤ t - 32 * i := by omega
      have h3 : ¬ (t - 32 * i < 32) := by omega
      simp [h1, h2, h3, testBit_toNat_ge v _ h32]
  · simp [h1]

theorem nget_nset (n i j : Nat) (v : BitVec 32) :
    nget (nset n i v) j = if i = j then v else nget n j := by
  apply BitVec.eq_of_toNat_eq
  apply Nat.eq_of_testBit_eq
  intro k
  by_cases hij : i = j
  · subst hij
    simp only [nget, BitVec.toNat_ofNat, Nat.testBit_mod_two_pow, Nat.testBit_shiftRight, nset_testBit,
      if_true]
    by_cases hk : k < 32
    · have h1 : 32 * i ≤ 32 * i + k ∧ 32 * i + k < 32 * i + 32 := by omega
      have e : 32 * i + k - 32 * i = k := by omega
      simp [hk, h1, e]
    · simp [hk, testBit_toNat_ge v k (by omega)]
  · simp only [hij, if_false]
    simp only [nget, BitVec.toNat_ofNat, Nat.testBit_mod_two_pow, Nat.testBit_shiftRight, nset_testBit]
    by_cases hk : k < 32
    · have h1 : ¬ (32 * i ≤ 32 * j + k ∧ 32 * j + k < 32 * i + 32) := by omega
      simp [hk, h1]
    · simp [hk]

/-! ### packed tables represent arrays -/

/-- the packed number `n` represents the array `a` of `len` entries -/
def Rep (n : Nat) (a : Array (BitVec 32)) (len : Nat) : Prop :=
  a.size = len ∧ ∀ j, j < len → a[j]! = nget n j

theorem set_get (a : Array (BitVec 32)) (i j : Nat) (v : BitVec 32) (hi : i < a.size) :
    (a.set! i v)[j]! = if i = j then v else a[j]! := by
  by_cases hij : i = j
  · subst hij; simp [hi]
  · simp [hij, Array.getElem!_eq_getD, Array.getD_eq_getD_getElem?]

theorem Rep.set {n : Nat} {a : Array (BitVec 32)} {len : Nat} (h : Rep n a len) {i : Nat} (hi : i < len)
    (v : BitVec 32) : Rep (nset n i v) (a.set! i v) len := by
  refine ⟨by simp [h.1], fun j hj => ?_⟩
  rw [set_get a i j v (by rw [h.1]; exact hi), nget_nset, h.2 j hj]

theorem rep_of_toList (n : Nat) (a : Array (BitVec 32)) (len : Nat)
    (h : a.toList = (List.range len).map (nget n)) : Rep n a len := by
  have ha : a = ((List.range len).map (nget n)).toArray := by rw [← h]
  refine ⟨by rw [ha]; simp, fun j hj => ?_⟩
  rw [ha]; simp [hj]

/-! ### the shadow of the model -/

structure NSt where
  p : Nat
  s : Nat

def RepSt (ns : NSt) (st : State) : Prop := Rep ns.p st.p 18 ∧ Rep ns.s st.s 1024


def nRF (ns : NSt) (x : BitVec 32) : BitVec 32 :=
  let a := nget ns.s (sIdx 0 (x >>> 24).toNat)
  let b := nget ns.s (sIdx 1 ((x >>> 16) &&& 0xff#32).toNat)
  let c := nget ns.s (sIdx 2 ((x >>> 8) &&& 0xff#32).toNat)
  let d := nget ns.s (sIdx 3 (x &&& 0xff#32).toNat)
  ((a + b) ^^^ c) + d

def nEncRound (ns : NSt) (x : LR) (i : Nat) : LR :=
  let l := x.l ^^^ nget ns.p (2 * i)
  let r := x.r ^^^ nRF ns l
  let r := r ^^^ nget ns.p (2 * i + 1)
  let l := l ^^^ nRF ns r
  { l := l, r := r }

def nEncrypt (ns : NSt) (x : LR) : LR :=
  let y := (List.range 8).foldl (nEncRound ns) x
  let l := y.l ^^^ nget ns.p 16
  let r := y.r ^^^ nget ns.p 17
  { l := r, r := l }

def nDecRound (ns : NSt) (x : LR) (i : Nat) : LR :=
  let l := x.l ^^^ nget ns.p (2 * i + 1)
  let r := x.r ^^^ nRF ns l
  let r := r ^^^ nget ns.p (2 * i)
  let l := l ^^^ nRF ns r
  { l := l, r := r }

def nDecrypt (ns : NSt) (x : LR) : LR :=
  let y := (List.range' 1 8).reverse.foldl (nDecRound ns) x
  let l := y.l ^^^ nget ns.p 1
  let r := y.r ^^^ nget ns.p 0
  { l := r, r := l }

structure NKP where
  p : Nat
  pos : Nat

def nXorKeyStep (key : Array (BitVec 8)) (a : NKP) (i : Nat) : NKP :=
  let w := next_u32_wrap key a.pos
  { p := nset a.p i (nget a.p i ^^^ w.v), pos := w.off }

def nXorKey (p : Nat) (key : Array (BitVec 8)) : Nat :=
  ((List.range 18).foldl (nXorKeyStep key) { p := p, pos := 0 }).p

structure NKS where
  st : NSt
  lr : LR

def nPStep (a : NKS) (i : Nat) : NKS :=
  let lr := nEncrypt a.st a.lr
  { st := { a.st with p := nset (nset a.st.p (2 * i) lr.l) (2 * i + 1) lr.r }, lr := lr }

def nSStep (i : Nat) (a : NKS) (j : Nat) : NKS :=
  let lr := nEncrypt a.st a.lr
  { st := { a.st with s := nset (nset a.st.s (sIdx i (2 * j)) lr.l) (sIdx i (2 * j + 1)) lr.r }, lr := lr }

def nExpandKey (ns : NSt) (key : Array (BitVec 8)) : NSt :=
  let ns := { ns with p := nXorKey ns.p key }
  let a := (List.range 9).foldl nPStep { st := ns, lr := { l := 0#32, r := 0#32 } }
  let a := (List.range 4).foldl (fun a i => (List.range 128).foldl (nSStep i) a) a
  a.st

/-! ### simulation -/

theorem idx0 (x : BitVec 32) : sIdx 0 (x >>> 24).toNat < 1024 := by
  have := x.isLt
  simp only [sIdx, BitVec.toNat_ushiftRight, Nat.shiftRight_eq_div_pow]; omega
theorem idxm (k : Nat) (hk : k < 4) (y : BitVec 32) : sIdx k (y &&& 0xff#32).toNat < 1024 := by
  have := and_toNat_le y 0xff#32
  have e : (0xff#32 : BitVec 32).toNat = 255 := by decide
  simp only [sIdx]; omega

theorem rf_sim {ns : NSt} {st : State} (h : RepSt ns st) (x : BitVec 32) :
    round_function st x = nRF ns x := by
  simp only [round_function, nRF]
  rw [h.2.2 _ (idx0 x), h.2.2 _ (idxm 1 (by decide) _), h.2.2 _ (idxm 2 (by decide) _),
    h.2.2 _ (idxm 3 (by decide) _)]

theorem encRound_sim {ns : NSt} {st : State} (h : RepSt ns st) (x : LR) (i : Nat) (hi : i < 8) :
    encRound st x i = nEncRound ns x i := by
  simp only [encRound, nEncRound, rf_sim h]
  rw [h.1.2 (2 * i) (by omega), h.1.2 (2 * i + 1) (by omega)]

theorem encrypt_sim {ns : NSt} {st : State} (h : RepSt ns st) (x : LR) : encrypt st x = nEncrypt ns x := by
  simp only [encrypt, nEncrypt]
  rw [foldl_congr_mem (encRound st) (nEncRound ns) _
    (fun a i hi => encRound_sim h a i (List.mem_range.mp hi))]
  rw [h.1.2 16 (by decide), h.1.2 17 (by decide)]

theorem decRound_sim {ns : NSt} {st : State} (h : RepSt ns st) (x : LR) (i : Nat) (hi : i < 9) :
    decRound st x i = nDecRound ns x i := by
  simp only [decRound, nDecRound, rf_sim h]
  rw [h.1.2 (2 * i) (by omega), h.1.2 (2 * i + 1) (by omega)]

theorem decrypt_sim {ns : NSt} {st : State} (h : RepSt ns st) (x : LR) : decrypt st x = nDecrypt ns x := by
  simp only [decrypt, nDecrypt]
  rw [foldl_congr_mem (decRound st) (nDecRound ns) _
    (fun a i hi => decRound_sim h a i (by
      have := List.mem_range'_1.mp (List.mem_reverse.mp hi); omega))]
  rw [h.1.2 1 (by decide), h.1.2 0 (by decide)]

/-- a relation between two loops over the same list, the step lemma may use membership -/
theorem foldl_rel_mem {α β ι : Type} (R : α → β → Prop) (f : α → ι → α) (g : β → ι → β) (l : List ι)
    (h : ∀ a b i, i ∈ l → R a b → R (f a i) (g b i)) (a : α) (b : β) (h0 : R a b) :
    R (l.foldl f a) (l.foldl g b) := by
  induction l generalizing a b with
  | nil => exact h0
  | cons x xs ih =>
    simp only [List.foldl_cons]
    exact ih (fun a b i hi => h a b i (by simp [hi])) _ _ (h a b x (by simp) h0)

def RepKS (na : NKS) (a : KS) : Prop := RepSt na.st a.st ∧ na.lr = a.lr

theorem pStep_sim {na : NKS} {a : KS} (h : RepKS na a) (i : Nat) (hi : i < 9) :
    RepKS (nPStep na i) (pStep a i) := by
  obtain ⟨hst, hlr⟩ := h
  simp only [pStep, nPStep, setP, encrypt_sim hst, hlr]
  exact ⟨⟨(hst.1.set (by omega) _).set (by omega) _, hst.2⟩, rfl⟩

theorem sStep_sim {na : NKS} {a : KS} (h : RepKS na a) (i j : Nat) (hi : i < 4) (hj : j < 128) :
    RepKS (nSStep i na j) (sStep i a j) := by
  obtain ⟨hst, hlr⟩ := h
  simp only [sStep, nSStep, setS, encrypt_sim hst, hlr]
  exact ⟨⟨hst.1, (hst.2.set (by simp only [sIdx]; omega) _).set (by simp only [sIdx]; omega) _⟩, rfl⟩

theorem xorKey_sim {np : Nat} {p : Array (BitVec 32)} (h : Rep np p 18) (key : Array (BitVec 8)) :
    Rep (nXorKey np key) (xorKey p key) 18 := by
  have := foldl_rel_mem (fun (a : NKP) (b : KP) => Rep a.p b.p 18 ∧ a.pos = b.pos)
    (nXorKeyStep key) (xorKeyStep key) (List.range 18)
    (by
      intro a b i hi ⟨hp, hpos⟩
      simp only [nXorKeyStep, xorKeyStep, hpos, hp.2 i (List.mem_range.mp hi)]
      exact ⟨hp.set (List.mem_range.mp hi) _, trivial⟩)
    { p := np, pos := 0 } { p := p, pos := 0 } ⟨h, rfl⟩
  exact this.1

theorem repKS_mk {np nS : Nat} {p s : Array (BitVec 32)} (x : LR) (h1 : Rep np p 18)
    (h2 : Rep nS s 1024) :
    RepKS { st := { p := np, s := nS }, lr := x } { st := { p := p, s := s }, lr := x } :=
  ⟨⟨h1, h2⟩, rfl⟩

theorem expand_key_sim {ns : NSt} {st : State} (h : RepSt ns st) (key : Array (BitVec 8)) :
    RepSt (nExpandKey ns key) (expand_key st key) := by
  have h0 := repKS_mk { l := 0#32, r := 0#32 } (xorKey_sim h.1 key) h.2
  have h1 := foldl_rel_mem RepKS nPStep pStep (List.range 9)
    (fun a b i hi hr => pStep_sim hr i (List.mem_range.mp hi)) _ _ h0
  have h2 := foldl_rel_mem RepKS (fun a i => (List.range 128).foldl (nSStep i) a)
    (fun a i => (List.range 128).foldl (sStep i) a) (List.range 4)
    (fun a b i hi hr => foldl_rel_mem RepKS (nSStep i) (sStep i) (List.range 128)
      (fun a b j hj hr => sStep_sim hr i j (List.mem_range.mp hi) (List.mem_range.mp hj)) a b hr)
    _ _ h1
  exact h2.1

/-! ### the initial tables -/

/-- `consts::P` packed (entry `i` in bits `32i..32i+31`); literal so that the kernel never recomputes it -/
def nP : Nat := 0x8979fb1b9216d5d9b54709173f84d5b5c97c50ddc0ac29b734e90c6cbe5466cf38d01377452821e6ec4e6c89082efa98299f31d0a40938220370734413198a2e85a308d3243f6a88

/-- `consts::S` (all four rows, 1024 entries) packed -/
def nS : Nat := 0x3ac372e6578fdfe3ce77e25bb74e6132c208e69f3f09252da65cdea090d4f869d6ebe1f901c36ae402fb8a8c1948c25c4cf9aa7e7aaaf9b08ae88dd885cbfe4e2075606077afa1c5f746ce76ba38209c2547adf038abbd601640e3d353113ec0cd769c2bb6cbcf7cb20402227112690535bdd2f6bb25bfe262a80f00c9aa53fdc3f27b9a45e1d006327a140ae6c6c7bd71c656144c50901b81b949d0de96629288d273cc6e1636975a75ebb5acf0816256cccd0293a83531a6327623f523f357f6fb2299848fd2c5fd2c1d051618b166cd3e7e6fce6279cf1edad891e54cda540fe3f11de60b6f479b992f2edf359f8dc37632d8c5be71204ba3348c1b0a74418971f21ed3a0342be0d392df9f1f95323278e9644c98a0be1698db3be0ec6e0ecb03a44210d25065e3056a0cb6c1075e12baa8d1c2a86459ceb69cebfae593619b9415250f91fc7115e6fc2abf97222c27d9459cf2d519ff43f5bb3af79e59b7e0b12b4f8df9317cc69136670339c32ad50ada38d0dadecbd44fbd9a1a908749a1e8aac7cf0111c3bcc7d1f6e01cc87ea01fbac92f32c9b751ce794ba08839e1344525bdbb3a792be7933fdc611560b1277227f8011a1d4b3520ab826f3f3b82ce6ea04806b89fb495983a1de1b004280115af8434d2466a4eb4e2cc4040cb08af537d5df8721671e75b1357740e0d8df64e6370aec2771b542f5d9ed29be463bf3c6f478d6612aefa6484bb72eacea8bcb4cdd53e350a443a59ff45dda26a7e6bb4e3bbccd2017f1b588d405bbef7dd1c20c8ae586cdecf6445c0ddb39a460a0907216669852dfddd6db224a2ae08106413e68048de5369c3293d46a8b6e37e774fbe325121ce64fb3e7bceea7a90c29320f991379d58623830dc8e4de81751ccad925fabcc5167c20ad9f8285177118aba3cbb03563482b155fdf57533d92826dcf319f59c66fb1e6321f51b3f6d9ba93a072a97271aec3c9057a2c3eb9e150564f0bd03a1612588f46dba15056dd4e3d35e8cf7960e44ed756055785f019179132e28f8d56629283b57cce8d3c48ded93fa9b47b0acfde019a5e6e029ac715a88f54c5ad6b472adf2b89b1f9f25cf7c7d2d28d1cf3ed6017da67d96d5ac3a022b8b512cf0b7d99e34d797e990fd5a3b3ee5939b09e6ad87b0860180e4a91577fa0a593f046f69f752f7dac72fefd3ef5562e94ba99586a73a3ae12826a2f9ba645bd68fe515509be96a4d83c061ba9cf2d0a4a51e03aa43242ef6c089c2b89a86ee2263ef8ce26a2d519aa1fad5f0be5ee304ac9526e8a9ba46502939bbdb4cd04dc6d5730a1d468dde7d530ff8ee6549c2c8c6a376d2bc946e795748ab2f6a366eb4b26eb1be21a19045b78c1b6bc700c47bd62d1c7ebf0f7315d5118e9d99bc9bbed38227404fa337425cb0679e5ac52d1babc27737d3faf5cf3a39ce37406000e0670efa8e92638212d79a3234ddc6c837362abfce56e14ec46fd5c7e76c51133ca28514d9b161e6f81e50ef5e4dad0fc4d83d7cd308fca5b5ed545578d39eb8fc1ac15bb4724d9db986e3725f7c927c2439720a3d4b7c01886f05e409ce591d76ebfc7da190bcb6debbcbee56c2c2163453c2dd942338ea6311e69ed730dc7d62006058aac0f586e0f0177a2861a806b5c3604c06773f86419af88c270de6d027a002b5c4a70683fa50115e014fcd7f52a1e2ce9b573906fedcb7da832868f169a186f20f0ba5a4df1ab93d1d1d6efe104a99a02509f0be8ce85a1f02c4324633662d09a1e0a9dc09b77f19b67574a99e11a86248bb8205d0b90bace1c902de4c8cd5559120b45770466e598e915f95e2846a0e798b1ddf847aeb266146fcd9b9b475f255c8b38e745366f9c38789bdc2f474ef38f2ddfda24e58f48fbf582e6155464299bde8ae2477a057be3c005e5fb0804187f01eab7183426b33d736fccc7745ae04f6381fb0d1fd83466003604d60787bf8f0f7c0869dbc805764e4c3febebfe988da86a85f64af674ed5abea2ad90cec6e0a12138644421659e2e1c3c93d25bdd811caedfa1a6b10184bfb635006a1bbe6b79251e76a124237782ef11c12754cccc66a2b3b6842ada7f42e312d8026e297cc11597937392eb3763bd6eb7b9479bf515bad24bb132f88d9155ea3a091cf0bcedb7d9c667b9ffb690fed0bb5390f92cc00ffa3f1290dc7dcd0e8042765d43b6d672c37c67b5510db6e6b0d991be14ca1ebddf8a812dc60f4f8fd373a6f6eab992eff740a476341f33e8d1ec39dfd27877d48fa5449a36fe7ccf5f0647d086295b794fdd01278452da2f728de720c8ce6ba0d9985b2a20eeebeb9223b240b62333e92e16b2395e0cad18115af664fd102e1329e0e12b4c21f636c1bdff8e8a3602a9c60257b783441113564f2bcc18fd59bc0d1325f51eb5d886e17404779a441041f0f07f9c9eec70f86dc48c1133fe4c66d2295c1154805282ce380bb155c04272f70fdf8e8029029317c5ef47e1c3f3125f9a62a4a5699e1db33cca92963a1159a5855a867bcd096954bfe6ba9b720838d8755533a3aba489527454056acd8feb397fb0af54eca7820fb6841e7f7dd5b43323a6efa74eae397b226a366314b6d18561dc9faf73b124e8bee39d7abd9f385b920fe9e35406b2a42ce78a399d3375fecaace1e7c7af4d6b6b58ce006e887ad8c4f3ffea227a18dee680ec0a4d748690068dc1462e9b66dfb0a2c86da530429f428507825abca0a9ada2547e655fd394196eb27b331cb85047fac6dd003bd9785bfbc09ec66a02f4570f4ddd396b591af4d95fc1dbf8b884014214f74972445461e39f62e500061af43b7d4b73320f46ad4082471d4a20068bcf46b2e7602d4f7411520f794692934f64c261c948140f7e93d5a68db83adf7e6e39f2b8fb03d4a153e21e7f16dff203d28f89e713e38d8c5c43465e3674340675fda79105588cddb73dbd30e1e9ec9fdd56705c34534849e447a2e800bcadc5a04abfcc50c06c2a969a7aa61d99735e8efd85519f8509ea6078084ce77326e4085f2a7cbee74607cde37596c223bdbd65fecf18d937e413372f092233f70611dadf43e0c55f5ea58428d2a23820e001462b174ad19489d095bbf005692b28547848a0b69cb74927f1524c3c1c7b6a3fc8883a05b8d2646cf62a1f23d816250e44b476a86854dc7d81e799e41cd2105654f3b1def6abbb5c742f442facb4fd0db6c4f15a3aaabea45eee2b6203e13e042105d14e864b7e35d4a14d9ee7c3c73fe28ed6134c6ffea58ebf2ef6dbc31288fd948e4532e3054cdb30aeb1ac246969b83c3ff1b22726357f584a57858ba9996dedfa1c7e61fd60e3588291668128111ed935f97e32d77f837889a623d7da895f7997e875fa0999b540b19c021b8f7319ee9d53c2ab4b340685a32655abb50a02369b919bdf0ca648b1eafb2f3846e9cab5cab60622ca7eecc86bccbaade14d59e9e0b4c70a239b5735c90aa0363cf0334fe1eeb61bd9613cca830619f1510ecdd4775290761701521b6285b6e2f842aef7daddb2f953beecea50f68ab980265582185be6c5aa5c332ddef018cff28b17f37d1a67bc883e3bc4595eac31f66ebadfe6ef71312b65223a70819c279601939260f361d2b3df2f74ea71e0a2df4a5fc3c5394e2ea78c6150eba9c10b36a2e4cc9785266c825803e89d699e71d0f2965dcb94e3d06fa771fe71c5a3e2ab3860e5e0aeae96fb186e345701e153c6e9ebabf2c97f1fbfaf28fe6ed5924a5093c11183bd7a3c76b043556f15f11199b81ac77d610314e5571dff89e133ae4dd509400022a65c45112a14d4324c2ba16dd433b373215d908ef1c1847c464c3d263094366db851dfaec7aec3ae94b7d8cbc9f9abc7408da177a5847189f84cd87501adde62e6b71245512721fdccf3f2eb38bae12d9930810de9a771fbcaf89af5679b07224977c792cb81290f60a04bf6f420d034f6db9084e548b38183eb3313280bba13bea0e2fe238cd99a4751e41ecc8c73e0fd0030ea94461469af3dda7c8b5763437c2dadc3ae5e58122f54701943247737ca92ff6d19113f9dc0921bd25837a583cb574b2ae0cf51a0200b3fff01c1f04f0500c0db03ada375716f2b88e7d44ec7fdeae5c3e07841caa500737b79c530552a0e286687f35846b6a70a13c9718143ebaefc909686b3f021ecc5e6382e9c68470eb264cdd2086f0255dc14d2d38e6efe830f5a1d29c0799f73fd66b8fe4d65b429d653f54989ae4183a3ea059134075094c29193602a5c2b19ee15664526c699a17ffecaa8c718fedb2669cee60b849a7df7dad6ea6b0c4192623db75092eb5b329444b7a70e96e85076a08ba4799a99f8fa153b02d5dc5855664ff34052ee7b9f9b6b66365212a0dd915f296ec6b571be91f08ba6fb581e674002b60a476bc9bc6e4d60f573f9a5329151b5100527b14a94ab3472dca4e734a4111c819686295cfa98326037602e5b9c5207d5ba2d95a537f78c1438959dfa6aa5563911df009b91e2464369b57b8e0af226800bb2071b35e00250e2dae1e7e49d6411bd37b3e89a0ebcdaf0cfb9d35cfc75442f577b5fa86e6ad2065211a147793cc731480957705165fa266d2ada8d97cc43b81fd13e0b7b4a84fe0ce89e29918acf3d6b56f74e8e5a0cc0f8b021fa1ea752dfebe0e17772f2f2218b3a8c1add1cff191688fc31c4fad5ea0900df01c8888b812f2122b648ff6e2fb8e7594b78e3c5b2fafc725e0d08ed1d06b93d5a0eaad8e71ae90919895dbda4d2bf11fb4d07e9efe36774c01ef20cadacee4c6e862fb1341a4cb7e33e1ddf2da4bfb9790d28e49bcb6f845659a53e4792dd1d35b4afcb56cfd2183b810fa3d98b8f011a0e1ffa35dbbca58c8695b27b08c4f5573ac6732c6287effc3d542a8f6df1769db1a87562eca6f8ca09e5c57bb3e00df8253317b48fd238760323db5faad0552ab2f501ec8fd616b153c7516dfdb3222f88ea5e9f8fb1fa3cc679f25fe402c7279d6a100c61a60320a5579c0bdb9d3fbdbd20b5f3945c8740fc0cba857192e4bb3660f2807de334afdbee3d004af5ebd09cc8145449b30952c6dfc511f3b52ec6f1339b2eb3e6c53b568fb6faf196a24635e5c9ec2409f60c4c1a94fb604c006ba976ce0bdb6794c3be3fe501af6e8def725d479d880991b7b075372c949f1c09bdb0fead3d00a124837d0d724429b023d1bfedf72363f77064ed3aa6256c16aa6401a449f85c12073e06f75d83b8b5ebe7d84a5c3456f9fb48cee861982430e8866ca593e39af0176a1f1651d7efb2a98ba3bf050137a3be46eef0b6cab5133a3960fa728d8542f686a51a0d2abd388f0670c9c61f6e96c9a21c668429e1f9b5e69c8f04aa48420042e0b448283f442390f6d6ff3d396acc523893e81eb651b88dc262302e98575b1ef845d5d5dec8032487cac60fb21a99161d809cc66282193c4bfe81b6b4bb9af3b8f4898289586777a3253816c24cf5cafd6ba339b87931ece5c3e16741831f62ba9c55d636fbc2ab3ee14117c72e993a15486af1141e8ceb4cc5c342aab10b655ca396a63e8144057489862aa55ab94e65525f355605c6078af2fdabd314b27d71577c1b01e8a3e6c9e0e8b603a180e8e79dcb0b8db38efca417918286085f0c5d1b0232af260139c30d539c25a59b57b54a41d82154aee718bcd58728eb6580d95748ff4933d7ea458fea371574e69636920d8858efc160801f2e2b3916cf724a19947f12c7f99ba7c90456a267e96b8e1afedd01adfb72ffd72db98dfb5acd1310ba6

theorem P_packed : Consts.P.toList = (List.range 18).map (nget nP) := by decide +kernel

theorem S_toList :
    Consts.S.toList = Consts.S0.toList ++ Consts.S1.toList ++ Consts.S2.toList ++ Consts.S3.toList := by
  simp [Consts.S]

set_option maxRecDepth 1000000 in
theorem S_rows_packed :
    Consts.S0.toList ++ Consts.S1.toList ++ Consts.S2.toList ++ Consts.S3.toList
      = (List.range 1024).map (nget nS) := by decide +kernel

theorem S_packed : Consts.S.toList = (List.range 1024).map (nget nS) := by rw [S_toList, S_rows_packed]

def nInit : NSt := { p := nP, s := nS }

theorem init_sim : RepSt nInit init_state :=
  ⟨rep_of_toList _ _ _ P_packed, rep_of_toList _ _ _ S_packed⟩

/-! ### transfer -/

/-- `Blowfish::new_from_slice(key)` then `encrypt_block(pt)` (big-endian type), on the model -/
def modelEnc (key : Array (BitVec 8)) (pt : BitVec 64) : Option (BitVec 64) :=
  (new key).map (fun st => encryptBlock .BE st pt)

/-- the same on the shadow -/
def shadowEnc (key : Array (BitVec 8)) (pt : BitVec 64) : Option (BitVec 64) :=
  if accepts key.size then
    some (writeBlock .BE (nEncrypt (nExpandKey nInit key) (readBlock .BE pt)))
  else none

theorem modelEnc_eq_shadowEnc (key : Array (BitVec 8)) (pt : BitVec 64) :
    modelEnc key pt = shadowEnc key pt := by
  unfold modelEnc shadowEnc new
  split
  · simp only [Option.map_some, encryptBlock, encrypt_sim (expand_key_sim init_sim key)]
  · rfl

theorem kat_transfer (key : Array (BitVec 8)) (pt ct : BitVec 64) (h : shadowEnc key pt = some ct) :
    modelEnc key pt = some ct := by rw [modelEnc_eq_shadowEnc, h]

def modelDec (key : Array (BitVec 8)) (ct : BitVec 64) : Option (BitVec 64) :=
  (new key).map (fun st => decryptBlock .BE st ct)

def shadowDec (key : Array (BitVec 8)) (ct : BitVec 64) : Option (BitVec 64) :=
  if accepts key.size then
    some (writeBlock .BE (nDecrypt (nExpandKey nInit key) (readBlock .BE ct)))
  else none

theorem modelDec_eq_shadowDec (key : Array (BitVec 8)) (ct : BitVec 64) :
    modelDec key ct = shadowDec key ct := by
  unfold modelDec shadowDec new
  split
  · simp only [Option.map_some, decryptBlock, decrypt_sim (expand_key_sim init_sim key)]
  · rfl

theorem kat_transfer_dec (key : Array (BitVec 8)) (ct pt : BitVec 64) (h : shadowDec key ct = some pt) :
    modelDec key ct = some pt := by rw [modelDec_eq_shadowDec, h]

/-! ### vectors -/

def hexKey (n : Nat) (len : Nat) : Array (BitVec 8) := (unpackBE len (BitVec.ofNat (8 * len) n)).toArray

/-! B. Schneier / E. Young `vectors.txt` (ECB, 8-byte keys): key, plaintext, ciphertext -/

example : modelEnc (hexKey 0x0000000000000000 8) 0x0000000000000000#64 = some 0x4EF997456198DD78#64 :=
  kat_transfer _ _ _ (by decide +kernel)
example : modelEnc (hexKey 0xFFFFFFFFFFFFFFFF 8) 0xFFFFFFFFFFFFFFFF#64 = some 0x51866FD5B85ECB8A#64 :=
  kat_transfer _ _ _ (by decide +kernel)
example : modelEnc (hexKey 0x3000000000000000 8) 0x1000000000000001#64 = some 0x7D856F9A613063F2#64 :=
  kat_transfer _ _ _ (by decide +kernel)
example : modelEnc (hexKey 0x1111111111111111 8) 0x1111111111111111#64 = some 0x2466DD878B963C9D#64 :=
  kat_transfer _ _ _ (by decide +kernel)
example : modelEnc (hexKey 0x0123456789ABCDEF 8) 0x1111111111111111#64 = some 0x61F9C3802281B096#64 :=
  kat_transfer _ _ _ (by decide +kernel)
example : modelEnc (hexKey 0x1111111111111111 8) 0x0123456789ABCDEF#64 = some 0x7D0CC630AFDA1EC7#64 :=
  kat_transfer _ _ _ (by decide +kernel)
example : modelEnc (hexKey 0xFEDCBA9876543210 8) 0x0123456789ABCDEF#64 = some 0x0ACEAB0FC6A0A28D#64 :=
  kat_transfer _ _ _ (by decide +kernel)
example : modelEnc (hexKey 0x7CA110454A1A6E57 8) 0x01A1D6D039776742#64 = some 0x59C68245EB05282B#64 :=
  kat_transfer _ _ _ (by decide +kernel)
example : modelDec (hexKey 0x7CA110454A1A6E57 8) 0x59C68245EB05282B#64 = some 0x01A1D6D039776742#64 :=
  kat_transfer_dec _ _ _ (by decide +kernel)

/-- the length guard is part of what is evaluated: 3 bytes are rejected -/
example : modelEnc (hexKey 0x000000 3) 0x0#64 = none := by
  rw [modelEnc_eq_shadowEnc]; decide +kernel

end BC.Blowfish.Kat
