import Std.Tactic.BVDecide
import BlockCiphers.Gen.Cipher_Belt_wide
import BlockCiphers.Gen.Keys_Belt_block
import BlockCiphers.Proofs.GenBeltWide
import BlockCiphers.Proofs.GenKeysBelt
import BlockCiphers.Proofs.BeltWide
import BlockCiphers.Proofs.BeltWideSpec
/-!
Code-level theorems for the BelT wide block (`belt_wblock_enc` / `belt_wblock_dec` of `belt-block`, STB 34.101.31 §6.2;
property C18) on data of n ∈ {32, 33, 47, 48, 64} bytes: the statements mention ONLY the regenerated code
(`BC.Gen.Fn.belt_wblock_enc_<n>` / `belt_wblock_dec_<n>` of `Gen/Cipher_Belt_wide.lean`, `beltblock_new` of
`Gen/Keys_Belt_block.lean`) and the specification `BC.Spec.Belt.wblockEnc` / `wblockDec`.  Data are `BitVec (8n)`, byte 0 =
most significant byte; the regenerated functions return the buffer after the call (the `Result` is `Ok` on these lengths:
part of the tie `BC.GenCipher.BeltWide.belt_wblock_enc_<n>_eq`).
  * `dec_enc_<n>`, `enc_dec_<n>` : round trips for ALL 8 key words and all data;
  * `wenc_<n> K data` := regenerated `belt_wblock_enc_<n>` with the key words `to_u32::<8>(K)` computed by the regenerated
    `BeltBlock::new` (`beltblock_new K`); `wenc_<n>_eq_spec`, `wdec_<n>_eq_spec` : = belt-wblock of the standard with the
    32-byte key `K`; `wdec_wenc_<n>`, `wenc_wdec_<n>`.
Composition of (1) `BC.Belt.wblockDec_wblockEnc`, `wblockEnc_wblockDec` (Proofs/BeltWide.lean), `wblockEnc_eq_spec`,
`wblockDec_eq_spec` (Proofs/BeltWideSpec.lean) — Thm C18; (2) the ties of `Proofs/GenBeltWide.lean`; (3)
`BC.GenKeys.Belt.new_eq`.
Produced by `tools/tie_gen/bigstate/gen_belt_wide_code.py`.
-/
set_option maxRecDepth 100000
namespace BC.Code.BeltWide
open BC BC.Gen.Fn BC.Belt BC.GenCipher.BeltWide

/-- the key words of the model for the 32-byte key `K` are those of the regenerated `BeltBlock::new` -/
theorem toKey_eq (K : BitVec 256) : toKey K = #v[(beltblock_new K).1, (beltblock_new K).2.1, (beltblock_new K).2.2.1, (beltblock_new K).2.2.2.1, (beltblock_new K).2.2.2.2.1, (beltblock_new K).2.2.2.2.2.1, (beltblock_new K).2.2.2.2.2.2.1, (beltblock_new K).2.2.2.2.2.2.2] :=
  congrArg BeltBlock.key (BC.GenKeys.Belt.new_eq K)

/-! ### n = 32 -/

theorem pack_unpack_32 (x : BitVec 256) : packL_32 (unpackBE 32 x) = x := by
  rw [unpack32_lit]
  simp only [packL_32, List.getD_cons_zero, List.getD_cons_succ]
  bv_decide

theorem unpack_inj_32 (x y : BitVec 256) (h : unpackBE 32 x = unpackBE 32 y) : x = y := by
  rw [← pack_unpack_32 x, h, pack_unpack_32]

/-- `belt_wblock_dec ∘ belt_wblock_enc = id` on the regenerated code: all key words, all data -/
theorem dec_enc_32 (data : BitVec 256) (k0 k1 k2 k3 k4 k5 k6 k7 : BitVec 32) :
    belt_wblock_dec_32 (belt_wblock_enc_32 data k0 k1 k2 k3 k4 k5 k6 k7) k0 k1 k2 k3 k4 k5 k6 k7 = data := by
  apply unpack_inj_32
  have h1 := belt_wblock_enc_32_eq data k0 k1 k2 k3 k4 k5 k6 k7
  have h2 := belt_wblock_dec_32_eq (belt_wblock_enc_32 data k0 k1 k2 k3 k4 k5 k6 k7) k0 k1 k2 k3 k4 k5 k6 k7
  have h3 := wblockDec_wblockEnc (unpackBE 32 data) #v[k0, k1, k2, k3, k4, k5, k6, k7] (by rw [len_32]; decide)
  rw [← h1] at h3
  exact (Prod.mk.inj (h2.trans h3)).2

/-- `belt_wblock_enc ∘ belt_wblock_dec = id` -/
theorem enc_dec_32 (data : BitVec 256) (k0 k1 k2 k3 k4 k5 k6 k7 : BitVec 32) :
    belt_wblock_enc_32 (belt_wblock_dec_32 data k0 k1 k2 k3 k4 k5 k6 k7) k0 k1 k2 k3 k4 k5 k6 k7 = data := by
  apply unpack_inj_32
  have h1 := belt_wblock_dec_32_eq data k0 k1 k2 k3 k4 k5 k6 k7
  have h2 := belt_wblock_enc_32_eq (belt_wblock_dec_32 data k0 k1 k2 k3 k4 k5 k6 k7) k0 k1 k2 k3 k4 k5 k6 k7
  have h3 := wblockEnc_wblockDec (unpackBE 32 data) #v[k0, k1, k2, k3, k4, k5, k6, k7] (by rw [len_32]; decide)
  rw [← h1] at h3
  exact (Prod.mk.inj (h2.trans h3)).2

/-- `belt_wblock_enc(data, &to_u32::<8>(K))` on the regenerated code -/
def wenc_32 (K : BitVec 256) (data : BitVec 256) : BitVec 256 :=
  match beltblock_new K with
  | (k0, k1, k2, k3, k4, k5, k6, k7) => belt_wblock_enc_32 data k0 k1 k2 k3 k4 k5 k6 k7

def wdec_32 (K : BitVec 256) (data : BitVec 256) : BitVec 256 :=
  match beltblock_new K with
  | (k0, k1, k2, k3, k4, k5, k6, k7) => belt_wblock_dec_32 data k0 k1 k2 k3 k4 k5 k6 k7

/-- bridge to the model -/
theorem wenc_32_eq_impl (K : BitVec 256) (data : BitVec 256) :
    (WRes.ok, unpackBE 32 (wenc_32 K data)) = wblockEnc (unpackBE 32 data) (toKey K) := by
  rw [toKey_eq]
  unfold wenc_32
  generalize beltblock_new K = t
  obtain ⟨k0, k1, k2, k3, k4, k5, k6, k7⟩ := t
  exact belt_wblock_enc_32_eq data k0 k1 k2 k3 k4 k5 k6 k7

theorem wdec_32_eq_impl (K : BitVec 256) (data : BitVec 256) :
    (WRes.ok, unpackBE 32 (wdec_32 K data)) = wblockDec (unpackBE 32 data) (toKey K) := by
  rw [toKey_eq]
  unfold wdec_32
  generalize beltblock_new K = t
  obtain ⟨k0, k1, k2, k3, k4, k5, k6, k7⟩ := t
  exact belt_wblock_dec_32_eq data k0 k1 k2 k3 k4 k5 k6 k7

/-- the regenerated `belt_wblock_enc` on 32 bytes is belt-wblock encryption of STB 34.101.31 §6.2.3, every key, all data -/
theorem wenc_32_eq_spec (K : BitVec 256) (data : BitVec 256) :
    unpackBE 32 (wenc_32 K data) = Spec.Belt.wblockEnc K (unpackBE 32 data) := by
  have h := wenc_32_eq_impl K data
  rw [wblockEnc_eq_spec K _ (by rw [len_32]; decide) (by rw [len_32]; decide)] at h
  exact (Prod.mk.inj h).2

/-- … and `belt_wblock_dec` is belt-wblock decryption (§6.2.4) -/
theorem wdec_32_eq_spec (K : BitVec 256) (data : BitVec 256) :
    unpackBE 32 (wdec_32 K data) = Spec.Belt.wblockDec K (unpackBE 32 data) := by
  have h := wdec_32_eq_impl K data
  rw [wblockDec_eq_spec K _ (by rw [len_32]; decide) (by rw [len_32]; decide)] at h
  exact (Prod.mk.inj h).2

theorem wdec_wenc_32 (K : BitVec 256) (data : BitVec 256) : wdec_32 K (wenc_32 K data) = data := by
  unfold wdec_32 wenc_32
  generalize beltblock_new K = t
  obtain ⟨k0, k1, k2, k3, k4, k5, k6, k7⟩ := t
  exact dec_enc_32 data k0 k1 k2 k3 k4 k5 k6 k7

theorem wenc_wdec_32 (K : BitVec 256) (data : BitVec 256) : wenc_32 K (wdec_32 K data) = data := by
  unfold wdec_32 wenc_32
  generalize beltblock_new K = t
  obtain ⟨k0, k1, k2, k3, k4, k5, k6, k7⟩ := t
  exact enc_dec_32 data k0 k1 k2 k3 k4 k5 k6 k7

/-! ### n = 33 -/

theorem pack_unpack_33 (x : BitVec 264) : packL_33 (unpackBE 33 x) = x := by
  rw [unpack33_lit]
  simp only [packL_33, List.getD_cons_zero, List.getD_cons_succ]
  bv_decide

theorem unpack_inj_33 (x y : BitVec 264) (h : unpackBE 33 x = unpackBE 33 y) : x = y := by
  rw [← pack_unpack_33 x, h, pack_unpack_33]

/-- `belt_wblock_dec ∘ belt_wblock_enc = id` on the regenerated code: all key words, all data -/
theorem dec_enc_33 (data : BitVec 264) (k0 k1 k2 k3 k4 k5 k6 k7 : BitVec 32) :
    belt_wblock_dec_33 (belt_wblock_enc_33 data k0 k1 k2 k3 k4 k5 k6 k7) k0 k1 k2 k3 k4 k5 k6 k7 = data := by
  apply unpack_inj_33
  have h1 := belt_wblock_enc_33_eq data k0 k1 k2 k3 k4 k5 k6 k7
  have h2 := belt_wblock_dec_33_eq (belt_wblock_enc_33 data k0 k1 k2 k3 k4 k5 k6 k7) k0 k1 k2 k3 k4 k5 k6 k7
  have h3 := wblockDec_wblockEnc (unpackBE 33 data) #v[k0, k1, k2, k3, k4, k5, k6, k7] (by rw [len_33]; decide)
  rw [← h1] at h3
  exact (Prod.mk.inj (h2.trans h3)).2

/-- `belt_wblock_enc ∘ belt_wblock_dec = id` -/
theorem enc_dec_33 (data : BitVec 264) (k0 k1 k2 k3 k4 k5 k6 k7 : BitVec 32) :
    belt_wblock_enc_33 (belt_wblock_dec_33 data k0 k1 k2 k3 k4 k5 k6 k7) k0 k1 k2 k3 k4 k5 k6 k7 = data := by
  apply unpack_inj_33
  have h1 := belt_wblock_dec_33_eq data k0 k1 k2 k3 k4 k5 k6 k7
  have h2 := belt_wblock_enc_33_eq (belt_wblock_dec_33 data k0 k1 k2 k3 k4 k5 k6 k7) k0 k1 k2 k3 k4 k5 k6 k7
  have h3 := wblockEnc_wblockDec (unpackBE 33 data) #v[k0, k1, k2, k3, k4, k5, k6, k7] (by rw [len_33]; decide)
  rw [← h1] at h3
  exact (Prod.mk.inj (h2.trans h3)).2

/-- `belt_wblock_enc(data, &to_u32::<8>(K))` on the regenerated code -/
def wenc_33 (K : BitVec 256) (data : BitVec 264) : BitVec 264 :=
  match beltblock_new K with
  | (k0, k1, k2, k3, k4, k5, k6, k7) => belt_wblock_enc_33 data k0 k1 k2 k3 k4 k5 k6 k7

def wdec_33 (K : BitVec 256) (data : BitVec 264) : BitVec 264 :=
  match beltblock_new K with
  | (k0, k1, k2, k3, k4, k5, k6, k7) => belt_wblock_dec_33 data k0 k1 k2 k3 k4 k5 k6 k7

/-- bridge to the model -/
theorem wenc_33_eq_impl (K : BitVec 256) (data : BitVec 264) :
    (WRes.ok, unpackBE 33 (wenc_33 K data)) = wblockEnc (unpackBE 33 data) (toKey K) := by
  rw [toKey_eq]
  unfold wenc_33
  generalize beltblock_new K = t
  obtain ⟨k0, k1, k2, k3, k4, k5, k6, k7⟩ := t
  exact belt_wblock_enc_33_eq data k0 k1 k2 k3 k4 k5 k6 k7

theorem wdec_33_eq_impl (K : BitVec 256) (data : BitVec 264) :
    (WRes.ok, unpackBE 33 (wdec_33 K data)) = wblockDec (unpackBE 33 data) (toKey K) := by
  rw [toKey_eq]
  unfold wdec_33
  generalize beltblock_new K = t
  obtain ⟨k0, k1, k2, k3, k4, k5, k6, k7⟩ := t
  exact belt_wblock_dec_33_eq data k0 k1 k2 k3 k4 k5 k6 k7

/-- the regenerated `belt_wblock_enc` on 33 bytes is belt-wblock encryption of STB 34.101.31 §6.2.3, every key, all data -/
theorem wenc_33_eq_spec (K : BitVec 256) (data : BitVec 264) :
    unpackBE 33 (wenc_33 K data) = Spec.Belt.wblockEnc K (unpackBE 33 data) := by
  have h := wenc_33_eq_impl K data
  rw [wblockEnc_eq_spec K _ (by rw [len_33]; decide) (by rw [len_33]; decide)] at h
  exact (Prod.mk.inj h).2

/-- … and `belt_wblock_dec` is belt-wblock decryption (§6.2.4) -/
theorem wdec_33_eq_spec (K : BitVec 256) (data : BitVec 264) :
    unpackBE 33 (wdec_33 K data) = Spec.Belt.wblockDec K (unpackBE 33 data) := by
  have h := wdec_33_eq_impl K data
  rw [wblockDec_eq_spec K _ (by rw [len_33]; decide) (by rw [len_33]; decide)] at h
  exact (Prod.mk.inj h).2

theorem wdec_wenc_33 (K : BitVec 256) (data : BitVec 264) : wdec_33 K (wenc_33 K data) = data := by
  unfold wdec_33 wenc_33
  generalize beltblock_new K = t
  obtain ⟨k0, k1, k2, k3, k4, k5, k6, k7⟩ := t
  exact dec_enc_33 data k0 k1 k2 k3 k4 k5 k6 k7

theorem wenc_wdec_33 (K : BitVec 256) (data : BitVec 264) : wenc_33 K (wdec_33 K data) = data := by
  unfold wdec_33 wenc_33
  generalize beltblock_new K = t
  obtain ⟨k0, k1, k2, k3, k4, k5, k6, k7⟩ := t
  exact enc_dec_33 data k0 k1 k2 k3 k4 k5 k6 k7

/-! ### n = 47 -/

theorem pack_unpack_47 (x : BitVec 376) : packL_47 (unpackBE 47 x) = x := by
  rw [unpack47_lit]
  simp only [packL_47, List.getD_cons_zero, List.getD_cons_succ]
  bv_decide

theorem unpack_inj_47 (x y : BitVec 376) (h : unpackBE 47 x = unpackBE 47 y) : x = y := by
  rw [← pack_unpack_47 x, h, pack_unpack_47]

/-- `belt_wblock_dec ∘ belt_wblock_enc = id` on the regenerated code: all key words, all data -/
theorem dec_enc_47 (data : BitVec 376) (k0 k1 k2 k3 k4 k5 k6 k7 : BitVec 32) :
    belt_wblock_dec_47 (belt_wblock_enc_47 data k0 k1 k2 k3 k4 k5 k6 k7) k0 k1 k2 k3 k4 k5 k6 k7 = data := by
  apply unpack_inj_47
  have h1 := belt_wblock_enc_47_eq data k0 k1 k2 k3 k4 k5 k6 k7
  have h2 := belt_wblock_dec_47_eq (belt_wblock_enc_47 data k0 k1 k2 k3 k4 k5 k6 k7) k0 k1 k2 k3 k4 k5 k6 k7
  have h3 := wblockDec_wblockEnc (unpackBE 47 data) #v[k0, k1, k2, k3, k4, k5, k6, k7] (by rw [len_47]; decide)
  rw [← h1] at h3
  exact (Prod.mk.inj (h2.trans h3)).2

/-- `belt_wblock_enc ∘ belt_wblock_dec = id` -/
theorem enc_dec_47 (data : BitVec 376) (k0 k1 k2 k3 k4 k5 k6 k7 : BitVec 32) :
    belt_wblock_enc_47 (belt_wblock_dec_47 data k0 k1 k2 k3 k4 k5 k6 k7) k0 k1 k2 k3 k4 k5 k6 k7 = data := by
  apply unpack_inj_47
  have h1 := belt_wblock_dec_47_eq data k0 k1 k2 k3 k4 k5 k6 k7
  have h2 := belt_wblock_enc_47_eq (belt_wblock_dec_47 data k0 k1 k2 k3 k4 k5 k6 k7) k0 k1 k2 k3 k4 k5 k6 k7
  have h3 := wblockEnc_wblockDec (unpackBE 47 data) #v[k0, k1, k2, k3, k4, k5, k6, k7] (by rw [len_47]; decide)
  rw [← h1] at h3
  exact (Prod.mk.inj (h2.trans h3)).2

/-- `belt_wblock_enc(data, &to_u32::<8>(K))` on the regenerated code -/
def wenc_47 (K : BitVec 256) (data : BitVec 376) : BitVec 376 :=
  match beltblock_new K with
  | (k0, k1, k2, k3, k4, k5, k6, k7) => belt_wblock_enc_47 data k0 k1 k2 k3 k4 k5 k6 k7

def wdec_47 (K : BitVec 256) (data : BitVec 376) : BitVec 376 :=
  match beltblock_new K with
  | (k0, k1, k2, k3, k4, k5, k6, k7) => belt_wblock_dec_47 data k0 k1 k2 k3 k4 k5 k6 k7

/-- bridge to the model -/
theorem wenc_47_eq_impl (K : BitVec 256) (data : BitVec 376) :
    (WRes.ok, unpackBE 47 (wenc_47 K data)) = wblockEnc (unpackBE 47 data) (toKey K) := by
  rw [toKey_eq]
  unfold wenc_47
  generalize beltblock_new K = t
  obtain ⟨k0, k1, k2, k3, k4, k5, k6, k7⟩ := t
  exact belt_wblock_enc_47_eq data k0 k1 k2 k3 k4 k5 k6 k7

theorem wdec_47_eq_impl (K : BitVec 256) (data : BitVec 376) :
    (WRes.ok, unpackBE 47 (wdec_47 K data)) = wblockDec (unpackBE 47 data) (toKey K) := by
  rw [toKey_eq]
  unfold wdec_47
  generalize beltblock_new K = t
  obtain ⟨k0, k1, k2, k3, k4, k5, k6, k7⟩ := t
  exact belt_wblock_dec_47_eq data k0 k1 k2 k3 k4 k5 k6 k7

/-- the regenerated `belt_wblock_enc` on 47 bytes is belt-wblock encryption of STB 34.101.31 §6.2.3, every key, all data -/
theorem wenc_47_eq_spec (K : BitVec 256) (data : BitVec 376) :
    unpackBE 47 (wenc_47 K data) = Spec.Belt.wblockEnc K (unpackBE 47 data) := by
  have h := wenc_47_eq_impl K data
  rw [wblockEnc_eq_spec K _ (by rw [len_47]; decide) (by rw [len_47]; decide)] at h
  exact (Prod.mk.inj h).2

/-- … and `belt_wblock_dec` is belt-wblock decryption (§6.2.4) -/
theorem wdec_47_eq_spec (K : BitVec 256) (data : BitVec 376) :
    unpackBE 47 (wdec_47 K data) = Spec.Belt.wblockDec K (unpackBE 47 data) := by
  have h := wdec_47_eq_impl K data
  rw [wblockDec_eq_spec K _ (by rw [len_47]; decide) (by rw [len_47]; decide)] at h
  exact (Prod.mk.inj h).2

theorem wdec_wenc_47 (K : BitVec 256) (data : BitVec 376) : wdec_47 K (wenc_47 K data) = data := by
  unfold wdec_47 wenc_47
  generalize beltblock_new K = t
  obtain ⟨k0, k1, k2, k3, k4, k5, k6, k7⟩ := t
  exact dec_enc_47 data k0 k1 k2 k3 k4 k5 k6 k7

theorem wenc_wdec_47 (K : BitVec 256) (data : BitVec 376) : wenc_47 K (wdec_47 K data) = data := by
  unfold wdec_47 wenc_47
  generalize beltblock_new K = t
  obtain ⟨k0, k1, k2, k3, k4, k5, k6, k7⟩ := t
  exact enc_dec_47 data k0 k1 k2 k3 k4 k5 k6 k7

/-! ### n = 48 -/

theorem pack_unpack_48 (x : BitVec 384) : packL_48 (unpackBE 48 x) = x := by
  rw [unpack48_lit]
  simp only [packL_48, List.getD_cons_zero, List.getD_cons_succ]
  bv_decide

theorem unpack_inj_48 (x y : BitVec 384) (h : unpackBE 48 x = unpackBE 48 y) : x = y := by
  rw [← pack_unpack_48 x, h, pack_unpack_48]

/-- `belt_wblock_dec ∘ belt_wblock_enc = id` on the regenerated code: all key words, all data -/
theorem dec_enc_48 (data : BitVec 384) (k0 k1 k2 k3 k4 k5 k6 k7 : BitVec 32) :
    belt_wblock_dec_48 (belt_wblock_enc_48 data k0 k1 k2 k3 k4 k5 k6 k7) k0 k1 k2 k3 k4 k5 k6 k7 = data := by
  apply unpack_inj_48
  have h1 := belt_wblock_enc_48_eq data k0 k1 k2 k3 k4 k5 k6 k7
  have h2 := belt_wblock_dec_48_eq (belt_wblock_enc_48 data k0 k1 k2 k3 k4 k5 k6 k7) k0 k1 k2 k3 k4 k5 k6 k7
  have h3 := wblockDec_wblockEnc (unpackBE 48 data) #v[k0, k1, k2, k3, k4, k5, k6, k7] (by rw [len_48]; decide)
  rw [← h1] at h3
  exact (Prod.mk.inj (h2.trans h3)).2

/-- `belt_wblock_enc ∘ belt_wblock_dec = id` -/
theorem enc_dec_48 (data : BitVec 384) (k0 k1 k2 k3 k4 k5 k6 k7 : BitVec 32) :
    belt_wblock_enc_48 (belt_wblock_dec_48 data k0 k1 k2 k3 k4 k5 k6 k7) k0 k1 k2 k3 k4 k5 k6 k7 = data := by
  apply unpack_inj_48
  have h1 := belt_wblock_dec_48_eq data k0 k1 k2 k3 k4 k5 k6 k7
  have h2 := belt_wblock_enc_48_eq (belt_wblock_dec_48 data k0 k1 k2 k3 k4 k5 k6 k7) k0 k1 k2 k3 k4 k5 k6 k7
  have h3 := wblockEnc_wblockDec (unpackBE 48 data) #v[k0, k1, k2, k3, k4, k5, k6, k7] (by rw [len_48]; decide)
  rw [← h1] at h3
  exact (Prod.mk.inj (h2.trans h3)).2

/-- `belt_wblock_enc(data, &to_u32::<8>(K))` on the regenerated code -/
def wenc_48 (K : BitVec 256) (data : BitVec 384) : BitVec 384 :=
  match beltblock_new K with
  | (k0, k1, k2, k3, k4, k5, k6, k7) => belt_wblock_enc_48 data k0 k1 k2 k3 k4 k5 k6 k7

def wdec_48 (K : BitVec 256) (data : BitVec 384) : BitVec 384 :=
  match beltblock_new K with
  | (k0, k1, k2, k3, k4, k5, k6, k7) => belt_wblock_dec_48 data k0 k1 k2 k3 k4 k5 k6 k7

/-- bridge to the model -/
theorem wenc_48_eq_impl (K : BitVec 256) (data : BitVec 384) :
    (WRes.ok, unpackBE 48 (wenc_48 K data)) = wblockEnc (unpackBE 48 data) (toKey K) := by
  rw [toKey_eq]
  unfold wenc_48
  generalize beltblock_new K = t
  obtain ⟨k0, k1, k2, k3, k4, k5, k6, k7⟩ := t
  exact belt_wblock_enc_48_eq data k0 k1 k2 k3 k4 k5 k6 k7

theorem wdec_48_eq_impl (K : BitVec 256) (data : BitVec 384) :
    (WRes.ok, unpackBE 48 (wdec_48 K data)) = wblockDec (unpackBE 48 data) (toKey K) := by
  rw [toKey_eq]
  unfold wdec_48
  generalize beltblock_new K = t
  obtain ⟨k0, k1, k2, k3, k4, k5, k6, k7⟩ := t
  exact belt_wblock_dec_48_eq data k0 k1 k2 k3 k4 k5 k6 k7

/-- the regenerated `belt_wblock_enc` on 48 bytes is belt-wblock encryption of STB 34.101.31 §6.2.3, every key, all data -/
theorem wenc_48_eq_spec (K : BitVec 256) (data : BitVec 384) :
    unpackBE 48 (wenc_48 K data) = Spec.Belt.wblockEnc K (unpackBE 48 data) := by
  have h := wenc_48_eq_impl K data
  rw [wblockEnc_eq_spec K _ (by rw [len_48]; decide) (by rw [len_48]; decide)] at h
  exact (Prod.mk.inj h).2

/-- … and `belt_wblock_dec` is belt-wblock decryption (§6.2.4) -/
theorem wdec_48_eq_spec (K : BitVec 256) (data : BitVec 384) :
    unpackBE 48 (wdec_48 K data) = Spec.Belt.wblockDec K (unpackBE 48 data) := by
  have h := wdec_48_eq_impl K data
  rw [wblockDec_eq_spec K _ (by rw [len_48]; decide) (by rw [len_48]; decide)] at h
  exact (Prod.mk.inj h).2

theorem wdec_wenc_48 (K : BitVec 256) (data : BitVec 384) : wdec_48 K (wenc_48 K data) = data := by
  unfold wdec_48 wenc_48
  generalize beltblock_new K = t
  obtain ⟨k0, k1, k2, k3, k4, k5, k6, k7⟩ := t
  exact dec_enc_48 data k0 k1 k2 k3 k4 k5 k6 k7

theorem wenc_wdec_48 (K : BitVec 256) (data : BitVec 384) : wenc_48 K (wdec_48 K data) = data := by
  unfold wdec_48 wenc_48
  generalize beltblock_new K = t
  obtain ⟨k0, k1, k2, k3, k4, k5, k6, k7⟩ := t
  exact enc_dec_48 data k0 k1 k2 k3 k4 k5 k6 k7

/-! ### n = 64 -/

theorem pack_unpack_64 (x : BitVec 512) : packL_64 (unpackBE 64 x) = x := by
  rw [unpack64_lit]
  simp only [packL_64, List.getD_cons_zero, List.getD_cons_succ]
  bv_decide

theorem unpack_inj_64 (x y : BitVec 512) (h : unpackBE 64 x = unpackBE 64 y) : x = y := by
  rw [← pack_unpack_64 x, h, pack_unpack_64]

/-- `belt_wblock_dec ∘ belt_wblock_enc = id` on the regenerated code: all key words, all data -/
theorem dec_enc_64 (data : BitVec 512) (k0 k1 k2 k3 k4 k5 k6 k7 : BitVec 32) :
    belt_wblock_dec_64 (belt_wblock_enc_64 data k0 k1 k2 k3 k4 k5 k6 k7) k0 k1 k2 k3 k4 k5 k6 k7 = data := by
  apply unpack_inj_64
  have h1 := belt_wblock_enc_64_eq data k0 k1 k2 k3 k4 k5 k6 k7
  have h2 := belt_wblock_dec_64_eq (belt_wblock_enc_64 data k0 k1 k2 k3 k4 k5 k6 k7) k0 k1 k2 k3 k4 k5 k6 k7
  have h3 := wblockDec_wblockEnc (unpackBE 64 data) #v[k0, k1, k2, k3, k4, k5, k6, k7] (by rw [len_64]; decide)
  rw [← h1] at h3
  exact (Prod.mk.inj (h2.trans h3)).2

/-- `belt_wblock_enc ∘ belt_wblock_dec = id` -/
theorem enc_dec_64 (data : BitVec 512) (k0 k1 k2 k3 k4 k5 k6 k7 : BitVec 32) :
    belt_wblock_enc_64 (belt_wblock_dec_64 data k0 k1 k2 k3 k4 k5 k6 k7) k0 k1 k2 k3 k4 k5 k6 k7 = data := by
  apply unpack_inj_64
  have h1 := belt_wblock_dec_64_eq data k0 k1 k2 k3 k4 k5 k6 k7
  have h2 := belt_wblock_enc_64_eq (belt_wblock_dec_64 data k0 k1 k2 k3 k4 k5 k6 k7) k0 k1 k2 k3 k4 k5 k6 k7
  have h3 := wblockEnc_wblockDec (unpackBE 64 data) #v[k0, k1, k2, k3, k4, k5, k6, k7] (by rw [len_64]; decide)
  rw [← h1] at h3
  exact (Prod.mk.inj (h2.trans h3)).2

/-- `belt_wblock_enc(data, &to_u32::<8>(K))` on the regenerated code -/
def wenc_64 (K : BitVec 256) (data : BitVec 512) : BitVec 512 :=
  match beltblock_new K with
  | (k0, k1, k2, k3, k4, k5, k6, k7) => belt_wblock_enc_64 data k0 k1 k2 k3 k4 k5 k6 k7

def wdec_64 (K : BitVec 256) (data : BitVec 512) : BitVec 512 :=
  match beltblock_new K with
  | (k0, k1, k2, k3, k4, k5, k6, k7) => belt_wblock_dec_64 data k0 k1 k2 k3 k4 k5 k6 k7

/-- bridge to the model -/
theorem wenc_64_eq_impl (K : BitVec 256) (data : BitVec 512) :
    (WRes.ok, unpackBE 64 (wenc_64 K data)) = wblockEnc (unpackBE 64 data) (toKey K) := by
  rw [toKey_eq]
  unfold wenc_64
  generalize beltblock_new K = t
  obtain ⟨k0, k1, k2, k3, k4, k5, k6, k7⟩ := t
  exact belt_wblock_enc_64_eq data k0 k1 k2 k3 k4 k5 k6 k7

theorem wdec_64_eq_impl (K : BitVec 256) (data : BitVec 512) :
    (WRes.ok, unpackBE 64 (wdec_64 K data)) = wblockDec (unpackBE 64 data) (toKey K) := by
  rw [toKey_eq]
  unfold wdec_64
  generalize beltblock_new K = t
  obtain ⟨k0, k1, k2, k3, k4, k5, k6, k7⟩ := t
  exact belt_wblock_dec_64_eq data k0 k1 k2 k3 k4 k5 k6 k7

/-- the regenerated `belt_wblock_enc` on 64 bytes is belt-wblock encryption of STB 34.101.31 §6.2.3, every key, all data -/
theorem wenc_64_eq_spec (K : BitVec 256) (data : BitVec 512) :
    unpackBE 64 (wenc_64 K data) = Spec.Belt.wblockEnc K (unpackBE 64 data) := by
  have h := wenc_64_eq_impl K data
  rw [wblockEnc_eq_spec K _ (by rw [len_64]; decide) (by rw [len_64]; decide)] at h
  exact (Prod.mk.inj h).2

/-- … and `belt_wblock_dec` is belt-wblock decryption (§6.2.4) -/
theorem wdec_64_eq_spec (K : BitVec 256) (data : BitVec 512) :
    unpackBE 64 (wdec_64 K data) = Spec.Belt.wblockDec K (unpackBE 64 data) := by
  have h := wdec_64_eq_impl K data
  rw [wblockDec_eq_spec K _ (by rw [len_64]; decide) (by rw [len_64]; decide)] at h
  exact (Prod.mk.inj h).2

theorem wdec_wenc_64 (K : BitVec 256) (data : BitVec 512) : wdec_64 K (wenc_64 K data) = data := by
  unfold wdec_64 wenc_64
  generalize beltblock_new K = t
  obtain ⟨k0, k1, k2, k3, k4, k5, k6, k7⟩ := t
  exact dec_enc_64 data k0 k1 k2 k3 k4 k5 k6 k7

theorem wenc_wdec_64 (K : BitVec 256) (data : BitVec 512) : wenc_64 K (wdec_64 K data) = data := by
  unfold wdec_64 wenc_64
  generalize beltblock_new K = t
  obtain ⟨k0, k1, k2, k3, k4, k5, k6, k7⟩ := t
  exact enc_dec_64 data k0 k1 k2 k3 k4 k5 k6 k7

end BC.Code.BeltWide
