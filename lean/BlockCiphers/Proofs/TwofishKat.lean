import BlockCiphers.Impl.Twofish
import BlockCiphers.Spec.Twofish
/-
Twofish known-answer vectors, evaluated by the Lean kernel (`decide +kernel`), for the model of the Rust
code and for the paper-level specification:
* /repo/twofish/src/tests.rs : `intermediate128/192/256` (the 40 sub-keys and the S-box key words of the
  paper's "intermediate value" examples);
* /repo/twofish/tests/mod.rs : the iterated key/plaintext chain of the Twofish submission (iterations 1..5 as a
  chain, iteration 48 as a single encryption, for each key size);
* the three ECB examples of the paper through `Spec.Twofish.encrypt`.
-/
namespace BC.Twofish

def hexKey (n : Nat) (v : Nat) : Array (BitVec 8) := (unpackBE n (BitVec.ofNat (8 * n) v)).toArray

def key192 : Array (BitVec 8) := hexKey 24 0x0123456789ABCDEFFEDCBA98765432100011223344556677
def key256 : Array (BitVec 8) := hexKey 32 0x0123456789ABCDEFFEDCBA98765432100011223344556677_8899AABBCCDDEEFF

/-- `intermediate128` -/
example : (keySchedule (hexKey 16 0)).k.toList = [
    0x52C54DDE, 0x11F0626D, 0x7CAC9D4A, 0x4D1B4AAA, 0xB7B83A10, 0x1E7D0BEB, 0xEE9C341F,
    0xCFE14BE4, 0xF98FFEF9, 0x9C5B3C17, 0x15A48310, 0x342A4D81, 0x424D89FE, 0xC14724A7,
    0x311B834C, 0xFDE87320, 0x3302778F, 0x26CD67B4, 0x7A6C6362, 0xC2BAF60E, 0x3411B994,
    0xD972C87F, 0x84ADB1EA, 0xA7DEE434, 0x54D2960F, 0xA2F7CAA8, 0xA6B8FF8C, 0x8014C425,
    0x6A748D1C, 0xEDBAF720, 0x928EF78C, 0x0338EE13, 0x9949D6BE, 0xC8314176, 0x07C07D68,
    0xECAE7EA7, 0x1FE71844, 0x85C05C89, 0xF298311E, 0x696EA672] := by decide +kernel

/-- `intermediate192` -/
example : (keySchedule key192).s.toList.take 12 =
    [0xf2, 0xf6, 0x9f, 0xb8, 0x4b, 0xbc, 0x55, 0xb2, 0x61, 0x10, 0x66, 0x45] := by decide +kernel
example : (keySchedule key192).k.toList = [
    0x38394A24, 0xC36D1175, 0xE802528F, 0x219BFEB4, 0xB9141AB4, 0xBD3E70CD, 0xAF609383,
    0xFD36908A, 0x03EFB931, 0x1D2EE7EC, 0xA7489D55, 0x6E44B6E8, 0x714AD667, 0x653AD51F,
    0xB6315B66, 0xB27C05AF, 0xA06C8140, 0x9853D419, 0x4016E346, 0x8D1C0DD4, 0xF05480BE,
    0xB6AF816F, 0x2D7DC789, 0x45B7BD3A, 0x57F8A163, 0x2BEFDA69, 0x26AE7271, 0xC2900D79,
    0xED323794, 0x3D3FFD80, 0x5DE68E49, 0x9C3D2478, 0xDF326FE3, 0x5911F70D, 0xC229F13B,
    0xB1364772, 0x4235364D, 0x0CEC363A, 0x57C8DD1F, 0x6A1AD61E] := by decide +kernel

/-- `intermediate256` -/
example : (keySchedule key256).s.toList =
    [0xf2, 0xf6, 0x9f, 0xb8, 0x4b, 0xbc, 0x55, 0xb2, 0x61, 0x10, 0x66, 0x45, 0xf7, 0x47, 0x44, 0x8e] := by
  decide +kernel
example : (keySchedule key256).k.toList = [
    0x5EC769BF, 0x44D13C60, 0x76CD39B1, 0x16750474, 0x349C294B, 0xEC21F6D6, 0x4FBD10B4,
    0x578DA0ED, 0xC3479695, 0x9B6958FB, 0x6A7FBC4E, 0x0BF1830B, 0x61B5E0FB, 0xD78D9730,
    0x7C6CF0C4, 0x2F9109C8, 0xE69EA8D1, 0xED99BDFF, 0x35DC0BBD, 0xA03E5018, 0xFB18EA0B,
    0x38BD43D3, 0x76191781, 0x37A9A0D3, 0x72427BEA, 0x911CC0B8, 0xF1689449, 0x71009CA9,
    0xB6363E89, 0x494D9855, 0x590BBC63, 0xF95A28B5, 0xFB72B4E1, 0x2A43505C, 0xBFD34176,
    0x5C133D12, 0x3A9247F7, 0x9A3331DD, 0xEE7515E6, 0xF0D54DCD] := by decide +kernel

/-! ### the iterated test of /repo/twofish/tests/mod.rs -/

structure Chain where
  key : List (BitVec 8)
  plain : BitVec 128
  cipher : BitVec 128

/-- one iteration of the loop of `new_test!`: encrypt, then `key = plain ‖ key[..len-16]`, `plain = cipher` -/
def chainStep (c : Chain) : Chain :=
  let ks := keySchedule c.key.toArray
  let cipher := encrypt ks c.plain
  { key := unpackBE 16 c.plain ++ c.key.take (c.key.length - 16), plain := cipher, cipher := cipher }

/-- the ciphertexts of iterations `1 … n` (one pass) -/
def chainCiphers (keyLen : Nat) : Nat → Chain → List (BitVec 128)
  | 0, _ => []
  | n + 1, c => let c' := chainStep c; c'.cipher :: chainCiphers keyLen n c'

def chain0 (keyLen : Nat) : Chain := { key := List.replicate keyLen 0#8, plain := 0#128, cipher := 0#128 }

/-- iterations 1..5 (`$r1 … $r5`) for the three key sizes -/
example : chainCiphers 16 5 (chain0 16) = [0x9F589F5CF6122C32B6BFEC2F2AE8C35A, 0xD491DB16E7B1C39E86CB086B789F5419,
    0x019F9809DE1711858FAAC3A3BA20FBC3, 0x6363977DE839486297E661C6C9D668EB,
    0x816D5BD0FAE35342BF2A7412C246F752] := by decide +kernel
example : chainCiphers 24 5 (chain0 24) = [0xEFA71F788965BD4453F860178FC19101, 0x88B2B2706B105E36B446BB6D731A1E88,
    0x39DA69D6BA4997D585B6DC073CA341B2, 0x182B02D81497EA45F9DAACDC29193A65,
    0x7AFF7A70CA2FF28AC31DD8AE5DAAAB63] := by decide +kernel
example : chainCiphers 32 5 (chain0 32) = [0x57FF739D4DC92C1BD7FC01700CC8216F, 0xD43BB7556EA32E46F2A282B7D45B4E0D,
    0x90AFE91BB288544F2C32DC239B2635E6, 0x6CB4561C40BF0A9705931CB6D408E7FA,
    0x3059D6D61753B958D92F4781C8640E58] := by decide +kernel

/-- iteration 48 (`$r48`): the key and plaintext of that iteration were produced by running the chain on the real
crate (the 47 earlier links are ordinary encryptions; evaluating all 48 in the kernel needs > 12 GB) -/
example : encrypt (keySchedule (hexKey 16 0x137a24ca47cd12be818df4d2f4355960)) 0xbca724a54533c6987e14aa827952f921#128
    = 0x6B459286F3FFD28D49F15B1581B08E42#128 := by decide +kernel
example : encrypt (keySchedule (hexKey 24 0xdea4f3da75ec7a8eac3861a9912402cd5dbe44032769df54)) 0xfb66522c332fcc4c042abe32fa9e902f#128
    = 0xF0AB73301125FA21EF70BE5385FB76B6#128 := by decide +kernel
example : encrypt (keySchedule (hexKey 32 0x2e2158bc3e5fc714c1eeeca0ea696d48d2ded73e59319a8138e0331f0ea149ea)) 0x248a7f3528b168acfdd1386e3f51e30c#128
    = 0x431058F4DBC7F734DA4F02F04CC4F459#128 := by decide +kernel

/-! ### the ECB examples of the paper (section "Test Vectors"), through the specification -/

example : Spec.Twofish.encrypt (hexKey 16 0) 0#128 = 0x9F589F5CF6122C32B6BFEC2F2AE8C35A#128 := by decide +kernel
example : Spec.Twofish.encrypt key192 0#128 = 0xCFD1D2E5A9BE9CDF501F13B892BD2248#128 := by decide +kernel
example : Spec.Twofish.encrypt key256 0#128 = 0x37527BE0052334B89F0CFCCAE87CFA20#128 := by decide +kernel
example : encrypt (keySchedule key192) 0#128 = 0xCFD1D2E5A9BE9CDF501F13B892BD2248#128 := by decide +kernel
example : encrypt (keySchedule key256) 0#128 = 0x37527BE0052334B89F0CFCCAE87CFA20#128 := by decide +kernel
example : decrypt (keySchedule key256) 0x37527BE0052334B89F0CFCCAE87CFA20#128 = 0#128 := by decide +kernel

end BC.Twofish
