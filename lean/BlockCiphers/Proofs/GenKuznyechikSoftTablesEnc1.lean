import BlockCiphers.Gen.Cipher_Kuznyechik_soft
import BlockCiphers.Proofs.GenKuznyechikSoftTablesBase
/-! Part of the fused-table tie of Kuznyechik's big software backend: see `GenKuznyechikSoftTablesBase.lean`. -/
set_option maxRecDepth 100000
namespace BC.GenCipher.Kuznyechik
open BC BC.Kuznyechik BC.Spec.Kuznyechik BC.Gen.Fn
/-! #### enc, byte position 8 -/
def Renc8 (v : BitVec 8) : BitVec 128 := rev128 (L (setb 0#128 8 v))
theorem Renc8_xor (a b : BitVec 8) : Renc8 (a ^^^ b) = Renc8 a ^^^ Renc8 b := by
  simp only [Renc8, setb_xor8, L_xor, rev128_xor]
theorem Renc8_zero : Renc8 0#8 = 0#128 := by
  have h := Renc8_xor 0#8 0#8
  simp only [BitVec.xor_self] at h
  exact h
theorem Renc8_ite (c : Bool) (a : BitVec 8) : Renc8 (if c then a else 0#8) = if c then Renc8 a else 0#128 := by
  cases c <;> simp [Renc8_zero]
theorem Renc8_b0 : Renc8 0x01#8 = 0x154307bef840809d4d5a38da6a1c10a#128 := by
  rw [Renc8, setb_unit8, ← l_fwd_eq_L, ← lfwdB_pack kuznyechik_compact_encrypt_block_tbl0 kuznyechik_compact_encrypt_block_tbl1 kuznyechik_compact_encrypt_block_tbl2 kuznyechik_compact_encrypt_block_tbl3 kuznyechik_compact_encrypt_block_tbl4 kuznyechik_compact_encrypt_block_tbl5 kuznyechik_compact_encrypt_block_tbl6 gfE]
  decide +kernel
theorem Renc8_b1 : Renc8 0x02#8 = 0x2a860f61dcb10126b6985d98f814114#128 := by
  rw [Renc8, setb_unit8, ← l_fwd_eq_L, ← lfwdB_pack kuznyechik_compact_encrypt_block_tbl0 kuznyechik_compact_encrypt_block_tbl1 kuznyechik_compact_encrypt_block_tbl2 kuznyechik_compact_encrypt_block_tbl3 kuznyechik_compact_encrypt_block_tbl4 kuznyechik_compact_encrypt_block_tbl5 kuznyechik_compact_encrypt_block_tbl6 gfE]
  decide +kernel
theorem Renc8_b2 : Renc8 0x04#8 = 0x493c02f3a552024d6d2c971ddc18228#128 := by
  rw [Renc8, setb_unit8, ← l_fwd_eq_L, ← lfwdB_pack kuznyechik_compact_encrypt_block_tbl0 kuznyechik_compact_encrypt_block_tbl1 kuznyechik_compact_encrypt_block_tbl2 kuznyechik_compact_encrypt_block_tbl3 kuznyechik_compact_encrypt_block_tbl4 kuznyechik_compact_encrypt_block_tbl5 kuznyechik_compact_encrypt_block_tbl6 gfE]
  decide +kernel
theorem Renc8_b3 : Renc8 0x08#8 = 0x8e5435e74aa40486f6751e27941c750#128 := by
  rw [Renc8, setb_unit8, ← l_fwd_eq_L, ← lfwdB_pack kuznyechik_compact_encrypt_block_tbl0 kuznyechik_compact_encrypt_block_tbl1 kuznyechik_compact_encrypt_block_tbl2 kuznyechik_compact_encrypt_block_tbl3 kuznyechik_compact_encrypt_block_tbl4 kuznyechik_compact_encrypt_block_tbl5 kuznyechik_compact_encrypt_block_tbl6 gfE]
  decide +kernel
theorem Renc8_b4 : Renc8 0x10#8 = 0x100986bce8978090decea207f2824da0#128 := by
  rw [Renc8, setb_unit8, ← l_fwd_eq_L, ← lfwdB_pack kuznyechik_compact_encrypt_block_tbl0 kuznyechik_compact_encrypt_block_tbl1 kuznyechik_compact_encrypt_block_tbl2 kuznyechik_compact_encrypt_block_tbl3 kuznyechik_compact_encrypt_block_tbl4 kuznyechik_compact_encrypt_block_tbl5 kuznyechik_compact_encrypt_block_tbl6 gfE]
  decide +kernel
theorem Renc8_b5 : Renc8 0x20#8 = 0x2012cfbb13edc3e37f5f870e27c79a83#128 := by
  rw [Renc8, setb_unit8, ← l_fwd_eq_L, ← lfwdB_pack kuznyechik_compact_encrypt_block_tbl0 kuznyechik_compact_encrypt_block_tbl1 kuznyechik_compact_encrypt_block_tbl2 kuznyechik_compact_encrypt_block_tbl3 kuznyechik_compact_encrypt_block_tbl4 kuznyechik_compact_encrypt_block_tbl5 kuznyechik_compact_encrypt_block_tbl6 gfE]
  decide +kernel
theorem Renc8_b6 : Renc8 0x40#8 = 0x40245db526194505febecd1c4e4df7c5#128 := by
  rw [Renc8, setb_unit8, ← l_fwd_eq_L, ← lfwdB_pack kuznyechik_compact_encrypt_block_tbl0 kuznyechik_compact_encrypt_block_tbl1 kuznyechik_compact_encrypt_block_tbl2 kuznyechik_compact_encrypt_block_tbl3 kuznyechik_compact_encrypt_block_tbl4 kuznyechik_compact_encrypt_block_tbl5 kuznyechik_compact_encrypt_block_tbl6 gfE]
  decide +kernel
theorem Renc8_b7 : Renc8 0x80#8 = 0x8048baa94c328a0a3fbf59389c9a2d49#128 := by
  rw [Renc8, setb_unit8, ← l_fwd_eq_L, ← lfwdB_pack kuznyechik_compact_encrypt_block_tbl0 kuznyechik_compact_encrypt_block_tbl1 kuznyechik_compact_encrypt_block_tbl2 kuznyechik_compact_encrypt_block_tbl3 kuznyechik_compact_encrypt_block_tbl4 kuznyechik_compact_encrypt_block_tbl5 kuznyechik_compact_encrypt_block_tbl6 gfE]
  decide +kernel
theorem Renc8_comb (v : BitVec 8) : Renc8 v = comb 0x154307bef840809d4d5a38da6a1c10a#128 0x2a860f61dcb10126b6985d98f814114#128 0x493c02f3a552024d6d2c971ddc18228#128 0x8e5435e74aa40486f6751e27941c750#128 0x100986bce8978090decea207f2824da0#128 0x2012cfbb13edc3e37f5f870e27c79a83#128 0x40245db526194505febecd1c4e4df7c5#128 0x8048baa94c328a0a3fbf59389c9a2d49#128 v := by
  have h := congrArg Renc8 (bits8 v)
  rw [← h]
  simp only [Renc8_xor, Renc8_ite, Renc8_b0, Renc8_b1, Renc8_b2, Renc8_b3, Renc8_b4, Renc8_b5, Renc8_b6, Renc8_b7, comb]
theorem encC_8 : ∀ n : Fin 256, BC.Gen.tblAt kuznyechik_soft_encrypt_block_tbl8 n.val 128 = comb 0x154307bef840809d4d5a38da6a1c10a#128 0x2a860f61dcb10126b6985d98f814114#128 0x493c02f3a552024d6d2c971ddc18228#128 0x8e5435e74aa40486f6751e27941c750#128 0x100986bce8978090decea207f2824da0#128 0x2012cfbb13edc3e37f5f870e27c79a83#128 0x40245db526194505febecd1c4e4df7c5#128 0x8048baa94c328a0a3fbf59389c9a2d49#128 (BC.Gen.tblAt BC.Gen.kuznyechik_P n.val 8) := by decide +kernel
theorem encT_8 (x : BitVec 8) : BC.Gen.tblAt kuznyechik_soft_encrypt_block_tbl8 (x.setWidth 64).toNat 128 = row ENC_TABLE.get ⟨8, by decide⟩ x := by
  rw [ENC_TABLE_row]
  show _ = Renc8 _
  rw [Renc8_comb]
  refine fin_at _ (fun y => comb 0x154307bef840809d4d5a38da6a1c10a#128 0x2a860f61dcb10126b6985d98f814114#128 0x493c02f3a552024d6d2c971ddc18228#128 0x8e5435e74aa40486f6751e27941c750#128 0x100986bce8978090decea207f2824da0#128 0x2012cfbb13edc3e37f5f870e27c79a83#128 0x40245db526194505febecd1c4e4df7c5#128 0x8048baa94c328a0a3fbf59389c9a2d49#128 (lut P y)) (fun n => ?_) x
  rw [encC_8 n, p_fin n]

/-! #### enc, byte position 9 -/
def Renc9 (v : BitVec 8) : BitVec 128 := rev128 (L (setb 0#128 9 v))
theorem Renc9_xor (a b : BitVec 8) : Renc9 (a ^^^ b) = Renc9 a ^^^ Renc9 b := by
  simp only [Renc9, setb_xor9, L_xor, rev128_xor]
theorem Renc9_zero : Renc9 0#8 = 0#128 := by
  have h := Renc9_xor 0#8 0#8
  simp only [BitVec.xor_self] at h
  exact h
theorem Renc9_ite (c : Bool) (a : BitVec 8) : Renc9 (if c then a else 0#8) = if c then Renc9 a else 0#128 := by
  cases c <;> simp [Renc9_zero]
theorem Renc9_b0 : Renc9 0x01#8 = 0xc0b4a6ff392f546cafebe1d4d76364bf#128 := by
  rw [Renc9, setb_unit9, ← l_fwd_eq_L, ← lfwdB_pack kuznyechik_compact_encrypt_block_tbl0 kuznyechik_compact_encrypt_block_tbl1 kuznyechik_compact_encrypt_block_tbl2 kuznyechik_compact_encrypt_block_tbl3 kuznyechik_compact_encrypt_block_tbl4 kuznyechik_compact_encrypt_block_tbl5 kuznyechik_compact_encrypt_block_tbl6 gfE]
  decide +kernel
theorem Renc9_b1 : Renc9 0x02#8 = 0x43ab8f3d725ea8d89d15016b6dc6c8bd#128 := by
  rw [Renc9, setb_unit9, ← l_fwd_eq_L, ← lfwdB_pack kuznyechik_compact_encrypt_block_tbl0 kuznyechik_compact_encrypt_block_tbl1 kuznyechik_compact_encrypt_block_tbl2 kuznyechik_compact_encrypt_block_tbl3 kuznyechik_compact_encrypt_block_tbl4 kuznyechik_compact_encrypt_block_tbl5 kuznyechik_compact_encrypt_block_tbl6 gfE]
  decide +kernel
theorem Renc9_b2 : Renc9 0x04#8 = 0x8695dd7ae4bc9373f92a02d6da4f53b9#128 := by
  rw [Renc9, setb_unit9, ← l_fwd_eq_L, ← lfwdB_pack kuznyechik_compact_encrypt_block_tbl0 kuznyechik_compact_encrypt_block_tbl1 kuznyechik_compact_encrypt_block_tbl2 kuznyechik_compact_encrypt_block_tbl3 kuznyechik_compact_encrypt_block_tbl4 kuznyechik_compact_encrypt_block_tbl5 kuznyechik_compact_encrypt_block_tbl6 gfE]
  decide +kernel
theorem Renc9_b3 : Renc9 0x08#8 = 0xcfe979f40bbbe5e63154046f779ea6b1#128 := by
  rw [Renc9, setb_unit9, ← l_fwd_eq_L, ← lfwdB_pack kuznyechik_compact_encrypt_block_tbl0 kuznyechik_compact_encrypt_block_tbl1 kuznyechik_compact_encrypt_block_tbl2 kuznyechik_compact_encrypt_block_tbl3 kuznyechik_compact_encrypt_block_tbl4 kuznyechik_compact_encrypt_block_tbl5 kuznyechik_compact_encrypt_block_tbl6 gfE]
  decide +kernel
theorem Renc9_b4 : Renc9 0x10#8 = 0x5d11f22b16b5090f62a808deeeff8fa1#128 := by
  rw [Renc9, setb_unit9, ← l_fwd_eq_L, ← lfwdB_pack kuznyechik_compact_encrypt_block_tbl0 kuznyechik_compact_encrypt_block_tbl1 kuznyechik_compact_encrypt_block_tbl2 kuznyechik_compact_encrypt_block_tbl3 kuznyechik_compact_encrypt_block_tbl4 kuznyechik_compact_encrypt_block_tbl5 kuznyechik_compact_encrypt_block_tbl6 gfE]
  decide +kernel
theorem Renc9_b5 : Renc9 0x20#8 = 0xba2227562ca9121ec493107f1f3ddd81#128 := by
  rw [Renc9, setb_unit9, ← l_fwd_eq_L, ← lfwdB_pack kuznyechik_compact_encrypt_block_tbl0 kuznyechik_compact_encrypt_block_tbl1 kuznyechik_compact_encrypt_block_tbl2 kuznyechik_compact_encrypt_block_tbl3 kuznyechik_compact_encrypt_block_tbl4 kuznyechik_compact_encrypt_block_tbl5 kuznyechik_compact_encrypt_block_tbl6 gfE]
  decide +kernel
theorem Renc9_b6 : Renc9 0x40#8 = 0xb7444eac5891243c4be520fe3e7a79c1#128 := by
  rw [Renc9, setb_unit9, ← l_fwd_eq_L, ← lfwdB_pack kuznyechik_compact_encrypt_block_tbl0 kuznyechik_compact_encrypt_block_tbl1 kuznyechik_compact_encrypt_block_tbl2 kuznyechik_compact_encrypt_block_tbl3 kuznyechik_compact_encrypt_block_tbl4 kuznyechik_compact_encrypt_block_tbl5 kuznyechik_compact_encrypt_block_tbl6 gfE]
  decide +kernel
theorem Renc9_b7 : Renc9 0x80#8 = 0xad889c9bb0e148789609403f7cf4f241#128 := by
  rw [Renc9, setb_unit9, ← l_fwd_eq_L, ← lfwdB_pack kuznyechik_compact_encrypt_block_tbl0 kuznyechik_compact_encrypt_block_tbl1 kuznyechik_compact_encrypt_block_tbl2 kuznyechik_compact_encrypt_block_tbl3 kuznyechik_compact_encrypt_block_tbl4 kuznyechik_compact_encrypt_block_tbl5 kuznyechik_compact_encrypt_block_tbl6 gfE]
  decide +kernel
theorem Renc9_comb (v : BitVec 8) : Renc9 v = comb 0xc0b4a6ff392f546cafebe1d4d76364bf#128 0x43ab8f3d725ea8d89d15016b6dc6c8bd#128 0x8695dd7ae4bc9373f92a02d6da4f53b9#128 0xcfe979f40bbbe5e63154046f779ea6b1#128 0x5d11f22b16b5090f62a808deeeff8fa1#128 0xba2227562ca9121ec493107f1f3ddd81#128 0xb7444eac5891243c4be520fe3e7a79c1#128 0xad889c9bb0e148789609403f7cf4f241#128 v := by
  have h := congrArg Renc9 (bits8 v)
  rw [← h]
  simp only [Renc9_xor, Renc9_ite, Renc9_b0, Renc9_b1, Renc9_b2, Renc9_b3, Renc9_b4, Renc9_b5, Renc9_b6, Renc9_b7, comb]
theorem encC_9 : ∀ n : Fin 256, BC.Gen.tblAt kuznyechik_soft_encrypt_block_tbl9 n.val 128 = comb 0xc0b4a6ff392f546cafebe1d4d76364bf#128 0x43ab8f3d725ea8d89d15016b6dc6c8bd#128 0x8695dd7ae4bc9373f92a02d6da4f53b9#128 0xcfe979f40bbbe5e63154046f779ea6b1#128 0x5d11f22b16b5090f62a808deeeff8fa1#128 0xba2227562ca9121ec493107f1f3ddd81#128 0xb7444eac5891243c4be520fe3e7a79c1#128 0xad889c9bb0e148789609403f7cf4f241#128 (BC.Gen.tblAt BC.Gen.kuznyechik_P n.val 8) := by decide +kernel
theorem encT_9 (x : BitVec 8) : BC.Gen.tblAt kuznyechik_soft_encrypt_block_tbl9 (x.setWidth 64).toNat 128 = row ENC_TABLE.get ⟨9, by decide⟩ x := by
  rw [ENC_TABLE_row]
  show _ = Renc9 _
  rw [Renc9_comb]
  refine fin_at _ (fun y => comb 0xc0b4a6ff392f546cafebe1d4d76364bf#128 0x43ab8f3d725ea8d89d15016b6dc6c8bd#128 0x8695dd7ae4bc9373f92a02d6da4f53b9#128 0xcfe979f40bbbe5e63154046f779ea6b1#128 0x5d11f22b16b5090f62a808deeeff8fa1#128 0xba2227562ca9121ec493107f1f3ddd81#128 0xb7444eac5891243c4be520fe3e7a79c1#128 0xad889c9bb0e148789609403f7cf4f241#128 (lut P y)) (fun n => ?_) x
  rw [encC_9 n, p_fin n]

/-! #### enc, byte position 10 -/
def Renc10 (v : BitVec 8) : BitVec 128 := rev128 (L (setb 0#128 10 v))
theorem Renc10_xor (a b : BitVec 8) : Renc10 (a ^^^ b) = Renc10 a ^^^ Renc10 b := by
  simp only [Renc10, setb_xor10, L_xor, rev128_xor]
theorem Renc10_zero : Renc10 0#8 = 0#128 := by
  have h := Renc10_xor 0#8 0#8
  simp only [BitVec.xor_self] at h
  exact h
theorem Renc10_ite (c : Bool) (a : BitVec 8) : Renc10 (if c then a else 0#8) = if c then Renc10 a else 0#128 := by
  cases c <;> simp [Renc10_zero]
theorem Renc10_b0 : Renc10 0x01#8 = 0xc28d3164eceb0f2a379990c4f630b8f6#128 := by
  rw [Renc10, setb_unit10, ← l_fwd_eq_L, ← lfwdB_pack kuznyechik_compact_encrypt_block_tbl0 kuznyechik_compact_encrypt_block_tbl1 kuznyechik_compact_encrypt_block_tbl2 kuznyechik_compact_encrypt_block_tbl3 kuznyechik_compact_encrypt_block_tbl4 kuznyechik_compact_encrypt_block_tbl5 kuznyechik_compact_encrypt_block_tbl6 gfE]
  decide +kernel
theorem Renc10_b1 : Renc10 0x02#8 = 0x47d962c81b151e546ef1e34b2f60b32f#128 := by
  rw [Renc10, setb_unit10, ← l_fwd_eq_L, ← lfwdB_pack kuznyechik_compact_encrypt_block_tbl0 kuznyechik_compact_encrypt_block_tbl1 kuznyechik_compact_encrypt_block_tbl2 kuznyechik_compact_encrypt_block_tbl3 kuznyechik_compact_encrypt_block_tbl4 kuznyechik_compact_encrypt_block_tbl5 kuznyechik_compact_encrypt_block_tbl6 gfE]
  decide +kernel
theorem Renc10_b2 : Renc10 0x04#8 = 0x8e71c453362a3ca8dc2105965ec0a55e#128 := by
  rw [Renc10, setb_unit10, ← l_fwd_eq_L, ← lfwdB_pack kuznyechik_compact_encrypt_block_tbl0 kuznyechik_compact_encrypt_block_tbl1 kuznyechik_compact_encrypt_block_tbl2 kuznyechik_compact_encrypt_block_tbl3 kuznyechik_compact_encrypt_block_tbl4 kuznyechik_compact_encrypt_block_tbl5 kuznyechik_compact_encrypt_block_tbl6 gfE]
  decide +kernel
theorem Renc10_b3 : Renc10 0x08#8 = 0xdfe24ba66c5478937b420aefbc4389bc#128 := by
  rw [Renc10, setb_unit10, ← l_fwd_eq_L, ← lfwdB_pack kuznyechik_compact_encrypt_block_tbl0 kuznyechik_compact_encrypt_block_tbl1 kuznyechik_compact_encrypt_block_tbl2 kuznyechik_compact_encrypt_block_tbl3 kuznyechik_compact_encrypt_block_tbl4 kuznyechik_compact_encrypt_block_tbl5 kuznyechik_compact_encrypt_block_tbl6 gfE]
  decide +kernel
theorem Renc10_b4 : Renc10 0x10#8 = 0x7d07968fd8a8f0e5f684141dbb86d1bb#128 := by
  rw [Renc10, setb_unit10, ← l_fwd_eq_L, ← lfwdB_pack kuznyechik_compact_encrypt_block_tbl0 kuznyechik_compact_encrypt_block_tbl1 kuznyechik_compact_encrypt_block_tbl2 kuznyechik_compact_encrypt_block_tbl3 kuznyechik_compact_encrypt_block_tbl4 kuznyechik_compact_encrypt_block_tbl5 kuznyechik_compact_encrypt_block_tbl6 gfE]
  decide +kernel
theorem Renc10_b5 : Renc10 0x20#8 = 0xfa0eefdd739323092fcb283ab5cf61b5#128 := by
  rw [Renc10, setb_unit10, ← l_fwd_eq_L, ← lfwdB_pack kuznyechik_compact_encrypt_block_tbl0 kuznyechik_compact_encrypt_block_tbl1 kuznyechik_compact_encrypt_block_tbl2 kuznyechik_compact_encrypt_block_tbl3 kuznyechik_compact_encrypt_block_tbl4 kuznyechik_compact_encrypt_block_tbl5 kuznyechik_compact_encrypt_block_tbl6 gfE]
  decide +kernel
theorem Renc10_b6 : Renc10 0x40#8 = 0x371c1d79e6e546125e555074a95dc2a9#128 := by
  rw [Renc10, setb_unit10, ← l_fwd_eq_L, ← lfwdB_pack kuznyechik_compact_encrypt_block_tbl0 kuznyechik_compact_encrypt_block_tbl1 kuznyechik_compact_encrypt_block_tbl2 kuznyechik_compact_encrypt_block_tbl3 kuznyechik_compact_encrypt_block_tbl4 kuznyechik_compact_encrypt_block_tbl5 kuznyechik_compact_encrypt_block_tbl6 gfE]
  decide +kernel
theorem Renc10_b7 : Renc10 0x80#8 = 0x6e383af20f098c24bcaaa0e891ba4791#128 := by
  rw [Renc10, setb_unit10, ← l_fwd_eq_L, ← lfwdB_pack kuznyechik_compact_encrypt_block_tbl0 kuznyechik_compact_encrypt_block_tbl1 kuznyechik_compact_encrypt_block_tbl2 kuznyechik_compact_encrypt_block_tbl3 kuznyechik_compact_encrypt_block_tbl4 kuznyechik_compact_encrypt_block_tbl5 kuznyechik_compact_encrypt_block_tbl6 gfE]
  decide +kernel
theorem Renc10_comb (v : BitVec 8) : Renc10 v = comb 0xc28d3164eceb0f2a379990c4f630b8f6#128 0x47d962c81b151e546ef1e34b2f60b32f#128 0x8e71c453362a3ca8dc2105965ec0a55e#128 0xdfe24ba66c5478937b420aefbc4389bc#128 0x7d07968fd8a8f0e5f684141dbb86d1bb#128 0xfa0eefdd739323092fcb283ab5cf61b5#128 0x371c1d79e6e546125e555074a95dc2a9#128 0x6e383af20f098c24bcaaa0e891ba4791#128 v := by
  have h := congrArg Renc10 (bits8 v)
  rw [← h]
  simp only [Renc10_xor, Renc10_ite, Renc10_b0, Renc10_b1, Renc10_b2, Renc10_b3, Renc10_b4, Renc10_b5, Renc10_b6, Renc10_b7, comb]
theorem encC_10 : ∀ n : Fin 256, BC.Gen.tblAt kuznyechik_soft_encrypt_block_tbl10 n.val 128 = comb 0xc28d3164eceb0f2a379990c4f630b8f6#128 0x47d962c81b151e546ef1e34b2f60b32f#128 0x8e71c453362a3ca8dc2105965ec0a55e#128 0xdfe24ba66c5478937b420aefbc4389bc#128 0x7d07968fd8a8f0e5f684141dbb86d1bb#128 0xfa0eefdd739323092fcb283ab5cf61b5#128 0x371c1d79e6e546125e555074a95dc2a9#128 0x6e383af20f098c24bcaaa0e891ba4791#128 (BC.Gen.tblAt BC.Gen.kuznyechik_P n.val 8) := by decide +kernel
theorem encT_10 (x : BitVec 8) : BC.Gen.tblAt kuznyechik_soft_encrypt_block_tbl10 (x.setWidth 64).toNat 128 = row ENC_TABLE.get ⟨10, by decide⟩ x := by
  rw [ENC_TABLE_row]
  show _ = Renc10 _
  rw [Renc10_comb]
  refine fin_at _ (fun y => comb 0xc28d3164eceb0f2a379990c4f630b8f6#128 0x47d962c81b151e546ef1e34b2f60b32f#128 0x8e71c453362a3ca8dc2105965ec0a55e#128 0xdfe24ba66c5478937b420aefbc4389bc#128 0x7d07968fd8a8f0e5f684141dbb86d1bb#128 0xfa0eefdd739323092fcb283ab5cf61b5#128 0x371c1d79e6e546125e555074a95dc2a9#128 0x6e383af20f098c24bcaaa0e891ba4791#128 (lut P y)) (fun n => ?_) x
  rw [encC_10 n, p_fin n]

/-! #### enc, byte position 11 -/
def Renc11 (v : BitVec 8) : BitVec 128 := rev128 (L (setb 0#128 11 v))
theorem Renc11_xor (a b : BitVec 8) : Renc11 (a ^^^ b) = Renc11 a ^^^ Renc11 b := by
  simp only [Renc11, setb_xor11, L_xor, rev128_xor]
theorem Renc11_zero : Renc11 0#8 = 0#128 := by
  have h := Renc11_xor 0#8 0#8
  simp only [BitVec.xor_self] at h
  exact h
theorem Renc11_ite (c : Bool) (a : BitVec 8) : Renc11 (if c then a else 0#8) = if c then Renc11 a else 0#128 := by
  cases c <;> simp [Renc11_zero]
theorem Renc11_b0 : Renc11 0x01#8 = 0x10d1d39191fef301b1785801496b2da9#128 := by
  rw [Renc11, setb_unit11, ← l_fwd_eq_L, ← lfwdB_pack kuznyechik_compact_encrypt_block_tbl0 kuznyechik_compact_encrypt_block_tbl1 kuznyechik_compact_encrypt_block_tbl2 kuznyechik_compact_encrypt_block_tbl3 kuznyechik_compact_encrypt_block_tbl4 kuznyechik_compact_encrypt_block_tbl5 kuznyechik_compact_encrypt_block_tbl6 gfE]
  decide +kernel
theorem Renc11_b1 : Renc11 0x02#8 = 0x206165e1e13f2502a1f0b00292d65a91#128 := by
  rw [Renc11, setb_unit11, ← l_fwd_eq_L, ← lfwdB_pack kuznyechik_compact_encrypt_block_tbl0 kuznyechik_compact_encrypt_block_tbl1 kuznyechik_compact_encrypt_block_tbl2 kuznyechik_compact_encrypt_block_tbl3 kuznyechik_compact_encrypt_block_tbl4 kuznyechik_compact_encrypt_block_tbl5 kuznyechik_compact_encrypt_block_tbl6 gfE]
  decide +kernel
theorem Renc11_b2 : Renc11 0x04#8 = 0x40c2ca01017e4a048123a304e76fb4e1#128 := by
  rw [Renc11, setb_unit11, ← l_fwd_eq_L, ← lfwdB_pack kuznyechik_compact_encrypt_block_tbl0 kuznyechik_compact_encrypt_block_tbl1 kuznyechik_compact_encrypt_block_tbl2 kuznyechik_compact_encrypt_block_tbl3 kuznyechik_compact_encrypt_block_tbl4 kuznyechik_compact_encrypt_block_tbl5 kuznyechik_compact_encrypt_block_tbl6 gfE]
  decide +kernel
theorem Renc11_b3 : Renc11 0x08#8 = 0x8047570202fc9408c14685080ddeab01#128 := by
  rw [Renc11, setb_unit11, ← l_fwd_eq_L, ← lfwdB_pack kuznyechik_compact_encrypt_block_tbl0 kuznyechik_compact_encrypt_block_tbl1 kuznyechik_compact_encrypt_block_tbl2 kuznyechik_compact_encrypt_block_tbl3 kuznyechik_compact_encrypt_block_tbl4 kuznyechik_compact_encrypt_block_tbl5 kuznyechik_compact_encrypt_block_tbl6 gfE]
  decide +kernel
theorem Renc11_b4 : Renc11 0x10#8 = 0xc38eae04043beb10418cc9101a7f9502#128 := by
  rw [Renc11, setb_unit11, ← l_fwd_eq_L, ← lfwdB_pack kuznyechik_compact_encrypt_block_tbl0 kuznyechik_compact_encrypt_block_tbl1 kuznyechik_compact_encrypt_block_tbl2 kuznyechik_compact_encrypt_block_tbl3 kuznyechik_compact_encrypt_block_tbl4 kuznyechik_compact_encrypt_block_tbl5 kuznyechik_compact_encrypt_block_tbl6 gfE]
  decide +kernel
theorem Renc11_b5 : Renc11 0x20#8 = 0x45df9f080876152082db512034fee904#128 := by
  rw [Renc11, setb_unit11, ← l_fwd_eq_L, ← lfwdB_pack kuznyechik_compact_encrypt_block_tbl0 kuznyechik_compact_encrypt_block_tbl1 kuznyechik_compact_encrypt_block_tbl2 kuznyechik_compact_encrypt_block_tbl3 kuznyechik_compact_encrypt_block_tbl4 kuznyechik_compact_encrypt_block_tbl5 kuznyechik_compact_encrypt_block_tbl6 gfE]
  decide +kernel
theorem Renc11_b6 : Renc11 0x40#8 = 0x8a7dfd1010ec2a40c775a240683f1108#128 := by
  rw [Renc11, setb_unit11, ← l_fwd_eq_L, ← lfwdB_pack kuznyechik_compact_encrypt_block_tbl0 kuznyechik_compact_encrypt_block_tbl1 kuznyechik_compact_encrypt_block_tbl2 kuznyechik_compact_encrypt_block_tbl3 kuznyechik_compact_encrypt_block_tbl4 kuznyechik_compact_encrypt_block_tbl5 kuznyechik_compact_encrypt_block_tbl6 gfE]
  decide +kernel
theorem Renc11_b7 : Renc11 0x80#8 = 0xd7fa3920201b54804dea8780d07e2210#128 := by
  rw [Renc11, setb_unit11, ← l_fwd_eq_L, ← lfwdB_pack kuznyechik_compact_encrypt_block_tbl0 kuznyechik_compact_encrypt_block_tbl1 kuznyechik_compact_encrypt_block_tbl2 kuznyechik_compact_encrypt_block_tbl3 kuznyechik_compact_encrypt_block_tbl4 kuznyechik_compact_encrypt_block_tbl5 kuznyechik_compact_encrypt_block_tbl6 gfE]
  decide +kernel
theorem Renc11_comb (v : BitVec 8) : Renc11 v = comb 0x10d1d39191fef301b1785801496b2da9#128 0x206165e1e13f2502a1f0b00292d65a91#128 0x40c2ca01017e4a048123a304e76fb4e1#128 0x8047570202fc9408c14685080ddeab01#128 0xc38eae04043beb10418cc9101a7f9502#128 0x45df9f080876152082db512034fee904#128 0x8a7dfd1010ec2a40c775a240683f1108#128 0xd7fa3920201b54804dea8780d07e2210#128 v := by
  have h := congrArg Renc11 (bits8 v)
  rw [← h]
  simp only [Renc11_xor, Renc11_ite, Renc11_b0, Renc11_b1, Renc11_b2, Renc11_b3, Renc11_b4, Renc11_b5, Renc11_b6, Renc11_b7, comb]
theorem encC_11 : ∀ n : Fin 256, BC.Gen.tblAt kuznyechik_soft_encrypt_block_tbl11 n.val 128 = comb 0x10d1d39191fef301b1785801496b2da9#128 0x206165e1e13f2502a1f0b00292d65a91#128 0x40c2ca01017e4a048123a304e76fb4e1#128 0x8047570202fc9408c14685080ddeab01#128 0xc38eae04043beb10418cc9101a7f9502#128 0x45df9f080876152082db512034fee904#128 0x8a7dfd1010ec2a40c775a240683f1108#128 0xd7fa3920201b54804dea8780d07e2210#128 (BC.Gen.tblAt BC.Gen.kuznyechik_P n.val 8) := by decide +kernel
theorem encT_11 (x : BitVec 8) : BC.Gen.tblAt kuznyechik_soft_encrypt_block_tbl11 (x.setWidth 64).toNat 128 = row ENC_TABLE.get ⟨11, by decide⟩ x := by
  rw [ENC_TABLE_row]
  show _ = Renc11 _
  rw [Renc11_comb]
  refine fin_at _ (fun y => comb 0x10d1d39191fef301b1785801496b2da9#128 0x206165e1e13f2502a1f0b00292d65a91#128 0x40c2ca01017e4a048123a304e76fb4e1#128 0x8047570202fc9408c14685080ddeab01#128 0xc38eae04043beb10418cc9101a7f9502#128 0x45df9f080876152082db512034fee904#128 0x8a7dfd1010ec2a40c775a240683f1108#128 0xd7fa3920201b54804dea8780d07e2210#128 (lut P y)) (fun n => ?_) x
  rw [encC_11 n, p_fin n]

/-! #### enc, byte position 12 -/
def Renc12 (v : BitVec 8) : BitVec 128 := rev128 (L (setb 0#128 12 v))
theorem Renc12_xor (a b : BitVec 8) : Renc12 (a ^^^ b) = Renc12 a ^^^ Renc12 b := by
  simp only [Renc12, setb_xor12, L_xor, rev128_xor]
theorem Renc12_zero : Renc12 0#8 = 0#128 := by
  have h := Renc12_xor 0#8 0#8
  simp only [BitVec.xor_self] at h
  exact h
theorem Renc12_ite (c : Bool) (a : BitVec 8) : Renc12 (if c then a else 0#8) = if c then Renc12 a else 0#128 := by
  cases c <;> simp [Renc12_zero]
theorem Renc12_b0 : Renc12 0x01#8 = 0x8544df527fc69860d4520e65079f86ea#128 := by
  rw [Renc12, setb_unit12, ← l_fwd_eq_L, ← lfwdB_pack kuznyechik_compact_encrypt_block_tbl0 kuznyechik_compact_encrypt_block_tbl1 kuznyechik_compact_encrypt_block_tbl2 kuznyechik_compact_encrypt_block_tbl3 kuznyechik_compact_encrypt_block_tbl4 kuznyechik_compact_encrypt_block_tbl5 kuznyechik_compact_encrypt_block_tbl6 gfE]
  decide +kernel
theorem Renc12_b1 : Renc12 0x02#8 = 0xc9887da4fe4ff3c06ba41cca0efdcf17#128 := by
  rw [Renc12, setb_unit12, ← l_fwd_eq_L, ← lfwdB_pack kuznyechik_compact_encrypt_block_tbl0 kuznyechik_compact_encrypt_block_tbl1 kuznyechik_compact_encrypt_block_tbl2 kuznyechik_compact_encrypt_block_tbl3 kuznyechik_compact_encrypt_block_tbl4 kuznyechik_compact_encrypt_block_tbl5 kuznyechik_compact_encrypt_block_tbl6 gfE]
  decide +kernel
theorem Renc12_b2 : Renc12 0x04#8 = 0x51d3fa8b3f9e2543d68b38571c395d2e#128 := by
  rw [Renc12, setb_unit12, ← l_fwd_eq_L, ← lfwdB_pack kuznyechik_compact_encrypt_block_tbl0 kuznyechik_compact_encrypt_block_tbl1 kuznyechik_compact_encrypt_block_tbl2 kuznyechik_compact_encrypt_block_tbl3 kuznyechik_compact_encrypt_block_tbl4 kuznyechik_compact_encrypt_block_tbl5 kuznyechik_compact_encrypt_block_tbl6 gfE]
  decide +kernel
theorem Renc12_b3 : Renc12 0x08#8 = 0xa26537d57eff4a866fd570ae3872ba5c#128 := by
  rw [Renc12, setb_unit12, ← l_fwd_eq_L, ← lfwdB_pack kuznyechik_compact_encrypt_block_tbl0 kuznyechik_compact_encrypt_block_tbl1 kuznyechik_compact_encrypt_block_tbl2 kuznyechik_compact_encrypt_block_tbl3 kuznyechik_compact_encrypt_block_tbl4 kuznyechik_compact_encrypt_block_tbl5 kuznyechik_compact_encrypt_block_tbl6 gfE]
  decide +kernel
theorem Renc12_b4 : Renc12 0x10#8 = 0x87ca6e69fc3d94cfde69e09f70e4b7b8#128 := by
  rw [Renc12, setb_unit12, ← l_fwd_eq_L, ← lfwdB_pack kuznyechik_compact_encrypt_block_tbl0 kuznyechik_compact_encrypt_block_tbl1 kuznyechik_compact_encrypt_block_tbl2 kuznyechik_compact_encrypt_block_tbl3 kuznyechik_compact_encrypt_block_tbl4 kuznyechik_compact_encrypt_block_tbl5 kuznyechik_compact_encrypt_block_tbl6 gfE]
  decide +kernel
theorem Renc12_b5 : Renc12 0x20#8 = 0xcd57dcd23b7aeb5d7fd203fde00badb3#128 := by
  rw [Renc12, setb_unit12, ← l_fwd_eq_L, ← lfwdB_pack kuznyechik_compact_encrypt_block_tbl0 kuznyechik_compact_encrypt_block_tbl1 kuznyechik_compact_encrypt_block_tbl2 kuznyechik_compact_encrypt_block_tbl3 kuznyechik_compact_encrypt_block_tbl4 kuznyechik_compact_encrypt_block_tbl5 kuznyechik_compact_encrypt_block_tbl6 gfE]
  decide +kernel
theorem Renc12_b6 : Renc12 0x40#8 = 0x59ae7b6776f415bafe670639031699a5#128 := by
  rw [Renc12, setb_unit12, ← l_fwd_eq_L, ← lfwdB_pack kuznyechik_compact_encrypt_block_tbl0 kuznyechik_compact_encrypt_block_tbl1 kuznyechik_compact_encrypt_block_tbl2 kuznyechik_compact_encrypt_block_tbl3 kuznyechik_compact_encrypt_block_tbl4 kuznyechik_compact_encrypt_block_tbl5 kuznyechik_compact_encrypt_block_tbl6 gfE]
  decide +kernel
theorem Renc12_b7 : Renc12 0x80#8 = 0xb29ff6ceec2b2ab73fce0c72062cf189#128 := by
  rw [Renc12, setb_unit12, ← l_fwd_eq_L, ← lfwdB_pack kuznyechik_compact_encrypt_block_tbl0 kuznyechik_compact_encrypt_block_tbl1 kuznyechik_compact_encrypt_block_tbl2 kuznyechik_compact_encrypt_block_tbl3 kuznyechik_compact_encrypt_block_tbl4 kuznyechik_compact_encrypt_block_tbl5 kuznyechik_compact_encrypt_block_tbl6 gfE]
  decide +kernel
theorem Renc12_comb (v : BitVec 8) : Renc12 v = comb 0x8544df527fc69860d4520e65079f86ea#128 0xc9887da4fe4ff3c06ba41cca0efdcf17#128 0x51d3fa8b3f9e2543d68b38571c395d2e#128 0xa26537d57eff4a866fd570ae3872ba5c#128 0x87ca6e69fc3d94cfde69e09f70e4b7b8#128 0xcd57dcd23b7aeb5d7fd203fde00badb3#128 0x59ae7b6776f415bafe670639031699a5#128 0xb29ff6ceec2b2ab73fce0c72062cf189#128 v := by
  have h := congrArg Renc12 (bits8 v)
  rw [← h]
  simp only [Renc12_xor, Renc12_ite, Renc12_b0, Renc12_b1, Renc12_b2, Renc12_b3, Renc12_b4, Renc12_b5, Renc12_b6, Renc12_b7, comb]
theorem encC_12 : ∀ n : Fin 256, BC.Gen.tblAt kuznyechik_soft_encrypt_block_tbl12 n.val 128 = comb 0x8544df527fc69860d4520e65079f86ea#128 0xc9887da4fe4ff3c06ba41cca0efdcf17#128 0x51d3fa8b3f9e2543d68b38571c395d2e#128 0xa26537d57eff4a866fd570ae3872ba5c#128 0x87ca6e69fc3d94cfde69e09f70e4b7b8#128 0xcd57dcd23b7aeb5d7fd203fde00badb3#128 0x59ae7b6776f415bafe670639031699a5#128 0xb29ff6ceec2b2ab73fce0c72062cf189#128 (BC.Gen.tblAt BC.Gen.kuznyechik_P n.val 8) := by decide +kernel
theorem encT_12 (x : BitVec 8) : BC.Gen.tblAt kuznyechik_soft_encrypt_block_tbl12 (x.setWidth 64).toNat 128 = row ENC_TABLE.get ⟨12, by decide⟩ x := by
  rw [ENC_TABLE_row]
  show _ = Renc12 _
  rw [Renc12_comb]
  refine fin_at _ (fun y => comb 0x8544df527fc69860d4520e65079f86ea#128 0xc9887da4fe4ff3c06ba41cca0efdcf17#128 0x51d3fa8b3f9e2543d68b38571c395d2e#128 0xa26537d57eff4a866fd570ae3872ba5c#128 0x87ca6e69fc3d94cfde69e09f70e4b7b8#128 0xcd57dcd23b7aeb5d7fd203fde00badb3#128 0x59ae7b6776f415bafe670639031699a5#128 0xb29ff6ceec2b2ab73fce0c72062cf189#128 (lut P y)) (fun n => ?_) x
  rw [encC_12 n, p_fin n]

/-! #### enc, byte position 13 -/
def Renc13 (v : BitVec 8) : BitVec 128 := rev128 (L (setb 0#128 13 v))
theorem Renc13_xor (a b : BitVec 8) : Renc13 (a ^^^ b) = Renc13 a ^^^ Renc13 b := by
  simp only [Renc13, setb_xor13, L_xor, rev128_xor]
theorem Renc13_zero : Renc13 0#8 = 0#128 := by
  have h := Renc13_xor 0#8 0#8
  simp only [BitVec.xor_self] at h
  exact h
theorem Renc13_ite (c : Bool) (a : BitVec 8) : Renc13 (if c then a else 0#8) = if c then Renc13 a else 0#128 := by
  cases c <;> simp [Renc13_zero]
theorem Renc13_b0 : Renc13 0x01#8 = 0x203c48f84848c88e2af502dd1430448e#128 := by
  rw [Renc13, setb_unit13, ← l_fwd_eq_L, ← lfwdB_pack kuznyechik_compact_encrypt_block_tbl0 kuznyechik_compact_encrypt_block_tbl1 kuznyechik_compact_encrypt_block_tbl2 kuznyechik_compact_encrypt_block_tbl3 kuznyechik_compact_encrypt_block_tbl4 kuznyechik_compact_encrypt_block_tbl5 kuznyechik_compact_encrypt_block_tbl6 gfE]
  decide +kernel
theorem Renc13_b1 : Renc13 0x02#8 = 0x40789033909053df54290479286088df#128 := by
  rw [Renc13, setb_unit13, ← l_fwd_eq_L, ← lfwdB_pack kuznyechik_compact_encrypt_block_tbl0 kuznyechik_compact_encrypt_block_tbl1 kuznyechik_compact_encrypt_block_tbl2 kuznyechik_compact_encrypt_block_tbl3 kuznyechik_compact_encrypt_block_tbl4 kuznyechik_compact_encrypt_block_tbl5 kuznyechik_compact_encrypt_block_tbl6 gfE]
  decide +kernel
theorem Renc13_b2 : Renc13 0x04#8 = 0x80f0e366e3e3a67da85208f250c0d37d#128 := by
  rw [Renc13, setb_unit13, ← l_fwd_eq_L, ← lfwdB_pack kuznyechik_compact_encrypt_block_tbl0 kuznyechik_compact_encrypt_block_tbl1 kuznyechik_compact_encrypt_block_tbl2 kuznyechik_compact_encrypt_block_tbl3 kuznyechik_compact_encrypt_block_tbl4 kuznyechik_compact_encrypt_block_tbl5 kuznyechik_compact_encrypt_block_tbl6 gfE]
  decide +kernel
theorem Renc13_b3 : Renc13 0x08#8 = 0xc32305cc05058ffa93a41027a04365fa#128 := by
  rw [Renc13, setb_unit13, ← l_fwd_eq_L, ← lfwdB_pack kuznyechik_compact_encrypt_block_tbl0 kuznyechik_compact_encrypt_block_tbl1 kuznyechik_compact_encrypt_block_tbl2 kuznyechik_compact_encrypt_block_tbl3 kuznyechik_compact_encrypt_block_tbl4 kuznyechik_compact_encrypt_block_tbl5 kuznyechik_compact_encrypt_block_tbl6 gfE]
  decide +kernel
theorem Renc13_b4 : Renc13 0x10#8 = 0x45460a5b0a0add37e58b204e8386ca37#128 := by
  rw [Renc13, setb_unit13, ← l_fwd_eq_L, ← lfwdB_pack kuznyechik_compact_encrypt_block_tbl0 kuznyechik_compact_encrypt_block_tbl1 kuznyechik_compact_encrypt_block_tbl2 kuznyechik_compact_encrypt_block_tbl3 kuznyechik_compact_encrypt_block_tbl4 kuznyechik_compact_encrypt_block_tbl5 kuznyechik_compact_encrypt_block_tbl6 gfE]
  decide +kernel
theorem Renc13_b5 : Renc13 0x20#8 = 0x8a8c14b61414796e09d5409cc5cf576e#128 := by
  rw [Renc13, setb_unit13, ← l_fwd_eq_L, ← lfwdB_pack kuznyechik_compact_encrypt_block_tbl0 kuznyechik_compact_encrypt_block_tbl1 kuznyechik_compact_encrypt_block_tbl2 kuznyechik_compact_encrypt_block_tbl3 kuznyechik_compact_encrypt_block_tbl4 kuznyechik_compact_encrypt_block_tbl5 kuznyechik_compact_encrypt_block_tbl6 gfE]
  decide +kernel
theorem Renc13_b6 : Renc13 0x40#8 = 0xd7db28af2828f2dc126980fb495daedc#128 := by
  rw [Renc13, setb_unit13, ← l_fwd_eq_L, ← lfwdB_pack kuznyechik_compact_encrypt_block_tbl0 kuznyechik_compact_encrypt_block_tbl1 kuznyechik_compact_encrypt_block_tbl2 kuznyechik_compact_encrypt_block_tbl3 kuznyechik_compact_encrypt_block_tbl4 kuznyechik_compact_encrypt_block_tbl5 kuznyechik_compact_encrypt_block_tbl6 gfE]
  decide +kernel
theorem Renc13_b7 : Renc13 0x80#8 = 0x6d75509d5050277b24d2c33592ba9f7b#128 := by
  rw [Renc13, setb_unit13, ← l_fwd_eq_L, ← lfwdB_pack kuznyechik_compact_encrypt_block_tbl0 kuznyechik_compact_encrypt_block_tbl1 kuznyechik_compact_encrypt_block_tbl2 kuznyechik_compact_encrypt_block_tbl3 kuznyechik_compact_encrypt_block_tbl4 kuznyechik_compact_encrypt_block_tbl5 kuznyechik_compact_encrypt_block_tbl6 gfE]
  decide +kernel
theorem Renc13_comb (v : BitVec 8) : Renc13 v = comb 0x203c48f84848c88e2af502dd1430448e#128 0x40789033909053df54290479286088df#128 0x80f0e366e3e3a67da85208f250c0d37d#128 0xc32305cc05058ffa93a41027a04365fa#128 0x45460a5b0a0add37e58b204e8386ca37#128 0x8a8c14b61414796e09d5409cc5cf576e#128 0xd7db28af2828f2dc126980fb495daedc#128 0x6d75509d5050277b24d2c33592ba9f7b#128 v := by
  have h := congrArg Renc13 (bits8 v)
  rw [← h]
  simp only [Renc13_xor, Renc13_ite, Renc13_b0, Renc13_b1, Renc13_b2, Renc13_b3, Renc13_b4, Renc13_b5, Renc13_b6, Renc13_b7, comb]
theorem encC_13 : ∀ n : Fin 256, BC.Gen.tblAt kuznyechik_soft_encrypt_block_tbl13 n.val 128 = comb 0x203c48f84848c88e2af502dd1430448e#128 0x40789033909053df54290479286088df#128 0x80f0e366e3e3a67da85208f250c0d37d#128 0xc32305cc05058ffa93a41027a04365fa#128 0x45460a5b0a0add37e58b204e8386ca37#128 0x8a8c14b61414796e09d5409cc5cf576e#128 0xd7db28af2828f2dc126980fb495daedc#128 0x6d75509d5050277b24d2c33592ba9f7b#128 (BC.Gen.tblAt BC.Gen.kuznyechik_P n.val 8) := by decide +kernel
theorem encT_13 (x : BitVec 8) : BC.Gen.tblAt kuznyechik_soft_encrypt_block_tbl13 (x.setWidth 64).toNat 128 = row ENC_TABLE.get ⟨13, by decide⟩ x := by
  rw [ENC_TABLE_row]
  show _ = Renc13 _
  rw [Renc13_comb]
  refine fin_at _ (fun y => comb 0x203c48f84848c88e2af502dd1430448e#128 0x40789033909053df54290479286088df#128 0x80f0e366e3e3a67da85208f250c0d37d#128 0xc32305cc05058ffa93a41027a04365fa#128 0x45460a5b0a0add37e58b204e8386ca37#128 0x8a8c14b61414796e09d5409cc5cf576e#128 0xd7db28af2828f2dc126980fb495daedc#128 0x6d75509d5050277b24d2c33592ba9f7b#128 (lut P y)) (fun n => ?_) x
  rw [encC_13 n, p_fin n]

/-! #### enc, byte position 14 -/
def Renc14 (v : BitVec 8) : BitVec 128 := rev128 (L (setb 0#128 14 v))
theorem Renc14_xor (a b : BitVec 8) : Renc14 (a ^^^ b) = Renc14 a ^^^ Renc14 b := by
  simp only [Renc14, setb_xor14, L_xor, rev128_xor]
theorem Renc14_zero : Renc14 0#8 = 0#128 := by
  have h := Renc14_xor 0#8 0#8
  simp only [BitVec.xor_self] at h
  exact h
theorem Renc14_ite (c : Bool) (a : BitVec 8) : Renc14 (if c then a else 0#8) = if c then Renc14 a else 0#128 := by
  cases c <;> simp [Renc14_zero]
theorem Renc14_b0 : Renc14 0x01#8 = 0x94a5640d89a27f4b6e16c34ce8e3d04d#128 := by
  rw [Renc14, setb_unit14, ← l_fwd_eq_L, ← lfwdB_pack kuznyechik_compact_encrypt_block_tbl0 kuznyechik_compact_encrypt_block_tbl1 kuznyechik_compact_encrypt_block_tbl2 kuznyechik_compact_encrypt_block_tbl3 kuznyechik_compact_encrypt_block_tbl4 kuznyechik_compact_encrypt_block_tbl5 kuznyechik_compact_encrypt_block_tbl6 gfE]
  decide +kernel
theorem Renc14_b1 : Renc14 0x02#8 = 0xeb89c81ad187fe96dc2c45981305639a#128 := by
  rw [Renc14, setb_unit14, ← l_fwd_eq_L, ← lfwdB_pack kuznyechik_compact_encrypt_block_tbl0 kuznyechik_compact_encrypt_block_tbl1 kuznyechik_compact_encrypt_block_tbl2 kuznyechik_compact_encrypt_block_tbl3 kuznyechik_compact_encrypt_block_tbl4 kuznyechik_compact_encrypt_block_tbl5 kuznyechik_compact_encrypt_block_tbl6 gfE]
  decide +kernel
theorem Renc14_b2 : Renc14 0x04#8 = 0x15d1533461cd3fef7b588af3260ac6f7#128 := by
  rw [Renc14, setb_unit14, ← l_fwd_eq_L, ← lfwdB_pack kuznyechik_compact_encrypt_block_tbl0 kuznyechik_compact_encrypt_block_tbl1 kuznyechik_compact_encrypt_block_tbl2 kuznyechik_compact_encrypt_block_tbl3 kuznyechik_compact_encrypt_block_tbl4 kuznyechik_compact_encrypt_block_tbl5 kuznyechik_compact_encrypt_block_tbl6 gfE]
  decide +kernel
theorem Renc14_b3 : Renc14 0x08#8 = 0x2a61a668c2597e1df6b0d7254c144f2d#128 := by
  rw [Renc14, setb_unit14, ← l_fwd_eq_L, ← lfwdB_pack kuznyechik_compact_encrypt_block_tbl0 kuznyechik_compact_encrypt_block_tbl1 kuznyechik_compact_encrypt_block_tbl2 kuznyechik_compact_encrypt_block_tbl3 kuznyechik_compact_encrypt_block_tbl4 kuznyechik_compact_encrypt_block_tbl5 kuznyechik_compact_encrypt_block_tbl6 gfE]
  decide +kernel
theorem Renc14_b4 : Renc14 0x10#8 = 0x54c28fd047b2fc3a2fa36d4a98289e5a#128 := by
  rw [Renc14, setb_unit14, ← l_fwd_eq_L, ← lfwdB_pack kuznyechik_compact_encrypt_block_tbl0 kuznyechik_compact_encrypt_block_tbl1 kuznyechik_compact_encrypt_block_tbl2 kuznyechik_compact_encrypt_block_tbl3 kuznyechik_compact_encrypt_block_tbl4 kuznyechik_compact_encrypt_block_tbl5 kuznyechik_compact_encrypt_block_tbl6 gfE]
  decide +kernel
theorem Renc14_b5 : Renc14 0x20#8 = 0xa847dd638ea73b745e85da94f350ffb4#128 := by
  rw [Renc14, setb_unit14, ← l_fwd_eq_L, ← lfwdB_pack kuznyechik_compact_encrypt_block_tbl0 kuznyechik_compact_encrypt_block_tbl1 kuznyechik_compact_encrypt_block_tbl2 kuznyechik_compact_encrypt_block_tbl3 kuznyechik_compact_encrypt_block_tbl4 kuznyechik_compact_encrypt_block_tbl5 kuznyechik_compact_encrypt_block_tbl6 gfE]
  decide +kernel
theorem Renc14_b6 : Renc14 0x40#8 = 0x938e79c6df8d76e8bcc977eb25a03dab#128 := by
  rw [Renc14, setb_unit14, ← l_fwd_eq_L, ← lfwdB_pack kuznyechik_compact_encrypt_block_tbl0 kuznyechik_compact_encrypt_block_tbl1 kuznyechik_compact_encrypt_block_tbl2 kuznyechik_compact_encrypt_block_tbl3 kuznyechik_compact_encrypt_block_tbl4 kuznyechik_compact_encrypt_block_tbl5 kuznyechik_compact_encrypt_block_tbl6 gfE]
  decide +kernel
theorem Renc14_b7 : Renc14 0x80#8 = 0xe5dff24f7dd9ec13bb51ee154a837a95#128 := by
  rw [Renc14, setb_unit14, ← l_fwd_eq_L, ← lfwdB_pack kuznyechik_compact_encrypt_block_tbl0 kuznyechik_compact_encrypt_block_tbl1 kuznyechik_compact_encrypt_block_tbl2 kuznyechik_compact_encrypt_block_tbl3 kuznyechik_compact_encrypt_block_tbl4 kuznyechik_compact_encrypt_block_tbl5 kuznyechik_compact_encrypt_block_tbl6 gfE]
  decide +kernel
theorem Renc14_comb (v : BitVec 8) : Renc14 v = comb 0x94a5640d89a27f4b6e16c34ce8e3d04d#128 0xeb89c81ad187fe96dc2c45981305639a#128 0x15d1533461cd3fef7b588af3260ac6f7#128 0x2a61a668c2597e1df6b0d7254c144f2d#128 0x54c28fd047b2fc3a2fa36d4a98289e5a#128 0xa847dd638ea73b745e85da94f350ffb4#128 0x938e79c6df8d76e8bcc977eb25a03dab#128 0xe5dff24f7dd9ec13bb51ee154a837a95#128 v := by
  have h := congrArg Renc14 (bits8 v)
  rw [← h]
  simp only [Renc14_xor, Renc14_ite, Renc14_b0, Renc14_b1, Renc14_b2, Renc14_b3, Renc14_b4, Renc14_b5, Renc14_b6, Renc14_b7, comb]
theorem encC_14 : ∀ n : Fin 256, BC.Gen.tblAt kuznyechik_soft_encrypt_block_tbl14 n.val 128 = comb 0x94a5640d89a27f4b6e16c34ce8e3d04d#128 0xeb89c81ad187fe96dc2c45981305639a#128 0x15d1533461cd3fef7b588af3260ac6f7#128 0x2a61a668c2597e1df6b0d7254c144f2d#128 0x54c28fd047b2fc3a2fa36d4a98289e5a#128 0xa847dd638ea73b745e85da94f350ffb4#128 0x938e79c6df8d76e8bcc977eb25a03dab#128 0xe5dff24f7dd9ec13bb51ee154a837a95#128 (BC.Gen.tblAt BC.Gen.kuznyechik_P n.val 8) := by decide +kernel
theorem encT_14 (x : BitVec 8) : BC.Gen.tblAt kuznyechik_soft_encrypt_block_tbl14 (x.setWidth 64).toNat 128 = row ENC_TABLE.get ⟨14, by decide⟩ x := by
  rw [ENC_TABLE_row]
  show _ = Renc14 _
  rw [Renc14_comb]
  refine fin_at _ (fun y => comb 0x94a5640d89a27f4b6e16c34ce8e3d04d#128 0xeb89c81ad187fe96dc2c45981305639a#128 0x15d1533461cd3fef7b588af3260ac6f7#128 0x2a61a668c2597e1df6b0d7254c144f2d#128 0x54c28fd047b2fc3a2fa36d4a98289e5a#128 0xa847dd638ea73b745e85da94f350ffb4#128 0x938e79c6df8d76e8bcc977eb25a03dab#128 0xe5dff24f7dd9ec13bb51ee154a837a95#128 (lut P y)) (fun n => ?_) x
  rw [encC_14 n, p_fin n]

/-! #### enc, byte position 15 -/
def Renc15 (v : BitVec 8) : BitVec 128 := rev128 (L (setb 0#128 15 v))
theorem Renc15_xor (a b : BitVec 8) : Renc15 (a ^^^ b) = Renc15 a ^^^ Renc15 b := by
  simp only [Renc15, setb_xor15, L_xor, rev128_xor]
theorem Renc15_zero : Renc15 0#8 = 0#128 := by
  have h := Renc15_xor 0#8 0#8
  simp only [BitVec.xor_self] at h
  exact h
theorem Renc15_ite (c : Bool) (a : BitVec 8) : Renc15 (if c then a else 0#8) = if c then Renc15 a else 0#128 := by
  cases c <;> simp [Renc15_zero]
theorem Renc15_b0 : Renc15 0x01#8 = 0x19484dd10bd275db87a486c7276a26e#128 := by
  rw [Renc15, setb_unit15, ← l_fwd_eq_L, ← lfwdB_pack kuznyechik_compact_encrypt_block_tbl0 kuznyechik_compact_encrypt_block_tbl1 kuznyechik_compact_encrypt_block_tbl2 kuznyechik_compact_encrypt_block_tbl3 kuznyechik_compact_encrypt_block_tbl4 kuznyechik_compact_encrypt_block_tbl5 kuznyechik_compact_encrypt_block_tbl6 gfE]
  decide +kernel
theorem Renc15_b1 : Renc15 0x02#8 = 0x2ebcb7920b94ebab3f490d8e4ec87dc#128 := by
  rw [Renc15, setb_unit15, ← l_fwd_eq_L, ← lfwdB_pack kuznyechik_compact_encrypt_block_tbl0 kuznyechik_compact_encrypt_block_tbl1 kuznyechik_compact_encrypt_block_tbl2 kuznyechik_compact_encrypt_block_tbl3 kuznyechik_compact_encrypt_block_tbl4 kuznyechik_compact_encrypt_block_tbl5 kuznyechik_compact_encrypt_block_tbl6 gfE]
  decide +kernel
theorem Renc15_b2 : Renc15 0x04#8 = 0x41555f240b19cb7a52be3730b1bcd7b#128 := by
  rw [Renc15, setb_unit15, ← l_fwd_eq_L, ← lfwdB_pack kuznyechik_compact_encrypt_block_tbl0 kuznyechik_compact_encrypt_block_tbl1 kuznyechik_compact_encrypt_block_tbl2 kuznyechik_compact_encrypt_block_tbl3 kuznyechik_compact_encrypt_block_tbl4 kuznyechik_compact_encrypt_block_tbl5 kuznyechik_compact_encrypt_block_tbl6 gfE]
  decide +kernel
theorem Renc15_b3 : Renc15 0x08#8 = 0x82aaa2780a1fbad895605e6163659f6#128 := by
  rw [Renc15, setb_unit15, ← l_fwd_eq_L, ← lfwdB_pack kuznyechik_compact_encrypt_block_tbl0 kuznyechik_compact_encrypt_block_tbl1 kuznyechik_compact_encrypt_block_tbl2 kuznyechik_compact_encrypt_block_tbl3 kuznyechik_compact_encrypt_block_tbl4 kuznyechik_compact_encrypt_block_tbl5 kuznyechik_compact_encrypt_block_tbl6 gfE]
  decide +kernel
theorem Renc15_b4 : Renc15 0x10#8 = 0x1054974ec3813599d1ac0a0f2c6cb22f#128 := by
  rw [Renc15, setb_unit15, ← l_fwd_eq_L, ← lfwdB_pack kuznyechik_compact_encrypt_block_tbl0 kuznyechik_compact_encrypt_block_tbl1 kuznyechik_compact_encrypt_block_tbl2 kuznyechik_compact_encrypt_block_tbl3 kuznyechik_compact_encrypt_block_tbl4 kuznyechik_compact_encrypt_block_tbl5 kuznyechik_compact_encrypt_block_tbl6 gfE]
  decide +kernel
theorem Renc15_b5 : Renc15 0x20#8 = 0x20a8ed9c45c16af1619b141e58d8a75e#128 := by
  rw [Renc15, setb_unit15, ← l_fwd_eq_L, ← lfwdB_pack kuznyechik_compact_encrypt_block_tbl0 kuznyechik_compact_encrypt_block_tbl1 kuznyechik_compact_encrypt_block_tbl2 kuznyechik_compact_encrypt_block_tbl3 kuznyechik_compact_encrypt_block_tbl4 kuznyechik_compact_encrypt_block_tbl5 kuznyechik_compact_encrypt_block_tbl6 gfE]
  decide +kernel
theorem Renc15_b6 : Renc15 0x40#8 = 0x409319fb8a41d421c2f5283cb0738dbc#128 := by
  rw [Renc15, setb_unit15, ← l_fwd_eq_L, ← lfwdB_pack kuznyechik_compact_encrypt_block_tbl0 kuznyechik_compact_encrypt_block_tbl1 kuznyechik_compact_encrypt_block_tbl2 kuznyechik_compact_encrypt_block_tbl3 kuznyechik_compact_encrypt_block_tbl4 kuznyechik_compact_encrypt_block_tbl5 kuznyechik_compact_encrypt_block_tbl6 gfE]
  decide +kernel
theorem Renc15_b7 : Renc15 0x80#8 = 0x80e53235d7826b4247295078a3e6d9bb#128 := by
  rw [Renc15, setb_unit15, ← l_fwd_eq_L, ← lfwdB_pack kuznyechik_compact_encrypt_block_tbl0 kuznyechik_compact_encrypt_block_tbl1 kuznyechik_compact_encrypt_block_tbl2 kuznyechik_compact_encrypt_block_tbl3 kuznyechik_compact_encrypt_block_tbl4 kuznyechik_compact_encrypt_block_tbl5 kuznyechik_compact_encrypt_block_tbl6 gfE]
  decide +kernel
theorem Renc15_comb (v : BitVec 8) : Renc15 v = comb 0x19484dd10bd275db87a486c7276a26e#128 0x2ebcb7920b94ebab3f490d8e4ec87dc#128 0x41555f240b19cb7a52be3730b1bcd7b#128 0x82aaa2780a1fbad895605e6163659f6#128 0x1054974ec3813599d1ac0a0f2c6cb22f#128 0x20a8ed9c45c16af1619b141e58d8a75e#128 0x409319fb8a41d421c2f5283cb0738dbc#128 0x80e53235d7826b4247295078a3e6d9bb#128 v := by
  have h := congrArg Renc15 (bits8 v)
  rw [← h]
  simp only [Renc15_xor, Renc15_ite, Renc15_b0, Renc15_b1, Renc15_b2, Renc15_b3, Renc15_b4, Renc15_b5, Renc15_b6, Renc15_b7, comb]
theorem encC_15 : ∀ n : Fin 256, BC.Gen.tblAt kuznyechik_soft_encrypt_block_tbl15 n.val 128 = comb 0x19484dd10bd275db87a486c7276a26e#128 0x2ebcb7920b94ebab3f490d8e4ec87dc#128 0x41555f240b19cb7a52be3730b1bcd7b#128 0x82aaa2780a1fbad895605e6163659f6#128 0x1054974ec3813599d1ac0a0f2c6cb22f#128 0x20a8ed9c45c16af1619b141e58d8a75e#128 0x409319fb8a41d421c2f5283cb0738dbc#128 0x80e53235d7826b4247295078a3e6d9bb#128 (BC.Gen.tblAt BC.Gen.kuznyechik_P n.val 8) := by decide +kernel
theorem encT_15 (x : BitVec 8) : BC.Gen.tblAt kuznyechik_soft_encrypt_block_tbl15 (x.setWidth 64).toNat 128 = row ENC_TABLE.get ⟨15, by decide⟩ x := by
  rw [ENC_TABLE_row]
  show _ = Renc15 _
  rw [Renc15_comb]
  refine fin_at _ (fun y => comb 0x19484dd10bd275db87a486c7276a26e#128 0x2ebcb7920b94ebab3f490d8e4ec87dc#128 0x41555f240b19cb7a52be3730b1bcd7b#128 0x82aaa2780a1fbad895605e6163659f6#128 0x1054974ec3813599d1ac0a0f2c6cb22f#128 0x20a8ed9c45c16af1619b141e58d8a75e#128 0x409319fb8a41d421c2f5283cb0738dbc#128 0x80e53235d7826b4247295078a3e6d9bb#128 (lut P y)) (fun n => ?_) x
  rw [encC_15 n, p_fin n]

end BC.GenCipher.Kuznyechik
