import Lean
import BlockCiphers.Gen.Cipher_Twofish
import BlockCiphers.Proofs.GenFnTwofish
import BlockCiphers.Impl.Twofish
import Std.Tactic.BVDecide
/-
Tie theorems for Twofish's block functions: the regenerated `Twofish::encrypt_block` / `decrypt_block`
(`Gen/Cipher_Twofish.lean`; one pair per value of the field `start` = 0, 1, 2, i.e. 32-, 24-, 16-byte keys; `g_func` is
inlined, its calls of `sbox` and `mds_column_mult` are calls of the regenerated leaf definitions of `Gen/Fn_Twofish.lean`) ARE
the model's `encryptWith` / `decryptWith` with `gFunc self.s start` on the same `s` and sub-keys `k`, for ALL values of the
fields and ALL blocks.

* `gG<start>`: the inlined `g_func` of the generated text as a function of `x`; `gG<start>_eq`: it is the model's
  `gFunc #[s0..s15] start` (leaf ties `sbox_?_eq`, `mds_column_mult_?_eq` of `Proofs/GenFnTwofish.lean`);
* `encE` / `decE`: the model's `encryptWith` / `decryptWith` with the 8 rounds unrolled on explicit sub-keys
  (`encryptWith_eq`, `decryptWith_eq`; `encRoundE` / `decRoundE` = `encRound` / `decRound` with the four keys of the round);
* per function: `unfold; extract_lets` (the ~1000-1500 `let`s stay local definitions, nothing is zeta-reduced), each model
  round on the generated state variables is recognised BY `rfl` as the next generated state variables (`R0..R7`: one
  `encRoundE` = 2 half-rounds = 4 inlined `g_func`s), and the model's round chain is rewritten one round at a time.
  The rounds are ARX: no bit-blasting, only syntactic equality up to unfolding.
This file is produced by `gen_twofish_cipher.py` (it refers to the `let` names of `Gen/Cipher_Twofish.lean`: `p, p_1..p_3`,
`p0_j..p3_j`, `c0_j..c3_j`): after a re-translation re-run the script, then check the file with `lean`.
-/
set_option maxRecDepth 100000
set_option linter.unusedSimpArgs false
set_option linter.unusedVariables false
namespace BC.GenCipher.Twofish
open BC BC.Gen.Fn BC.Twofish


open Lean Elab Tactic Meta in
/-- make the (hygienic) names of the local `let` variables introduced by `extract_lets` accessible -/
elab "name_lets" : tactic => do
  liftMetaTactic fun g => g.withContext do
    let mut lctx ← getLCtx
    for d in lctx do
      if d.isLet then lctx := lctx.setUserName d.fvarId d.userName.eraseMacroScopes
    let g' ← mkFreshExprMVarAt lctx (← getLocalInstances) (← g.getType) .syntheticOpaque (← g.getTag)
    g.assign g'
    return [g'.mvarId!]

theorem qord_0_0 : qord 0 0 = 1 := by decide
theorem qord_0_1 : qord 0 1 = 1 := by decide
theorem qord_0_2 : qord 0 2 = 0 := by decide
theorem qord_0_3 : qord 0 3 = 0 := by decide
theorem qord_0_4 : qord 0 4 = 1 := by decide
theorem qord_1_0 : qord 1 0 = 0 := by decide
theorem qord_1_1 : qord 1 1 = 1 := by decide
theorem qord_1_2 : qord 1 2 = 1 := by decide
theorem qord_1_3 : qord 1 3 = 0 := by decide
theorem qord_1_4 : qord 1 4 = 0 := by decide
theorem qord_2_0 : qord 2 0 = 0 := by decide
theorem qord_2_1 : qord 2 1 = 0 := by decide
theorem qord_2_2 : qord 2 2 = 0 := by decide
theorem qord_2_3 : qord 2 3 = 1 := by decide
theorem qord_2_4 : qord 2 4 = 1 := by decide
theorem qord_3_0 : qord 3 0 = 1 := by decide
theorem qord_3_1 : qord 3 1 = 0 := by decide
theorem qord_3_2 : qord 3 2 = 1 := by decide
theorem qord_3_3 : qord 3 3 = 1 := by decide
theorem qord_3_4 : qord 3 4 = 0 := by decide

theorem range4 : List.range 4 = [0, 1, 2, 3] := by decide
theorem range_3_2 : List.range' 3 2 = [3, 4] := by decide
theorem range_2_3 : List.range' 2 3 = [2, 3, 4] := by decide
theorem range_1_4 : List.range' 1 4 = [1, 2, 3, 4] := by decide

def gG0 (s0 s1 s2 s3 s4 s5 s6 s7 s8 s9 s10 s11 s12 s13 s14 s15 : BitVec 8) (x : BitVec 32) : BitVec 32 :=
  ((((0x0#32 ^^^ twofish_mds_column_mult_0 (twofish_sbox_1 (twofish_sbox_0 (twofish_sbox_0 (twofish_sbox_1 (twofish_sbox_1 ((x >>> 0).setWidth 8) ^^^ s0) ^^^ s4) ^^^ s8) ^^^ s12))) ^^^ twofish_mds_column_mult_1 (twofish_sbox_0 (twofish_sbox_0 (twofish_sbox_1 (twofish_sbox_1 (twofish_sbox_0 ((x >>> 8).setWidth 8) ^^^ s1) ^^^ s5) ^^^ s9) ^^^ s13))) ^^^ twofish_mds_column_mult_2 (twofish_sbox_1 (twofish_sbox_1 (twofish_sbox_0 (twofish_sbox_0 (twofish_sbox_0 ((x >>> 16).setWidth 8) ^^^ s2) ^^^ s6) ^^^ s10) ^^^ s14))) ^^^ twofish_mds_column_mult_3 (twofish_sbox_0 (twofish_sbox_1 (twofish_sbox_1 (twofish_sbox_0 (twofish_sbox_1 ((x >>> 24).setWidth 8) ^^^ s3) ^^^ s7) ^^^ s11) ^^^ s15)))

theorem gG0_eq (s0 s1 s2 s3 s4 s5 s6 s7 s8 s9 s10 s11 s12 s13 s14 s15 : BitVec 8) : gG0 s0 s1 s2 s3 s4 s5 s6 s7 s8 s9 s10 s11 s12 s13 s14 s15 = gFunc #[s0, s1, s2, s3, s4, s5, s6, s7, s8, s9, s10, s11, s12, s13, s14, s15] 0 := by
  funext x
  simp only [gG0, gFunc, gInner, range4, range_3_2, range_2_3, range_1_4, List.foldl,
    BC.GenFn.Twofish.sbox_0_eq, BC.GenFn.Twofish.sbox_1_eq, BC.GenFn.Twofish.mds_column_mult_0_eq, BC.GenFn.Twofish.mds_column_mult_1_eq,
    BC.GenFn.Twofish.mds_column_mult_2_eq, BC.GenFn.Twofish.mds_column_mult_3_eq,
    Nat.reduceMul, Nat.reduceAdd, Nat.reduceSub, qord_0_0, qord_0_1, qord_0_2, qord_0_3, qord_0_4, qord_1_0, qord_1_1, qord_1_2, qord_1_3, qord_1_4, qord_2_0, qord_2_1, qord_2_2, qord_2_3, qord_2_4, qord_3_0, qord_3_1, qord_3_2, qord_3_3, qord_3_4, BC.GenFn.Twofish.getD16_0, BC.GenFn.Twofish.getD16_1, BC.GenFn.Twofish.getD16_2, BC.GenFn.Twofish.getD16_3, BC.GenFn.Twofish.getD16_4, BC.GenFn.Twofish.getD16_5, BC.GenFn.Twofish.getD16_6, BC.GenFn.Twofish.getD16_7, BC.GenFn.Twofish.getD16_8, BC.GenFn.Twofish.getD16_9, BC.GenFn.Twofish.getD16_10, BC.GenFn.Twofish.getD16_11, BC.GenFn.Twofish.getD16_12, BC.GenFn.Twofish.getD16_13, BC.GenFn.Twofish.getD16_14, BC.GenFn.Twofish.getD16_15]

def gG1 (s0 s1 s2 s3 s4 s5 s6 s7 s8 s9 s10 s11 s12 s13 s14 s15 : BitVec 8) (x : BitVec 32) : BitVec 32 :=
  ((((0x0#32 ^^^ twofish_mds_column_mult_0 (twofish_sbox_1 (twofish_sbox_0 (twofish_sbox_0 (twofish_sbox_1 ((x >>> 0).setWidth 8) ^^^ s0) ^^^ s4) ^^^ s8))) ^^^ twofish_mds_column_mult_1 (twofish_sbox_0 (twofish_sbox_0 (twofish_sbox_1 (twofish_sbox_1 ((x >>> 8).setWidth 8) ^^^ s1) ^^^ s5) ^^^ s9))) ^^^ twofish_mds_column_mult_2 (twofish_sbox_1 (twofish_sbox_1 (twofish_sbox_0 (twofish_sbox_0 ((x >>> 16).setWidth 8) ^^^ s2) ^^^ s6) ^^^ s10))) ^^^ twofish_mds_column_mult_3 (twofish_sbox_0 (twofish_sbox_1 (twofish_sbox_1 (twofish_sbox_0 ((x >>> 24).setWidth 8) ^^^ s3) ^^^ s7) ^^^ s11)))

theorem gG1_eq (s0 s1 s2 s3 s4 s5 s6 s7 s8 s9 s10 s11 s12 s13 s14 s15 : BitVec 8) : gG1 s0 s1 s2 s3 s4 s5 s6 s7 s8 s9 s10 s11 s12 s13 s14 s15 = gFunc #[s0, s1, s2, s3, s4, s5, s6, s7, s8, s9, s10, s11, s12, s13, s14, s15] 1 := by
  funext x
  simp only [gG1, gFunc, gInner, range4, range_3_2, range_2_3, range_1_4, List.foldl,
    BC.GenFn.Twofish.sbox_0_eq, BC.GenFn.Twofish.sbox_1_eq, BC.GenFn.Twofish.mds_column_mult_0_eq, BC.GenFn.Twofish.mds_column_mult_1_eq,
    BC.GenFn.Twofish.mds_column_mult_2_eq, BC.GenFn.Twofish.mds_column_mult_3_eq,
    Nat.reduceMul, Nat.reduceAdd, Nat.reduceSub, qord_0_0, qord_0_1, qord_0_2, qord_0_3, qord_0_4, qord_1_0, qord_1_1, qord_1_2, qord_1_3, qord_1_4, qord_2_0, qord_2_1, qord_2_2, qord_2_3, qord_2_4, qord_3_0, qord_3_1, qord_3_2, qord_3_3, qord_3_4, BC.GenFn.Twofish.getD16_0, BC.GenFn.Twofish.getD16_1, BC.GenFn.Twofish.getD16_2, BC.GenFn.Twofish.getD16_3, BC.GenFn.Twofish.getD16_4, BC.GenFn.Twofish.getD16_5, BC.GenFn.Twofish.getD16_6, BC.GenFn.Twofish.getD16_7, BC.GenFn.Twofish.getD16_8, BC.GenFn.Twofish.getD16_9, BC.GenFn.Twofish.getD16_10, BC.GenFn.Twofish.getD16_11, BC.GenFn.Twofish.getD16_12, BC.GenFn.Twofish.getD16_13, BC.GenFn.Twofish.getD16_14, BC.GenFn.Twofish.getD16_15]

def gG2 (s0 s1 s2 s3 s4 s5 s6 s7 s8 s9 s10 s11 s12 s13 s14 s15 : BitVec 8) (x : BitVec 32) : BitVec 32 :=
  ((((0x0#32 ^^^ twofish_mds_column_mult_0 (twofish_sbox_1 (twofish_sbox_0 (twofish_sbox_0 ((x >>> 0).setWidth 8) ^^^ s0) ^^^ s4))) ^^^ twofish_mds_column_mult_1 (twofish_sbox_0 (twofish_sbox_0 (twofish_sbox_1 ((x >>> 8).setWidth 8) ^^^ s1) ^^^ s5))) ^^^ twofish_mds_column_mult_2 (twofish_sbox_1 (twofish_sbox_1 (twofish_sbox_0 ((x >>> 16).setWidth 8) ^^^ s2) ^^^ s6))) ^^^ twofish_mds_column_mult_3 (twofish_sbox_0 (twofish_sbox_1 (twofish_sbox_1 ((x >>> 24).setWidth 8) ^^^ s3) ^^^ s7)))

theorem gG2_eq (s0 s1 s2 s3 s4 s5 s6 s7 s8 s9 s10 s11 s12 s13 s14 s15 : BitVec 8) : gG2 s0 s1 s2 s3 s4 s5 s6 s7 s8 s9 s10 s11 s12 s13 s14 s15 = gFunc #[s0, s1, s2, s3, s4, s5, s6, s7, s8, s9, s10, s11, s12, s13, s14, s15] 2 := by
  funext x
  simp only [gG2, gFunc, gInner, range4, range_3_2, range_2_3, range_1_4, List.foldl,
    BC.GenFn.Twofish.sbox_0_eq, BC.GenFn.Twofish.sbox_1_eq, BC.GenFn.Twofish.mds_column_mult_0_eq, BC.GenFn.Twofish.mds_column_mult_1_eq,
    BC.GenFn.Twofish.mds_column_mult_2_eq, BC.GenFn.Twofish.mds_column_mult_3_eq,
    Nat.reduceMul, Nat.reduceAdd, Nat.reduceSub, qord_0_0, qord_0_1, qord_0_2, qord_0_3, qord_0_4, qord_1_0, qord_1_1, qord_1_2, qord_1_3, qord_1_4, qord_2_0, qord_2_1, qord_2_2, qord_2_3, qord_2_4, qord_3_0, qord_3_1, qord_3_2, qord_3_3, qord_3_4, BC.GenFn.Twofish.getD16_0, BC.GenFn.Twofish.getD16_1, BC.GenFn.Twofish.getD16_2, BC.GenFn.Twofish.getD16_3, BC.GenFn.Twofish.getD16_4, BC.GenFn.Twofish.getD16_5, BC.GenFn.Twofish.getD16_6, BC.GenFn.Twofish.getD16_7, BC.GenFn.Twofish.getD16_8, BC.GenFn.Twofish.getD16_9, BC.GenFn.Twofish.getD16_10, BC.GenFn.Twofish.getD16_11, BC.GenFn.Twofish.getD16_12, BC.GenFn.Twofish.getD16_13, BC.GenFn.Twofish.getD16_14, BC.GenFn.Twofish.getD16_15]


def encRoundE (g : BitVec 32 → BitVec 32) (ka kb kc kd : BitVec 32) (s : St) : St :=
  let t1 := g (s.p1.rotateLeft 8)
  let t0 := g s.p0 + t1
  let p2 := (s.p2 ^^^ (t0 + ka)).rotateRight 1
  let t2 := t1 + t0 + kb
  let p3 := s.p3.rotateLeft 1 ^^^ t2
  let t1 := g (p3.rotateLeft 8)
  let t0 := g p2 + t1
  let p0 := (s.p0 ^^^ (t0 + kc)).rotateRight 1
  let t2 := t1 + t0 + kd
  let p1 := s.p1.rotateLeft 1 ^^^ t2
  { p0 := p0, p1 := p1, p2 := p2, p3 := p3 }

def decRoundE (g : BitVec 32 → BitVec 32) (ka kb kc kd : BitVec 32) (c : St) : St :=
  let t1 := g (c.p3.rotateLeft 8)
  let t0 := g c.p2 + t1
  let c0 := c.p0.rotateLeft 1 ^^^ (t0 + kc)
  let t2 := t1 + t0 + kd
  let c1 := (c.p1 ^^^ t2).rotateRight 1
  let t1 := g (c1.rotateLeft 8)
  let t0 := g c0 + t1
  let c2 := c.p2.rotateLeft 1 ^^^ (t0 + ka)
  let t2 := t1 + t0 + kb
  let c3 := (c.p3 ^^^ t2).rotateRight 1
  { p0 := c0, p1 := c1, p2 := c2, p3 := c3 }

def bw0 (b : BitVec 128) : BitVec 32 := b.extractLsb' 96 8 ++ b.extractLsb' 104 8 ++ b.extractLsb' 112 8 ++ b.extractLsb' 120 8
def bw1 (b : BitVec 128) : BitVec 32 := b.extractLsb' 64 8 ++ b.extractLsb' 72 8 ++ b.extractLsb' 80 8 ++ b.extractLsb' 88 8
def bw2 (b : BitVec 128) : BitVec 32 := b.extractLsb' 32 8 ++ b.extractLsb' 40 8 ++ b.extractLsb' 48 8 ++ b.extractLsb' 56 8
def bw3 (b : BitVec 128) : BitVec 32 := b.extractLsb' 0 8 ++ b.extractLsb' 8 8 ++ b.extractLsb' 16 8 ++ b.extractLsb' 24 8
theorem blockWord_0 (b : BitVec 128) : blockWord b 0 = bw0 b := by
  simp only [blockWord, bswap32, bw0]; bv_decide
theorem blockWord_1 (b : BitVec 128) : blockWord b 1 = bw1 b := by
  simp only [blockWord, bswap32, bw1]; bv_decide
theorem blockWord_2 (b : BitVec 128) : blockWord b 2 = bw2 b := by
  simp only [blockWord, bswap32, bw2]; bv_decide
theorem blockWord_3 (b : BitVec 128) : blockWord b 3 = bw3 b := by
  simp only [blockWord, bswap32, bw3]; bv_decide
def sw (w0 w1 w2 w3 : BitVec 32) : BitVec 128 :=
    (w0.extractLsb' 0 8 ++ w0.extractLsb' 8 8 ++ w0.extractLsb' 16 8 ++ w0.extractLsb' 24 8 ++
     w1.extractLsb' 0 8 ++ w1.extractLsb' 8 8 ++ w1.extractLsb' 16 8 ++ w1.extractLsb' 24 8 ++
     w2.extractLsb' 0 8 ++ w2.extractLsb' 8 8 ++ w2.extractLsb' 16 8 ++ w2.extractLsb' 24 8 ++
     w3.extractLsb' 0 8 ++ w3.extractLsb' 8 8 ++ w3.extractLsb' 16 8 ++ w3.extractLsb' 24 8 : BitVec 128)
theorem storeWords_eq (w0 w1 w2 w3 : BitVec 32) : storeWords w0 w1 w2 w3 = sw w0 w1 w2 w3 := by
  simp only [storeWords, bswap32, sw]; bv_decide

theorem encRound_0 (g : BitVec 32 → BitVec 32) (k0 k1 k2 k3 k4 k5 k6 k7 k8 k9 k10 k11 k12 k13 k14 k15 k16 k17 k18 k19 k20 k21 k22 k23 k24 k25 k26 k27 k28 k29 k30 k31 k32 k33 k34 k35 k36 k37 k38 k39 : BitVec 32) (s : St) : encRound g ⟨#[k0, k1, k2, k3, k4, k5, k6, k7, k8, k9, k10, k11, k12, k13, k14, k15, k16, k17, k18, k19, k20, k21, k22, k23, k24, k25, k26, k27, k28, k29, k30, k31, k32, k33, k34, k35, k36, k37, k38, k39], rfl⟩ s 0 = encRoundE g k8 k9 k10 k11 s := rfl
theorem decRound_0 (g : BitVec 32 → BitVec 32) (k0 k1 k2 k3 k4 k5 k6 k7 k8 k9 k10 k11 k12 k13 k14 k15 k16 k17 k18 k19 k20 k21 k22 k23 k24 k25 k26 k27 k28 k29 k30 k31 k32 k33 k34 k35 k36 k37 k38 k39 : BitVec 32) (s : St) : decRound g ⟨#[k0, k1, k2, k3, k4, k5, k6, k7, k8, k9, k10, k11, k12, k13, k14, k15, k16, k17, k18, k19, k20, k21, k22, k23, k24, k25, k26, k27, k28, k29, k30, k31, k32, k33, k34, k35, k36, k37, k38, k39], rfl⟩ s 0 = decRoundE g k8 k9 k10 k11 s := rfl
theorem encRound_1 (g : BitVec 32 → BitVec 32) (k0 k1 k2 k3 k4 k5 k6 k7 k8 k9 k10 k11 k12 k13 k14 k15 k16 k17 k18 k19 k20 k21 k22 k23 k24 k25 k26 k27 k28 k29 k30 k31 k32 k33 k34 k35 k36 k37 k38 k39 : BitVec 32) (s : St) : encRound g ⟨#[k0, k1, k2, k3, k4, k5, k6, k7, k8, k9, k10, k11, k12, k13, k14, k15, k16, k17, k18, k19, k20, k21, k22, k23, k24, k25, k26, k27, k28, k29, k30, k31, k32, k33, k34, k35, k36, k37, k38, k39], rfl⟩ s 1 = encRoundE g k12 k13 k14 k15 s := rfl
theorem decRound_1 (g : BitVec 32 → BitVec 32) (k0 k1 k2 k3 k4 k5 k6 k7 k8 k9 k10 k11 k12 k13 k14 k15 k16 k17 k18 k19 k20 k21 k22 k23 k24 k25 k26 k27 k28 k29 k30 k31 k32 k33 k34 k35 k36 k37 k38 k39 : BitVec 32) (s : St) : decRound g ⟨#[k0, k1, k2, k3, k4, k5, k6, k7, k8, k9, k10, k11, k12, k13, k14, k15, k16, k17, k18, k19, k20, k21, k22, k23, k24, k25, k26, k27, k28, k29, k30, k31, k32, k33, k34, k35, k36, k37, k38, k39], rfl⟩ s 1 = decRoundE g k12 k13 k14 k15 s := rfl
theorem encRound_2 (g : BitVec 32 → BitVec 32) (k0 k1 k2 k3 k4 k5 k6 k7 k8 k9 k10 k11 k12 k13 k14 k15 k16 k17 k18 k19 k20 k21 k22 k23 k24 k25 k26 k27 k28 k29 k30 k31 k32 k33 k34 k35 k36 k37 k38 k39 : BitVec 32) (s : St) : encRound g ⟨#[k0, k1, k2, k3, k4, k5, k6, k7, k8, k9, k10, k11, k12, k13, k14, k15, k16, k17, k18, k19, k20, k21, k22, k23, k24, k25, k26, k27, k28, k29, k30, k31, k32, k33, k34, k35, k36, k37, k38, k39], rfl⟩ s 2 = encRoundE g k16 k17 k18 k19 s := rfl
theorem decRound_2 (g : BitVec 32 → BitVec 32) (k0 k1 k2 k3 k4 k5 k6 k7 k8 k9 k10 k11 k12 k13 k14 k15 k16 k17 k18 k19 k20 k21 k22 k23 k24 k25 k26 k27 k28 k29 k30 k31 k32 k33 k34 k35 k36 k37 k38 k39 : BitVec 32) (s : St) : decRound g ⟨#[k0, k1, k2, k3, k4, k5, k6, k7, k8, k9, k10, k11, k12, k13, k14, k15, k16, k17, k18, k19, k20, k21, k22, k23, k24, k25, k26, k27, k28, k29, k30, k31, k32, k33, k34, k35, k36, k37, k38, k39], rfl⟩ s 2 = decRoundE g k16 k17 k18 k19 s := rfl
theorem encRound_3 (g : BitVec 32 → BitVec 32) (k0 k1 k2 k3 k4 k5 k6 k7 k8 k9 k10 k11 k12 k13 k14 k15 k16 k17 k18 k19 k20 k21 k22 k23 k24 k25 k26 k27 k28 k29 k30 k31 k32 k33 k34 k35 k36 k37 k38 k39 : BitVec 32) (s : St) : encRound g ⟨#[k0, k1, k2, k3, k4, k5, k6, k7, k8, k9, k10, k11, k12, k13, k14, k15, k16, k17, k18, k19, k20, k21, k22, k23, k24, k25, k26, k27, k28, k29, k30, k31, k32, k33, k34, k35, k36, k37, k38, k39], rfl⟩ s 3 = encRoundE g k20 k21 k22 k23 s := rfl
theorem decRound_3 (g : BitVec 32 → BitVec 32) (k0 k1 k2 k3 k4 k5 k6 k7 k8 k9 k10 k11 k12 k13 k14 k15 k16 k17 k18 k19 k20 k21 k22 k23 k24 k25 k26 k27 k28 k29 k30 k31 k32 k33 k34 k35 k36 k37 k38 k39 : BitVec 32) (s : St) : decRound g ⟨#[k0, k1, k2, k3, k4, k5, k6, k7, k8, k9, k10, k11, k12, k13, k14, k15, k16, k17, k18, k19, k20, k21, k22, k23, k24, k25, k26, k27, k28, k29, k30, k31, k32, k33, k34, k35, k36, k37, k38, k39], rfl⟩ s 3 = decRoundE g k20 k21 k22 k23 s := rfl
theorem encRound_4 (g : BitVec 32 → BitVec 32) (k0 k1 k2 k3 k4 k5 k6 k7 k8 k9 k10 k11 k12 k13 k14 k15 k16 k17 k18 k19 k20 k21 k22 k23 k24 k25 k26 k27 k28 k29 k30 k31 k32 k33 k34 k35 k36 k37 k38 k39 : BitVec 32) (s : St) : encRound g ⟨#[k0, k1, k2, k3, k4, k5, k6, k7, k8, k9, k10, k11, k12, k13, k14, k15, k16, k17, k18, k19, k20, k21, k22, k23, k24, k25, k26, k27, k28, k29, k30, k31, k32, k33, k34, k35, k36, k37, k38, k39], rfl⟩ s 4 = encRoundE g k24 k25 k26 k27 s := rfl
theorem decRound_4 (g : BitVec 32 → BitVec 32) (k0 k1 k2 k3 k4 k5 k6 k7 k8 k9 k10 k11 k12 k13 k14 k15 k16 k17 k18 k19 k20 k21 k22 k23 k24 k25 k26 k27 k28 k29 k30 k31 k32 k33 k34 k35 k36 k37 k38 k39 : BitVec 32) (s : St) : decRound g ⟨#[k0, k1, k2, k3, k4, k5, k6, k7, k8, k9, k10, k11, k12, k13, k14, k15, k16, k17, k18, k19, k20, k21, k22, k23, k24, k25, k26, k27, k28, k29, k30, k31, k32, k33, k34, k35, k36, k37, k38, k39], rfl⟩ s 4 = decRoundE g k24 k25 k26 k27 s := rfl
theorem encRound_5 (g : BitVec 32 → BitVec 32) (k0 k1 k2 k3 k4 k5 k6 k7 k8 k9 k10 k11 k12 k13 k14 k15 k16 k17 k18 k19 k20 k21 k22 k23 k24 k25 k26 k27 k28 k29 k30 k31 k32 k33 k34 k35 k36 k37 k38 k39 : BitVec 32) (s : St) : encRound g ⟨#[k0, k1, k2, k3, k4, k5, k6, k7, k8, k9, k10, k11, k12, k13, k14, k15, k16, k17, k18, k19, k20, k21, k22, k23, k24, k25, k26, k27, k28, k29, k30, k31, k32, k33, k34, k35, k36, k37, k38, k39], rfl⟩ s 5 = encRoundE g k28 k29 k30 k31 s := rfl
theorem decRound_5 (g : BitVec 32 → BitVec 32) (k0 k1 k2 k3 k4 k5 k6 k7 k8 k9 k10 k11 k12 k13 k14 k15 k16 k17 k18 k19 k20 k21 k22 k23 k24 k25 k26 k27 k28 k29 k30 k31 k32 k33 k34 k35 k36 k37 k38 k39 : BitVec 32) (s : St) : decRound g ⟨#[k0, k1, k2, k3, k4, k5, k6, k7, k8, k9, k10, k11, k12, k13, k14, k15, k16, k17, k18, k19, k20, k21, k22, k23, k24, k25, k26, k27, k28, k29, k30, k31, k32, k33, k34, k35, k36, k37, k38, k39], rfl⟩ s 5 = decRoundE g k28 k29 k30 k31 s := rfl
theorem encRound_6 (g : BitVec 32 → BitVec 32) (k0 k1 k2 k3 k4 k5 k6 k7 k8 k9 k10 k11 k12 k13 k14 k15 k16 k17 k18 k19 k20 k21 k22 k23 k24 k25 k26 k27 k28 k29 k30 k31 k32 k33 k34 k35 k36 k37 k38 k39 : BitVec 32) (s : St) : encRound g ⟨#[k0, k1, k2, k3, k4, k5, k6, k7, k8, k9, k10, k11, k12, k13, k14, k15, k16, k17, k18, k19, k20, k21, k22, k23, k24, k25, k26, k27, k28, k29, k30, k31, k32, k33, k34, k35, k36, k37, k38, k39], rfl⟩ s 6 = encRoundE g k32 k33 k34 k35 s := rfl
theorem decRound_6 (g : BitVec 32 → BitVec 32) (k0 k1 k2 k3 k4 k5 k6 k7 k8 k9 k10 k11 k12 k13 k14 k15 k16 k17 k18 k19 k20 k21 k22 k23 k24 k25 k26 k27 k28 k29 k30 k31 k32 k33 k34 k35 k36 k37 k38 k39 : BitVec 32) (s : St) : decRound g ⟨#[k0, k1, k2, k3, k4, k5, k6, k7, k8, k9, k10, k11, k12, k13, k14, k15, k16, k17, k18, k19, k20, k21, k22, k23, k24, k25, k26, k27, k28, k29, k30, k31, k32, k33, k34, k35, k36, k37, k38, k39], rfl⟩ s 6 = decRoundE g k32 k33 k34 k35 s := rfl
theorem encRound_7 (g : BitVec 32 → BitVec 32) (k0 k1 k2 k3 k4 k5 k6 k7 k8 k9 k10 k11 k12 k13 k14 k15 k16 k17 k18 k19 k20 k21 k22 k23 k24 k25 k26 k27 k28 k29 k30 k31 k32 k33 k34 k35 k36 k37 k38 k39 : BitVec 32) (s : St) : encRound g ⟨#[k0, k1, k2, k3, k4, k5, k6, k7, k8, k9, k10, k11, k12, k13, k14, k15, k16, k17, k18, k19, k20, k21, k22, k23, k24, k25, k26, k27, k28, k29, k30, k31, k32, k33, k34, k35, k36, k37, k38, k39], rfl⟩ s 7 = encRoundE g k36 k37 k38 k39 s := rfl
theorem decRound_7 (g : BitVec 32 → BitVec 32) (k0 k1 k2 k3 k4 k5 k6 k7 k8 k9 k10 k11 k12 k13 k14 k15 k16 k17 k18 k19 k20 k21 k22 k23 k24 k25 k26 k27 k28 k29 k30 k31 k32 k33 k34 k35 k36 k37 k38 k39 : BitVec 32) (s : St) : decRound g ⟨#[k0, k1, k2, k3, k4, k5, k6, k7, k8, k9, k10, k11, k12, k13, k14, k15, k16, k17, k18, k19, k20, k21, k22, k23, k24, k25, k26, k27, k28, k29, k30, k31, k32, k33, k34, k35, k36, k37, k38, k39], rfl⟩ s 7 = decRoundE g k36 k37 k38 k39 s := rfl

def encOut (k4 k5 k6 k7 : BitVec 32) (p : St) : BitVec 128 := sw (p.p2 ^^^ k4) (p.p3 ^^^ k5) (p.p0 ^^^ k6) (p.p1 ^^^ k7)
def decOut (k0 k1 k2 k3 : BitVec 32) (c : St) : BitVec 128 := sw (c.p0 ^^^ k0) (c.p1 ^^^ k1) (c.p2 ^^^ k2) (c.p3 ^^^ k3)
def encE (g : BitVec 32 → BitVec 32) (k0 k1 k2 k3 k4 k5 k6 k7 k8 k9 k10 k11 k12 k13 k14 k15 k16 k17 k18 k19 k20 k21 k22 k23 k24 k25 k26 k27 k28 k29 k30 k31 k32 k33 k34 k35 k36 k37 k38 k39 : BitVec 32) (b : BitVec 128) : BitVec 128 :=
  encOut k4 k5 k6 k7 (encRoundE g k36 k37 k38 k39 (encRoundE g k32 k33 k34 k35 (encRoundE g k28 k29 k30 k31 (encRoundE g k24 k25 k26 k27 (encRoundE g k20 k21 k22 k23 (encRoundE g k16 k17 k18 k19 (encRoundE g k12 k13 k14 k15 (encRoundE g k8 k9 k10 k11 (St.mk (bw0 b ^^^ k0) (bw1 b ^^^ k1) (bw2 b ^^^ k2) (bw3 b ^^^ k3))))))))))
def decE (g : BitVec 32 → BitVec 32) (k0 k1 k2 k3 k4 k5 k6 k7 k8 k9 k10 k11 k12 k13 k14 k15 k16 k17 k18 k19 k20 k21 k22 k23 k24 k25 k26 k27 k28 k29 k30 k31 k32 k33 k34 k35 k36 k37 k38 k39 : BitVec 32) (b : BitVec 128) : BitVec 128 :=
  decOut k0 k1 k2 k3 (decRoundE g k8 k9 k10 k11 (decRoundE g k12 k13 k14 k15 (decRoundE g k16 k17 k18 k19 (decRoundE g k20 k21 k22 k23 (decRoundE g k24 k25 k26 k27 (decRoundE g k28 k29 k30 k31 (decRoundE g k32 k33 k34 k35 (decRoundE g k36 k37 k38 k39 (St.mk (bw2 b ^^^ k6) (bw3 b ^^^ k7) (bw0 b ^^^ k4) (bw1 b ^^^ k5))))))))))
theorem K_0 (k0 k1 k2 k3 k4 k5 k6 k7 k8 k9 k10 k11 k12 k13 k14 k15 k16 k17 k18 k19 k20 k21 k22 k23 k24 k25 k26 k27 k28 k29 k30 k31 k32 k33 k34 k35 k36 k37 k38 k39 : BitVec 32) : (⟨#[k0, k1, k2, k3, k4, k5, k6, k7, k8, k9, k10, k11, k12, k13, k14, k15, k16, k17, k18, k19, k20, k21, k22, k23, k24, k25, k26, k27, k28, k29, k30, k31, k32, k33, k34, k35, k36, k37, k38, k39], rfl⟩ : Vector (BitVec 32) 40)[0] = k0 := rfl
theorem K_1 (k0 k1 k2 k3 k4 k5 k6 k7 k8 k9 k10 k11 k12 k13 k14 k15 k16 k17 k18 k19 k20 k21 k22 k23 k24 k25 k26 k27 k28 k29 k30 k31 k32 k33 k34 k35 k36 k37 k38 k39 : BitVec 32) : (⟨#[k0, k1, k2, k3, k4, k5, k6, k7, k8, k9, k10, k11, k12, k13, k14, k15, k16, k17, k18, k19, k20, k21, k22, k23, k24, k25, k26, k27, k28, k29, k30, k31, k32, k33, k34, k35, k36, k37, k38, k39], rfl⟩ : Vector (BitVec 32) 40)[1] = k1 := rfl
theorem K_2 (k0 k1 k2 k3 k4 k5 k6 k7 k8 k9 k10 k11 k12 k13 k14 k15 k16 k17 k18 k19 k20 k21 k22 k23 k24 k25 k26 k27 k28 k29 k30 k31 k32 k33 k34 k35 k36 k37 k38 k39 : BitVec 32) : (⟨#[k0, k1, k2, k3, k4, k5, k6, k7, k8, k9, k10, k11, k12, k13, k14, k15, k16, k17, k18, k19, k20, k21, k22, k23, k24, k25, k26, k27, k28, k29, k30, k31, k32, k33, k34, k35, k36, k37, k38, k39], rfl⟩ : Vector (BitVec 32) 40)[2] = k2 := rfl
theorem K_3 (k0 k1 k2 k3 k4 k5 k6 k7 k8 k9 k10 k11 k12 k13 k14 k15 k16 k17 k18 k19 k20 k21 k22 k23 k24 k25 k26 k27 k28 k29 k30 k31 k32 k33 k34 k35 k36 k37 k38 k39 : BitVec 32) : (⟨#[k0, k1, k2, k3, k4, k5, k6, k7, k8, k9, k10, k11, k12, k13, k14, k15, k16, k17, k18, k19, k20, k21, k22, k23, k24, k25, k26, k27, k28, k29, k30, k31, k32, k33, k34, k35, k36, k37, k38, k39], rfl⟩ : Vector (BitVec 32) 40)[3] = k3 := rfl
theorem K_4 (k0 k1 k2 k3 k4 k5 k6 k7 k8 k9 k10 k11 k12 k13 k14 k15 k16 k17 k18 k19 k20 k21 k22 k23 k24 k25 k26 k27 k28 k29 k30 k31 k32 k33 k34 k35 k36 k37 k38 k39 : BitVec 32) : (⟨#[k0, k1, k2, k3, k4, k5, k6, k7, k8, k9, k10, k11, k12, k13, k14, k15, k16, k17, k18, k19, k20, k21, k22, k23, k24, k25, k26, k27, k28, k29, k30, k31, k32, k33, k34, k35, k36, k37, k38, k39], rfl⟩ : Vector (BitVec 32) 40)[4] = k4 := rfl
theorem K_5 (k0 k1 k2 k3 k4 k5 k6 k7 k8 k9 k10 k11 k12 k13 k14 k15 k16 k17 k18 k19 k20 k21 k22 k23 k24 k25 k26 k27 k28 k29 k30 k31 k32 k33 k34 k35 k36 k37 k38 k39 : BitVec 32) : (⟨#[k0, k1, k2, k3, k4, k5, k6, k7, k8, k9, k10, k11, k12, k13, k14, k15, k16, k17, k18, k19, k20, k21, k22, k23, k24, k25, k26, k27, k28, k29, k30, k31, k32, k33, k34, k35, k36, k37, k38, k39], rfl⟩ : Vector (BitVec 32) 40)[5] = k5 := rfl
theorem K_6 (k0 k1 k2 k3 k4 k5 k6 k7 k8 k9 k10 k11 k12 k13 k14 k15 k16 k17 k18 k19 k20 k21 k22 k23 k24 k25 k26 k27 k28 k29 k30 k31 k32 k33 k34 k35 k36 k37 k38 k39 : BitVec 32) : (⟨#[k0, k1, k2, k3, k4, k5, k6, k7, k8, k9, k10, k11, k12, k13, k14, k15, k16, k17, k18, k19, k20, k21, k22, k23, k24, k25, k26, k27, k28, k29, k30, k31, k32, k33, k34, k35, k36, k37, k38, k39], rfl⟩ : Vector (BitVec 32) 40)[6] = k6 := rfl
theorem K_7 (k0 k1 k2 k3 k4 k5 k6 k7 k8 k9 k10 k11 k12 k13 k14 k15 k16 k17 k18 k19 k20 k21 k22 k23 k24 k25 k26 k27 k28 k29 k30 k31 k32 k33 k34 k35 k36 k37 k38 k39 : BitVec 32) : (⟨#[k0, k1, k2, k3, k4, k5, k6, k7, k8, k9, k10, k11, k12, k13, k14, k15, k16, k17, k18, k19, k20, k21, k22, k23, k24, k25, k26, k27, k28, k29, k30, k31, k32, k33, k34, k35, k36, k37, k38, k39], rfl⟩ : Vector (BitVec 32) 40)[7] = k7 := rfl
theorem encryptWith_eq (g : BitVec 32 → BitVec 32) (k0 k1 k2 k3 k4 k5 k6 k7 k8 k9 k10 k11 k12 k13 k14 k15 k16 k17 k18 k19 k20 k21 k22 k23 k24 k25 k26 k27 k28 k29 k30 k31 k32 k33 k34 k35 k36 k37 k38 k39 : BitVec 32) (b : BitVec 128) :
    encryptWith g ⟨#[k0, k1, k2, k3, k4, k5, k6, k7, k8, k9, k10, k11, k12, k13, k14, k15, k16, k17, k18, k19, k20, k21, k22, k23, k24, k25, k26, k27, k28, k29, k30, k31, k32, k33, k34, k35, k36, k37, k38, k39], rfl⟩ b = encE g k0 k1 k2 k3 k4 k5 k6 k7 k8 k9 k10 k11 k12 k13 k14 k15 k16 k17 k18 k19 k20 k21 k22 k23 k24 k25 k26 k27 k28 k29 k30 k31 k32 k33 k34 k35 k36 k37 k38 k39 b := by
  simp only [encryptWith, encE, encOut, roundIdx, List.foldl, encRound_0, encRound_1, encRound_2, encRound_3, encRound_4, encRound_5, encRound_6, encRound_7,
    blockWord_0, blockWord_1, blockWord_2, blockWord_3, storeWords_eq, K_0, K_1, K_2, K_3, K_4, K_5, K_6, K_7]
theorem decryptWith_eq (g : BitVec 32 → BitVec 32) (k0 k1 k2 k3 k4 k5 k6 k7 k8 k9 k10 k11 k12 k13 k14 k15 k16 k17 k18 k19 k20 k21 k22 k23 k24 k25 k26 k27 k28 k29 k30 k31 k32 k33 k34 k35 k36 k37 k38 k39 : BitVec 32) (b : BitVec 128) :
    decryptWith g ⟨#[k0, k1, k2, k3, k4, k5, k6, k7, k8, k9, k10, k11, k12, k13, k14, k15, k16, k17, k18, k19, k20, k21, k22, k23, k24, k25, k26, k27, k28, k29, k30, k31, k32, k33, k34, k35, k36, k37, k38, k39], rfl⟩ b = decE g k0 k1 k2 k3 k4 k5 k6 k7 k8 k9 k10 k11 k12 k13 k14 k15 k16 k17 k18 k19 k20 k21 k22 k23 k24 k25 k26 k27 k28 k29 k30 k31 k32 k33 k34 k35 k36 k37 k38 k39 b := by
  simp only [decryptWith, decE, decOut, roundIdx, List.reverse_cons, List.reverse_nil, List.nil_append, List.cons_append, List.foldl, decRound_0, decRound_1, decRound_2, decRound_3, decRound_4, decRound_5, decRound_6, decRound_7,
    blockWord_0, blockWord_1, blockWord_2, blockWord_3, storeWords_eq, K_0, K_1, K_2, K_3, K_4, K_5, K_6, K_7]


theorem s0_encrypt_G (s0 s1 s2 s3 s4 s5 s6 s7 s8 s9 s10 s11 s12 s13 s14 s15 : BitVec 8) (k0 k1 k2 k3 k4 k5 k6 k7 k8 k9 k10 k11 k12 k13 k14 k15 k16 k17 k18 k19 k20 k21 k22 k23 k24 k25 k26 k27 k28 k29 k30 k31 k32 k33 k34 k35 k36 k37 k38 k39 : BitVec 32) (b : BitVec 128) :
    twofish_s0_encrypt_block s0 s1 s2 s3 s4 s5 s6 s7 s8 s9 s10 s11 s12 s13 s14 s15 k0 k1 k2 k3 k4 k5 k6 k7 k8 k9 k10 k11 k12 k13 k14 k15 k16 k17 k18 k19 k20 k21 k22 k23 k24 k25 k26 k27 k28 k29 k30 k31 k32 k33 k34 k35 k36 k37 k38 k39 b = encE (gG0 s0 s1 s2 s3 s4 s5 s6 s7 s8 s9 s10 s11 s12 s13 s14 s15) k0 k1 k2 k3 k4 k5 k6 k7 k8 k9 k10 k11 k12 k13 k14 k15 k16 k17 k18 k19 k20 k21 k22 k23 k24 k25 k26 k27 k28 k29 k30 k31 k32 k33 k34 k35 k36 k37 k38 k39 b := by
  unfold twofish_s0_encrypt_block
  extract_lets -merge
  name_lets
  have R0 : encRoundE (gG0 s0 s1 s2 s3 s4 s5 s6 s7 s8 s9 s10 s11 s12 s13 s14 s15) k8 k9 k10 k11 ⟨p, p_1, p_2, p_3⟩ = ⟨p0, p1, p2, p3⟩ := rfl
  have R1 : encRoundE (gG0 s0 s1 s2 s3 s4 s5 s6 s7 s8 s9 s10 s11 s12 s13 s14 s15) k12 k13 k14 k15 ⟨p0, p1, p2, p3⟩ = ⟨p0_1, p1_1, p2_1, p3_1⟩ := rfl
  have R2 : encRoundE (gG0 s0 s1 s2 s3 s4 s5 s6 s7 s8 s9 s10 s11 s12 s13 s14 s15) k16 k17 k18 k19 ⟨p0_1, p1_1, p2_1, p3_1⟩ = ⟨p0_2, p1_2, p2_2, p3_2⟩ := rfl
  have R3 : encRoundE (gG0 s0 s1 s2 s3 s4 s5 s6 s7 s8 s9 s10 s11 s12 s13 s14 s15) k20 k21 k22 k23 ⟨p0_2, p1_2, p2_2, p3_2⟩ = ⟨p0_3, p1_3, p2_3, p3_3⟩ := rfl
  have R4 : encRoundE (gG0 s0 s1 s2 s3 s4 s5 s6 s7 s8 s9 s10 s11 s12 s13 s14 s15) k24 k25 k26 k27 ⟨p0_3, p1_3, p2_3, p3_3⟩ = ⟨p0_4, p1_4, p2_4, p3_4⟩ := rfl
  have R5 : encRoundE (gG0 s0 s1 s2 s3 s4 s5 s6 s7 s8 s9 s10 s11 s12 s13 s14 s15) k28 k29 k30 k31 ⟨p0_4, p1_4, p2_4, p3_4⟩ = ⟨p0_5, p1_5, p2_5, p3_5⟩ := rfl
  have R6 : encRoundE (gG0 s0 s1 s2 s3 s4 s5 s6 s7 s8 s9 s10 s11 s12 s13 s14 s15) k32 k33 k34 k35 ⟨p0_5, p1_5, p2_5, p3_5⟩ = ⟨p0_6, p1_6, p2_6, p3_6⟩ := rfl
  have R7 : encRoundE (gG0 s0 s1 s2 s3 s4 s5 s6 s7 s8 s9 s10 s11 s12 s13 s14 s15) k36 k37 k38 k39 ⟨p0_6, p1_6, p2_6, p3_6⟩ = ⟨p0_7, p1_7, p2_7, p3_7⟩ := rfl
  show _ = encE _ k0 k1 k2 k3 k4 k5 k6 k7 k8 k9 k10 k11 k12 k13 k14 k15 k16 k17 k18 k19 k20 k21 k22 k23 k24 k25 k26 k27 k28 k29 k30 k31 k32 k33 k34 k35 k36 k37 k38 k39 b
  unfold encE
  have I : St.mk (bw0 b ^^^ k0) (bw1 b ^^^ k1) (bw2 b ^^^ k2) (bw3 b ^^^ k3) = ⟨p, p_1, p_2, p_3⟩ := rfl
  rw [I, R0, R1, R2, R3, R4, R5, R6, R7]
  rfl

theorem s0_decrypt_G (s0 s1 s2 s3 s4 s5 s6 s7 s8 s9 s10 s11 s12 s13 s14 s15 : BitVec 8) (k0 k1 k2 k3 k4 k5 k6 k7 k8 k9 k10 k11 k12 k13 k14 k15 k16 k17 k18 k19 k20 k21 k22 k23 k24 k25 k26 k27 k28 k29 k30 k31 k32 k33 k34 k35 k36 k37 k38 k39 : BitVec 32) (b : BitVec 128) :
    twofish_s0_decrypt_block s0 s1 s2 s3 s4 s5 s6 s7 s8 s9 s10 s11 s12 s13 s14 s15 k0 k1 k2 k3 k4 k5 k6 k7 k8 k9 k10 k11 k12 k13 k14 k15 k16 k17 k18 k19 k20 k21 k22 k23 k24 k25 k26 k27 k28 k29 k30 k31 k32 k33 k34 k35 k36 k37 k38 k39 b = decE (gG0 s0 s1 s2 s3 s4 s5 s6 s7 s8 s9 s10 s11 s12 s13 s14 s15) k0 k1 k2 k3 k4 k5 k6 k7 k8 k9 k10 k11 k12 k13 k14 k15 k16 k17 k18 k19 k20 k21 k22 k23 k24 k25 k26 k27 k28 k29 k30 k31 k32 k33 k34 k35 k36 k37 k38 k39 b := by
  unfold twofish_s0_decrypt_block
  extract_lets -merge
  name_lets
  have R0 : decRoundE (gG0 s0 s1 s2 s3 s4 s5 s6 s7 s8 s9 s10 s11 s12 s13 s14 s15) k36 k37 k38 k39 ⟨(bw2 b ^^^ k6), (bw3 b ^^^ k7), (bw0 b ^^^ k4), (bw1 b ^^^ k5)⟩ = ⟨c0, c1, c2, c3⟩ := rfl
  have R1 : decRoundE (gG0 s0 s1 s2 s3 s4 s5 s6 s7 s8 s9 s10 s11 s12 s13 s14 s15) k32 k33 k34 k35 ⟨c0, c1, c2, c3⟩ = ⟨c0_1, c1_1, c2_1, c3_1⟩ := rfl
  have R2 : decRoundE (gG0 s0 s1 s2 s3 s4 s5 s6 s7 s8 s9 s10 s11 s12 s13 s14 s15) k28 k29 k30 k31 ⟨c0_1, c1_1, c2_1, c3_1⟩ = ⟨c0_2, c1_2, c2_2, c3_2⟩ := rfl
  have R3 : decRoundE (gG0 s0 s1 s2 s3 s4 s5 s6 s7 s8 s9 s10 s11 s12 s13 s14 s15) k24 k25 k26 k27 ⟨c0_2, c1_2, c2_2, c3_2⟩ = ⟨c0_3, c1_3, c2_3, c3_3⟩ := rfl
  have R4 : decRoundE (gG0 s0 s1 s2 s3 s4 s5 s6 s7 s8 s9 s10 s11 s12 s13 s14 s15) k20 k21 k22 k23 ⟨c0_3, c1_3, c2_3, c3_3⟩ = ⟨c0_4, c1_4, c2_4, c3_4⟩ := rfl
  have R5 : decRoundE (gG0 s0 s1 s2 s3 s4 s5 s6 s7 s8 s9 s10 s11 s12 s13 s14 s15) k16 k17 k18 k19 ⟨c0_4, c1_4, c2_4, c3_4⟩ = ⟨c0_5, c1_5, c2_5, c3_5⟩ := rfl
  have R6 : decRoundE (gG0 s0 s1 s2 s3 s4 s5 s6 s7 s8 s9 s10 s11 s12 s13 s14 s15) k12 k13 k14 k15 ⟨c0_5, c1_5, c2_5, c3_5⟩ = ⟨c0_6, c1_6, c2_6, c3_6⟩ := rfl
  have R7 : decRoundE (gG0 s0 s1 s2 s3 s4 s5 s6 s7 s8 s9 s10 s11 s12 s13 s14 s15) k8 k9 k10 k11 ⟨c0_6, c1_6, c2_6, c3_6⟩ = ⟨c0_7, c1_7, c2_7, c3_7⟩ := rfl
  show _ = decE _ k0 k1 k2 k3 k4 k5 k6 k7 k8 k9 k10 k11 k12 k13 k14 k15 k16 k17 k18 k19 k20 k21 k22 k23 k24 k25 k26 k27 k28 k29 k30 k31 k32 k33 k34 k35 k36 k37 k38 k39 b
  unfold decE
  rw [R0, R1, R2, R3, R4, R5, R6, R7]
  rfl

/-- the regenerated `Twofish::encrypt_block` with `start = 0` is the model's `encryptWith (gFunc self.s 0) self.k`, for all `s`, `k`, blocks -/
theorem s0_encrypt_block_eq (s0 s1 s2 s3 s4 s5 s6 s7 s8 s9 s10 s11 s12 s13 s14 s15 : BitVec 8) (k0 k1 k2 k3 k4 k5 k6 k7 k8 k9 k10 k11 k12 k13 k14 k15 k16 k17 k18 k19 k20 k21 k22 k23 k24 k25 k26 k27 k28 k29 k30 k31 k32 k33 k34 k35 k36 k37 k38 k39 : BitVec 32) (b : BitVec 128) :
    twofish_s0_encrypt_block s0 s1 s2 s3 s4 s5 s6 s7 s8 s9 s10 s11 s12 s13 s14 s15 k0 k1 k2 k3 k4 k5 k6 k7 k8 k9 k10 k11 k12 k13 k14 k15 k16 k17 k18 k19 k20 k21 k22 k23 k24 k25 k26 k27 k28 k29 k30 k31 k32 k33 k34 k35 k36 k37 k38 k39 b = encryptWith (gFunc #[s0, s1, s2, s3, s4, s5, s6, s7, s8, s9, s10, s11, s12, s13, s14, s15] 0) ⟨#[k0, k1, k2, k3, k4, k5, k6, k7, k8, k9, k10, k11, k12, k13, k14, k15, k16, k17, k18, k19, k20, k21, k22, k23, k24, k25, k26, k27, k28, k29, k30, k31, k32, k33, k34, k35, k36, k37, k38, k39], rfl⟩ b := by
  rw [s0_encrypt_G, encryptWith_eq, gG0_eq]

/-- the regenerated `Twofish::decrypt_block` with `start = 0` is the model's `decryptWith (gFunc self.s 0) self.k`, for all `s`, `k`, blocks -/
theorem s0_decrypt_block_eq (s0 s1 s2 s3 s4 s5 s6 s7 s8 s9 s10 s11 s12 s13 s14 s15 : BitVec 8) (k0 k1 k2 k3 k4 k5 k6 k7 k8 k9 k10 k11 k12 k13 k14 k15 k16 k17 k18 k19 k20 k21 k22 k23 k24 k25 k26 k27 k28 k29 k30 k31 k32 k33 k34 k35 k36 k37 k38 k39 : BitVec 32) (b : BitVec 128) :
    twofish_s0_decrypt_block s0 s1 s2 s3 s4 s5 s6 s7 s8 s9 s10 s11 s12 s13 s14 s15 k0 k1 k2 k3 k4 k5 k6 k7 k8 k9 k10 k11 k12 k13 k14 k15 k16 k17 k18 k19 k20 k21 k22 k23 k24 k25 k26 k27 k28 k29 k30 k31 k32 k33 k34 k35 k36 k37 k38 k39 b = decryptWith (gFunc #[s0, s1, s2, s3, s4, s5, s6, s7, s8, s9, s10, s11, s12, s13, s14, s15] 0) ⟨#[k0, k1, k2, k3, k4, k5, k6, k7, k8, k9, k10, k11, k12, k13, k14, k15, k16, k17, k18, k19, k20, k21, k22, k23, k24, k25, k26, k27, k28, k29, k30, k31, k32, k33, k34, k35, k36, k37, k38, k39], rfl⟩ b := by
  rw [s0_decrypt_G, decryptWith_eq, gG0_eq]


theorem s1_encrypt_G (s0 s1 s2 s3 s4 s5 s6 s7 s8 s9 s10 s11 s12 s13 s14 s15 : BitVec 8) (k0 k1 k2 k3 k4 k5 k6 k7 k8 k9 k10 k11 k12 k13 k14 k15 k16 k17 k18 k19 k20 k21 k22 k23 k24 k25 k26 k27 k28 k29 k30 k31 k32 k33 k34 k35 k36 k37 k38 k39 : BitVec 32) (b : BitVec 128) :
    twofish_s1_encrypt_block s0 s1 s2 s3 s4 s5 s6 s7 s8 s9 s10 s11 s12 s13 s14 s15 k0 k1 k2 k3 k4 k5 k6 k7 k8 k9 k10 k11 k12 k13 k14 k15 k16 k17 k18 k19 k20 k21 k22 k23 k24 k25 k26 k27 k28 k29 k30 k31 k32 k33 k34 k35 k36 k37 k38 k39 b = encE (gG1 s0 s1 s2 s3 s4 s5 s6 s7 s8 s9 s10 s11 s12 s13 s14 s15) k0 k1 k2 k3 k4 k5 k6 k7 k8 k9 k10 k11 k12 k13 k14 k15 k16 k17 k18 k19 k20 k21 k22 k23 k24 k25 k26 k27 k28 k29 k30 k31 k32 k33 k34 k35 k36 k37 k38 k39 b := by
  unfold twofish_s1_encrypt_block
  extract_lets -merge
  name_lets
  have R0 : encRoundE (gG1 s0 s1 s2 s3 s4 s5 s6 s7 s8 s9 s10 s11 s12 s13 s14 s15) k8 k9 k10 k11 ⟨p, p_1, p_2, p_3⟩ = ⟨p0, p1, p2, p3⟩ := rfl
  have R1 : encRoundE (gG1 s0 s1 s2 s3 s4 s5 s6 s7 s8 s9 s10 s11 s12 s13 s14 s15) k12 k13 k14 k15 ⟨p0, p1, p2, p3⟩ = ⟨p0_1, p1_1, p2_1, p3_1⟩ := rfl
  have R2 : encRoundE (gG1 s0 s1 s2 s3 s4 s5 s6 s7 s8 s9 s10 s11 s12 s13 s14 s15) k16 k17 k18 k19 ⟨p0_1, p1_1, p2_1, p3_1⟩ = ⟨p0_2, p1_2, p2_2, p3_2⟩ := rfl
  have R3 : encRoundE (gG1 s0 s1 s2 s3 s4 s5 s6 s7 s8 s9 s10 s11 s12 s13 s14 s15) k20 k21 k22 k23 ⟨p0_2, p1_2, p2_2, p3_2⟩ = ⟨p0_3, p1_3, p2_3, p3_3⟩ := rfl
  have R4 : encRoundE (gG1 s0 s1 s2 s3 s4 s5 s6 s7 s8 s9 s10 s11 s12 s13 s14 s15) k24 k25 k26 k27 ⟨p0_3, p1_3, p2_3, p3_3⟩ = ⟨p0_4, p1_4, p2_4, p3_4⟩ := rfl
  have R5 : encRoundE (gG1 s0 s1 s2 s3 s4 s5 s6 s7 s8 s9 s10 s11 s12 s13 s14 s15) k28 k29 k30 k31 ⟨p0_4, p1_4, p2_4, p3_4⟩ = ⟨p0_5, p1_5, p2_5, p3_5⟩ := rfl
  have R6 : encRoundE (gG1 s0 s1 s2 s3 s4 s5 s6 s7 s8 s9 s10 s11 s12 s13 s14 s15) k32 k33 k34 k35 ⟨p0_5, p1_5, p2_5, p3_5⟩ = ⟨p0_6, p1_6, p2_6, p3_6⟩ := rfl
  have R7 : encRoundE (gG1 s0 s1 s2 s3 s4 s5 s6 s7 s8 s9 s10 s11 s12 s13 s14 s15) k36 k37 k38 k39 ⟨p0_6, p1_6, p2_6, p3_6⟩ = ⟨p0_7, p1_7, p2_7, p3_7⟩ := rfl
  show _ = encE _ k0 k1 k2 k3 k4 k5 k6 k7 k8 k9 k10 k11 k12 k13 k14 k15 k16 k17 k18 k19 k20 k21 k22 k23 k24 k25 k26 k27 k28 k29 k30 k31 k32 k33 k34 k35 k36 k37 k38 k39 b
  unfold encE
  have I : St.mk (bw0 b ^^^ k0) (bw1 b ^^^ k1) (bw2 b ^^^ k2) (bw3 b ^^^ k3) = ⟨p, p_1, p_2, p_3⟩ := rfl
  rw [I, R0, R1, R2, R3, R4, R5, R6, R7]
  rfl

theorem s1_decrypt_G (s0 s1 s2 s3 s4 s5 s6 s7 s8 s9 s10 s11 s12 s13 s14 s15 : BitVec 8) (k0 k1 k2 k3 k4 k5 k6 k7 k8 k9 k10 k11 k12 k13 k14 k15 k16 k17 k18 k19 k20 k21 k22 k23 k24 k25 k26 k27 k28 k29 k30 k31 k32 k33 k34 k35 k36 k37 k38 k39 : BitVec 32) (b : BitVec 128) :
    twofish_s1_decrypt_block s0 s1 s2 s3 s4 s5 s6 s7 s8 s9 s10 s11 s12 s13 s14 s15 k0 k1 k2 k3 k4 k5 k6 k7 k8 k9 k10 k11 k12 k13 k14 k15 k16 k17 k18 k19 k20 k21 k22 k23 k24 k25 k26 k27 k28 k29 k30 k31 k32 k33 k34 k35 k36 k37 k38 k39 b = decE (gG1 s0 s1 s2 s3 s4 s5 s6 s7 s8 s9 s10 s11 s12 s13 s14 s15) k0 k1 k2 k3 k4 k5 k6 k7 k8 k9 k10 k11 k12 k13 k14 k15 k16 k17 k18 k19 k20 k21 k22 k23 k24 k25 k26 k27 k28 k29 k30 k31 k32 k33 k34 k35 k36 k37 k38 k39 b := by
  unfold twofish_s1_decrypt_block
  extract_lets -merge
  name_lets
  have R0 : decRoundE (gG1 s0 s1 s2 s3 s4 s5 s6 s7 s8 s9 s10 s11 s12 s13 s14 s15) k36 k37 k38 k39 ⟨(bw2 b ^^^ k6), (bw3 b ^^^ k7), (bw0 b ^^^ k4), (bw1 b ^^^ k5)⟩ = ⟨c0, c1, c2, c3⟩ := rfl
  have R1 : decRoundE (gG1 s0 s1 s2 s3 s4 s5 s6 s7 s8 s9 s10 s11 s12 s13 s14 s15) k32 k33 k34 k35 ⟨c0, c1, c2, c3⟩ = ⟨c0_1, c1_1, c2_1, c3_1⟩ := rfl
  have R2 : decRoundE (gG1 s0 s1 s2 s3 s4 s5 s6 s7 s8 s9 s10 s11 s12 s13 s14 s15) k28 k29 k30 k31 ⟨c0_1, c1_1, c2_1, c3_1⟩ = ⟨c0_2, c1_2, c2_2, c3_2⟩ := rfl
  have R3 : decRoundE (gG1 s0 s1 s2 s3 s4 s5 s6 s7 s8 s9 s10 s11 s12 s13 s14 s15) k24 k25 k26 k27 ⟨c0_2, c1_2, c2_2, c3_2⟩ = ⟨c0_3, c1_3, c2_3, c3_3⟩ := rfl
  have R4 : decRoundE (gG1 s0 s1 s2 s3 s4 s5 s6 s7 s8 s9 s10 s11 s12 s13 s14 s15) k20 k21 k22 k23 ⟨c0_3, c1_3, c2_3, c3_3⟩ = ⟨c0_4, c1_4, c2_4, c3_4⟩ := rfl
  have R5 : decRoundE (gG1 s0 s1 s2 s3 s4 s5 s6 s7 s8 s9 s10 s11 s12 s13 s14 s15) k16 k17 k18 k19 ⟨c0_4, c1_4, c2_4, c3_4⟩ = ⟨c0_5, c1_5, c2_5, c3_5⟩ := rfl
  have R6 : decRoundE (gG1 s0 s1 s2 s3 s4 s5 s6 s7 s8 s9 s10 s11 s12 s13 s14 s15) k12 k13 k14 k15 ⟨c0_5, c1_5, c2_5, c3_5⟩ = ⟨c0_6, c1_6, c2_6, c3_6⟩ := rfl
  have R7 : decRoundE (gG1 s0 s1 s2 s3 s4 s5 s6 s7 s8 s9 s10 s11 s12 s13 s14 s15) k8 k9 k10 k11 ⟨c0_6, c1_6, c2_6, c3_6⟩ = ⟨c0_7, c1_7, c2_7, c3_7⟩ := rfl
  show _ = decE _ k0 k1 k2 k3 k4 k5 k6 k7 k8 k9 k10 k11 k12 k13 k14 k15 k16 k17 k18 k19 k20 k21 k22 k23 k24 k25 k26 k27 k28 k29 k30 k31 k32 k33 k34 k35 k36 k37 k38 k39 b
  unfold decE
  rw [R0, R1, R2, R3, R4, R5, R6, R7]
  rfl

/-- the regenerated `Twofish::encrypt_block` with `start = 1` is the model's `encryptWith (gFunc self.s 1) self.k`, for all `s`, `k`, blocks -/
theorem s1_encrypt_block_eq (s0 s1 s2 s3 s4 s5 s6 s7 s8 s9 s10 s11 s12 s13 s14 s15 : BitVec 8) (k0 k1 k2 k3 k4 k5 k6 k7 k8 k9 k10 k11 k12 k13 k14 k15 k16 k17 k18 k19 k20 k21 k22 k23 k24 k25 k26 k27 k28 k29 k30 k31 k32 k33 k34 k35 k36 k37 k38 k39 : BitVec 32) (b : BitVec 128) :
    twofish_s1_encrypt_block s0 s1 s2 s3 s4 s5 s6 s7 s8 s9 s10 s11 s12 s13 s14 s15 k0 k1 k2 k3 k4 k5 k6 k7 k8 k9 k10 k11 k12 k13 k14 k15 k16 k17 k18 k19 k20 k21 k22 k23 k24 k25 k26 k27 k28 k29 k30 k31 k32 k33 k34 k35 k36 k37 k38 k39 b = encryptWith (gFunc #[s0, s1, s2, s3, s4, s5, s6, s7, s8, s9, s10, s11, s12, s13, s14, s15] 1) ⟨#[k0, k1, k2, k3, k4, k5, k6, k7, k8, k9, k10, k11, k12, k13, k14, k15, k16, k17, k18, k19, k20, k21, k22, k23, k24, k25, k26, k27, k28, k29, k30, k31, k32, k33, k34, k35, k36, k37, k38, k39], rfl⟩ b := by
  rw [s1_encrypt_G, encryptWith_eq, gG1_eq]

/-- the regenerated `Twofish::decrypt_block` with `start = 1` is the model's `decryptWith (gFunc self.s 1) self.k`, for all `s`, `k`, blocks -/
theorem s1_decrypt_block_eq (s0 s1 s2 s3 s4 s5 s6 s7 s8 s9 s10 s11 s12 s13 s14 s15 : BitVec 8) (k0 k1 k2 k3 k4 k5 k6 k7 k8 k9 k10 k11 k12 k13 k14 k15 k16 k17 k18 k19 k20 k21 k22 k23 k24 k25 k26 k27 k28 k29 k30 k31 k32 k33 k34 k35 k36 k37 k38 k39 : BitVec 32) (b : BitVec 128) :
    twofish_s1_decrypt_block s0 s1 s2 s3 s4 s5 s6 s7 s8 s9 s10 s11 s12 s13 s14 s15 k0 k1 k2 k3 k4 k5 k6 k7 k8 k9 k10 k11 k12 k13 k14 k15 k16 k17 k18 k19 k20 k21 k22 k23 k24 k25 k26 k27 k28 k29 k30 k31 k32 k33 k34 k35 k36 k37 k38 k39 b = decryptWith (gFunc #[s0, s1, s2, s3, s4, s5, s6, s7, s8, s9, s10, s11, s12, s13, s14, s15] 1) ⟨#[k0, k1, k2, k3, k4, k5, k6, k7, k8, k9, k10, k11, k12, k13, k14, k15, k16, k17, k18, k19, k20, k21, k22, k23, k24, k25, k26, k27, k28, k29, k30, k31, k32, k33, k34, k35, k36, k37, k38, k39], rfl⟩ b := by
  rw [s1_decrypt_G, decryptWith_eq, gG1_eq]


theorem s2_encrypt_G (s0 s1 s2 s3 s4 s5 s6 s7 s8 s9 s10 s11 s12 s13 s14 s15 : BitVec 8) (k0 k1 k2 k3 k4 k5 k6 k7 k8 k9 k10 k11 k12 k13 k14 k15 k16 k17 k18 k19 k20 k21 k22 k23 k24 k25 k26 k27 k28 k29 k30 k31 k32 k33 k34 k35 k36 k37 k38 k39 : BitVec 32) (b : BitVec 128) :
    twofish_s2_encrypt_block s0 s1 s2 s3 s4 s5 s6 s7 s8 s9 s10 s11 s12 s13 s14 s15 k0 k1 k2 k3 k4 k5 k6 k7 k8 k9 k10 k11 k12 k13 k14 k15 k16 k17 k18 k19 k20 k21 k22 k23 k24 k25 k26 k27 k28 k29 k30 k31 k32 k33 k34 k35 k36 k37 k38 k39 b = encE (gG2 s0 s1 s2 s3 s4 s5 s6 s7 s8 s9 s10 s11 s12 s13 s14 s15) k0 k1 k2 k3 k4 k5 k6 k7 k8 k9 k10 k11 k12 k13 k14 k15 k16 k17 k18 k19 k20 k21 k22 k23 k24 k25 k26 k27 k28 k29 k30 k31 k32 k33 k34 k35 k36 k37 k38 k39 b := by
  unfold twofish_s2_encrypt_block
  extract_lets -merge
  name_lets
  have R0 : encRoundE (gG2 s0 s1 s2 s3 s4 s5 s6 s7 s8 s9 s10 s11 s12 s13 s14 s15) k8 k9 k10 k11 ⟨p, p_1, p_2, p_3⟩ = ⟨p0, p1, p2, p3⟩ := rfl
  have R1 : encRoundE (gG2 s0 s1 s2 s3 s4 s5 s6 s7 s8 s9 s10 s11 s12 s13 s14 s15) k12 k13 k14 k15 ⟨p0, p1, p2, p3⟩ = ⟨p0_1, p1_1, p2_1, p3_1⟩ := rfl
  have R2 : encRoundE (gG2 s0 s1 s2 s3 s4 s5 s6 s7 s8 s9 s10 s11 s12 s13 s14 s15) k16 k17 k18 k19 ⟨p0_1, p1_1, p2_1, p3_1⟩ = ⟨p0_2, p1_2, p2_2, p3_2⟩ := rfl
  have R3 : encRoundE (gG2 s0 s1 s2 s3 s4 s5 s6 s7 s8 s9 s10 s11 s12 s13 s14 s15) k20 k21 k22 k23 ⟨p0_2, p1_2, p2_2, p3_2⟩ = ⟨p0_3, p1_3, p2_3, p3_3⟩ := rfl
  have R4 : encRoundE (gG2 s0 s1 s2 s3 s4 s5 s6 s7 s8 s9 s10 s11 s12 s13 s14 s15) k24 k25 k26 k27 ⟨p0_3, p1_3, p2_3, p3_3⟩ = ⟨p0_4, p1_4, p2_4, p3_4⟩ := rfl
  have R5 : encRoundE (gG2 s0 s1 s2 s3 s4 s5 s6 s7 s8 s9 s10 s11 s12 s13 s14 s15) k28 k29 k30 k31 ⟨p0_4, p1_4, p2_4, p3_4⟩ = ⟨p0_5, p1_5, p2_5, p3_5⟩ := rfl
  have R6 : encRoundE (gG2 s0 s1 s2 s3 s4 s5 s6 s7 s8 s9 s10 s11 s12 s13 s14 s15) k32 k33 k34 k35 ⟨p0_5, p1_5, p2_5, p3_5⟩ = ⟨p0_6, p1_6, p2_6, p3_6⟩ := rfl
  have R7 : encRoundE (gG2 s0 s1 s2 s3 s4 s5 s6 s7 s8 s9 s10 s11 s12 s13 s14 s15) k36 k37 k38 k39 ⟨p0_6, p1_6, p2_6, p3_6⟩ = ⟨p0_7, p1_7, p2_7, p3_7⟩ := rfl
  show _ = encE _ k0 k1 k2 k3 k4 k5 k6 k7 k8 k9 k10 k11 k12 k13 k14 k15 k16 k17 k18 k19 k20 k21 k22 k23 k24 k25 k26 k27 k28 k29 k30 k31 k32 k33 k34 k35 k36 k37 k38 k39 b
  unfold encE
  have I : St.mk (bw0 b ^^^ k0) (bw1 b ^^^ k1) (bw2 b ^^^ k2) (bw3 b ^^^ k3) = ⟨p, p_1, p_2, p_3⟩ := rfl
  rw [I, R0, R1, R2, R3, R4, R5, R6, R7]
  rfl

theorem s2_decrypt_G (s0 s1 s2 s3 s4 s5 s6 s7 s8 s9 s10 s11 s12 s13 s14 s15 : BitVec 8) (k0 k1 k2 k3 k4 k5 k6 k7 k8 k9 k10 k11 k12 k13 k14 k15 k16 k17 k18 k19 k20 k21 k22 k23 k24 k25 k26 k27 k28 k29 k30 k31 k32 k33 k34 k35 k36 k37 k38 k39 : BitVec 32) (b : BitVec 128) :
    twofish_s2_decrypt_block s0 s1 s2 s3 s4 s5 s6 s7 s8 s9 s10 s11 s12 s13 s14 s15 k0 k1 k2 k3 k4 k5 k6 k7 k8 k9 k10 k11 k12 k13 k14 k15 k16 k17 k18 k19 k20 k21 k22 k23 k24 k25 k26 k27 k28 k29 k30 k31 k32 k33 k34 k35 k36 k37 k38 k39 b = decE (gG2 s0 s1 s2 s3 s4 s5 s6 s7 s8 s9 s10 s11 s12 s13 s14 s15) k0 k1 k2 k3 k4 k5 k6 k7 k8 k9 k10 k11 k12 k13 k14 k15 k16 k17 k18 k19 k20 k21 k22 k23 k24 k25 k26 k27 k28 k29 k30 k31 k32 k33 k34 k35 k36 k37 k38 k39 b := by
  unfold twofish_s2_decrypt_block
  extract_lets -merge
  name_lets
  have R0 : decRoundE (gG2 s0 s1 s2 s3 s4 s5 s6 s7 s8 s9 s10 s11 s12 s13 s14 s15) k36 k37 k38 k39 ⟨(bw2 b ^^^ k6), (bw3 b ^^^ k7), (bw0 b ^^^ k4), (bw1 b ^^^ k5)⟩ = ⟨c0, c1, c2, c3⟩ := rfl
  have R1 : decRoundE (gG2 s0 s1 s2 s3 s4 s5 s6 s7 s8 s9 s10 s11 s12 s13 s14 s15) k32 k33 k34 k35 ⟨c0, c1, c2, c3⟩ = ⟨c0_1, c1_1, c2_1, c3_1⟩ := rfl
  have R2 : decRoundE (gG2 s0 s1 s2 s3 s4 s5 s6 s7 s8 s9 s10 s11 s12 s13 s14 s15) k28 k29 k30 k31 ⟨c0_1, c1_1, c2_1, c3_1⟩ = ⟨c0_2, c1_2, c2_2, c3_2⟩ := rfl
  have R3 : decRoundE (gG2 s0 s1 s2 s3 s4 s5 s6 s7 s8 s9 s10 s11 s12 s13 s14 s15) k24 k25 k26 k27 ⟨c0_2, c1_2, c2_2, c3_2⟩ = ⟨c0_3, c1_3, c2_3, c3_3⟩ := rfl
  have R4 : decRoundE (gG2 s0 s1 s2 s3 s4 s5 s6 s7 s8 s9 s10 s11 s12 s13 s14 s15) k20 k21 k22 k23 ⟨c0_3, c1_3, c2_3, c3_3⟩ = ⟨c0_4, c1_4, c2_4, c3_4⟩ := rfl
  have R5 : decRoundE (gG2 s0 s1 s2 s3 s4 s5 s6 s7 s8 s9 s10 s11 s12 s13 s14 s15) k16 k17 k18 k19 ⟨c0_4, c1_4, c2_4, c3_4⟩ = ⟨c0_5, c1_5, c2_5, c3_5⟩ := rfl
  have R6 : decRoundE (gG2 s0 s1 s2 s3 s4 s5 s6 s7 s8 s9 s10 s11 s12 s13 s14 s15) k12 k13 k14 k15 ⟨c0_5, c1_5, c2_5, c3_5⟩ = ⟨c0_6, c1_6, c2_6, c3_6⟩ := rfl
  have R7 : decRoundE (gG2 s0 s1 s2 s3 s4 s5 s6 s7 s8 s9 s10 s11 s12 s13 s14 s15) k8 k9 k10 k11 ⟨c0_6, c1_6, c2_6, c3_6⟩ = ⟨c0_7, c1_7, c2_7, c3_7⟩ := rfl
  show _ = decE _ k0 k1 k2 k3 k4 k5 k6 k7 k8 k9 k10 k11 k12 k13 k14 k15 k16 k17 k18 k19 k20 k21 k22 k23 k24 k25 k26 k27 k28 k29 k30 k31 k32 k33 k34 k35 k36 k37 k38 k39 b
  unfold decE
  rw [R0, R1, R2, R3, R4, R5, R6, R7]
  rfl

/-- the regenerated `Twofish::encrypt_block` with `start = 2` is the model's `encryptWith (gFunc self.s 2) self.k`, for all `s`, `k`, blocks -/
theorem s2_encrypt_block_eq (s0 s1 s2 s3 s4 s5 s6 s7 s8 s9 s10 s11 s12 s13 s14 s15 : BitVec 8) (k0 k1 k2 k3 k4 k5 k6 k7 k8 k9 k10 k11 k12 k13 k14 k15 k16 k17 k18 k19 k20 k21 k22 k23 k24 k25 k26 k27 k28 k29 k30 k31 k32 k33 k34 k35 k36 k37 k38 k39 : BitVec 32) (b : BitVec 128) :
    twofish_s2_encrypt_block s0 s1 s2 s3 s4 s5 s6 s7 s8 s9 s10 s11 s12 s13 s14 s15 k0 k1 k2 k3 k4 k5 k6 k7 k8 k9 k10 k11 k12 k13 k14 k15 k16 k17 k18 k19 k20 k21 k22 k23 k24 k25 k26 k27 k28 k29 k30 k31 k32 k33 k34 k35 k36 k37 k38 k39 b = encryptWith (gFunc #[s0, s1, s2, s3, s4, s5, s6, s7, s8, s9, s10, s11, s12, s13, s14, s15] 2) ⟨#[k0, k1, k2, k3, k4, k5, k6, k7, k8, k9, k10, k11, k12, k13, k14, k15, k16, k17, k18, k19, k20, k21, k22, k23, k24, k25, k26, k27, k28, k29, k30, k31, k32, k33, k34, k35, k36, k37, k38, k39], rfl⟩ b := by
  rw [s2_encrypt_G, encryptWith_eq, gG2_eq]

/-- the regenerated `Twofish::decrypt_block` with `start = 2` is the model's `decryptWith (gFunc self.s 2) self.k`, for all `s`, `k`, blocks -/
theorem s2_decrypt_block_eq (s0 s1 s2 s3 s4 s5 s6 s7 s8 s9 s10 s11 s12 s13 s14 s15 : BitVec 8) (k0 k1 k2 k3 k4 k5 k6 k7 k8 k9 k10 k11 k12 k13 k14 k15 k16 k17 k18 k19 k20 k21 k22 k23 k24 k25 k26 k27 k28 k29 k30 k31 k32 k33 k34 k35 k36 k37 k38 k39 : BitVec 32) (b : BitVec 128) :
    twofish_s2_decrypt_block s0 s1 s2 s3 s4 s5 s6 s7 s8 s9 s10 s11 s12 s13 s14 s15 k0 k1 k2 k3 k4 k5 k6 k7 k8 k9 k10 k11 k12 k13 k14 k15 k16 k17 k18 k19 k20 k21 k22 k23 k24 k25 k26 k27 k28 k29 k30 k31 k32 k33 k34 k35 k36 k37 k38 k39 b = decryptWith (gFunc #[s0, s1, s2, s3, s4, s5, s6, s7, s8, s9, s10, s11, s12, s13, s14, s15] 2) ⟨#[k0, k1, k2, k3, k4, k5, k6, k7, k8, k9, k10, k11, k12, k13, k14, k15, k16, k17, k18, k19, k20, k21, k22, k23, k24, k25, k26, k27, k28, k29, k30, k31, k32, k33, k34, k35, k36, k37, k38, k39], rfl⟩ b := by
  rw [s2_decrypt_G, decryptWith_eq, gG2_eq]

end BC.GenCipher.Twofish