import BlockCiphers.Proofs.AesFs64Cipher
import BlockCiphers.Proofs.AesFs64RoundTrip
/-!
Corollaries of `Proofs/AesFs64Cipher` for ARBITRARY round-key arrays `rk` (no assumption that they come
from the key schedule):

* `aesN_encrypt_any` / `aesN_decrypt_any`: lane `j` of the result is the FIPS-197 Cipher / InvCipher of
  lane `j` of the input under the lane-`j` keys `unfsKey … (rk r)`;
* C04 `…_lane_indep`: block `j` of a batch result depends only on block `j` of the input;
  `…_lane0`: it equals what `soft.rs::encrypt_block` computes (block in slot 0 of a zeroed batch);
* C01 for the single-block wrappers: `single dec ∘ single enc = id` and back;
* for lane-uniform keys (what the key schedules produce: the same key in all four lanes) a batch
  call is `Batch.map` of the single-block function.
-/
namespace BC.AesFs64
open BC.Spec.Aes

/-- the per-lane FIPS round keys that an arbitrary fixsliced key array stands for -/
def laneKeys (nr : Nat) (rk : Nat → St) (r : Nat) : Batch := unfsKey nr r (rk r)
def laneKeysC (rk : Nat → St) (r : Nat) : Batch := unfsKeyC r (rk r)

/-- all four lanes carry the same FIPS round keys `k` -/
def uniformKeys (k : Nat → BitVec 128) (r : Nat) : Batch := ⟨k r, k r, k r, k r⟩

theorem aes128_encrypt_any (rk : Nat → St) (b : Batch) :
    aes128_encrypt rk b =
      ⟨cipherK 10 (fun r => (laneKeys 10 rk r).b0) b.b0, cipherK 10 (fun r => (laneKeys 10 rk r).b1) b.b1,
       cipherK 10 (fun r => (laneKeys 10 rk r).b2) b.b2, cipherK 10 (fun r => (laneKeys 10 rk r).b3) b.b3⟩ :=
  aes128_encrypt_cipherK rk (laneKeys 10 rk) (fun r _ => (fsKey_unfsKey 10 r (rk r)).symm) b

/-- C04: block `j` of the result depends only on block `j` of the input (any round keys) -/
theorem aes128_encrypt_lane_indep (rk : Nat → St) (x y : Batch) :
    (x.b0 = y.b0 → (aes128_encrypt rk x).b0 = (aes128_encrypt rk y).b0) ∧ (x.b1 = y.b1 → (aes128_encrypt rk x).b1 = (aes128_encrypt rk y).b1) ∧
    (x.b2 = y.b2 → (aes128_encrypt rk x).b2 = (aes128_encrypt rk y).b2) ∧ (x.b3 = y.b3 → (aes128_encrypt rk x).b3 = (aes128_encrypt rk y).b3) := by
  rw [aes128_encrypt_any, aes128_encrypt_any]
  refine ⟨?_, ?_, ?_, ?_⟩ <;> intro h <;> simp only [h]

/-- C04: slot 0 of a batch call = `soft.rs` single-block call on that block -/
theorem aes128_encrypt_lane0 (rk : Nat → St) (b : Batch) : (aes128_encrypt rk b).b0 = single (aes128_encrypt rk) b.b0 := by
  rw [single, aes128_encrypt_any, aes128_encrypt_any]

/-- lane-uniform keys: the batch call is the single-block function in every lane (C04 `encs = map enc`) -/
theorem aes128_encrypt_uniform (rk : Nat → St) (k : Nat → BitVec 128)
    (h : ∀ r, r ≤ 10 → rk r = fsKey 10 r (uniformKeys k r)) (b : Batch) :
    aes128_encrypt rk b = b.map (cipherK 10 k) ∧ ∀ x, single (aes128_encrypt rk) x = cipherK 10 k x := by
  constructor
  · rw [aes128_encrypt_cipherK rk (uniformKeys k) h]; rfl
  · intro x; rw [single, aes128_encrypt_cipherK rk (uniformKeys k) h]; rfl

theorem aes128_decrypt_any (rk : Nat → St) (b : Batch) :
    aes128_decrypt rk b =
      ⟨invCipherK 10 (fun r => (laneKeys 10 rk r).b0) b.b0, invCipherK 10 (fun r => (laneKeys 10 rk r).b1) b.b1,
       invCipherK 10 (fun r => (laneKeys 10 rk r).b2) b.b2, invCipherK 10 (fun r => (laneKeys 10 rk r).b3) b.b3⟩ :=
  aes128_decrypt_invCipherK rk (laneKeys 10 rk) (fun r _ => (fsKey_unfsKey 10 r (rk r)).symm) b

/-- C04: block `j` of the result depends only on block `j` of the input (any round keys) -/
theorem aes128_decrypt_lane_indep (rk : Nat → St) (x y : Batch) :
    (x.b0 = y.b0 → (aes128_decrypt rk x).b0 = (aes128_decrypt rk y).b0) ∧ (x.b1 = y.b1 → (aes128_decrypt rk x).b1 = (aes128_decrypt rk y).b1) ∧
    (x.b2 = y.b2 → (aes128_decrypt rk x).b2 = (aes128_decrypt rk y).b2) ∧ (x.b3 = y.b3 → (aes128_decrypt rk x).b3 = (aes128_decrypt rk y).b3) := by
  rw [aes128_decrypt_any, aes128_decrypt_any]
  refine ⟨?_, ?_, ?_, ?_⟩ <;> intro h <;> simp only [h]

/-- C04: slot 0 of a batch call = `soft.rs` single-block call on that block -/
theorem aes128_decrypt_lane0 (rk : Nat → St) (b : Batch) : (aes128_decrypt rk b).b0 = single (aes128_decrypt rk) b.b0 := by
  rw [single, aes128_decrypt_any, aes128_decrypt_any]

/-- lane-uniform keys: the batch call is the single-block function in every lane (C04 `encs = map enc`) -/
theorem aes128_decrypt_uniform (rk : Nat → St) (k : Nat → BitVec 128)
    (h : ∀ r, r ≤ 10 → rk r = fsKey 10 r (uniformKeys k r)) (b : Batch) :
    aes128_decrypt rk b = b.map (invCipherK 10 k) ∧ ∀ x, single (aes128_decrypt rk) x = invCipherK 10 k x := by
  constructor
  · rw [aes128_decrypt_invCipherK rk (uniformKeys k) h]; rfl
  · intro x; rw [single, aes128_decrypt_invCipherK rk (uniformKeys k) h]; rfl

/-- C01 for `soft.rs::encrypt_block` / `decrypt_block` (any round keys) -/
theorem single_aes128_decrypt_aes128_encrypt (rk : Nat → St) (x : BitVec 128) :
    single (aes128_decrypt rk) (single (aes128_encrypt rk) x) = x := by
  have e := aes128_decrypt_aes128_encrypt rk ⟨x, 0, 0, 0⟩
  have h : single (aes128_decrypt rk) (single (aes128_encrypt rk) x) = (aes128_decrypt rk (aes128_encrypt rk ⟨x, 0, 0, 0⟩)).b0 := by
    unfold single; rw [aes128_decrypt_any, aes128_decrypt_any]
  rw [h, e]

theorem single_aes128_encrypt_aes128_decrypt (rk : Nat → St) (x : BitVec 128) :
    single (aes128_encrypt rk) (single (aes128_decrypt rk) x) = x := by
  have e := aes128_encrypt_aes128_decrypt rk ⟨x, 0, 0, 0⟩
  have h : single (aes128_encrypt rk) (single (aes128_decrypt rk) x) = (aes128_encrypt rk (aes128_decrypt rk ⟨x, 0, 0, 0⟩)).b0 := by
    unfold single; rw [aes128_encrypt_any, aes128_encrypt_any]
  rw [h, e]

theorem aes128_encrypt_compact_any (rk : Nat → St) (b : Batch) :
    aes128_encrypt_compact rk b =
      ⟨cipherK 10 (fun r => (laneKeysC rk r).b0) b.b0, cipherK 10 (fun r => (laneKeysC rk r).b1) b.b1,
       cipherK 10 (fun r => (laneKeysC rk r).b2) b.b2, cipherK 10 (fun r => (laneKeysC rk r).b3) b.b3⟩ :=
  aes128_encrypt_compact_cipherK rk (laneKeysC rk) (fun r _ => (fsKeyC_unfsKeyC r (rk r)).symm) b

/-- C04: block `j` of the result depends only on block `j` of the input (any round keys) -/
theorem aes128_encrypt_compact_lane_indep (rk : Nat → St) (x y : Batch) :
    (x.b0 = y.b0 → (aes128_encrypt_compact rk x).b0 = (aes128_encrypt_compact rk y).b0) ∧ (x.b1 = y.b1 → (aes128_encrypt_compact rk x).b1 = (aes128_encrypt_compact rk y).b1) ∧
    (x.b2 = y.b2 → (aes128_encrypt_compact rk x).b2 = (aes128_encrypt_compact rk y).b2) ∧ (x.b3 = y.b3 → (aes128_encrypt_compact rk x).b3 = (aes128_encrypt_compact rk y).b3) := by
  rw [aes128_encrypt_compact_any, aes128_encrypt_compact_any]
  refine ⟨?_, ?_, ?_, ?_⟩ <;> intro h <;> simp only [h]

/-- C04: slot 0 of a batch call = `soft.rs` single-block call on that block -/
theorem aes128_encrypt_compact_lane0 (rk : Nat → St) (b : Batch) : (aes128_encrypt_compact rk b).b0 = single (aes128_encrypt_compact rk) b.b0 := by
  rw [single, aes128_encrypt_compact_any, aes128_encrypt_compact_any]

/-- lane-uniform keys: the batch call is the single-block function in every lane (C04 `encs = map enc`) -/
theorem aes128_encrypt_compact_uniform (rk : Nat → St) (k : Nat → BitVec 128)
    (h : ∀ r, r ≤ 10 → rk r = fsKeyC r (uniformKeys k r)) (b : Batch) :
    aes128_encrypt_compact rk b = b.map (cipherK 10 k) ∧ ∀ x, single (aes128_encrypt_compact rk) x = cipherK 10 k x := by
  constructor
  · rw [aes128_encrypt_compact_cipherK rk (uniformKeys k) h]; rfl
  · intro x; rw [single, aes128_encrypt_compact_cipherK rk (uniformKeys k) h]; rfl

theorem aes128_decrypt_compact_any (rk : Nat → St) (b : Batch) :
    aes128_decrypt_compact rk b =
      ⟨invCipherK 10 (fun r => (laneKeysC rk r).b0) b.b0, invCipherK 10 (fun r => (laneKeysC rk r).b1) b.b1,
       invCipherK 10 (fun r => (laneKeysC rk r).b2) b.b2, invCipherK 10 (fun r => (laneKeysC rk r).b3) b.b3⟩ :=
  aes128_decrypt_compact_invCipherK rk (laneKeysC rk) (fun r _ => (fsKeyC_unfsKeyC r (rk r)).symm) b

/-- C04: block `j` of the result depends only on block `j` of the input (any round keys) -/
theorem aes128_decrypt_compact_lane_indep (rk : Nat → St) (x y : Batch) :
    (x.b0 = y.b0 → (aes128_decrypt_compact rk x).b0 = (aes128_decrypt_compact rk y).b0) ∧ (x.b1 = y.b1 → (aes128_decrypt_compact rk x).b1 = (aes128_decrypt_compact rk y).b1) ∧
    (x.b2 = y.b2 → (aes128_decrypt_compact rk x).b2 = (aes128_decrypt_compact rk y).b2) ∧ (x.b3 = y.b3 → (aes128_decrypt_compact rk x).b3 = (aes128_decrypt_compact rk y).b3) := by
  rw [aes128_decrypt_compact_any, aes128_decrypt_compact_any]
  refine ⟨?_, ?_, ?_, ?_⟩ <;> intro h <;> simp only [h]

/-- C04: slot 0 of a batch call = `soft.rs` single-block call on that block -/
theorem aes128_decrypt_compact_lane0 (rk : Nat → St) (b : Batch) : (aes128_decrypt_compact rk b).b0 = single (aes128_decrypt_compact rk) b.b0 := by
  rw [single, aes128_decrypt_compact_any, aes128_decrypt_compact_any]

/-- lane-uniform keys: the batch call is the single-block function in every lane (C04 `encs = map enc`) -/
theorem aes128_decrypt_compact_uniform (rk : Nat → St) (k : Nat → BitVec 128)
    (h : ∀ r, r ≤ 10 → rk r = fsKeyC r (uniformKeys k r)) (b : Batch) :
    aes128_decrypt_compact rk b = b.map (invCipherK 10 k) ∧ ∀ x, single (aes128_decrypt_compact rk) x = invCipherK 10 k x := by
  constructor
  · rw [aes128_decrypt_compact_invCipherK rk (uniformKeys k) h]; rfl
  · intro x; rw [single, aes128_decrypt_compact_invCipherK rk (uniformKeys k) h]; rfl

/-- C01 for `soft.rs::encrypt_block` / `decrypt_block` (any round keys) -/
theorem single_aes128_decrypt_compact_aes128_encrypt_compact (rk : Nat → St) (x : BitVec 128) :
    single (aes128_decrypt_compact rk) (single (aes128_encrypt_compact rk) x) = x := by
  have e := aes128_decrypt_compact_aes128_encrypt_compact rk ⟨x, 0, 0, 0⟩
  have h : single (aes128_decrypt_compact rk) (single (aes128_encrypt_compact rk) x) = (aes128_decrypt_compact rk (aes128_encrypt_compact rk ⟨x, 0, 0, 0⟩)).b0 := by
    unfold single; rw [aes128_decrypt_compact_any, aes128_decrypt_compact_any]
  rw [h, e]

theorem single_aes128_encrypt_compact_aes128_decrypt_compact (rk : Nat → St) (x : BitVec 128) :
    single (aes128_encrypt_compact rk) (single (aes128_decrypt_compact rk) x) = x := by
  have e := aes128_encrypt_compact_aes128_decrypt_compact rk ⟨x, 0, 0, 0⟩
  have h : single (aes128_encrypt_compact rk) (single (aes128_decrypt_compact rk) x) = (aes128_encrypt_compact rk (aes128_decrypt_compact rk ⟨x, 0, 0, 0⟩)).b0 := by
    unfold single; rw [aes128_encrypt_compact_any, aes128_encrypt_compact_any]
  rw [h, e]

theorem aes192_encrypt_any (rk : Nat → St) (b : Batch) :
    aes192_encrypt rk b =
      ⟨cipherK 12 (fun r => (laneKeys 12 rk r).b0) b.b0, cipherK 12 (fun r => (laneKeys 12 rk r).b1) b.b1,
       cipherK 12 (fun r => (laneKeys 12 rk r).b2) b.b2, cipherK 12 (fun r => (laneKeys 12 rk r).b3) b.b3⟩ :=
  aes192_encrypt_cipherK rk (laneKeys 12 rk) (fun r _ => (fsKey_unfsKey 12 r (rk r)).symm) b

/-- C04: block `j` of the result depends only on block `j` of the input (any round keys) -/
theorem aes192_encrypt_lane_indep (rk : Nat → St) (x y : Batch) :
    (x.b0 = y.b0 → (aes192_encrypt rk x).b0 = (aes192_encrypt rk y).b0) ∧ (x.b1 = y.b1 → (aes192_encrypt rk x).b1 = (aes192_encrypt rk y).b1) ∧
    (x.b2 = y.b2 → (aes192_encrypt rk x).b2 = (aes192_encrypt rk y).b2) ∧ (x.b3 = y.b3 → (aes192_encrypt rk x).b3 = (aes192_encrypt rk y).b3) := by
  rw [aes192_encrypt_any, aes192_encrypt_any]
  refine ⟨?_, ?_, ?_, ?_⟩ <;> intro h <;> simp only [h]

/-- C04: slot 0 of a batch call = `soft.rs` single-block call on that block -/
theorem aes192_encrypt_lane0 (rk : Nat → St) (b : Batch) : (aes192_encrypt rk b).b0 = single (aes192_encrypt rk) b.b0 := by
  rw [single, aes192_encrypt_any, aes192_encrypt_any]

/-- lane-uniform keys: the batch call is the single-block function in every lane (C04 `encs = map enc`) -/
theorem aes192_encrypt_uniform (rk : Nat → St) (k : Nat → BitVec 128)
    (h : ∀ r, r ≤ 12 → rk r = fsKey 12 r (uniformKeys k r)) (b : Batch) :
    aes192_encrypt rk b = b.map (cipherK 12 k) ∧ ∀ x, single (aes192_encrypt rk) x = cipherK 12 k x := by
  constructor
  · rw [aes192_encrypt_cipherK rk (uniformKeys k) h]; rfl
  · intro x; rw [single, aes192_encrypt_cipherK rk (uniformKeys k) h]; rfl

theorem aes192_decrypt_any (rk : Nat → St) (b : Batch) :
    aes192_decrypt rk b =
      ⟨invCipherK 12 (fun r => (laneKeys 12 rk r).b0) b.b0, invCipherK 12 (fun r => (laneKeys 12 rk r).b1) b.b1,
       invCipherK 12 (fun r => (laneKeys 12 rk r).b2) b.b2, invCipherK 12 (fun r => (laneKeys 12 rk r).b3) b.b3⟩ :=
  aes192_decrypt_invCipherK rk (laneKeys 12 rk) (fun r _ => (fsKey_unfsKey 12 r (rk r)).symm) b

/-- C04: block `j` of the result depends only on block `j` of the input (any round keys) -/
theorem aes192_decrypt_lane_indep (rk : Nat → St) (x y : Batch) :
    (x.b0 = y.b0 → (aes192_decrypt rk x).b0 = (aes192_decrypt rk y).b0) ∧ (x.b1 = y.b1 → (aes192_decrypt rk x).b1 = (aes192_decrypt rk y).b1) ∧
    (x.b2 = y.b2 → (aes192_decrypt rk x).b2 = (aes192_decrypt rk y).b2) ∧ (x.b3 = y.b3 → (aes192_decrypt rk x).b3 = (aes192_decrypt rk y).b3) := by
  rw [aes192_decrypt_any, aes192_decrypt_any]
  refine ⟨?_, ?_, ?_, ?_⟩ <;> intro h <;> simp only [h]

/-- C04: slot 0 of a batch call = `soft.rs` single-block call on that block -/
theorem aes192_decrypt_lane0 (rk : Nat → St) (b : Batch) : (aes192_decrypt rk b).b0 = single (aes192_decrypt rk) b.b0 := by
  rw [single, aes192_decrypt_any, aes192_decrypt_any]

/-- lane-uniform keys: the batch call is the single-block function in every lane (C04 `encs = map enc`) -/
theorem aes192_decrypt_uniform (rk : Nat → St) (k : Nat → BitVec 128)
    (h : ∀ r, r ≤ 12 → rk r = fsKey 12 r (uniformKeys k r)) (b : Batch) :
    aes192_decrypt rk b = b.map (invCipherK 12 k) ∧ ∀ x, single (aes192_decrypt rk) x = invCipherK 12 k x := by
  constructor
  · rw [aes192_decrypt_invCipherK rk (uniformKeys k) h]; rfl
  · intro x; rw [single, aes192_decrypt_invCipherK rk (uniformKeys k) h]; rfl

/-- C01 for `soft.rs::encrypt_block` / `decrypt_block` (any round keys) -/
theorem single_aes192_decrypt_aes192_encrypt (rk : Nat → St) (x : BitVec 128) :
    single (aes192_decrypt rk) (single (aes192_encrypt rk) x) = x := by
  have e := aes192_decrypt_aes192_encrypt rk ⟨x, 0, 0, 0⟩
  have h : single (aes192_decrypt rk) (single (aes192_encrypt rk) x) = (aes192_decrypt rk (aes192_encrypt rk ⟨x, 0, 0, 0⟩)).b0 := by
    unfold single; rw [aes192_decrypt_any, aes192_decrypt_any]
  rw [h, e]

theorem single_aes192_encrypt_aes192_decrypt (rk : Nat → St) (x : BitVec 128) :
    single (aes192_encrypt rk) (single (aes192_decrypt rk) x) = x := by
  have e := aes192_encrypt_aes192_decrypt rk ⟨x, 0, 0, 0⟩
  have h : single (aes192_encrypt rk) (single (aes192_decrypt rk) x) = (aes192_encrypt rk (aes192_decrypt rk ⟨x, 0, 0, 0⟩)).b0 := by
    unfold single; rw [aes192_encrypt_any, aes192_encrypt_any]
  rw [h, e]

theorem aes192_encrypt_compact_any (rk : Nat → St) (b : Batch) :
    aes192_encrypt_compact rk b =
      ⟨cipherK 12 (fun r => (laneKeysC rk r).b0) b.b0, cipherK 12 (fun r => (laneKeysC rk r).b1) b.b1,
       cipherK 12 (fun r => (laneKeysC rk r).b2) b.b2, cipherK 12 (fun r => (laneKeysC rk r).b3) b.b3⟩ :=
  aes192_encrypt_compact_cipherK rk (laneKeysC rk) (fun r _ => (fsKeyC_unfsKeyC r (rk r)).symm) b

/-- C04: block `j` of the result depends only on block `j` of the input (any round keys) -/
theorem aes192_encrypt_compact_lane_indep (rk : Nat → St) (x y : Batch) :
    (x.b0 = y.b0 → (aes192_encrypt_compact rk x).b0 = (aes192_encrypt_compact rk y).b0) ∧ (x.b1 = y.b1 → (aes192_encrypt_compact rk x).b1 = (aes192_encrypt_compact rk y).b1) ∧
    (x.b2 = y.b2 → (aes192_encrypt_compact rk x).b2 = (aes192_encrypt_compact rk y).b2) ∧ (x.b3 = y.b3 → (aes192_encrypt_compact rk x).b3 = (aes192_encrypt_compact rk y).b3) := by
  rw [aes192_encrypt_compact_any, aes192_encrypt_compact_any]
  refine ⟨?_, ?_, ?_, ?_⟩ <;> intro h <;> simp only [h]

/-- C04: slot 0 of a batch call = `soft.rs` single-block call on that block -/
theorem aes192_encrypt_compact_lane0 (rk : Nat → St) (b : Batch) : (aes192_encrypt_compact rk b).b0 = single (aes192_encrypt_compact rk) b.b0 := by
  rw [single, aes192_encrypt_compact_any, aes192_encrypt_compact_any]

/-- lane-uniform keys: the batch call is the single-block function in every lane (C04 `encs = map enc`) -/
theorem aes192_encrypt_compact_uniform (rk : Nat → St) (k : Nat → BitVec 128)
    (h : ∀ r, r ≤ 12 → rk r = fsKeyC r (uniformKeys k r)) (b : Batch) :
    aes192_encrypt_compact rk b = b.map (cipherK 12 k) ∧ ∀ x, single (aes192_encrypt_compact rk) x = cipherK 12 k x := by
  constructor
  · rw [aes192_encrypt_compact_cipherK rk (uniformKeys k) h]; rfl
  · intro x; rw [single, aes192_encrypt_compact_cipherK rk (uniformKeys k) h]; rfl

theorem aes192_decrypt_compact_any (rk : Nat → St) (b : Batch) :
    aes192_decrypt_compact rk b =
      ⟨invCipherK 12 (fun r => (laneKeysC rk r).b0) b.b0, invCipherK 12 (fun r => (laneKeysC rk r).b1) b.b1,
       invCipherK 12 (fun r => (laneKeysC rk r).b2) b.b2, invCipherK 12 (fun r => (laneKeysC rk r).b3) b.b3⟩ :=
  aes192_decrypt_compact_invCipherK rk (laneKeysC rk) (fun r _ => (fsKeyC_unfsKeyC r (rk r)).symm) b

/-- C04: block `j` of the result depends only on block `j` of the input (any round keys) -/
theorem aes192_decrypt_compact_lane_indep (rk : Nat → St) (x y : Batch) :
    (x.b0 = y.b0 → (aes192_decrypt_compact rk x).b0 = (aes192_decrypt_compact rk y).b0) ∧ (x.b1 = y.b1 → (aes192_decrypt_compact rk x).b1 = (aes192_decrypt_compact rk y).b1) ∧
    (x.b2 = y.b2 → (aes192_decrypt_compact rk x).b2 = (aes192_decrypt_compact rk y).b2) ∧ (x.b3 = y.b3 → (aes192_decrypt_compact rk x).b3 = (aes192_decrypt_compact rk y).b3) := by
  rw [aes192_decrypt_compact_any, aes192_decrypt_compact_any]
  refine ⟨?_, ?_, ?_, ?_⟩ <;> intro h <;> simp only [h]

/-- C04: slot 0 of a batch call = `soft.rs` single-block call on that block -/
theorem aes192_decrypt_compact_lane0 (rk : Nat → St) (b : Batch) : (aes192_decrypt_compact rk b).b0 = single (aes192_decrypt_compact rk) b.b0 := by
  rw [single, aes192_decrypt_compact_any, aes192_decrypt_compact_any]

/-- lane-uniform keys: the batch call is the single-block function in every lane (C04 `encs = map enc`) -/
theorem aes192_decrypt_compact_uniform (rk : Nat → St) (k : Nat → BitVec 128)
    (h : ∀ r, r ≤ 12 → rk r = fsKeyC r (uniformKeys k r)) (b : Batch) :
    aes192_decrypt_compact rk b = b.map (invCipherK 12 k) ∧ ∀ x, single (aes192_decrypt_compact rk) x = invCipherK 12 k x := by
  constructor
  · rw [aes192_decrypt_compact_invCipherK rk (uniformKeys k) h]; rfl
  · intro x; rw [single, aes192_decrypt_compact_invCipherK rk (uniformKeys k) h]; rfl

/-- C01 for `soft.rs::encrypt_block` / `decrypt_block` (any round keys) -/
theorem single_aes192_decrypt_compact_aes192_encrypt_compact (rk : Nat → St) (x : BitVec 128) :
    single (aes192_decrypt_compact rk) (single (aes192_encrypt_compact rk) x) = x := by
  have e := aes192_decrypt_compact_aes192_encrypt_compact rk ⟨x, 0, 0, 0⟩
  have h : single (aes192_decrypt_compact rk) (single (aes192_encrypt_compact rk) x) = (aes192_decrypt_compact rk (aes192_encrypt_compact rk ⟨x, 0, 0, 0⟩)).b0 := by
    unfold single; rw [aes192_decrypt_compact_any, aes192_decrypt_compact_any]
  rw [h, e]

theorem single_aes192_encrypt_compact_aes192_decrypt_compact (rk : Nat → St) (x : BitVec 128) :
    single (aes192_encrypt_compact rk) (single (aes192_decrypt_compact rk) x) = x := by
  have e := aes192_encrypt_compact_aes192_decrypt_compact rk ⟨x, 0, 0, 0⟩
  have h : single (aes192_encrypt_compact rk) (single (aes192_decrypt_compact rk) x) = (aes192_encrypt_compact rk (aes192_decrypt_compact rk ⟨x, 0, 0, 0⟩)).b0 := by
    unfold single; rw [aes192_encrypt_compact_any, aes192_encrypt_compact_any]
  rw [h, e]

theorem aes256_encrypt_any (rk : Nat → St) (b : Batch) :
    aes256_encrypt rk b =
      ⟨cipherK 14 (fun r => (laneKeys 14 rk r).b0) b.b0, cipherK 14 (fun r => (laneKeys 14 rk r).b1) b.b1,
       cipherK 14 (fun r => (laneKeys 14 rk r).b2) b.b2, cipherK 14 (fun r => (laneKeys 14 rk r).b3) b.b3⟩ :=
  aes256_encrypt_cipherK rk (laneKeys 14 rk) (fun r _ => (fsKey_unfsKey 14 r (rk r)).symm) b

/-- C04: block `j` of the result depends only on block `j` of the input (any round keys) -/
theorem aes256_encrypt_lane_indep (rk : Nat → St) (x y : Batch) :
    (x.b0 = y.b0 → (aes256_encrypt rk x).b0 = (aes256_encrypt rk y).b0) ∧ (x.b1 = y.b1 → (aes256_encrypt rk x).b1 = (aes256_encrypt rk y).b1) ∧
    (x.b2 = y.b2 → (aes256_encrypt rk x).b2 = (aes256_encrypt rk y).b2) ∧ (x.b3 = y.b3 → (aes256_encrypt rk x).b3 = (aes256_encrypt rk y).b3) := by
  rw [aes256_encrypt_any, aes256_encrypt_any]
  refine ⟨?_, ?_, ?_, ?_⟩ <;> intro h <;> simp only [h]

/-- C04: slot 0 of a batch call = `soft.rs` single-block call on that block -/
theorem aes256_encrypt_lane0 (rk : Nat → St) (b : Batch) : (aes256_encrypt rk b).b0 = single (aes256_encrypt rk) b.b0 := by
  rw [single, aes256_encrypt_any, aes256_encrypt_any]

/-- lane-uniform keys: the batch call is the single-block function in every lane (C04 `encs = map enc`) -/
theorem aes256_encrypt_uniform (rk : Nat → St) (k : Nat → BitVec 128)
    (h : ∀ r, r ≤ 14 → rk r = fsKey 14 r (uniformKeys k r)) (b : Batch) :
    aes256_encrypt rk b = b.map (cipherK 14 k) ∧ ∀ x, single (aes256_encrypt rk) x = cipherK 14 k x := by
  constructor
  · rw [aes256_encrypt_cipherK rk (uniformKeys k) h]; rfl
  · intro x; rw [single, aes256_encrypt_cipherK rk (uniformKeys k) h]; rfl

theorem aes256_decrypt_any (rk : Nat → St) (b : Batch) :
    aes256_decrypt rk b =
      ⟨invCipherK 14 (fun r => (laneKeys 14 rk r).b0) b.b0, invCipherK 14 (fun r => (laneKeys 14 rk r).b1) b.b1,
       invCipherK 14 (fun r => (laneKeys 14 rk r).b2) b.b2, invCipherK 14 (fun r => (laneKeys 14 rk r).b3) b.b3⟩ :=
  aes256_decrypt_invCipherK rk (laneKeys 14 rk) (fun r _ => (fsKey_unfsKey 14 r (rk r)).symm) b

/-- C04: block `j` of the result depends only on block `j` of the input (any round keys) -/
theorem aes256_decrypt_lane_indep (rk : Nat → St) (x y : Batch) :
    (x.b0 = y.b0 → (aes256_decrypt rk x).b0 = (aes256_decrypt rk y).b0) ∧ (x.b1 = y.b1 → (aes256_decrypt rk x).b1 = (aes256_decrypt rk y).b1) ∧
    (x.b2 = y.b2 → (aes256_decrypt rk x).b2 = (aes256_decrypt rk y).b2) ∧ (x.b3 = y.b3 → (aes256_decrypt rk x).b3 = (aes256_decrypt rk y).b3) := by
  rw [aes256_decrypt_any, aes256_decrypt_any]
  refine ⟨?_, ?_, ?_, ?_⟩ <;> intro h <;> simp only [h]

/-- C04: slot 0 of a batch call = `soft.rs` single-block call on that block -/
theorem aes256_decrypt_lane0 (rk : Nat → St) (b : Batch) : (aes256_decrypt rk b).b0 = single (aes256_decrypt rk) b.b0 := by
  rw [single, aes256_decrypt_any, aes256_decrypt_any]

/-- lane-uniform keys: the batch call is the single-block function in every lane (C04 `encs = map enc`) -/
theorem aes256_decrypt_uniform (rk : Nat → St) (k : Nat → BitVec 128)
    (h : ∀ r, r ≤ 14 → rk r = fsKey 14 r (uniformKeys k r)) (b : Batch) :
    aes256_decrypt rk b = b.map (invCipherK 14 k) ∧ ∀ x, single (aes256_decrypt rk) x = invCipherK 14 k x := by
  constructor
  · rw [aes256_decrypt_invCipherK rk (uniformKeys k) h]; rfl
  · intro x; rw [single, aes256_decrypt_invCipherK rk (uniformKeys k) h]; rfl

/-- C01 for `soft.rs::encrypt_block` / `decrypt_block` (any round keys) -/
theorem single_aes256_decrypt_aes256_encrypt (rk : Nat → St) (x : BitVec 128) :
    single (aes256_decrypt rk) (single (aes256_encrypt rk) x) = x := by
  have e := aes256_decrypt_aes256_encrypt rk ⟨x, 0, 0, 0⟩
  have h : single (aes256_decrypt rk) (single (aes256_encrypt rk) x) = (aes256_decrypt rk (aes256_encrypt rk ⟨x, 0, 0, 0⟩)).b0 := by
    unfold single; rw [aes256_decrypt_any, aes256_decrypt_any]
  rw [h, e]

theorem single_aes256_encrypt_aes256_decrypt (rk : Nat → St) (x : BitVec 128) :
    single (aes256_encrypt rk) (single (aes256_decrypt rk) x) = x := by
  have e := aes256_encrypt_aes256_decrypt rk ⟨x, 0, 0, 0⟩
  have h : single (aes256_encrypt rk) (single (aes256_decrypt rk) x) = (aes256_encrypt rk (aes256_decrypt rk ⟨x, 0, 0, 0⟩)).b0 := by
    unfold single; rw [aes256_encrypt_any, aes256_encrypt_any]
  rw [h, e]

theorem aes256_encrypt_compact_any (rk : Nat → St) (b : Batch) :
    aes256_encrypt_compact rk b =
      ⟨cipherK 14 (fun r => (laneKeysC rk r).b0) b.b0, cipherK 14 (fun r => (laneKeysC rk r).b1) b.b1,
       cipherK 14 (fun r => (laneKeysC rk r).b2) b.b2, cipherK 14 (fun r => (laneKeysC rk r).b3) b.b3⟩ :=
  aes256_encrypt_compact_cipherK rk (laneKeysC rk) (fun r _ => (fsKeyC_unfsKeyC r (rk r)).symm) b

/-- C04: block `j` of the result depends only on block `j` of the input (any round keys) -/
theorem aes256_encrypt_compact_lane_indep (rk : Nat → St) (x y : Batch) :
    (x.b0 = y.b0 → (aes256_encrypt_compact rk x).b0 = (aes256_encrypt_compact rk y).b0) ∧ (x.b1 = y.b1 → (aes256_encrypt_compact rk x).b1 = (aes256_encrypt_compact rk y).b1) ∧
    (x.b2 = y.b2 → (aes256_encrypt_compact rk x).b2 = (aes256_encrypt_compact rk y).b2) ∧ (x.b3 = y.b3 → (aes256_encrypt_compact rk x).b3 = (aes256_encrypt_compact rk y).b3) := by
  rw [aes256_encrypt_compact_any, aes256_encrypt_compact_any]
  refine ⟨?_, ?_, ?_, ?_⟩ <;> intro h <;> simp only [h]

/-- C04: slot 0 of a batch call = `soft.rs` single-block call on that block -/
theorem aes256_encrypt_compact_lane0 (rk : Nat → St) (b : Batch) : (aes256_encrypt_compact rk b).b0 = single (aes256_encrypt_compact rk) b.b0 := by
  rw [single, aes256_encrypt_compact_any, aes256_encrypt_compact_any]

/-- lane-uniform keys: the batch call is the single-block function in every lane (C04 `encs = map enc`) -/
theorem aes256_encrypt_compact_uniform (rk : Nat → St) (k : Nat → BitVec 128)
    (h : ∀ r, r ≤ 14 → rk r = fsKeyC r (uniformKeys k r)) (b : Batch) :
    aes256_encrypt_compact rk b = b.map (cipherK 14 k) ∧ ∀ x, single (aes256_encrypt_compact rk) x = cipherK 14 k x := by
  constructor
  · rw [aes256_encrypt_compact_cipherK rk (uniformKeys k) h]; rfl
  · intro x; rw [single, aes256_encrypt_compact_cipherK rk (uniformKeys k) h]; rfl

theorem aes256_decrypt_compact_any (rk : Nat → St) (b : Batch) :
    aes256_decrypt_compact rk b =
      ⟨invCipherK 14 (fun r => (laneKeysC rk r).b0) b.b0, invCipherK 14 (fun r => (laneKeysC rk r).b1) b.b1,
       invCipherK 14 (fun r => (laneKeysC rk r).b2) b.b2, invCipherK 14 (fun r => (laneKeysC rk r).b3) b.b3⟩ :=
  aes256_decrypt_compact_invCipherK rk (laneKeysC rk) (fun r _ => (fsKeyC_unfsKeyC r (rk r)).symm) b

/-- C04: block `j` of the result depends only on block `j` of the input (any round keys) -/
theorem aes256_decrypt_compact_lane_indep (rk : Nat → St) (x y : Batch) :
    (x.b0 = y.b0 → (aes256_decrypt_compact rk x).b0 = (aes256_decrypt_compact rk y).b0) ∧ (x.b1 = y.b1 → (aes256_decrypt_compact rk x).b1 = (aes256_decrypt_compact rk y).b1) ∧
    (x.b2 = y.b2 → (aes256_decrypt_compact rk x).b2 = (aes256_decrypt_compact rk y).b2) ∧ (x.b3 = y.b3 → (aes256_decrypt_compact rk x).b3 = (aes256_decrypt_compact rk y).b3) := by
  rw [aes256_decrypt_compact_any, aes256_decrypt_compact_any]
  refine ⟨?_, ?_, ?_, ?_⟩ <;> intro h <;> simp only [h]

/-- C04: slot 0 of a batch call = `soft.rs` single-block call on that block -/
theorem aes256_decrypt_compact_lane0 (rk : Nat → St) (b : Batch) : (aes256_decrypt_compact rk b).b0 = single (aes256_decrypt_compact rk) b.b0 := by
  rw [single, aes256_decrypt_compact_any, aes256_decrypt_compact_any]

/-- lane-uniform keys: the batch call is the single-block function in every lane (C04 `encs = map enc`) -/
theorem aes256_decrypt_compact_uniform (rk : Nat → St) (k : Nat → BitVec 128)
    (h : ∀ r, r ≤ 14 → rk r = fsKeyC r (uniformKeys k r)) (b : Batch) :
    aes256_decrypt_compact rk b = b.map (invCipherK 14 k) ∧ ∀ x, single (aes256_decrypt_compact rk) x = invCipherK 14 k x := by
  constructor
  · rw [aes256_decrypt_compact_invCipherK rk (uniformKeys k) h]; rfl
  · intro x; rw [single, aes256_decrypt_compact_invCipherK rk (uniformKeys k) h]; rfl

/-- C01 for `soft.rs::encrypt_block` / `decrypt_block` (any round keys) -/
theorem single_aes256_decrypt_compact_aes256_encrypt_compact (rk : Nat → St) (x : BitVec 128) :
    single (aes256_decrypt_compact rk) (single (aes256_encrypt_compact rk) x) = x := by
  have e := aes256_decrypt_compact_aes256_encrypt_compact rk ⟨x, 0, 0, 0⟩
  have h : single (aes256_decrypt_compact rk) (single (aes256_encrypt_compact rk) x) = (aes256_decrypt_compact rk (aes256_encrypt_compact rk ⟨x, 0, 0, 0⟩)).b0 := by
    unfold single; rw [aes256_decrypt_compact_any, aes256_decrypt_compact_any]
  rw [h, e]

theorem single_aes256_encrypt_compact_aes256_decrypt_compact (rk : Nat → St) (x : BitVec 128) :
    single (aes256_encrypt_compact rk) (single (aes256_decrypt_compact rk) x) = x := by
  have e := aes256_encrypt_compact_aes256_decrypt_compact rk ⟨x, 0, 0, 0⟩
  have h : single (aes256_encrypt_compact rk) (single (aes256_decrypt_compact rk) x) = (aes256_encrypt_compact rk (aes256_decrypt_compact rk ⟨x, 0, 0, 0⟩)).b0 := by
    unfold single; rw [aes256_encrypt_compact_any, aes256_encrypt_compact_any]
  rw [h, e]

end BC.AesFs64
