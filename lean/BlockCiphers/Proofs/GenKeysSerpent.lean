import BlockCiphers.Gen.Keys_Serpent
import BlockCiphers.Impl.Serpent
import Std.Tactic.BVDecide
/-
Tie of the regenerated constructors `Serpent::new_from_slice` (key lengths 16, 17, 19, 24, 31, 32 bytes;
`Gen/Keys_Serpent.lean`) to the key schedule `BC.Serpent.keySchedule` of `Impl/Serpent.lean`, for ALL keys.

Structure:
 1. `W k i` : the prekey recurrence (`words[i]`, PHI, `rotate_left(11)`) as a function of the slot; `ws_get` proves by
    induction over the `for i in 0..132` loop of the model that `prekeys ek` holds `W (leWord ek)` in every slot
    (generic in the expanded key `ek`).  `keySchedule_eq` / `get_ks`: round key `i` of the model is
    `rkW (leWord (expandKey key (8*len))) i` = `apply_s((32+3-i) % 32, W[8+4i .. 8+4i+4])`.
 2. per key length `n`: `pad<n>_<i>` : word `i` of the padded key ("append bit 1 then zeros") of `unpackBE n key` is the
    byte concatenation / constant that the regenerated text uses (`bv_decide`, 32-bit glue only).
 3. `new_from_slice_<n>_eq` : unfolding the regenerated text and the model (`W_step` at the 132 literal slots, the S-box
    circuits of the model) gives syntactically the same term (`simp only`, closed by reflexivity; `x ^^^ 0` is removed on
    both sides).
-/
namespace BC.GenKeys.Serpent
open BC.Gen.Fn BC.Serpent
set_option maxRecDepth 100000
set_option linter.unusedSimpArgs false

/-- the prekey recurrence of `new_from_slice` as a function of the slot (`words[i]`, `i < 140`) -/
def W (k : Nat → BitVec 32) (i : Nat) : BitVec 32 :=
  if _h : i < 8 then k i else
    (W k (i - 8) ^^^ W k (i - 5) ^^^ W k (i - 3) ^^^ W k (i - 1) ^^^ PHI ^^^ BitVec.ofNat 32 (i - 8)).rotateLeft 11
termination_by i
decreasing_by all_goals omega

theorem W_lt (k : Nat → BitVec 32) (i : Nat) (h : i < 8) : W k i = k i := by
  rw [W, dif_pos h]

theorem W_step (k : Nat → BitVec 32) (n : Nat) :
    W k (n + 8) = (W k n ^^^ W k (n + 3) ^^^ W k (n + 5) ^^^ W k (n + 7) ^^^ PHI ^^^ BitVec.ofNat 32 n).rotateLeft 11 := by
  rw [W, dif_neg (by omega)]
  have h1 : n + 8 - 8 = n := by omega
  have h2 : n + 8 - 5 = n + 3 := by omega
  have h3 : n + 8 - 3 = n + 5 := by omega
  have h4 : n + 8 - 1 = n + 7 := by omega
  rw [h1, h2, h3, h4]

/-- the `words` array after `n` iterations of `for i in 0..132` -/
def ws (ek : Bytes) (n : Nat) : List (BitVec 32) := (List.range n).foldl prekeyStep (initWords ek)

theorem ws_succ (ek : Bytes) (n : Nat) : ws ek (n + 1) = prekeyStep (ws ek n) n := by
  simp only [ws, List.range_succ, List.foldl_append, List.foldl_cons, List.foldl_nil]

theorem ws_length (ek : Bytes) (n : Nat) : (ws ek n).length = 140 := by
  induction n with
  | zero => simp [ws, initWords]
  | succ n ih => rw [ws_succ, prekeyStep]; simp only [List.length_set]; exact ih

theorem initWords_get (ek : Bytes) (j : Nat) (hj : j < 8) : (initWords ek).getD j 0#32 = leWord ek j := by
  match j, hj with
  | 0, _ => rfl
  | 1, _ => rfl
  | 2, _ => rfl
  | 3, _ => rfl
  | 4, _ => rfl
  | 5, _ => rfl
  | 6, _ => rfl
  | 7, _ => rfl

theorem ws_get (ek : Bytes) (n : Nat) (j : Nat) (hj : j < n + 8) (hn : n ≤ 132) :
    (ws ek n).getD j 0#32 = W (leWord ek) j := by
  induction n generalizing j with
  | zero => rw [W_lt _ _ (by omega)]; exact initWords_get ek j (by omega)
  | succ n ih =>
    rw [ws_succ, prekeyStep]
    have hl := ws_length ek n
    by_cases hjn : j = n + 8
    · subst hjn
      simp only [List.getD_eq_getElem?_getD]
      rw [List.getElem?_set_self (by omega)]
      simp only [Option.getD_some, ← List.getD_eq_getElem?_getD]
      have h1 : n + 8 - 8 = n := by omega
      have h2 : n + 8 - 5 = n + 3 := by omega
      have h3 : n + 8 - 3 = n + 5 := by omega
      have h4 : n + 8 - 1 = n + 7 := by omega
      rw [h1, h2, h3, h4, ih n (by omega) (by omega), ih (n + 3) (by omega) (by omega),
        ih (n + 5) (by omega) (by omega), ih (n + 7) (by omega) (by omega), W_step]
    · simp only [List.getD_eq_getElem?_getD]
      rw [List.getElem?_set_ne (by omega)]
      simp only [← List.getD_eq_getElem?_getD]
      exact ih j (by omega) (by omega)

/-- round key `i` from the prekey function -/
def rkW (k : Nat → BitVec 32) (i : Nat) : Words :=
  applyS ((ROUNDS + 3 - i) % ROUNDS) ⟨W k (8 + 4 * i), W k (8 + 4 * i + 1), W k (8 + 4 * i + 2), W k (8 + 4 * i + 3)⟩

theorem roundKey_eq (ek : Bytes) (i : Nat) (hi : i < 33) : roundKey (prekeys ek) i = rkW (leWord ek) i := by
  have hp : prekeys ek = ws ek 132 := rfl
  simp only [roundKey, rkW, hp]
  rw [ws_get ek 132 _ (by omega) (by omega), ws_get ek 132 _ (by omega) (by omega),
    ws_get ek 132 _ (by omega) (by omega), ws_get ek 132 _ (by omega) (by omega)]

theorem range33 : List.range 33 = [0,1,2,3,4,5,6,7,8,9,10,11,12,13,14,15,16,17,18,19,20,21,22,23,24,25,26,27,28,29,30,31,32] := by
  decide +kernel

theorem keySchedule_eq (key : Bytes) :
    keySchedule key = ((List.range 33).map (rkW (leWord (expandKey key (key.length * 8))))).toArray := by
  simp only [keySchedule, ROUNDS, Nat.reduceAdd]
  rw [List.map_congr_left (fun i hi => roundKey_eq _ i (List.mem_range.1 hi))]


theorem get_ks (key : Bytes) (i : Nat) (hi : i < 33) :
    (keySchedule key).get i = rkW (leWord (expandKey key (key.length * 8))) i := by
  rw [keySchedule_eq, RoundKeys.get]
  simp [hi]

theorem W_0 (k : Nat → BitVec 32) : W k 0 = k 0 := W_lt k 0 (by decide)
theorem W_1 (k : Nat → BitVec 32) : W k 1 = k 1 := W_lt k 1 (by decide)
theorem W_2 (k : Nat → BitVec 32) : W k 2 = k 2 := W_lt k 2 (by decide)
theorem W_3 (k : Nat → BitVec 32) : W k 3 = k 3 := W_lt k 3 (by decide)
theorem W_4 (k : Nat → BitVec 32) : W k 4 = k 4 := W_lt k 4 (by decide)
theorem W_5 (k : Nat → BitVec 32) : W k 5 = k 5 := W_lt k 5 (by decide)
theorem W_6 (k : Nat → BitVec 32) : W k 6 = k 6 := W_lt k 6 (by decide)
theorem W_7 (k : Nat → BitVec 32) : W k 7 = k 7 := W_lt k 7 (by decide)

/-- the 33 round keys as the flattened field `round_keys: [[u32; 4]; 33]` -/
def rkTuple (rk : RoundKeys) :=
  ((rk.get 0).w0, (rk.get 0).w1, (rk.get 0).w2, (rk.get 0).w3, (rk.get 1).w0, (rk.get 1).w1, (rk.get 1).w2, (rk.get 1).w3, (rk.get 2).w0, (rk.get 2).w1, (rk.get 2).w2, (rk.get 2).w3, (rk.get 3).w0, (rk.get 3).w1, (rk.get 3).w2, (rk.get 3).w3, (rk.get 4).w0, (rk.get 4).w1, (rk.get 4).w2, (rk.get 4).w3, (rk.get 5).w0, (rk.get 5).w1, (rk.get 5).w2, (rk.get 5).w3, (rk.get 6).w0, (rk.get 6).w1, (rk.get 6).w2, (rk.get 6).w3, (rk.get 7).w0, (rk.get 7).w1, (rk.get 7).w2, (rk.get 7).w3, (rk.get 8).w0, (rk.get 8).w1, (rk.get 8).w2, (rk.get 8).w3, (rk.get 9).w0, (rk.get 9).w1, (rk.get 9).w2, (rk.get 9).w3, (rk.get 10).w0, (rk.get 10).w1, (rk.get 10).w2, (rk.get 10).w3, (rk.get 11).w0, (rk.get 11).w1, (rk.get 11).w2, (rk.get 11).w3, (rk.get 12).w0, (rk.get 12).w1, (rk.get 12).w2, (rk.get 12).w3, (rk.get 13).w0, (rk.get 13).w1, (rk.get 13).w2, (rk.get 13).w3, (rk.get 14).w0, (rk.get 14).w1, (rk.get 14).w2, (rk.get 14).w3, (rk.get 15).w0, (rk.get 15).w1, (rk.get 15).w2, (rk.get 15).w3, (rk.get 16).w0, (rk.get 16).w1, (rk.get 16).w2, (rk.get 16).w3, (rk.get 17).w0, (rk.get 17).w1, (rk.get 17).w2, (rk.get 17).w3, (rk.get 18).w0, (rk.get 18).w1, (rk.get 18).w2, (rk.get 18).w3, (rk.get 19).w0, (rk.get 19).w1, (rk.get 19).w2, (rk.get 19).w3, (rk.get 20).w0, (rk.get 20).w1, (rk.get 20).w2, (rk.get 20).w3, (rk.get 21).w0, (rk.get 21).w1, (rk.get 21).w2, (rk.get 21).w3, (rk.get 22).w0, (rk.get 22).w1, (rk.get 22).w2, (rk.get 22).w3, (rk.get 23).w0, (rk.get 23).w1, (rk.get 23).w2, (rk.get 23).w3, (rk.get 24).w0, (rk.get 24).w1, (rk.get 24).w2, (rk.get 24).w3, (rk.get 25).w0, (rk.get 25).w1, (rk.get 25).w2, (rk.get 25).w3, (rk.get 26).w0, (rk.get 26).w1, (rk.get 26).w2, (rk.get 26).w3, (rk.get 27).w0, (rk.get 27).w1, (rk.get 27).w2, (rk.get 27).w3, (rk.get 28).w0, (rk.get 28).w1, (rk.get 28).w2, (rk.get 28).w3, (rk.get 29).w0, (rk.get 29).w1, (rk.get 29).w2, (rk.get 29).w3, (rk.get 30).w0, (rk.get 30).w1, (rk.get 30).w2, (rk.get 30).w3, (rk.get 31).w0, (rk.get 31).w1, (rk.get 31).w2, (rk.get 31).w3, (rk.get 32).w0, (rk.get 32).w1, (rk.get 32).w2, (rk.get 32).w3)
/-! ### key length 16 -/
theorem range16 : List.range 16 = [0,1,2,3,4,5,6,7,8,9,10,11,12,13,14,15] := by decide +kernel
theorem repl16 : List.replicate 16 (0#8) = [0#8,0#8,0#8,0#8,0#8,0#8,0#8,0#8,0#8,0#8,0#8,0#8,0#8,0#8,0#8,0#8] := by decide +kernel
theorem pad16_0 (key : BitVec 128) :
    leWord (expandKey (unpackBE 16 key) ((unpackBE 16 key).length * 8)) 0 = ((key.extractLsb' 96 8) ++ (key.extractLsb' 104 8) ++ (key.extractLsb' 112 8) ++ (key.extractLsb' 120 8)) := by
  simp only [leWord, expandKey, unpackBE, range16, repl16, List.map, List.length, List.replicate, Nat.reduceMul, Nat.reduceAdd, Nat.reduceSub,
    Nat.reduceDiv, Nat.reduceMod, Nat.reduceLT, Nat.lt_irrefl, if_true, if_false, List.cons_append, List.nil_append, List.set_cons_succ, List.set_cons_zero, List.getD_cons_succ, List.getD_cons_zero]
  bv_decide
theorem pad16_1 (key : BitVec 128) :
    leWord (expandKey (unpackBE 16 key) ((unpackBE 16 key).length * 8)) 1 = ((key.extractLsb' 64 8) ++ (key.extractLsb' 72 8) ++ (key.extractLsb' 80 8) ++ (key.extractLsb' 88 8)) := by
  simp only [leWord, expandKey, unpackBE, range16, repl16, List.map, List.length, List.replicate, Nat.reduceMul, Nat.reduceAdd, Nat.reduceSub,
    Nat.reduceDiv, Nat.reduceMod, Nat.reduceLT, Nat.lt_irrefl, if_true, if_false, List.cons_append, List.nil_append, List.set_cons_succ, List.set_cons_zero, List.getD_cons_succ, List.getD_cons_zero]
  bv_decide
theorem pad16_2 (key : BitVec 128) :
    leWord (expandKey (unpackBE 16 key) ((unpackBE 16 key).length * 8)) 2 = ((key.extractLsb' 32 8) ++ (key.extractLsb' 40 8) ++ (key.extractLsb' 48 8) ++ (key.extractLsb' 56 8)) := by
  simp only [leWord, expandKey, unpackBE, range16, repl16, List.map, List.length, List.replicate, Nat.reduceMul, Nat.reduceAdd, Nat.reduceSub,
    Nat.reduceDiv, Nat.reduceMod, Nat.reduceLT, Nat.lt_irrefl, if_true, if_false, List.cons_append, List.nil_append, List.set_cons_succ, List.set_cons_zero, List.getD_cons_succ, List.getD_cons_zero]
  bv_decide
theorem pad16_3 (key : BitVec 128) :
    leWord (expandKey (unpackBE 16 key) ((unpackBE 16 key).length * 8)) 3 = ((key.extractLsb' 0 8) ++ (key.extractLsb' 8 8) ++ (key.extractLsb' 16 8) ++ (key.extractLsb' 24 8)) := by
  simp only [leWord, expandKey, unpackBE, range16, repl16, List.map, List.length, List.replicate, Nat.reduceMul, Nat.reduceAdd, Nat.reduceSub,
    Nat.reduceDiv, Nat.reduceMod, Nat.reduceLT, Nat.lt_irrefl, if_true, if_false, List.cons_append, List.nil_append, List.set_cons_succ, List.set_cons_zero, List.getD_cons_succ, List.getD_cons_zero]
  bv_decide
theorem pad16_4 (key : BitVec 128) :
    leWord (expandKey (unpackBE 16 key) ((unpackBE 16 key).length * 8)) 4 = 0x1#32 := by
  simp only [leWord, expandKey, unpackBE, range16, repl16, List.map, List.length, List.replicate, Nat.reduceMul, Nat.reduceAdd, Nat.reduceSub,
    Nat.reduceDiv, Nat.reduceMod, Nat.reduceLT, Nat.lt_irrefl, if_true, if_false, List.cons_append, List.nil_append, List.set_cons_succ, List.set_cons_zero, List.getD_cons_succ, List.getD_cons_zero]
  bv_decide
theorem pad16_5 (key : BitVec 128) :
    leWord (expandKey (unpackBE 16 key) ((unpackBE 16 key).length * 8)) 5 = 0x0#32 := by
  simp only [leWord, expandKey, unpackBE, range16, repl16, List.map, List.length, List.replicate, Nat.reduceMul, Nat.reduceAdd, Nat.reduceSub,
    Nat.reduceDiv, Nat.reduceMod, Nat.reduceLT, Nat.lt_irrefl, if_true, if_false, List.cons_append, List.nil_append, List.set_cons_succ, List.set_cons_zero, List.getD_cons_succ, List.getD_cons_zero]
  bv_decide
theorem pad16_6 (key : BitVec 128) :
    leWord (expandKey (unpackBE 16 key) ((unpackBE 16 key).length * 8)) 6 = 0x0#32 := by
  simp only [leWord, expandKey, unpackBE, range16, repl16, List.map, List.length, List.replicate, Nat.reduceMul, Nat.reduceAdd, Nat.reduceSub,
    Nat.reduceDiv, Nat.reduceMod, Nat.reduceLT, Nat.lt_irrefl, if_true, if_false, List.cons_append, List.nil_append, List.set_cons_succ, List.set_cons_zero, List.getD_cons_succ, List.getD_cons_zero]
  bv_decide
theorem pad16_7 (key : BitVec 128) :
    leWord (expandKey (unpackBE 16 key) ((unpackBE 16 key).length * 8)) 7 = 0x0#32 := by
  simp only [leWord, expandKey, unpackBE, range16, repl16, List.map, List.length, List.replicate, Nat.reduceMul, Nat.reduceAdd, Nat.reduceSub,
    Nat.reduceDiv, Nat.reduceMod, Nat.reduceLT, Nat.lt_irrefl, if_true, if_false, List.cons_append, List.nil_append, List.set_cons_succ, List.set_cons_zero, List.getD_cons_succ, List.getD_cons_zero]
  bv_decide

theorem new_from_slice_16_eq (key : BitVec 128) :
    serpent_new_from_slice_16 key = rkTuple (keySchedule (unpackBE 16 key)) := by
  simp only [rkTuple, get_ks _ 0 (by decide), get_ks _ 1 (by decide), get_ks _ 2 (by decide), get_ks _ 3 (by decide), get_ks _ 4 (by decide), get_ks _ 5 (by decide), get_ks _ 6 (by decide), get_ks _ 7 (by decide), get_ks _ 8 (by decide), get_ks _ 9 (by decide), get_ks _ 10 (by decide), get_ks _ 11 (by decide), get_ks _ 12 (by decide), get_ks _ 13 (by decide), get_ks _ 14 (by decide), get_ks _ 15 (by decide), get_ks _ 16 (by decide), get_ks _ 17 (by decide), get_ks _ 18 (by decide), get_ks _ 19 (by decide), get_ks _ 20 (by decide), get_ks _ 21 (by decide), get_ks _ 22 (by decide), get_ks _ 23 (by decide), get_ks _ 24 (by decide), get_ks _ 25 (by decide), get_ks _ 26 (by decide), get_ks _ 27 (by decide), get_ks _ 28 (by decide), get_ks _ 29 (by decide), get_ks _ 30 (by decide), get_ks _ 31 (by decide), get_ks _ 32 (by decide)]
  simp only [serpent_new_from_slice_16, rkW, W_step, W_0, W_1, W_2, W_3, W_4, W_5, W_6, W_7, pad16_0, pad16_1, pad16_2, pad16_3, pad16_4, pad16_5, pad16_6, pad16_7,
    applyS, sboxE0, sboxE1, sboxE2, sboxE3, sboxE4, sboxE5, sboxE6, sboxE7, ROUNDS, PHI,
    Nat.reduceAdd, Nat.reduceSub, Nat.reduceMul, Nat.reduceMod, BitVec.xor_zero, BitVec.zero_xor]

/-! ### key length 17 -/
theorem range17 : List.range 17 = [0,1,2,3,4,5,6,7,8,9,10,11,12,13,14,15,16] := by decide +kernel
theorem repl15 : List.replicate 15 (0#8) = [0#8,0#8,0#8,0#8,0#8,0#8,0#8,0#8,0#8,0#8,0#8,0#8,0#8,0#8,0#8] := by decide +kernel
theorem pad17_0 (key : BitVec 136) :
    leWord (expandKey (unpackBE 17 key) ((unpackBE 17 key).length * 8)) 0 = ((key.extractLsb' 104 8) ++ (key.extractLsb' 112 8) ++ (key.extractLsb' 120 8) ++ (key.extractLsb' 128 8)) := by
  simp only [leWord, expandKey, unpackBE, range17, repl15, List.map, List.length, List.replicate, Nat.reduceMul, Nat.reduceAdd, Nat.reduceSub,
    Nat.reduceDiv, Nat.reduceMod, Nat.reduceLT, Nat.lt_irrefl, if_true, if_false, List.cons_append, List.nil_append, List.set_cons_succ, List.set_cons_zero, List.getD_cons_succ, List.getD_cons_zero]
  bv_decide
theorem pad17_1 (key : BitVec 136) :
    leWord (expandKey (unpackBE 17 key) ((unpackBE 17 key).length * 8)) 1 = ((key.extractLsb' 72 8) ++ (key.extractLsb' 80 8) ++ (key.extractLsb' 88 8) ++ (key.extractLsb' 96 8)) := by
  simp only [leWord, expandKey, unpackBE, range17, repl15, List.map, List.length, List.replicate, Nat.reduceMul, Nat.reduceAdd, Nat.reduceSub,
    Nat.reduceDiv, Nat.reduceMod, Nat.reduceLT, Nat.lt_irrefl, if_true, if_false, List.cons_append, List.nil_append, List.set_cons_succ, List.set_cons_zero, List.getD_cons_succ, List.getD_cons_zero]
  bv_decide
theorem pad17_2 (key : BitVec 136) :
    leWord (expandKey (unpackBE 17 key) ((unpackBE 17 key).length * 8)) 2 = ((key.extractLsb' 40 8) ++ (key.extractLsb' 48 8) ++ (key.extractLsb' 56 8) ++ (key.extractLsb' 64 8)) := by
  simp only [leWord, expandKey, unpackBE, range17, repl15, List.map, List.length, List.replicate, Nat.reduceMul, Nat.reduceAdd, Nat.reduceSub,
    Nat.reduceDiv, Nat.reduceMod, Nat.reduceLT, Nat.lt_irrefl, if_true, if_false, List.cons_append, List.nil_append, List.set_cons_succ, List.set_cons_zero, List.getD_cons_succ, List.getD_cons_zero]
  bv_decide
theorem pad17_3 (key : BitVec 136) :
    leWord (expandKey (unpackBE 17 key) ((unpackBE 17 key).length * 8)) 3 = ((key.extractLsb' 8 8) ++ (key.extractLsb' 16 8) ++ (key.extractLsb' 24 8) ++ (key.extractLsb' 32 8)) := by
  simp only [leWord, expandKey, unpackBE, range17, repl15, List.map, List.length, List.replicate, Nat.reduceMul, Nat.reduceAdd, Nat.reduceSub,
    Nat.reduceDiv, Nat.reduceMod, Nat.reduceLT, Nat.lt_irrefl, if_true, if_false, List.cons_append, List.nil_append, List.set_cons_succ, List.set_cons_zero, List.getD_cons_succ, List.getD_cons_zero]
  bv_decide
theorem pad17_4 (key : BitVec 136) :
    leWord (expandKey (unpackBE 17 key) ((unpackBE 17 key).length * 8)) 4 = (0x0#8 ++ 0x0#8 ++ 0x1#8 ++ (key.extractLsb' 0 8)) := by
  simp only [leWord, expandKey, unpackBE, range17, repl15, List.map, List.length, List.replicate, Nat.reduceMul, Nat.reduceAdd, Nat.reduceSub,
    Nat.reduceDiv, Nat.reduceMod, Nat.reduceLT, Nat.lt_irrefl, if_true, if_false, List.cons_append, List.nil_append, List.set_cons_succ, List.set_cons_zero, List.getD_cons_succ, List.getD_cons_zero]
  bv_decide
theorem pad17_5 (key : BitVec 136) :
    leWord (expandKey (unpackBE 17 key) ((unpackBE 17 key).length * 8)) 5 = 0x0#32 := by
  simp only [leWord, expandKey, unpackBE, range17, repl15, List.map, List.length, List.replicate, Nat.reduceMul, Nat.reduceAdd, Nat.reduceSub,
    Nat.reduceDiv, Nat.reduceMod, Nat.reduceLT, Nat.lt_irrefl, if_true, if_false, List.cons_append, List.nil_append, List.set_cons_succ, List.set_cons_zero, List.getD_cons_succ, List.getD_cons_zero]
  bv_decide
theorem pad17_6 (key : BitVec 136) :
    leWord (expandKey (unpackBE 17 key) ((unpackBE 17 key).length * 8)) 6 = 0x0#32 := by
  simp only [leWord, expandKey, unpackBE, range17, repl15, List.map, List.length, List.replicate, Nat.reduceMul, Nat.reduceAdd, Nat.reduceSub,
    Nat.reduceDiv, Nat.reduceMod, Nat.reduceLT, Nat.lt_irrefl, if_true, if_false, List.cons_append, List.nil_append, List.set_cons_succ, List.set_cons_zero, List.getD_cons_succ, List.getD_cons_zero]
  bv_decide
theorem pad17_7 (key : BitVec 136) :
    leWord (expandKey (unpackBE 17 key) ((unpackBE 17 key).length * 8)) 7 = 0x0#32 := by
  simp only [leWord, expandKey, unpackBE, range17, repl15, List.map, List.length, List.replicate, Nat.reduceMul, Nat.reduceAdd, Nat.reduceSub,
    Nat.reduceDiv, Nat.reduceMod, Nat.reduceLT, Nat.lt_irrefl, if_true, if_false, List.cons_append, List.nil_append, List.set_cons_succ, List.set_cons_zero, List.getD_cons_succ, List.getD_cons_zero]
  bv_decide

theorem new_from_slice_17_eq (key : BitVec 136) :
    serpent_new_from_slice_17 key = rkTuple (keySchedule (unpackBE 17 key)) := by
  simp only [rkTuple, get_ks _ 0 (by decide), get_ks _ 1 (by decide), get_ks _ 2 (by decide), get_ks _ 3 (by decide), get_ks _ 4 (by decide), get_ks _ 5 (by decide), get_ks _ 6 (by decide), get_ks _ 7 (by decide), get_ks _ 8 (by decide), get_ks _ 9 (by decide), get_ks _ 10 (by decide), get_ks _ 11 (by decide), get_ks _ 12 (by decide), get_ks _ 13 (by decide), get_ks _ 14 (by decide), get_ks _ 15 (by decide), get_ks _ 16 (by decide), get_ks _ 17 (by decide), get_ks _ 18 (by decide), get_ks _ 19 (by decide), get_ks _ 20 (by decide), get_ks _ 21 (by decide), get_ks _ 22 (by decide), get_ks _ 23 (by decide), get_ks _ 24 (by decide), get_ks _ 25 (by decide), get_ks _ 26 (by decide), get_ks _ 27 (by decide), get_ks _ 28 (by decide), get_ks _ 29 (by decide), get_ks _ 30 (by decide), get_ks _ 31 (by decide), get_ks _ 32 (by decide)]
  simp only [serpent_new_from_slice_17, rkW, W_step, W_0, W_1, W_2, W_3, W_4, W_5, W_6, W_7, pad17_0, pad17_1, pad17_2, pad17_3, pad17_4, pad17_5, pad17_6, pad17_7,
    applyS, sboxE0, sboxE1, sboxE2, sboxE3, sboxE4, sboxE5, sboxE6, sboxE7, ROUNDS, PHI,
    Nat.reduceAdd, Nat.reduceSub, Nat.reduceMul, Nat.reduceMod, BitVec.xor_zero, BitVec.zero_xor]

/-! ### key length 19 -/
theorem range19 : List.range 19 = [0,1,2,3,4,5,6,7,8,9,10,11,12,13,14,15,16,17,18] := by decide +kernel
theorem repl13 : List.replicate 13 (0#8) = [0#8,0#8,0#8,0#8,0#8,0#8,0#8,0#8,0#8,0#8,0#8,0#8,0#8] := by decide +kernel
theorem pad19_0 (key : BitVec 152) :
    leWord (expandKey (unpackBE 19 key) ((unpackBE 19 key).length * 8)) 0 = ((key.extractLsb' 120 8) ++ (key.extractLsb' 128 8) ++ (key.extractLsb' 136 8) ++ (key.extractLsb' 144 8)) := by
  simp only [leWord, expandKey, unpackBE, range19, repl13, List.map, List.length, List.replicate, Nat.reduceMul, Nat.reduceAdd, Nat.reduceSub,
    Nat.reduceDiv, Nat.reduceMod, Nat.reduceLT, Nat.lt_irrefl, if_true, if_false, List.cons_append, List.nil_append, List.set_cons_succ, List.set_cons_zero, List.getD_cons_succ, List.getD_cons_zero]
  bv_decide
theorem pad19_1 (key : BitVec 152) :
    leWord (expandKey (unpackBE 19 key) ((unpackBE 19 key).length * 8)) 1 = ((key.extractLsb' 88 8) ++ (key.extractLsb' 96 8) ++ (key.extractLsb' 104 8) ++ (key.extractLsb' 112 8)) := by
  simp only [leWord, expandKey, unpackBE, range19, repl13, List.map, List.length, List.replicate, Nat.reduceMul, Nat.reduceAdd, Nat.reduceSub,
    Nat.reduceDiv, Nat.reduceMod, Nat.reduceLT, Nat.lt_irrefl, if_true, if_false, List.cons_append, List.nil_append, List.set_cons_succ, List.set_cons_zero, List.getD_cons_succ, List.getD_cons_zero]
  bv_decide
theorem pad19_2 (key : BitVec 152) :
    leWord (expandKey (unpackBE 19 key) ((unpackBE 19 key).length * 8)) 2 = ((key.extractLsb' 56 8) ++ (key.extractLsb' 64 8) ++ (key.extractLsb' 72 8) ++ (key.extractLsb' 80 8)) := by
  simp only [leWord, expandKey, unpackBE, range19, repl13, List.map, List.length, List.replicate, Nat.reduceMul, Nat.reduceAdd, Nat.reduceSub,
    Nat.reduceDiv, Nat.reduceMod, Nat.reduceLT, Nat.lt_irrefl, if_true, if_false, List.cons_append, List.nil_append, List.set_cons_succ, List.set_cons_zero, List.getD_cons_succ, List.getD_cons_zero]
  bv_decide
theorem pad19_3 (key : BitVec 152) :
    leWord (expandKey (unpackBE 19 key) ((unpackBE 19 key).length * 8)) 3 = ((key.extractLsb' 24 8) ++ (key.extractLsb' 32 8) ++ (key.extractLsb' 40 8) ++ (key.extractLsb' 48 8)) := by
  simp only [leWord, expandKey, unpackBE, range19, repl13, List.map, List.length, List.replicate, Nat.reduceMul, Nat.reduceAdd, Nat.reduceSub,
    Nat.reduceDiv, Nat.reduceMod, Nat.reduceLT, Nat.lt_irrefl, if_true, if_false, List.cons_append, List.nil_append, List.set_cons_succ, List.set_cons_zero, List.getD_cons_succ, List.getD_cons_zero]
  bv_decide
theorem pad19_4 (key : BitVec 152) :
    leWord (expandKey (unpackBE 19 key) ((unpackBE 19 key).length * 8)) 4 = (0x1#8 ++ (key.extractLsb' 0 8) ++ (key.extractLsb' 8 8) ++ (key.extractLsb' 16 8)) := by
  simp only [leWord, expandKey, unpackBE, range19, repl13, List.map, List.length, List.replicate, Nat.reduceMul, Nat.reduceAdd, Nat.reduceSub,
    Nat.reduceDiv, Nat.reduceMod, Nat.reduceLT, Nat.lt_irrefl, if_true, if_false, List.cons_append, List.nil_append, List.set_cons_succ, List.set_cons_zero, List.getD_cons_succ, List.getD_cons_zero]
  bv_decide
theorem pad19_5 (key : BitVec 152) :
    leWord (expandKey (unpackBE 19 key) ((unpackBE 19 key).length * 8)) 5 = 0x0#32 := by
  simp only [leWord, expandKey, unpackBE, range19, repl13, List.map, List.length, List.replicate, Nat.reduceMul, Nat.reduceAdd, Nat.reduceSub,
    Nat.reduceDiv, Nat.reduceMod, Nat.reduceLT, Nat.lt_irrefl, if_true, if_false, List.cons_append, List.nil_append, List.set_cons_succ, List.set_cons_zero, List.getD_cons_succ, List.getD_cons_zero]
  bv_decide
theorem pad19_6 (key : BitVec 152) :
    leWord (expandKey (unpackBE 19 key) ((unpackBE 19 key).length * 8)) 6 = 0x0#32 := by
  simp only [leWord, expandKey, unpackBE, range19, repl13, List.map, List.length, List.replicate, Nat.reduceMul, Nat.reduceAdd, Nat.reduceSub,
    Nat.reduceDiv, Nat.reduceMod, Nat.reduceLT, Nat.lt_irrefl, if_true, if_false, List.cons_append, List.nil_append, List.set_cons_succ, List.set_cons_zero, List.getD_cons_succ, List.getD_cons_zero]
  bv_decide
theorem pad19_7 (key : BitVec 152) :
    leWord (expandKey (unpackBE 19 key) ((unpackBE 19 key).length * 8)) 7 = 0x0#32 := by
  simp only [leWord, expandKey, unpackBE, range19, repl13, List.map, List.length, List.replicate, Nat.reduceMul, Nat.reduceAdd, Nat.reduceSub,
    Nat.reduceDiv, Nat.reduceMod, Nat.reduceLT, Nat.lt_irrefl, if_true, if_false, List.cons_append, List.nil_append, List.set_cons_succ, List.set_cons_zero, List.getD_cons_succ, List.getD_cons_zero]
  bv_decide

theorem new_from_slice_19_eq (key : BitVec 152) :
    serpent_new_from_slice_19 key = rkTuple (keySchedule (unpackBE 19 key)) := by
  simp only [rkTuple, get_ks _ 0 (by decide), get_ks _ 1 (by decide), get_ks _ 2 (by decide), get_ks _ 3 (by decide), get_ks _ 4 (by decide), get_ks _ 5 (by decide), get_ks _ 6 (by decide), get_ks _ 7 (by decide), get_ks _ 8 (by decide), get_ks _ 9 (by decide), get_ks _ 10 (by decide), get_ks _ 11 (by decide), get_ks _ 12 (by decide), get_ks _ 13 (by decide), get_ks _ 14 (by decide), get_ks _ 15 (by decide), get_ks _ 16 (by decide), get_ks _ 17 (by decide), get_ks _ 18 (by decide), get_ks _ 19 (by decide), get_ks _ 20 (by decide), get_ks _ 21 (by decide), get_ks _ 22 (by decide), get_ks _ 23 (by decide), get_ks _ 24 (by decide), get_ks _ 25 (by decide), get_ks _ 26 (by decide), get_ks _ 27 (by decide), get_ks _ 28 (by decide), get_ks _ 29 (by decide), get_ks _ 30 (by decide), get_ks _ 31 (by decide), get_ks _ 32 (by decide)]
  simp only [serpent_new_from_slice_19, rkW, W_step, W_0, W_1, W_2, W_3, W_4, W_5, W_6, W_7, pad19_0, pad19_1, pad19_2, pad19_3, pad19_4, pad19_5, pad19_6, pad19_7,
    applyS, sboxE0, sboxE1, sboxE2, sboxE3, sboxE4, sboxE5, sboxE6, sboxE7, ROUNDS, PHI,
    Nat.reduceAdd, Nat.reduceSub, Nat.reduceMul, Nat.reduceMod, BitVec.xor_zero, BitVec.zero_xor]

/-! ### key length 24 -/
theorem range24 : List.range 24 = [0,1,2,3,4,5,6,7,8,9,10,11,12,13,14,15,16,17,18,19,20,21,22,23] := by decide +kernel
theorem repl8 : List.replicate 8 (0#8) = [0#8,0#8,0#8,0#8,0#8,0#8,0#8,0#8] := by decide +kernel
theorem pad24_0 (key : BitVec 192) :
    leWord (expandKey (unpackBE 24 key) ((unpackBE 24 key).length * 8)) 0 = ((key.extractLsb' 160 8) ++ (key.extractLsb' 168 8) ++ (key.extractLsb' 176 8) ++ (key.extractLsb' 184 8)) := by
  simp only [leWord, expandKey, unpackBE, range24, repl8, List.map, List.length, List.replicate, Nat.reduceMul, Nat.reduceAdd, Nat.reduceSub,
    Nat.reduceDiv, Nat.reduceMod, Nat.reduceLT, Nat.lt_irrefl, if_true, if_false, List.cons_append, List.nil_append, List.set_cons_succ, List.set_cons_zero, List.getD_cons_succ, List.getD_cons_zero]
  bv_decide
theorem pad24_1 (key : BitVec 192) :
    leWord (expandKey (unpackBE 24 key) ((unpackBE 24 key).length * 8)) 1 = ((key.extractLsb' 128 8) ++ (key.extractLsb' 136 8) ++ (key.extractLsb' 144 8) ++ (key.extractLsb' 152 8)) := by
  simp only [leWord, expandKey, unpackBE, range24, repl8, List.map, List.length, List.replicate, Nat.reduceMul, Nat.reduceAdd, Nat.reduceSub,
    Nat.reduceDiv, Nat.reduceMod, Nat.reduceLT, Nat.lt_irrefl, if_true, if_false, List.cons_append, List.nil_append, List.set_cons_succ, List.set_cons_zero, List.getD_cons_succ, List.getD_cons_zero]
  bv_decide
theorem pad24_2 (key : BitVec 192) :
    leWord (expandKey (unpackBE 24 key) ((unpackBE 24 key).length * 8)) 2 = ((key.extractLsb' 96 8) ++ (key.extractLsb' 104 8) ++ (key.extractLsb' 112 8) ++ (key.extractLsb' 120 8)) := by
  simp only [leWord, expandKey, unpackBE, range24, repl8, List.map, List.length, List.replicate, Nat.reduceMul, Nat.reduceAdd, Nat.reduceSub,
    Nat.reduceDiv, Nat.reduceMod, Nat.reduceLT, Nat.lt_irrefl, if_true, if_false, List.cons_append, List.nil_append, List.set_cons_succ, List.set_cons_zero, List.getD_cons_succ, List.getD_cons_zero]
  bv_decide
theorem pad24_3 (key : BitVec 192) :
    leWord (expandKey (unpackBE 24 key) ((unpackBE 24 key).length * 8)) 3 = ((key.extractLsb' 64 8) ++ (key.extractLsb' 72 8) ++ (key.extractLsb' 80 8) ++ (key.extractLsb' 88 8)) := by
  simp only [leWord, expandKey, unpackBE, range24, repl8, List.map, List.length, List.replicate, Nat.reduceMul, Nat.reduceAdd, Nat.reduceSub,
    Nat.reduceDiv, Nat.reduceMod, Nat.reduceLT, Nat.lt_irrefl, if_true, if_false, List.cons_append, List.nil_append, List.set_cons_succ, List.set_cons_zero, List.getD_cons_succ, List.getD_cons_zero]
  bv_decide
theorem pad24_4 (key : BitVec 192) :
    leWord (expandKey (unpackBE 24 key) ((unpackBE 24 key).length * 8)) 4 = ((key.extractLsb' 32 8) ++ (key.extractLsb' 40 8) ++ (key.extractLsb' 48 8) ++ (key.extractLsb' 56 8)) := by
  simp only [leWord, expandKey, unpackBE, range24, repl8, List.map, List.length, List.replicate, Nat.reduceMul, Nat.reduceAdd, Nat.reduceSub,
    Nat.reduceDiv, Nat.reduceMod, Nat.reduceLT, Nat.lt_irrefl, if_true, if_false, List.cons_append, List.nil_append, List.set_cons_succ, List.set_cons_zero, List.getD_cons_succ, List.getD_cons_zero]
  bv_decide
theorem pad24_5 (key : BitVec 192) :
    leWord (expandKey (unpackBE 24 key) ((unpackBE 24 key).length * 8)) 5 = ((key.extractLsb' 0 8) ++ (key.extractLsb' 8 8) ++ (key.extractLsb' 16 8) ++ (key.extractLsb' 24 8)) := by
  simp only [leWord, expandKey, unpackBE, range24, repl8, List.map, List.length, List.replicate, Nat.reduceMul, Nat.reduceAdd, Nat.reduceSub,
    Nat.reduceDiv, Nat.reduceMod, Nat.reduceLT, Nat.lt_irrefl, if_true, if_false, List.cons_append, List.nil_append, List.set_cons_succ, List.set_cons_zero, List.getD_cons_succ, List.getD_cons_zero]
  bv_decide
theorem pad24_6 (key : BitVec 192) :
    leWord (expandKey (unpackBE 24 key) ((unpackBE 24 key).length * 8)) 6 = 0x1#32 := by
  simp only [leWord, expandKey, unpackBE, range24, repl8, List.map, List.length, List.replicate, Nat.reduceMul, Nat.reduceAdd, Nat.reduceSub,
    Nat.reduceDiv, Nat.reduceMod, Nat.reduceLT, Nat.lt_irrefl, if_true, if_false, List.cons_append, List.nil_append, List.set_cons_succ, List.set_cons_zero, List.getD_cons_succ, List.getD_cons_zero]
  bv_decide
theorem pad24_7 (key : BitVec 192) :
    leWord (expandKey (unpackBE 24 key) ((unpackBE 24 key).length * 8)) 7 = 0x0#32 := by
  simp only [leWord, expandKey, unpackBE, range24, repl8, List.map, List.length, List.replicate, Nat.reduceMul, Nat.reduceAdd, Nat.reduceSub,
    Nat.reduceDiv, Nat.reduceMod, Nat.reduceLT, Nat.lt_irrefl, if_true, if_false, List.cons_append, List.nil_append, List.set_cons_succ, List.set_cons_zero, List.getD_cons_succ, List.getD_cons_zero]
  bv_decide

theorem new_from_slice_24_eq (key : BitVec 192) :
    serpent_new_from_slice_24 key = rkTuple (keySchedule (unpackBE 24 key)) := by
  simp only [rkTuple, get_ks _ 0 (by decide), get_ks _ 1 (by decide), get_ks _ 2 (by decide), get_ks _ 3 (by decide), get_ks _ 4 (by decide), get_ks _ 5 (by decide), get_ks _ 6 (by decide), get_ks _ 7 (by decide), get_ks _ 8 (by decide), get_ks _ 9 (by decide), get_ks _ 10 (by decide), get_ks _ 11 (by decide), get_ks _ 12 (by decide), get_ks _ 13 (by decide), get_ks _ 14 (by decide), get_ks _ 15 (by decide), get_ks _ 16 (by decide), get_ks _ 17 (by decide), get_ks _ 18 (by decide), get_ks _ 19 (by decide), get_ks _ 20 (by decide), get_ks _ 21 (by decide), get_ks _ 22 (by decide), get_ks _ 23 (by decide), get_ks _ 24 (by decide), get_ks _ 25 (by decide), get_ks _ 26 (by decide), get_ks _ 27 (by decide), get_ks _ 28 (by decide), get_ks _ 29 (by decide), get_ks _ 30 (by decide), get_ks _ 31 (by decide), get_ks _ 32 (by decide)]
  simp only [serpent_new_from_slice_24, rkW, W_step, W_0, W_1, W_2, W_3, W_4, W_5, W_6, W_7, pad24_0, pad24_1, pad24_2, pad24_3, pad24_4, pad24_5, pad24_6, pad24_7,
    applyS, sboxE0, sboxE1, sboxE2, sboxE3, sboxE4, sboxE5, sboxE6, sboxE7, ROUNDS, PHI,
    Nat.reduceAdd, Nat.reduceSub, Nat.reduceMul, Nat.reduceMod, BitVec.xor_zero, BitVec.zero_xor]

/-! ### key length 31 -/
theorem range31 : List.range 31 = [0,1,2,3,4,5,6,7,8,9,10,11,12,13,14,15,16,17,18,19,20,21,22,23,24,25,26,27,28,29,30] := by decide +kernel
theorem repl1 : List.replicate 1 (0#8) = [0#8] := by decide +kernel
theorem pad31_0 (key : BitVec 248) :
    leWord (expandKey (unpackBE 31 key) ((unpackBE 31 key).length * 8)) 0 = ((key.extractLsb' 216 8) ++ (key.extractLsb' 224 8) ++ (key.extractLsb' 232 8) ++ (key.extractLsb' 240 8)) := by
  simp only [leWord, expandKey, unpackBE, range31, repl1, List.map, List.length, List.replicate, Nat.reduceMul, Nat.reduceAdd, Nat.reduceSub,
    Nat.reduceDiv, Nat.reduceMod, Nat.reduceLT, Nat.lt_irrefl, if_true, if_false, List.cons_append, List.nil_append, List.set_cons_succ, List.set_cons_zero, List.getD_cons_succ, List.getD_cons_zero]
  bv_decide
theorem pad31_1 (key : BitVec 248) :
    leWord (expandKey (unpackBE 31 key) ((unpackBE 31 key).length * 8)) 1 = ((key.extractLsb' 184 8) ++ (key.extractLsb' 192 8) ++ (key.extractLsb' 200 8) ++ (key.extractLsb' 208 8)) := by
  simp only [leWord, expandKey, unpackBE, range31, repl1, List.map, List.length, List.replicate, Nat.reduceMul, Nat.reduceAdd, Nat.reduceSub,
    Nat.reduceDiv, Nat.reduceMod, Nat.reduceLT, Nat.lt_irrefl, if_true, if_false, List.cons_append, List.nil_append, List.set_cons_succ, List.set_cons_zero, List.getD_cons_succ, List.getD_cons_zero]
  bv_decide
theorem pad31_2 (key : BitVec 248) :
    leWord (expandKey (unpackBE 31 key) ((unpackBE 31 key).length * 8)) 2 = ((key.extractLsb' 152 8) ++ (key.extractLsb' 160 8) ++ (key.extractLsb' 168 8) ++ (key.extractLsb' 176 8)) := by
  simp only [leWord, expandKey, unpackBE, range31, repl1, List.map, List.length, List.replicate, Nat.reduceMul, Nat.reduceAdd, Nat.reduceSub,
    Nat.reduceDiv, Nat.reduceMod, Nat.reduceLT, Nat.lt_irrefl, if_true, if_false, List.cons_append, List.nil_append, List.set_cons_succ, List.set_cons_zero, List.getD_cons_succ, List.getD_cons_zero]
  bv_decide
theorem pad31_3 (key : BitVec 248) :
    leWord (expandKey (unpackBE 31 key) ((unpackBE 31 key).length * 8)) 3 = ((key.extractLsb' 120 8) ++ (key.extractLsb' 128 8) ++ (key.extractLsb' 136 8) ++ (key.extractLsb' 144 8)) := by
  simp only [leWord, expandKey, unpackBE, range31, repl1, List.map, List.length, List.replicate, Nat.reduceMul, Nat.reduceAdd, Nat.reduceSub,
    Nat.reduceDiv, Nat.reduceMod, Nat.reduceLT, Nat.lt_irrefl, if_true, if_false, List.cons_append, List.nil_append, List.set_cons_succ, List.set_cons_zero, List.getD_cons_succ, List.getD_cons_zero]
  bv_decide
theorem pad31_4 (key : BitVec 248) :
    leWord (expandKey (unpackBE 31 key) ((unpackBE 31 key).length * 8)) 4 = ((key.extractLsb' 88 8) ++ (key.extractLsb' 96 8) ++ (key.extractLsb' 104 8) ++ (key.extractLsb' 112 8)) := by
  simp only [leWord, expandKey, unpackBE, range31, repl1, List.map, List.length, List.replicate, Nat.reduceMul, Nat.reduceAdd, Nat.reduceSub,
    Nat.reduceDiv, Nat.reduceMod, Nat.reduceLT, Nat.lt_irrefl, if_true, if_false, List.cons_append, List.nil_append, List.set_cons_succ, List.set_cons_zero, List.getD_cons_succ, List.getD_cons_zero]
  bv_decide
theorem pad31_5 (key : BitVec 248) :
    leWord (expandKey (unpackBE 31 key) ((unpackBE 31 key).length * 8)) 5 = ((key.extractLsb' 56 8) ++ (key.extractLsb' 64 8) ++ (key.extractLsb' 72 8) ++ (key.extractLsb' 80 8)) := by
  simp only [leWord, expandKey, unpackBE, range31, repl1, List.map, List.length, List.replicate, Nat.reduceMul, Nat.reduceAdd, Nat.reduceSub,
    Nat.reduceDiv, Nat.reduceMod, Nat.reduceLT, Nat.lt_irrefl, if_true, if_false, List.cons_append, List.nil_append, List.set_cons_succ, List.set_cons_zero, List.getD_cons_succ, List.getD_cons_zero]
  bv_decide
theorem pad31_6 (key : BitVec 248) :
    leWord (expandKey (unpackBE 31 key) ((unpackBE 31 key).length * 8)) 6 = ((key.extractLsb' 24 8) ++ (key.extractLsb' 32 8) ++ (key.extractLsb' 40 8) ++ (key.extractLsb' 48 8)) := by
  simp only [leWord, expandKey, unpackBE, range31, repl1, List.map, List.length, List.replicate, Nat.reduceMul, Nat.reduceAdd, Nat.reduceSub,
    Nat.reduceDiv, Nat.reduceMod, Nat.reduceLT, Nat.lt_irrefl, if_true, if_false, List.cons_append, List.nil_append, List.set_cons_succ, List.set_cons_zero, List.getD_cons_succ, List.getD_cons_zero]
  bv_decide
theorem pad31_7 (key : BitVec 248) :
    leWord (expandKey (unpackBE 31 key) ((unpackBE 31 key).length * 8)) 7 = (0x1#8 ++ (key.extractLsb' 0 8) ++ (key.extractLsb' 8 8) ++ (key.extractLsb' 16 8)) := by
  simp only [leWord, expandKey, unpackBE, range31, repl1, List.map, List.length, List.replicate, Nat.reduceMul, Nat.reduceAdd, Nat.reduceSub,
    Nat.reduceDiv, Nat.reduceMod, Nat.reduceLT, Nat.lt_irrefl, if_true, if_false, List.cons_append, List.nil_append, List.set_cons_succ, List.set_cons_zero, List.getD_cons_succ, List.getD_cons_zero]
  bv_decide

theorem new_from_slice_31_eq (key : BitVec 248) :
    serpent_new_from_slice_31 key = rkTuple (keySchedule (unpackBE 31 key)) := by
  simp only [rkTuple, get_ks _ 0 (by decide), get_ks _ 1 (by decide), get_ks _ 2 (by decide), get_ks _ 3 (by decide), get_ks _ 4 (by decide), get_ks _ 5 (by decide), get_ks _ 6 (by decide), get_ks _ 7 (by decide), get_ks _ 8 (by decide), get_ks _ 9 (by decide), get_ks _ 10 (by decide), get_ks _ 11 (by decide), get_ks _ 12 (by decide), get_ks _ 13 (by decide), get_ks _ 14 (by decide), get_ks _ 15 (by decide), get_ks _ 16 (by decide), get_ks _ 17 (by decide), get_ks _ 18 (by decide), get_ks _ 19 (by decide), get_ks _ 20 (by decide), get_ks _ 21 (by decide), get_ks _ 22 (by decide), get_ks _ 23 (by decide), get_ks _ 24 (by decide), get_ks _ 25 (by decide), get_ks _ 26 (by decide), get_ks _ 27 (by decide), get_ks _ 28 (by decide), get_ks _ 29 (by decide), get_ks _ 30 (by decide), get_ks _ 31 (by decide), get_ks _ 32 (by decide)]
  simp only [serpent_new_from_slice_31, rkW, W_step, W_0, W_1, W_2, W_3, W_4, W_5, W_6, W_7, pad31_0, pad31_1, pad31_2, pad31_3, pad31_4, pad31_5, pad31_6, pad31_7,
    applyS, sboxE0, sboxE1, sboxE2, sboxE3, sboxE4, sboxE5, sboxE6, sboxE7, ROUNDS, PHI,
    Nat.reduceAdd, Nat.reduceSub, Nat.reduceMul, Nat.reduceMod, BitVec.xor_zero, BitVec.zero_xor]

/-! ### key length 32 -/
theorem range32 : List.range 32 = [0,1,2,3,4,5,6,7,8,9,10,11,12,13,14,15,16,17,18,19,20,21,22,23,24,25,26,27,28,29,30,31] := by decide +kernel
theorem pad32_0 (key : BitVec 256) :
    leWord (expandKey (unpackBE 32 key) ((unpackBE 32 key).length * 8)) 0 = ((key.extractLsb' 224 8) ++ (key.extractLsb' 232 8) ++ (key.extractLsb' 240 8) ++ (key.extractLsb' 248 8)) := by
  simp only [leWord, expandKey, unpackBE, range32, List.map, List.length, List.replicate, Nat.reduceMul, Nat.reduceAdd, Nat.reduceSub,
    Nat.reduceDiv, Nat.reduceMod, Nat.reduceLT, Nat.lt_irrefl, if_true, if_false, List.cons_append, List.nil_append, List.set_cons_succ, List.set_cons_zero, List.getD_cons_succ, List.getD_cons_zero]
  bv_decide
theorem pad32_1 (key : BitVec 256) :
    leWord (expandKey (unpackBE 32 key) ((unpackBE 32 key).length * 8)) 1 = ((key.extractLsb' 192 8) ++ (key.extractLsb' 200 8) ++ (key.extractLsb' 208 8) ++ (key.extractLsb' 216 8)) := by
  simp only [leWord, expandKey, unpackBE, range32, List.map, List.length, List.replicate, Nat.reduceMul, Nat.reduceAdd, Nat.reduceSub,
    Nat.reduceDiv, Nat.reduceMod, Nat.reduceLT, Nat.lt_irrefl, if_true, if_false, List.cons_append, List.nil_append, List.set_cons_succ, List.set_cons_zero, List.getD_cons_succ, List.getD_cons_zero]
  bv_decide
theorem pad32_2 (key : BitVec 256) :
    leWord (expandKey (unpackBE 32 key) ((unpackBE 32 key).length * 8)) 2 = ((key.extractLsb' 160 8) ++ (key.extractLsb' 168 8) ++ (key.extractLsb' 176 8) ++ (key.extractLsb' 184 8)) := by
  simp only [leWord, expandKey, unpackBE, range32, List.map, List.length, List.replicate, Nat.reduceMul, Nat.reduceAdd, Nat.reduceSub,
    Nat.reduceDiv, Nat.reduceMod, Nat.reduceLT, Nat.lt_irrefl, if_true, if_false, List.cons_append, List.nil_append, List.set_cons_succ, List.set_cons_zero, List.getD_cons_succ, List.getD_cons_zero]
  bv_decide
theorem pad32_3 (key : BitVec 256) :
    leWord (expandKey (unpackBE 32 key) ((unpackBE 32 key).length * 8)) 3 = ((key.extractLsb' 128 8) ++ (key.extractLsb' 136 8) ++ (key.extractLsb' 144 8) ++ (key.extractLsb' 152 8)) := by
  simp only [leWord, expandKey, unpackBE, range32, List.map, List.length, List.replicate, Nat.reduceMul, Nat.reduceAdd, Nat.reduceSub,
    Nat.reduceDiv, Nat.reduceMod, Nat.reduceLT, Nat.lt_irrefl, if_true, if_false, List.cons_append, List.nil_append, List.set_cons_succ, List.set_cons_zero, List.getD_cons_succ, List.getD_cons_zero]
  bv_decide
theorem pad32_4 (key : BitVec 256) :
    leWord (expandKey (unpackBE 32 key) ((unpackBE 32 key).length * 8)) 4 = ((key.extractLsb' 96 8) ++ (key.extractLsb' 104 8) ++ (key.extractLsb' 112 8) ++ (key.extractLsb' 120 8)) := by
  simp only [leWord, expandKey, unpackBE, range32, List.map, List.length, List.replicate, Nat.reduceMul, Nat.reduceAdd, Nat.reduceSub,
    Nat.reduceDiv, Nat.reduceMod, Nat.reduceLT, Nat.lt_irrefl, if_true, if_false, List.cons_append, List.nil_append, List.set_cons_succ, List.set_cons_zero, List.getD_cons_succ, List.getD_cons_zero]
  bv_decide
theorem pad32_5 (key : BitVec 256) :
    leWord (expandKey (unpackBE 32 key) ((unpackBE 32 key).length * 8)) 5 = ((key.extractLsb' 64 8) ++ (key.extractLsb' 72 8) ++ (key.extractLsb' 80 8) ++ (key.extractLsb' 88 8)) := by
  simp only [leWord, expandKey, unpackBE, range32, List.map, List.length, List.replicate, Nat.reduceMul, Nat.reduceAdd, Nat.reduceSub,
    Nat.reduceDiv, Nat.reduceMod, Nat.reduceLT, Nat.lt_irrefl, if_true, if_false, List.cons_append, List.nil_append, List.set_cons_succ, List.set_cons_zero, List.getD_cons_succ, List.getD_cons_zero]
  bv_decide
theorem pad32_6 (key : BitVec 256) :
    leWord (expandKey (unpackBE 32 key) ((unpackBE 32 key).length * 8)) 6 = ((key.extractLsb' 32 8) ++ (key.extractLsb' 40 8) ++ (key.extractLsb' 48 8) ++ (key.extractLsb' 56 8)) := by
  simp only [leWord, expandKey, unpackBE, range32, List.map, List.length, List.replicate, Nat.reduceMul, Nat.reduceAdd, Nat.reduceSub,
    Nat.reduceDiv, Nat.reduceMod, Nat.reduceLT, Nat.lt_irrefl, if_true, if_false, List.cons_append, List.nil_append, List.set_cons_succ, List.set_cons_zero, List.getD_cons_succ, List.getD_cons_zero]
  bv_decide
theorem pad32_7 (key : BitVec 256) :
    leWord (expandKey (unpackBE 32 key) ((unpackBE 32 key).length * 8)) 7 = ((key.extractLsb' 0 8) ++ (key.extractLsb' 8 8) ++ (key.extractLsb' 16 8) ++ (key.extractLsb' 24 8)) := by
  simp only [leWord, expandKey, unpackBE, range32, List.map, List.length, List.replicate, Nat.reduceMul, Nat.reduceAdd, Nat.reduceSub,
    Nat.reduceDiv, Nat.reduceMod, Nat.reduceLT, Nat.lt_irrefl, if_true, if_false, List.cons_append, List.nil_append, List.set_cons_succ, List.set_cons_zero, List.getD_cons_succ, List.getD_cons_zero]
  bv_decide

theorem new_from_slice_32_eq (key : BitVec 256) :
    serpent_new_from_slice_32 key = rkTuple (keySchedule (unpackBE 32 key)) := by
  simp only [rkTuple, get_ks _ 0 (by decide), get_ks _ 1 (by decide), get_ks _ 2 (by decide), get_ks _ 3 (by decide), get_ks _ 4 (by decide), get_ks _ 5 (by decide), get_ks _ 6 (by decide), get_ks _ 7 (by decide), get_ks _ 8 (by decide), get_ks _ 9 (by decide), get_ks _ 10 (by decide), get_ks _ 11 (by decide), get_ks _ 12 (by decide), get_ks _ 13 (by decide), get_ks _ 14 (by decide), get_ks _ 15 (by decide), get_ks _ 16 (by decide), get_ks _ 17 (by decide), get_ks _ 18 (by decide), get_ks _ 19 (by decide), get_ks _ 20 (by decide), get_ks _ 21 (by decide), get_ks _ 22 (by decide), get_ks _ 23 (by decide), get_ks _ 24 (by decide), get_ks _ 25 (by decide), get_ks _ 26 (by decide), get_ks _ 27 (by decide), get_ks _ 28 (by decide), get_ks _ 29 (by decide), get_ks _ 30 (by decide), get_ks _ 31 (by decide), get_ks _ 32 (by decide)]
  simp only [serpent_new_from_slice_32, rkW, W_step, W_0, W_1, W_2, W_3, W_4, W_5, W_6, W_7, pad32_0, pad32_1, pad32_2, pad32_3, pad32_4, pad32_5, pad32_6, pad32_7,
    applyS, sboxE0, sboxE1, sboxE2, sboxE3, sboxE4, sboxE5, sboxE6, sboxE7, ROUNDS, PHI,
    Nat.reduceAdd, Nat.reduceSub, Nat.reduceMul, Nat.reduceMod, BitVec.xor_zero, BitVec.zero_xor]


end BC.GenKeys.Serpent
