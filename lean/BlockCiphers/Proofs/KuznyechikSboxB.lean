import BlockCiphers.Impl.Kuznyechik
import BlockCiphers.Spec.Kuznyechik
/- Kuznyechik S-box tables, kernel-checked over all 256 byte values (part B: P is π, P_INV is π⁻¹ of the standard; see Proofs/KuznyechikSbox.lean). -/
namespace BC.Kuznyechik
open BC.Spec.Kuznyechik

theorem P_eq_pi_fin : ∀ i : Fin 256, lut P (BitVec.ofFin i) = pi (BitVec.ofFin i) := by decide +kernel
theorem P_INV_eq_piInv_fin : ∀ i : Fin 256, lut P_INV (BitVec.ofFin i) = piInv (BitVec.ofFin i) := by decide +kernel

end BC.Kuznyechik
