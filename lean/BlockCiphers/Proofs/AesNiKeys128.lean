import BlockCiphers.Proofs.AesNiKeysCommon
/-
`aes128_expand_key` (expand.rs) produces the FIPS-197 key schedule for Nk = 4, Nr = 10:
register `r` of the result holds words `4r..4r+3`.
-/
namespace BC.AesNi
open BC BC.X86 BC.Spec.Aes

/-- the four new words produced by `expand_round` from the previous register -/
theorem expand_round128_words (rc : BitVec 8) (t : BitVec 128) :
    fw (expand_round128 rc t) 0 = fw t 0 ^^^ (subWord (rotWord (fw t 3)) ^^^ rcw rc) ∧
    fw (expand_round128 rc t) 1 = fw t 1 ^^^ fw (expand_round128 rc t) 0 ∧
    fw (expand_round128 rc t) 2 = fw t 2 ^^^ fw (expand_round128 rc t) 1 ∧
    fw (expand_round128 rc t) 3 = fw t 3 ^^^ fw (expand_round128 rc t) 2 := by
  simp only [expand_round128, _mm_aeskeygenassist_si128, shuffle_ff, slli_4, _mm_xor_si128,
    subWordLE, rotWordLE, subWord_rotWord, fw, rcw]
  generalize subWord (bswap32 (dword t 3)) = s3
  generalize subWord (bswap32 (dword t 1)) = s1
  simp only [dword, ofDwords, bswap32, rotWord]
  refine ⟨?_, ?_, ?_, ?_⟩ <;> bv_decide (config := { timeout := 600 })

/-- FIPS-197 recurrence for Nk = 4 at the four words of round key `r+1` -/
theorem spec_step128 (kw : List (BitVec 32)) (hk : kw.length = 4) (r : Nat) (hr : r < 10)
    (w : Array (BitVec 32)) (hw : w = keyExpansion 4 10 kw) :
    w.getD (4 * (r + 1)) 0 = w.getD (4 * r) 0 ^^^ (subWord (rotWord (w.getD (4 * r + 3) 0)) ^^^ rcon (r + 1)) ∧
    w.getD (4 * (r + 1) + 1) 0 = w.getD (4 * r + 1) 0 ^^^ w.getD (4 * (r + 1)) 0 ∧
    w.getD (4 * (r + 1) + 2) 0 = w.getD (4 * r + 2) 0 ^^^ w.getD (4 * (r + 1) + 1) 0 ∧
    w.getD (4 * (r + 1) + 3) 0 = w.getD (4 * r + 3) 0 ^^^ w.getD (4 * (r + 1) + 2) 0 := by
  subst hw
  have t0 : ∀ t, tempf 4 (4 * (r + 1)) t = subWord (rotWord t) ^^^ rcon (r + 1) := by
    intro t; rw [tempf_pos t (by omega)]; congr 2; omega
  have t1 : ∀ t, tempf 4 (4 * (r + 1) + 1) t = t := fun t => tempf_id t (by omega) (by omega)
  have t2 : ∀ t, tempf 4 (4 * (r + 1) + 2) t = t := fun t => tempf_id t (by omega) (by omega)
  have t3 : ∀ t, tempf 4 (4 * (r + 1) + 3) t = t := fun t => tempf_id t (by omega) (by omega)
  have e0 : 4 * (r + 1) - 4 = 4 * r := by omega
  have e0' : 4 * (r + 1) - 1 = 4 * r + 3 := by omega
  have e1 : 4 * (r + 1) + 1 - 4 = 4 * r + 1 := by omega
  have e1' : 4 * (r + 1) + 1 - 1 = 4 * (r + 1) := by omega
  have e2 : 4 * (r + 1) + 2 - 4 = 4 * r + 2 := by omega
  have e2' : 4 * (r + 1) + 2 - 1 = 4 * (r + 1) + 1 := by omega
  have e3 : 4 * (r + 1) + 3 - 4 = 4 * r + 3 := by omega
  have e3' : 4 * (r + 1) + 3 - 1 = 4 * (r + 1) + 2 := by omega
  have h0 := keyExpansion_rec 4 10 kw hk (by omega) (4 * (r + 1)) (by omega) (by omega)
  have h1 := keyExpansion_rec 4 10 kw hk (by omega) (4 * (r + 1) + 1) (by omega) (by omega)
  have h2 := keyExpansion_rec 4 10 kw hk (by omega) (4 * (r + 1) + 2) (by omega) (by omega)
  have h3 := keyExpansion_rec 4 10 kw hk (by omega) (4 * (r + 1) + 3) (by omega) (by omega)
  rw [t0] at h0; rw [t1] at h1; rw [t2] at h2; rw [t3] at h3
  rw [e0, e0'] at h0; rw [e1, e1'] at h1; rw [e2, e2'] at h2; rw [e3, e3'] at h3
  exact ⟨h0, h1, h2, h3⟩

/-- one `expand_round` advances the invariant by one round key -/
theorem IsRK_step128 (kw : List (BitVec 32)) (hk : kw.length = 4) (rc : BitVec 8) (k : BitVec 128) (r : Nat)
    (h : IsRK k (keyExpansion 4 10 kw) r) (hr : r < 10) (hrc : rcw rc = rcon (r + 1)) :
    IsRK (expand_round128 rc k) (keyExpansion 4 10 kw) (r + 1) := by
  obtain ⟨h0, h1, h2, h3⟩ := h
  obtain ⟨n0, n1, n2, n3⟩ := expand_round128_words rc k
  obtain ⟨s0, s1, s2, s3⟩ := spec_step128 kw hk r hr _ rfl
  have a0 : fw (expand_round128 rc k) 0 = (keyExpansion 4 10 kw).getD (4 * (r + 1)) 0 := by
    rw [n0, s0, h0, h3, hrc]
  have a1 : fw (expand_round128 rc k) 1 = (keyExpansion 4 10 kw).getD (4 * (r + 1) + 1) 0 := by
    rw [n1, s1, h1, a0]
  have a2 : fw (expand_round128 rc k) 2 = (keyExpansion 4 10 kw).getD (4 * (r + 1) + 2) 0 := by
    rw [n2, s2, h2, a1]
  have a3 : fw (expand_round128 rc k) 3 = (keyExpansion 4 10 kw).getD (4 * (r + 1) + 3) 0 := by
    rw [n3, s3, h3, a2]
  exact ⟨a0, a1, a2, a3⟩

theorem fw_rev128 (k : BitVec 128) :
    fw (rev128 k) 0 = k.extractLsb' 96 32 ∧ fw (rev128 k) 1 = k.extractLsb' 64 32 ∧
    fw (rev128 k) 2 = k.extractLsb' 32 32 ∧ fw (rev128 k) 3 = k.extractLsb' 0 32 := by
  simp only [fw, dword, rev128, bswap32, bswap64]
  refine ⟨?_, ?_, ?_, ?_⟩ <;> bv_decide (config := { timeout := 600 })

/-- the array built by `aes128_expand_key`, written out -/
theorem aes128_expand_key_eq (key : BitVec 128) :
    aes128_expand_key key =
      let k0 := _mm_loadu_si128 key
      let k1 := expand_round128 0x01#8 k0
      let k2 := expand_round128 0x02#8 k1
      let k3 := expand_round128 0x04#8 k2
      let k4 := expand_round128 0x08#8 k3
      let k5 := expand_round128 0x10#8 k4
      let k6 := expand_round128 0x20#8 k5
      let k7 := expand_round128 0x40#8 k6
      let k8 := expand_round128 0x80#8 k7
      let k9 := expand_round128 0x1B#8 k8
      let k10 := expand_round128 0x36#8 k9
      [k0, k1, k2, k3, k4, k5, k6, k7, k8, k9, k10] := rfl

/-- **key schedule, AES-128**: the NI round keys are the FIPS-197 round keys -/
theorem aes128_keys_match (key : BitVec 128) :
    KeysMatch (aes128_expand_key key) 10 (keyExpansion 4 10 (keyWords (unpackBE 16 key))) := by
  rw [keyWords16, aes128_expand_key_eq]
  generalize hkw : [key.extractLsb' 96 32, key.extractLsb' 64 32, key.extractLsb' 32 32, key.extractLsb' 0 32] = kw
  have hk : kw.length = 4 := by rw [← hkw]; rfl
  have i0 : IsRK (_mm_loadu_si128 key) (keyExpansion 4 10 kw) 0 := by
    obtain ⟨f0, f1, f2, f3⟩ := fw_rev128 key
    refine ⟨?_, ?_, ?_, ?_⟩
    · rw [_mm_loadu_si128, f0, keyExpansion_init 4 10 kw 0 (by omega), ← hkw]; rfl
    · rw [_mm_loadu_si128, f1, keyExpansion_init 4 10 kw 1 (by omega), ← hkw]; rfl
    · rw [_mm_loadu_si128, f2, keyExpansion_init 4 10 kw 2 (by omega), ← hkw]; rfl
    · rw [_mm_loadu_si128, f3, keyExpansion_init 4 10 kw 3 (by omega), ← hkw]; rfl
  obtain ⟨c1, c2, c3, c4, c5, c6, c7, c8, c9, c10⟩ := rcw_rcon
  have i1 := IsRK_step128 kw hk 0x01#8 _ 0 i0 (by omega) c1
  have i2 := IsRK_step128 kw hk 0x02#8 _ 1 i1 (by omega) c2
  have i3 := IsRK_step128 kw hk 0x04#8 _ 2 i2 (by omega) c3
  have i4 := IsRK_step128 kw hk 0x08#8 _ 3 i3 (by omega) c4
  have i5 := IsRK_step128 kw hk 0x10#8 _ 4 i4 (by omega) c5
  have i6 := IsRK_step128 kw hk 0x20#8 _ 5 i5 (by omega) c6
  have i7 := IsRK_step128 kw hk 0x40#8 _ 6 i6 (by omega) c7
  have i8 := IsRK_step128 kw hk 0x80#8 _ 7 i7 (by omega) c8
  have i9 := IsRK_step128 kw hk 0x1B#8 _ 8 i8 (by omega) c9
  have i10 := IsRK_step128 kw hk 0x36#8 _ 9 i9 (by omega) c10
  refine ⟨rfl, ?_⟩
  intro r hr
  have hc : r = 0 ∨ r = 1 ∨ r = 2 ∨ r = 3 ∨ r = 4 ∨ r = 5 ∨ r = 6 ∨ r = 7 ∨ r = 8 ∨ r = 9 ∨ r = 10 := by omega
  rcases hc with h|h|h|h|h|h|h|h|h|h|h <;> subst h
  · exact i0.roundKey
  · exact i1.roundKey
  · exact i2.roundKey
  · exact i3.roundKey
  · exact i4.roundKey
  · exact i5.roundKey
  · exact i6.roundKey
  · exact i7.roundKey
  · exact i8.roundKey
  · exact i9.roundKey
  · exact i10.roundKey

end BC.AesNi
