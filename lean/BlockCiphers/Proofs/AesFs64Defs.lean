import BlockCiphers.Impl.AesFixslice64
import BlockCiphers.Spec.Aes
/-!
Byte-level vocabulary used to state "the fixsliced step computes the FIPS-197 step in every lane".
-/
namespace BC.AesFs64
open BC.Spec.Aes

/-- apply `f` to each of the 16 bytes of a block (closed form, no fold, so that `bv_decide (config := { timeout := 600 })` can unfold it) -/
def mapBytes (f : BitVec 8 → BitVec 8) (b : BitVec 128) : BitVec 128 :=
  ((f (getB b 0)).setWidth 128 <<< 120) |||
  ((f (getB b 1)).setWidth 128 <<< 112) |||
  ((f (getB b 2)).setWidth 128 <<< 104) |||
  ((f (getB b 3)).setWidth 128 <<< 96) |||
  ((f (getB b 4)).setWidth 128 <<< 88) |||
  ((f (getB b 5)).setWidth 128 <<< 80) |||
  ((f (getB b 6)).setWidth 128 <<< 72) |||
  ((f (getB b 7)).setWidth 128 <<< 64) |||
  ((f (getB b 8)).setWidth 128 <<< 56) |||
  ((f (getB b 9)).setWidth 128 <<< 48) |||
  ((f (getB b 10)).setWidth 128 <<< 40) |||
  ((f (getB b 11)).setWidth 128 <<< 32) |||
  ((f (getB b 12)).setWidth 128 <<< 24) |||
  ((f (getB b 13)).setWidth 128 <<< 16) |||
  ((f (getB b 14)).setWidth 128 <<< 8) |||
  ((f (getB b 15)).setWidth 128 <<< 0)

def Batch.map (f : BitVec 128 → BitVec 128) (b : Batch) : Batch := ⟨f b.b0, f b.b1, f b.b2, f b.b3⟩

/-- the S-box as the fixsliced code computes it: circuit, then the four NOTs (bits 0,1,5,6 = 0x63) -/
def sboxCirc (x : BitVec 8) : BitVec 8 := sub_bytes_bit x ^^^ 0x63#8
/-- `inv_sub_bytes` contains its NOTs (on the input side) -/
def invSboxCirc (x : BitVec 8) : BitVec 8 := inv_sub_bytes_bit x

/-- 0x63 in every byte: the four omitted NOTs seen from the byte side -/
def c63 : BitVec 128 := 0x63636363636363636363636363636363#128

theorem range16 : List.range 16 = [0,1,2,3,4,5,6,7,8,9,10,11,12,13,14,15] := by decide

/-- FIPS-197 Cipher / InvCipher with the round keys given as a function of the round number -/
def cipherK (nr : Nat) (K : Nat → BitVec 128) (inp : BitVec 128) : BitVec 128 :=
  let s := addRoundKey inp (K 0)
  let s := (List.range (nr - 1)).foldl (fun s r =>
    addRoundKey (mixColumns (shiftRows (subBytes s))) (K (r + 1))) s
  addRoundKey (shiftRows (subBytes s)) (K nr)

def invCipherK (nr : Nat) (K : Nat → BitVec 128) (inp : BitVec 128) : BitVec 128 :=
  let s := addRoundKey inp (K nr)
  let s := (List.range (nr - 1)).foldl (fun s r =>
    invMixColumns (addRoundKey (invSubBytes (invShiftRows s)) (K (nr - 1 - r)))) s
  addRoundKey (invSubBytes (invShiftRows s)) (K 0)

theorem cipher_eq_cipherK (nr : Nat) (w : Array (BitVec 32)) :
    cipher nr w = cipherK nr (roundKey w) := rfl
theorem invCipher_eq_invCipherK (nr : Nat) (w : Array (BitVec 32)) :
    invCipher nr w = invCipherK nr (roundKey w) := rfl

theorem St.ext8 {a b : St} (h0 : a.s0 = b.s0) (h1 : a.s1 = b.s1) (h2 : a.s2 = b.s2) (h3 : a.s3 = b.s3)
    (h4 : a.s4 = b.s4) (h5 : a.s5 = b.s5) (h6 : a.s6 = b.s6) (h7 : a.s7 = b.s7) : a = b := by
  cases a; cases b; simp_all

end BC.AesFs64
