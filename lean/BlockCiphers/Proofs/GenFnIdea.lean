import BlockCiphers.Gen.Fn_Idea
import BlockCiphers.Impl.Idea
import Std.Tactic.BVDecide
/-
Tie theorems for the leaf functions of IDEA: the regenerated `Idea::mul` (data-dependent `if`/`else if`/`else` with the
`i32` reduction, translated as selects; `r < 0` on `i32` = `BitVec.slt`) `Idea::add` and `Idea::add_inv` ARE the model's functions,
for all 2^32 argument pairs.
-/
set_option maxRecDepth 100000
namespace BC.GenFn.Idea
open BC.Gen.Fn BC.Idea

theorem mul_eq (a b : BitVec 16) : idea_mul a b = mul a b := by
  simp only [idea_mul, mul, MAXIM, ONE]
  bv_decide (config := { timeout := 600 })

theorem add_eq (a b : BitVec 16) : idea_add a b = add a b := by
  simp only [idea_add, add, ONE]

theorem add_inv_eq (a : BitVec 16) : idea_add_inv a = addInv a := by
  simp only [idea_add_inv, addInv, FUYI, ONE]

end BC.GenFn.Idea
