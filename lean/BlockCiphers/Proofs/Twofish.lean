import BlockCiphers.Proofs.Basic
import BlockCiphers.Impl.Twofish
/-
Twofish round trip: for an ARBITRARY function `g : u32 → u32` and an ARBITRARY vector of 40 sub-keys,
`decryptWith g K ∘ encryptWith g K = id` and the other order.  The cipher's `encrypt`/`decrypt`
instantiate `g` with `g_func` and `K` with `self.k`, hence the round trip for every key of every length.
-/
namespace BC.Twofish

theorem rotl1_rotr1 (x : BitVec 32) : (x.rotateRight 1).rotateLeft 1 = x := by bv_decide (config := { timeout := 600 })
theorem rotr1_rotl1 (x : BitVec 32) : (x.rotateLeft 1).rotateRight 1 = x := by bv_decide (config := { timeout := 600 })
theorem xor_cancel_right (x y : BitVec 32) : x ^^^ y ^^^ y = x := by bv_decide (config := { timeout := 600 })

theorem decRound_encRound (g : BitVec 32 → BitVec 32) (K : Vector (BitVec 32) 40) (s : St) (r : Fin 8) :
    decRound g K (encRound g K s r) r = s := by
  cases s
  simp only [decRound, encRound, rotl1_rotr1, rotr1_rotl1, xor_cancel_right]

theorem encRound_decRound (g : BitVec 32 → BitVec 32) (K : Vector (BitVec 32) 40) (s : St) (r : Fin 8) :
    encRound g K (decRound g K s r) r = s := by
  cases s
  simp only [decRound, encRound, rotl1_rotr1, rotr1_rotl1, xor_cancel_right]

/-- a left fold of per-index inverse steps over the reversed index list undoes the fold -/
theorem foldl_inv {σ ι : Type} (f f' : σ → ι → σ) (hinv : ∀ s i, f' (f s i) i = s) (l : List ι) (s : σ) :
    l.reverse.foldl f' (l.foldl f s) = s := by
  induction l generalizing s with
  | nil => rfl
  | cons i l ih => simp [List.foldl_append, ih, hinv]

theorem foldl_inv' {σ ι : Type} (f f' : σ → ι → σ) (hinv : ∀ s i, f (f' s i) i = s) (l : List ι) (s : σ) :
    l.foldl f (l.reverse.foldl f' s) = s := by
  have := foldl_inv f' f hinv l.reverse s
  simpa using this

theorem blockWord_storeWords (w0 w1 w2 w3 : BitVec 32) :
    blockWord (storeWords w0 w1 w2 w3) 0 = w0 ∧ blockWord (storeWords w0 w1 w2 w3) 1 = w1 ∧
    blockWord (storeWords w0 w1 w2 w3) 2 = w2 ∧ blockWord (storeWords w0 w1 w2 w3) 3 = w3 := by
  simp only [blockWord, storeWords, bswap32]
  bv_decide (config := { timeout := 600 })

theorem storeWords_blockWord (b : BitVec 128) :
    storeWords (blockWord b 0) (blockWord b 1) (blockWord b 2) (blockWord b 3) = b := by
  simp only [blockWord, storeWords, bswap32]
  bv_decide (config := { timeout := 600 })

theorem decryptWith_encryptWith (g : BitVec 32 → BitVec 32) (K : Vector (BitVec 32) 40) (b : BitVec 128) :
    decryptWith g K (encryptWith g K b) = b := by
  simp only [decryptWith, encryptWith]
  obtain ⟨h0, h1, h2, h3⟩ := blockWord_storeWords
    ((roundIdx.foldl (encRound g K) ⟨blockWord b 0 ^^^ K[0], blockWord b 1 ^^^ K[1], blockWord b 2 ^^^ K[2], blockWord b 3 ^^^ K[3]⟩).p2 ^^^ K[4])
    ((roundIdx.foldl (encRound g K) ⟨blockWord b 0 ^^^ K[0], blockWord b 1 ^^^ K[1], blockWord b 2 ^^^ K[2], blockWord b 3 ^^^ K[3]⟩).p3 ^^^ K[5])
    ((roundIdx.foldl (encRound g K) ⟨blockWord b 0 ^^^ K[0], blockWord b 1 ^^^ K[1], blockWord b 2 ^^^ K[2], blockWord b 3 ^^^ K[3]⟩).p0 ^^^ K[6])
    ((roundIdx.foldl (encRound g K) ⟨blockWord b 0 ^^^ K[0], blockWord b 1 ^^^ K[1], blockWord b 2 ^^^ K[2], blockWord b 3 ^^^ K[3]⟩).p1 ^^^ K[7])
  rw [h0, h1, h2, h3]
  simp only [xor_cancel_right]
  rw [foldl_inv (encRound g K) (decRound g K) (decRound_encRound g K)]
  simp only [xor_cancel_right]
  exact storeWords_blockWord b

theorem encryptWith_decryptWith (g : BitVec 32 → BitVec 32) (K : Vector (BitVec 32) 40) (b : BitVec 128) :
    encryptWith g K (decryptWith g K b) = b := by
  simp only [decryptWith, encryptWith]
  obtain ⟨h0, h1, h2, h3⟩ := blockWord_storeWords
    ((roundIdx.reverse.foldl (decRound g K) ⟨blockWord b 2 ^^^ K[6], blockWord b 3 ^^^ K[7], blockWord b 0 ^^^ K[4], blockWord b 1 ^^^ K[5]⟩).p0 ^^^ K[0])
    ((roundIdx.reverse.foldl (decRound g K) ⟨blockWord b 2 ^^^ K[6], blockWord b 3 ^^^ K[7], blockWord b 0 ^^^ K[4], blockWord b 1 ^^^ K[5]⟩).p1 ^^^ K[1])
    ((roundIdx.reverse.foldl (decRound g K) ⟨blockWord b 2 ^^^ K[6], blockWord b 3 ^^^ K[7], blockWord b 0 ^^^ K[4], blockWord b 1 ^^^ K[5]⟩).p2 ^^^ K[2])
    ((roundIdx.reverse.foldl (decRound g K) ⟨blockWord b 2 ^^^ K[6], blockWord b 3 ^^^ K[7], blockWord b 0 ^^^ K[4], blockWord b 1 ^^^ K[5]⟩).p3 ^^^ K[3])
  rw [h0, h1, h2, h3]
  simp only [xor_cancel_right]
  rw [foldl_inv' (encRound g K) (decRound g K) (encRound_decRound g K)]
  simp only [xor_cancel_right]
  exact storeWords_blockWord b

/-- C01 for Twofish: every key schedule result (in particular `keySchedule key` for every key of 16, 24 or
32 bytes), every block. -/
theorem decrypt_encrypt (ks : Keys) (b : BitVec 128) : decrypt ks (encrypt ks b) = b :=
  decryptWith_encryptWith _ _ b

theorem encrypt_decrypt (ks : Keys) (b : BitVec 128) : encrypt ks (decrypt ks b) = b :=
  encryptWith_decryptWith _ _ b

theorem decrypt_encrypt_key (key : Array (BitVec 8)) (b : BitVec 128) :
    decrypt (keySchedule key) (encrypt (keySchedule key) b) = b := decrypt_encrypt _ b

theorem encrypt_decrypt_key (key : Array (BitVec 8)) (b : BitVec 128) :
    encrypt (keySchedule key) (decrypt (keySchedule key) b) = b := encrypt_decrypt _ b

end BC.Twofish
