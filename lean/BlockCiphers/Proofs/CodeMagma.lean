import BlockCiphers.Gen.Cipher_Magma
import BlockCiphers.Gen.Keys_Magma
import BlockCiphers.Gen.Tables
import BlockCiphers.Proofs.GenTables
import BlockCiphers.Proofs.GenCipherMagma
import BlockCiphers.Proofs.GenKeysMagma
import BlockCiphers.Proofs.Magma
import BlockCiphers.Proofs.MagmaSpec
/-!
Code-level theorems for Magma / GOST 28147-89 (`Gost89<S>` for the six bundled S-box sets `S`): statements mention ONLY the
regenerated code (`BC.Gen.Fn.gost89_new`, `gost89_<set>_{encrypt,decrypt}_block`, the regenerated S-box tables
`BC.Gen.magma_<Set>_SBOX`) and the specification `BC.Spec.Magma` (GOST R 34.12-2015 / GOST 28147-89).  Composition of
  (1) `BC.Magma.decrypt_encrypt_key`, `encrypt_decrypt_key` (Proofs/Magma.lean; Thm C01), `encrypt_eq_spec`,
      `decrypt_eq_spec`, `magma_encrypt_eq_spec`, `magma_decrypt_eq_spec` (Proofs/MagmaSpec.lean; Thm C07),
  (2) `BC.GenCipher.Magma.gost89_<set>_{encrypt,decrypt}_block_eq`,
  (3) `BC.GenKeys.Magma.new_eq`.
The specification `Spec.Magma.E π` / `D π` is parametric in the substitution set `π`.  For `Tc26` the standard fixes π
(`Spec.Magma.magmaE` / `magmaD`).  For the other five sets the standard does not fix a table; the theorems instantiate π with
the REGENERATED table of the crate read as eight rows of sixteen nibbles (`piOf BC.Gen.magma_<Set>_SBOX`).
-/
set_option maxRecDepth 100000
namespace BC.Code.Magma
open BC BC.Gen.Fn

/-- a regenerated `[[u8; 16]; 8]` table (flattened row-major) read as a substitution set of the specification -/
def piOf (t : Array Nat) : BC.Spec.Magma.Pi :=
  Vector.ofFn fun i : Fin 8 => Vector.ofFn fun j : Fin 16 => BitVec.ofNat 4 (t.getD (16 * i.val + j.val) 0)

/-! ## `Gost89<Tc26>` = `Magma` -/

/-- `Gost89::<Tc26>::new(key).encrypt_block(b)` on the regenerated code -/
def enc_tc26 (key : BitVec 256) (b : BitVec 64) : BitVec 64 :=
  match gost89_new key with
  | (k0, k1, k2, k3, k4, k5, k6, k7) => gost89_tc26_encrypt_block k0 k1 k2 k3 k4 k5 k6 k7 b

/-- `Gost89::<Tc26>::new(key).decrypt_block(b)` on the regenerated code -/
def dec_tc26 (key : BitVec 256) (b : BitVec 64) : BitVec 64 :=
  match gost89_new key with
  | (k0, k1, k2, k3, k4, k5, k6, k7) => gost89_tc26_decrypt_block k0 k1 k2 k3 k4 k5 k6 k7 b

theorem enc_tc26_eq_impl (key : BitVec 256) (b : BitVec 64) :
    enc_tc26 key b = BC.Magma.encrypt BC.Magma.Tc26 (BC.Magma.new key) b := by
  rw [BC.GenKeys.Magma.new_eq key]
  unfold enc_tc26
  generalize gost89_new key = t
  obtain ⟨k0, k1, k2, k3, k4, k5, k6, k7⟩ := t
  exact BC.GenCipher.Magma.gost89_tc26_encrypt_block_eq k0 k1 k2 k3 k4 k5 k6 k7 b

theorem dec_tc26_eq_impl (key : BitVec 256) (b : BitVec 64) :
    dec_tc26 key b = BC.Magma.decrypt BC.Magma.Tc26 (BC.Magma.new key) b := by
  rw [BC.GenKeys.Magma.new_eq key]
  unfold dec_tc26
  generalize gost89_new key = t
  obtain ⟨k0, k1, k2, k3, k4, k5, k6, k7⟩ := t
  exact BC.GenCipher.Magma.gost89_tc26_decrypt_block_eq k0 k1 k2 k3 k4 k5 k6 k7 b

theorem dec_tc26_enc_tc26 (key : BitVec 256) (b : BitVec 64) : dec_tc26 key (enc_tc26 key b) = b := by
  rw [enc_tc26_eq_impl, dec_tc26_eq_impl, BC.Magma.decrypt_encrypt_key]

theorem enc_tc26_dec_tc26 (key : BitVec 256) (b : BitVec 64) : enc_tc26 key (dec_tc26 key b) = b := by
  rw [enc_tc26_eq_impl, dec_tc26_eq_impl, BC.Magma.encrypt_decrypt_key]

/-- the regenerated `Tc26` table, read as a substitution set, is the model's table -/
theorem piOf_tc26 : piOf BC.Gen.magma_Tc26_SBOX = BC.Magma.Tc26 := by decide +kernel

/-- the regenerated `Gost89<Tc26>` encryption is the 32-round network `E` of the standard over the regenerated table -/
theorem enc_tc26_eq_spec (key : BitVec 256) (b : BitVec 64) :
    enc_tc26 key b = BC.Spec.Magma.E (piOf BC.Gen.magma_Tc26_SBOX) key b := by
  rw [enc_tc26_eq_impl, BC.Magma.encrypt_eq_spec, piOf_tc26]

theorem dec_tc26_eq_spec (key : BitVec 256) (b : BitVec 64) :
    dec_tc26 key b = BC.Spec.Magma.D (piOf BC.Gen.magma_Tc26_SBOX) key b := by
  rw [dec_tc26_eq_impl, BC.Magma.decrypt_eq_spec, piOf_tc26]

/-- `Magma = Gost89<Tc26>`: the regenerated code is GOST R 34.12-2015 Magma encryption (π of the standard), all keys and blocks -/
theorem enc_tc26_eq_magmaE (key : BitVec 256) (b : BitVec 64) : enc_tc26 key b = BC.Spec.Magma.magmaE key b := by
  rw [enc_tc26_eq_impl, BC.Magma.magma_encrypt_eq_spec]

theorem dec_tc26_eq_magmaD (key : BitVec 256) (b : BitVec 64) : dec_tc26 key b = BC.Spec.Magma.magmaD key b := by
  rw [dec_tc26_eq_impl, BC.Magma.magma_decrypt_eq_spec]

/-- the regenerated `Tc26` table IS the substitution π of GOST R 34.12-2015 -/
theorem piOf_tc26_eq_spec : piOf BC.Gen.magma_Tc26_SBOX = BC.Spec.Magma.piTc26 := by
  rw [piOf_tc26, BC.Magma.Tc26_eq]

/-! ## `Gost89<TestSbox>` -/

/-- `Gost89::<TestSbox>::new(key).encrypt_block(b)` on the regenerated code -/
def enc_testsbox (key : BitVec 256) (b : BitVec 64) : BitVec 64 :=
  match gost89_new key with
  | (k0, k1, k2, k3, k4, k5, k6, k7) => gost89_testsbox_encrypt_block k0 k1 k2 k3 k4 k5 k6 k7 b

/-- `Gost89::<TestSbox>::new(key).decrypt_block(b)` on the regenerated code -/
def dec_testsbox (key : BitVec 256) (b : BitVec 64) : BitVec 64 :=
  match gost89_new key with
  | (k0, k1, k2, k3, k4, k5, k6, k7) => gost89_testsbox_decrypt_block k0 k1 k2 k3 k4 k5 k6 k7 b

theorem enc_testsbox_eq_impl (key : BitVec 256) (b : BitVec 64) :
    enc_testsbox key b = BC.Magma.encrypt BC.Magma.TestSbox (BC.Magma.new key) b := by
  rw [BC.GenKeys.Magma.new_eq key]
  unfold enc_testsbox
  generalize gost89_new key = t
  obtain ⟨k0, k1, k2, k3, k4, k5, k6, k7⟩ := t
  exact BC.GenCipher.Magma.gost89_testsbox_encrypt_block_eq k0 k1 k2 k3 k4 k5 k6 k7 b

theorem dec_testsbox_eq_impl (key : BitVec 256) (b : BitVec 64) :
    dec_testsbox key b = BC.Magma.decrypt BC.Magma.TestSbox (BC.Magma.new key) b := by
  rw [BC.GenKeys.Magma.new_eq key]
  unfold dec_testsbox
  generalize gost89_new key = t
  obtain ⟨k0, k1, k2, k3, k4, k5, k6, k7⟩ := t
  exact BC.GenCipher.Magma.gost89_testsbox_decrypt_block_eq k0 k1 k2 k3 k4 k5 k6 k7 b

theorem dec_testsbox_enc_testsbox (key : BitVec 256) (b : BitVec 64) : dec_testsbox key (enc_testsbox key b) = b := by
  rw [enc_testsbox_eq_impl, dec_testsbox_eq_impl, BC.Magma.decrypt_encrypt_key]

theorem enc_testsbox_dec_testsbox (key : BitVec 256) (b : BitVec 64) : enc_testsbox key (dec_testsbox key b) = b := by
  rw [enc_testsbox_eq_impl, dec_testsbox_eq_impl, BC.Magma.encrypt_decrypt_key]

/-- the regenerated `TestSbox` table, read as a substitution set, is the model's table -/
theorem piOf_testsbox : piOf BC.Gen.magma_TestSbox_SBOX = BC.Magma.TestSbox := by decide +kernel

/-- the regenerated `Gost89<TestSbox>` encryption is the 32-round network `E` of the standard over the regenerated table -/
theorem enc_testsbox_eq_spec (key : BitVec 256) (b : BitVec 64) :
    enc_testsbox key b = BC.Spec.Magma.E (piOf BC.Gen.magma_TestSbox_SBOX) key b := by
  rw [enc_testsbox_eq_impl, BC.Magma.encrypt_eq_spec, piOf_testsbox]

theorem dec_testsbox_eq_spec (key : BitVec 256) (b : BitVec 64) :
    dec_testsbox key b = BC.Spec.Magma.D (piOf BC.Gen.magma_TestSbox_SBOX) key b := by
  rw [dec_testsbox_eq_impl, BC.Magma.decrypt_eq_spec, piOf_testsbox]

/-! ## `Gost89<CryptoProA>` -/

/-- `Gost89::<CryptoProA>::new(key).encrypt_block(b)` on the regenerated code -/
def enc_cryptoproa (key : BitVec 256) (b : BitVec 64) : BitVec 64 :=
  match gost89_new key with
  | (k0, k1, k2, k3, k4, k5, k6, k7) => gost89_cryptoproa_encrypt_block k0 k1 k2 k3 k4 k5 k6 k7 b

/-- `Gost89::<CryptoProA>::new(key).decrypt_block(b)` on the regenerated code -/
def dec_cryptoproa (key : BitVec 256) (b : BitVec 64) : BitVec 64 :=
  match gost89_new key with
  | (k0, k1, k2, k3, k4, k5, k6, k7) => gost89_cryptoproa_decrypt_block k0 k1 k2 k3 k4 k5 k6 k7 b

theorem enc_cryptoproa_eq_impl (key : BitVec 256) (b : BitVec 64) :
    enc_cryptoproa key b = BC.Magma.encrypt BC.Magma.CryptoProA (BC.Magma.new key) b := by
  rw [BC.GenKeys.Magma.new_eq key]
  unfold enc_cryptoproa
  generalize gost89_new key = t
  obtain ⟨k0, k1, k2, k3, k4, k5, k6, k7⟩ := t
  exact BC.GenCipher.Magma.gost89_cryptoproa_encrypt_block_eq k0 k1 k2 k3 k4 k5 k6 k7 b

theorem dec_cryptoproa_eq_impl (key : BitVec 256) (b : BitVec 64) :
    dec_cryptoproa key b = BC.Magma.decrypt BC.Magma.CryptoProA (BC.Magma.new key) b := by
  rw [BC.GenKeys.Magma.new_eq key]
  unfold dec_cryptoproa
  generalize gost89_new key = t
  obtain ⟨k0, k1, k2, k3, k4, k5, k6, k7⟩ := t
  exact BC.GenCipher.Magma.gost89_cryptoproa_decrypt_block_eq k0 k1 k2 k3 k4 k5 k6 k7 b

theorem dec_cryptoproa_enc_cryptoproa (key : BitVec 256) (b : BitVec 64) : dec_cryptoproa key (enc_cryptoproa key b) = b := by
  rw [enc_cryptoproa_eq_impl, dec_cryptoproa_eq_impl, BC.Magma.decrypt_encrypt_key]

theorem enc_cryptoproa_dec_cryptoproa (key : BitVec 256) (b : BitVec 64) : enc_cryptoproa key (dec_cryptoproa key b) = b := by
  rw [enc_cryptoproa_eq_impl, dec_cryptoproa_eq_impl, BC.Magma.encrypt_decrypt_key]

/-- the regenerated `CryptoProA` table, read as a substitution set, is the model's table -/
theorem piOf_cryptoproa : piOf BC.Gen.magma_CryptoProA_SBOX = BC.Magma.CryptoProA := by decide +kernel

/-- the regenerated `Gost89<CryptoProA>` encryption is the 32-round network `E` of the standard over the regenerated table -/
theorem enc_cryptoproa_eq_spec (key : BitVec 256) (b : BitVec 64) :
    enc_cryptoproa key b = BC.Spec.Magma.E (piOf BC.Gen.magma_CryptoProA_SBOX) key b := by
  rw [enc_cryptoproa_eq_impl, BC.Magma.encrypt_eq_spec, piOf_cryptoproa]

theorem dec_cryptoproa_eq_spec (key : BitVec 256) (b : BitVec 64) :
    dec_cryptoproa key b = BC.Spec.Magma.D (piOf BC.Gen.magma_CryptoProA_SBOX) key b := by
  rw [dec_cryptoproa_eq_impl, BC.Magma.decrypt_eq_spec, piOf_cryptoproa]

/-! ## `Gost89<CryptoProB>` -/

/-- `Gost89::<CryptoProB>::new(key).encrypt_block(b)` on the regenerated code -/
def enc_cryptoprob (key : BitVec 256) (b : BitVec 64) : BitVec 64 :=
  match gost89_new key with
  | (k0, k1, k2, k3, k4, k5, k6, k7) => gost89_cryptoprob_encrypt_block k0 k1 k2 k3 k4 k5 k6 k7 b

/-- `Gost89::<CryptoProB>::new(key).decrypt_block(b)` on the regenerated code -/
def dec_cryptoprob (key : BitVec 256) (b : BitVec 64) : BitVec 64 :=
  match gost89_new key with
  | (k0, k1, k2, k3, k4, k5, k6, k7) => gost89_cryptoprob_decrypt_block k0 k1 k2 k3 k4 k5 k6 k7 b

theorem enc_cryptoprob_eq_impl (key : BitVec 256) (b : BitVec 64) :
    enc_cryptoprob key b = BC.Magma.encrypt BC.Magma.CryptoProB (BC.Magma.new key) b := by
  rw [BC.GenKeys.Magma.new_eq key]
  unfold enc_cryptoprob
  generalize gost89_new key = t
  obtain ⟨k0, k1, k2, k3, k4, k5, k6, k7⟩ := t
  exact BC.GenCipher.Magma.gost89_cryptoprob_encrypt_block_eq k0 k1 k2 k3 k4 k5 k6 k7 b

theorem dec_cryptoprob_eq_impl (key : BitVec 256) (b : BitVec 64) :
    dec_cryptoprob key b = BC.Magma.decrypt BC.Magma.CryptoProB (BC.Magma.new key) b := by
  rw [BC.GenKeys.Magma.new_eq key]
  unfold dec_cryptoprob
  generalize gost89_new key = t
  obtain ⟨k0, k1, k2, k3, k4, k5, k6, k7⟩ := t
  exact BC.GenCipher.Magma.gost89_cryptoprob_decrypt_block_eq k0 k1 k2 k3 k4 k5 k6 k7 b

theorem dec_cryptoprob_enc_cryptoprob (key : BitVec 256) (b : BitVec 64) : dec_cryptoprob key (enc_cryptoprob key b) = b := by
  rw [enc_cryptoprob_eq_impl, dec_cryptoprob_eq_impl, BC.Magma.decrypt_encrypt_key]

theorem enc_cryptoprob_dec_cryptoprob (key : BitVec 256) (b : BitVec 64) : enc_cryptoprob key (dec_cryptoprob key b) = b := by
  rw [enc_cryptoprob_eq_impl, dec_cryptoprob_eq_impl, BC.Magma.encrypt_decrypt_key]

/-- the regenerated `CryptoProB` table, read as a substitution set, is the model's table -/
theorem piOf_cryptoprob : piOf BC.Gen.magma_CryptoProB_SBOX = BC.Magma.CryptoProB := by decide +kernel

/-- the regenerated `Gost89<CryptoProB>` encryption is the 32-round network `E` of the standard over the regenerated table -/
theorem enc_cryptoprob_eq_spec (key : BitVec 256) (b : BitVec 64) :
    enc_cryptoprob key b = BC.Spec.Magma.E (piOf BC.Gen.magma_CryptoProB_SBOX) key b := by
  rw [enc_cryptoprob_eq_impl, BC.Magma.encrypt_eq_spec, piOf_cryptoprob]

theorem dec_cryptoprob_eq_spec (key : BitVec 256) (b : BitVec 64) :
    dec_cryptoprob key b = BC.Spec.Magma.D (piOf BC.Gen.magma_CryptoProB_SBOX) key b := by
  rw [dec_cryptoprob_eq_impl, BC.Magma.decrypt_eq_spec, piOf_cryptoprob]

/-! ## `Gost89<CryptoProC>` -/

/-- `Gost89::<CryptoProC>::new(key).encrypt_block(b)` on the regenerated code -/
def enc_cryptoproc (key : BitVec 256) (b : BitVec 64) : BitVec 64 :=
  match gost89_new key with
  | (k0, k1, k2, k3, k4, k5, k6, k7) => gost89_cryptoproc_encrypt_block k0 k1 k2 k3 k4 k5 k6 k7 b

/-- `Gost89::<CryptoProC>::new(key).decrypt_block(b)` on the regenerated code -/
def dec_cryptoproc (key : BitVec 256) (b : BitVec 64) : BitVec 64 :=
  match gost89_new key with
  | (k0, k1, k2, k3, k4, k5, k6, k7) => gost89_cryptoproc_decrypt_block k0 k1 k2 k3 k4 k5 k6 k7 b

theorem enc_cryptoproc_eq_impl (key : BitVec 256) (b : BitVec 64) :
    enc_cryptoproc key b = BC.Magma.encrypt BC.Magma.CryptoProC (BC.Magma.new key) b := by
  rw [BC.GenKeys.Magma.new_eq key]
  unfold enc_cryptoproc
  generalize gost89_new key = t
  obtain ⟨k0, k1, k2, k3, k4, k5, k6, k7⟩ := t
  exact BC.GenCipher.Magma.gost89_cryptoproc_encrypt_block_eq k0 k1 k2 k3 k4 k5 k6 k7 b

theorem dec_cryptoproc_eq_impl (key : BitVec 256) (b : BitVec 64) :
    dec_cryptoproc key b = BC.Magma.decrypt BC.Magma.CryptoProC (BC.Magma.new key) b := by
  rw [BC.GenKeys.Magma.new_eq key]
  unfold dec_cryptoproc
  generalize gost89_new key = t
  obtain ⟨k0, k1, k2, k3, k4, k5, k6, k7⟩ := t
  exact BC.GenCipher.Magma.gost89_cryptoproc_decrypt_block_eq k0 k1 k2 k3 k4 k5 k6 k7 b

theorem dec_cryptoproc_enc_cryptoproc (key : BitVec 256) (b : BitVec 64) : dec_cryptoproc key (enc_cryptoproc key b) = b := by
  rw [enc_cryptoproc_eq_impl, dec_cryptoproc_eq_impl, BC.Magma.decrypt_encrypt_key]

theorem enc_cryptoproc_dec_cryptoproc (key : BitVec 256) (b : BitVec 64) : enc_cryptoproc key (dec_cryptoproc key b) = b := by
  rw [enc_cryptoproc_eq_impl, dec_cryptoproc_eq_impl, BC.Magma.encrypt_decrypt_key]

/-- the regenerated `CryptoProC` table, read as a substitution set, is the model's table -/
theorem piOf_cryptoproc : piOf BC.Gen.magma_CryptoProC_SBOX = BC.Magma.CryptoProC := by decide +kernel

/-- the regenerated `Gost89<CryptoProC>` encryption is the 32-round network `E` of the standard over the regenerated table -/
theorem enc_cryptoproc_eq_spec (key : BitVec 256) (b : BitVec 64) :
    enc_cryptoproc key b = BC.Spec.Magma.E (piOf BC.Gen.magma_CryptoProC_SBOX) key b := by
  rw [enc_cryptoproc_eq_impl, BC.Magma.encrypt_eq_spec, piOf_cryptoproc]

theorem dec_cryptoproc_eq_spec (key : BitVec 256) (b : BitVec 64) :
    dec_cryptoproc key b = BC.Spec.Magma.D (piOf BC.Gen.magma_CryptoProC_SBOX) key b := by
  rw [dec_cryptoproc_eq_impl, BC.Magma.decrypt_eq_spec, piOf_cryptoproc]

/-! ## `Gost89<CryptoProD>` -/

/-- `Gost89::<CryptoProD>::new(key).encrypt_block(b)` on the regenerated code -/
def enc_cryptoprod (key : BitVec 256) (b : BitVec 64) : BitVec 64 :=
  match gost89_new key with
  | (k0, k1, k2, k3, k4, k5, k6, k7) => gost89_cryptoprod_encrypt_block k0 k1 k2 k3 k4 k5 k6 k7 b

/-- `Gost89::<CryptoProD>::new(key).decrypt_block(b)` on the regenerated code -/
def dec_cryptoprod (key : BitVec 256) (b : BitVec 64) : BitVec 64 :=
  match gost89_new key with
  | (k0, k1, k2, k3, k4, k5, k6, k7) => gost89_cryptoprod_decrypt_block k0 k1 k2 k3 k4 k5 k6 k7 b

theorem enc_cryptoprod_eq_impl (key : BitVec 256) (b : BitVec 64) :
    enc_cryptoprod key b = BC.Magma.encrypt BC.Magma.CryptoProD (BC.Magma.new key) b := by
  rw [BC.GenKeys.Magma.new_eq key]
  unfold enc_cryptoprod
  generalize gost89_new key = t
  obtain ⟨k0, k1, k2, k3, k4, k5, k6, k7⟩ := t
  exact BC.GenCipher.Magma.gost89_cryptoprod_encrypt_block_eq k0 k1 k2 k3 k4 k5 k6 k7 b

theorem dec_cryptoprod_eq_impl (key : BitVec 256) (b : BitVec 64) :
    dec_cryptoprod key b = BC.Magma.decrypt BC.Magma.CryptoProD (BC.Magma.new key) b := by
  rw [BC.GenKeys.Magma.new_eq key]
  unfold dec_cryptoprod
  generalize gost89_new key = t
  obtain ⟨k0, k1, k2, k3, k4, k5, k6, k7⟩ := t
  exact BC.GenCipher.Magma.gost89_cryptoprod_decrypt_block_eq k0 k1 k2 k3 k4 k5 k6 k7 b

theorem dec_cryptoprod_enc_cryptoprod (key : BitVec 256) (b : BitVec 64) : dec_cryptoprod key (enc_cryptoprod key b) = b := by
  rw [enc_cryptoprod_eq_impl, dec_cryptoprod_eq_impl, BC.Magma.decrypt_encrypt_key]

theorem enc_cryptoprod_dec_cryptoprod (key : BitVec 256) (b : BitVec 64) : enc_cryptoprod key (dec_cryptoprod key b) = b := by
  rw [enc_cryptoprod_eq_impl, dec_cryptoprod_eq_impl, BC.Magma.encrypt_decrypt_key]

/-- the regenerated `CryptoProD` table, read as a substitution set, is the model's table -/
theorem piOf_cryptoprod : piOf BC.Gen.magma_CryptoProD_SBOX = BC.Magma.CryptoProD := by decide +kernel

/-- the regenerated `Gost89<CryptoProD>` encryption is the 32-round network `E` of the standard over the regenerated table -/
theorem enc_cryptoprod_eq_spec (key : BitVec 256) (b : BitVec 64) :
    enc_cryptoprod key b = BC.Spec.Magma.E (piOf BC.Gen.magma_CryptoProD_SBOX) key b := by
  rw [enc_cryptoprod_eq_impl, BC.Magma.encrypt_eq_spec, piOf_cryptoprod]

theorem dec_cryptoprod_eq_spec (key : BitVec 256) (b : BitVec 64) :
    dec_cryptoprod key b = BC.Spec.Magma.D (piOf BC.Gen.magma_CryptoProD_SBOX) key b := by
  rw [dec_cryptoprod_eq_impl, BC.Magma.decrypt_eq_spec, piOf_cryptoprod]

end BC.Code.Magma
