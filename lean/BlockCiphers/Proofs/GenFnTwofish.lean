import BlockCiphers.Gen.Fn_Twofish
import BlockCiphers.Impl.Twofish
import Std.Tactic.BVDecide
/-
Tie theorems for the leaf functions of Twofish (`twofish/src/lib.rs`): the regenerated `gf_mult` (a `while a > 0` loop
with data-dependent `if`s, unrolled 8 times by the translator's interval analysis and translated as selects),
`sbox(i, ·)` (i = 0, 1), `mds_column_mult(·, c)` (c = 0..3), `mds_mult`, `rs_mult`, `h(·, m, k, offset)` (k = 2, 3, 4 key
words of 64 bits, offset = 0, 1) ARE the model's functions, for all arguments.
-/
set_option maxRecDepth 100000
set_option linter.unusedSimpArgs false
namespace BC.GenFn.Twofish
open BC.Gen.Fn BC.Twofish

theorem gf_mult_eq (a b p : BitVec 8) : twofish_gf_mult a b p = gfMult a b p := by
  simp only [twofish_gf_mult, gfMult, gfLoop]
  bv_decide (config := { timeout := 600 })

theorem sbox_0_all : ∀ n : Fin 256, twofish_sbox_0 (BitVec.ofNat 8 n.val) = sbox 0 (BitVec.ofNat 8 n.val) := by decide +kernel
theorem sbox_1_all : ∀ n : Fin 256, twofish_sbox_1 (BitVec.ofNat 8 n.val) = sbox 1 (BitVec.ofNat 8 n.val) := by decide +kernel

theorem sbox_0_eq (x : BitVec 8) : twofish_sbox_0 x = sbox 0 x := by
  have h := sbox_0_all ⟨x.toNat, x.isLt⟩
  simpa only [BitVec.ofNat_toNat, BitVec.setWidth_eq] using h

theorem sbox_1_eq (x : BitVec 8) : twofish_sbox_1 x = sbox 1 x := by
  have h := sbox_1_all ⟨x.toNat, x.isLt⟩
  simpa only [BitVec.ofNat_toNat, BitVec.setWidth_eq] using h

theorem mds_column_mult_0_eq (x : BitVec 8) : twofish_mds_column_mult_0 x = mdsColumnMult x 0 := by
  simp only [twofish_mds_column_mult_0, mdsColumnMult, gf_mult_eq, leWord, MDS_POLY]
  generalize gfMult x 0x5b#8 0x69#8 = u
  generalize gfMult x 0xef#8 0x69#8 = v
  bv_decide
theorem mds_column_mult_1_eq (x : BitVec 8) : twofish_mds_column_mult_1 x = mdsColumnMult x 1 := by
  simp only [twofish_mds_column_mult_1, mdsColumnMult, gf_mult_eq, leWord, MDS_POLY]
  generalize gfMult x 0x5b#8 0x69#8 = u
  generalize gfMult x 0xef#8 0x69#8 = v
  bv_decide
theorem mds_column_mult_2_eq (x : BitVec 8) : twofish_mds_column_mult_2 x = mdsColumnMult x 2 := by
  simp only [twofish_mds_column_mult_2, mdsColumnMult, gf_mult_eq, leWord, MDS_POLY]
  generalize gfMult x 0x5b#8 0x69#8 = u
  generalize gfMult x 0xef#8 0x69#8 = v
  bv_decide
theorem mds_column_mult_3_eq (x : BitVec 8) : twofish_mds_column_mult_3 x = mdsColumnMult x 3 := by
  simp only [twofish_mds_column_mult_3, mdsColumnMult, gf_mult_eq, leWord, MDS_POLY]
  generalize gfMult x 0x5b#8 0x69#8 = u
  generalize gfMult x 0xef#8 0x69#8 = v
  bv_decide

theorem mds_mult_eq (y0 y1 y2 y3 : BitVec 8) : twofish_mds_mult y0 y1 y2 y3 = mdsMult y0 y1 y2 y3 := by
  simp only [twofish_mds_mult, mdsMult, mds_column_mult_0_eq, mds_column_mult_1_eq, mds_column_mult_2_eq, mds_column_mult_3_eq]

theorem rs_0_0 : rs 0 0 = 0x1#8 := by decide
theorem rs_0_1 : rs 0 1 = 0xa4#8 := by decide
theorem rs_0_2 : rs 0 2 = 0x55#8 := by decide
theorem rs_0_3 : rs 0 3 = 0x87#8 := by decide
theorem rs_0_4 : rs 0 4 = 0x5a#8 := by decide
theorem rs_0_5 : rs 0 5 = 0x58#8 := by decide
theorem rs_0_6 : rs 0 6 = 0xdb#8 := by decide
theorem rs_0_7 : rs 0 7 = 0x9e#8 := by decide
theorem rs_1_0 : rs 1 0 = 0xa4#8 := by decide
theorem rs_1_1 : rs 1 1 = 0x56#8 := by decide
theorem rs_1_2 : rs 1 2 = 0x82#8 := by decide
theorem rs_1_3 : rs 1 3 = 0xf3#8 := by decide
theorem rs_1_4 : rs 1 4 = 0x1e#8 := by decide
theorem rs_1_5 : rs 1 5 = 0xc6#8 := by decide
theorem rs_1_6 : rs 1 6 = 0x68#8 := by decide
theorem rs_1_7 : rs 1 7 = 0xe5#8 := by decide
theorem rs_2_0 : rs 2 0 = 0x2#8 := by decide
theorem rs_2_1 : rs 2 1 = 0xa1#8 := by decide
theorem rs_2_2 : rs 2 2 = 0xfc#8 := by decide
theorem rs_2_3 : rs 2 3 = 0xc1#8 := by decide
theorem rs_2_4 : rs 2 4 = 0x47#8 := by decide
theorem rs_2_5 : rs 2 5 = 0xae#8 := by decide
theorem rs_2_6 : rs 2 6 = 0x3d#8 := by decide
theorem rs_2_7 : rs 2 7 = 0x19#8 := by decide
theorem rs_3_0 : rs 3 0 = 0xa4#8 := by decide
theorem rs_3_1 : rs 3 1 = 0x55#8 := by decide
theorem rs_3_2 : rs 3 2 = 0x87#8 := by decide
theorem rs_3_3 : rs 3 3 = 0x5a#8 := by decide
theorem rs_3_4 : rs 3 4 = 0x58#8 := by decide
theorem rs_3_5 : rs 3 5 = 0xdb#8 := by decide
theorem rs_3_6 : rs 3 6 = 0x9e#8 := by decide
theorem rs_3_7 : rs 3 7 = 0x3#8 := by decide

theorem range8 : List.range 8 = [0, 1, 2, 3, 4, 5, 6, 7] := by decide

/-- `rs_mult(m, out)`: the four output bytes (the previous content of `out` is overwritten) -/
theorem rs_mult_eq (m0 m1 m2 m3 m4 m5 m6 m7 : BitVec 8) :
    twofish_rs_mult m0 m1 m2 m3 m4 m5 m6 m7 =
      (let m := fun j => [m0, m1, m2, m3, m4, m5, m6, m7].getD j 0#8
       (rsMultRow m 0, rsMultRow m 1, rsMultRow m 2, rsMultRow m 3)) := by
  simp only [twofish_rs_mult, rsMultRow, range8, List.foldl, gf_mult_eq, RS_POLY, rs_0_0, rs_0_1, rs_0_2, rs_0_3, rs_0_4, rs_0_5, rs_0_6, rs_0_7, rs_1_0, rs_1_1, rs_1_2, rs_1_3, rs_1_4, rs_1_5, rs_1_6, rs_1_7, rs_2_0, rs_2_1, rs_2_2, rs_2_3, rs_2_4, rs_2_5, rs_2_6, rs_2_7, rs_3_0, rs_3_1, rs_3_2, rs_3_3, rs_3_4, rs_3_5, rs_3_6, rs_3_7,
    List.getD_cons_zero, List.getD_cons_succ]

theorem leByte0 (x : BitVec 32) : leByte x 0 = x.extractLsb' 0 8 := by simp only [leByte]; bv_decide
theorem leByte1 (x : BitVec 32) : leByte x 1 = x.extractLsb' 8 8 := by simp only [leByte]; bv_decide
theorem leByte2 (x : BitVec 32) : leByte x 2 = x.extractLsb' 16 8 := by simp only [leByte]; bv_decide
theorem leByte3 (x : BitVec 32) : leByte x 3 = x.extractLsb' 24 8 := by simp only [leByte]; bv_decide

theorem getD16_0 (b0 b1 b2 b3 b4 b5 b6 b7 b8 b9 b10 b11 b12 b13 b14 b15 : BitVec 8) : (#[b0, b1, b2, b3, b4, b5, b6, b7, b8, b9, b10, b11, b12, b13, b14, b15] : Array (BitVec 8)).getD 0 0#8 = b0 := rfl
theorem getD16_1 (b0 b1 b2 b3 b4 b5 b6 b7 b8 b9 b10 b11 b12 b13 b14 b15 : BitVec 8) : (#[b0, b1, b2, b3, b4, b5, b6, b7, b8, b9, b10, b11, b12, b13, b14, b15] : Array (BitVec 8)).getD 1 0#8 = b1 := rfl
theorem getD16_2 (b0 b1 b2 b3 b4 b5 b6 b7 b8 b9 b10 b11 b12 b13 b14 b15 : BitVec 8) : (#[b0, b1, b2, b3, b4, b5, b6, b7, b8, b9, b10, b11, b12, b13, b14, b15] : Array (BitVec 8)).getD 2 0#8 = b2 := rfl
theorem getD16_3 (b0 b1 b2 b3 b4 b5 b6 b7 b8 b9 b10 b11 b12 b13 b14 b15 : BitVec 8) : (#[b0, b1, b2, b3, b4, b5, b6, b7, b8, b9, b10, b11, b12, b13, b14, b15] : Array (BitVec 8)).getD 3 0#8 = b3 := rfl
theorem getD16_4 (b0 b1 b2 b3 b4 b5 b6 b7 b8 b9 b10 b11 b12 b13 b14 b15 : BitVec 8) : (#[b0, b1, b2, b3, b4, b5, b6, b7, b8, b9, b10, b11, b12, b13, b14, b15] : Array (BitVec 8)).getD 4 0#8 = b4 := rfl
theorem getD16_5 (b0 b1 b2 b3 b4 b5 b6 b7 b8 b9 b10 b11 b12 b13 b14 b15 : BitVec 8) : (#[b0, b1, b2, b3, b4, b5, b6, b7, b8, b9, b10, b11, b12, b13, b14, b15] : Array (BitVec 8)).getD 5 0#8 = b5 := rfl
theorem getD16_6 (b0 b1 b2 b3 b4 b5 b6 b7 b8 b9 b10 b11 b12 b13 b14 b15 : BitVec 8) : (#[b0, b1, b2, b3, b4, b5, b6, b7, b8, b9, b10, b11, b12, b13, b14, b15] : Array (BitVec 8)).getD 6 0#8 = b6 := rfl
theorem getD16_7 (b0 b1 b2 b3 b4 b5 b6 b7 b8 b9 b10 b11 b12 b13 b14 b15 : BitVec 8) : (#[b0, b1, b2, b3, b4, b5, b6, b7, b8, b9, b10, b11, b12, b13, b14, b15] : Array (BitVec 8)).getD 7 0#8 = b7 := rfl
theorem getD16_8 (b0 b1 b2 b3 b4 b5 b6 b7 b8 b9 b10 b11 b12 b13 b14 b15 : BitVec 8) : (#[b0, b1, b2, b3, b4, b5, b6, b7, b8, b9, b10, b11, b12, b13, b14, b15] : Array (BitVec 8)).getD 8 0#8 = b8 := rfl
theorem getD16_9 (b0 b1 b2 b3 b4 b5 b6 b7 b8 b9 b10 b11 b12 b13 b14 b15 : BitVec 8) : (#[b0, b1, b2, b3, b4, b5, b6, b7, b8, b9, b10, b11, b12, b13, b14, b15] : Array (BitVec 8)).getD 9 0#8 = b9 := rfl
theorem getD16_10 (b0 b1 b2 b3 b4 b5 b6 b7 b8 b9 b10 b11 b12 b13 b14 b15 : BitVec 8) : (#[b0, b1, b2, b3, b4, b5, b6, b7, b8, b9, b10, b11, b12, b13, b14, b15] : Array (BitVec 8)).getD 10 0#8 = b10 := rfl
theorem getD16_11 (b0 b1 b2 b3 b4 b5 b6 b7 b8 b9 b10 b11 b12 b13 b14 b15 : BitVec 8) : (#[b0, b1, b2, b3, b4, b5, b6, b7, b8, b9, b10, b11, b12, b13, b14, b15] : Array (BitVec 8)).getD 11 0#8 = b11 := rfl
theorem getD16_12 (b0 b1 b2 b3 b4 b5 b6 b7 b8 b9 b10 b11 b12 b13 b14 b15 : BitVec 8) : (#[b0, b1, b2, b3, b4, b5, b6, b7, b8, b9, b10, b11, b12, b13, b14, b15] : Array (BitVec 8)).getD 12 0#8 = b12 := rfl
theorem getD16_13 (b0 b1 b2 b3 b4 b5 b6 b7 b8 b9 b10 b11 b12 b13 b14 b15 : BitVec 8) : (#[b0, b1, b2, b3, b4, b5, b6, b7, b8, b9, b10, b11, b12, b13, b14, b15] : Array (BitVec 8)).getD 13 0#8 = b13 := rfl
theorem getD16_14 (b0 b1 b2 b3 b4 b5 b6 b7 b8 b9 b10 b11 b12 b13 b14 b15 : BitVec 8) : (#[b0, b1, b2, b3, b4, b5, b6, b7, b8, b9, b10, b11, b12, b13, b14, b15] : Array (BitVec 8)).getD 14 0#8 = b14 := rfl
theorem getD16_15 (b0 b1 b2 b3 b4 b5 b6 b7 b8 b9 b10 b11 b12 b13 b14 b15 : BitVec 8) : (#[b0, b1, b2, b3, b4, b5, b6, b7, b8, b9, b10, b11, b12, b13, b14, b15] : Array (BitVec 8)).getD 15 0#8 = b15 := rfl
theorem getD24_0 (b0 b1 b2 b3 b4 b5 b6 b7 b8 b9 b10 b11 b12 b13 b14 b15 b16 b17 b18 b19 b20 b21 b22 b23 : BitVec 8) : (#[b0, b1, b2, b3, b4, b5, b6, b7, b8, b9, b10, b11, b12, b13, b14, b15, b16, b17, b18, b19, b20, b21, b22, b23] : Array (BitVec 8)).getD 0 0#8 = b0 := rfl
theorem getD24_1 (b0 b1 b2 b3 b4 b5 b6 b7 b8 b9 b10 b11 b12 b13 b14 b15 b16 b17 b18 b19 b20 b21 b22 b23 : BitVec 8) : (#[b0, b1, b2, b3, b4, b5, b6, b7, b8, b9, b10, b11, b12, b13, b14, b15, b16, b17, b18, b19, b20, b21, b22, b23] : Array (BitVec 8)).getD 1 0#8 = b1 := rfl
theorem getD24_2 (b0 b1 b2 b3 b4 b5 b6 b7 b8 b9 b10 b11 b12 b13 b14 b15 b16 b17 b18 b19 b20 b21 b22 b23 : BitVec 8) : (#[b0, b1, b2, b3, b4, b5, b6, b7, b8, b9, b10, b11, b12, b13, b14, b15, b16, b17, b18, b19, b20, b21, b22, b23] : Array (BitVec 8)).getD 2 0#8 = b2 := rfl
theorem getD24_3 (b0 b1 b2 b3 b4 b5 b6 b7 b8 b9 b10 b11 b12 b13 b14 b15 b16 b17 b18 b19 b20 b21 b22 b23 : BitVec 8) : (#[b0, b1, b2, b3, b4, b5, b6, b7, b8, b9, b10, b11, b12, b13, b14, b15, b16, b17, b18, b19, b20, b21, b22, b23] : Array (BitVec 8)).getD 3 0#8 = b3 := rfl
theorem getD24_4 (b0 b1 b2 b3 b4 b5 b6 b7 b8 b9 b10 b11 b12 b13 b14 b15 b16 b17 b18 b19 b20 b21 b22 b23 : BitVec 8) : (#[b0, b1, b2, b3, b4, b5, b6, b7, b8, b9, b10, b11, b12, b13, b14, b15, b16, b17, b18, b19, b20, b21, b22, b23] : Array (BitVec 8)).getD 4 0#8 = b4 := rfl
theorem getD24_5 (b0 b1 b2 b3 b4 b5 b6 b7 b8 b9 b10 b11 b12 b13 b14 b15 b16 b17 b18 b19 b20 b21 b22 b23 : BitVec 8) : (#[b0, b1, b2, b3, b4, b5, b6, b7, b8, b9, b10, b11, b12, b13, b14, b15, b16, b17, b18, b19, b20, b21, b22, b23] : Array (BitVec 8)).getD 5 0#8 = b5 := rfl
theorem getD24_6 (b0 b1 b2 b3 b4 b5 b6 b7 b8 b9 b10 b11 b12 b13 b14 b15 b16 b17 b18 b19 b20 b21 b22 b23 : BitVec 8) : (#[b0, b1, b2, b3, b4, b5, b6, b7, b8, b9, b10, b11, b12, b13, b14, b15, b16, b17, b18, b19, b20, b21, b22, b23] : Array (BitVec 8)).getD 6 0#8 = b6 := rfl
theorem getD24_7 (b0 b1 b2 b3 b4 b5 b6 b7 b8 b9 b10 b11 b12 b13 b14 b15 b16 b17 b18 b19 b20 b21 b22 b23 : BitVec 8) : (#[b0, b1, b2, b3, b4, b5, b6, b7, b8, b9, b10, b11, b12, b13, b14, b15, b16, b17, b18, b19, b20, b21, b22, b23] : Array (BitVec 8)).getD 7 0#8 = b7 := rfl
theorem getD24_8 (b0 b1 b2 b3 b4 b5 b6 b7 b8 b9 b10 b11 b12 b13 b14 b15 b16 b17 b18 b19 b20 b21 b22 b23 : BitVec 8) : (#[b0, b1, b2, b3, b4, b5, b6, b7, b8, b9, b10, b11, b12, b13, b14, b15, b16, b17, b18, b19, b20, b21, b22, b23] : Array (BitVec 8)).getD 8 0#8 = b8 := rfl
theorem getD24_9 (b0 b1 b2 b3 b4 b5 b6 b7 b8 b9 b10 b11 b12 b13 b14 b15 b16 b17 b18 b19 b20 b21 b22 b23 : BitVec 8) : (#[b0, b1, b2, b3, b4, b5, b6, b7, b8, b9, b10, b11, b12, b13, b14, b15, b16, b17, b18, b19, b20, b21, b22, b23] : Array (BitVec 8)).getD 9 0#8 = b9 := rfl
theorem getD24_10 (b0 b1 b2 b3 b4 b5 b6 b7 b8 b9 b10 b11 b12 b13 b14 b15 b16 b17 b18 b19 b20 b21 b22 b23 : BitVec 8) : (#[b0, b1, b2, b3, b4, b5, b6, b7, b8, b9, b10, b11, b12, b13, b14, b15, b16, b17, b18, b19, b20, b21, b22, b23] : Array (BitVec 8)).getD 10 0#8 = b10 := rfl
theorem getD24_11 (b0 b1 b2 b3 b4 b5 b6 b7 b8 b9 b10 b11 b12 b13 b14 b15 b16 b17 b18 b19 b20 b21 b22 b23 : BitVec 8) : (#[b0, b1, b2, b3, b4, b5, b6, b7, b8, b9, b10, b11, b12, b13, b14, b15, b16, b17, b18, b19, b20, b21, b22, b23] : Array (BitVec 8)).getD 11 0#8 = b11 := rfl
theorem getD24_12 (b0 b1 b2 b3 b4 b5 b6 b7 b8 b9 b10 b11 b12 b13 b14 b15 b16 b17 b18 b19 b20 b21 b22 b23 : BitVec 8) : (#[b0, b1, b2, b3, b4, b5, b6, b7, b8, b9, b10, b11, b12, b13, b14, b15, b16, b17, b18, b19, b20, b21, b22, b23] : Array (BitVec 8)).getD 12 0#8 = b12 := rfl
theorem getD24_13 (b0 b1 b2 b3 b4 b5 b6 b7 b8 b9 b10 b11 b12 b13 b14 b15 b16 b17 b18 b19 b20 b21 b22 b23 : BitVec 8) : (#[b0, b1, b2, b3, b4, b5, b6, b7, b8, b9, b10, b11, b12, b13, b14, b15, b16, b17, b18, b19, b20, b21, b22, b23] : Array (BitVec 8)).getD 13 0#8 = b13 := rfl
theorem getD24_14 (b0 b1 b2 b3 b4 b5 b6 b7 b8 b9 b10 b11 b12 b13 b14 b15 b16 b17 b18 b19 b20 b21 b22 b23 : BitVec 8) : (#[b0, b1, b2, b3, b4, b5, b6, b7, b8, b9, b10, b11, b12, b13, b14, b15, b16, b17, b18, b19, b20, b21, b22, b23] : Array (BitVec 8)).getD 14 0#8 = b14 := rfl
theorem getD24_15 (b0 b1 b2 b3 b4 b5 b6 b7 b8 b9 b10 b11 b12 b13 b14 b15 b16 b17 b18 b19 b20 b21 b22 b23 : BitVec 8) : (#[b0, b1, b2, b3, b4, b5, b6, b7, b8, b9, b10, b11, b12, b13, b14, b15, b16, b17, b18, b19, b20, b21, b22, b23] : Array (BitVec 8)).getD 15 0#8 = b15 := rfl
theorem getD24_16 (b0 b1 b2 b3 b4 b5 b6 b7 b8 b9 b10 b11 b12 b13 b14 b15 b16 b17 b18 b19 b20 b21 b22 b23 : BitVec 8) : (#[b0, b1, b2, b3, b4, b5, b6, b7, b8, b9, b10, b11, b12, b13, b14, b15, b16, b17, b18, b19, b20, b21, b22, b23] : Array (BitVec 8)).getD 16 0#8 = b16 := rfl
theorem getD24_17 (b0 b1 b2 b3 b4 b5 b6 b7 b8 b9 b10 b11 b12 b13 b14 b15 b16 b17 b18 b19 b20 b21 b22 b23 : BitVec 8) : (#[b0, b1, b2, b3, b4, b5, b6, b7, b8, b9, b10, b11, b12, b13, b14, b15, b16, b17, b18, b19, b20, b21, b22, b23] : Array (BitVec 8)).getD 17 0#8 = b17 := rfl
theorem getD24_18 (b0 b1 b2 b3 b4 b5 b6 b7 b8 b9 b10 b11 b12 b13 b14 b15 b16 b17 b18 b19 b20 b21 b22 b23 : BitVec 8) : (#[b0, b1, b2, b3, b4, b5, b6, b7, b8, b9, b10, b11, b12, b13, b14, b15, b16, b17, b18, b19, b20, b21, b22, b23] : Array (BitVec 8)).getD 18 0#8 = b18 := rfl
theorem getD24_19 (b0 b1 b2 b3 b4 b5 b6 b7 b8 b9 b10 b11 b12 b13 b14 b15 b16 b17 b18 b19 b20 b21 b22 b23 : BitVec 8) : (#[b0, b1, b2, b3, b4, b5, b6, b7, b8, b9, b10, b11, b12, b13, b14, b15, b16, b17, b18, b19, b20, b21, b22, b23] : Array (BitVec 8)).getD 19 0#8 = b19 := rfl
theorem getD24_20 (b0 b1 b2 b3 b4 b5 b6 b7 b8 b9 b10 b11 b12 b13 b14 b15 b16 b17 b18 b19 b20 b21 b22 b23 : BitVec 8) : (#[b0, b1, b2, b3, b4, b5, b6, b7, b8, b9, b10, b11, b12, b13, b14, b15, b16, b17, b18, b19, b20, b21, b22, b23] : Array (BitVec 8)).getD 20 0#8 = b20 := rfl
theorem getD24_21 (b0 b1 b2 b3 b4 b5 b6 b7 b8 b9 b10 b11 b12 b13 b14 b15 b16 b17 b18 b19 b20 b21 b22 b23 : BitVec 8) : (#[b0, b1, b2, b3, b4, b5, b6, b7, b8, b9, b10, b11, b12, b13, b14, b15, b16, b17, b18, b19, b20, b21, b22, b23] : Array (BitVec 8)).getD 21 0#8 = b21 := rfl
theorem getD24_22 (b0 b1 b2 b3 b4 b5 b6 b7 b8 b9 b10 b11 b12 b13 b14 b15 b16 b17 b18 b19 b20 b21 b22 b23 : BitVec 8) : (#[b0, b1, b2, b3, b4, b5, b6, b7, b8, b9, b10, b11, b12, b13, b14, b15, b16, b17, b18, b19, b20, b21, b22, b23] : Array (BitVec 8)).getD 22 0#8 = b22 := rfl
theorem getD24_23 (b0 b1 b2 b3 b4 b5 b6 b7 b8 b9 b10 b11 b12 b13 b14 b15 b16 b17 b18 b19 b20 b21 b22 b23 : BitVec 8) : (#[b0, b1, b2, b3, b4, b5, b6, b7, b8, b9, b10, b11, b12, b13, b14, b15, b16, b17, b18, b19, b20, b21, b22, b23] : Array (BitVec 8)).getD 23 0#8 = b23 := rfl
theorem getD32_0 (b0 b1 b2 b3 b4 b5 b6 b7 b8 b9 b10 b11 b12 b13 b14 b15 b16 b17 b18 b19 b20 b21 b22 b23 b24 b25 b26 b27 b28 b29 b30 b31 : BitVec 8) : (#[b0, b1, b2, b3, b4, b5, b6, b7, b8, b9, b10, b11, b12, b13, b14, b15, b16, b17, b18, b19, b20, b21, b22, b23, b24, b25, b26, b27, b28, b29, b30, b31] : Array (BitVec 8)).getD 0 0#8 = b0 := rfl
theorem getD32_1 (b0 b1 b2 b3 b4 b5 b6 b7 b8 b9 b10 b11 b12 b13 b14 b15 b16 b17 b18 b19 b20 b21 b22 b23 b24 b25 b26 b27 b28 b29 b30 b31 : BitVec 8) : (#[b0, b1, b2, b3, b4, b5, b6, b7, b8, b9, b10, b11, b12, b13, b14, b15, b16, b17, b18, b19, b20, b21, b22, b23, b24, b25, b26, b27, b28, b29, b30, b31] : Array (BitVec 8)).getD 1 0#8 = b1 := rfl
theorem getD32_2 (b0 b1 b2 b3 b4 b5 b6 b7 b8 b9 b10 b11 b12 b13 b14 b15 b16 b17 b18 b19 b20 b21 b22 b23 b24 b25 b26 b27 b28 b29 b30 b31 : BitVec 8) : (#[b0, b1, b2, b3, b4, b5, b6, b7, b8, b9, b10, b11, b12, b13, b14, b15, b16, b17, b18, b19, b20, b21, b22, b23, b24, b25, b26, b27, b28, b29, b30, b31] : Array (BitVec 8)).getD 2 0#8 = b2 := rfl
theorem getD32_3 (b0 b1 b2 b3 b4 b5 b6 b7 b8 b9 b10 b11 b12 b13 b14 b15 b16 b17 b18 b19 b20 b21 b22 b23 b24 b25 b26 b27 b28 b29 b30 b31 : BitVec 8) : (#[b0, b1, b2, b3, b4, b5, b6, b7, b8, b9, b10, b11, b12, b13, b14, b15, b16, b17, b18, b19, b20, b21, b22, b23, b24, b25, b26, b27, b28, b29, b30, b31] : Array (BitVec 8)).getD 3 0#8 = b3 := rfl
theorem getD32_4 (b0 b1 b2 b3 b4 b5 b6 b7 b8 b9 b10 b11 b12 b13 b14 b15 b16 b17 b18 b19 b20 b21 b22 b23 b24 b25 b26 b27 b28 b29 b30 b31 : BitVec 8) : (#[b0, b1, b2, b3, b4, b5, b6, b7, b8, b9, b10, b11, b12, b13, b14, b15, b16, b17, b18, b19, b20, b21, b22, b23, b24, b25, b26, b27, b28, b29, b30, b31] : Array (BitVec 8)).getD 4 0#8 = b4 := rfl
theorem getD32_5 (b0 b1 b2 b3 b4 b5 b6 b7 b8 b9 b10 b11 b12 b13 b14 b15 b16 b17 b18 b19 b20 b21 b22 b23 b24 b25 b26 b27 b28 b29 b30 b31 : BitVec 8) : (#[b0, b1, b2, b3, b4, b5, b6, b7, b8, b9, b10, b11, b12, b13, b14, b15, b16, b17, b18, b19, b20, b21, b22, b23, b24, b25, b26, b27, b28, b29, b30, b31] : Array (BitVec 8)).getD 5 0#8 = b5 := rfl
theorem getD32_6 (b0 b1 b2 b3 b4 b5 b6 b7 b8 b9 b10 b11 b12 b13 b14 b15 b16 b17 b18 b19 b20 b21 b22 b23 b24 b25 b26 b27 b28 b29 b30 b31 : BitVec 8) : (#[b0, b1, b2, b3, b4, b5, b6, b7, b8, b9, b10, b11, b12, b13, b14, b15, b16, b17, b18, b19, b20, b21, b22, b23, b24, b25, b26, b27, b28, b29, b30, b31] : Array (BitVec 8)).getD 6 0#8 = b6 := rfl
theorem getD32_7 (b0 b1 b2 b3 b4 b5 b6 b7 b8 b9 b10 b11 b12 b13 b14 b15 b16 b17 b18 b19 b20 b21 b22 b23 b24 b25 b26 b27 b28 b29 b30 b31 : BitVec 8) : (#[b0, b1, b2, b3, b4, b5, b6, b7, b8, b9, b10, b11, b12, b13, b14, b15, b16, b17, b18, b19, b20, b21, b22, b23, b24, b25, b26, b27, b28, b29, b30, b31] : Array (BitVec 8)).getD 7 0#8 = b7 := rfl
theorem getD32_8 (b0 b1 b2 b3 b4 b5 b6 b7 b8 b9 b10 b11 b12 b13 b14 b15 b16 b17 b18 b19 b20 b21 b22 b23 b24 b25 b26 b27 b28 b29 b30 b31 : BitVec 8) : (#[b0, b1, b2, b3, b4, b5, b6, b7, b8, b9, b10, b11, b12, b13, b14, b15, b16, b17, b18, b19, b20, b21, b22, b23, b24, b25, b26, b27, b28, b29, b30, b31] : Array (BitVec 8)).getD 8 0#8 = b8 := rfl
theorem getD32_9 (b0 b1 b2 b3 b4 b5 b6 b7 b8 b9 b10 b11 b12 b13 b14 b15 b16 b17 b18 b19 b20 b21 b22 b23 b24 b25 b26 b27 b28 b29 b30 b31 : BitVec 8) : (#[b0, b1, b2, b3, b4, b5, b6, b7, b8, b9, b10, b11, b12, b13, b14, b15, b16, b17, b18, b19, b20, b21, b22, b23, b24, b25, b26, b27, b28, b29, b30, b31] : Array (BitVec 8)).getD 9 0#8 = b9 := rfl
theorem getD32_10 (b0 b1 b2 b3 b4 b5 b6 b7 b8 b9 b10 b11 b12 b13 b14 b15 b16 b17 b18 b19 b20 b21 b22 b23 b24 b25 b26 b27 b28 b29 b30 b31 : BitVec 8) : (#[b0, b1, b2, b3, b4, b5, b6, b7, b8, b9, b10, b11, b12, b13, b14, b15, b16, b17, b18, b19, b20, b21, b22, b23, b24, b25, b26, b27, b28, b29, b30, b31] : Array (BitVec 8)).getD 10 0#8 = b10 := rfl
theorem getD32_11 (b0 b1 b2 b3 b4 b5 b6 b7 b8 b9 b10 b11 b12 b13 b14 b15 b16 b17 b18 b19 b20 b21 b22 b23 b24 b25 b26 b27 b28 b29 b30 b31 : BitVec 8) : (#[b0, b1, b2, b3, b4, b5, b6, b7, b8, b9, b10, b11, b12, b13, b14, b15, b16, b17, b18, b19, b20, b21, b22, b23, b24, b25, b26, b27, b28, b29, b30, b31] : Array (BitVec 8)).getD 11 0#8 = b11 := rfl
theorem getD32_12 (b0 b1 b2 b3 b4 b5 b6 b7 b8 b9 b10 b11 b12 b13 b14 b15 b16 b17 b18 b19 b20 b21 b22 b23 b24 b25 b26 b27 b28 b29 b30 b31 : BitVec 8) : (#[b0, b1, b2, b3, b4, b5, b6, b7, b8, b9, b10, b11, b12, b13, b14, b15, b16, b17, b18, b19, b20, b21, b22, b23, b24, b25, b26, b27, b28, b29, b30, b31] : Array (BitVec 8)).getD 12 0#8 = b12 := rfl
theorem getD32_13 (b0 b1 b2 b3 b4 b5 b6 b7 b8 b9 b10 b11 b12 b13 b14 b15 b16 b17 b18 b19 b20 b21 b22 b23 b24 b25 b26 b27 b28 b29 b30 b31 : BitVec 8) : (#[b0, b1, b2, b3, b4, b5, b6, b7, b8, b9, b10, b11, b12, b13, b14, b15, b16, b17, b18, b19, b20, b21, b22, b23, b24, b25, b26, b27, b28, b29, b30, b31] : Array (BitVec 8)).getD 13 0#8 = b13 := rfl
theorem getD32_14 (b0 b1 b2 b3 b4 b5 b6 b7 b8 b9 b10 b11 b12 b13 b14 b15 b16 b17 b18 b19 b20 b21 b22 b23 b24 b25 b26 b27 b28 b29 b30 b31 : BitVec 8) : (#[b0, b1, b2, b3, b4, b5, b6, b7, b8, b9, b10, b11, b12, b13, b14, b15, b16, b17, b18, b19, b20, b21, b22, b23, b24, b25, b26, b27, b28, b29, b30, b31] : Array (BitVec 8)).getD 14 0#8 = b14 := rfl
theorem getD32_15 (b0 b1 b2 b3 b4 b5 b6 b7 b8 b9 b10 b11 b12 b13 b14 b15 b16 b17 b18 b19 b20 b21 b22 b23 b24 b25 b26 b27 b28 b29 b30 b31 : BitVec 8) : (#[b0, b1, b2, b3, b4, b5, b6, b7, b8, b9, b10, b11, b12, b13, b14, b15, b16, b17, b18, b19, b20, b21, b22, b23, b24, b25, b26, b27, b28, b29, b30, b31] : Array (BitVec 8)).getD 15 0#8 = b15 := rfl
theorem getD32_16 (b0 b1 b2 b3 b4 b5 b6 b7 b8 b9 b10 b11 b12 b13 b14 b15 b16 b17 b18 b19 b20 b21 b22 b23 b24 b25 b26 b27 b28 b29 b30 b31 : BitVec 8) : (#[b0, b1, b2, b3, b4, b5, b6, b7, b8, b9, b10, b11, b12, b13, b14, b15, b16, b17, b18, b19, b20, b21, b22, b23, b24, b25, b26, b27, b28, b29, b30, b31] : Array (BitVec 8)).getD 16 0#8 = b16 := rfl
theorem getD32_17 (b0 b1 b2 b3 b4 b5 b6 b7 b8 b9 b10 b11 b12 b13 b14 b15 b16 b17 b18 b19 b20 b21 b22 b23 b24 b25 b26 b27 b28 b29 b30 b31 : BitVec 8) : (#[b0, b1, b2, b3, b4, b5, b6, b7, b8, b9, b10, b11, b12, b13, b14, b15, b16, b17, b18, b19, b20, b21, b22, b23, b24, b25, b26, b27, b28, b29, b30, b31] : Array (BitVec 8)).getD 17 0#8 = b17 := rfl
theorem getD32_18 (b0 b1 b2 b3 b4 b5 b6 b7 b8 b9 b10 b11 b12 b13 b14 b15 b16 b17 b18 b19 b20 b21 b22 b23 b24 b25 b26 b27 b28 b29 b30 b31 : BitVec 8) : (#[b0, b1, b2, b3, b4, b5, b6, b7, b8, b9, b10, b11, b12, b13, b14, b15, b16, b17, b18, b19, b20, b21, b22, b23, b24, b25, b26, b27, b28, b29, b30, b31] : Array (BitVec 8)).getD 18 0#8 = b18 := rfl
theorem getD32_19 (b0 b1 b2 b3 b4 b5 b6 b7 b8 b9 b10 b11 b12 b13 b14 b15 b16 b17 b18 b19 b20 b21 b22 b23 b24 b25 b26 b27 b28 b29 b30 b31 : BitVec 8) : (#[b0, b1, b2, b3, b4, b5, b6, b7, b8, b9, b10, b11, b12, b13, b14, b15, b16, b17, b18, b19, b20, b21, b22, b23, b24, b25, b26, b27, b28, b29, b30, b31] : Array (BitVec 8)).getD 19 0#8 = b19 := rfl
theorem getD32_20 (b0 b1 b2 b3 b4 b5 b6 b7 b8 b9 b10 b11 b12 b13 b14 b15 b16 b17 b18 b19 b20 b21 b22 b23 b24 b25 b26 b27 b28 b29 b30 b31 : BitVec 8) : (#[b0, b1, b2, b3, b4, b5, b6, b7, b8, b9, b10, b11, b12, b13, b14, b15, b16, b17, b18, b19, b20, b21, b22, b23, b24, b25, b26, b27, b28, b29, b30, b31] : Array (BitVec 8)).getD 20 0#8 = b20 := rfl
theorem getD32_21 (b0 b1 b2 b3 b4 b5 b6 b7 b8 b9 b10 b11 b12 b13 b14 b15 b16 b17 b18 b19 b20 b21 b22 b23 b24 b25 b26 b27 b28 b29 b30 b31 : BitVec 8) : (#[b0, b1, b2, b3, b4, b5, b6, b7, b8, b9, b10, b11, b12, b13, b14, b15, b16, b17, b18, b19, b20, b21, b22, b23, b24, b25, b26, b27, b28, b29, b30, b31] : Array (BitVec 8)).getD 21 0#8 = b21 := rfl
theorem getD32_22 (b0 b1 b2 b3 b4 b5 b6 b7 b8 b9 b10 b11 b12 b13 b14 b15 b16 b17 b18 b19 b20 b21 b22 b23 b24 b25 b26 b27 b28 b29 b30 b31 : BitVec 8) : (#[b0, b1, b2, b3, b4, b5, b6, b7, b8, b9, b10, b11, b12, b13, b14, b15, b16, b17, b18, b19, b20, b21, b22, b23, b24, b25, b26, b27, b28, b29, b30, b31] : Array (BitVec 8)).getD 22 0#8 = b22 := rfl
theorem getD32_23 (b0 b1 b2 b3 b4 b5 b6 b7 b8 b9 b10 b11 b12 b13 b14 b15 b16 b17 b18 b19 b20 b21 b22 b23 b24 b25 b26 b27 b28 b29 b30 b31 : BitVec 8) : (#[b0, b1, b2, b3, b4, b5, b6, b7, b8, b9, b10, b11, b12, b13, b14, b15, b16, b17, b18, b19, b20, b21, b22, b23, b24, b25, b26, b27, b28, b29, b30, b31] : Array (BitVec 8)).getD 23 0#8 = b23 := rfl
theorem getD32_24 (b0 b1 b2 b3 b4 b5 b6 b7 b8 b9 b10 b11 b12 b13 b14 b15 b16 b17 b18 b19 b20 b21 b22 b23 b24 b25 b26 b27 b28 b29 b30 b31 : BitVec 8) : (#[b0, b1, b2, b3, b4, b5, b6, b7, b8, b9, b10, b11, b12, b13, b14, b15, b16, b17, b18, b19, b20, b21, b22, b23, b24, b25, b26, b27, b28, b29, b30, b31] : Array (BitVec 8)).getD 24 0#8 = b24 := rfl
theorem getD32_25 (b0 b1 b2 b3 b4 b5 b6 b7 b8 b9 b10 b11 b12 b13 b14 b15 b16 b17 b18 b19 b20 b21 b22 b23 b24 b25 b26 b27 b28 b29 b30 b31 : BitVec 8) : (#[b0, b1, b2, b3, b4, b5, b6, b7, b8, b9, b10, b11, b12, b13, b14, b15, b16, b17, b18, b19, b20, b21, b22, b23, b24, b25, b26, b27, b28, b29, b30, b31] : Array (BitVec 8)).getD 25 0#8 = b25 := rfl
theorem getD32_26 (b0 b1 b2 b3 b4 b5 b6 b7 b8 b9 b10 b11 b12 b13 b14 b15 b16 b17 b18 b19 b20 b21 b22 b23 b24 b25 b26 b27 b28 b29 b30 b31 : BitVec 8) : (#[b0, b1, b2, b3, b4, b5, b6, b7, b8, b9, b10, b11, b12, b13, b14, b15, b16, b17, b18, b19, b20, b21, b22, b23, b24, b25, b26, b27, b28, b29, b30, b31] : Array (BitVec 8)).getD 26 0#8 = b26 := rfl
theorem getD32_27 (b0 b1 b2 b3 b4 b5 b6 b7 b8 b9 b10 b11 b12 b13 b14 b15 b16 b17 b18 b19 b20 b21 b22 b23 b24 b25 b26 b27 b28 b29 b30 b31 : BitVec 8) : (#[b0, b1, b2, b3, b4, b5, b6, b7, b8, b9, b10, b11, b12, b13, b14, b15, b16, b17, b18, b19, b20, b21, b22, b23, b24, b25, b26, b27, b28, b29, b30, b31] : Array (BitVec 8)).getD 27 0#8 = b27 := rfl
theorem getD32_28 (b0 b1 b2 b3 b4 b5 b6 b7 b8 b9 b10 b11 b12 b13 b14 b15 b16 b17 b18 b19 b20 b21 b22 b23 b24 b25 b26 b27 b28 b29 b30 b31 : BitVec 8) : (#[b0, b1, b2, b3, b4, b5, b6, b7, b8, b9, b10, b11, b12, b13, b14, b15, b16, b17, b18, b19, b20, b21, b22, b23, b24, b25, b26, b27, b28, b29, b30, b31] : Array (BitVec 8)).getD 28 0#8 = b28 := rfl
theorem getD32_29 (b0 b1 b2 b3 b4 b5 b6 b7 b8 b9 b10 b11 b12 b13 b14 b15 b16 b17 b18 b19 b20 b21 b22 b23 b24 b25 b26 b27 b28 b29 b30 b31 : BitVec 8) : (#[b0, b1, b2, b3, b4, b5, b6, b7, b8, b9, b10, b11, b12, b13, b14, b15, b16, b17, b18, b19, b20, b21, b22, b23, b24, b25, b26, b27, b28, b29, b30, b31] : Array (BitVec 8)).getD 29 0#8 = b29 := rfl
theorem getD32_30 (b0 b1 b2 b3 b4 b5 b6 b7 b8 b9 b10 b11 b12 b13 b14 b15 b16 b17 b18 b19 b20 b21 b22 b23 b24 b25 b26 b27 b28 b29 b30 b31 : BitVec 8) : (#[b0, b1, b2, b3, b4, b5, b6, b7, b8, b9, b10, b11, b12, b13, b14, b15, b16, b17, b18, b19, b20, b21, b22, b23, b24, b25, b26, b27, b28, b29, b30, b31] : Array (BitVec 8)).getD 30 0#8 = b30 := rfl
theorem getD32_31 (b0 b1 b2 b3 b4 b5 b6 b7 b8 b9 b10 b11 b12 b13 b14 b15 b16 b17 b18 b19 b20 b21 b22 b23 b24 b25 b26 b27 b28 b29 b30 b31 : BitVec 8) : (#[b0, b1, b2, b3, b4, b5, b6, b7, b8, b9, b10, b11, b12, b13, b14, b15, b16, b17, b18, b19, b20, b21, b22, b23, b24, b25, b26, b27, b28, b29, b30, b31] : Array (BitVec 8)).getD 31 0#8 = b31 := rfl

/-- `h(x, m, 2, 0)` for a 16-byte key `m` (byte 0 most significant) -/
theorem h_2_0_eq (x : BitVec 32) (m : BitVec 128) :
    twofish_h_2_0 x m = h x #[m.extractLsb' 120 8, m.extractLsb' 112 8, m.extractLsb' 104 8, m.extractLsb' 96 8, m.extractLsb' 88 8, m.extractLsb' 80 8, m.extractLsb' 72 8, m.extractLsb' 64 8, m.extractLsb' 56 8, m.extractLsb' 48 8, m.extractLsb' 40 8, m.extractLsb' 32 8, m.extractLsb' 24 8, m.extractLsb' 16 8, m.extractLsb' 8 8, m.extractLsb' 0 8] 2 0 := by
  simp only [twofish_h_2_0, h, sbox_0_eq, sbox_1_eq, mds_column_mult_0_eq, mds_column_mult_1_eq, mds_column_mult_2_eq,
    mds_column_mult_3_eq, mdsMult, leByte0, leByte1, leByte2, leByte3, Nat.reduceMul, Nat.reduceAdd, Nat.reduceEqDiff,
    Nat.reduceLeDiff, ge_iff_le, if_true, if_false, getD16_0, getD16_1, getD16_2, getD16_3, getD16_4, getD16_5, getD16_6, getD16_7, getD16_8, getD16_9, getD16_10, getD16_11, getD16_12, getD16_13, getD16_14, getD16_15]
/-- `h(x, m, 2, 1)` for a 16-byte key `m` (byte 0 most significant) -/
theorem h_2_1_eq (x : BitVec 32) (m : BitVec 128) :
    twofish_h_2_1 x m = h x #[m.extractLsb' 120 8, m.extractLsb' 112 8, m.extractLsb' 104 8, m.extractLsb' 96 8, m.extractLsb' 88 8, m.extractLsb' 80 8, m.extractLsb' 72 8, m.extractLsb' 64 8, m.extractLsb' 56 8, m.extractLsb' 48 8, m.extractLsb' 40 8, m.extractLsb' 32 8, m.extractLsb' 24 8, m.extractLsb' 16 8, m.extractLsb' 8 8, m.extractLsb' 0 8] 2 1 := by
  simp only [twofish_h_2_1, h, sbox_0_eq, sbox_1_eq, mds_column_mult_0_eq, mds_column_mult_1_eq, mds_column_mult_2_eq,
    mds_column_mult_3_eq, mdsMult, leByte0, leByte1, leByte2, leByte3, Nat.reduceMul, Nat.reduceAdd, Nat.reduceEqDiff,
    Nat.reduceLeDiff, ge_iff_le, if_true, if_false, getD16_0, getD16_1, getD16_2, getD16_3, getD16_4, getD16_5, getD16_6, getD16_7, getD16_8, getD16_9, getD16_10, getD16_11, getD16_12, getD16_13, getD16_14, getD16_15]
/-- `h(x, m, 3, 0)` for a 24-byte key `m` (byte 0 most significant) -/
theorem h_3_0_eq (x : BitVec 32) (m : BitVec 192) :
    twofish_h_3_0 x m = h x #[m.extractLsb' 184 8, m.extractLsb' 176 8, m.extractLsb' 168 8, m.extractLsb' 160 8, m.extractLsb' 152 8, m.extractLsb' 144 8, m.extractLsb' 136 8, m.extractLsb' 128 8, m.extractLsb' 120 8, m.extractLsb' 112 8, m.extractLsb' 104 8, m.extractLsb' 96 8, m.extractLsb' 88 8, m.extractLsb' 80 8, m.extractLsb' 72 8, m.extractLsb' 64 8, m.extractLsb' 56 8, m.extractLsb' 48 8, m.extractLsb' 40 8, m.extractLsb' 32 8, m.extractLsb' 24 8, m.extractLsb' 16 8, m.extractLsb' 8 8, m.extractLsb' 0 8] 3 0 := by
  simp only [twofish_h_3_0, h, sbox_0_eq, sbox_1_eq, mds_column_mult_0_eq, mds_column_mult_1_eq, mds_column_mult_2_eq,
    mds_column_mult_3_eq, mdsMult, leByte0, leByte1, leByte2, leByte3, Nat.reduceMul, Nat.reduceAdd, Nat.reduceEqDiff,
    Nat.reduceLeDiff, ge_iff_le, if_true, if_false, getD24_0, getD24_1, getD24_2, getD24_3, getD24_4, getD24_5, getD24_6, getD24_7, getD24_8, getD24_9, getD24_10, getD24_11, getD24_12, getD24_13, getD24_14, getD24_15, getD24_16, getD24_17, getD24_18, getD24_19, getD24_20, getD24_21, getD24_22, getD24_23]
/-- `h(x, m, 3, 1)` for a 24-byte key `m` (byte 0 most significant) -/
theorem h_3_1_eq (x : BitVec 32) (m : BitVec 192) :
    twofish_h_3_1 x m = h x #[m.extractLsb' 184 8, m.extractLsb' 176 8, m.extractLsb' 168 8, m.extractLsb' 160 8, m.extractLsb' 152 8, m.extractLsb' 144 8, m.extractLsb' 136 8, m.extractLsb' 128 8, m.extractLsb' 120 8, m.extractLsb' 112 8, m.extractLsb' 104 8, m.extractLsb' 96 8, m.extractLsb' 88 8, m.extractLsb' 80 8, m.extractLsb' 72 8, m.extractLsb' 64 8, m.extractLsb' 56 8, m.extractLsb' 48 8, m.extractLsb' 40 8, m.extractLsb' 32 8, m.extractLsb' 24 8, m.extractLsb' 16 8, m.extractLsb' 8 8, m.extractLsb' 0 8] 3 1 := by
  simp only [twofish_h_3_1, h, sbox_0_eq, sbox_1_eq, mds_column_mult_0_eq, mds_column_mult_1_eq, mds_column_mult_2_eq,
    mds_column_mult_3_eq, mdsMult, leByte0, leByte1, leByte2, leByte3, Nat.reduceMul, Nat.reduceAdd, Nat.reduceEqDiff,
    Nat.reduceLeDiff, ge_iff_le, if_true, if_false, getD24_0, getD24_1, getD24_2, getD24_3, getD24_4, getD24_5, getD24_6, getD24_7, getD24_8, getD24_9, getD24_10, getD24_11, getD24_12, getD24_13, getD24_14, getD24_15, getD24_16, getD24_17, getD24_18, getD24_19, getD24_20, getD24_21, getD24_22, getD24_23]
/-- `h(x, m, 4, 0)` for a 32-byte key `m` (byte 0 most significant) -/
theorem h_4_0_eq (x : BitVec 32) (m : BitVec 256) :
    twofish_h_4_0 x m = h x #[m.extractLsb' 248 8, m.extractLsb' 240 8, m.extractLsb' 232 8, m.extractLsb' 224 8, m.extractLsb' 216 8, m.extractLsb' 208 8, m.extractLsb' 200 8, m.extractLsb' 192 8, m.extractLsb' 184 8, m.extractLsb' 176 8, m.extractLsb' 168 8, m.extractLsb' 160 8, m.extractLsb' 152 8, m.extractLsb' 144 8, m.extractLsb' 136 8, m.extractLsb' 128 8, m.extractLsb' 120 8, m.extractLsb' 112 8, m.extractLsb' 104 8, m.extractLsb' 96 8, m.extractLsb' 88 8, m.extractLsb' 80 8, m.extractLsb' 72 8, m.extractLsb' 64 8, m.extractLsb' 56 8, m.extractLsb' 48 8, m.extractLsb' 40 8, m.extractLsb' 32 8, m.extractLsb' 24 8, m.extractLsb' 16 8, m.extractLsb' 8 8, m.extractLsb' 0 8] 4 0 := by
  simp only [twofish_h_4_0, h, sbox_0_eq, sbox_1_eq, mds_column_mult_0_eq, mds_column_mult_1_eq, mds_column_mult_2_eq,
    mds_column_mult_3_eq, mdsMult, leByte0, leByte1, leByte2, leByte3, Nat.reduceMul, Nat.reduceAdd, Nat.reduceEqDiff,
    Nat.reduceLeDiff, ge_iff_le, if_true, if_false, getD32_0, getD32_1, getD32_2, getD32_3, getD32_4, getD32_5, getD32_6, getD32_7, getD32_8, getD32_9, getD32_10, getD32_11, getD32_12, getD32_13, getD32_14, getD32_15, getD32_16, getD32_17, getD32_18, getD32_19, getD32_20, getD32_21, getD32_22, getD32_23, getD32_24, getD32_25, getD32_26, getD32_27, getD32_28, getD32_29, getD32_30, getD32_31]
/-- `h(x, m, 4, 1)` for a 32-byte key `m` (byte 0 most significant) -/
theorem h_4_1_eq (x : BitVec 32) (m : BitVec 256) :
    twofish_h_4_1 x m = h x #[m.extractLsb' 248 8, m.extractLsb' 240 8, m.extractLsb' 232 8, m.extractLsb' 224 8, m.extractLsb' 216 8, m.extractLsb' 208 8, m.extractLsb' 200 8, m.extractLsb' 192 8, m.extractLsb' 184 8, m.extractLsb' 176 8, m.extractLsb' 168 8, m.extractLsb' 160 8, m.extractLsb' 152 8, m.extractLsb' 144 8, m.extractLsb' 136 8, m.extractLsb' 128 8, m.extractLsb' 120 8, m.extractLsb' 112 8, m.extractLsb' 104 8, m.extractLsb' 96 8, m.extractLsb' 88 8, m.extractLsb' 80 8, m.extractLsb' 72 8, m.extractLsb' 64 8, m.extractLsb' 56 8, m.extractLsb' 48 8, m.extractLsb' 40 8, m.extractLsb' 32 8, m.extractLsb' 24 8, m.extractLsb' 16 8, m.extractLsb' 8 8, m.extractLsb' 0 8] 4 1 := by
  simp only [twofish_h_4_1, h, sbox_0_eq, sbox_1_eq, mds_column_mult_0_eq, mds_column_mult_1_eq, mds_column_mult_2_eq,
    mds_column_mult_3_eq, mdsMult, leByte0, leByte1, leByte2, leByte3, Nat.reduceMul, Nat.reduceAdd, Nat.reduceEqDiff,
    Nat.reduceLeDiff, ge_iff_le, if_true, if_false, getD32_0, getD32_1, getD32_2, getD32_3, getD32_4, getD32_5, getD32_6, getD32_7, getD32_8, getD32_9, getD32_10, getD32_11, getD32_12, getD32_13, getD32_14, getD32_15, getD32_16, getD32_17, getD32_18, getD32_19, getD32_20, getD32_21, getD32_22, getD32_23, getD32_24, getD32_25, getD32_26, getD32_27, getD32_28, getD32_29, getD32_30, getD32_31]

end BC.GenFn.Twofish
