import BlockCiphers.Proofs.Basic
import BlockCiphers.Proofs.AriaDiffuse
/-
C01 for the `aria` crate: `decrypt_block ∘ encrypt_block = id` and `encrypt_block ∘ decrypt_block = id`
for *arbitrary* encryption round keys `ek` with the decryption keys derived as aria128/192/256.rs do
(`dk = [ek[RK-1], a(ek[RK-2]), …, a(ek[1]), ek[0]]`), hence for every key of the three sizes and every block.
Ingredients: SB3 = SB1⁻¹, SB4 = SB2⁻¹ (`decide +kernel` over the 256 entries of the code's tables),
`fo = a ∘ sl1`, `fe = a ∘ sl2`, `sl2 ∘ sl1 = id = sl1 ∘ sl2`, `a` linear and involutive (AriaDiffuse).
-/
namespace BC.Aria

/-! ### S-boxes (the tables of consts.rs) -/

theorem sb3_sb1_fin : ∀ i : Fin 256, sb3 (sb1 (BitVec.ofFin i)) = BitVec.ofFin i := by decide +kernel
theorem sb1_sb3_fin : ∀ i : Fin 256, sb1 (sb3 (BitVec.ofFin i)) = BitVec.ofFin i := by decide +kernel
theorem sb4_sb2_fin : ∀ i : Fin 256, sb4 (sb2 (BitVec.ofFin i)) = BitVec.ofFin i := by decide +kernel
theorem sb2_sb4_fin : ∀ i : Fin 256, sb2 (sb4 (BitVec.ofFin i)) = BitVec.ofFin i := by decide +kernel

theorem sb3_sb1 (x : BitVec 8) : sb3 (sb1 x) = x := sb3_sb1_fin x.toFin
theorem sb1_sb3 (x : BitVec 8) : sb1 (sb3 x) = x := sb1_sb3_fin x.toFin
theorem sb4_sb2 (x : BitVec 8) : sb4 (sb2 x) = x := sb4_sb2_fin x.toFin
theorem sb2_sb4 (x : BitVec 8) : sb2 (sb4 x) = x := sb2_sb4_fin x.toFin

/-! ### substitution layers -/

/-- the substitution layer inside `fo` (SB1, SB2, SB3, SB4 repeated); `sl2` is utils.rs -/
def sl1 (x : BitVec 128) : BitVec 128 :=
  fromBeBytes [sb1 (byte x 0), sb2 (byte x 1), sb3 (byte x 2), sb4 (byte x 3), sb1 (byte x 4), sb2 (byte x 5), sb3 (byte x 6), sb4 (byte x 7), sb1 (byte x 8), sb2 (byte x 9), sb3 (byte x 10), sb4 (byte x 11), sb1 (byte x 12), sb2 (byte x 13), sb3 (byte x 14), sb4 (byte x 15)]

theorem byte_fromBeBytes_0 (y0 y1 y2 y3 y4 y5 y6 y7 y8 y9 y10 y11 y12 y13 y14 y15 : BitVec 8) : byte (fromBeBytes [y0, y1, y2, y3, y4, y5, y6, y7, y8, y9, y10, y11, y12, y13, y14, y15]) 0 = y0 := by
  rw [byte_eq_0, fromBeBytes_eq_concat, byteOf_concat_0]
theorem byte_fromBeBytes_1 (y0 y1 y2 y3 y4 y5 y6 y7 y8 y9 y10 y11 y12 y13 y14 y15 : BitVec 8) : byte (fromBeBytes [y0, y1, y2, y3, y4, y5, y6, y7, y8, y9, y10, y11, y12, y13, y14, y15]) 1 = y1 := by
  rw [byte_eq_1, fromBeBytes_eq_concat, byteOf_concat_1]
theorem byte_fromBeBytes_2 (y0 y1 y2 y3 y4 y5 y6 y7 y8 y9 y10 y11 y12 y13 y14 y15 : BitVec 8) : byte (fromBeBytes [y0, y1, y2, y3, y4, y5, y6, y7, y8, y9, y10, y11, y12, y13, y14, y15]) 2 = y2 := by
  rw [byte_eq_2, fromBeBytes_eq_concat, byteOf_concat_2]
theorem byte_fromBeBytes_3 (y0 y1 y2 y3 y4 y5 y6 y7 y8 y9 y10 y11 y12 y13 y14 y15 : BitVec 8) : byte (fromBeBytes [y0, y1, y2, y3, y4, y5, y6, y7, y8, y9, y10, y11, y12, y13, y14, y15]) 3 = y3 := by
  rw [byte_eq_3, fromBeBytes_eq_concat, byteOf_concat_3]
theorem byte_fromBeBytes_4 (y0 y1 y2 y3 y4 y5 y6 y7 y8 y9 y10 y11 y12 y13 y14 y15 : BitVec 8) : byte (fromBeBytes [y0, y1, y2, y3, y4, y5, y6, y7, y8, y9, y10, y11, y12, y13, y14, y15]) 4 = y4 := by
  rw [byte_eq_4, fromBeBytes_eq_concat, byteOf_concat_4]
theorem byte_fromBeBytes_5 (y0 y1 y2 y3 y4 y5 y6 y7 y8 y9 y10 y11 y12 y13 y14 y15 : BitVec 8) : byte (fromBeBytes [y0, y1, y2, y3, y4, y5, y6, y7, y8, y9, y10, y11, y12, y13, y14, y15]) 5 = y5 := by
  rw [byte_eq_5, fromBeBytes_eq_concat, byteOf_concat_5]
theorem byte_fromBeBytes_6 (y0 y1 y2 y3 y4 y5 y6 y7 y8 y9 y10 y11 y12 y13 y14 y15 : BitVec 8) : byte (fromBeBytes [y0, y1, y2, y3, y4, y5, y6, y7, y8, y9, y10, y11, y12, y13, y14, y15]) 6 = y6 := by
  rw [byte_eq_6, fromBeBytes_eq_concat, byteOf_concat_6]
theorem byte_fromBeBytes_7 (y0 y1 y2 y3 y4 y5 y6 y7 y8 y9 y10 y11 y12 y13 y14 y15 : BitVec 8) : byte (fromBeBytes [y0, y1, y2, y3, y4, y5, y6, y7, y8, y9, y10, y11, y12, y13, y14, y15]) 7 = y7 := by
  rw [byte_eq_7, fromBeBytes_eq_concat, byteOf_concat_7]
theorem byte_fromBeBytes_8 (y0 y1 y2 y3 y4 y5 y6 y7 y8 y9 y10 y11 y12 y13 y14 y15 : BitVec 8) : byte (fromBeBytes [y0, y1, y2, y3, y4, y5, y6, y7, y8, y9, y10, y11, y12, y13, y14, y15]) 8 = y8 := by
  rw [byte_eq_8, fromBeBytes_eq_concat, byteOf_concat_8]
theorem byte_fromBeBytes_9 (y0 y1 y2 y3 y4 y5 y6 y7 y8 y9 y10 y11 y12 y13 y14 y15 : BitVec 8) : byte (fromBeBytes [y0, y1, y2, y3, y4, y5, y6, y7, y8, y9, y10, y11, y12, y13, y14, y15]) 9 = y9 := by
  rw [byte_eq_9, fromBeBytes_eq_concat, byteOf_concat_9]
theorem byte_fromBeBytes_10 (y0 y1 y2 y3 y4 y5 y6 y7 y8 y9 y10 y11 y12 y13 y14 y15 : BitVec 8) : byte (fromBeBytes [y0, y1, y2, y3, y4, y5, y6, y7, y8, y9, y10, y11, y12, y13, y14, y15]) 10 = y10 := by
  rw [byte_eq_10, fromBeBytes_eq_concat, byteOf_concat_10]
theorem byte_fromBeBytes_11 (y0 y1 y2 y3 y4 y5 y6 y7 y8 y9 y10 y11 y12 y13 y14 y15 : BitVec 8) : byte (fromBeBytes [y0, y1, y2, y3, y4, y5, y6, y7, y8, y9, y10, y11, y12, y13, y14, y15]) 11 = y11 := by
  rw [byte_eq_11, fromBeBytes_eq_concat, byteOf_concat_11]
theorem byte_fromBeBytes_12 (y0 y1 y2 y3 y4 y5 y6 y7 y8 y9 y10 y11 y12 y13 y14 y15 : BitVec 8) : byte (fromBeBytes [y0, y1, y2, y3, y4, y5, y6, y7, y8, y9, y10, y11, y12, y13, y14, y15]) 12 = y12 := by
  rw [byte_eq_12, fromBeBytes_eq_concat, byteOf_concat_12]
theorem byte_fromBeBytes_13 (y0 y1 y2 y3 y4 y5 y6 y7 y8 y9 y10 y11 y12 y13 y14 y15 : BitVec 8) : byte (fromBeBytes [y0, y1, y2, y3, y4, y5, y6, y7, y8, y9, y10, y11, y12, y13, y14, y15]) 13 = y13 := by
  rw [byte_eq_13, fromBeBytes_eq_concat, byteOf_concat_13]
theorem byte_fromBeBytes_14 (y0 y1 y2 y3 y4 y5 y6 y7 y8 y9 y10 y11 y12 y13 y14 y15 : BitVec 8) : byte (fromBeBytes [y0, y1, y2, y3, y4, y5, y6, y7, y8, y9, y10, y11, y12, y13, y14, y15]) 14 = y14 := by
  rw [byte_eq_14, fromBeBytes_eq_concat, byteOf_concat_14]
theorem byte_fromBeBytes_15 (y0 y1 y2 y3 y4 y5 y6 y7 y8 y9 y10 y11 y12 y13 y14 y15 : BitVec 8) : byte (fromBeBytes [y0, y1, y2, y3, y4, y5, y6, y7, y8, y9, y10, y11, y12, y13, y14, y15]) 15 = y15 := by
  rw [byte_eq_15, fromBeBytes_eq_concat, byteOf_concat_15]

theorem fromBeBytes_byte (x : BitVec 128) :
    fromBeBytes [byte x 0, byte x 1, byte x 2, byte x 3, byte x 4, byte x 5, byte x 6, byte x 7, byte x 8, byte x 9, byte x 10, byte x 11, byte x 12, byte x 13, byte x 14, byte x 15] = x := by
  simp only [byte_eq_0, byte_eq_1, byte_eq_2, byte_eq_3, byte_eq_4, byte_eq_5, byte_eq_6, byte_eq_7,
    byte_eq_8, byte_eq_9, byte_eq_10, byte_eq_11, byte_eq_12, byte_eq_13, byte_eq_14, byte_eq_15,
    fromBeBytes_eq_concat, concat_byteOf]

theorem fo_eq (x : BitVec 128) : fo x = a (sl1 x) := by
  simp only [fo, a, sl1, byte_fromBeBytes_0, byte_fromBeBytes_1, byte_fromBeBytes_2, byte_fromBeBytes_3, byte_fromBeBytes_4, byte_fromBeBytes_5, byte_fromBeBytes_6, byte_fromBeBytes_7, byte_fromBeBytes_8, byte_fromBeBytes_9, byte_fromBeBytes_10, byte_fromBeBytes_11, byte_fromBeBytes_12, byte_fromBeBytes_13, byte_fromBeBytes_14, byte_fromBeBytes_15]

theorem fe_eq (x : BitVec 128) : fe x = a (sl2 x) := by
  simp only [fe, a, sl2, byte_fromBeBytes_0, byte_fromBeBytes_1, byte_fromBeBytes_2, byte_fromBeBytes_3, byte_fromBeBytes_4, byte_fromBeBytes_5, byte_fromBeBytes_6, byte_fromBeBytes_7, byte_fromBeBytes_8, byte_fromBeBytes_9, byte_fromBeBytes_10, byte_fromBeBytes_11, byte_fromBeBytes_12, byte_fromBeBytes_13, byte_fromBeBytes_14, byte_fromBeBytes_15]

theorem sl2_sl1 (x : BitVec 128) : sl2 (sl1 x) = x := by
  rw [sl2]
  simp only [sl1, byte_fromBeBytes_0, byte_fromBeBytes_1, byte_fromBeBytes_2, byte_fromBeBytes_3, byte_fromBeBytes_4, byte_fromBeBytes_5, byte_fromBeBytes_6, byte_fromBeBytes_7, byte_fromBeBytes_8, byte_fromBeBytes_9, byte_fromBeBytes_10, byte_fromBeBytes_11, byte_fromBeBytes_12, byte_fromBeBytes_13, byte_fromBeBytes_14, byte_fromBeBytes_15,
    sb3_sb1, sb1_sb3, sb4_sb2, sb2_sb4, fromBeBytes_byte]

theorem sl1_sl2 (x : BitVec 128) : sl1 (sl2 x) = x := by
  rw [sl1]
  simp only [sl2, byte_fromBeBytes_0, byte_fromBeBytes_1, byte_fromBeBytes_2, byte_fromBeBytes_3, byte_fromBeBytes_4, byte_fromBeBytes_5, byte_fromBeBytes_6, byte_fromBeBytes_7, byte_fromBeBytes_8, byte_fromBeBytes_9, byte_fromBeBytes_10, byte_fromBeBytes_11, byte_fromBeBytes_12, byte_fromBeBytes_13, byte_fromBeBytes_14, byte_fromBeBytes_15,
    sb3_sb1, sb1_sb3, sb4_sb2, sb2_sb4, fromBeBytes_byte]

theorem xor_cancel_right (u v : BitVec 128) : (u ^^^ v) ^^^ v = u := by
  rw [BitVec.xor_assoc, BitVec.xor_self, BitVec.xor_zero]

/-! ### the `dk` tables read through `key` -/

theorem key_dk13_0 (ek : Nat → BitVec 128) : key (dk13 ek) 0 = ek 12 := rfl
theorem key_dk13_1 (ek : Nat → BitVec 128) : key (dk13 ek) 1 = a (ek 11) := rfl
theorem key_dk13_2 (ek : Nat → BitVec 128) : key (dk13 ek) 2 = a (ek 10) := rfl
theorem key_dk13_3 (ek : Nat → BitVec 128) : key (dk13 ek) 3 = a (ek 9) := rfl
theorem key_dk13_4 (ek : Nat → BitVec 128) : key (dk13 ek) 4 = a (ek 8) := rfl
theorem key_dk13_5 (ek : Nat → BitVec 128) : key (dk13 ek) 5 = a (ek 7) := rfl
theorem key_dk13_6 (ek : Nat → BitVec 128) : key (dk13 ek) 6 = a (ek 6) := rfl
theorem key_dk13_7 (ek : Nat → BitVec 128) : key (dk13 ek) 7 = a (ek 5) := rfl
theorem key_dk13_8 (ek : Nat → BitVec 128) : key (dk13 ek) 8 = a (ek 4) := rfl
theorem key_dk13_9 (ek : Nat → BitVec 128) : key (dk13 ek) 9 = a (ek 3) := rfl
theorem key_dk13_10 (ek : Nat → BitVec 128) : key (dk13 ek) 10 = a (ek 2) := rfl
theorem key_dk13_11 (ek : Nat → BitVec 128) : key (dk13 ek) 11 = a (ek 1) := rfl
theorem key_dk13_12 (ek : Nat → BitVec 128) : key (dk13 ek) 12 = ek 0 := rfl

theorem key_dk15_0 (ek : Nat → BitVec 128) : key (dk15 ek) 0 = ek 14 := rfl
theorem key_dk15_1 (ek : Nat → BitVec 128) : key (dk15 ek) 1 = a (ek 13) := rfl
theorem key_dk15_2 (ek : Nat → BitVec 128) : key (dk15 ek) 2 = a (ek 12) := rfl
theorem key_dk15_3 (ek : Nat → BitVec 128) : key (dk15 ek) 3 = a (ek 11) := rfl
theorem key_dk15_4 (ek : Nat → BitVec 128) : key (dk15 ek) 4 = a (ek 10) := rfl
theorem key_dk15_5 (ek : Nat → BitVec 128) : key (dk15 ek) 5 = a (ek 9) := rfl
theorem key_dk15_6 (ek : Nat → BitVec 128) : key (dk15 ek) 6 = a (ek 8) := rfl
theorem key_dk15_7 (ek : Nat → BitVec 128) : key (dk15 ek) 7 = a (ek 7) := rfl
theorem key_dk15_8 (ek : Nat → BitVec 128) : key (dk15 ek) 8 = a (ek 6) := rfl
theorem key_dk15_9 (ek : Nat → BitVec 128) : key (dk15 ek) 9 = a (ek 5) := rfl
theorem key_dk15_10 (ek : Nat → BitVec 128) : key (dk15 ek) 10 = a (ek 4) := rfl
theorem key_dk15_11 (ek : Nat → BitVec 128) : key (dk15 ek) 11 = a (ek 3) := rfl
theorem key_dk15_12 (ek : Nat → BitVec 128) : key (dk15 ek) 12 = a (ek 2) := rfl
theorem key_dk15_13 (ek : Nat → BitVec 128) : key (dk15 ek) 13 = a (ek 1) := rfl
theorem key_dk15_14 (ek : Nat → BitVec 128) : key (dk15 ek) 14 = ek 0 := rfl

theorem key_dk17_0 (ek : Nat → BitVec 128) : key (dk17 ek) 0 = ek 16 := rfl
theorem key_dk17_1 (ek : Nat → BitVec 128) : key (dk17 ek) 1 = a (ek 15) := rfl
theorem key_dk17_2 (ek : Nat → BitVec 128) : key (dk17 ek) 2 = a (ek 14) := rfl
theorem key_dk17_3 (ek : Nat → BitVec 128) : key (dk17 ek) 3 = a (ek 13) := rfl
theorem key_dk17_4 (ek : Nat → BitVec 128) : key (dk17 ek) 4 = a (ek 12) := rfl
theorem key_dk17_5 (ek : Nat → BitVec 128) : key (dk17 ek) 5 = a (ek 11) := rfl
theorem key_dk17_6 (ek : Nat → BitVec 128) : key (dk17 ek) 6 = a (ek 10) := rfl
theorem key_dk17_7 (ek : Nat → BitVec 128) : key (dk17 ek) 7 = a (ek 9) := rfl
theorem key_dk17_8 (ek : Nat → BitVec 128) : key (dk17 ek) 8 = a (ek 8) := rfl
theorem key_dk17_9 (ek : Nat → BitVec 128) : key (dk17 ek) 9 = a (ek 7) := rfl
theorem key_dk17_10 (ek : Nat → BitVec 128) : key (dk17 ek) 10 = a (ek 6) := rfl
theorem key_dk17_11 (ek : Nat → BitVec 128) : key (dk17 ek) 11 = a (ek 5) := rfl
theorem key_dk17_12 (ek : Nat → BitVec 128) : key (dk17 ek) 12 = a (ek 4) := rfl
theorem key_dk17_13 (ek : Nat → BitVec 128) : key (dk17 ek) 13 = a (ek 3) := rfl
theorem key_dk17_14 (ek : Nat → BitVec 128) : key (dk17 ek) 14 = a (ek 2) := rfl
theorem key_dk17_15 (ek : Nat → BitVec 128) : key (dk17 ek) 15 = a (ek 1) := rfl
theorem key_dk17_16 (ek : Nat → BitVec 128) : key (dk17 ek) 16 = ek 0 := rfl

theorem loopIdx13 : loopIdx 13 = [0, 2, 4, 6, 8] := by decide
theorem loopIdx15 : loopIdx 15 = [0, 2, 4, 6, 8, 10] := by decide
theorem loopIdx17 : loopIdx 17 = [0, 2, 4, 6, 8, 10, 12] := by decide

/-! ### round trip for arbitrary `ek` -/

theorem dec_enc_13 (ek : Nat → BitVec 128) (b : BitVec 128) :
    cryptWith (key (dk13 ek)) 13 (cryptWith (ek) 13 b) = b := by
  simp only [cryptWith, loopIdx13, List.foldl_cons, List.foldl_nil, Nat.reduceAdd, Nat.reduceSub,
    key_dk13_0, key_dk13_1, key_dk13_2, key_dk13_3, key_dk13_4, key_dk13_5, key_dk13_6, key_dk13_7, key_dk13_8, key_dk13_9, key_dk13_10, key_dk13_11, key_dk13_12,
    fo_eq, fe_eq, a_xor, a_a, sl1_sl2, sl2_sl1, xor_cancel_right]

theorem enc_dec_13 (ek : Nat → BitVec 128) (b : BitVec 128) :
    cryptWith (ek) 13 (cryptWith (key (dk13 ek)) 13 b) = b := by
  simp only [cryptWith, loopIdx13, List.foldl_cons, List.foldl_nil, Nat.reduceAdd, Nat.reduceSub,
    key_dk13_0, key_dk13_1, key_dk13_2, key_dk13_3, key_dk13_4, key_dk13_5, key_dk13_6, key_dk13_7, key_dk13_8, key_dk13_9, key_dk13_10, key_dk13_11, key_dk13_12,
    fo_eq, fe_eq, a_xor, a_a, sl1_sl2, sl2_sl1, xor_cancel_right]

theorem dec_enc_15 (ek : Nat → BitVec 128) (b : BitVec 128) :
    cryptWith (key (dk15 ek)) 15 (cryptWith (ek) 15 b) = b := by
  simp only [cryptWith, loopIdx15, List.foldl_cons, List.foldl_nil, Nat.reduceAdd, Nat.reduceSub,
    key_dk15_0, key_dk15_1, key_dk15_2, key_dk15_3, key_dk15_4, key_dk15_5, key_dk15_6, key_dk15_7, key_dk15_8, key_dk15_9, key_dk15_10, key_dk15_11, key_dk15_12, key_dk15_13, key_dk15_14,
    fo_eq, fe_eq, a_xor, a_a, sl1_sl2, sl2_sl1, xor_cancel_right]

theorem enc_dec_15 (ek : Nat → BitVec 128) (b : BitVec 128) :
    cryptWith (ek) 15 (cryptWith (key (dk15 ek)) 15 b) = b := by
  simp only [cryptWith, loopIdx15, List.foldl_cons, List.foldl_nil, Nat.reduceAdd, Nat.reduceSub,
    key_dk15_0, key_dk15_1, key_dk15_2, key_dk15_3, key_dk15_4, key_dk15_5, key_dk15_6, key_dk15_7, key_dk15_8, key_dk15_9, key_dk15_10, key_dk15_11, key_dk15_12, key_dk15_13, key_dk15_14,
    fo_eq, fe_eq, a_xor, a_a, sl1_sl2, sl2_sl1, xor_cancel_right]

theorem dec_enc_17 (ek : Nat → BitVec 128) (b : BitVec 128) :
    cryptWith (key (dk17 ek)) 17 (cryptWith (ek) 17 b) = b := by
  simp only [cryptWith, loopIdx17, List.foldl_cons, List.foldl_nil, Nat.reduceAdd, Nat.reduceSub,
    key_dk17_0, key_dk17_1, key_dk17_2, key_dk17_3, key_dk17_4, key_dk17_5, key_dk17_6, key_dk17_7, key_dk17_8, key_dk17_9, key_dk17_10, key_dk17_11, key_dk17_12, key_dk17_13, key_dk17_14, key_dk17_15, key_dk17_16,
    fo_eq, fe_eq, a_xor, a_a, sl1_sl2, sl2_sl1, xor_cancel_right]

theorem enc_dec_17 (ek : Nat → BitVec 128) (b : BitVec 128) :
    cryptWith (ek) 17 (cryptWith (key (dk17 ek)) 17 b) = b := by
  simp only [cryptWith, loopIdx17, List.foldl_cons, List.foldl_nil, Nat.reduceAdd, Nat.reduceSub,
    key_dk17_0, key_dk17_1, key_dk17_2, key_dk17_3, key_dk17_4, key_dk17_5, key_dk17_6, key_dk17_7, key_dk17_8, key_dk17_9, key_dk17_10, key_dk17_11, key_dk17_12, key_dk17_13, key_dk17_14, key_dk17_15, key_dk17_16,
    fo_eq, fe_eq, a_xor, a_a, sl1_sl2, sl2_sl1, xor_cancel_right]

/-! ### the three public types: every key, every block -/

theorem decrypt_encrypt128 (k b : BitVec 128) : decrypt128 k (encrypt128 k b) = b := dec_enc_13 _ b
theorem encrypt_decrypt128 (k b : BitVec 128) : encrypt128 k (decrypt128 k b) = b := enc_dec_13 _ b
theorem decrypt_encrypt192 (k : BitVec 192) (b : BitVec 128) : decrypt192 k (encrypt192 k b) = b := dec_enc_15 _ b
theorem encrypt_decrypt192 (k : BitVec 192) (b : BitVec 128) : encrypt192 k (decrypt192 k b) = b := enc_dec_15 _ b
theorem decrypt_encrypt256 (k : BitVec 256) (b : BitVec 128) : decrypt256 k (encrypt256 k b) = b := dec_enc_17 _ b
theorem encrypt_decrypt256 (k : BitVec 256) (b : BitVec 128) : encrypt256 k (decrypt256 k b) = b := enc_dec_17 _ b

end BC.Aria
