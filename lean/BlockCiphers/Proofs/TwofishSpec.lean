import BlockCiphers.Proofs.Twofish
import BlockCiphers.Spec.Twofish
/-
Twofish: the model of the Rust code (`Impl/Twofish.lean`) computes the cipher of the Twofish paper
(`Spec/Twofish.lean`), for every key of 128, 192 and 256 bits.
-/
namespace BC.Twofish
open BC.Spec

/-! ### q-permutations: `sbox(i, x)` is `q_i` built from the 4-bit tables (all 2 × 256 inputs) -/

theorem sbox0_eq_q0 : ∀ x : BitVec 8, sbox 0 x = Spec.Twofish.q0 x := by decide +kernel
theorem sbox1_eq_q1 : ∀ x : BitVec 8, sbox 1 x = Spec.Twofish.q1 x := by decide +kernel

/-- first entries of the q0/q1 tables of the reference implementation (independent check of the t-tables) -/
example : (List.range 8).map (fun i => Spec.Twofish.q0 (BitVec.ofNat 8 i)) = [0xA9, 0x67, 0xB3, 0xE8, 0x04, 0xFD, 0xA3, 0x76] := by decide +kernel
example : (List.range 8).map (fun i => Spec.Twofish.q1 (BitVec.ofNat 8 i)) = [0x75, 0xF3, 0xC6, 0xF4, 0xDB, 0x7B, 0xFB, 0xC8] := by decide +kernel

/-! ### `gf_mult` is multiplication in GF(2)[x]/(v) resp. GF(2)[x]/(w) -/

theorem gfMult_mds (a b : BitVec 8) :
    gfMult a b MDS_POLY = Spec.Twofish.gfMul Spec.Twofish.vPoly a b := by
  simp only [gfMult, gfLoop, Spec.Twofish.gfMul, Spec.Twofish.polyMod, Spec.Twofish.clmul, List.range, List.range.loop, List.foldl, MDS_POLY, Spec.Twofish.vPoly]
  bv_decide (config := { timeout := 120 })

theorem gfMult_rs (a b : BitVec 8) :
    gfMult a b RS_POLY = Spec.Twofish.gfMul Spec.Twofish.wPoly a b := by
  simp only [gfMult, gfLoop, Spec.Twofish.gfMul, Spec.Twofish.polyMod, Spec.Twofish.clmul, List.range, List.range.loop, List.foldl, RS_POLY, Spec.Twofish.wPoly]
  bv_decide (config := { timeout := 120 })

/-- the `while a > 0` loop has ended after 8 iterations: more fuel never changes the result -/
theorem gfLoop_fuel (p a b r : BitVec 8) (n : Nat) : gfLoop p (n + 8) a b r = gfLoop p 8 a b r := by
  cases n with
  | zero => rfl
  | succ n =>
    simp only [gfLoop]
    bv_decide (config := { timeout := 600 })

/-! ### words, bytes -/

theorem leWord_eq_word (a b c d : BitVec 8) : leWord a b c d = Spec.Twofish.word a b c d := by
  simp only [leWord, Spec.Twofish.word]; bv_decide (config := { timeout := 600 })

theorem leByte_eq_byte (x : BitVec 32) :
    leByte x 0 = Spec.Twofish.byte x 0 ∧ leByte x 1 = Spec.Twofish.byte x 1 ∧
    leByte x 2 = Spec.Twofish.byte x 2 ∧ leByte x 3 = Spec.Twofish.byte x 3 := by
  simp only [leByte, Spec.Twofish.byte]
  refine ⟨?_, ?_, ?_, ?_⟩ <;> bv_decide (config := { timeout := 600 })

theorem byte_word (a b c d : BitVec 8) :
    Spec.Twofish.byte (Spec.Twofish.word a b c d) 0 = a ∧ Spec.Twofish.byte (Spec.Twofish.word a b c d) 1 = b ∧
    Spec.Twofish.byte (Spec.Twofish.word a b c d) 2 = c ∧ Spec.Twofish.byte (Spec.Twofish.word a b c d) 3 = d := by
  simp only [Spec.Twofish.byte, Spec.Twofish.word]
  refine ⟨?_, ?_, ?_, ?_⟩ <;> bv_decide (config := { timeout := 600 })

/-! ### MDS -/

theorem gfMul_one (x : BitVec 8) : Spec.Twofish.gfMul Spec.Twofish.vPoly x (0x01 : BitVec 8) = x := by
  simp only [Spec.Twofish.gfMul, Spec.Twofish.polyMod, Spec.Twofish.clmul, List.range, List.range.loop, List.foldl, Spec.Twofish.vPoly]
  bv_decide (config := { timeout := 600 })

theorem gfMul_comm_v (a b : BitVec 8) : Spec.Twofish.gfMul Spec.Twofish.vPoly a b = Spec.Twofish.gfMul Spec.Twofish.vPoly b a := by
  simp only [Spec.Twofish.gfMul, Spec.Twofish.polyMod, Spec.Twofish.clmul, List.range, List.range.loop, List.foldl, Spec.Twofish.vPoly]
  bv_decide (config := { timeout := 120 })

theorem gfMul_comm_w (a b : BitVec 8) : Spec.Twofish.gfMul Spec.Twofish.wPoly a b = Spec.Twofish.gfMul Spec.Twofish.wPoly b a := by
  simp only [Spec.Twofish.gfMul, Spec.Twofish.polyMod, Spec.Twofish.clmul, List.range, List.range.loop, List.foldl, Spec.Twofish.wPoly]
  bv_decide (config := { timeout := 120 })

/-- `mds_mult` (xor of the four `mds_column_mult`s) is the matrix–vector product with the paper's MDS matrix -/
theorem mdsMult_eq (y0 y1 y2 y3 : BitVec 8) : mdsMult y0 y1 y2 y3 = Spec.Twofish.mds y0 y1 y2 y3 := by
  simp only [mdsMult, mdsColumnMult, gfMult_mds, Spec.Twofish.mds, Spec.Twofish.matVec, Spec.Twofish.MDS,
    List.map, List.zipWith, List.foldl, Spec.Twofish.wordOfList, List.getD_cons_zero, List.getD_cons_succ,
    gfMul_one, gfMul_comm_v _ y0, gfMul_comm_v _ y1, gfMul_comm_v _ y2, gfMul_comm_v _ y3, ← leWord_eq_word, leWord]
  bv_decide (config := { timeout := 600 })

/-! ### RS: the S-box key words -/

/-- the code's `RS` table is the paper's RS matrix -/
theorem rs_eq : ∀ i : Fin 4, ∀ j : Fin 8, rs i.val j.val = (Spec.Twofish.RS.getD i.val []).getD j.val 0#8 := by
  decide +kernel

/-- row `i` of `rs_mult` is row `i` of `RS · m` -/
theorem rsMultRow_eq (m : Nat → BitVec 8) (i : Fin 4) :
    rsMultRow m i.val =
      (Spec.Twofish.matVec Spec.Twofish.wPoly Spec.Twofish.RS ((List.range 8).map m)).getD i.val 0#8 := by
  match i with
  | ⟨0, _⟩ | ⟨1, _⟩ | ⟨2, _⟩ | ⟨3, _⟩ =>
    simp only [rsMultRow, gfMult_rs, List.range, List.range.loop, List.foldl, Spec.Twofish.matVec, Spec.Twofish.RS,
      List.map, List.zipWith, List.getD_cons_zero, List.getD_cons_succ, rs, RS,
      gfMul_comm_w (m 0), gfMul_comm_w (m 1), gfMul_comm_w (m 2), gfMul_comm_w (m 3),
      gfMul_comm_w (m 4), gfMul_comm_w (m 5), gfMul_comm_w (m 6), gfMul_comm_w (m 7)]
    rfl


/-! ### `g_func` with the `QORD`/`start` trick is `h(X, S)`, `S = (S_{k-1}, …, S_0)` -/


theorem qord_vals : qord 0 0 = 1 ∧ qord 0 1 = 1 ∧ qord 0 2 = 0 ∧ qord 0 3 = 0 ∧ qord 0 4 = 1 ∧
    qord 1 0 = 0 ∧ qord 1 1 = 1 ∧ qord 1 2 = 1 ∧ qord 1 3 = 0 ∧ qord 1 4 = 0 ∧
    qord 2 0 = 0 ∧ qord 2 1 = 0 ∧ qord 2 2 = 0 ∧ qord 2 3 = 1 ∧ qord 2 4 = 1 ∧
    qord 3 0 = 1 ∧ qord 3 1 = 0 ∧ qord 3 2 = 1 ∧ qord 3 3 = 1 ∧ qord 3 4 = 0 := by decide

theorem sboxKey_getD (key : Array (BitVec 8)) (k : Nat) (idx : Fin 16) :
    (sboxKey key k).getD idx.val 0#8 =
      if idx.val / 4 < k then rsMultRow (fun j => key.getD (idx.val / 4 * 8 + j) 0#8) (idx.val % 4) else 0#8 := by
  have : idx.val < 16 := idx.isLt
  simp [sboxKey, Array.getD, this]

theorem byte_Sword (m : Array (BitVec 8)) (i : Nat) (j : Fin 4) :
    Spec.Twofish.byte (Spec.Twofish.Sword m i) j.val =
      rsMultRow (fun j' => m.getD (i * 8 + j') 0#8) j.val := by
  rw [rsMultRow_eq]
  simp only [Spec.Twofish.Sword, Spec.Twofish.wordOfList]
  have hm : (fun j => Spec.Twofish.mByte m (8 * i + j)) = (fun j' => m.getD (i * 8 + j') 0#8) := by
    funext j; simp [Spec.Twofish.mByte, Nat.mul_comm]
  rw [hm]
  obtain ⟨h0, h1, h2, h3⟩ := byte_word
    ((Spec.Twofish.matVec Spec.Twofish.wPoly Spec.Twofish.RS (List.map (fun j' => m.getD (i * 8 + j') 0#8) (List.range 8))).getD 0 0#8)
    ((Spec.Twofish.matVec Spec.Twofish.wPoly Spec.Twofish.RS (List.map (fun j' => m.getD (i * 8 + j') 0#8) (List.range 8))).getD 1 0#8)
    ((Spec.Twofish.matVec Spec.Twofish.wPoly Spec.Twofish.RS (List.map (fun j' => m.getD (i * 8 + j') 0#8) (List.range 8))).getD 2 0#8)
    ((Spec.Twofish.matVec Spec.Twofish.wPoly Spec.Twofish.RS (List.map (fun j' => m.getD (i * 8 + j') 0#8) (List.range 8))).getD 3 0#8)
  match j with
  | ⟨0, _⟩ => exact h0
  | ⟨1, _⟩ => exact h1
  | ⟨2, _⟩ => exact h2
  | ⟨3, _⟩ => exact h3


theorem sboxKey_getD' (key : Array (BitVec 8)) (k n : Nat) (h : n < 16) :
    (sboxKey key k)[n]?.getD 0#8 =
      if n / 4 < k then rsMultRow (fun j => key.getD (n / 4 * 8 + j) 0#8) (n % 4) else 0#8 := by
  rw [← Array.getD_eq_getD_getElem?]; exact sboxKey_getD key k ⟨n, h⟩

theorem byte_Sword' (m : Array (BitVec 8)) (i j : Nat) (h : j < 4) :
    Spec.Twofish.byte (Spec.Twofish.Sword m i) j = rsMultRow (fun j' => m.getD (i * 8 + j') 0#8) j :=
  byte_Sword m i ⟨j, h⟩

theorem mdsMult_def (y0 y1 y2 y3 : BitVec 8) :
    0#32 ^^^ mdsColumnMult y0 0 ^^^ mdsColumnMult y1 1 ^^^ mdsColumnMult y2 2 ^^^ mdsColumnMult y3 3 = mdsMult y0 y1 y2 y3 := rfl

theorem g_eq_2 (x : BitVec 32) (m : Array (BitVec 8)) : gFunc (sboxKey m 2) 2 x = Spec.Twofish.g m 2 x := by
  obtain ⟨b0, b1, b2, b3⟩ := leByte_eq_byte x
  simp only [leByte] at b0 b1 b2 b3
  have b0' : BitVec.setWidth 8 x = Spec.Twofish.byte x 0 := by rw [← b0]; simp
  simp only [gFunc, gInner, List.range, List.range.loop, List.foldl, List.range', qord_vals, mdsMult_def]
  simp [sboxKey_getD', byte_Sword', Spec.Twofish.g, Spec.Twofish.Svec, Spec.Twofish.h, List.range, List.range.loop,
    sbox0_eq_q0, sbox1_eq_q1, mdsMult_eq, b0', b1, b2, b3, qord_vals]
theorem g_eq_3 (x : BitVec 32) (m : Array (BitVec 8)) : gFunc (sboxKey m 3) 1 x = Spec.Twofish.g m 3 x := by
  obtain ⟨b0, b1, b2, b3⟩ := leByte_eq_byte x
  simp only [leByte] at b0 b1 b2 b3
  have b0' : BitVec.setWidth 8 x = Spec.Twofish.byte x 0 := by rw [← b0]; simp
  simp only [gFunc, gInner, List.range, List.range.loop, List.foldl, List.range', qord_vals, mdsMult_def]
  simp [sboxKey_getD', byte_Sword', Spec.Twofish.g, Spec.Twofish.Svec, Spec.Twofish.h, List.range, List.range.loop,
    sbox0_eq_q0, sbox1_eq_q1, mdsMult_eq, b0', b1, b2, b3, qord_vals]
theorem g_eq_4 (x : BitVec 32) (m : Array (BitVec 8)) : gFunc (sboxKey m 4) 0 x = Spec.Twofish.g m 4 x := by
  obtain ⟨b0, b1, b2, b3⟩ := leByte_eq_byte x
  simp only [leByte] at b0 b1 b2 b3
  have b0' : BitVec.setWidth 8 x = Spec.Twofish.byte x 0 := by rw [← b0]; simp
  simp only [gFunc, gInner, List.range, List.range.loop, List.foldl, List.range', qord_vals, mdsMult_def]
  simp [sboxKey_getD', byte_Sword', Spec.Twofish.g, Spec.Twofish.Svec, Spec.Twofish.h, List.range, List.range.loop,
    sbox0_eq_q0, sbox1_eq_q1, mdsMult_eq, b0', b1, b2, b3, qord_vals]

/-! ### sub-keys -/


theorem flatMap_pair_getElem? {α : Type} (f : Nat → List α) (hf : ∀ x, (f x).length = 2) :
    ∀ n j, j < 2 * n → ((List.range n).flatMap f)[j]? = (f (j / 2))[j % 2]? := by
  intro n
  induction n with
  | zero => intro j hj; omega
  | succ n ih =>
    intro j hj
    have hlen : ((List.range n).flatMap f).length = 2 * n := by
      clear ih hj
      induction n with
      | zero => rfl
      | succ n ih => rw [List.range_succ, List.flatMap_append, List.length_append, ih]; simp [hf]; omega
    rw [List.range_succ, List.flatMap_append]
    by_cases h : j < 2 * n
    · rw [List.getElem?_append_left (by omega)]; exact ih j h
    · rw [List.getElem?_append_right (by omega), hlen]
      have : j / 2 = n := by omega
      have h2 : j - 2 * n = j % 2 := by omega
      simp [this, h2]

theorem rho_eq : rho = Spec.Twofish.rho := by decide

theorem ofNat_two_mul (x : Nat) : 2#32 * BitVec.ofNat 32 x = BitVec.ofNat 32 (2 * x) := by
  rw [BitVec.ofNat_mul]
theorem ofNat_two_mul_add_one (x : Nat) : BitVec.ofNat 32 (2 * x) + 1#32 = BitVec.ofNat 32 (2 * x + 1) := by
  rw [BitVec.ofNat_add]


theorem h_eq (x : BitVec 32) (m : Array (BitVec 8)) (k : Nat) (hk : k = 2 ∨ k = 3 ∨ k = 4) :
    h x m k 0 = Spec.Twofish.h x (Spec.Twofish.Me m k) ∧ h x m k 1 = Spec.Twofish.h x (Spec.Twofish.Mo m k) := by
  obtain ⟨b0, b1, b2, b3⟩ := leByte_eq_byte x
  rcases hk with rfl | rfl | rfl <;> constructor <;>
  simp [h, Spec.Twofish.h, Spec.Twofish.Me, Spec.Twofish.Mo, Spec.Twofish.Mword, Spec.Twofish.mByte, byte_word, b0, b1, b2, b3,
    sbox0_eq_q0, sbox1_eq_q1, mdsMult_eq, List.range, List.range.loop]

theorem add_add_eq_two_mul (a b : BitVec 32) : a + b + b = a + 2#32 * b := by bv_decide (config := { timeout := 600 })

theorem subkey_eq (m : Array (BitVec 8)) (k : Nat) (hk : k = 2 ∨ k = 3 ∨ k = 4) (j : Nat) (hj : j < 40) :
    (subkeyList m k)[j]? = some (Spec.Twofish.K m k j) := by
  rw [subkeyList, flatMap_pair_getElem? _ (by intro; rfl) 20 j (by omega)]
  simp only [subkeyPair, BitVec.mul_comm Spec.Twofish.rho, ofNat_two_mul, ofNat_two_mul_add_one, rho_eq, (h_eq _ m k hk).1, (h_eq _ m k hk).2,
    Spec.Twofish.K, Spec.Twofish.A, Spec.Twofish.B, add_add_eq_two_mul]
  rcases Nat.mod_two_eq_zero_or_one j with h | h <;> simp [h]


/-! ### rounds: 8 double rounds without swaps = 16 rounds with swaps -/


def toR (s : St) : Spec.Twofish.R := { r0 := s.p0, r1 := s.p1, r2 := s.p2, r3 := s.p3 }

theorem f1_assoc (t0 t1 k : BitVec 32) : t1 + (t0 + t1) + k = t0 + 2#32 * t1 + k := by bv_decide (config := { timeout := 600 })

theorem round_pair (g : BitVec 32 → BitVec 32) (Kv : Vector (BitVec 32) 40) (Kf : Nat → BitVec 32)
    (hK : ∀ j (h : j < 40), Kv[j] = Kf j) (s : St) (r : Fin 8) :
    Spec.Twofish.round g Kf (Spec.Twofish.round g Kf (toR s) (2 * r.val)) (2 * r.val + 1) = toR (encRound g Kv s r) := by
  have e0 : 2 * (2 * r.val) + 8 = 4 * r.val + 8 := by omega
  have e1 : 2 * (2 * r.val) + 9 = 4 * r.val + 8 + 1 := by omega
  have e2 : 2 * (2 * r.val + 1) + 8 = 4 * r.val + 8 + 2 := by omega
  have e3 : 2 * (2 * r.val + 1) + 9 = 4 * r.val + 8 + 3 := by omega
  simp only [Spec.Twofish.round, encRound, toR, hK, e0, e1, e2, e3, f1_assoc]

theorem foldl_pairs {σ : Type} (f : σ → Nat → σ) (s : σ) :
    (List.range 16).foldl f s = roundIdx.foldl (fun s (r : Fin 8) => f (f s (2 * r.val)) (2 * r.val + 1)) s := rfl

theorem foldl_toR (g : BitVec 32 → BitVec 32) (Kv : Vector (BitVec 32) 40) (Kf : Nat → BitVec 32)
    (hK : ∀ j (h : j < 40), Kv[j] = Kf j) (l : List (Fin 8)) (s : St) :
    l.foldl (fun s (r : Fin 8) => Spec.Twofish.round g Kf (Spec.Twofish.round g Kf s (2 * r.val)) (2 * r.val + 1)) (toR s)
      = toR (l.foldl (encRound g Kv) s) := by
  induction l generalizing s with
  | nil => rfl
  | cons r l ih => simp only [List.foldl]; rw [round_pair g Kv Kf hK, ih]

theorem blockWord_eq_pWord (b : BitVec 128) :
    blockWord b 0 = Spec.Twofish.pWord b 0 ∧ blockWord b 1 = Spec.Twofish.pWord b 1 ∧
    blockWord b 2 = Spec.Twofish.pWord b 2 ∧ blockWord b 3 = Spec.Twofish.pWord b 3 := by
  simp only [blockWord, Spec.Twofish.pWord, Spec.Twofish.word, byteAt, bswap32]
  refine ⟨?_, ?_, ?_, ?_⟩ <;> bv_decide (config := { timeout := 600 })

theorem storeWords_eq_cBlock (a b c d : BitVec 32) : storeWords a b c d = Spec.Twofish.cBlock a b c d := by
  simp only [storeWords, Spec.Twofish.cBlock, Spec.Twofish.byte, bswap32]
  bv_decide (config := { timeout := 600 })

theorem encryptWith_eq (g : BitVec 32 → BitVec 32) (Kv : Vector (BitVec 32) 40) (Kf : Nat → BitVec 32)
    (hK : ∀ j (h : j < 40), Kv[j] = Kf j) (b : BitVec 128) :
    encryptWith g Kv b = Spec.Twofish.encryptWith g Kf b := by
  obtain ⟨w0, w1, w2, w3⟩ := blockWord_eq_pWord b
  simp only [encryptWith, Spec.Twofish.encryptWith, foldl_pairs, storeWords_eq_cBlock]
  have := foldl_toR g Kv Kf hK roundIdx ⟨blockWord b 0 ^^^ Kv[0], blockWord b 1 ^^^ Kv[1], blockWord b 2 ^^^ Kv[2], blockWord b 3 ^^^ Kv[3]⟩
  simp only [toR, hK, w0, w1, w2, w3] at this
  rw [this]
  simp only [hK, w0, w1, w2, w3]

/-! ### the cipher -/

theorem keySchedule_k (key : Array (BitVec 8)) (j : Nat) (hj : j < 40) :
    (keySchedule key).k[j] = (subkeyList key (key.size / 8))[j]'(by rw [subkeyList_length]; exact hj) := by
  simp [keySchedule]

/-- **Impl = Spec** (encryption): for every key of 16, 24 or 32 bytes and every block, the model of the Rust
`encrypt_block` is Twofish encryption as defined in the paper. -/
theorem encrypt_eq_spec (key : Array (BitVec 8)) (hk : key.size = 16 ∨ key.size = 24 ∨ key.size = 32)
    (b : BitVec 128) : encrypt (keySchedule key) b = Spec.Twofish.encrypt key b := by
  have hk' : key.size / 8 = 2 ∨ key.size / 8 = 3 ∨ key.size / 8 = 4 := by omega
  have hK : ∀ j (h : j < 40), (keySchedule key).k[j] = Spec.Twofish.K key (key.size / 8) j := by
    intro j hj
    rw [keySchedule_k key j hj]
    have := subkey_eq key (key.size / 8) hk' j hj
    rw [List.getElem?_eq_getElem (by rw [subkeyList_length]; exact hj)] at this
    exact Option.some.inj this
  have hg : gFunc (keySchedule key).s (keySchedule key).start = Spec.Twofish.g key (key.size / 8) := by
    funext x
    rcases hk' with h | h | h <;> simp only [keySchedule, h]
    · exact g_eq_2 x key
    · exact g_eq_3 x key
    · exact g_eq_4 x key
  unfold encrypt Spec.Twofish.encrypt
  rw [hg]
  exact encryptWith_eq _ _ _ hK b

/-- **Impl = Spec** (decryption): the model of `decrypt_block` is the inverse of the paper's encryption. -/
theorem decrypt_spec_encrypt (key : Array (BitVec 8)) (hk : key.size = 16 ∨ key.size = 24 ∨ key.size = 32)
    (b : BitVec 128) : decrypt (keySchedule key) (Spec.Twofish.encrypt key b) = b := by
  rw [← encrypt_eq_spec key hk]; exact decrypt_encrypt _ b

theorem spec_encrypt_decrypt (key : Array (BitVec 8)) (hk : key.size = 16 ∨ key.size = 24 ∨ key.size = 32)
    (b : BitVec 128) : Spec.Twofish.encrypt key (decrypt (keySchedule key) b) = b := by
  rw [← encrypt_eq_spec key hk]; exact encrypt_decrypt _ b

end BC.Twofish
