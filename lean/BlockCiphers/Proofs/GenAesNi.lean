import BlockCiphers.Gen.Aes_Ni
import BlockCiphers.Impl.AesNi
import Std.Tactic.BVDecide
/-
Tie theorems: the functions regenerated from `/repo/aes/src/ni/{encdec,expand,hazmat}.rs` (`Gen/Aes_Ni.lean`, intrinsics mapped to
`Prelude/X86Intrinsics.lean` by the extern table of the translator) ARE the functions of the hand-written model `Impl/AesNi.lean`,
for all inputs.  Round keys / registers: one `BitVec 128` each (x86 lane order); blocks and keys: `BitVec (8n)`, byte 0 most
significant.  A tuple of registers returned by a regenerated function is compared with the model's `List` through `l<n>`.
The only non-syntactic steps: a 16-byte memory image written as the concatenation of its bytes (`cat16`, `key192_*`,
`key256_*`), and the `[u64; 2]` transmutes of `aes192_expand_key::shuffle` (`shuffle_0`, `shuffle_1`).
Produced by mk_ni.py (only the long argument lists are mechanical).
-/
namespace BC.GenAesNi
open BC.Gen.Fn BC.X86
set_option maxRecDepth 100000

/-! ### glue -/

theorem cat16 (x : BitVec 128) : x.extractLsb' 120 8 ++ x.extractLsb' 112 8 ++ x.extractLsb' 104 8 ++ x.extractLsb' 96 8 ++ x.extractLsb' 88 8 ++ x.extractLsb' 80 8 ++ x.extractLsb' 72 8 ++ x.extractLsb' 64 8 ++ x.extractLsb' 56 8 ++ x.extractLsb' 48 8 ++ x.extractLsb' 40 8 ++ x.extractLsb' 32 8 ++ x.extractLsb' 24 8 ++ x.extractLsb' 16 8 ++ x.extractLsb' 8 8 ++ x.extractLsb' 0 8 = x := by
  bv_decide (config := { timeout := 300 })

/-- `t = [0u8; 32]; t[..24] = key`: the first 16 bytes -/
theorem key192_hi (key : BitVec 192) : key.extractLsb' 184 8 ++ key.extractLsb' 176 8 ++ key.extractLsb' 168 8 ++ key.extractLsb' 160 8 ++ key.extractLsb' 152 8 ++ key.extractLsb' 144 8 ++ key.extractLsb' 136 8 ++ key.extractLsb' 128 8 ++ key.extractLsb' 120 8 ++ key.extractLsb' 112 8 ++ key.extractLsb' 104 8 ++ key.extractLsb' 96 8 ++ key.extractLsb' 88 8 ++ key.extractLsb' 80 8 ++ key.extractLsb' 72 8 ++ key.extractLsb' 64 8 = (key.setWidth 256 <<< 64).extractLsb' 128 128 := by
  bv_decide (config := { timeout := 300 })
/-- … and bytes 16..32 -/
theorem key192_lo (key : BitVec 192) : key.extractLsb' 56 8 ++ key.extractLsb' 48 8 ++ key.extractLsb' 40 8 ++ key.extractLsb' 32 8 ++ key.extractLsb' 24 8 ++ key.extractLsb' 16 8 ++ key.extractLsb' 8 8 ++ key.extractLsb' 0 8 ++ 0x0#8 ++ 0x0#8 ++ 0x0#8 ++ 0x0#8 ++ 0x0#8 ++ 0x0#8 ++ 0x0#8 ++ 0x0#8 = (key.setWidth 256 <<< 64).extractLsb' 0 128 := by
  bv_decide (config := { timeout := 300 })
theorem key256_hi (key : BitVec 256) : key.extractLsb' 248 8 ++ key.extractLsb' 240 8 ++ key.extractLsb' 232 8 ++ key.extractLsb' 224 8 ++ key.extractLsb' 216 8 ++ key.extractLsb' 208 8 ++ key.extractLsb' 200 8 ++ key.extractLsb' 192 8 ++ key.extractLsb' 184 8 ++ key.extractLsb' 176 8 ++ key.extractLsb' 168 8 ++ key.extractLsb' 160 8 ++ key.extractLsb' 152 8 ++ key.extractLsb' 144 8 ++ key.extractLsb' 136 8 ++ key.extractLsb' 128 8 = key.extractLsb' 128 128 := by
  bv_decide (config := { timeout := 300 })
theorem key256_lo (key : BitVec 256) : key.extractLsb' 120 8 ++ key.extractLsb' 112 8 ++ key.extractLsb' 104 8 ++ key.extractLsb' 96 8 ++ key.extractLsb' 88 8 ++ key.extractLsb' 80 8 ++ key.extractLsb' 72 8 ++ key.extractLsb' 64 8 ++ key.extractLsb' 56 8 ++ key.extractLsb' 48 8 ++ key.extractLsb' 40 8 ++ key.extractLsb' 32 8 ++ key.extractLsb' 24 8 ++ key.extractLsb' 16 8 ++ key.extractLsb' 8 8 ++ key.extractLsb' 0 8 = key.extractLsb' 0 128 := by
  bv_decide (config := { timeout := 300 })

/-- `shuffle(a, b, 0) = transmute([a_u64[0], b_u64[0]])` -/
theorem shuffle_0 (a b : BitVec 128) : b.extractLsb' 0 64 ++ a.extractLsb' 0 64 = BC.AesNi.shuffle192 a b 0 := by
  simp only [BC.AesNi.shuffle192]
  bv_decide (config := { timeout := 300 })
theorem shuffle_1 (a b : BitVec 128) : b.extractLsb' 0 64 ++ a.extractLsb' 64 64 = BC.AesNi.shuffle192 a b 1 := by
  simp only [BC.AesNi.shuffle192]
  bv_decide (config := { timeout := 300 })

def l8 (t : BitVec 128 × BitVec 128 × BitVec 128 × BitVec 128 × BitVec 128 × BitVec 128 × BitVec 128 × BitVec 128) : List (BitVec 128) :=
  match t with
  | (a0, a1, a2, a3, a4, a5, a6, a7) => [a0, a1, a2, a3, a4, a5, a6, a7]

def l9 (t : BitVec 128 × BitVec 128 × BitVec 128 × BitVec 128 × BitVec 128 × BitVec 128 × BitVec 128 × BitVec 128 × BitVec 128) : List (BitVec 128) :=
  match t with
  | (a0, a1, a2, a3, a4, a5, a6, a7, a8) => [a0, a1, a2, a3, a4, a5, a6, a7, a8]

def l11 (t : BitVec 128 × BitVec 128 × BitVec 128 × BitVec 128 × BitVec 128 × BitVec 128 × BitVec 128 × BitVec 128 × BitVec 128 × BitVec 128 × BitVec 128) : List (BitVec 128) :=
  match t with
  | (a0, a1, a2, a3, a4, a5, a6, a7, a8, a9, a10) => [a0, a1, a2, a3, a4, a5, a6, a7, a8, a9, a10]

def l13 (t : BitVec 128 × BitVec 128 × BitVec 128 × BitVec 128 × BitVec 128 × BitVec 128 × BitVec 128 × BitVec 128 × BitVec 128 × BitVec 128 × BitVec 128 × BitVec 128 × BitVec 128) : List (BitVec 128) :=
  match t with
  | (a0, a1, a2, a3, a4, a5, a6, a7, a8, a9, a10, a11, a12) => [a0, a1, a2, a3, a4, a5, a6, a7, a8, a9, a10, a11, a12]

def l15 (t : BitVec 128 × BitVec 128 × BitVec 128 × BitVec 128 × BitVec 128 × BitVec 128 × BitVec 128 × BitVec 128 × BitVec 128 × BitVec 128 × BitVec 128 × BitVec 128 × BitVec 128 × BitVec 128 × BitVec 128) : List (BitVec 128) :=
  match t with
  | (a0, a1, a2, a3, a4, a5, a6, a7, a8, a9, a10, a11, a12, a13, a14) => [a0, a1, a2, a3, a4, a5, a6, a7, a8, a9, a10, a11, a12, a13, a14]

/-! ### encdec.rs: `encrypt::<KEYS>`, `decrypt::<KEYS>` -/

theorem encrypt_11_eq (k0 k1 k2 k3 k4 k5 k6 k7 k8 k9 k10 b : BitVec 128) :
    ni_encrypt_11 k0 k1 k2 k3 k4 k5 k6 k7 k8 k9 k10 b = BC.AesNi.encrypt [k0, k1, k2, k3, k4, k5, k6, k7, k8, k9, k10] b := by
  simp only [ni_encrypt_11, cat16]
  rfl

theorem decrypt_11_eq (k0 k1 k2 k3 k4 k5 k6 k7 k8 k9 k10 b : BitVec 128) :
    ni_decrypt_11 k0 k1 k2 k3 k4 k5 k6 k7 k8 k9 k10 b = BC.AesNi.decrypt [k0, k1, k2, k3, k4, k5, k6, k7, k8, k9, k10] b := by
  simp only [ni_decrypt_11, cat16]
  rfl

theorem encrypt_13_eq (k0 k1 k2 k3 k4 k5 k6 k7 k8 k9 k10 k11 k12 b : BitVec 128) :
    ni_encrypt_13 k0 k1 k2 k3 k4 k5 k6 k7 k8 k9 k10 k11 k12 b = BC.AesNi.encrypt [k0, k1, k2, k3, k4, k5, k6, k7, k8, k9, k10, k11, k12] b := by
  simp only [ni_encrypt_13, cat16]
  rfl

theorem decrypt_13_eq (k0 k1 k2 k3 k4 k5 k6 k7 k8 k9 k10 k11 k12 b : BitVec 128) :
    ni_decrypt_13 k0 k1 k2 k3 k4 k5 k6 k7 k8 k9 k10 k11 k12 b = BC.AesNi.decrypt [k0, k1, k2, k3, k4, k5, k6, k7, k8, k9, k10, k11, k12] b := by
  simp only [ni_decrypt_13, cat16]
  rfl

theorem encrypt_15_eq (k0 k1 k2 k3 k4 k5 k6 k7 k8 k9 k10 k11 k12 k13 k14 b : BitVec 128) :
    ni_encrypt_15 k0 k1 k2 k3 k4 k5 k6 k7 k8 k9 k10 k11 k12 k13 k14 b = BC.AesNi.encrypt [k0, k1, k2, k3, k4, k5, k6, k7, k8, k9, k10, k11, k12, k13, k14] b := by
  simp only [ni_encrypt_15, cat16]
  rfl

theorem decrypt_15_eq (k0 k1 k2 k3 k4 k5 k6 k7 k8 k9 k10 k11 k12 k13 k14 b : BitVec 128) :
    ni_decrypt_15 k0 k1 k2 k3 k4 k5 k6 k7 k8 k9 k10 k11 k12 k13 k14 b = BC.AesNi.decrypt [k0, k1, k2, k3, k4, k5, k6, k7, k8, k9, k10, k11, k12, k13, k14] b := by
  simp only [ni_decrypt_15, cat16]
  rfl

/-! ### expand.rs -/

theorem aes128_expand_key_eq (key : BitVec 128) :
    l11 (ni_aes128_expand_key key) = BC.AesNi.aes128_expand_key key := by
  simp only [ni_aes128_expand_key, cat16]
  rfl

theorem aes192_expand_key_eq (key : BitVec 192) :
    l13 (ni_aes192_expand_key key) = BC.AesNi.aes192_expand_key key := by
  simp only [ni_aes192_expand_key, key192_hi, key192_lo, shuffle_0, shuffle_1]
  rfl

theorem aes256_expand_key_eq (key : BitVec 256) :
    l15 (ni_aes256_expand_key key) = BC.AesNi.aes256_expand_key key := by
  simp only [ni_aes256_expand_key, key256_hi, key256_lo]
  rfl

theorem inv_keys_11_eq (k0 k1 k2 k3 k4 k5 k6 k7 k8 k9 k10 : BitVec 128) :
    l11 (ni_inv_keys_11 k0 k1 k2 k3 k4 k5 k6 k7 k8 k9 k10) = BC.AesNi.inv_keys [k0, k1, k2, k3, k4, k5, k6, k7, k8, k9, k10] := by
  rfl

theorem inv_keys_13_eq (k0 k1 k2 k3 k4 k5 k6 k7 k8 k9 k10 k11 k12 : BitVec 128) :
    l13 (ni_inv_keys_13 k0 k1 k2 k3 k4 k5 k6 k7 k8 k9 k10 k11 k12) = BC.AesNi.inv_keys [k0, k1, k2, k3, k4, k5, k6, k7, k8, k9, k10, k11, k12] := by
  rfl

theorem inv_keys_15_eq (k0 k1 k2 k3 k4 k5 k6 k7 k8 k9 k10 k11 k12 k13 k14 : BitVec 128) :
    l15 (ni_inv_keys_15 k0 k1 k2 k3 k4 k5 k6 k7 k8 k9 k10 k11 k12 k13 k14) = BC.AesNi.inv_keys [k0, k1, k2, k3, k4, k5, k6, k7, k8, k9, k10, k11, k12, k13, k14] := by
  rfl

/-! ### encdec.rs: `encrypt_par::<KEYS, U9>`, `decrypt_par::<KEYS, U9>` (with `load`, `store`, `xor`, `aesenc`, … inlined) -/

theorem encrypt_par_11_eq (k0 k1 k2 k3 k4 k5 k6 k7 k8 k9 k10 b0 b1 b2 b3 b4 b5 b6 b7 b8 : BitVec 128) :
    l9 (ni_encrypt_par_11 k0 k1 k2 k3 k4 k5 k6 k7 k8 k9 k10 b0 b1 b2 b3 b4 b5 b6 b7 b8) = BC.AesNi.encrypt_par [k0, k1, k2, k3, k4, k5, k6, k7, k8, k9, k10] [b0, b1, b2, b3, b4, b5, b6, b7, b8] := by
  simp only [ni_encrypt_par_11, cat16]
  rfl

theorem decrypt_par_11_eq (k0 k1 k2 k3 k4 k5 k6 k7 k8 k9 k10 b0 b1 b2 b3 b4 b5 b6 b7 b8 : BitVec 128) :
    l9 (ni_decrypt_par_11 k0 k1 k2 k3 k4 k5 k6 k7 k8 k9 k10 b0 b1 b2 b3 b4 b5 b6 b7 b8) = BC.AesNi.decrypt_par [k0, k1, k2, k3, k4, k5, k6, k7, k8, k9, k10] [b0, b1, b2, b3, b4, b5, b6, b7, b8] := by
  simp only [ni_decrypt_par_11, cat16]
  rfl

theorem encrypt_par_13_eq (k0 k1 k2 k3 k4 k5 k6 k7 k8 k9 k10 k11 k12 b0 b1 b2 b3 b4 b5 b6 b7 b8 : BitVec 128) :
    l9 (ni_encrypt_par_13 k0 k1 k2 k3 k4 k5 k6 k7 k8 k9 k10 k11 k12 b0 b1 b2 b3 b4 b5 b6 b7 b8) = BC.AesNi.encrypt_par [k0, k1, k2, k3, k4, k5, k6, k7, k8, k9, k10, k11, k12] [b0, b1, b2, b3, b4, b5, b6, b7, b8] := by
  simp only [ni_encrypt_par_13, cat16]
  rfl

theorem decrypt_par_13_eq (k0 k1 k2 k3 k4 k5 k6 k7 k8 k9 k10 k11 k12 b0 b1 b2 b3 b4 b5 b6 b7 b8 : BitVec 128) :
    l9 (ni_decrypt_par_13 k0 k1 k2 k3 k4 k5 k6 k7 k8 k9 k10 k11 k12 b0 b1 b2 b3 b4 b5 b6 b7 b8) = BC.AesNi.decrypt_par [k0, k1, k2, k3, k4, k5, k6, k7, k8, k9, k10, k11, k12] [b0, b1, b2, b3, b4, b5, b6, b7, b8] := by
  simp only [ni_decrypt_par_13, cat16]
  rfl

set_option maxHeartbeats 1000000 in
theorem encrypt_par_15_eq (k0 k1 k2 k3 k4 k5 k6 k7 k8 k9 k10 k11 k12 k13 k14 b0 b1 b2 b3 b4 b5 b6 b7 b8 : BitVec 128) :
    l9 (ni_encrypt_par_15 k0 k1 k2 k3 k4 k5 k6 k7 k8 k9 k10 k11 k12 k13 k14 b0 b1 b2 b3 b4 b5 b6 b7 b8) = BC.AesNi.encrypt_par [k0, k1, k2, k3, k4, k5, k6, k7, k8, k9, k10, k11, k12, k13, k14] [b0, b1, b2, b3, b4, b5, b6, b7, b8] := by
  simp only [ni_encrypt_par_15, cat16]
  rfl

set_option maxHeartbeats 1000000 in
theorem decrypt_par_15_eq (k0 k1 k2 k3 k4 k5 k6 k7 k8 k9 k10 k11 k12 k13 k14 b0 b1 b2 b3 b4 b5 b6 b7 b8 : BitVec 128) :
    l9 (ni_decrypt_par_15 k0 k1 k2 k3 k4 k5 k6 k7 k8 k9 k10 k11 k12 k13 k14 b0 b1 b2 b3 b4 b5 b6 b7 b8) = BC.AesNi.decrypt_par [k0, k1, k2, k3, k4, k5, k6, k7, k8, k9, k10, k11, k12, k13, k14] [b0, b1, b2, b3, b4, b5, b6, b7, b8] := by
  simp only [ni_decrypt_par_15, cat16]
  rfl

/-! ### hazmat.rs -/

theorem hazmat_cipher_round_eq (block round_key : BitVec 128) :
    ni_hazmat_cipher_round block round_key = BC.AesNi.cipher_round block round_key := by
  simp only [ni_hazmat_cipher_round, cat16]
  rfl

theorem hazmat_cipher_round_par_eq (b0 b1 b2 b3 b4 b5 b6 b7 k0 k1 k2 k3 k4 k5 k6 k7 : BitVec 128) :
    l8 (ni_hazmat_cipher_round_par b0 b1 b2 b3 b4 b5 b6 b7 k0 k1 k2 k3 k4 k5 k6 k7) = BC.AesNi.cipher_round_par [b0, b1, b2, b3, b4, b5, b6, b7] [k0, k1, k2, k3, k4, k5, k6, k7] := by
  simp only [ni_hazmat_cipher_round_par, cat16]
  rfl

theorem hazmat_equiv_inv_cipher_round_eq (block round_key : BitVec 128) :
    ni_hazmat_equiv_inv_cipher_round block round_key = BC.AesNi.equiv_inv_cipher_round block round_key := by
  simp only [ni_hazmat_equiv_inv_cipher_round, cat16]
  rfl

theorem hazmat_equiv_inv_cipher_round_par_eq (b0 b1 b2 b3 b4 b5 b6 b7 k0 k1 k2 k3 k4 k5 k6 k7 : BitVec 128) :
    l8 (ni_hazmat_equiv_inv_cipher_round_par b0 b1 b2 b3 b4 b5 b6 b7 k0 k1 k2 k3 k4 k5 k6 k7) = BC.AesNi.equiv_inv_cipher_round_par [b0, b1, b2, b3, b4, b5, b6, b7] [k0, k1, k2, k3, k4, k5, k6, k7] := by
  simp only [ni_hazmat_equiv_inv_cipher_round_par, cat16]
  rfl

theorem hazmat_mix_columns_eq (block : BitVec 128) :
    ni_hazmat_mix_columns block = BC.AesNi.mix_columns block := by
  simp only [ni_hazmat_mix_columns, cat16]
  rfl

theorem hazmat_inv_mix_columns_eq (block : BitVec 128) :
    ni_hazmat_inv_mix_columns block = BC.AesNi.inv_mix_columns block := by
  simp only [ni_hazmat_inv_mix_columns, cat16]
  rfl

end BC.GenAesNi