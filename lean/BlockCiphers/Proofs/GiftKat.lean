import BlockCiphers.Impl.Gift
import BlockCiphers.Spec.Gift
/-
GIFT-128 known-answer vectors as kernel-checked examples, against the Spec (`Spec/Gift.lean`, the bit-permutation
description of the CHES 2017 paper) AND against the model of the Rust (`Impl/Gift.lean`, fixsliced):
the three vectors of /repo/gift/tests/mod.rs.  The first two are the GIFT-128 test vectors of the paper's
appendix / reference implementation (all-zero, and fedcba9876543210fedcba9876543210 for key and plaintext); the third
is a random-looking vector bundled with the crate.
-/
namespace BC.Proofs.GiftKat
open BC

/-- vector 1 of /repo/gift/tests/mod.rs (= GIFT-128 paper test vector 1) -/
example : Spec.Gift.encrypt 0x00000000000000000000000000000000#128 0x00000000000000000000000000000000#128
    = 0xcd0bd738388ad3f668b15a36ceb6ff92#128 := by decide +kernel
example : Spec.Gift.decrypt 0x00000000000000000000000000000000#128 0xcd0bd738388ad3f668b15a36ceb6ff92#128
    = 0x00000000000000000000000000000000#128 := by decide +kernel
example : Gift.encrypt (Gift.precomputeRkeys 0x00000000000000000000000000000000#128) 0x00000000000000000000000000000000#128
    = 0xcd0bd738388ad3f668b15a36ceb6ff92#128 := by decide +kernel
example : Gift.decrypt (Gift.precomputeRkeys 0x00000000000000000000000000000000#128) 0xcd0bd738388ad3f668b15a36ceb6ff92#128
    = 0x00000000000000000000000000000000#128 := by decide +kernel

/-- vector 2 of /repo/gift/tests/mod.rs (= GIFT-128 paper test vector 2) -/
example : Spec.Gift.encrypt 0xfedcba9876543210fedcba9876543210#128 0xfedcba9876543210fedcba9876543210#128
    = 0x8422241a6dbf5a9346af468409ee0152#128 := by decide +kernel
example : Spec.Gift.decrypt 0xfedcba9876543210fedcba9876543210#128 0x8422241a6dbf5a9346af468409ee0152#128
    = 0xfedcba9876543210fedcba9876543210#128 := by decide +kernel
example : Gift.encrypt (Gift.precomputeRkeys 0xfedcba9876543210fedcba9876543210#128) 0xfedcba9876543210fedcba9876543210#128
    = 0x8422241a6dbf5a9346af468409ee0152#128 := by decide +kernel
example : Gift.decrypt (Gift.precomputeRkeys 0xfedcba9876543210fedcba9876543210#128) 0x8422241a6dbf5a9346af468409ee0152#128
    = 0xfedcba9876543210fedcba9876543210#128 := by decide +kernel

/-- vector 3 of /repo/gift/tests/mod.rs -/
example : Spec.Gift.encrypt 0xd0f5c59a7700d3e799028fa9f90ad837#128 0xe39c141fa57dba43f08a85b6a91f86c1#128
    = 0x13ede67cbdcc3dbf400a62d6977265ea#128 := by decide +kernel
example : Spec.Gift.decrypt 0xd0f5c59a7700d3e799028fa9f90ad837#128 0x13ede67cbdcc3dbf400a62d6977265ea#128
    = 0xe39c141fa57dba43f08a85b6a91f86c1#128 := by decide +kernel
example : Gift.encrypt (Gift.precomputeRkeys 0xd0f5c59a7700d3e799028fa9f90ad837#128) 0xe39c141fa57dba43f08a85b6a91f86c1#128
    = 0x13ede67cbdcc3dbf400a62d6977265ea#128 := by decide +kernel
example : Gift.decrypt (Gift.precomputeRkeys 0xd0f5c59a7700d3e799028fa9f90ad837#128) 0x13ede67cbdcc3dbf400a62d6977265ea#128
    = 0xe39c141fa57dba43f08a85b6a91f86c1#128 := by decide +kernel

/-- the S-box tables are inverse to each other, and the constants of the first rounds are those listed in the paper
(01,03,07,0F,1F,3E,3D,3B,37,2F,1E,3C,39,33,27,0E,…) -/
example : ∀ x : BitVec 4, Spec.Gift.gsInv (Spec.Gift.gs x) = x := by decide
example : ∀ x : BitVec 4, Spec.Gift.gs (Spec.Gift.gsInv x) = x := by decide
example : (List.range 48).map Spec.Gift.constAt =
    [0x01, 0x03, 0x07, 0x0F, 0x1F, 0x3E, 0x3D, 0x3B, 0x37, 0x2F, 0x1E, 0x3C, 0x39, 0x33, 0x27, 0x0E,
     0x1D, 0x3A, 0x35, 0x2B, 0x16, 0x2C, 0x18, 0x30, 0x21, 0x02, 0x05, 0x0B, 0x17, 0x2E, 0x1C, 0x38,
     0x31, 0x23, 0x06, 0x0D, 0x1B, 0x36, 0x2D, 0x1A, 0x34, 0x29, 0x12, 0x24, 0x08, 0x11, 0x22, 0x04] := by decide +kernel

end BC.Proofs.GiftKat
