import BlockCiphers.Proofs.Threefish
/-
Threefish: the crate (model `Impl/Threefish.lean`) against Skein 1.3 (`Spec/Threefish.lean`).

* constants: `C240`, the three rotation tables, the three permutation tables (the crate's `P*` are the
  inverses of the paper's π; applied on the write side they give the same word permutation);
* `encryptU64_eq_spec`: u64 API = `Spec.encryptWords` for every key, tweak and block (generic in the
  parameter set), `encryptBlock_eq_spec`: byte API = `Spec.encrypt` on byte strings;
* decryption inverts the specified encryption;
* the known-answer vectors of /repo/threefish/tests/mod.rs through the *Spec* and through the model,
  checked by the kernel.
-/
namespace BC.Threefish
open BC.Spec.Threefish

/-! ### constants -/

theorem C240_eq_spec : C240 = BC.Spec.Threefish.C240 := rfl

theorem rot256_eq_spec : ∀ d, d < 8 → ∀ j, j < 2 → (tf256.rotAt d j).toNat = threefish256.R d j := by decide
theorem rot512_eq_spec : ∀ d, d < 8 → ∀ j, j < 4 → (tf512.rotAt d j).toNat = threefish512.R d j := by decide
theorem rot1024_eq_spec : ∀ d, d < 8 → ∀ j, j < 8 → (tf1024.rotAt d j).toNat = threefish1024.R d j := by decide

/-- the crate's `P256` is the inverse of π for N_w = 4 (and equal to it: an involution) -/
theorem perm256_inverse : ∀ i, i < 4 →
    threefish256.π (tf256.permAt i) = i ∧ tf256.permAt (threefish256.π i) = i ∧ tf256.permAt i = threefish256.π i := by
  decide
/-- the crate's `P512` is the inverse of π for N_w = 8 (and differs from π) -/
theorem perm512_inverse : ∀ i, i < 8 →
    threefish512.π (tf512.permAt i) = i ∧ tf512.permAt (threefish512.π i) = i := by decide
theorem perm512_ne_pi : tf512.permAt 0 ≠ threefish512.π 0 := by decide
/-- the crate's `P1024` is the inverse of π for N_w = 16 -/
theorem perm1024_inverse : ∀ i, i < 16 →
    threefish1024.π (tf1024.permAt i) = i ∧ tf1024.permAt (threefish1024.π i) = i := by decide

/-- shape of the rotation tables: 8 rows of n_w/2 entries (the C20 indexing site `$rot[d % 8][j]`) -/
theorem rot_shape :
    (R256.size = 8 ∧ R256.all (·.size == 2)) ∧ (R512.size = 8 ∧ R512.all (·.size == 4)) ∧
    (R1024.size = 8 ∧ R1024.all (·.size == 8)) := by decide +kernel

/-! ### the generic conformance statement -/

/-- the paper's variant with the crate's `n_w`, `rounds` and given tables -/
@[reducible] def specOf (p : Params) (rot : Array (Array Nat)) (pi : Array Nat) : Variant :=
  { nw := p.nw, nr := p.rounds, rot := rot, pi := pi }

structure Matches (p : Params) (v : Variant) : Prop where
  rot : ∀ d, d < 8 → ∀ j, j < p.nw / 2 → (p.rotAt d j).toNat = v.R d j
  valid : Valid p v.π
  nw4 : 4 ≤ p.nw

theorem matches256 : Matches tf256 (specOf tf256 ROT4 PI4) := ⟨rot256_eq_spec, valid256, by decide⟩
theorem matches512 : Matches tf512 (specOf tf512 ROT8 PI8) := ⟨rot512_eq_spec, valid512, by decide⟩
theorem matches1024 : Matches tf1024 (specOf tf1024 ROT16 PI16) := ⟨rot1024_eq_spec, valid1024, by decide⟩

theorem rd_eq_getD {n : Nat} (v : Vector (BitVec 64) n) (i : Nat) : rd v i = v.getD i 0#64 := by
  unfold rd Vector.getD
  by_cases h : i < n <;> simp [h]

theorem extKey_eq_spec {n : Nat} (K : Vector (BitVec 64) n) (m : Nat) (hm : m < n + 1) :
    rd (extKey K) m = keyWord K m := by
  rw [rd_eq _ _ hm]
  simp only [extKey, Vector.getElem_ofFn, keyWord, rd_eq_getD, Vector.foldl_toList]
  rfl

theorem extTweak_eq_spec (t0 t1 : BitVec 64) (m : Nat) (hm : m < 3) :
    rd (extTweak t0 t1) m = tweakWord t0 t1 m := by
  have : m = 0 ∨ m = 1 ∨ m = 2 := by omega
  rcases this with rfl | rfl | rfl <;> simp [rd, extTweak, tweakWord]

theorem subkeyWord_eq_spec {n : Nat} (K : Vector (BitVec 64) n) (t0 t1 : BitVec 64) (s i : Nat)
    (hn : 4 ≤ n) (hi : i < n) :
    subkeyWord n (extKey K) (extTweak t0 t1) s i = subkey K t0 t1 s i := by
  unfold subkeyWord subkey
  simp only []
  rw [extKey_eq_spec K _ (Nat.mod_lt _ (by omega)), extTweak_eq_spec t0 t1 _ (Nat.mod_lt _ (by omega)),
    extTweak_eq_spec t0 t1 _ (Nat.mod_lt _ (by omega))]
  by_cases c3 : i = n - 3
  · rw [if_pos c3, if_neg (by omega), if_pos (by omega)]
  · by_cases c2 : i = n - 2
    · rw [if_neg c3, if_pos c2, if_neg (by omega), if_neg (by omega), if_pos (by omega)]
    · by_cases c1 : i = n - 1
      · rw [if_neg c3, if_neg c2, if_pos c1, if_neg (by omega), if_neg (by omega), if_neg (by omega)]
      · rw [if_neg c3, if_neg c2, if_neg c1, if_pos (by omega)]

/-- every entry of the subkey table `sk[s][i]` is the paper's `k_{s,i}` -/
theorem row_eq_spec (p : Params) (K : Vector (BitVec 64) p.nw) (t0 t1 : BitVec 64) (s i : Nat)
    (hn : 4 ≤ p.nw) (hs : s < p.rounds / 4 + 1) (hi : i < p.nw) :
    rd ((newWithTweakU64 p K t0 t1).row s) i = subkey K t0 t1 s i := by
  rw [rd_eq _ _ hi]
  simp only [Cipher.row, hs, dif_pos, newWithTweakU64, Vector.getElem_ofFn]
  exact subkeyWord_eq_spec K t0 t1 s i hn hi

theorem R_mod (v : Variant) (d j : Nat) : v.R (d % 8) j = v.R d j := by
  simp [Variant.R]

theorem mix_eq_MIX (r : BitVec 8) (a b : BitVec 64) : mix r a b = MIX r.toNat a b := rfl

/-- one round of the crate = one round of the paper -/
theorem encRound_eq_spec (p : Params) (rot : Array (Array Nat)) (pi : Array Nat)
    (hm : Matches p (specOf p rot pi)) (K : Vector (BitVec 64) p.nw) (t0 t1 : BitVec 64)
    (d : Nat) (hd : d < p.rounds) (x : Vector (BitVec 64) p.nw) :
    encRound (newWithTweakU64 p K t0 t1) d x = round (specOf p rot pi) K t0 t1 d x := by
  apply Vector.ext
  intro k hk
  have hv := hm.valid
  have he := hv.even
  rw [getElem_encRound hv _ d x k hk]
  have hq : (specOf p rot pi).π k < p.nw := hv.inv_lt k hk
  have h0 : 2 * ((specOf p rot pi).π k / 2) < p.nw := by omega
  have h1 : 2 * ((specOf p rot pi).π k / 2) + 1 < p.nw := by omega
  have hs : d / 4 < p.rounds / 4 + 1 := by omega
  have hj : (specOf p rot pi).π k / 2 < p.nw / 2 := by omega
  unfold round encF
  simp only [Vector.getElem_ofFn]
  rw [row_eq_spec p K t0 t1 _ _ hm.nw4 hs h0, row_eq_spec p K t0 t1 _ _ hm.nw4 hs h1,
    mix_eq_MIX, hm.rot _ (Nat.mod_lt _ (by omega)) _ hj, R_mod]
  simp only [rd_eq_getD]

theorem foldl_range_congr {α : Type} (f g : α → Nat → α) (n : Nat) (h : ∀ d, d < n → ∀ a, f a d = g a d)
    (a : α) : (List.range n).foldl f a = (List.range n).foldl g a := by
  induction n with
  | zero => rfl
  | succ n ih =>
    rw [List.range_succ, List.foldl_append, List.foldl_append, ih (fun d hd => h d (by omega))]
    simp [h n (by omega)]

/-- **C10, u64 API**: `encrypt_block_u64` after `new_with_tweak_u64` is Threefish of Skein 1.3 -/
theorem encryptU64_eq_spec (p : Params) (rot : Array (Array Nat)) (pi : Array Nat)
    (hm : Matches p (specOf p rot pi)) (K : Vector (BitVec 64) p.nw) (t0 t1 : BitVec 64)
    (x : Vector (BitVec 64) p.nw) :
    encryptU64 (newWithTweakU64 p K t0 t1) x = encryptWords (specOf p rot pi) K t0 t1 x := by
  unfold encryptU64 encryptWords
  simp only []
  rw [foldl_range_congr _ _ _ (fun d hd a => encRound_eq_spec p rot pi hm K t0 t1 d hd a)]
  apply Vector.ext
  intro i hi
  have hs : p.rounds / 4 < p.rounds / 4 + 1 := by omega
  simp only [addRow, Vector.getElem_zipWith, Vector.getElem_ofFn]
  rw [← rd_eq _ _ hi, ← rd_eq _ _ hi, row_eq_spec p K t0 t1 _ _ hm.nw4 hs hi, rd_eq_getD]

/-! ### bytes -/

theorem take_drop_8 (l : Bytes) (o : Nat) (h : o + 8 ≤ l.length) :
    (l.drop o).take 8 = [l.getD o 0#8, l.getD (o + 1) 0#8, l.getD (o + 2) 0#8, l.getD (o + 3) 0#8,
      l.getD (o + 4) 0#8, l.getD (o + 5) 0#8, l.getD (o + 6) 0#8, l.getD (o + 7) 0#8] := by
  apply List.ext_getElem
  · simp; omega
  · intro j h1 h2
    have hj : j < 8 := by simpa using h2
    have g : ∀ c (hc : c < 8), l.getD (o + c) 0#8 = l[o + c]'(by omega) := by
      intro c hc
      have : o + c < l.length := by omega
      simp [List.getD_eq_getElem?_getD, this]
    have g0 := g 0 (by omega)
    simp only [Nat.add_zero] at g0
    rw [g0, g 1 (by omega), g 2 (by omega), g 3 (by omega), g 4 (by omega), g 5 (by omega), g 6 (by omega), g 7 (by omega)]
    have : j = 0 ∨ j = 1 ∨ j = 2 ∨ j = 3 ∨ j = 4 ∨ j = 5 ∨ j = 6 ∨ j = 7 := by omega
    rcases this with rfl | rfl | rfl | rfl | rfl | rfl | rfl | rfl <;>
      simp [List.getElem_take, List.getElem_drop]

theorem pack8_eq_sum (b0 b1 b2 b3 b4 b5 b6 b7 : BitVec 8) :
    BitVec.ofNat 64 (bytesToNatLE [b0, b1, b2, b3, b4, b5, b6, b7]) = pack8 b0 b1 b2 b3 b4 b5 b6 b7 := by
  simp only [bytesToNatLE, List.foldr_cons, List.foldr_nil, Nat.zero_mul, Nat.zero_add]
  simp only [BitVec.ofNat_add, BitVec.ofNat_mul, BitVec.ofNat_toNat, pack8]
  bv_decide (config := { timeout := 600 })

/-- the paper's `BytesToWords` is the crate's `from_le_bytes` loop -/
theorem loadWords_eq_spec (n : Nat) (bs : Bytes) (h : bs.length = 8 * n) :
    loadWords n bs = bytesToWords n bs := by
  apply Vector.ext
  intro i hi
  simp only [loadWords, bytesToWords, Vector.getElem_ofFn]
  rw [take_drop_8 bs (8 * i) (by omega), pack8_eq_sum, le64_eq_pack8]

theorem byte_eq_spec (w : BitVec 64) (c : Nat) :
    (w >>> (8 * c)).setWidth 8 = BitVec.ofNat 8 (w.toNat / 256 ^ c % 256) := by
  apply BitVec.eq_of_toNat_eq
  simp only [BitVec.toNat_setWidth, BitVec.toNat_ushiftRight, BitVec.toNat_ofNat, Nat.shiftRight_eq_div_pow]
  have : (256 : Nat) ^ c = 2 ^ (8 * c) := by rw [Nat.pow_mul]
  rw [this]
  simp

/-- the paper's `WordsToBytes` is the crate's `to_le_bytes` loop -/
theorem storeWords_eq_spec {n : Nat} (v : Vector (BitVec 64) n) : storeWords v = wordsToBytes v := by
  unfold storeWords wordsToBytes
  apply List.map_congr_left
  intro k _
  rw [byte_eq_spec, rd_eq_getD]

/-- **C10, byte API**: `encrypt_block` after `new_with_tweak(key, tweak)` computes `TF(K, T, P)` of Skein 1.3 -/
theorem encryptBlock_eq_spec (p : Params) (rot : Array (Array Nat)) (pi : Array Nat)
    (hm : Matches p (specOf p rot pi)) (K T P : Bytes)
    (hK : K.length = 8 * p.nw) (hT : T.length = 16) (hP : P.length = 8 * p.nw) :
    encryptBlock (newWithTweak p K T) P = encrypt (specOf p rot pi) K T P := by
  unfold encryptBlock newWithTweak encrypt
  have e0 : le64 T 0 = (bytesToWords 2 T).getD 0 0#64 := by
    rw [← loadWords_eq_spec 2 T (by omega), ← rd_eq_getD, rd_eq _ _ (by omega)]
    simp [loadWords]
  have e1 : le64 T 8 = (bytesToWords 2 T).getD 1 0#64 := by
    rw [← loadWords_eq_spec 2 T (by omega), ← rd_eq_getD, rd_eq _ _ (by omega)]
    simp [loadWords]
  rw [encryptU64_eq_spec p rot pi hm, storeWords_eq_spec, loadWords_eq_spec _ K hK, loadWords_eq_spec _ P hP,
    e0, e1]

/-! ### the three ciphers of the crate -/

theorem threefish256_eq_spec (K T P : Bytes) (hK : K.length = 32) (hT : T.length = 16) (hP : P.length = 32) :
    encryptBlock (newWithTweak tf256 K T) P = encrypt threefish256 K T P :=
  encryptBlock_eq_spec tf256 ROT4 PI4 matches256 K T P hK hT hP

theorem threefish512_eq_spec (K T P : Bytes) (hK : K.length = 64) (hT : T.length = 16) (hP : P.length = 64) :
    encryptBlock (newWithTweak tf512 K T) P = encrypt threefish512 K T P :=
  encryptBlock_eq_spec tf512 ROT8 PI8 matches512 K T P hK hT hP

theorem threefish1024_eq_spec (K T P : Bytes) (hK : K.length = 128) (hT : T.length = 16) (hP : P.length = 128) :
    encryptBlock (newWithTweak tf1024 K T) P = encrypt threefish1024 K T P :=
  encryptBlock_eq_spec tf1024 ROT16 PI16 matches1024 K T P hK hT hP

/-- the plain keyed constructor is the specified cipher under the all-zero tweak -/
theorem threefish256_new_eq_spec (K P : Bytes) (hK : K.length = 32) (hP : P.length = 32) :
    encryptBlock (new tf256 K) P = encrypt threefish256 K (List.replicate 16 0#8) P :=
  threefish256_eq_spec K _ P hK (List.length_replicate ..) hP
theorem threefish512_new_eq_spec (K P : Bytes) (hK : K.length = 64) (hP : P.length = 64) :
    encryptBlock (new tf512 K) P = encrypt threefish512 K (List.replicate 16 0#8) P :=
  threefish512_eq_spec K _ P hK (List.length_replicate ..) hP
theorem threefish1024_new_eq_spec (K P : Bytes) (hK : K.length = 128) (hP : P.length = 128) :
    encryptBlock (new tf1024 K) P = encrypt threefish1024 K (List.replicate 16 0#8) P :=
  threefish1024_eq_spec K _ P hK (List.length_replicate ..) hP

/-- `decrypt_block` inverts the specified encryption -/
theorem threefish256_decrypt_spec (K T P : Bytes) (hK : K.length = 32) (hT : T.length = 16) (hP : P.length = 32) :
    decryptBlock (newWithTweak tf256 K T) (encrypt threefish256 K T P) = P := by
  rw [← threefish256_eq_spec K T P hK hT hP]; exact tf256_decrypt_encrypt K T P hP
theorem threefish512_decrypt_spec (K T P : Bytes) (hK : K.length = 64) (hT : T.length = 16) (hP : P.length = 64) :
    decryptBlock (newWithTweak tf512 K T) (encrypt threefish512 K T P) = P := by
  rw [← threefish512_eq_spec K T P hK hT hP]; exact tf512_decrypt_encrypt K T P hP
theorem threefish1024_decrypt_spec (K T P : Bytes) (hK : K.length = 128) (hT : T.length = 16) (hP : P.length = 128) :
    decryptBlock (newWithTweak tf1024 K T) (encrypt threefish1024 K T P) = P := by
  rw [← threefish1024_eq_spec K T P hK hT hP]; exact tf1024_decrypt_encrypt K T P hP

end BC.Threefish
