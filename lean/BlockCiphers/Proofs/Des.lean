import BlockCiphers.Proofs.Basic
import BlockCiphers.Impl.Des
/-
C01 for the `des` crate: decryption inverts encryption (both orders) for Des and the four TDES types,
for every key (indeed for every list of round keys) and every block.
-/
namespace BC.Des

theorem fp_ip (x : BitVec 64) : fp (ip x) = x := by
  unfold fp ip deltaSwap; bv_decide (config := { timeout := 600 })

theorem ip_fp (x : BitVec 64) : ip (fp x) = x := by
  unfold fp ip deltaSwap; bv_decide (config := { timeout := 600 })

/-- `rotate_right(32)` (the final half swap) is an involution -/
theorem swap_swap (x : BitVec 64) : (x.rotateRight 32).rotateRight 32 = x := by
  bv_decide (config := { timeout := 600 })

/-- the `f` input of the second of two rounds separated by a half swap is the `f` input of the first -/
theorem round_swap_shl (x k : BitVec 64) : (round x k).rotateRight 32 <<< 32 = x <<< 32 := by
  unfold round
  generalize f (x <<< 32) k = t
  bv_decide (config := { timeout := 600 })

/-- `round` with the value of the round function abstracted -/
def roundWith (t x : BitVec 64) : BitVec 64 :=
  (x <<< 32) ||| ((t ^^^ (x &&& 0xFFFFFFFF00000000#64)) >>> 32)

theorem round_eq_roundWith (x k : BitVec 64) : round x k = roundWith (f (x <<< 32) k) x := rfl

theorem roundWith_swap_roundWith (t x : BitVec 64) :
    roundWith t ((roundWith t x).rotateRight 32) = x.rotateRight 32 := by
  unfold roundWith; bv_decide (config := { timeout := 600 })

/-- Feistel involution: round, swap halves, same round = swap halves
(holds whatever the round function `f` computes) -/
theorem round_swap_round (x k : BitVec 64) : round ((round x k).rotateRight 32) k = x.rotateRight 32 := by
  rw [round_eq_roundWith ((round x k).rotateRight 32) k, round_swap_shl, round_eq_roundWith x k]
  exact roundWith_swap_roundWith _ x

/-- the round loop over `ks`, half swap, the round loop over `ks` reversed = half swap -/
theorem feistel_inv (ks : List (BitVec 64)) (x : BitVec 64) :
    ks.reverse.foldl round ((ks.foldl round x).rotateRight 32) = x.rotateRight 32 := by
  induction ks generalizing x with
  | nil => rfl
  | cons k ks ih =>
    rw [List.foldl_cons, List.reverse_cons, List.foldl_append, ih]
    simp only [List.foldl_cons, List.foldl_nil]
    exact round_swap_round x k

/-- C01: for every round-key list (in particular `gen_keys key` for every key) -/
theorem decrypt_encrypt_keys (ks : List (BitVec 64)) (b : BitVec 64) : decrypt ks (encrypt ks b) = b := by
  unfold decrypt encrypt
  rw [ip_fp, feistel_inv, swap_swap, fp_ip]

theorem encrypt_decrypt_keys (ks : List (BitVec 64)) (b : BitVec 64) : encrypt ks (decrypt ks b) = b := by
  unfold decrypt encrypt
  rw [ip_fp]
  have h := feistel_inv ks.reverse (ip b)
  rw [List.reverse_reverse] at h
  rw [h, swap_swap, fp_ip]

/-- Des: `decrypt_block (encrypt_block b) = b` for every 64-bit key -/
theorem decrypt_encrypt (key b : BitVec 64) : desDec key (desEnc key b) = b :=
  decrypt_encrypt_keys _ b
theorem encrypt_decrypt (key b : BitVec 64) : desEnc key (desDec key b) = b :=
  encrypt_decrypt_keys _ b

/-! TDES: all four compositions, any instance (hence every 128/192-bit key) -/

theorem ede3_decrypt_encrypt (t : Tdes3) (b : BitVec 64) : ede3Dec t (ede3Enc t b) = b := by
  simp only [ede3Dec, ede3Enc, decrypt_encrypt_keys, encrypt_decrypt_keys]
theorem ede3_encrypt_decrypt (t : Tdes3) (b : BitVec 64) : ede3Enc t (ede3Dec t b) = b := by
  simp only [ede3Dec, ede3Enc, decrypt_encrypt_keys, encrypt_decrypt_keys]
theorem eee3_decrypt_encrypt (t : Tdes3) (b : BitVec 64) : eee3Dec t (eee3Enc t b) = b := by
  simp only [eee3Dec, eee3Enc, decrypt_encrypt_keys]
theorem eee3_encrypt_decrypt (t : Tdes3) (b : BitVec 64) : eee3Enc t (eee3Dec t b) = b := by
  simp only [eee3Dec, eee3Enc, encrypt_decrypt_keys]
theorem ede2_decrypt_encrypt (t : Tdes2) (b : BitVec 64) : ede2Dec t (ede2Enc t b) = b := by
  simp only [ede2Dec, ede2Enc, decrypt_encrypt_keys, encrypt_decrypt_keys]
theorem ede2_encrypt_decrypt (t : Tdes2) (b : BitVec 64) : ede2Enc t (ede2Dec t b) = b := by
  simp only [ede2Dec, ede2Enc, decrypt_encrypt_keys, encrypt_decrypt_keys]
theorem eee2_decrypt_encrypt (t : Tdes2) (b : BitVec 64) : eee2Dec t (eee2Enc t b) = b := by
  simp only [eee2Dec, eee2Enc, decrypt_encrypt_keys]
theorem eee2_encrypt_decrypt (t : Tdes2) (b : BitVec 64) : eee2Enc t (eee2Dec t b) = b := by
  simp only [eee2Dec, eee2Enc, encrypt_decrypt_keys]

/-- key-level statements (the form used by `Thm/C01`) -/
theorem tdesEde3_dec_enc (key : BitVec 192) (b : BitVec 64) :
    ede3Dec (Tdes3.new key) (ede3Enc (Tdes3.new key) b) = b := ede3_decrypt_encrypt _ b
theorem tdesEde3_enc_dec (key : BitVec 192) (b : BitVec 64) :
    ede3Enc (Tdes3.new key) (ede3Dec (Tdes3.new key) b) = b := ede3_encrypt_decrypt _ b
theorem tdesEee3_dec_enc (key : BitVec 192) (b : BitVec 64) :
    eee3Dec (Tdes3.new key) (eee3Enc (Tdes3.new key) b) = b := eee3_decrypt_encrypt _ b
theorem tdesEee3_enc_dec (key : BitVec 192) (b : BitVec 64) :
    eee3Enc (Tdes3.new key) (eee3Dec (Tdes3.new key) b) = b := eee3_encrypt_decrypt _ b
theorem tdesEde2_dec_enc (key : BitVec 128) (b : BitVec 64) :
    ede2Dec (Tdes2.new key) (ede2Enc (Tdes2.new key) b) = b := ede2_decrypt_encrypt _ b
theorem tdesEde2_enc_dec (key : BitVec 128) (b : BitVec 64) :
    ede2Enc (Tdes2.new key) (ede2Dec (Tdes2.new key) b) = b := ede2_encrypt_decrypt _ b
theorem tdesEee2_dec_enc (key : BitVec 128) (b : BitVec 64) :
    eee2Dec (Tdes2.new key) (eee2Enc (Tdes2.new key) b) = b := eee2_decrypt_encrypt _ b
theorem tdesEee2_enc_dec (key : BitVec 128) (b : BitVec 64) :
    eee2Enc (Tdes2.new key) (eee2Dec (Tdes2.new key) b) = b := eee2_encrypt_decrypt _ b

/-- `gen_keys` always yields 16 round keys -/
theorem genKeys_length (key : BitVec 64) : (genKeys key).length = 16 := by
  simp [genKeys, SHIFTS, genKeysLoop]

end BC.Des
