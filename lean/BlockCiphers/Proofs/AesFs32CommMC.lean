import BlockCiphers.Proofs.AesFs32Defs
import BlockCiphers.Proofs.AesFs32Gmul
import Std.Tactic.BVDecide

/-! C02 stage (ii)/(iii): each `mix_columns_k` is FIPS-197 MixColumns∘ShiftRows between the
representations `inv_shift_rows_j ∘ bitslice` (j = number of postponed ShiftRows mod 4).  Direct SAT miters against
the unfolded `BC.Spec.Aes` definitions (2×128 input bits). -/
namespace BC.AesFs32
set_option linter.unusedSimpArgs false
open BC.Spec.Aes

set_option maxRecDepth 1000000 in
/-- plain MixColumns (hazmat `mix_columns`) -/
theorem mix_columns_0_bitslice (b0 b1 : BitVec 128) :
    mix_columns_0 (bitslice b0 b1) =
      bitslice (mixColumns b0) (mixColumns b1) := by
  simp only [mix_columns_0, mix_columns_gen, rotate_rows_1, rotate_rows_2, ror, ror_distance,
    inv_shift_rows_1, inv_shift_rows_2, inv_shift_rows_3, shift_rows_1, shift_rows_2, shift_rows_3, St.map, shift_rows_1_w, shift_rows_2_w, shift_rows_3_w, delta_swap_1,
    mixColumns, invMixColumns, shiftRows, invShiftRows, gmul2, gmul3, gmul9, gmulB, gmulD, gmulE, xtime, ofFn, getB, range16, List.foldl,
    bitslice, index_swaps, delta_swap_2, le32, St.mk.injEq]
  bv_decide (config := { timeout := 1800 })

set_option maxRecDepth 1000000 in
theorem mix_columns_1_rep (b0 b1 : BitVec 128) :
    mix_columns_1 (bitslice b0 b1) =
      inv_shift_rows_1 (bitslice (mixColumns (shiftRows b0)) (mixColumns (shiftRows b1))) := by
  simp only [mix_columns_1, mix_columns_gen, rotate_rows_and_columns_1_1, rotate_rows_and_columns_2_2, ror, ror_distance,
    inv_shift_rows_1, inv_shift_rows_2, inv_shift_rows_3, shift_rows_1, shift_rows_2, shift_rows_3, St.map, shift_rows_1_w, shift_rows_2_w, shift_rows_3_w, delta_swap_1,
    mixColumns, invMixColumns, shiftRows, invShiftRows, gmul2, gmul3, gmul9, gmulB, gmulD, gmulE, xtime, ofFn, getB, range16, List.foldl,
    bitslice, index_swaps, delta_swap_2, le32, St.mk.injEq]
  bv_decide (config := { timeout := 1800 })

set_option maxRecDepth 1000000 in
theorem mix_columns_2_rep (b0 b1 : BitVec 128) :
    mix_columns_2 (inv_shift_rows_1 (bitslice b0 b1)) =
      inv_shift_rows_2 (bitslice (mixColumns (shiftRows b0)) (mixColumns (shiftRows b1))) := by
  simp only [mix_columns_2, mix_columns_gen, rotate_rows_and_columns_1_2, rotate_rows_2, ror, ror_distance,
    inv_shift_rows_1, inv_shift_rows_2, inv_shift_rows_3, shift_rows_1, shift_rows_2, shift_rows_3, St.map, shift_rows_1_w, shift_rows_2_w, shift_rows_3_w, delta_swap_1,
    mixColumns, invMixColumns, shiftRows, invShiftRows, gmul2, gmul3, gmul9, gmulB, gmulD, gmulE, xtime, ofFn, getB, range16, List.foldl,
    bitslice, index_swaps, delta_swap_2, le32, St.mk.injEq]
  bv_decide (config := { timeout := 1800 })

set_option maxRecDepth 1000000 in
theorem mix_columns_3_rep (b0 b1 : BitVec 128) :
    mix_columns_3 (inv_shift_rows_2 (bitslice b0 b1)) =
      inv_shift_rows_3 (bitslice (mixColumns (shiftRows b0)) (mixColumns (shiftRows b1))) := by
  simp only [mix_columns_3, mix_columns_gen, rotate_rows_and_columns_1_3, rotate_rows_and_columns_2_2, ror, ror_distance,
    inv_shift_rows_1, inv_shift_rows_2, inv_shift_rows_3, shift_rows_1, shift_rows_2, shift_rows_3, St.map, shift_rows_1_w, shift_rows_2_w, shift_rows_3_w, delta_swap_1,
    mixColumns, invMixColumns, shiftRows, invShiftRows, gmul2, gmul3, gmul9, gmulB, gmulD, gmulE, xtime, ofFn, getB, range16, List.foldl,
    bitslice, index_swaps, delta_swap_2, le32, St.mk.injEq]
  bv_decide (config := { timeout := 1800 })

set_option maxRecDepth 1000000 in
theorem mix_columns_0_rep (b0 b1 : BitVec 128) :
    mix_columns_0 (inv_shift_rows_3 (bitslice b0 b1)) =
      bitslice (mixColumns (shiftRows b0)) (mixColumns (shiftRows b1)) := by
  simp only [mix_columns_0, mix_columns_gen, rotate_rows_1, rotate_rows_2, ror, ror_distance,
    inv_shift_rows_1, inv_shift_rows_2, inv_shift_rows_3, shift_rows_1, shift_rows_2, shift_rows_3, St.map, shift_rows_1_w, shift_rows_2_w, shift_rows_3_w, delta_swap_1,
    mixColumns, invMixColumns, shiftRows, invShiftRows, gmul2, gmul3, gmul9, gmulB, gmulD, gmulE, xtime, ofFn, getB, range16, List.foldl,
    bitslice, index_swaps, delta_swap_2, le32, St.mk.injEq]
  bv_decide (config := { timeout := 1800 })

end BC.AesFs32
