import BlockCiphers.Proofs.IdeaInvDefs
/- exhaustive kernel evaluation of `InvOk a` for the arguments `a` whose top nibble is 4..7
   (4 × 4096 cases; split so that every declaration stays small in time and memory) -/
namespace BC.Idea
theorem invOk_4 : ∀ (m : BitVec 4) (l : BitVec 8), InvOk ((4#4 ++ m) ++ l) := by decide +kernel
theorem invOk_5 : ∀ (m : BitVec 4) (l : BitVec 8), InvOk ((5#4 ++ m) ++ l) := by decide +kernel
theorem invOk_6 : ∀ (m : BitVec 4) (l : BitVec 8), InvOk ((6#4 ++ m) ++ l) := by decide +kernel
theorem invOk_7 : ∀ (m : BitVec 4) (l : BitVec 8), InvOk ((7#4 ++ m) ++ l) := by decide +kernel

end BC.Idea
