import BlockCiphers.Gen.Cipher_Sm4
import BlockCiphers.Gen.Keys_Sm4
import BlockCiphers.Proofs.GenCipherSm4
import BlockCiphers.Proofs.GenKeysSm4
import BlockCiphers.Proofs.Sm4
import BlockCiphers.Proofs.Sm4Spec
/-!
Code-level theorems for SM4: statements mention ONLY the regenerated code (`BC.Gen.Fn.sm4_new`, `sm4_encrypt_block`,
`sm4_decrypt_block`) and the specification `BC.Spec.Sm4` (GB/T 32907-2016).  Composition of
  (1) `BC.Sm4.decrypt_encrypt_key`, `encrypt_decrypt_key` (Proofs/Sm4.lean), `encrypt_eq_spec`, `decrypt_eq_spec`
      (Proofs/Sm4Spec.lean; Thm C01 / C06),
  (2) `BC.GenCipher.Sm4.encrypt_eq` / `decrypt_eq`,
  (3) `BC.GenKeys.Sm4.new_eq`.
-/
set_option maxRecDepth 100000
namespace BC.Code.Sm4
open BC BC.Gen.Fn

/-- `Sm4::new(key).encrypt_block(b)` on the regenerated code -/
def enc (key : BitVec 128) (b : BitVec 128) : BitVec 128 :=
  match sm4_new key with
  | (k0, k1, k2, k3, k4, k5, k6, k7, k8, k9, k10, k11, k12, k13, k14, k15, k16, k17, k18, k19, k20, k21, k22, k23, k24, k25, k26, k27, k28, k29, k30, k31) =>
    sm4_encrypt_block k0 k1 k2 k3 k4 k5 k6 k7 k8 k9 k10 k11 k12 k13 k14 k15 k16 k17 k18 k19 k20 k21 k22 k23 k24 k25 k26 k27 k28 k29 k30 k31 b

/-- `Sm4::new(key).decrypt_block(b)` on the regenerated code -/
def dec (key : BitVec 128) (b : BitVec 128) : BitVec 128 :=
  match sm4_new key with
  | (k0, k1, k2, k3, k4, k5, k6, k7, k8, k9, k10, k11, k12, k13, k14, k15, k16, k17, k18, k19, k20, k21, k22, k23, k24, k25, k26, k27, k28, k29, k30, k31) =>
    sm4_decrypt_block k0 k1 k2 k3 k4 k5 k6 k7 k8 k9 k10 k11 k12 k13 k14 k15 k16 k17 k18 k19 k20 k21 k22 k23 k24 k25 k26 k27 k28 k29 k30 k31 b

/-! ### bridges to the model -/

theorem enc_eq_impl (key : BitVec 128) (b : BitVec 128) : enc key b = BC.Sm4.encrypt (BC.Sm4.new key) b := by
  rw [BC.GenKeys.Sm4.new_eq key]
  unfold enc
  generalize sm4_new key = t
  obtain ⟨k0, k1, k2, k3, k4, k5, k6, k7, k8, k9, k10, k11, k12, k13, k14, k15, k16, k17, k18, k19, k20, k21, k22, k23, k24, k25, k26, k27, k28, k29, k30, k31⟩ := t
  exact BC.GenCipher.Sm4.encrypt_eq k0 k1 k2 k3 k4 k5 k6 k7 k8 k9 k10 k11 k12 k13 k14 k15 k16 k17 k18 k19 k20 k21 k22 k23 k24 k25 k26 k27 k28 k29 k30 k31 b

theorem dec_eq_impl (key : BitVec 128) (b : BitVec 128) : dec key b = BC.Sm4.decrypt (BC.Sm4.new key) b := by
  rw [BC.GenKeys.Sm4.new_eq key]
  unfold dec
  generalize sm4_new key = t
  obtain ⟨k0, k1, k2, k3, k4, k5, k6, k7, k8, k9, k10, k11, k12, k13, k14, k15, k16, k17, k18, k19, k20, k21, k22, k23, k24, k25, k26, k27, k28, k29, k30, k31⟩ := t
  exact BC.GenCipher.Sm4.decrypt_eq k0 k1 k2 k3 k4 k5 k6 k7 k8 k9 k10 k11 k12 k13 k14 k15 k16 k17 k18 k19 k20 k21 k22 k23 k24 k25 k26 k27 k28 k29 k30 k31 b

/-! ### round trips on the regenerated code -/

theorem dec_enc (key : BitVec 128) (b : BitVec 128) : dec key (enc key b) = b := by
  rw [enc_eq_impl, dec_eq_impl, BC.Sm4.decrypt_encrypt_key]

theorem enc_dec (key : BitVec 128) (b : BitVec 128) : enc key (dec key b) = b := by
  rw [enc_eq_impl, dec_eq_impl, BC.Sm4.encrypt_decrypt_key]

/-! ### conformance of the regenerated code to GB/T 32907-2016 -/

theorem enc_eq_spec (key : BitVec 128) (b : BitVec 128) : enc key b = BC.Spec.Sm4.encrypt key b := by
  rw [enc_eq_impl, BC.Sm4.encrypt_eq_spec]

theorem dec_eq_spec (key : BitVec 128) (b : BitVec 128) : dec key b = BC.Spec.Sm4.decrypt key b := by
  rw [dec_eq_impl, BC.Sm4.decrypt_eq_spec]

end BC.Code.Sm4
