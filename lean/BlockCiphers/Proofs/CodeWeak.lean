import BlockCiphers.Proofs.GenFnWeak
import BlockCiphers.Proofs.DesWeak
import BlockCiphers.Proofs.DesWeakMeaning
import BlockCiphers.Proofs.AesNi
/-
Code-level theorems for property C13 (weak-key screening flags exactly the degenerate keys): the statements mention ONLY
the regenerated functions `BC.Gen.Fn.*weak_key_test*` (`Bool`, `true` = `Err(WeakKeyError)`) and the specification
predicates of `Thm/C13.lean`.  Each is the composition of a tie theorem of `Proofs/GenFnWeak.lean` with the property
theorem about the model.
-/
namespace BC.Code.Weak
open BC BC.Gen.Fn BC.GenFn.Weak
open BC.Spec.Des (stripParity weak56 weak64 weakKeys degenerate)

theorem res_weak_iff (b : Bool) : res b = WeakRes.weak ↔ b = true := by cases b <;> simp [res]

/-- AES-128: `weak_key_test::<16>` fails exactly when the first 8 key bytes are zero -/
theorem aes128_weak_iff (key : BitVec 128) : aes_weak_key_test_16 key = true ↔ key.extractLsb' 64 64 = 0#64 := by
  rw [← res_weak_iff, aes_weak_key_test_16_eq]; exact BC.AesNi.weak_key_test128_iff key

/-- AES-192: `weak_key_test::<24>` fails exactly when the first 12 key bytes are zero -/
theorem aes192_weak_iff (key : BitVec 192) : aes_weak_key_test_24 key = true ↔ key.extractLsb' 96 96 = 0#96 := by
  rw [← res_weak_iff, aes_weak_key_test_24_eq]; exact BC.AesNi.weak_key_test192_iff key

/-- AES-256: `weak_key_test::<32>` fails exactly when the first 16 key bytes are zero -/
theorem aes256_weak_iff (key : BitVec 256) : aes_weak_key_test_32 key = true ↔ key.extractLsb' 128 128 = 0#128 := by
  rw [← res_weak_iff, aes_weak_key_test_32_eq]; exact BC.AesNi.weak_key_test256_iff key

/-- `Des::weak_key_test` fails exactly on the 64 listed keys, up to parity -/
theorem des_weak_iff (key : BitVec 64) : des_des_weak_key_test key = true ↔ stripParity key ∈ weak56 := by
  rw [des_weak_key_test_eq]; exact BC.Des.des_weak_iff' key

/-- **C13** on the regenerated code: `Des::weak_key_test` rejects exactly the structurally degenerate keys -/
theorem des_weak_iff_degenerate (key : BitVec 64) : des_des_weak_key_test key = true ↔ degenerate key = true := by
  rw [des_weak_key_test_eq]; exact BC.Des.des_weak_iff_degenerate key

/-- the verdict does not depend on the parity bits -/
theorem des_weak_parity (key m : BitVec 64) (hm : m &&& 0xFEFEFEFEFEFEFEFE#64 = 0#64) :
    des_des_weak_key_test (key ^^^ m) = des_des_weak_key_test key := by
  rw [des_weak_key_test_eq, des_weak_key_test_eq]; exact BC.Des.weak_parity key m hm

theorem tdesede2_weak_iff (key : BitVec 128) :
    des_tdesede2_weak_key_test key = true ↔
      (stripParity (BC.Des.k1of2 key) ∈ weak56 ∨ stripParity (BC.Des.k2of2 key) ∈ weak56 ∨
        stripParity (BC.Des.k1of2 key) = stripParity (BC.Des.k2of2 key)) := by
  rw [tdesede2_weak_key_test_eq]; exact BC.Des.tdes2_weak_iff' key

theorem tdeseee2_weak_iff (key : BitVec 128) :
    des_tdeseee2_weak_key_test key = true ↔
      (stripParity (BC.Des.k1of2 key) ∈ weak56 ∨ stripParity (BC.Des.k2of2 key) ∈ weak56 ∨
        stripParity (BC.Des.k1of2 key) = stripParity (BC.Des.k2of2 key)) := by
  rw [tdeseee2_weak_key_test_eq]; exact BC.Des.tdes2_weak_iff' key

theorem tdesede3_weak_iff (key : BitVec 192) :
    des_tdesede3_weak_key_test key = true ↔
      (stripParity (BC.Des.k1of3 key) ∈ weak56 ∨ stripParity (BC.Des.k2of3 key) ∈ weak56 ∨
        stripParity (BC.Des.k3of3 key) ∈ weak56 ∨
        stripParity (BC.Des.k1of3 key) = stripParity (BC.Des.k2of3 key) ∨
        stripParity (BC.Des.k1of3 key) = stripParity (BC.Des.k3of3 key) ∨
        stripParity (BC.Des.k2of3 key) = stripParity (BC.Des.k3of3 key)) := by
  rw [tdesede3_weak_key_test_eq]; exact BC.Des.tdes3_weak_iff' key

theorem tdeseee3_weak_iff (key : BitVec 192) :
    des_tdeseee3_weak_key_test key = true ↔
      (stripParity (BC.Des.k1of3 key) ∈ weak56 ∨ stripParity (BC.Des.k2of3 key) ∈ weak56 ∨
        stripParity (BC.Des.k3of3 key) ∈ weak56 ∨
        stripParity (BC.Des.k1of3 key) = stripParity (BC.Des.k2of3 key) ∨
        stripParity (BC.Des.k1of3 key) = stripParity (BC.Des.k3of3 key) ∨
        stripParity (BC.Des.k2of3 key) = stripParity (BC.Des.k3of3 key)) := by
  rw [tdeseee3_weak_key_test_eq]; exact BC.Des.tdes3_weak_iff' key

end BC.Code.Weak
