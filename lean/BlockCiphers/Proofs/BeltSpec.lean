import BlockCiphers.Proofs.Belt
import BlockCiphers.Spec.Belt
/-
BelT block conformance (C07): the extended tables H5/H13/H21/H29 are rotations of the substitution H,
`g5/g13/g21 = G_5/G_13/G_21`, `key_idx = k[7i−δ]`, the rounds, `BeltBlock` encrypt/decrypt = belt-block of
STB 34.101.31 §6.1.3 / §6.1.4; the vectors of Tables A.1 / A.2 as kernel-checked examples.
-/
namespace BC.Belt

/-! ### tables: the relation tested by `consts.rs: test_extended_blocks`, as theorems -/

theorem H5_eq : ∀ x : BitVec 8, tab H5 (x.setWidth 32) = ((Spec.Belt.h x).setWidth 32).rotateLeft 5 := by
  decide +kernel
theorem H13_eq : ∀ x : BitVec 8, tab H13 (x.setWidth 32) = ((Spec.Belt.h x).setWidth 32).rotateLeft 13 := by
  decide +kernel
theorem H21_eq : ∀ x : BitVec 8, tab H21 (x.setWidth 32) = ((Spec.Belt.h x).setWidth 32).rotateLeft 21 := by
  decide +kernel
theorem H29_eq : ∀ x : BitVec 8, tab H29 (x.setWidth 32) = ((Spec.Belt.h x).setWidth 32).rotateLeft 29 := by
  decide +kernel

theorem mask_lt (x : BitVec 32) : (x &&& 0xFF#32).toNat < 256 := by
  have h := and_toNat_le x 0xFF#32
  have e : (0xFF#32).toNat = 255 := rfl
  rw [e] at h; omega

/-- C20: the four table indices of `g!` are < 256 -/
theorem g_index_lt (u : BitVec 32) :
    ((u >>> 24) &&& 0xFF#32).toNat < 256 ∧ ((u >>> 16) &&& 0xFF#32).toNat < 256 ∧
    ((u >>> 8) &&& 0xFF#32).toNat < 256 ∧ (u &&& 0xFF#32).toNat < 256 :=
  ⟨mask_lt _, mask_lt _, mask_lt _, mask_lt _⟩

theorem idx0 (u : BitVec 32) : u &&& 0xFF#32 = (u.extractLsb' 0 8).setWidth 32 := by bv_decide (config := { timeout := 600 })
theorem idx3 (u : BitVec 32) : (u >>> 24).extractLsb' 0 8 = u.extractLsb' 24 8 := by bv_decide (config := { timeout := 600 })
theorem idx2 (u : BitVec 32) : (u >>> 16).extractLsb' 0 8 = u.extractLsb' 16 8 := by bv_decide (config := { timeout := 600 })
theorem idx1 (u : BitVec 32) : (u >>> 8).extractLsb' 0 8 = u.extractLsb' 8 8 := by bv_decide (config := { timeout := 600 })

theorem rot_split5 (h3 h2 h1 h0 : BitVec 8) :
    (h3.setWidth 32).rotateLeft 29 ^^^ (h2.setWidth 32).rotateLeft 21 ^^^ (h1.setWidth 32).rotateLeft 13 ^^^
      (h0.setWidth 32).rotateLeft 5 = (h3 ++ h2 ++ h1 ++ h0).rotateLeft 5 := by bv_decide (config := { timeout := 600 })
theorem rot_split13 (h3 h2 h1 h0 : BitVec 8) :
    (h3.setWidth 32).rotateLeft 5 ^^^ (h2.setWidth 32).rotateLeft 29 ^^^ (h1.setWidth 32).rotateLeft 21 ^^^
      (h0.setWidth 32).rotateLeft 13 = (h3 ++ h2 ++ h1 ++ h0).rotateLeft 13 := by bv_decide (config := { timeout := 600 })
theorem rot_split21 (h3 h2 h1 h0 : BitVec 8) :
    (h3.setWidth 32).rotateLeft 13 ^^^ (h2.setWidth 32).rotateLeft 5 ^^^ (h1.setWidth 32).rotateLeft 29 ^^^
      (h0.setWidth 32).rotateLeft 21 = (h3 ++ h2 ++ h1 ++ h0).rotateLeft 21 := by bv_decide (config := { timeout := 600 })

theorem g5_eq (u : BitVec 32) : g5 u = Spec.Belt.G 5 u := by
  simp only [g5, Spec.Belt.G, Spec.Belt.RotHi, idx3, idx2, idx1, idx0, H5_eq, H13_eq, H21_eq, H29_eq,
    rot_split5]
theorem g13_eq (u : BitVec 32) : g13 u = Spec.Belt.G 13 u := by
  simp only [g13, Spec.Belt.G, Spec.Belt.RotHi, idx3, idx2, idx1, idx0, H5_eq, H13_eq, H21_eq, H29_eq,
    rot_split13]
theorem g21_eq (u : BitVec 32) : g21 u = Spec.Belt.G 21 u := by
  simp only [g21, Spec.Belt.G, Spec.Belt.RotHi, idx3, idx2, idx1, idx0, H5_eq, H13_eq, H21_eq, H29_eq,
    rot_split21]

/-! ### round keys -/

theorem toKey_get (K : BitVec 256) (m : Nat) (hm : m < 8) :
    (toKey K)[m] = Spec.Belt.wordAt K 32 m := by
  simp only [toKey, Vector.getElem_ofFn, Spec.Belt.wordAt]
  have : 32 * (7 - m) = 8 * (32 - 4 * (m + 1)) := by omega
  rw [this]

/-- `key_idx(key, i, δ) = k[7i − δ]`.  (The callers use `i ≥ 1`, `δ ≤ 6`, so `7i − δ − 1` does not underflow
in `usize`; with the truncated subtraction of `Nat` the identity holds for all `i`, `δ`.) -/
theorem key_idx_eq (K : BitVec 256) (i delta : Nat) :
    key_idx (toKey K) i delta = Spec.Belt.k K (7 * i - delta) := by
  simp only [key_idx, Spec.Belt.k, Spec.Belt.θ]
  rw [toKey_get K _ (Nat.mod_lt _ (by decide))]
  congr 1

def toSt (s : W4) : Spec.Belt.St := { a := s.a, b := s.b, c := s.c, d := s.d }

theorem encRound_eq_spec (K : BitVec 256) (i : Nat) (s : W4) :
    toSt (encRound (toKey K) i s) = Spec.Belt.encRound K i (toSt s) := by
  simp only [encRound, Spec.Belt.encRound, toSt, g5_eq, g13_eq, g21_eq,
    key_idx_eq K i 6, key_idx_eq K i 5, key_idx_eq K i 4,
    key_idx_eq K i 3, key_idx_eq K i 2, key_idx_eq K i 1,
    key_idx_eq K i 0, Nat.sub_zero]

theorem decRound_eq_spec (K : BitVec 256) (i : Nat) (s : W4) :
    toSt (decRound (toKey K) i s) = Spec.Belt.decRound K i (toSt s) := by
  simp only [decRound, Spec.Belt.decRound, toSt, g5_eq, g13_eq, g21_eq,
    key_idx_eq K i 6, key_idx_eq K i 5, key_idx_eq K i 4,
    key_idx_eq K i 3, key_idx_eq K i 2, key_idx_eq K i 1,
    key_idx_eq K i 0, Nat.sub_zero]

theorem toSt_toU32x4 (X : BitVec 128) : toSt (toU32x4 X) = Spec.Belt.split X := by
  simp only [toSt, toU32x4, Spec.Belt.split, Spec.Belt.wordAt, Spec.Belt.St.mk.injEq]
  refine ⟨?_, ?_, ?_, ?_⟩ <;> rfl

/-- C07 (BelT): `BeltBlock::encrypt_block` (= `belt_block_raw` on the little-endian words) is belt-block
encryption of STB 34.101.31 §6.1.3, for every key and block -/
theorem encrypt_eq_spec (K : BitVec 256) (X : BitVec 128) :
    encrypt (new K) X = Spec.Belt.blockEnc K X := by
  simp only [encrypt, new, belt_block_raw, Spec.Belt.blockEnc, fromU32x4, Spec.Belt.join]
  have h : toSt (forRange 1 8 (encRound (toKey K)) (toU32x4 X)) =
      [1, 2, 3, 4, 5, 6, 7, 8].foldl (fun s i => Spec.Belt.encRound K i s) (Spec.Belt.split X) := by
    simp only [forRange, List.range', List.foldl_cons, List.foldl_nil]
    rw [encRound_eq_spec K _, encRound_eq_spec K _, encRound_eq_spec K _,
      encRound_eq_spec K _, encRound_eq_spec K _, encRound_eq_spec K _,
      encRound_eq_spec K _, encRound_eq_spec K _, toSt_toU32x4]
  rw [← h]; rfl

/-- C07 (BelT): `BeltBlock::decrypt_block` is belt-block decryption of §6.1.4 -/
theorem decrypt_eq_spec (K : BitVec 256) (Y : BitVec 128) :
    decrypt (new K) Y = Spec.Belt.blockDec K Y := by
  simp only [decrypt, new, belt_block_raw_dec, Spec.Belt.blockDec, fromU32x4, Spec.Belt.join]
  have h : toSt (forRangeRev 1 8 (decRound (toKey K)) (toU32x4 Y)) =
      [8, 7, 6, 5, 4, 3, 2, 1].foldl (fun s i => Spec.Belt.decRound K i s) (Spec.Belt.split Y) := by
    simp only [forRangeRev, List.range', List.reverse_cons, List.reverse_nil, List.nil_append,
      List.cons_append, List.foldl_cons, List.foldl_nil]
    rw [decRound_eq_spec K _, decRound_eq_spec K _, decRound_eq_spec K _,
      decRound_eq_spec K _, decRound_eq_spec K _, decRound_eq_spec K _,
      decRound_eq_spec K _, decRound_eq_spec K _, toSt_toU32x4]
  rw [← h]; rfl

/-- the standard's decryption inverts its encryption (through the model) -/
theorem spec_blockDec_blockEnc (K : BitVec 256) (X : BitVec 128) :
    Spec.Belt.blockDec K (Spec.Belt.blockEnc K X) = X := by
  rw [← encrypt_eq_spec, ← decrypt_eq_spec, decrypt_encrypt]

/-! ### STB 34.101.31 Tables A.1 (encryption) and A.2 (decryption) -/

example : Spec.Belt.blockEnc 0xe9dee72c8f0c0fa62ddb49f46f73964706075316ed247a3739cba38303a98bf6#256
    0xb194bac80a08f53b366d008e584a5de4#128 = 0x69cca1c93557c9e3d66bc3e0fa88fa6e#128 := by decide +kernel

example : Spec.Belt.blockDec 0x92bd9b1ce5d141015445fbc95e4d0ef2682080aa227d642f2687f93490405511#256
    0xe12bdc1ae28257ec703fccf095ee8df1#128 = 0x0dc5300600cab840b38448e5e993f421#128 := by decide +kernel

example : encrypt (new 0xe9dee72c8f0c0fa62ddb49f46f73964706075316ed247a3739cba38303a98bf6#256)
    0xb194bac80a08f53b366d008e584a5de4#128 = 0x69cca1c93557c9e3d66bc3e0fa88fa6e#128 := by decide +kernel

example : decrypt (new 0x92bd9b1ce5d141015445fbc95e4d0ef2682080aa227d642f2687f93490405511#256)
    0xe12bdc1ae28257ec703fccf095ee8df1#128 = 0x0dc5300600cab840b38448e5e993f421#128 := by decide +kernel

/-- the tests' second pair read as an encryption (`belt_block_raw(pt2) = ct2`) -/
example : encrypt (new 0x92bd9b1ce5d141015445fbc95e4d0ef2682080aa227d642f2687f93490405511#256)
    0x0dc5300600cab840b38448e5e993f421#128 = 0xe12bdc1ae28257ec703fccf095ee8df1#128 := by decide +kernel

end BC.Belt
