import Std.Tactic.BVDecide
import BlockCiphers.Prelude.Bytes
/- Basic bit-vector lemmas used by every cipher proof. -/
namespace BC

theorem bswap16_bswap16 (x : BitVec 16) : bswap16 (bswap16 x) = x := by
  unfold bswap16; bv_decide (config := { timeout := 600 })
theorem bswap32_bswap32 (x : BitVec 32) : bswap32 (bswap32 x) = x := by
  unfold bswap32; bv_decide (config := { timeout := 600 })
theorem bswap64_bswap64 (x : BitVec 64) : bswap64 (bswap64 x) = x := by
  unfold bswap64; bv_decide (config := { timeout := 600 })


end BC
