import BlockCiphers.Impl.Aria
import BlockCiphers.Spec.Aria
/-
Algebraic description of the ARIA S-box tables of /repo/aria/src/consts.rs (ARIA specification v1.0;
RFC 5794 only lists the tables): every one of the 256 entries of SB1 and SB2 is checked against the
formula by the kernel, so a single edited table entry makes these theorems fail.
-/
namespace BC.Aria

/-- SB1 is the AES S-box: affine map of the inverse in GF(2^8) -/
theorem sb1_is_aes_fin : ∀ i : Fin 256,
    sb1 (BitVec.ofFin i) = Spec.Aria.aesAffine (Spec.Aria.gpow (BitVec.ofFin i) 254) := by decide +kernel

/-- SB2(x) = B · x^247 ⊕ 0xe2 (ARIA specification) -/
theorem sb2_is_B_pow247_fin : ∀ i : Fin 256,
    sb2 (BitVec.ofFin i) = Spec.Aria.matB (Spec.Aria.gpow (BitVec.ofFin i) 247) ^^^ 0xe2#8 := by decide +kernel

theorem sb1_is_aes (x : BitVec 8) : sb1 x = Spec.Aria.aesAffine (Spec.Aria.gpow x 254) :=
  sb1_is_aes_fin x.toFin
theorem sb2_is_B_pow247 (x : BitVec 8) : sb2 x = Spec.Aria.matB (Spec.Aria.gpow x 247) ^^^ 0xe2#8 :=
  sb2_is_B_pow247_fin x.toFin

/-- sanity of the field arithmetic used above: x · x^254 = 1 for x ≠ 0 -/
theorem gmul_gpow254 : ∀ i : Fin 256, i.val ≠ 0 →
    Spec.Aria.gmul (BitVec.ofFin i) (Spec.Aria.gpow (BitVec.ofFin i) 254) = 1#8 := by decide +kernel

end BC.Aria
