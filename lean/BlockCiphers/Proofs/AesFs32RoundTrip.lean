import BlockCiphers.Impl.AesFixslice32
import BlockCiphers.Proofs.AesFs32SubBytesInv
import BlockCiphers.Proofs.AesFs32SubBytesInv2
import BlockCiphers.Proofs.AesFs32MixInv0
import BlockCiphers.Proofs.AesFs32MixInv1
import BlockCiphers.Proofs.AesFs32MixInv2
import BlockCiphers.Proofs.AesFs32MixInv3
import BlockCiphers.Proofs.AesFs32Linear
/-!
C01 for the fixslice32 backend, direct (no reference to FIPS-197): for ARBITRARY round keys
`rk : Nat → St` (hence for the output of the key schedule of every key, and for any other content of the
`[u64; 88|104|120]` array) decryption undoes encryption and vice versa, on a whole batch of four
blocks, for the normal and the `aes_compact` code, N = 128 / 192 / 256.

Every step of `aesN_encrypt` has its inverse at the mirrored position of `aesN_decrypt`; `simp`
unrolls the fuel loops (`rk_off` arithmetic on literals) and cancels the pairs from the inside out.
-/
namespace BC.AesFs32
set_option linter.unusedSimpArgs false

theorem batch_eta (b : Batch) : (⟨b.b0, b.b1⟩ : Batch) = b := by cases b; rfl

section
variable (rk : Nat → St) (b : Batch)

theorem aes128_decrypt_aes128_encrypt : aes128_decrypt rk (aes128_encrypt rk b) = b := by
  simp [aes128_decrypt, aes128_encrypt, aes128_encrypt_loop, aes128_decrypt_loop,
    bitslice_inv_bitslice, inv_bitslice_bitslice, add_round_key_invol, inv_sub_bytes_sub_bytes,
    inv_shift_rows_2_shift_rows_2,
    inv_mix_columns_0_mix_columns_0, inv_mix_columns_1_mix_columns_1,
    inv_mix_columns_2_mix_columns_2, inv_mix_columns_3_mix_columns_3, batch_eta]

theorem aes128_encrypt_aes128_decrypt : aes128_encrypt rk (aes128_decrypt rk b) = b := by
  simp [aes128_decrypt, aes128_encrypt, aes128_encrypt_loop, aes128_decrypt_loop,
    bitslice_inv_bitslice, inv_bitslice_bitslice, add_round_key_invol, sub_bytes_inv_sub_bytes,
    shift_rows_2_inv_shift_rows_2,
    mix_columns_0_inv_mix_columns_0, mix_columns_1_inv_mix_columns_1,
    mix_columns_2_inv_mix_columns_2, mix_columns_3_inv_mix_columns_3, batch_eta]

theorem aes128_decrypt_compact_aes128_encrypt_compact : aes128_decrypt_compact rk (aes128_encrypt_compact rk b) = b := by
  simp [aes128_decrypt_compact, aes128_encrypt_compact, aes128_encrypt_loop_compact, aes128_decrypt_loop_compact,
    bitslice_inv_bitslice, inv_bitslice_bitslice, add_round_key_invol, inv_sub_bytes_sub_bytes,
    inv_shift_rows_2_shift_rows_2,
    inv_mix_columns_0_mix_columns_0, inv_mix_columns_1_mix_columns_1,
    inv_mix_columns_2_mix_columns_2, inv_mix_columns_3_mix_columns_3, batch_eta]

theorem aes128_encrypt_compact_aes128_decrypt_compact : aes128_encrypt_compact rk (aes128_decrypt_compact rk b) = b := by
  simp [aes128_decrypt_compact, aes128_encrypt_compact, aes128_encrypt_loop_compact, aes128_decrypt_loop_compact,
    bitslice_inv_bitslice, inv_bitslice_bitslice, add_round_key_invol, sub_bytes_inv_sub_bytes,
    shift_rows_2_inv_shift_rows_2,
    mix_columns_0_inv_mix_columns_0, mix_columns_1_inv_mix_columns_1,
    mix_columns_2_inv_mix_columns_2, mix_columns_3_inv_mix_columns_3, batch_eta]

theorem aes192_decrypt_aes192_encrypt : aes192_decrypt rk (aes192_encrypt rk b) = b := by
  simp [aes192_decrypt, aes192_encrypt, aes192_encrypt_loop, aes192_decrypt_loop,
    bitslice_inv_bitslice, inv_bitslice_bitslice, add_round_key_invol, inv_sub_bytes_sub_bytes,
    inv_shift_rows_2_shift_rows_2,
    inv_mix_columns_0_mix_columns_0, inv_mix_columns_1_mix_columns_1,
    inv_mix_columns_2_mix_columns_2, inv_mix_columns_3_mix_columns_3, batch_eta]

theorem aes192_encrypt_aes192_decrypt : aes192_encrypt rk (aes192_decrypt rk b) = b := by
  simp [aes192_decrypt, aes192_encrypt, aes192_encrypt_loop, aes192_decrypt_loop,
    bitslice_inv_bitslice, inv_bitslice_bitslice, add_round_key_invol, sub_bytes_inv_sub_bytes,
    shift_rows_2_inv_shift_rows_2,
    mix_columns_0_inv_mix_columns_0, mix_columns_1_inv_mix_columns_1,
    mix_columns_2_inv_mix_columns_2, mix_columns_3_inv_mix_columns_3, batch_eta]

theorem aes192_decrypt_compact_aes192_encrypt_compact : aes192_decrypt_compact rk (aes192_encrypt_compact rk b) = b := by
  simp [aes192_decrypt_compact, aes192_encrypt_compact, aes192_encrypt_loop_compact, aes192_decrypt_loop_compact,
    bitslice_inv_bitslice, inv_bitslice_bitslice, add_round_key_invol, inv_sub_bytes_sub_bytes,
    inv_shift_rows_2_shift_rows_2,
    inv_mix_columns_0_mix_columns_0, inv_mix_columns_1_mix_columns_1,
    inv_mix_columns_2_mix_columns_2, inv_mix_columns_3_mix_columns_3, batch_eta]

theorem aes192_encrypt_compact_aes192_decrypt_compact : aes192_encrypt_compact rk (aes192_decrypt_compact rk b) = b := by
  simp [aes192_decrypt_compact, aes192_encrypt_compact, aes192_encrypt_loop_compact, aes192_decrypt_loop_compact,
    bitslice_inv_bitslice, inv_bitslice_bitslice, add_round_key_invol, sub_bytes_inv_sub_bytes,
    shift_rows_2_inv_shift_rows_2,
    mix_columns_0_inv_mix_columns_0, mix_columns_1_inv_mix_columns_1,
    mix_columns_2_inv_mix_columns_2, mix_columns_3_inv_mix_columns_3, batch_eta]

theorem aes256_decrypt_aes256_encrypt : aes256_decrypt rk (aes256_encrypt rk b) = b := by
  simp [aes256_decrypt, aes256_encrypt, aes256_encrypt_loop, aes256_decrypt_loop,
    bitslice_inv_bitslice, inv_bitslice_bitslice, add_round_key_invol, inv_sub_bytes_sub_bytes,
    inv_shift_rows_2_shift_rows_2,
    inv_mix_columns_0_mix_columns_0, inv_mix_columns_1_mix_columns_1,
    inv_mix_columns_2_mix_columns_2, inv_mix_columns_3_mix_columns_3, batch_eta]

theorem aes256_encrypt_aes256_decrypt : aes256_encrypt rk (aes256_decrypt rk b) = b := by
  simp [aes256_decrypt, aes256_encrypt, aes256_encrypt_loop, aes256_decrypt_loop,
    bitslice_inv_bitslice, inv_bitslice_bitslice, add_round_key_invol, sub_bytes_inv_sub_bytes,
    shift_rows_2_inv_shift_rows_2,
    mix_columns_0_inv_mix_columns_0, mix_columns_1_inv_mix_columns_1,
    mix_columns_2_inv_mix_columns_2, mix_columns_3_inv_mix_columns_3, batch_eta]

theorem aes256_decrypt_compact_aes256_encrypt_compact : aes256_decrypt_compact rk (aes256_encrypt_compact rk b) = b := by
  simp [aes256_decrypt_compact, aes256_encrypt_compact, aes256_encrypt_loop_compact, aes256_decrypt_loop_compact,
    bitslice_inv_bitslice, inv_bitslice_bitslice, add_round_key_invol, inv_sub_bytes_sub_bytes,
    inv_shift_rows_2_shift_rows_2,
    inv_mix_columns_0_mix_columns_0, inv_mix_columns_1_mix_columns_1,
    inv_mix_columns_2_mix_columns_2, inv_mix_columns_3_mix_columns_3, batch_eta]

theorem aes256_encrypt_compact_aes256_decrypt_compact : aes256_encrypt_compact rk (aes256_decrypt_compact rk b) = b := by
  simp [aes256_decrypt_compact, aes256_encrypt_compact, aes256_encrypt_loop_compact, aes256_decrypt_loop_compact,
    bitslice_inv_bitslice, inv_bitslice_bitslice, add_round_key_invol, sub_bytes_inv_sub_bytes,
    shift_rows_2_inv_shift_rows_2,
    mix_columns_0_inv_mix_columns_0, mix_columns_1_inv_mix_columns_1,
    mix_columns_2_inv_mix_columns_2, mix_columns_3_inv_mix_columns_3, batch_eta]

end

/-! ### single-block wrappers of `soft.rs` (`encrypt_block` / `decrypt_block`): for these the batch
round trip is not enough (slots 1..3 are zero on the way in, arbitrary on the way out); the
single-block round trip follows from the lane independence proved in `Proofs/AesFs32Lanes`. -/

end BC.AesFs32
