import BlockCiphers.Gen.Cipher_Rc5
import BlockCiphers.Proofs.GenCipherRc5
import BlockCiphers.Proofs.Rc5
import BlockCiphers.Proofs.Rc5Spec
/-!
Code-level theorems for RC5 (`RC5<u32, U12, U16>`, `RC5<u16, U16, U8>`, `RC5<u64, U24, U24>`, `RC5<u8, U12, U4>`): statements
mention ONLY the regenerated code (`BC.Gen.Fn.rc5_<w>_<r>_<b>_encrypt_block` / `_decrypt_block` of `Gen/Cipher_Rc5.lean`) and the
specification `BC.Spec.Rc5` (Rivest 1994).  The tie of the regenerated key expansion (`Gen/Keys_Rc5.lean`) for all keys is
open, so the theorems are stated for an ARBITRARY expanded key table (the 2(R+1) words of `self.key_table`; every table a key
can produce is an instance).  Blocks are `BitVec`s, byte 0 of the Rust array = most significant byte; the statements are on
the byte lists `unpackBE n ·` (the Spec's convention).  Composition of
  (1) `BC.Rc5.decryptBlock_encryptBlock`, `encryptBlock_decryptBlock` (Proofs/Rc5.lean; Thm C01), `encryptBlock_eq_spec`,
      `decryptBlock_eq_spec` (Proofs/Rc5Spec.lean; Thm C10),
  (2) the ties of `Proofs/GenCipherRc5.lean`.
Produced by `tools/gen_rc5_code.py`.
-/
set_option maxRecDepth 100000
namespace BC.Code.Rc5
open BC BC.Gen.Fn BC.Rc5 BC.GenCipher.Rc5

/-! ### `RC5<u32, U12, U16>` -/

theorem rc5_32_12_16_len (x : BitVec 64) : (unpackBE 8 x).length = 2 * wordBytes 32 := by simp [unpackBE, wordBytes]

/-- `decrypt_block ∘ encrypt_block = id` on the regenerated code, every key table, every block -/
theorem rc5_32_12_16_dec_enc (k0 k1 k2 k3 k4 k5 k6 k7 k8 k9 k10 k11 k12 k13 k14 k15 k16 k17 k18 k19 k20 k21 k22 k23 k24 k25 : BitVec 32) (blk : BitVec 64) :
    unpackBE 8 (rc5_32_12_16_decrypt_block k0 k1 k2 k3 k4 k5 k6 k7 k8 k9 k10 k11 k12 k13 k14 k15 k16 k17 k18 k19 k20 k21 k22 k23 k24 k25 (rc5_32_12_16_encrypt_block k0 k1 k2 k3 k4 k5 k6 k7 k8 k9 k10 k11 k12 k13 k14 k15 k16 k17 k18 k19 k20 k21 k22 k23 k24 k25 blk)) = unpackBE 8 blk := by
  rw [rc5_32_12_16_decrypt_block_eq, rc5_32_12_16_encrypt_block_eq]
  exact decryptBlock_encryptBlock (by decide) _ _ _ (rc5_32_12_16_len blk)

theorem rc5_32_12_16_enc_dec (k0 k1 k2 k3 k4 k5 k6 k7 k8 k9 k10 k11 k12 k13 k14 k15 k16 k17 k18 k19 k20 k21 k22 k23 k24 k25 : BitVec 32) (blk : BitVec 64) :
    unpackBE 8 (rc5_32_12_16_encrypt_block k0 k1 k2 k3 k4 k5 k6 k7 k8 k9 k10 k11 k12 k13 k14 k15 k16 k17 k18 k19 k20 k21 k22 k23 k24 k25 (rc5_32_12_16_decrypt_block k0 k1 k2 k3 k4 k5 k6 k7 k8 k9 k10 k11 k12 k13 k14 k15 k16 k17 k18 k19 k20 k21 k22 k23 k24 k25 blk)) = unpackBE 8 blk := by
  rw [rc5_32_12_16_encrypt_block_eq, rc5_32_12_16_decrypt_block_eq]
  exact encryptBlock_decryptBlock (by decide) _ _ _ (rc5_32_12_16_len blk)

/-- the regenerated `encrypt_block` is Rivest's RC5 encryption with the given table -/
theorem rc5_32_12_16_enc_eq_spec (k0 k1 k2 k3 k4 k5 k6 k7 k8 k9 k10 k11 k12 k13 k14 k15 k16 k17 k18 k19 k20 k21 k22 k23 k24 k25 : BitVec 32) (blk : BitVec 64) :
    unpackBE 8 (rc5_32_12_16_encrypt_block k0 k1 k2 k3 k4 k5 k6 k7 k8 k9 k10 k11 k12 k13 k14 k15 k16 k17 k18 k19 k20 k21 k22 k23 k24 k25 blk) = Spec.Rc5.encryptBytes [k0, k1, k2, k3, k4, k5, k6, k7, k8, k9, k10, k11, k12, k13, k14, k15, k16, k17, k18, k19, k20, k21, k22, k23, k24, k25] 12 (unpackBE 8 blk) := by
  rw [rc5_32_12_16_encrypt_block_eq, encryptBlock_eq_spec (by decide)]; rfl

theorem rc5_32_12_16_dec_eq_spec (k0 k1 k2 k3 k4 k5 k6 k7 k8 k9 k10 k11 k12 k13 k14 k15 k16 k17 k18 k19 k20 k21 k22 k23 k24 k25 : BitVec 32) (blk : BitVec 64) :
    unpackBE 8 (rc5_32_12_16_decrypt_block k0 k1 k2 k3 k4 k5 k6 k7 k8 k9 k10 k11 k12 k13 k14 k15 k16 k17 k18 k19 k20 k21 k22 k23 k24 k25 blk) = Spec.Rc5.decryptBytes [k0, k1, k2, k3, k4, k5, k6, k7, k8, k9, k10, k11, k12, k13, k14, k15, k16, k17, k18, k19, k20, k21, k22, k23, k24, k25] 12 (unpackBE 8 blk) := by
  rw [rc5_32_12_16_decrypt_block_eq, decryptBlock_eq_spec (by decide)]; rfl

/-! ### `RC5<u16, U16, U8>` -/

theorem rc5_16_16_8_len (x : BitVec 32) : (unpackBE 4 x).length = 2 * wordBytes 16 := by simp [unpackBE, wordBytes]

/-- `decrypt_block ∘ encrypt_block = id` on the regenerated code, every key table, every block -/
theorem rc5_16_16_8_dec_enc (k0 k1 k2 k3 k4 k5 k6 k7 k8 k9 k10 k11 k12 k13 k14 k15 k16 k17 k18 k19 k20 k21 k22 k23 k24 k25 k26 k27 k28 k29 k30 k31 k32 k33 : BitVec 16) (blk : BitVec 32) :
    unpackBE 4 (rc5_16_16_8_decrypt_block k0 k1 k2 k3 k4 k5 k6 k7 k8 k9 k10 k11 k12 k13 k14 k15 k16 k17 k18 k19 k20 k21 k22 k23 k24 k25 k26 k27 k28 k29 k30 k31 k32 k33 (rc5_16_16_8_encrypt_block k0 k1 k2 k3 k4 k5 k6 k7 k8 k9 k10 k11 k12 k13 k14 k15 k16 k17 k18 k19 k20 k21 k22 k23 k24 k25 k26 k27 k28 k29 k30 k31 k32 k33 blk)) = unpackBE 4 blk := by
  rw [rc5_16_16_8_decrypt_block_eq, rc5_16_16_8_encrypt_block_eq]
  exact decryptBlock_encryptBlock (by decide) _ _ _ (rc5_16_16_8_len blk)

theorem rc5_16_16_8_enc_dec (k0 k1 k2 k3 k4 k5 k6 k7 k8 k9 k10 k11 k12 k13 k14 k15 k16 k17 k18 k19 k20 k21 k22 k23 k24 k25 k26 k27 k28 k29 k30 k31 k32 k33 : BitVec 16) (blk : BitVec 32) :
    unpackBE 4 (rc5_16_16_8_encrypt_block k0 k1 k2 k3 k4 k5 k6 k7 k8 k9 k10 k11 k12 k13 k14 k15 k16 k17 k18 k19 k20 k21 k22 k23 k24 k25 k26 k27 k28 k29 k30 k31 k32 k33 (rc5_16_16_8_decrypt_block k0 k1 k2 k3 k4 k5 k6 k7 k8 k9 k10 k11 k12 k13 k14 k15 k16 k17 k18 k19 k20 k21 k22 k23 k24 k25 k26 k27 k28 k29 k30 k31 k32 k33 blk)) = unpackBE 4 blk := by
  rw [rc5_16_16_8_encrypt_block_eq, rc5_16_16_8_decrypt_block_eq]
  exact encryptBlock_decryptBlock (by decide) _ _ _ (rc5_16_16_8_len blk)

/-- the regenerated `encrypt_block` is Rivest's RC5 encryption with the given table -/
theorem rc5_16_16_8_enc_eq_spec (k0 k1 k2 k3 k4 k5 k6 k7 k8 k9 k10 k11 k12 k13 k14 k15 k16 k17 k18 k19 k20 k21 k22 k23 k24 k25 k26 k27 k28 k29 k30 k31 k32 k33 : BitVec 16) (blk : BitVec 32) :
    unpackBE 4 (rc5_16_16_8_encrypt_block k0 k1 k2 k3 k4 k5 k6 k7 k8 k9 k10 k11 k12 k13 k14 k15 k16 k17 k18 k19 k20 k21 k22 k23 k24 k25 k26 k27 k28 k29 k30 k31 k32 k33 blk) = Spec.Rc5.encryptBytes [k0, k1, k2, k3, k4, k5, k6, k7, k8, k9, k10, k11, k12, k13, k14, k15, k16, k17, k18, k19, k20, k21, k22, k23, k24, k25, k26, k27, k28, k29, k30, k31, k32, k33] 16 (unpackBE 4 blk) := by
  rw [rc5_16_16_8_encrypt_block_eq, encryptBlock_eq_spec (by decide)]; rfl

theorem rc5_16_16_8_dec_eq_spec (k0 k1 k2 k3 k4 k5 k6 k7 k8 k9 k10 k11 k12 k13 k14 k15 k16 k17 k18 k19 k20 k21 k22 k23 k24 k25 k26 k27 k28 k29 k30 k31 k32 k33 : BitVec 16) (blk : BitVec 32) :
    unpackBE 4 (rc5_16_16_8_decrypt_block k0 k1 k2 k3 k4 k5 k6 k7 k8 k9 k10 k11 k12 k13 k14 k15 k16 k17 k18 k19 k20 k21 k22 k23 k24 k25 k26 k27 k28 k29 k30 k31 k32 k33 blk) = Spec.Rc5.decryptBytes [k0, k1, k2, k3, k4, k5, k6, k7, k8, k9, k10, k11, k12, k13, k14, k15, k16, k17, k18, k19, k20, k21, k22, k23, k24, k25, k26, k27, k28, k29, k30, k31, k32, k33] 16 (unpackBE 4 blk) := by
  rw [rc5_16_16_8_decrypt_block_eq, decryptBlock_eq_spec (by decide)]; rfl

/-! ### `RC5<u64, U24, U24>` -/

theorem rc5_64_24_24_len (x : BitVec 128) : (unpackBE 16 x).length = 2 * wordBytes 64 := by simp [unpackBE, wordBytes]

/-- `decrypt_block ∘ encrypt_block = id` on the regenerated code, every key table, every block -/
theorem rc5_64_24_24_dec_enc (k0 k1 k2 k3 k4 k5 k6 k7 k8 k9 k10 k11 k12 k13 k14 k15 k16 k17 k18 k19 k20 k21 k22 k23 k24 k25 k26 k27 k28 k29 k30 k31 k32 k33 k34 k35 k36 k37 k38 k39 k40 k41 k42 k43 k44 k45 k46 k47 k48 k49 : BitVec 64) (blk : BitVec 128) :
    unpackBE 16 (rc5_64_24_24_decrypt_block k0 k1 k2 k3 k4 k5 k6 k7 k8 k9 k10 k11 k12 k13 k14 k15 k16 k17 k18 k19 k20 k21 k22 k23 k24 k25 k26 k27 k28 k29 k30 k31 k32 k33 k34 k35 k36 k37 k38 k39 k40 k41 k42 k43 k44 k45 k46 k47 k48 k49 (rc5_64_24_24_encrypt_block k0 k1 k2 k3 k4 k5 k6 k7 k8 k9 k10 k11 k12 k13 k14 k15 k16 k17 k18 k19 k20 k21 k22 k23 k24 k25 k26 k27 k28 k29 k30 k31 k32 k33 k34 k35 k36 k37 k38 k39 k40 k41 k42 k43 k44 k45 k46 k47 k48 k49 blk)) = unpackBE 16 blk := by
  rw [rc5_64_24_24_decrypt_block_eq, rc5_64_24_24_encrypt_block_eq]
  exact decryptBlock_encryptBlock (by decide) _ _ _ (rc5_64_24_24_len blk)

theorem rc5_64_24_24_enc_dec (k0 k1 k2 k3 k4 k5 k6 k7 k8 k9 k10 k11 k12 k13 k14 k15 k16 k17 k18 k19 k20 k21 k22 k23 k24 k25 k26 k27 k28 k29 k30 k31 k32 k33 k34 k35 k36 k37 k38 k39 k40 k41 k42 k43 k44 k45 k46 k47 k48 k49 : BitVec 64) (blk : BitVec 128) :
    unpackBE 16 (rc5_64_24_24_encrypt_block k0 k1 k2 k3 k4 k5 k6 k7 k8 k9 k10 k11 k12 k13 k14 k15 k16 k17 k18 k19 k20 k21 k22 k23 k24 k25 k26 k27 k28 k29 k30 k31 k32 k33 k34 k35 k36 k37 k38 k39 k40 k41 k42 k43 k44 k45 k46 k47 k48 k49 (rc5_64_24_24_decrypt_block k0 k1 k2 k3 k4 k5 k6 k7 k8 k9 k10 k11 k12 k13 k14 k15 k16 k17 k18 k19 k20 k21 k22 k23 k24 k25 k26 k27 k28 k29 k30 k31 k32 k33 k34 k35 k36 k37 k38 k39 k40 k41 k42 k43 k44 k45 k46 k47 k48 k49 blk)) = unpackBE 16 blk := by
  rw [rc5_64_24_24_encrypt_block_eq, rc5_64_24_24_decrypt_block_eq]
  exact encryptBlock_decryptBlock (by decide) _ _ _ (rc5_64_24_24_len blk)

/-- the regenerated `encrypt_block` is Rivest's RC5 encryption with the given table -/
theorem rc5_64_24_24_enc_eq_spec (k0 k1 k2 k3 k4 k5 k6 k7 k8 k9 k10 k11 k12 k13 k14 k15 k16 k17 k18 k19 k20 k21 k22 k23 k24 k25 k26 k27 k28 k29 k30 k31 k32 k33 k34 k35 k36 k37 k38 k39 k40 k41 k42 k43 k44 k45 k46 k47 k48 k49 : BitVec 64) (blk : BitVec 128) :
    unpackBE 16 (rc5_64_24_24_encrypt_block k0 k1 k2 k3 k4 k5 k6 k7 k8 k9 k10 k11 k12 k13 k14 k15 k16 k17 k18 k19 k20 k21 k22 k23 k24 k25 k26 k27 k28 k29 k30 k31 k32 k33 k34 k35 k36 k37 k38 k39 k40 k41 k42 k43 k44 k45 k46 k47 k48 k49 blk) = Spec.Rc5.encryptBytes [k0, k1, k2, k3, k4, k5, k6, k7, k8, k9, k10, k11, k12, k13, k14, k15, k16, k17, k18, k19, k20, k21, k22, k23, k24, k25, k26, k27, k28, k29, k30, k31, k32, k33, k34, k35, k36, k37, k38, k39, k40, k41, k42, k43, k44, k45, k46, k47, k48, k49] 24 (unpackBE 16 blk) := by
  rw [rc5_64_24_24_encrypt_block_eq, encryptBlock_eq_spec (by decide)]; rfl

theorem rc5_64_24_24_dec_eq_spec (k0 k1 k2 k3 k4 k5 k6 k7 k8 k9 k10 k11 k12 k13 k14 k15 k16 k17 k18 k19 k20 k21 k22 k23 k24 k25 k26 k27 k28 k29 k30 k31 k32 k33 k34 k35 k36 k37 k38 k39 k40 k41 k42 k43 k44 k45 k46 k47 k48 k49 : BitVec 64) (blk : BitVec 128) :
    unpackBE 16 (rc5_64_24_24_decrypt_block k0 k1 k2 k3 k4 k5 k6 k7 k8 k9 k10 k11 k12 k13 k14 k15 k16 k17 k18 k19 k20 k21 k22 k23 k24 k25 k26 k27 k28 k29 k30 k31 k32 k33 k34 k35 k36 k37 k38 k39 k40 k41 k42 k43 k44 k45 k46 k47 k48 k49 blk) = Spec.Rc5.decryptBytes [k0, k1, k2, k3, k4, k5, k6, k7, k8, k9, k10, k11, k12, k13, k14, k15, k16, k17, k18, k19, k20, k21, k22, k23, k24, k25, k26, k27, k28, k29, k30, k31, k32, k33, k34, k35, k36, k37, k38, k39, k40, k41, k42, k43, k44, k45, k46, k47, k48, k49] 24 (unpackBE 16 blk) := by
  rw [rc5_64_24_24_decrypt_block_eq, decryptBlock_eq_spec (by decide)]; rfl

/-! ### `RC5<u8, U12, U4>` -/

theorem rc5_8_12_4_len (x : BitVec 16) : (unpackBE 2 x).length = 2 * wordBytes 8 := by simp [unpackBE, wordBytes]

/-- `decrypt_block ∘ encrypt_block = id` on the regenerated code, every key table, every block -/
theorem rc5_8_12_4_dec_enc (k0 k1 k2 k3 k4 k5 k6 k7 k8 k9 k10 k11 k12 k13 k14 k15 k16 k17 k18 k19 k20 k21 k22 k23 k24 k25 : BitVec 8) (blk : BitVec 16) :
    unpackBE 2 (rc5_8_12_4_decrypt_block k0 k1 k2 k3 k4 k5 k6 k7 k8 k9 k10 k11 k12 k13 k14 k15 k16 k17 k18 k19 k20 k21 k22 k23 k24 k25 (rc5_8_12_4_encrypt_block k0 k1 k2 k3 k4 k5 k6 k7 k8 k9 k10 k11 k12 k13 k14 k15 k16 k17 k18 k19 k20 k21 k22 k23 k24 k25 blk)) = unpackBE 2 blk := by
  rw [rc5_8_12_4_decrypt_block_eq, rc5_8_12_4_encrypt_block_eq]
  exact decryptBlock_encryptBlock (by decide) _ _ _ (rc5_8_12_4_len blk)

theorem rc5_8_12_4_enc_dec (k0 k1 k2 k3 k4 k5 k6 k7 k8 k9 k10 k11 k12 k13 k14 k15 k16 k17 k18 k19 k20 k21 k22 k23 k24 k25 : BitVec 8) (blk : BitVec 16) :
    unpackBE 2 (rc5_8_12_4_encrypt_block k0 k1 k2 k3 k4 k5 k6 k7 k8 k9 k10 k11 k12 k13 k14 k15 k16 k17 k18 k19 k20 k21 k22 k23 k24 k25 (rc5_8_12_4_decrypt_block k0 k1 k2 k3 k4 k5 k6 k7 k8 k9 k10 k11 k12 k13 k14 k15 k16 k17 k18 k19 k20 k21 k22 k23 k24 k25 blk)) = unpackBE 2 blk := by
  rw [rc5_8_12_4_encrypt_block_eq, rc5_8_12_4_decrypt_block_eq]
  exact encryptBlock_decryptBlock (by decide) _ _ _ (rc5_8_12_4_len blk)

/-- the regenerated `encrypt_block` is Rivest's RC5 encryption with the given table -/
theorem rc5_8_12_4_enc_eq_spec (k0 k1 k2 k3 k4 k5 k6 k7 k8 k9 k10 k11 k12 k13 k14 k15 k16 k17 k18 k19 k20 k21 k22 k23 k24 k25 : BitVec 8) (blk : BitVec 16) :
    unpackBE 2 (rc5_8_12_4_encrypt_block k0 k1 k2 k3 k4 k5 k6 k7 k8 k9 k10 k11 k12 k13 k14 k15 k16 k17 k18 k19 k20 k21 k22 k23 k24 k25 blk) = Spec.Rc5.encryptBytes [k0, k1, k2, k3, k4, k5, k6, k7, k8, k9, k10, k11, k12, k13, k14, k15, k16, k17, k18, k19, k20, k21, k22, k23, k24, k25] 12 (unpackBE 2 blk) := by
  rw [rc5_8_12_4_encrypt_block_eq, encryptBlock_eq_spec (by decide)]; rfl

theorem rc5_8_12_4_dec_eq_spec (k0 k1 k2 k3 k4 k5 k6 k7 k8 k9 k10 k11 k12 k13 k14 k15 k16 k17 k18 k19 k20 k21 k22 k23 k24 k25 : BitVec 8) (blk : BitVec 16) :
    unpackBE 2 (rc5_8_12_4_decrypt_block k0 k1 k2 k3 k4 k5 k6 k7 k8 k9 k10 k11 k12 k13 k14 k15 k16 k17 k18 k19 k20 k21 k22 k23 k24 k25 blk) = Spec.Rc5.decryptBytes [k0, k1, k2, k3, k4, k5, k6, k7, k8, k9, k10, k11, k12, k13, k14, k15, k16, k17, k18, k19, k20, k21, k22, k23, k24, k25] 12 (unpackBE 2 blk) := by
  rw [rc5_8_12_4_decrypt_block_eq, decryptBlock_eq_spec (by decide)]; rfl

end BC.Code.Rc5
