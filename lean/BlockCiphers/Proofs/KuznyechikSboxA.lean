import BlockCiphers.Impl.Kuznyechik
import BlockCiphers.Spec.Kuznyechik
/- Kuznyechik S-box tables, kernel-checked over all 256 byte values (part A: the computed P_INV inverts P; see Proofs/KuznyechikSbox.lean). -/
namespace BC.Kuznyechik
open BC.Spec.Kuznyechik

theorem P_INV_P_fin : ∀ i : Fin 256, lut P_INV (lut P (BitVec.ofFin i)) = BitVec.ofFin i := by decide +kernel
theorem P_P_INV_fin : ∀ i : Fin 256, lut P (lut P_INV (BitVec.ofFin i)) = BitVec.ofFin i := by decide +kernel

end BC.Kuznyechik
