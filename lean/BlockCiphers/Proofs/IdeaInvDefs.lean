import BlockCiphers.Impl.Idea
/-
C20 for IDEA `mul_inv`: the Euclid loop, re-stated with every dev-profile panic made explicit
(division by zero in `y / x`, `y %= x`, `x / y`, `x %= y`; `u32` overflow of `y / x * t0`, `t1 += …`,
`x / y * t1`, `t0 += …`; underflow of `MAXIM - t1`; and exhaustion of the model's fuel, i.e. non-termination
within 16 iterations).  `Proofs/IdeaInv*.lean` evaluate it for ALL 65536 arguments.
-/
namespace BC.Idea

def mulInvLoopChecked : Nat → BitVec 32 → BitVec 32 → BitVec 32 → BitVec 32 → Option (BitVec 16)
  | 0, _, _, _, _ => none
  | fuel + 1, x, y, t0, t1 =>
    if x = 0#32 then none                                                   -- y / x, y % x
    else if (y / x).toNat * t0.toNat ≥ 2 ^ 32 then none                     -- y / x * t0
    else if t1.toNat + (y / x * t0).toNat ≥ 2 ^ 32 then none                -- t1 += …
    else
      let t1 := t1 + y / x * t0
      let y := y % x
      if y = 1#32 then
        if t1.toNat > MAXIM.toNat then none                                 -- MAXIM - t1
        else some ((MAXIM - t1).setWidth 16)
      else if y = 0#32 then none                                            -- x / y, x % y
      else if (x / y).toNat * t1.toNat ≥ 2 ^ 32 then none                   -- x / y * t1
      else if t0.toNat + (x / y * t1).toNat ≥ 2 ^ 32 then none              -- t0 += …
      else
        let t0 := t0 + x / y * t1
        let x := x % y
        if x = 1#32 then some (t0.setWidth 16)
        else mulInvLoopChecked fuel x y t0 t1

def mulInvChecked (a : BitVec 16) : Option (BitVec 16) :=
  if a ≤ 1#16 then some a
  else mulInvLoopChecked mulInvFuel (a.setWidth 32) MAXIM 1#32 0#32

/-- what is established for every `a`: no panic site of `mul_inv` is reached, the loop ends, and the result is the
multiplicative inverse with respect to `mul` -/
def InvOk (a : BitVec 16) : Prop := mulInvChecked a = some (mulInv a) ∧ mul (mulInv a) a = 1#16

instance (a : BitVec 16) : Decidable (InvOk a) := by unfold InvOk; infer_instance

end BC.Idea
