import BlockCiphers.Gen.Keys_Idea
import BlockCiphers.Impl.Idea
import BlockCiphers.Proofs.IdeaSpec
import Std.Tactic.BVDecide
/-
Tie theorem for IDEA's `Idea::expand_key(&mut self, key)`: on ANY initial struct, the regenerated function writes the
model's `expandKey key` into `enc_keys` (all 52 entries) and leaves `dec_keys` unchanged; all keys.
(`Idea::invert_sub_keys` / `Idea::new` are not regenerated: `mul_inv` is a `loop` with data-dependent exits and
data-dependent divisions.)
-/
set_option maxRecDepth 100000
namespace BC.GenKeys.Idea
open BC.Gen.Fn BC.Idea

theorem base_0 (key : BitVec 128) : (expandKey key).getD 0 0#16 =
    (((key.extractLsb' 120 8).setWidth 16) <<< 8) + ((key.extractLsb' 112 8).setWidth 16) := by
  rw [expandKey_base key 0 (by omega)]; simp only [Spec.Idea.Z, Nat.reduceDiv, Nat.reduceMod, Nat.reduceMul, Nat.reduceSub]
  bv_decide
theorem base_1 (key : BitVec 128) : (expandKey key).getD 1 0#16 =
    (((key.extractLsb' 104 8).setWidth 16) <<< 8) + ((key.extractLsb' 96 8).setWidth 16) := by
  rw [expandKey_base key 1 (by omega)]; simp only [Spec.Idea.Z, Nat.reduceDiv, Nat.reduceMod, Nat.reduceMul, Nat.reduceSub]
  bv_decide
theorem base_2 (key : BitVec 128) : (expandKey key).getD 2 0#16 =
    (((key.extractLsb' 88 8).setWidth 16) <<< 8) + ((key.extractLsb' 80 8).setWidth 16) := by
  rw [expandKey_base key 2 (by omega)]; simp only [Spec.Idea.Z, Nat.reduceDiv, Nat.reduceMod, Nat.reduceMul, Nat.reduceSub]
  bv_decide
theorem base_3 (key : BitVec 128) : (expandKey key).getD 3 0#16 =
    (((key.extractLsb' 72 8).setWidth 16) <<< 8) + ((key.extractLsb' 64 8).setWidth 16) := by
  rw [expandKey_base key 3 (by omega)]; simp only [Spec.Idea.Z, Nat.reduceDiv, Nat.reduceMod, Nat.reduceMul, Nat.reduceSub]
  bv_decide
theorem base_4 (key : BitVec 128) : (expandKey key).getD 4 0#16 =
    (((key.extractLsb' 56 8).setWidth 16) <<< 8) + ((key.extractLsb' 48 8).setWidth 16) := by
  rw [expandKey_base key 4 (by omega)]; simp only [Spec.Idea.Z, Nat.reduceDiv, Nat.reduceMod, Nat.reduceMul, Nat.reduceSub]
  bv_decide
theorem base_5 (key : BitVec 128) : (expandKey key).getD 5 0#16 =
    (((key.extractLsb' 40 8).setWidth 16) <<< 8) + ((key.extractLsb' 32 8).setWidth 16) := by
  rw [expandKey_base key 5 (by omega)]; simp only [Spec.Idea.Z, Nat.reduceDiv, Nat.reduceMod, Nat.reduceMul, Nat.reduceSub]
  bv_decide
theorem base_6 (key : BitVec 128) : (expandKey key).getD 6 0#16 =
    (((key.extractLsb' 24 8).setWidth 16) <<< 8) + ((key.extractLsb' 16 8).setWidth 16) := by
  rw [expandKey_base key 6 (by omega)]; simp only [Spec.Idea.Z, Nat.reduceDiv, Nat.reduceMod, Nat.reduceMul, Nat.reduceSub]
  bv_decide
theorem base_7 (key : BitVec 128) : (expandKey key).getD 7 0#16 =
    (((key.extractLsb' 8 8).setWidth 16) <<< 8) + ((key.extractLsb' 0 8).setWidth 16) := by
  rw [expandKey_base key 7 (by omega)]; simp only [Spec.Idea.Z, Nat.reduceDiv, Nat.reduceMod, Nat.reduceMul, Nat.reduceSub]
  bv_decide

theorem rec_8 (key : BitVec 128) : (expandKey key).getD 8 0#16 =
    ((expandKey key).getD 1 0#16 <<< 9) + ((expandKey key).getD 2 0#16 >>> 7) :=
  expandKey_rec key 8 (by omega) (by omega)
theorem rec_9 (key : BitVec 128) : (expandKey key).getD 9 0#16 =
    ((expandKey key).getD 2 0#16 <<< 9) + ((expandKey key).getD 3 0#16 >>> 7) :=
  expandKey_rec key 9 (by omega) (by omega)
theorem rec_10 (key : BitVec 128) : (expandKey key).getD 10 0#16 =
    ((expandKey key).getD 3 0#16 <<< 9) + ((expandKey key).getD 4 0#16 >>> 7) :=
  expandKey_rec key 10 (by omega) (by omega)
theorem rec_11 (key : BitVec 128) : (expandKey key).getD 11 0#16 =
    ((expandKey key).getD 4 0#16 <<< 9) + ((expandKey key).getD 5 0#16 >>> 7) :=
  expandKey_rec key 11 (by omega) (by omega)
theorem rec_12 (key : BitVec 128) : (expandKey key).getD 12 0#16 =
    ((expandKey key).getD 5 0#16 <<< 9) + ((expandKey key).getD 6 0#16 >>> 7) :=
  expandKey_rec key 12 (by omega) (by omega)
theorem rec_13 (key : BitVec 128) : (expandKey key).getD 13 0#16 =
    ((expandKey key).getD 6 0#16 <<< 9) + ((expandKey key).getD 7 0#16 >>> 7) :=
  expandKey_rec key 13 (by omega) (by omega)
theorem rec_14 (key : BitVec 128) : (expandKey key).getD 14 0#16 =
    ((expandKey key).getD 7 0#16 <<< 9) + ((expandKey key).getD 0 0#16 >>> 7) :=
  expandKey_rec key 14 (by omega) (by omega)
theorem rec_15 (key : BitVec 128) : (expandKey key).getD 15 0#16 =
    ((expandKey key).getD 0 0#16 <<< 9) + ((expandKey key).getD 1 0#16 >>> 7) :=
  expandKey_rec key 15 (by omega) (by omega)
theorem rec_16 (key : BitVec 128) : (expandKey key).getD 16 0#16 =
    ((expandKey key).getD 9 0#16 <<< 9) + ((expandKey key).getD 10 0#16 >>> 7) :=
  expandKey_rec key 16 (by omega) (by omega)
theorem rec_17 (key : BitVec 128) : (expandKey key).getD 17 0#16 =
    ((expandKey key).getD 10 0#16 <<< 9) + ((expandKey key).getD 11 0#16 >>> 7) :=
  expandKey_rec key 17 (by omega) (by omega)
theorem rec_18 (key : BitVec 128) : (expandKey key).getD 18 0#16 =
    ((expandKey key).getD 11 0#16 <<< 9) + ((expandKey key).getD 12 0#16 >>> 7) :=
  expandKey_rec key 18 (by omega) (by omega)
theorem rec_19 (key : BitVec 128) : (expandKey key).getD 19 0#16 =
    ((expandKey key).getD 12 0#16 <<< 9) + ((expandKey key).getD 13 0#16 >>> 7) :=
  expandKey_rec key 19 (by omega) (by omega)
theorem rec_20 (key : BitVec 128) : (expandKey key).getD 20 0#16 =
    ((expandKey key).getD 13 0#16 <<< 9) + ((expandKey key).getD 14 0#16 >>> 7) :=
  expandKey_rec key 20 (by omega) (by omega)
theorem rec_21 (key : BitVec 128) : (expandKey key).getD 21 0#16 =
    ((expandKey key).getD 14 0#16 <<< 9) + ((expandKey key).getD 15 0#16 >>> 7) :=
  expandKey_rec key 21 (by omega) (by omega)
theorem rec_22 (key : BitVec 128) : (expandKey key).getD 22 0#16 =
    ((expandKey key).getD 15 0#16 <<< 9) + ((expandKey key).getD 8 0#16 >>> 7) :=
  expandKey_rec key 22 (by omega) (by omega)
theorem rec_23 (key : BitVec 128) : (expandKey key).getD 23 0#16 =
    ((expandKey key).getD 8 0#16 <<< 9) + ((expandKey key).getD 9 0#16 >>> 7) :=
  expandKey_rec key 23 (by omega) (by omega)
theorem rec_24 (key : BitVec 128) : (expandKey key).getD 24 0#16 =
    ((expandKey key).getD 17 0#16 <<< 9) + ((expandKey key).getD 18 0#16 >>> 7) :=
  expandKey_rec key 24 (by omega) (by omega)
theorem rec_25 (key : BitVec 128) : (expandKey key).getD 25 0#16 =
    ((expandKey key).getD 18 0#16 <<< 9) + ((expandKey key).getD 19 0#16 >>> 7) :=
  expandKey_rec key 25 (by omega) (by omega)
theorem rec_26 (key : BitVec 128) : (expandKey key).getD 26 0#16 =
    ((expandKey key).getD 19 0#16 <<< 9) + ((expandKey key).getD 20 0#16 >>> 7) :=
  expandKey_rec key 26 (by omega) (by omega)
theorem rec_27 (key : BitVec 128) : (expandKey key).getD 27 0#16 =
    ((expandKey key).getD 20 0#16 <<< 9) + ((expandKey key).getD 21 0#16 >>> 7) :=
  expandKey_rec key 27 (by omega) (by omega)
theorem rec_28 (key : BitVec 128) : (expandKey key).getD 28 0#16 =
    ((expandKey key).getD 21 0#16 <<< 9) + ((expandKey key).getD 22 0#16 >>> 7) :=
  expandKey_rec key 28 (by omega) (by omega)
theorem rec_29 (key : BitVec 128) : (expandKey key).getD 29 0#16 =
    ((expandKey key).getD 22 0#16 <<< 9) + ((expandKey key).getD 23 0#16 >>> 7) :=
  expandKey_rec key 29 (by omega) (by omega)
theorem rec_30 (key : BitVec 128) : (expandKey key).getD 30 0#16 =
    ((expandKey key).getD 23 0#16 <<< 9) + ((expandKey key).getD 16 0#16 >>> 7) :=
  expandKey_rec key 30 (by omega) (by omega)
theorem rec_31 (key : BitVec 128) : (expandKey key).getD 31 0#16 =
    ((expandKey key).getD 16 0#16 <<< 9) + ((expandKey key).getD 17 0#16 >>> 7) :=
  expandKey_rec key 31 (by omega) (by omega)
theorem rec_32 (key : BitVec 128) : (expandKey key).getD 32 0#16 =
    ((expandKey key).getD 25 0#16 <<< 9) + ((expandKey key).getD 26 0#16 >>> 7) :=
  expandKey_rec key 32 (by omega) (by omega)
theorem rec_33 (key : BitVec 128) : (expandKey key).getD 33 0#16 =
    ((expandKey key).getD 26 0#16 <<< 9) + ((expandKey key).getD 27 0#16 >>> 7) :=
  expandKey_rec key 33 (by omega) (by omega)
theorem rec_34 (key : BitVec 128) : (expandKey key).getD 34 0#16 =
    ((expandKey key).getD 27 0#16 <<< 9) + ((expandKey key).getD 28 0#16 >>> 7) :=
  expandKey_rec key 34 (by omega) (by omega)
theorem rec_35 (key : BitVec 128) : (expandKey key).getD 35 0#16 =
    ((expandKey key).getD 28 0#16 <<< 9) + ((expandKey key).getD 29 0#16 >>> 7) :=
  expandKey_rec key 35 (by omega) (by omega)
theorem rec_36 (key : BitVec 128) : (expandKey key).getD 36 0#16 =
    ((expandKey key).getD 29 0#16 <<< 9) + ((expandKey key).getD 30 0#16 >>> 7) :=
  expandKey_rec key 36 (by omega) (by omega)
theorem rec_37 (key : BitVec 128) : (expandKey key).getD 37 0#16 =
    ((expandKey key).getD 30 0#16 <<< 9) + ((expandKey key).getD 31 0#16 >>> 7) :=
  expandKey_rec key 37 (by omega) (by omega)
theorem rec_38 (key : BitVec 128) : (expandKey key).getD 38 0#16 =
    ((expandKey key).getD 31 0#16 <<< 9) + ((expandKey key).getD 24 0#16 >>> 7) :=
  expandKey_rec key 38 (by omega) (by omega)
theorem rec_39 (key : BitVec 128) : (expandKey key).getD 39 0#16 =
    ((expandKey key).getD 24 0#16 <<< 9) + ((expandKey key).getD 25 0#16 >>> 7) :=
  expandKey_rec key 39 (by omega) (by omega)
theorem rec_40 (key : BitVec 128) : (expandKey key).getD 40 0#16 =
    ((expandKey key).getD 33 0#16 <<< 9) + ((expandKey key).getD 34 0#16 >>> 7) :=
  expandKey_rec key 40 (by omega) (by omega)
theorem rec_41 (key : BitVec 128) : (expandKey key).getD 41 0#16 =
    ((expandKey key).getD 34 0#16 <<< 9) + ((expandKey key).getD 35 0#16 >>> 7) :=
  expandKey_rec key 41 (by omega) (by omega)
theorem rec_42 (key : BitVec 128) : (expandKey key).getD 42 0#16 =
    ((expandKey key).getD 35 0#16 <<< 9) + ((expandKey key).getD 36 0#16 >>> 7) :=
  expandKey_rec key 42 (by omega) (by omega)
theorem rec_43 (key : BitVec 128) : (expandKey key).getD 43 0#16 =
    ((expandKey key).getD 36 0#16 <<< 9) + ((expandKey key).getD 37 0#16 >>> 7) :=
  expandKey_rec key 43 (by omega) (by omega)
theorem rec_44 (key : BitVec 128) : (expandKey key).getD 44 0#16 =
    ((expandKey key).getD 37 0#16 <<< 9) + ((expandKey key).getD 38 0#16 >>> 7) :=
  expandKey_rec key 44 (by omega) (by omega)
theorem rec_45 (key : BitVec 128) : (expandKey key).getD 45 0#16 =
    ((expandKey key).getD 38 0#16 <<< 9) + ((expandKey key).getD 39 0#16 >>> 7) :=
  expandKey_rec key 45 (by omega) (by omega)
theorem rec_46 (key : BitVec 128) : (expandKey key).getD 46 0#16 =
    ((expandKey key).getD 39 0#16 <<< 9) + ((expandKey key).getD 32 0#16 >>> 7) :=
  expandKey_rec key 46 (by omega) (by omega)
theorem rec_47 (key : BitVec 128) : (expandKey key).getD 47 0#16 =
    ((expandKey key).getD 32 0#16 <<< 9) + ((expandKey key).getD 33 0#16 >>> 7) :=
  expandKey_rec key 47 (by omega) (by omega)
theorem rec_48 (key : BitVec 128) : (expandKey key).getD 48 0#16 =
    ((expandKey key).getD 41 0#16 <<< 9) + ((expandKey key).getD 42 0#16 >>> 7) :=
  expandKey_rec key 48 (by omega) (by omega)
theorem rec_49 (key : BitVec 128) : (expandKey key).getD 49 0#16 =
    ((expandKey key).getD 42 0#16 <<< 9) + ((expandKey key).getD 43 0#16 >>> 7) :=
  expandKey_rec key 49 (by omega) (by omega)
theorem rec_50 (key : BitVec 128) : (expandKey key).getD 50 0#16 =
    ((expandKey key).getD 43 0#16 <<< 9) + ((expandKey key).getD 44 0#16 >>> 7) :=
  expandKey_rec key 50 (by omega) (by omega)
theorem rec_51 (key : BitVec 128) : (expandKey key).getD 51 0#16 =
    ((expandKey key).getD 44 0#16 <<< 9) + ((expandKey key).getD 45 0#16 >>> 7) :=
  expandKey_rec key 51 (by omega) (by omega)

theorem expand_key_eq (e0 e1 e2 e3 e4 e5 e6 e7 e8 e9 e10 e11 e12 e13 e14 e15 e16 e17 e18 e19 e20 e21 e22 e23 e24 e25 e26 e27 e28 e29 e30 e31 e32 e33 e34 e35 e36 e37 e38 e39 e40 e41 e42 e43 e44 e45 e46 e47 e48 e49 e50 e51 d0 d1 d2 d3 d4 d5 d6 d7 d8 d9 d10 d11 d12 d13 d14 d15 d16 d17 d18 d19 d20 d21 d22 d23 d24 d25 d26 d27 d28 d29 d30 d31 d32 d33 d34 d35 d36 d37 d38 d39 d40 d41 d42 d43 d44 d45 d46 d47 d48 d49 d50 d51 : BitVec 16) (key : BitVec 128) :
    idea_expand_key e0 e1 e2 e3 e4 e5 e6 e7 e8 e9 e10 e11 e12 e13 e14 e15 e16 e17 e18 e19 e20 e21 e22 e23 e24 e25 e26 e27 e28 e29 e30 e31 e32 e33 e34 e35 e36 e37 e38 e39 e40 e41 e42 e43 e44 e45 e46 e47 e48 e49 e50 e51 d0 d1 d2 d3 d4 d5 d6 d7 d8 d9 d10 d11 d12 d13 d14 d15 d16 d17 d18 d19 d20 d21 d22 d23 d24 d25 d26 d27 d28 d29 d30 d31 d32 d33 d34 d35 d36 d37 d38 d39 d40 d41 d42 d43 d44 d45 d46 d47 d48 d49 d50 d51 key = ((expandKey key).getD 0 0#16, (expandKey key).getD 1 0#16, (expandKey key).getD 2 0#16, (expandKey key).getD 3 0#16, (expandKey key).getD 4 0#16, (expandKey key).getD 5 0#16, (expandKey key).getD 6 0#16, (expandKey key).getD 7 0#16, (expandKey key).getD 8 0#16, (expandKey key).getD 9 0#16, (expandKey key).getD 10 0#16, (expandKey key).getD 11 0#16, (expandKey key).getD 12 0#16, (expandKey key).getD 13 0#16, (expandKey key).getD 14 0#16, (expandKey key).getD 15 0#16, (expandKey key).getD 16 0#16, (expandKey key).getD 17 0#16, (expandKey key).getD 18 0#16, (expandKey key).getD 19 0#16, (expandKey key).getD 20 0#16, (expandKey key).getD 21 0#16, (expandKey key).getD 22 0#16, (expandKey key).getD 23 0#16, (expandKey key).getD 24 0#16, (expandKey key).getD 25 0#16, (expandKey key).getD 26 0#16, (expandKey key).getD 27 0#16, (expandKey key).getD 28 0#16, (expandKey key).getD 29 0#16, (expandKey key).getD 30 0#16, (expandKey key).getD 31 0#16, (expandKey key).getD 32 0#16, (expandKey key).getD 33 0#16, (expandKey key).getD 34 0#16, (expandKey key).getD 35 0#16, (expandKey key).getD 36 0#16, (expandKey key).getD 37 0#16, (expandKey key).getD 38 0#16, (expandKey key).getD 39 0#16, (expandKey key).getD 40 0#16, (expandKey key).getD 41 0#16, (expandKey key).getD 42 0#16, (expandKey key).getD 43 0#16, (expandKey key).getD 44 0#16, (expandKey key).getD 45 0#16, (expandKey key).getD 46 0#16, (expandKey key).getD 47 0#16, (expandKey key).getD 48 0#16, (expandKey key).getD 49 0#16, (expandKey key).getD 50 0#16, (expandKey key).getD 51 0#16, d0, d1, d2, d3, d4, d5, d6, d7, d8, d9, d10, d11, d12, d13, d14, d15, d16, d17, d18, d19, d20, d21, d22, d23, d24, d25, d26, d27, d28, d29, d30, d31, d32, d33, d34, d35, d36, d37, d38, d39, d40, d41, d42, d43, d44, d45, d46, d47, d48, d49, d50, d51) := by
  simp only [idea_expand_key, base_0, base_1, base_2, base_3, base_4, base_5, base_6, base_7, rec_8, rec_9, rec_10, rec_11, rec_12, rec_13, rec_14, rec_15, rec_16, rec_17, rec_18, rec_19, rec_20, rec_21, rec_22, rec_23, rec_24, rec_25, rec_26, rec_27, rec_28, rec_29, rec_30, rec_31, rec_32, rec_33, rec_34, rec_35, rec_36, rec_37, rec_38, rec_39, rec_40, rec_41, rec_42, rec_43, rec_44, rec_45, rec_46, rec_47, rec_48, rec_49, rec_50, rec_51]

end BC.GenKeys.Idea
