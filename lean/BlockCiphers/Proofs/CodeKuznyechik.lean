import BlockCiphers.Gen.Cipher_Kuznyechik
import BlockCiphers.Gen.Keys_Kuznyechik
import BlockCiphers.Proofs.GenCipherKuznyechik
import BlockCiphers.Proofs.GenKeysKuznyechik
import BlockCiphers.Proofs.KuznyechikCompact
/-!
Code-level theorems for Kuznyechik, compact software backend (`kuznyechik_backend = "compact_soft"`): statements mention
ONLY the regenerated code (`BC.Gen.Fn.kuznyechik_compact_enckeys_new`, `kuznyechik_compact_encrypt_block`,
`kuznyechik_compact_decrypt_block`, translated from /repo/kuznyechik/src/compact_soft/{mod.rs,backends.rs}, utils.rs,
gft.rs, consts.rs) and the specification `BC.Spec.Kuznyechik` (GOST R 34.12-2015).  Composition of
  (1) `BC.Kuznyechik.Compact.decrypt_encrypt`, `encrypt_decrypt`, `encrypt_eq_spec`, `decrypt_eq_spec`
      (Proofs/KuznyechikCompact.lean; Thm C01 / C07),
  (2) `BC.GenCipher.Kuznyechik.kuznyechik_compact_encrypt_block_eq` / `…_decrypt_block_eq`,
  (3) `BC.GenKeys.Kuznyechik.kuznyechik_compact_enckeys_new_eq`.
`EncKeys::new(key)` yields the ten round keys; `EncDecKeys` / `DecKeys` wrap the same array in this backend
(`From<EncKeys>`: `Self(enc.0)`), so `enc` / `dec` below are `Kuznyechik::new(key).encrypt_block / decrypt_block`.
The key is a `BitVec 256`, the block a `BitVec 128`, byte 0 of the Rust array = most significant byte.
-/
set_option maxRecDepth 100000
namespace BC.Code.Kuznyechik
open BC BC.Gen.Fn

/-- `EncBackend(&EncKeys::new(key).0).encrypt_block(b)` on the regenerated code -/
def enc (key : BitVec 256) (b : BitVec 128) : BitVec 128 :=
  match kuznyechik_compact_enckeys_new key with
  | (k0, k1, k2, k3, k4, k5, k6, k7, k8, k9) => kuznyechik_compact_encrypt_block k0 k1 k2 k3 k4 k5 k6 k7 k8 k9 b

/-- `DecBackend(&EncKeys::new(key).0).decrypt_block(b)` on the regenerated code -/
def dec (key : BitVec 256) (b : BitVec 128) : BitVec 128 :=
  match kuznyechik_compact_enckeys_new key with
  | (k0, k1, k2, k3, k4, k5, k6, k7, k8, k9) => kuznyechik_compact_decrypt_block k0 k1 k2 k3 k4 k5 k6 k7 k8 k9 b

/-! ### bridges to the model -/

theorem enc_eq_impl (key : BitVec 256) (b : BitVec 128) :
    enc key b = BC.Kuznyechik.Compact.encrypt_block (BC.Kuznyechik.Compact.expand key) b := by
  unfold enc
  rw [BC.GenKeys.Kuznyechik.kuznyechik_compact_enckeys_new_eq key]
  simp only [BC.GenKeys.Kuznyechik.rkTuple]
  exact BC.GenCipher.Kuznyechik.kuznyechik_compact_encrypt_block_eq _ _ _ _ _ _ _ _ _ _ b

theorem dec_eq_impl (key : BitVec 256) (b : BitVec 128) :
    dec key b = BC.Kuznyechik.Compact.decrypt_block (BC.Kuznyechik.Compact.expand key) b := by
  unfold dec
  rw [BC.GenKeys.Kuznyechik.kuznyechik_compact_enckeys_new_eq key]
  simp only [BC.GenKeys.Kuznyechik.rkTuple]
  exact BC.GenCipher.Kuznyechik.kuznyechik_compact_decrypt_block_eq _ _ _ _ _ _ _ _ _ _ b

/-! ### round trips on the regenerated code -/

theorem dec_enc (key : BitVec 256) (b : BitVec 128) : dec key (enc key b) = b := by
  rw [enc_eq_impl, dec_eq_impl, BC.Kuznyechik.Compact.decrypt_encrypt]

theorem enc_dec (key : BitVec 256) (b : BitVec 128) : enc key (dec key b) = b := by
  rw [enc_eq_impl, dec_eq_impl, BC.Kuznyechik.Compact.encrypt_decrypt]

/-! ### conformance of the regenerated code to GOST R 34.12-2015 -/

theorem enc_eq_spec (key : BitVec 256) (b : BitVec 128) : enc key b = BC.Spec.Kuznyechik.encrypt key b := by
  rw [enc_eq_impl, BC.Kuznyechik.Compact.encrypt_eq_spec]

theorem dec_eq_spec (key : BitVec 256) (b : BitVec 128) : dec key b = BC.Spec.Kuznyechik.decrypt key b := by
  rw [dec_eq_impl, BC.Kuznyechik.Compact.decrypt_eq_spec]

end BC.Code.Kuznyechik
