import Std.Tactic.BVDecide
import BlockCiphers.Proofs.Basic
import BlockCiphers.Proofs.AesSpec
import BlockCiphers.Impl.AesNi
/-
AES-NI model, part 1: the round instructions in FIPS-197 terms, and — for ANY round-key array that
agrees with a FIPS-197 key schedule `w` — `encrypt = Spec.cipher`, `decrypt ∘ inv_keys = Spec.invCipher`
(the equivalent-inverse-cipher argument: AESIMC is InvMixColumns, which is linear, so
`InvMixColumns(x) ⊕ InvMixColumns(k) = InvMixColumns(x ⊕ k)`).
-/
namespace BC.AesNi
open BC BC.X86 BC.Spec.Aes

/-! ### the byte-order conversion -/

theorem rev128_rev128 (x : BitVec 128) : rev128 (rev128 x) = x := by
  simp only [rev128, bswap64]; bv_decide (config := { timeout := 600 })
theorem rev128_xor (x y : BitVec 128) : rev128 (x ^^^ y) = rev128 x ^^^ rev128 y := by
  simp only [rev128, bswap64]; bv_decide (config := { timeout := 600 })
theorem rev128_zero : rev128 0#128 = 0#128 := by
  simp only [rev128, bswap64]; bv_decide (config := { timeout := 600 })

/-! ### the instructions seen from memory (load ∘ op ∘ store), i.e. on `Spec.Aes` states -/

theorem aesenc_spec (x k : BitVec 128) :
    rev128 (_mm_aesenc_si128 x k) = encRound (rev128 k) (rev128 x) := by
  simp only [_mm_aesenc_si128, ofState, toState, rev128_xor, rev128_rev128, encRound, addRoundKey,
    subBytes_shiftRows]

theorem aesenclast_spec (x k : BitVec 128) :
    rev128 (_mm_aesenclast_si128 x k) = addRoundKey (shiftRows (subBytes (rev128 x))) (rev128 k) := by
  simp only [_mm_aesenclast_si128, ofState, toState, rev128_xor, rev128_rev128, addRoundKey, subBytes_shiftRows]

theorem aesdec_spec (x k : BitVec 128) :
    rev128 (_mm_aesdec_si128 x k) = invMixColumns (invSubBytes (invShiftRows (rev128 x))) ^^^ rev128 k := by
  simp only [_mm_aesdec_si128, ofState, toState, rev128_xor, rev128_rev128]

theorem aesdeclast_spec (x k : BitVec 128) :
    rev128 (_mm_aesdeclast_si128 x k) = addRoundKey (invSubBytes (invShiftRows (rev128 x))) (rev128 k) := by
  simp only [_mm_aesdeclast_si128, ofState, toState, rev128_xor, rev128_rev128, addRoundKey]

theorem aesimc_spec (x : BitVec 128) : rev128 (_mm_aesimc_si128 x) = invMixColumns (rev128 x) := by
  simp only [_mm_aesimc_si128, ofState, toState, rev128_rev128]

/-- AESDEC with an AESIMC-transformed key is a round of the *direct* inverse cipher -/
theorem aesdec_imc_spec (x k : BitVec 128) :
    rev128 (_mm_aesdec_si128 x (_mm_aesimc_si128 k)) = decRound (rev128 k) (rev128 x) := by
  rw [aesdec_spec, aesimc_spec, decRound, addRoundKey, invMixColumns_xor]

/-! ### list helpers -/

theorem foldl_take {α β : Type} (f : β → α → β) (d : α) (m : Nat) :
    ∀ (l : List α) (x : β), m ≤ l.length →
      (l.take m).foldl f x = (List.range m).foldl (fun x r => f x (l.getD r d)) x := by
  induction m with
  | zero => intro l x _; simp
  | succ m ih =>
    intro l x h
    match l, h with
    | a :: t, h =>
      rw [List.take_succ_cons, List.foldl_cons, ih t (f x a) (by simpa using h),
        List.range_succ_eq_map, List.foldl_cons, List.foldl_map]
      simp only [List.getD_cons_zero, Nat.succ_eq_add_one, List.getD_cons_succ]

theorem getD_drop_one {α : Type} (l : List α) (r : Nat) (d : α) : (l.drop 1).getD r d = l.getD (r + 1) d := by
  simp only [List.getD_eq_getElem?_getD, List.getElem?_drop, Nat.add_comm]

theorem foldl_slice {α β : Type} (f : β → α → β) (d : α) (l : List α) (m : Nat) (x : β) (h : m + 1 ≤ l.length) :
    ((l.drop 1).take m).foldl f x = (List.range m).foldl (fun x r => f x (l.getD (r + 1) d)) x := by
  rw [foldl_take f d m (l.drop 1) x (by simp only [List.length_drop]; omega)]
  simp only [getD_drop_one]

theorem foldl_rel {β γ : Type} (R : β → γ → Prop) (f : β → Nat → β) (g : γ → Nat → γ) (m : Nat)
    (h : ∀ r, r < m → ∀ x s, R x s → R (f x r) (g s r)) (x : β) (s : γ) (h0 : R x s) :
    R ((List.range m).foldl f x) ((List.range m).foldl g s) := by
  induction m with
  | zero => exact h0
  | succ m ih =>
    rw [List.range_succ, List.foldl_append, List.foldl_append, List.foldl_cons, List.foldl_nil,
      List.foldl_cons, List.foldl_nil]
    exact h m (by omega) _ _ (ih (fun r hr => h r (by omega)))

/-! ### `encrypt` is the FIPS-197 Cipher for any key array that matches a FIPS key schedule -/

/-- `keys` (x86 lane order) holds the round keys `0..nr` of the FIPS-197 key schedule `w` -/
def KeysMatch (keys : List (BitVec 128)) (nr : Nat) (w : Array (BitVec 32)) : Prop :=
  keys.length = nr + 1 ∧ ∀ r, r ≤ nr → rev128 (keys.getD r 0#128) = roundKey w r

theorem encrypt_eq_cipher (keys : List (BitVec 128)) (nr : Nat) (w : Array (BitVec 32))
    (hm : KeysMatch keys nr w) (hnr : 1 ≤ nr) (b : BitVec 128) :
    encrypt keys b = cipher nr w b := by
  obtain ⟨hlen, hk⟩ := hm
  rw [cipher_eq]
  simp only [encrypt, _mm_loadu_si128, _mm_storeu_si128, _mm_xor_si128, hlen]
  have e1 : nr + 1 - 2 = nr - 1 := by omega
  have e2 : nr + 1 - 1 = nr := by omega
  rw [e1, e2, foldl_slice _ 0#128 keys (nr - 1) _ (by omega), aesenclast_spec, hk nr (by omega)]
  congr 3
  apply foldl_rel (fun x s => rev128 x = s)
  · intro r hr x s hxs
    rw [aesenc_spec, hk (r + 1) (by omega), hxs]
  · rw [rev128_xor, rev128_rev128, hk 0 (by omega)]; rfl

/-! ### `inv_keys` -/

theorem getD_set_eq {α : Type} (l : List α) (i : Nat) (v d : α) (h : i < l.length) : (l.set i v).getD i d = v := by
  simp [List.getD_eq_getElem?_getD, h]

theorem getD_set_ne {α : Type} (l : List α) (i j : Nat) (v d : α) (h : i ≠ j) : (l.set i v).getD j d = l.getD j d := by
  simp [List.getD_eq_getElem?_getD, h]

theorem foldl_set_length {α : Type} (g : Nat → α) (s m : Nat) (l : List α) :
    ((List.range' s m).foldl (fun acc i => acc.set i (g i)) l).length = l.length := by
  induction m generalizing s l with
  | zero => rfl
  | succ m ih => rw [List.range'_succ, List.foldl_cons, ih, List.length_set]

theorem foldl_set_getD {α : Type} (g : Nat → α) (d : α) (m : Nat) :
    ∀ (s : Nat) (l : List α) (j : Nat), s + m ≤ l.length →
      ((List.range' s m).foldl (fun acc i => acc.set i (g i)) l).getD j d =
        if s ≤ j ∧ j < s + m then g j else l.getD j d := by
  induction m with
  | zero => intro s l j _; rw [if_neg (by omega)]; rfl
  | succ m ih =>
    intro s l j h
    rw [List.range'_succ, List.foldl_cons, ih (s + 1) (l.set s (g s)) j (by rw [List.length_set]; omega)]
    by_cases hj : j = s
    · subst hj
      rw [if_neg (by omega), if_pos (by omega), getD_set_eq _ _ _ _ (by omega)]
    · rw [getD_set_ne _ _ _ _ _ (fun e => hj e.symm)]
      by_cases h2 : s + 1 ≤ j ∧ j < s + 1 + m
      · rw [if_pos h2, if_pos (by omega)]
      · rw [if_neg h2, if_neg (by omega)]

theorem inv_keys_length (keys : List (BitVec 128)) : (inv_keys keys).length = keys.length := by
  simp only [inv_keys, List.length_set, foldl_set_length, List.length_replicate]

theorem inv_keys_first (keys : List (BitVec 128)) (h : 2 ≤ keys.length) :
    (inv_keys keys).getD 0 0#128 = keys.getD (keys.length - 1) 0#128 := by
  simp only [inv_keys]
  rw [getD_set_ne _ _ _ _ _ (by omega),
    foldl_set_getD _ _ _ _ _ _ (by simp only [List.length_set, List.length_replicate]; omega),
    if_neg (by omega), getD_set_eq _ _ _ _ (by simp only [List.length_replicate]; omega)]

theorem inv_keys_last (keys : List (BitVec 128)) (h : 2 ≤ keys.length) :
    (inv_keys keys).getD (keys.length - 1) 0#128 = keys.getD 0 0#128 := by
  simp only [inv_keys]
  rw [getD_set_eq _ _ _ _ (by simp only [foldl_set_length, List.length_set, List.length_replicate]; omega)]

theorem inv_keys_mid (keys : List (BitVec 128)) (i : Nat) (h1 : 1 ≤ i) (h2 : i + 2 ≤ keys.length) :
    (inv_keys keys).getD i 0#128 = _mm_aesimc_si128 (keys.getD (keys.length - 1 - i) 0#128) := by
  simp only [inv_keys]
  rw [getD_set_ne _ _ _ _ _ (by omega),
    foldl_set_getD _ _ _ _ _ _ (by simp only [List.length_set, List.length_replicate]; omega),
    if_pos (by omega)]

/-! ### `decrypt` with `inv_keys` is the FIPS-197 InvCipher (the direct one of §5.3) -/

theorem decrypt_inv_keys_eq_invCipher (keys : List (BitVec 128)) (nr : Nat) (w : Array (BitVec 32))
    (hm : KeysMatch keys nr w) (hnr : 1 ≤ nr) (b : BitVec 128) :
    decrypt (inv_keys keys) b = invCipher nr w b := by
  obtain ⟨hlen, hk⟩ := hm
  rw [invCipher_eq]
  simp only [decrypt, _mm_loadu_si128, _mm_storeu_si128, _mm_xor_si128, inv_keys_length, hlen]
  have e1 : nr + 1 - 2 = nr - 1 := by omega
  have e2 : nr + 1 - 1 = nr := by omega
  have hl := inv_keys_last keys (by omega)
  have hf := inv_keys_first keys (by omega)
  rw [hlen, e2] at hl hf
  rw [e1, e2, foldl_slice _ 0#128 (inv_keys keys) (nr - 1) _ (by rw [inv_keys_length]; omega),
    aesdeclast_spec, hl, hk 0 (by omega)]
  congr 3
  apply foldl_rel (fun x s => rev128 x = s)
  · intro r hr x s hxs
    have hmid := inv_keys_mid keys (r + 1) (by omega) (by omega)
    have e3 : keys.length - 1 - (r + 1) = nr - 1 - r := by omega
    rw [e3] at hmid
    rw [hmid, aesdec_imc_spec, hk (nr - 1 - r) (by omega), hxs]
  · rw [rev128_xor, rev128_rev128, hf, hk nr (by omega)]; rfl

end BC.AesNi
