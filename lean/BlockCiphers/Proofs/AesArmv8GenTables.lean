import BlockCiphers.Gen.Tables
import BlockCiphers.Impl.AesArmv8
/-
Tie between the constants of `/repo/aes/src/armv8/expand.rs` as re-extracted by the translator on every run
(`Gen/Tables.lean`) and the constants the ARMv8 model computes with: an edited `ROUND_CONSTS` entry (or word size)
is a failed proof obligation, whether or not a sampled key reaches it.  Kernel evaluation.
-/
namespace BC.GenTables
open BC.Gen

/-- `ROUND_CONSTS` of the repository = `ROUND_CONSTS` of `Impl/AesArmv8.lean` -/
theorem aes_armv8_ROUND_CONSTS_eq : aes_ROUND_CONSTS.toList = BC.AesArmv8.ROUND_CONSTS.map BitVec.toNat := by
  decide +kernel

/-- `BLOCK_WORDS = 4` (`column_reg`: four 32-bit columns per register, `expand_columns`: `n * 4` columns) and
`WORD_SIZE = 4` (`key_columns`: 4-byte chunks, `nk = key.length / 4`) -/
theorem aes_armv8_word_consts : aes_BLOCK_WORDS = 4 ∧ aes_WORD_SIZE = 4 := by decide +kernel

end BC.GenTables
