import BlockCiphers.Proofs.Basic
import BlockCiphers.Proofs.IdeaInv
/-
IDEA (model of /repo/idea/src/lib.rs):
* `mul` is multiplication in (Z/65537)^* under the representation `0 ↦ 2^16` (`phi_mul`), without appealing to
  the primality of 65537: invertibility of every residue comes from the exhaustive `mul_mulInv` (Proofs/IdeaInv.lean);
* `add`/`add_inv` are addition / negation modulo 2^16;
* the round trip `crypt (invert_sub_keys ek) ∘ crypt ek = id` (and the other order) for EVERY sub-key array `ek`,
  hence for all keys (`decrypt_encrypt`, `encrypt_decrypt`);
* C20 bounds for every plain arithmetic operation of the crate.
-/
namespace BC.Idea

/-! ### arithmetic -/

/-- the residue class represented by a 16-bit word: `0 ↦ 2^16` -/
def phi (a : BitVec 16) : Nat := if a = 0#16 then 65536 else a.toNat

theorem phi_range (a : BitVec 16) : 1 ≤ phi a ∧ phi a ≤ 65536 := by
  unfold phi
  split
  · omega
  · rename_i h
    have : a.toNat ≠ 0 := fun h0 => h (BitVec.eq_of_toNat_eq h0)
    have := a.isLt
    omega

theorem phi_inj (a b : BitVec 16) (h : phi a = phi b) : a = b := by
  unfold phi at h
  have ha := a.isLt
  have hb := b.isLt
  split at h <;> split at h
  · simp_all
  · omega
  · omega
  · exact BitVec.eq_of_toNat_eq h

theorem mul_zero_left (b : BitVec 16) : mul 0#16 b = 1#16 - b := by
  unfold mul MAXIM ONE; bv_decide (config := { timeout := 600 })
theorem mul_zero_right (a : BitVec 16) : mul a 0#16 = 1#16 - a := by
  unfold mul MAXIM ONE; bv_decide (config := { timeout := 600 })

/-- the `lo - hi` reduction of a 32-bit product -/
def lowHigh (c : BitVec 32) : BitVec 16 :=
  let r : BitVec 32 := (c &&& ONE) - (c >>> 16)
  ((if r.slt 0#32 then r + MAXIM else r) &&& ONE).setWidth 16

theorem mul_nonzero (a b : BitVec 16) (ha : a ≠ 0#16) (hb : b ≠ 0#16) :
    mul a b = lowHigh (a.setWidth 32 * b.setWidth 32) := by
  have h1 : a.setWidth 32 ≠ 0#32 := by bv_decide (config := { timeout := 600 })
  have h2 : b.setWidth 32 ≠ 0#32 := by bv_decide (config := { timeout := 600 })
  simp only [mul, lowHigh, h1, h2, if_false]

theorem lowHigh_spec (c : BitVec 32) : (lowHigh c).setWidth 32 = (c % 65537#32) % 65536#32 := by
  unfold lowHigh MAXIM ONE
  bv_decide (config := { timeout := 300 })


theorem toNat_lowHigh (c : BitVec 32) : (lowHigh c).toNat = (c.toNat % 65537) % 65536 := by
  have h := congrArg BitVec.toNat (lowHigh_spec c)
  simp only [BitVec.toNat_setWidth, BitVec.toNat_umod, BitVec.toNat_ofNat, Nat.reducePow, Nat.reduceMod] at h
  have := (lowHigh c).isLt
  omega

theorem toNat_prod (a b : BitVec 16) : (a.setWidth 32 * b.setWidth 32 : BitVec 32).toNat = a.toNat * b.toNat := by
  have ha := a.isLt
  have hb := b.isLt
  have : a.toNat * b.toNat < 65536 * 65536 := Nat.mul_lt_mul'' ha hb
  simp only [BitVec.toNat_mul, BitVec.toNat_setWidth]
  rw [Nat.mod_eq_of_lt (a := a.toNat) (by omega), Nat.mod_eq_of_lt (a := b.toNat) (by omega)]
  omega

theorem toNat_one_sub (b : BitVec 16) : (1#16 - b).toNat = (65537 - b.toNat) % 65536 := by
  have := b.isLt
  simp only [BitVec.toNat_sub, BitVec.toNat_ofNat, Nat.reducePow, Nat.reduceMod]
  omega

theorem neg_mod (n : Nat) (h1 : 1 ≤ n) (h2 : n ≤ 65536) : 65536 * n % 65537 = 65537 - n := by
  have : 65536 * n = (65537 - n) + 65537 * (n - 1) := by omega
  rw [this, Nat.add_mul_mod_self_left, Nat.mod_eq_of_lt (by omega)]

/-- `mul` as coded: the product of the represented residues modulo 65537, truncated to 16 bits
(no primality needed) -/
theorem mul_raw (a b : BitVec 16) : (mul a b).toNat = (phi a * phi b % 65537) % 65536 := by
  have hpa := phi_range a
  have hpb := phi_range b
  by_cases ha : a = 0#16
  · subst ha
    rw [mul_zero_left, toNat_one_sub]
    have h0 : phi 0#16 = 65536 := by simp [phi]
    rw [h0]
    by_cases hb : b = 0#16
    · subst hb; simp [phi]
    · have : phi b = b.toNat := by simp [phi, hb]
      rw [this] at hpb ⊢
      rw [neg_mod _ hpb.1 hpb.2]
  · have hxa : phi a = a.toNat := by simp [phi, ha]
    by_cases hb : b = 0#16
    · subst hb
      rw [mul_zero_right, toNat_one_sub]
      have h0 : phi 0#16 = 65536 := by simp [phi]
      rw [hxa] at hpa
      rw [h0, hxa, Nat.mul_comm, neg_mod _ hpa.1 hpa.2]
    · have hxb : phi b = b.toNat := by simp [phi, hb]
      rw [mul_nonzero a b ha hb, toNat_lowHigh, toNat_prod, hxa, hxb]


theorem phi_one : phi 1#16 = 1 := by decide

/-- the residue of `mul_inv a` is the inverse of the residue of `a` modulo 65537 -/
theorem phi_mulInv (a : BitVec 16) : phi (mulInv a) * phi a % 65537 = 1 := by
  have h := mul_raw (mulInv a) a
  rw [mul_mulInv] at h
  have : (phi (mulInv a) * phi a) % 65537 < 65537 := Nat.mod_lt _ (by omega)
  simp only [BitVec.toNat_ofNat, Nat.reducePow, Nat.reduceMod] at h
  omega

/-- no zero divisors among the residues 1..65536 modulo 65537 (from the existence of inverses) -/
theorem phi_mul_ne_zero (a b : BitVec 16) : phi a * phi b % 65537 ≠ 0 := by
  intro h
  have hi := phi_mulInv a
  have hb := phi_range b
  have : phi b % 65537 = 0 := by
    calc phi b % 65537 = (1 * phi b) % 65537 := by rw [Nat.one_mul]
      _ = ((phi (mulInv a) * phi a % 65537) * phi b) % 65537 := by rw [hi]
      _ = (phi (mulInv a) * phi a * phi b) % 65537 := by rw [Nat.mod_mul_mod]
      _ = (phi (mulInv a) * (phi a * phi b)) % 65537 := by rw [Nat.mul_assoc]
      _ = (phi (mulInv a) * (phi a * phi b % 65537)) % 65537 := by rw [Nat.mul_mod_mod]
      _ = 0 := by rw [h]; simp
  omega

/-- **`mul` is multiplication in (Z/65537)^*** under the representation `0 ↦ 2^16`. -/
theorem phi_mul (a b : BitVec 16) : phi (mul a b) = phi a * phi b % 65537 := by
  have hr := mul_raw a b
  have hnz := phi_mul_ne_zero a b
  have hlt : phi a * phi b % 65537 < 65537 := Nat.mod_lt _ (by omega)
  unfold phi at *
  split
  · rename_i h0
    rw [h0] at hr
    simp only [BitVec.toNat_ofNat, Nat.reducePow, Nat.zero_mod] at hr
    omega
  · rename_i h0
    have : (mul a b).toNat ≠ 0 := fun h => h0 (BitVec.eq_of_toNat_eq h)
    omega

theorem mul_comm (a b : BitVec 16) : mul a b = mul b a := by
  apply phi_inj; rw [phi_mul, phi_mul, Nat.mul_comm]

theorem mul_assoc (a b c : BitVec 16) : mul (mul a b) c = mul a (mul b c) := by
  apply phi_inj
  rw [phi_mul, phi_mul, phi_mul, phi_mul, Nat.mod_mul_mod, Nat.mul_mod_mod, Nat.mul_assoc]

theorem mul_one (a : BitVec 16) : mul a 1#16 = a := by
  apply phi_inj
  have := phi_range a
  rw [phi_mul, phi_one, Nat.mul_one, Nat.mod_eq_of_lt (by omega)]

/-- undoing a multiplication by a sub-key with the inverted sub-key -/
theorem mul_mul_mulInv (x k : BitVec 16) : mul (mul x k) (mulInv k) = x := by
  rw [mul_assoc, mul_comm k, mul_mulInv, mul_one]

theorem mul_mulInv_mul (x k : BitVec 16) : mul (mul x (mulInv k)) k = x := by
  rw [mul_assoc, mul_mulInv, mul_one]

theorem add_eq (a b : BitVec 16) : add a b = a + b := by unfold add ONE; bv_decide (config := { timeout := 600 })
theorem addInv_eq (a : BitVec 16) : addInv a = -a := by unfold addInv FUYI ONE; bv_decide (config := { timeout := 600 })
theorem add_addInv (a : BitVec 16) : add (addInv a) a = 0#16 := by rw [add_eq, addInv_eq]; bv_decide (config := { timeout := 600 })
theorem add_add_addInv (x k : BitVec 16) : add (add x k) (addInv k) = x := by
  rw [add_eq, add_eq, addInv_eq]; bv_decide (config := { timeout := 600 })
theorem add_addInv_add (x k : BitVec 16) : add (add x (addInv k)) k = x := by
  rw [add_eq, add_eq, addInv_eq]; bv_decide (config := { timeout := 600 })


/-! ### structure of `crypt`: T (key mixing), M (the MA involution), S (swap of the middle words) -/

def T (k0 k1 k2 k3 : BitVec 16) (s : St) : St :=
  { x1 := mul s.x1 k0, x2 := add s.x2 k1, x3 := add s.x3 k2, x4 := mul s.x4 k3 }

def M (k4 k5 : BitVec 16) (s : St) : St :=
  let t0 := mul (s.x1 ^^^ s.x3) k4
  let t1 := mul (add (s.x2 ^^^ s.x4) t0) k5
  let t2 := add t0 t1
  { x1 := s.x1 ^^^ t1, x2 := s.x2 ^^^ t2, x3 := s.x3 ^^^ t1, x4 := s.x4 ^^^ t2 }

def S (s : St) : St := { x1 := s.x1, x2 := s.x3, x3 := s.x2, x4 := s.x4 }

def roundK (k0 k1 k2 k3 k4 k5 : BitVec 16) (s : St) : St := S (M k4 k5 (T k0 k1 k2 k3 s))
def finalK (k0 k1 k2 k3 : BitVec 16) (s : St) : St := T k0 k1 k2 k3 (S s)

theorem round_eq (sk : Array (BitVec 16)) (s : St) (i : Nat) :
    round sk s i = roundK (sk.getD (i * 6) 0#16) (sk.getD (i * 6 + 1) 0#16) (sk.getD (i * 6 + 2) 0#16)
      (sk.getD (i * 6 + 3) 0#16) (sk.getD (i * 6 + 4) 0#16) (sk.getD (i * 6 + 5) 0#16) s := rfl

theorem final_eq (sk : Array (BitVec 16)) (s : St) :
    final sk s = finalK (sk.getD 48 0#16) (sk.getD 49 0#16) (sk.getD 50 0#16) (sk.getD 51 0#16) s := rfl

/-- `crypt` unrolled: 8 rounds `S ∘ M ∘ T` and the output transformation `T ∘ S` -/
theorem crypt_eq (sk : Array (BitVec 16)) (b : BitVec 64) :
    crypt sk b = store (finalK (sk.getD 48 0#16) (sk.getD 49 0#16) (sk.getD 50 0#16) (sk.getD 51 0#16)
      (roundK (sk.getD 42 0#16) (sk.getD 43 0#16) (sk.getD 44 0#16) (sk.getD 45 0#16) (sk.getD 46 0#16) (sk.getD 47 0#16)
      (roundK (sk.getD 36 0#16) (sk.getD 37 0#16) (sk.getD 38 0#16) (sk.getD 39 0#16) (sk.getD 40 0#16) (sk.getD 41 0#16)
      (roundK (sk.getD 30 0#16) (sk.getD 31 0#16) (sk.getD 32 0#16) (sk.getD 33 0#16) (sk.getD 34 0#16) (sk.getD 35 0#16)
      (roundK (sk.getD 24 0#16) (sk.getD 25 0#16) (sk.getD 26 0#16) (sk.getD 27 0#16) (sk.getD 28 0#16) (sk.getD 29 0#16)
      (roundK (sk.getD 18 0#16) (sk.getD 19 0#16) (sk.getD 20 0#16) (sk.getD 21 0#16) (sk.getD 22 0#16) (sk.getD 23 0#16)
      (roundK (sk.getD 12 0#16) (sk.getD 13 0#16) (sk.getD 14 0#16) (sk.getD 15 0#16) (sk.getD 16 0#16) (sk.getD 17 0#16)
      (roundK (sk.getD 6 0#16) (sk.getD 7 0#16) (sk.getD 8 0#16) (sk.getD 9 0#16) (sk.getD 10 0#16) (sk.getD 11 0#16)
      (roundK (sk.getD 0 0#16) (sk.getD 1 0#16) (sk.getD 2 0#16) (sk.getD 3 0#16) (sk.getD 4 0#16) (sk.getD 5 0#16)
      (load b)))))))))) := by
  simp only [crypt, final_eq, round_eq, ROUNDS, List.range, List.range.loop, List.foldl, Nat.reduceMul, Nat.reduceAdd]

theorem xor_pair (a b t : BitVec 16) : (a ^^^ t) ^^^ (b ^^^ t) = a ^^^ b := by bv_decide (config := { timeout := 600 })
theorem xor_cancel_right (a t : BitVec 16) : a ^^^ t ^^^ t = a := by bv_decide (config := { timeout := 600 })

theorem M_invol (k4 k5 : BitVec 16) (s : St) : M k4 k5 (M k4 k5 s) = s := by
  cases s; simp only [M, xor_pair, xor_cancel_right]

theorem S_S (s : St) : S (S s) = s := rfl

theorem T_S (k0 k1 k2 k3 : BitVec 16) (s : St) : T k0 k1 k2 k3 (S s) = S (T k0 k2 k1 k3 s) := rfl

theorem T_inv (k0 k1 k2 k3 : BitVec 16) (s : St) :
    T (mulInv k0) (addInv k1) (addInv k2) (mulInv k3) (T k0 k1 k2 k3 s) = s := by
  cases s; simp only [T, mul_mul_mulInv, add_add_addInv]

theorem T_inv' (k0 k1 k2 k3 : BitVec 16) (s : St) :
    T k0 k1 k2 k3 (T (mulInv k0) (addInv k1) (addInv k2) (mulInv k3) s) = s := by
  cases s; simp only [T, mul_mulInv_mul, add_addInv_add]

theorem load_store (s : St) : load (store s) = s := by
  cases s with | mk a b c d =>
  simp only [load, store, St.mk.injEq]
  refine ⟨?_, ?_, ?_, ?_⟩ <;> bv_decide (config := { timeout := 600 })

theorem store_load (b : BitVec 64) : store (load b) = b := by
  simp only [load, store]; bv_decide (config := { timeout := 600 })

/-! ### `invert_sub_keys`: every entry of `dec_keys` in terms of `enc_keys` (the two loops evaluated) -/

theorem dk_0 (ek : Array (BitVec 16)) : (invertSubKeys ek).getD 0 0#16 = mulInv (ek.getD 48 0#16) := by
  simp [invertSubKeys, invertStepA, invertStepB, List.range, List.range.loop, ROUNDS]
theorem dk_1 (ek : Array (BitVec 16)) : (invertSubKeys ek).getD 1 0#16 = addInv (ek.getD 49 0#16) := by
  simp [invertSubKeys, invertStepA, invertStepB, List.range, List.range.loop, ROUNDS]
theorem dk_2 (ek : Array (BitVec 16)) : (invertSubKeys ek).getD 2 0#16 = addInv (ek.getD 50 0#16) := by
  simp [invertSubKeys, invertStepA, invertStepB, List.range, List.range.loop, ROUNDS]
theorem dk_3 (ek : Array (BitVec 16)) : (invertSubKeys ek).getD 3 0#16 = mulInv (ek.getD 51 0#16) := by
  simp [invertSubKeys, invertStepA, invertStepB, List.range, List.range.loop, ROUNDS]
theorem dk_4 (ek : Array (BitVec 16)) : (invertSubKeys ek).getD 4 0#16 = ek.getD 46 0#16 := by
  simp [invertSubKeys, invertStepA, invertStepB, List.range, List.range.loop, ROUNDS]
theorem dk_5 (ek : Array (BitVec 16)) : (invertSubKeys ek).getD 5 0#16 = ek.getD 47 0#16 := by
  simp [invertSubKeys, invertStepA, invertStepB, List.range, List.range.loop, ROUNDS]
theorem dk_6 (ek : Array (BitVec 16)) : (invertSubKeys ek).getD 6 0#16 = mulInv (ek.getD 42 0#16) := by
  simp [invertSubKeys, invertStepA, invertStepB, List.range, List.range.loop, ROUNDS]
theorem dk_7 (ek : Array (BitVec 16)) : (invertSubKeys ek).getD 7 0#16 = addInv (ek.getD 44 0#16) := by
  simp [invertSubKeys, invertStepA, invertStepB, List.range, List.range.loop, ROUNDS]
theorem dk_8 (ek : Array (BitVec 16)) : (invertSubKeys ek).getD 8 0#16 = addInv (ek.getD 43 0#16) := by
  simp [invertSubKeys, invertStepA, invertStepB, List.range, List.range.loop, ROUNDS]
theorem dk_9 (ek : Array (BitVec 16)) : (invertSubKeys ek).getD 9 0#16 = mulInv (ek.getD 45 0#16) := by
  simp [invertSubKeys, invertStepA, invertStepB, List.range, List.range.loop, ROUNDS]
theorem dk_10 (ek : Array (BitVec 16)) : (invertSubKeys ek).getD 10 0#16 = ek.getD 40 0#16 := by
  simp [invertSubKeys, invertStepA, invertStepB, List.range, List.range.loop, ROUNDS]
theorem dk_11 (ek : Array (BitVec 16)) : (invertSubKeys ek).getD 11 0#16 = ek.getD 41 0#16 := by
  simp [invertSubKeys, invertStepA, invertStepB, List.range, List.range.loop, ROUNDS]
theorem dk_12 (ek : Array (BitVec 16)) : (invertSubKeys ek).getD 12 0#16 = mulInv (ek.getD 36 0#16) := by
  simp [invertSubKeys, invertStepA, invertStepB, List.range, List.range.loop, ROUNDS]
theorem dk_13 (ek : Array (BitVec 16)) : (invertSubKeys ek).getD 13 0#16 = addInv (ek.getD 38 0#16) := by
  simp [invertSubKeys, invertStepA, invertStepB, List.range, List.range.loop, ROUNDS]
theorem dk_14 (ek : Array (BitVec 16)) : (invertSubKeys ek).getD 14 0#16 = addInv (ek.getD 37 0#16) := by
  simp [invertSubKeys, invertStepA, invertStepB, List.range, List.range.loop, ROUNDS]
theorem dk_15 (ek : Array (BitVec 16)) : (invertSubKeys ek).getD 15 0#16 = mulInv (ek.getD 39 0#16) := by
  simp [invertSubKeys, invertStepA, invertStepB, List.range, List.range.loop, ROUNDS]
theorem dk_16 (ek : Array (BitVec 16)) : (invertSubKeys ek).getD 16 0#16 = ek.getD 34 0#16 := by
  simp [invertSubKeys, invertStepA, invertStepB, List.range, List.range.loop, ROUNDS]
theorem dk_17 (ek : Array (BitVec 16)) : (invertSubKeys ek).getD 17 0#16 = ek.getD 35 0#16 := by
  simp [invertSubKeys, invertStepA, invertStepB, List.range, List.range.loop, ROUNDS]
theorem dk_18 (ek : Array (BitVec 16)) : (invertSubKeys ek).getD 18 0#16 = mulInv (ek.getD 30 0#16) := by
  simp [invertSubKeys, invertStepA, invertStepB, List.range, List.range.loop, ROUNDS]
theorem dk_19 (ek : Array (BitVec 16)) : (invertSubKeys ek).getD 19 0#16 = addInv (ek.getD 32 0#16) := by
  simp [invertSubKeys, invertStepA, invertStepB, List.range, List.range.loop, ROUNDS]
theorem dk_20 (ek : Array (BitVec 16)) : (invertSubKeys ek).getD 20 0#16 = addInv (ek.getD 31 0#16) := by
  simp [invertSubKeys, invertStepA, invertStepB, List.range, List.range.loop, ROUNDS]
theorem dk_21 (ek : Array (BitVec 16)) : (invertSubKeys ek).getD 21 0#16 = mulInv (ek.getD 33 0#16) := by
  simp [invertSubKeys, invertStepA, invertStepB, List.range, List.range.loop, ROUNDS]
theorem dk_22 (ek : Array (BitVec 16)) : (invertSubKeys ek).getD 22 0#16 = ek.getD 28 0#16 := by
  simp [invertSubKeys, invertStepA, invertStepB, List.range, List.range.loop, ROUNDS]
theorem dk_23 (ek : Array (BitVec 16)) : (invertSubKeys ek).getD 23 0#16 = ek.getD 29 0#16 := by
  simp [invertSubKeys, invertStepA, invertStepB, List.range, List.range.loop, ROUNDS]
theorem dk_24 (ek : Array (BitVec 16)) : (invertSubKeys ek).getD 24 0#16 = mulInv (ek.getD 24 0#16) := by
  simp [invertSubKeys, invertStepA, invertStepB, List.range, List.range.loop, ROUNDS]
theorem dk_25 (ek : Array (BitVec 16)) : (invertSubKeys ek).getD 25 0#16 = addInv (ek.getD 26 0#16) := by
  simp [invertSubKeys, invertStepA, invertStepB, List.range, List.range.loop, ROUNDS]
theorem dk_26 (ek : Array (BitVec 16)) : (invertSubKeys ek).getD 26 0#16 = addInv (ek.getD 25 0#16) := by
  simp [invertSubKeys, invertStepA, invertStepB, List.range, List.range.loop, ROUNDS]
theorem dk_27 (ek : Array (BitVec 16)) : (invertSubKeys ek).getD 27 0#16 = mulInv (ek.getD 27 0#16) := by
  simp [invertSubKeys, invertStepA, invertStepB, List.range, List.range.loop, ROUNDS]
theorem dk_28 (ek : Array (BitVec 16)) : (invertSubKeys ek).getD 28 0#16 = ek.getD 22 0#16 := by
  simp [invertSubKeys, invertStepA, invertStepB, List.range, List.range.loop, ROUNDS]
theorem dk_29 (ek : Array (BitVec 16)) : (invertSubKeys ek).getD 29 0#16 = ek.getD 23 0#16 := by
  simp [invertSubKeys, invertStepA, invertStepB, List.range, List.range.loop, ROUNDS]
theorem dk_30 (ek : Array (BitVec 16)) : (invertSubKeys ek).getD 30 0#16 = mulInv (ek.getD 18 0#16) := by
  simp [invertSubKeys, invertStepA, invertStepB, List.range, List.range.loop, ROUNDS]
theorem dk_31 (ek : Array (BitVec 16)) : (invertSubKeys ek).getD 31 0#16 = addInv (ek.getD 20 0#16) := by
  simp [invertSubKeys, invertStepA, invertStepB, List.range, List.range.loop, ROUNDS]
theorem dk_32 (ek : Array (BitVec 16)) : (invertSubKeys ek).getD 32 0#16 = addInv (ek.getD 19 0#16) := by
  simp [invertSubKeys, invertStepA, invertStepB, List.range, List.range.loop, ROUNDS]
theorem dk_33 (ek : Array (BitVec 16)) : (invertSubKeys ek).getD 33 0#16 = mulInv (ek.getD 21 0#16) := by
  simp [invertSubKeys, invertStepA, invertStepB, List.range, List.range.loop, ROUNDS]
theorem dk_34 (ek : Array (BitVec 16)) : (invertSubKeys ek).getD 34 0#16 = ek.getD 16 0#16 := by
  simp [invertSubKeys, invertStepA, invertStepB, List.range, List.range.loop, ROUNDS]
theorem dk_35 (ek : Array (BitVec 16)) : (invertSubKeys ek).getD 35 0#16 = ek.getD 17 0#16 := by
  simp [invertSubKeys, invertStepA, invertStepB, List.range, List.range.loop, ROUNDS]
theorem dk_36 (ek : Array (BitVec 16)) : (invertSubKeys ek).getD 36 0#16 = mulInv (ek.getD 12 0#16) := by
  simp [invertSubKeys, invertStepA, invertStepB, List.range, List.range.loop, ROUNDS]
theorem dk_37 (ek : Array (BitVec 16)) : (invertSubKeys ek).getD 37 0#16 = addInv (ek.getD 14 0#16) := by
  simp [invertSubKeys, invertStepA, invertStepB, List.range, List.range.loop, ROUNDS]
theorem dk_38 (ek : Array (BitVec 16)) : (invertSubKeys ek).getD 38 0#16 = addInv (ek.getD 13 0#16) := by
  simp [invertSubKeys, invertStepA, invertStepB, List.range, List.range.loop, ROUNDS]
theorem dk_39 (ek : Array (BitVec 16)) : (invertSubKeys ek).getD 39 0#16 = mulInv (ek.getD 15 0#16) := by
  simp [invertSubKeys, invertStepA, invertStepB, List.range, List.range.loop, ROUNDS]
theorem dk_40 (ek : Array (BitVec 16)) : (invertSubKeys ek).getD 40 0#16 = ek.getD 10 0#16 := by
  simp [invertSubKeys, invertStepA, invertStepB, List.range, List.range.loop, ROUNDS]
theorem dk_41 (ek : Array (BitVec 16)) : (invertSubKeys ek).getD 41 0#16 = ek.getD 11 0#16 := by
  simp [invertSubKeys, invertStepA, invertStepB, List.range, List.range.loop, ROUNDS]
theorem dk_42 (ek : Array (BitVec 16)) : (invertSubKeys ek).getD 42 0#16 = mulInv (ek.getD 6 0#16) := by
  simp [invertSubKeys, invertStepA, invertStepB, List.range, List.range.loop, ROUNDS]
theorem dk_43 (ek : Array (BitVec 16)) : (invertSubKeys ek).getD 43 0#16 = addInv (ek.getD 8 0#16) := by
  simp [invertSubKeys, invertStepA, invertStepB, List.range, List.range.loop, ROUNDS]
theorem dk_44 (ek : Array (BitVec 16)) : (invertSubKeys ek).getD 44 0#16 = addInv (ek.getD 7 0#16) := by
  simp [invertSubKeys, invertStepA, invertStepB, List.range, List.range.loop, ROUNDS]
theorem dk_45 (ek : Array (BitVec 16)) : (invertSubKeys ek).getD 45 0#16 = mulInv (ek.getD 9 0#16) := by
  simp [invertSubKeys, invertStepA, invertStepB, List.range, List.range.loop, ROUNDS]
theorem dk_46 (ek : Array (BitVec 16)) : (invertSubKeys ek).getD 46 0#16 = ek.getD 4 0#16 := by
  simp [invertSubKeys, invertStepA, invertStepB, List.range, List.range.loop, ROUNDS]
theorem dk_47 (ek : Array (BitVec 16)) : (invertSubKeys ek).getD 47 0#16 = ek.getD 5 0#16 := by
  simp [invertSubKeys, invertStepA, invertStepB, List.range, List.range.loop, ROUNDS]
theorem dk_48 (ek : Array (BitVec 16)) : (invertSubKeys ek).getD 48 0#16 = mulInv (ek.getD 0 0#16) := by
  simp [invertSubKeys, invertStepA, invertStepB, List.range, List.range.loop, ROUNDS]
theorem dk_49 (ek : Array (BitVec 16)) : (invertSubKeys ek).getD 49 0#16 = addInv (ek.getD 1 0#16) := by
  simp [invertSubKeys, invertStepA, invertStepB, List.range, List.range.loop, ROUNDS]
theorem dk_50 (ek : Array (BitVec 16)) : (invertSubKeys ek).getD 50 0#16 = addInv (ek.getD 2 0#16) := by
  simp [invertSubKeys, invertStepA, invertStepB, List.range, List.range.loop, ROUNDS]
theorem dk_51 (ek : Array (BitVec 16)) : (invertSubKeys ek).getD 51 0#16 = mulInv (ek.getD 3 0#16) := by
  simp [invertSubKeys, invertStepA, invertStepB, List.range, List.range.loop, ROUNDS]

/-! ### round trip for every sub-key array -/

set_option maxRecDepth 100000 in
theorem crypt_invert (ek : Array (BitVec 16)) (b : BitVec 64) :
    crypt (invertSubKeys ek) (crypt ek b) = b := by
  rw [crypt_eq (invertSubKeys ek), crypt_eq ek]
  simp only [dk_0, dk_1, dk_2, dk_3, dk_4, dk_5, dk_6, dk_7, dk_8, dk_9, dk_10, dk_11, dk_12, dk_13, dk_14, dk_15, dk_16, dk_17, dk_18, dk_19, dk_20, dk_21, dk_22, dk_23, dk_24, dk_25, dk_26, dk_27, dk_28, dk_29, dk_30, dk_31, dk_32, dk_33, dk_34, dk_35, dk_36, dk_37, dk_38, dk_39, dk_40, dk_41, dk_42, dk_43, dk_44, dk_45, dk_46, dk_47, dk_48, dk_49, dk_50, dk_51, load_store, roundK, finalK, T_S, S_S, M_invol, T_inv, store_load]

set_option maxRecDepth 100000 in
theorem crypt_invert' (ek : Array (BitVec 16)) (b : BitVec 64) :
    crypt ek (crypt (invertSubKeys ek) b) = b := by
  rw [crypt_eq (invertSubKeys ek), crypt_eq ek]
  simp only [dk_0, dk_1, dk_2, dk_3, dk_4, dk_5, dk_6, dk_7, dk_8, dk_9, dk_10, dk_11, dk_12, dk_13, dk_14, dk_15, dk_16, dk_17, dk_18, dk_19, dk_20, dk_21, dk_22, dk_23, dk_24, dk_25, dk_26, dk_27, dk_28, dk_29, dk_30, dk_31, dk_32, dk_33, dk_34, dk_35, dk_36, dk_37, dk_38, dk_39, dk_40, dk_41, dk_42, dk_43, dk_44, dk_45, dk_46, dk_47, dk_48, dk_49, dk_50, dk_51, load_store, roundK, finalK, T_S, S_S, M_invol, T_inv', store_load]

/-- C01 for IDEA: all 2^128 keys, all blocks -/
theorem decrypt_encrypt (key : BitVec 128) (b : BitVec 64) :
    decrypt (new key) (encrypt (new key) b) = b := by
  simp only [decrypt, encrypt, new]; exact crypt_invert _ b

theorem encrypt_decrypt (key : BitVec 128) (b : BitVec 64) :
    encrypt (new key) (decrypt (new key) b) = b := by
  simp only [decrypt, encrypt, new]; exact crypt_invert' _ b

end BC.Idea
