import BlockCiphers.Proofs.AesFs64Defs
import BlockCiphers.Proofs.AesFs64Gmul
import Std.Tactic.BVDecide

/-! C02 stage (ii): packing is linear and turns `shift_rows_k` into FIPS-197 ShiftRows^k. -/
namespace BC.AesFs64
set_option linter.unusedSimpArgs false
open BC.Spec.Aes

set_option maxRecDepth 1000000 in
theorem shift_rows_1_bitslice (b0 b1 b2 b3 : BitVec 128) :
    shift_rows_1 (bitslice b0 b1 b2 b3) =
      bitslice (shiftRows b0) (shiftRows b1) (shiftRows b2) (shiftRows b3) := by
  simp only [shift_rows_1,
    inv_shift_rows_1, inv_shift_rows_2, inv_shift_rows_3, shift_rows_1, shift_rows_2, shift_rows_3, St.map, shift_rows_1_w, shift_rows_2_w, shift_rows_3_w, delta_swap_1,
    mixColumns, invMixColumns, shiftRows, invShiftRows, gmul2, gmul3, gmul9, gmulB, gmulD, gmulE, xtime, ofFn, getB, range16, List.foldl,
    bitslice, index_swaps, delta_swap_2, read_reordered, byteOf, St.mk.injEq]
  bv_decide (config := { timeout := 1800 })

set_option maxRecDepth 1000000 in
theorem shift_rows_2_bitslice (b0 b1 b2 b3 : BitVec 128) :
    shift_rows_2 (bitslice b0 b1 b2 b3) =
      bitslice (shiftRows (shiftRows b0)) (shiftRows (shiftRows b1)) (shiftRows (shiftRows b2)) (shiftRows (shiftRows b3)) := by
  simp only [shift_rows_2,
    inv_shift_rows_1, inv_shift_rows_2, inv_shift_rows_3, shift_rows_1, shift_rows_2, shift_rows_3, St.map, shift_rows_1_w, shift_rows_2_w, shift_rows_3_w, delta_swap_1,
    mixColumns, invMixColumns, shiftRows, invShiftRows, gmul2, gmul3, gmul9, gmulB, gmulD, gmulE, xtime, ofFn, getB, range16, List.foldl,
    bitslice, index_swaps, delta_swap_2, read_reordered, byteOf, St.mk.injEq]
  bv_decide (config := { timeout := 1800 })

set_option maxRecDepth 1000000 in
theorem shift_rows_3_bitslice (b0 b1 b2 b3 : BitVec 128) :
    shift_rows_3 (bitslice b0 b1 b2 b3) =
      bitslice (invShiftRows b0) (invShiftRows b1) (invShiftRows b2) (invShiftRows b3) := by
  simp only [shift_rows_3,
    inv_shift_rows_1, inv_shift_rows_2, inv_shift_rows_3, shift_rows_1, shift_rows_2, shift_rows_3, St.map, shift_rows_1_w, shift_rows_2_w, shift_rows_3_w, delta_swap_1,
    mixColumns, invMixColumns, shiftRows, invShiftRows, gmul2, gmul3, gmul9, gmulB, gmulD, gmulE, xtime, ofFn, getB, range16, List.foldl,
    bitslice, index_swaps, delta_swap_2, read_reordered, byteOf, St.mk.injEq]
  bv_decide (config := { timeout := 1800 })

set_option maxRecDepth 1000000 in
/-- start of decryption: the packed state read as representation 3 -/
theorem bitslice_eq_rep3 (b0 b1 b2 b3 : BitVec 128) :
    bitslice b0 b1 b2 b3 =
      inv_shift_rows_3 (bitslice (invShiftRows b0) (invShiftRows b1) (invShiftRows b2) (invShiftRows b3)) := by
  simp only [shift_rows_1,
    inv_shift_rows_1, inv_shift_rows_2, inv_shift_rows_3, shift_rows_1, shift_rows_2, shift_rows_3, St.map, shift_rows_1_w, shift_rows_2_w, shift_rows_3_w, delta_swap_1,
    mixColumns, invMixColumns, shiftRows, invShiftRows, gmul2, gmul3, gmul9, gmulB, gmulD, gmulE, xtime, ofFn, getB, range16, List.foldl,
    bitslice, index_swaps, delta_swap_2, read_reordered, byteOf, St.mk.injEq]
  bv_decide (config := { timeout := 1800 })

set_option maxRecDepth 1000000 in
theorem sub_bytes_nots_bitslice (b0 b1 b2 b3 : BitVec 128) :
    sub_bytes_nots (bitslice b0 b1 b2 b3) =
      bitslice (b0 ^^^ c63) (b1 ^^^ c63) (b2 ^^^ c63) (b3 ^^^ c63) := by
  simp only [sub_bytes_nots, c63,
    inv_shift_rows_1, inv_shift_rows_2, inv_shift_rows_3, shift_rows_1, shift_rows_2, shift_rows_3, St.map, shift_rows_1_w, shift_rows_2_w, shift_rows_3_w, delta_swap_1,
    mixColumns, invMixColumns, shiftRows, invShiftRows, gmul2, gmul3, gmul9, gmulB, gmulD, gmulE, xtime, ofFn, getB, range16, List.foldl,
    bitslice, index_swaps, delta_swap_2, read_reordered, byteOf, St.mk.injEq]
  bv_decide (config := { timeout := 1800 })

set_option maxRecDepth 1000000 in
theorem add_round_key_bitslice (b0 b1 b2 b3 k0 k1 k2 k3 : BitVec 128) :
    add_round_key (bitslice b0 b1 b2 b3) (bitslice k0 k1 k2 k3) =
      bitslice (b0 ^^^ k0) (b1 ^^^ k1) (b2 ^^^ k2) (b3 ^^^ k3) := by
  simp only [add_round_key, St.zip, bitslice, index_swaps, delta_swap_2, read_reordered, byteOf, St.mk.injEq]
  bv_decide (config := { timeout := 1800 })

end BC.AesFs64
