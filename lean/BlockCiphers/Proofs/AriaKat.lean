import BlockCiphers.Impl.Aria
/-
Known-answer vectors of RFC 5794 Appendix A.1 (128-bit key), A.2 (192-bit key), A.3 (256-bit key)
— the same as /repo/aria/tests/mod.rs — evaluated by the Lean kernel on the model of the Rust code, both
directions (the same vectors on the RFC specification: AriaSpecKat.lean).
-/
namespace BC.Aria.Kat

def K128 : BitVec 128 := 0x000102030405060708090a0b0c0d0e0f#128
def K192 : BitVec 192 := 0x000102030405060708090a0b0c0d0e0f1011121314151617#192
def K256 : BitVec 256 := 0x000102030405060708090a0b0c0d0e0f101112131415161718191a1b1c1d1e1f#256
def P : BitVec 128 := 0x00112233445566778899aabbccddeeff#128
def C128 : BitVec 128 := 0xd718fbd6ab644c739da95f3be6451778#128
def C192 : BitVec 128 := 0x26449c1805dbe7aa25a468ce263a9e79#128
def C256 : BitVec 128 := 0xf92bd7c79fb72e2f2b8f80c1972d24fc#128

example : Aria.encrypt128 K128 P = C128 := by decide +kernel
example : Aria.decrypt128 K128 C128 = P := by decide +kernel
example : Aria.encrypt192 K192 P = C192 := by decide +kernel
example : Aria.decrypt192 K192 C192 = P := by decide +kernel
example : Aria.encrypt256 K256 P = C256 := by decide +kernel
example : Aria.decrypt256 K256 C256 = P := by decide +kernel

end BC.Aria.Kat
