import Std.Tactic.BVDecide
import BlockCiphers.Proofs.AesNi
import BlockCiphers.Models.Aes
/-
The C02 / C01 / C13 theorems of `Proofs/AesNi.lean` restated for keys given as byte strings — the form in
which `Models/Aes.lean` (and the Rust `new_from_slice`) receive them — and the registry-level facts:
which key lengths are accepted, and what the nine registry entries compute.
-/
namespace BC.AesNi
open BC BC.X86 BC.Spec.Aes

theorem mul256 (w : Nat) (x : BitVec w) : x * 256#w = x <<< 8 := by
  apply BitVec.eq_of_toNat_eq
  simp [BitVec.toNat_mul, BitVec.toNat_shiftLeft, Nat.shiftLeft_eq]

theorem unpack_pack16 (k : Bytes) (h : k.length = 16) : unpackBE 16 (packBE 16 k) = k := by
  match k, h with
  | [a0, a1, a2, a3, a4, a5, a6, a7, a8, a9, a10, a11, a12, a13, a14, a15], _ =>
    simp only [packBE, bytesToNat, List.foldl_cons, List.foldl_nil, BitVec.ofNat_add, BitVec.ofNat_mul, BitVec.ofNat_toNat,
      unpackBE, range16, List.map_cons, List.map_nil, Nat.reduceSub, Nat.reduceMul, List.cons.injEq, and_true, mul256]
    refine ⟨?_, ?_, ?_, ?_, ?_, ?_, ?_, ?_, ?_, ?_, ?_, ?_, ?_, ?_, ?_, ?_⟩ <;> bv_decide (config := { timeout := 600 })

theorem unpack_pack24 (k : Bytes) (h : k.length = 24) : unpackBE 24 (packBE 24 k) = k := by
  match k, h with
  | [a0, a1, a2, a3, a4, a5, a6, a7, a8, a9, a10, a11, a12, a13, a14, a15, a16, a17, a18, a19, a20, a21, a22, a23], _ =>
    simp only [packBE, bytesToNat, List.foldl_cons, List.foldl_nil, BitVec.ofNat_add, BitVec.ofNat_mul, BitVec.ofNat_toNat,
      unpackBE, range24, List.map_cons, List.map_nil, Nat.reduceSub, Nat.reduceMul, List.cons.injEq, and_true, mul256]
    refine ⟨?_, ?_, ?_, ?_, ?_, ?_, ?_, ?_, ?_, ?_, ?_, ?_, ?_, ?_, ?_, ?_, ?_, ?_, ?_, ?_, ?_, ?_, ?_, ?_⟩ <;> bv_decide (config := { timeout := 600 })

theorem unpack_pack32 (k : Bytes) (h : k.length = 32) : unpackBE 32 (packBE 32 k) = k := by
  match k, h with
  | [a0, a1, a2, a3, a4, a5, a6, a7, a8, a9, a10, a11, a12, a13, a14, a15, a16, a17, a18, a19, a20, a21, a22, a23,
     a24, a25, a26, a27, a28, a29, a30, a31], _ =>
    simp only [packBE, bytesToNat, List.foldl_cons, List.foldl_nil, BitVec.ofNat_add, BitVec.ofNat_mul, BitVec.ofNat_toNat,
      unpackBE, range32, List.map_cons, List.map_nil, Nat.reduceSub, Nat.reduceMul, List.cons.injEq, and_true, mul256]
    refine ⟨?_, ?_, ?_, ?_, ?_, ?_, ?_, ?_, ?_, ?_, ?_, ?_, ?_, ?_, ?_, ?_, ?_, ?_, ?_, ?_, ?_, ?_, ?_, ?_,
      ?_, ?_, ?_, ?_, ?_, ?_, ?_, ?_⟩ <;> bv_decide (config := { timeout := 600 })

/-! ### C02 / C01 on byte-string keys -/

theorem encrypt128_bytes (key : Bytes) (h : key.length = 16) (b : BitVec 128) :
    encrypt128 (packBE 16 key) b = Spec.Aes.encrypt key b := by
  rw [encrypt128_eq_spec, unpack_pack16 key h]
theorem decrypt128_bytes (key : Bytes) (h : key.length = 16) (b : BitVec 128) :
    decrypt128 (packBE 16 key) b = Spec.Aes.decrypt key b := by
  rw [decrypt128_eq_spec, unpack_pack16 key h]
theorem encrypt192_bytes (key : Bytes) (h : key.length = 24) (b : BitVec 128) :
    encrypt192 (packBE 24 key) b = Spec.Aes.encrypt key b := by
  rw [encrypt192_eq_spec, unpack_pack24 key h]
theorem decrypt192_bytes (key : Bytes) (h : key.length = 24) (b : BitVec 128) :
    decrypt192 (packBE 24 key) b = Spec.Aes.decrypt key b := by
  rw [decrypt192_eq_spec, unpack_pack24 key h]
theorem encrypt256_bytes (key : Bytes) (h : key.length = 32) (b : BitVec 128) :
    encrypt256 (packBE 32 key) b = Spec.Aes.encrypt key b := by
  rw [encrypt256_eq_spec, unpack_pack32 key h]
theorem decrypt256_bytes (key : Bytes) (h : key.length = 32) (b : BitVec 128) :
    decrypt256 (packBE 32 key) b = Spec.Aes.decrypt key b := by
  rw [decrypt256_eq_spec, unpack_pack32 key h]

/-! ### the registry entries (`Models/Aes.lean`) -/

open BC.Models.Aes

/-- `new_from_slice` accepts exactly the key length of the family (C11 for the AES types) -/
theorem newEnc_isSome (f : Fam) (k : Bytes) : (newEnc f k).isSome ↔ k.length = f.keyLen := by
  unfold newEnc
  by_cases h : k.length = f.keyLen
  · cases f <;> simp [h]
  · simp [h]

/-- what an accepted key produces, per family: the combined type computes FIPS-197 in both directions -/
theorem newCombined_spec (f : Fam) (k : Bytes) (h : k.length = f.keyLen) :
    ∃ c, newCombined f k = some c ∧
      (∀ b, c.encrypt_block b = Spec.Aes.encrypt k b) ∧ (∀ b, c.decrypt_block b = Spec.Aes.decrypt k b) := by
  cases f
  · have h16 : k.length = 16 := h
    exact ⟨Combined.new128 (packBE 16 k), by simp [newCombined, newEnc, h16, Fam.keyLen, Combined.new128],
      fun b => encrypt128_bytes k h16 b, fun b => decrypt128_bytes k h16 b⟩
  · have h24 : k.length = 24 := h
    exact ⟨Combined.new192 (packBE 24 k), by simp [newCombined, newEnc, h24, Fam.keyLen, Combined.new192],
      fun b => encrypt192_bytes k h24 b, fun b => decrypt192_bytes k h24 b⟩
  · have h32 : k.length = 32 := h
    exact ⟨Combined.new256 (packBE 32 k), by simp [newCombined, newEnc, h32, Fam.keyLen, Combined.new256],
      fun b => encrypt256_bytes k h32 b, fun b => decrypt256_bytes k h32 b⟩

/-- C12 at the registry level: the Enc-only and Dec-only instances of a key are the two halves of the
combined instance (so they encrypt / decrypt exactly like it) -/
theorem newEnc_newDec_halves (f : Fam) (k : Bytes) :
    newCombined f k = (newEnc f k).map (fun e => { encrypt := e, decrypt := Dec.fromEnc e }) ∧
    newDec f k = (newCombined f k).map (·.decrypt) ∧
    newEnc f k = (newCombined f k).map (·.encrypt) := by
  unfold newCombined newDec
  cases newEnc f k <;> simp [Combined.fromEnc]

/-- C13 at the registry level -/
theorem weakOf_iff (f : Fam) (k : Bytes) :
    weakOf f k = WeakRes.weak ↔
      match f with
      | .a128 => (packBE 16 k).extractLsb' 64 64 = 0#64
      | .a192 => (packBE 24 k).extractLsb' 96 96 = 0#96
      | .a256 => (packBE 32 k).extractLsb' 128 128 = 0#128 := by
  cases f
  · exact weak_key_test128_iff _
  · exact weak_key_test192_iff _
  · exact weak_key_test256_iff _

end BC.AesNi
