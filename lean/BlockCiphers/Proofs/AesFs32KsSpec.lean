import BlockCiphers.Proofs.AesFs32Defs
import BlockCiphers.Proofs.AesFs32KeyExp
import BlockCiphers.Proofs.AesFs32KsLin
import Std.Tactic.BVDecide
/-!
FIPS-197 KeyExpansion, round key to round key (Spec-level; `sboxT` stays uninterpreted):
* Nk = 4: `roundKey W (r+1) = linKS true (rcon (r+1)) (roundKey W r) (subBytes (roundKey W r))`
* Nk = 8: `roundKey W (r+2) = linKS (r even) (rcon ((r+2)/2) | 0) (roundKey W r) (subBytes (roundKey W (r+1)))`
-/
namespace BC.AesFs32
open BC.Spec.Aes
set_option linter.unusedSimpArgs false

set_option maxRecDepth 100000 in
/-- SubWord of the last word = last word of SubBytes -/
theorem subWord_last (K : BitVec 128) : subWord (K.extractLsb' 0 32) = (subBytes K).extractLsb' 0 32 := by
  have a0 : (K.extractLsb' 0 32).extractLsb' 24 8 = (K >>> 24).setWidth 8 := by bv_decide (config := { timeout := 600 })
  have a1 : (K.extractLsb' 0 32).extractLsb' 16 8 = (K >>> 16).setWidth 8 := by bv_decide (config := { timeout := 600 })
  have a2 : (K.extractLsb' 0 32).extractLsb' 8 8 = (K >>> 8).setWidth 8 := by bv_decide (config := { timeout := 600 })
  have a3 : (K.extractLsb' 0 32).extractLsb' 0 8 = (K >>> 0).setWidth 8 := by bv_decide (config := { timeout := 600 })
  simp only [subWord, a0, a1, a2, a3, subBytes, ofFn, range16, List.foldl, getB, Nat.reduceSub, Nat.reduceMul]
  bv_decide (config := { timeout := 600 })

theorem subWord_rotWord (w : BitVec 32) : subWord (rotWord w) = (subWord w).rotateLeft 8 := by
  have b0 : (w.rotateLeft 8).extractLsb' 24 8 = w.extractLsb' 16 8 := by bv_decide (config := { timeout := 600 })
  have b1 : (w.rotateLeft 8).extractLsb' 16 8 = w.extractLsb' 8 8 := by bv_decide (config := { timeout := 600 })
  have b2 : (w.rotateLeft 8).extractLsb' 8 8 = w.extractLsb' 0 8 := by bv_decide (config := { timeout := 600 })
  have b3 : (w.rotateLeft 8).extractLsb' 0 8 = w.extractLsb' 24 8 := by bv_decide (config := { timeout := 600 })
  simp only [subWord, rotWord, b0, b1, b2, b3]
  bv_decide (config := { timeout := 600 })

theorem kx_rec4 (key : List (BitVec 32)) (hk : key.length = 4) (i : Nat) (h1 : 4 ≤ i) (h2 : i < 44) :
    (kxA 4 key 40).getD i 0 =
      (kxA 4 key 40).getD (i - 4) 0 ^^^ kxTemp 4 i ((kxA 4 key 40).getD (i - 1) 0) := by
  have := kxA_getD_rec key i 40 (by omega) (by omega) (by omega)
  rwa [hk] at this

theorem kx_rec8 (key : List (BitVec 32)) (hk : key.length = 8) (i : Nat) (h1 : 8 ≤ i) (h2 : i < 60) :
    (kxA 8 key 52).getD i 0 =
      (kxA 8 key 52).getD (i - 8) 0 ^^^ kxTemp 8 i ((kxA 8 key 52).getD (i - 1) 0) := by
  have := kxA_getD_rec key i 52 (by omega) (by omega) (by omega)
  rwa [hk] at this

/-- the word-level content of `linKS` on four words (closed, for `bv_decide (config := { timeout := 600 })`) -/
theorem linKS_words (rot : Bool) (rc a b c d : BitVec 32) (Y : BitVec 128) (t : BitVec 32)
    (ht : t = (if rot then (Y.extractLsb' 0 32).rotateLeft 8 else Y.extractLsb' 0 32) ^^^ rc) :
    (a ^^^ t) ++ (b ^^^ (a ^^^ t)) ++ (c ^^^ (b ^^^ (a ^^^ t))) ++ (d ^^^ (c ^^^ (b ^^^ (a ^^^ t)))) =
      linKS rot rc (a ++ b ++ c ++ d) Y := by
  subst ht
  cases rot <;> simp only [linKS, if_true, if_false, Bool.false_eq_true] <;> bv_decide (config := { timeout := 600 })

theorem last_word (a b c d : BitVec 32) : (a ++ b ++ c ++ d).extractLsb' 0 32 = d := by bv_decide (config := { timeout := 600 })

/-- AES-128: each round key from the previous one -/
theorem roundKey_succ_128 (key : List (BitVec 32)) (hk : key.length = 4) (r : Nat) (hr : r < 10) :
    roundKey (keyExpansion 4 10 key) (r + 1) =
      linKS true (rcon (r + 1)) (roundKey (keyExpansion 4 10 key) r) (subBytes (roundKey (keyExpansion 4 10 key) r)) := by
  rw [keyExpansion_eq_kxA]
  have g0 := kx_rec4 key hk (4 * (r + 1)) (by omega) (by omega)
  have g1 := kx_rec4 key hk (4 * (r + 1) + 1) (by omega) (by omega)
  have g2 := kx_rec4 key hk (4 * (r + 1) + 2) (by omega) (by omega)
  have g3 := kx_rec4 key hk (4 * (r + 1) + 3) (by omega) (by omega)
  have e0 : 4 * (r + 1) - 4 = 4 * r := by omega
  have e1 : 4 * (r + 1) + 1 - 4 = 4 * r + 1 := by omega
  have e2 : 4 * (r + 1) + 2 - 4 = 4 * r + 2 := by omega
  have e3 : 4 * (r + 1) + 3 - 4 = 4 * r + 3 := by omega
  have f0 : 4 * (r + 1) - 1 = 4 * r + 3 := by omega
  have f1 : 4 * (r + 1) + 1 - 1 = 4 * (r + 1) := by omega
  have f2 : 4 * (r + 1) + 2 - 1 = 4 * (r + 1) + 1 := by omega
  have f3 : 4 * (r + 1) + 3 - 1 = 4 * (r + 1) + 2 := by omega
  have m0 : 4 * (r + 1) % 4 = 0 := by omega
  have m1 : (4 * (r + 1) + 1) % 4 = 1 := by omega
  have m2 : (4 * (r + 1) + 2) % 4 = 2 := by omega
  have m3 : (4 * (r + 1) + 3) % 4 = 3 := by omega
  have d0 : 4 * (r + 1) / 4 = r + 1 := by omega
  simp only [kxTemp, e0, e1, e2, e3, f0, f1, f2, f3, m0, m1, m2, m3, d0, if_true, if_false,
    Nat.reduceEqDiff, Nat.reduceGT, false_and, Nat.succ_ne_self, reduceCtorEq,
    Nat.reduceSub, Nat.reduceMul, Nat.reduceAdd] at g0 g1 g2 g3
  have s40 : 4 * (10 + 1) - 4 = 40 := by omega
  rw [s40]
  simp only [roundKey]
  rw [g3, g2, g1, g0]
  rw [subWord_rotWord]
  have hd := last_word ((kxA 4 key 40).getD (4 * r) 0) ((kxA 4 key 40).getD (4 * r + 1) 0)
    ((kxA 4 key 40).getD (4 * r + 2) 0) ((kxA 4 key 40).getD (4 * r + 3) 0)
  have hs := subWord_last ((kxA 4 key 40).getD (4 * r) 0 ++ (kxA 4 key 40).getD (4 * r + 1) 0 ++
    (kxA 4 key 40).getD (4 * r + 2) 0 ++ (kxA 4 key 40).getD (4 * r + 3) 0)
  rw [hd] at hs
  rw [hs]
  exact linKS_words true _ _ _ _ _ _ _ rfl

end BC.AesFs32
