import BlockCiphers.Proofs.AesFs32Arr
import BlockCiphers.Proofs.AesFs32Ks192Spec
import BlockCiphers.Proofs.AesFs32CommSB
import BlockCiphers.Proofs.AesFs32KeyForm
/-!
C02 stage (v), AES-192: the loop of `aes192_key_schedule` computes the FIPS-197 round keys
`roundKey (keyExpansion 6 12 key) r`, r = 0..12, packed with the same key in all two lanes.
-/
namespace BC.AesFs32
open BC.Spec.Aes
set_option linter.unusedSimpArgs false

/-- what one iteration of the loop produces: three round keys and the next `tmp` -/
structure K3 where
  r1 : St
  r2 : St
  r3 : St
  t : St

/-- the loop body of `aes192_key_schedule` as a function of the previous round key `r0`, `tmp` and `rcon` -/
def ks192Body (r0 t : St) (rcon : Nat) : K3 :=
  let x := St.zip ks192_A t r0
  let tb := add_round_constant_bit (sub_bytes_nots (sub_bytes t)) rcon
  let r1 := St.zip ks192_B x tb
  let r2 := St.zip ks192_C r0 r1
  let tc := add_round_constant_bit (sub_bytes_nots (sub_bytes r2)) (rcon + 1)
  let r3 := St.zip3 ks192_D r1 r2 tc
  ⟨r1, r2, r3, St.zip ks192_E r3 r2⟩

def ks192J (key : BitVec 192) : Nat → K3
  | 0 => ks192Body (bitslice (key192_lo key) (key192_lo key))
      (bitslice (key192_hi key) (key192_hi key)) 0
  | j + 1 => ks192Body (ks192J key j).r3 (ks192J key j).t (2 * (j + 1))

/-- the six big-endian words of a 24-byte key -/
def words192 (key : BitVec 192) : List (BitVec 32) :=
  [key.extractLsb' 160 32, key.extractLsb' 128 32, key.extractLsb' 96 32, key.extractLsb' 64 32,
   key.extractLsb' 32 32, key.extractLsb' 0 32]

/-- FIPS-197 round key `r` of a 192-bit key -/
def rk192 (key : BitVec 192) (r : Nat) : BitVec 128 := roundKey (keyExpansion 6 12 (words192 key)) r

theorem rk192_eq (key : BitVec 192) (r : Nat) : roundKey (kxA 6 (words192 key) 46) r = rk192 key r := rfl

theorem W6_init (key : BitVec 192) :
    W6 (words192 key) 0 = key.extractLsb' 160 32 ∧ W6 (words192 key) 1 = key.extractLsb' 128 32 ∧
    W6 (words192 key) 2 = key.extractLsb' 96 32 ∧ W6 (words192 key) 3 = key.extractLsb' 64 32 ∧
    W6 (words192 key) 4 = key.extractLsb' 32 32 ∧ W6 (words192 key) 5 = key.extractLsb' 0 32 := by
  simp only [W6, words192]
  rw [kxA_getD_init _ _ _ _ (by simp), kxA_getD_init _ _ _ _ (by simp), kxA_getD_init _ _ _ _ (by simp),
    kxA_getD_init _ _ _ _ (by simp), kxA_getD_init _ _ _ _ (by simp), kxA_getD_init _ _ _ _ (by simp)]
  simp

theorem rk192_zero (key : BitVec 192) : rk192 key 0 = key192_lo key := by
  obtain ⟨w0, w1, w2, w3, w4, w5⟩ := W6_init key
  rw [← rk192_eq, roundKey_W6]
  simp only [Nat.reduceMul, Nat.reduceAdd, w0, w1, w2, w3, key192_lo]
  bv_decide (config := { timeout := 600 })

theorem key192_hi_words (key : BitVec 192) :
    key192_hi key = W6 (words192 key) 2 ++ W6 (words192 key) 3 ++ W6 (words192 key) 4 ++ W6 (words192 key) 5 := by
  obtain ⟨w0, w1, w2, w3, w4, w5⟩ := W6_init key
  simp only [w2, w3, w4, w5, key192_hi]
  bv_decide (config := { timeout := 600 })

theorem rcon_vals8 : rcon 1 = 0x01000000#32 ∧ rcon 2 = 0x02000000#32 ∧ rcon 3 = 0x04000000#32 ∧
    rcon 4 = 0x08000000#32 ∧ rcon 5 = 0x10000000#32 ∧ rcon 6 = 0x20000000#32 ∧ rcon 7 = 0x40000000#32 ∧
    rcon 8 = 0x80000000#32 := by decide


theorem ks192_iter_0 (key : BitVec 192) (r0 t : St) (a b : BitVec 32)
    (hR0 : r0 = bitslice (rk192 key 0) (rk192 key 0))
    (hT : t = bitslice (a ++ b ++ W6 (words192 key) 4 ++ W6 (words192 key) 5) (a ++ b ++ W6 (words192 key) 4 ++ W6 (words192 key) 5)) :
    (ks192Body r0 t 0).r1 = bitslice (rk192 key 1) (rk192 key 1) ∧
    (ks192Body r0 t 0).r2 = bitslice (rk192 key 2) (rk192 key 2) ∧
    (ks192Body r0 t 0).r3 = bitslice (rk192 key 3) (rk192 key 3) ∧
    (ks192Body r0 t 0).t = bitslice (W6 (words192 key) 8 ++ W6 (words192 key) 9 ++ W6 (words192 key) 16 ++ W6 (words192 key) 17) (W6 (words192 key) 8 ++ W6 (words192 key) 9 ++ W6 (words192 key) 16 ++ W6 (words192 key) 17) := by
  obtain ⟨s1, s2, s3, s4⟩ := iter192_spec (words192 key) rfl 0 (by omega) a b
  obtain ⟨c1, c2, c3, c4, c5, c6, c7, c8⟩ := rcon_vals8
  simp only [Nat.reduceMul, Nat.reduceAdd, c1, c2, rk192_eq] at s1 s2 s3 s4
  subst hR0 hT
  have e1 : (ks192Body (bitslice (rk192 key 0) (rk192 key 0)) (bitslice (a ++ b ++ W6 (words192 key) 4 ++ W6 (words192 key) 5) (a ++ b ++ W6 (words192 key) 4 ++ W6 (words192 key) 5)) 0).r1 = bitslice (rk192 key 1) (rk192 key 1) := by
    simp only [ks192Body]
    rw [ks192_A_bitslice, sub_bytes_rep0, sub_bytes_nots_invol, ks192_B_bitslice_0, s1]
  have e2 : (ks192Body (bitslice (rk192 key 0) (rk192 key 0)) (bitslice (a ++ b ++ W6 (words192 key) 4 ++ W6 (words192 key) 5) (a ++ b ++ W6 (words192 key) 4 ++ W6 (words192 key) 5)) 0).r2 = bitslice (rk192 key 2) (rk192 key 2) := by
    have u : (ks192Body (bitslice (rk192 key 0) (rk192 key 0)) (bitslice (a ++ b ++ W6 (words192 key) 4 ++ W6 (words192 key) 5) (a ++ b ++ W6 (words192 key) 4 ++ W6 (words192 key) 5)) 0).r2 =
        St.zip ks192_C (bitslice (rk192 key 0) (rk192 key 0)) (ks192Body (bitslice (rk192 key 0) (rk192 key 0)) (bitslice (a ++ b ++ W6 (words192 key) 4 ++ W6 (words192 key) 5) (a ++ b ++ W6 (words192 key) 4 ++ W6 (words192 key) 5)) 0).r1 := rfl
    rw [u, e1, ks192_C_bitslice, s2]
  have e3 : (ks192Body (bitslice (rk192 key 0) (rk192 key 0)) (bitslice (a ++ b ++ W6 (words192 key) 4 ++ W6 (words192 key) 5) (a ++ b ++ W6 (words192 key) 4 ++ W6 (words192 key) 5)) 0).r3 = bitslice (rk192 key 3) (rk192 key 3) := by
    have u : (ks192Body (bitslice (rk192 key 0) (rk192 key 0)) (bitslice (a ++ b ++ W6 (words192 key) 4 ++ W6 (words192 key) 5) (a ++ b ++ W6 (words192 key) 4 ++ W6 (words192 key) 5)) 0).r3 =
        St.zip3 ks192_D (ks192Body (bitslice (rk192 key 0) (rk192 key 0)) (bitslice (a ++ b ++ W6 (words192 key) 4 ++ W6 (words192 key) 5) (a ++ b ++ W6 (words192 key) 4 ++ W6 (words192 key) 5)) 0).r1
          (ks192Body (bitslice (rk192 key 0) (rk192 key 0)) (bitslice (a ++ b ++ W6 (words192 key) 4 ++ W6 (words192 key) 5) (a ++ b ++ W6 (words192 key) 4 ++ W6 (words192 key) 5)) 0).r2
          (add_round_constant_bit (sub_bytes_nots (sub_bytes (ks192Body (bitslice (rk192 key 0) (rk192 key 0)) (bitslice (a ++ b ++ W6 (words192 key) 4 ++ W6 (words192 key) 5) (a ++ b ++ W6 (words192 key) 4 ++ W6 (words192 key) 5)) 0).r2)) 1) := rfl
    rw [u, e1, e2, sub_bytes_rep0, sub_bytes_nots_invol, ks192_D_bitslice_1, s3]
  have e4 : (ks192Body (bitslice (rk192 key 0) (rk192 key 0)) (bitslice (a ++ b ++ W6 (words192 key) 4 ++ W6 (words192 key) 5) (a ++ b ++ W6 (words192 key) 4 ++ W6 (words192 key) 5)) 0).t = bitslice (W6 (words192 key) 8 ++ W6 (words192 key) 9 ++ W6 (words192 key) 16 ++ W6 (words192 key) 17) (W6 (words192 key) 8 ++ W6 (words192 key) 9 ++ W6 (words192 key) 16 ++ W6 (words192 key) 17) := by
    have u : (ks192Body (bitslice (rk192 key 0) (rk192 key 0)) (bitslice (a ++ b ++ W6 (words192 key) 4 ++ W6 (words192 key) 5) (a ++ b ++ W6 (words192 key) 4 ++ W6 (words192 key) 5)) 0).t =
        St.zip ks192_E (ks192Body (bitslice (rk192 key 0) (rk192 key 0)) (bitslice (a ++ b ++ W6 (words192 key) 4 ++ W6 (words192 key) 5) (a ++ b ++ W6 (words192 key) 4 ++ W6 (words192 key) 5)) 0).r3
          (ks192Body (bitslice (rk192 key 0) (rk192 key 0)) (bitslice (a ++ b ++ W6 (words192 key) 4 ++ W6 (words192 key) 5) (a ++ b ++ W6 (words192 key) 4 ++ W6 (words192 key) 5)) 0).r2 := rfl
    rw [u, e2, e3, ks192_E_bitslice, s4 (by omega)]
  exact ⟨e1, e2, e3, e4⟩

theorem ks192_iter_1 (key : BitVec 192) (r0 t : St) (a b : BitVec 32)
    (hR0 : r0 = bitslice (rk192 key 3) (rk192 key 3))
    (hT : t = bitslice (a ++ b ++ W6 (words192 key) 16 ++ W6 (words192 key) 17) (a ++ b ++ W6 (words192 key) 16 ++ W6 (words192 key) 17)) :
    (ks192Body r0 t 2).r1 = bitslice (rk192 key 4) (rk192 key 4) ∧
    (ks192Body r0 t 2).r2 = bitslice (rk192 key 5) (rk192 key 5) ∧
    (ks192Body r0 t 2).r3 = bitslice (rk192 key 6) (rk192 key 6) ∧
    (ks192Body r0 t 2).t = bitslice (W6 (words192 key) 20 ++ W6 (words192 key) 21 ++ W6 (words192 key) 28 ++ W6 (words192 key) 29) (W6 (words192 key) 20 ++ W6 (words192 key) 21 ++ W6 (words192 key) 28 ++ W6 (words192 key) 29) := by
  obtain ⟨s1, s2, s3, s4⟩ := iter192_spec (words192 key) rfl 1 (by omega) a b
  obtain ⟨c1, c2, c3, c4, c5, c6, c7, c8⟩ := rcon_vals8
  simp only [Nat.reduceMul, Nat.reduceAdd, c3, c4, rk192_eq] at s1 s2 s3 s4
  subst hR0 hT
  have e1 : (ks192Body (bitslice (rk192 key 3) (rk192 key 3)) (bitslice (a ++ b ++ W6 (words192 key) 16 ++ W6 (words192 key) 17) (a ++ b ++ W6 (words192 key) 16 ++ W6 (words192 key) 17)) 2).r1 = bitslice (rk192 key 4) (rk192 key 4) := by
    simp only [ks192Body]
    rw [ks192_A_bitslice, sub_bytes_rep0, sub_bytes_nots_invol, ks192_B_bitslice_2, s1]
  have e2 : (ks192Body (bitslice (rk192 key 3) (rk192 key 3)) (bitslice (a ++ b ++ W6 (words192 key) 16 ++ W6 (words192 key) 17) (a ++ b ++ W6 (words192 key) 16 ++ W6 (words192 key) 17)) 2).r2 = bitslice (rk192 key 5) (rk192 key 5) := by
    have u : (ks192Body (bitslice (rk192 key 3) (rk192 key 3)) (bitslice (a ++ b ++ W6 (words192 key) 16 ++ W6 (words192 key) 17) (a ++ b ++ W6 (words192 key) 16 ++ W6 (words192 key) 17)) 2).r2 =
        St.zip ks192_C (bitslice (rk192 key 3) (rk192 key 3)) (ks192Body (bitslice (rk192 key 3) (rk192 key 3)) (bitslice (a ++ b ++ W6 (words192 key) 16 ++ W6 (words192 key) 17) (a ++ b ++ W6 (words192 key) 16 ++ W6 (words192 key) 17)) 2).r1 := rfl
    rw [u, e1, ks192_C_bitslice, s2]
  have e3 : (ks192Body (bitslice (rk192 key 3) (rk192 key 3)) (bitslice (a ++ b ++ W6 (words192 key) 16 ++ W6 (words192 key) 17) (a ++ b ++ W6 (words192 key) 16 ++ W6 (words192 key) 17)) 2).r3 = bitslice (rk192 key 6) (rk192 key 6) := by
    have u : (ks192Body (bitslice (rk192 key 3) (rk192 key 3)) (bitslice (a ++ b ++ W6 (words192 key) 16 ++ W6 (words192 key) 17) (a ++ b ++ W6 (words192 key) 16 ++ W6 (words192 key) 17)) 2).r3 =
        St.zip3 ks192_D (ks192Body (bitslice (rk192 key 3) (rk192 key 3)) (bitslice (a ++ b ++ W6 (words192 key) 16 ++ W6 (words192 key) 17) (a ++ b ++ W6 (words192 key) 16 ++ W6 (words192 key) 17)) 2).r1
          (ks192Body (bitslice (rk192 key 3) (rk192 key 3)) (bitslice (a ++ b ++ W6 (words192 key) 16 ++ W6 (words192 key) 17) (a ++ b ++ W6 (words192 key) 16 ++ W6 (words192 key) 17)) 2).r2
          (add_round_constant_bit (sub_bytes_nots (sub_bytes (ks192Body (bitslice (rk192 key 3) (rk192 key 3)) (bitslice (a ++ b ++ W6 (words192 key) 16 ++ W6 (words192 key) 17) (a ++ b ++ W6 (words192 key) 16 ++ W6 (words192 key) 17)) 2).r2)) 3) := rfl
    rw [u, e1, e2, sub_bytes_rep0, sub_bytes_nots_invol, ks192_D_bitslice_3, s3]
  have e4 : (ks192Body (bitslice (rk192 key 3) (rk192 key 3)) (bitslice (a ++ b ++ W6 (words192 key) 16 ++ W6 (words192 key) 17) (a ++ b ++ W6 (words192 key) 16 ++ W6 (words192 key) 17)) 2).t = bitslice (W6 (words192 key) 20 ++ W6 (words192 key) 21 ++ W6 (words192 key) 28 ++ W6 (words192 key) 29) (W6 (words192 key) 20 ++ W6 (words192 key) 21 ++ W6 (words192 key) 28 ++ W6 (words192 key) 29) := by
    have u : (ks192Body (bitslice (rk192 key 3) (rk192 key 3)) (bitslice (a ++ b ++ W6 (words192 key) 16 ++ W6 (words192 key) 17) (a ++ b ++ W6 (words192 key) 16 ++ W6 (words192 key) 17)) 2).t =
        St.zip ks192_E (ks192Body (bitslice (rk192 key 3) (rk192 key 3)) (bitslice (a ++ b ++ W6 (words192 key) 16 ++ W6 (words192 key) 17) (a ++ b ++ W6 (words192 key) 16 ++ W6 (words192 key) 17)) 2).r3
          (ks192Body (bitslice (rk192 key 3) (rk192 key 3)) (bitslice (a ++ b ++ W6 (words192 key) 16 ++ W6 (words192 key) 17) (a ++ b ++ W6 (words192 key) 16 ++ W6 (words192 key) 17)) 2).r2 := rfl
    rw [u, e2, e3, ks192_E_bitslice, s4 (by omega)]
  exact ⟨e1, e2, e3, e4⟩

theorem ks192_iter_2 (key : BitVec 192) (r0 t : St) (a b : BitVec 32)
    (hR0 : r0 = bitslice (rk192 key 6) (rk192 key 6))
    (hT : t = bitslice (a ++ b ++ W6 (words192 key) 28 ++ W6 (words192 key) 29) (a ++ b ++ W6 (words192 key) 28 ++ W6 (words192 key) 29)) :
    (ks192Body r0 t 4).r1 = bitslice (rk192 key 7) (rk192 key 7) ∧
    (ks192Body r0 t 4).r2 = bitslice (rk192 key 8) (rk192 key 8) ∧
    (ks192Body r0 t 4).r3 = bitslice (rk192 key 9) (rk192 key 9) ∧
    (ks192Body r0 t 4).t = bitslice (W6 (words192 key) 32 ++ W6 (words192 key) 33 ++ W6 (words192 key) 40 ++ W6 (words192 key) 41) (W6 (words192 key) 32 ++ W6 (words192 key) 33 ++ W6 (words192 key) 40 ++ W6 (words192 key) 41) := by
  obtain ⟨s1, s2, s3, s4⟩ := iter192_spec (words192 key) rfl 2 (by omega) a b
  obtain ⟨c1, c2, c3, c4, c5, c6, c7, c8⟩ := rcon_vals8
  simp only [Nat.reduceMul, Nat.reduceAdd, c5, c6, rk192_eq] at s1 s2 s3 s4
  subst hR0 hT
  have e1 : (ks192Body (bitslice (rk192 key 6) (rk192 key 6)) (bitslice (a ++ b ++ W6 (words192 key) 28 ++ W6 (words192 key) 29) (a ++ b ++ W6 (words192 key) 28 ++ W6 (words192 key) 29)) 4).r1 = bitslice (rk192 key 7) (rk192 key 7) := by
    simp only [ks192Body]
    rw [ks192_A_bitslice, sub_bytes_rep0, sub_bytes_nots_invol, ks192_B_bitslice_4, s1]
  have e2 : (ks192Body (bitslice (rk192 key 6) (rk192 key 6)) (bitslice (a ++ b ++ W6 (words192 key) 28 ++ W6 (words192 key) 29) (a ++ b ++ W6 (words192 key) 28 ++ W6 (words192 key) 29)) 4).r2 = bitslice (rk192 key 8) (rk192 key 8) := by
    have u : (ks192Body (bitslice (rk192 key 6) (rk192 key 6)) (bitslice (a ++ b ++ W6 (words192 key) 28 ++ W6 (words192 key) 29) (a ++ b ++ W6 (words192 key) 28 ++ W6 (words192 key) 29)) 4).r2 =
        St.zip ks192_C (bitslice (rk192 key 6) (rk192 key 6)) (ks192Body (bitslice (rk192 key 6) (rk192 key 6)) (bitslice (a ++ b ++ W6 (words192 key) 28 ++ W6 (words192 key) 29) (a ++ b ++ W6 (words192 key) 28 ++ W6 (words192 key) 29)) 4).r1 := rfl
    rw [u, e1, ks192_C_bitslice, s2]
  have e3 : (ks192Body (bitslice (rk192 key 6) (rk192 key 6)) (bitslice (a ++ b ++ W6 (words192 key) 28 ++ W6 (words192 key) 29) (a ++ b ++ W6 (words192 key) 28 ++ W6 (words192 key) 29)) 4).r3 = bitslice (rk192 key 9) (rk192 key 9) := by
    have u : (ks192Body (bitslice (rk192 key 6) (rk192 key 6)) (bitslice (a ++ b ++ W6 (words192 key) 28 ++ W6 (words192 key) 29) (a ++ b ++ W6 (words192 key) 28 ++ W6 (words192 key) 29)) 4).r3 =
        St.zip3 ks192_D (ks192Body (bitslice (rk192 key 6) (rk192 key 6)) (bitslice (a ++ b ++ W6 (words192 key) 28 ++ W6 (words192 key) 29) (a ++ b ++ W6 (words192 key) 28 ++ W6 (words192 key) 29)) 4).r1
          (ks192Body (bitslice (rk192 key 6) (rk192 key 6)) (bitslice (a ++ b ++ W6 (words192 key) 28 ++ W6 (words192 key) 29) (a ++ b ++ W6 (words192 key) 28 ++ W6 (words192 key) 29)) 4).r2
          (add_round_constant_bit (sub_bytes_nots (sub_bytes (ks192Body (bitslice (rk192 key 6) (rk192 key 6)) (bitslice (a ++ b ++ W6 (words192 key) 28 ++ W6 (words192 key) 29) (a ++ b ++ W6 (words192 key) 28 ++ W6 (words192 key) 29)) 4).r2)) 5) := rfl
    rw [u, e1, e2, sub_bytes_rep0, sub_bytes_nots_invol, ks192_D_bitslice_5, s3]
  have e4 : (ks192Body (bitslice (rk192 key 6) (rk192 key 6)) (bitslice (a ++ b ++ W6 (words192 key) 28 ++ W6 (words192 key) 29) (a ++ b ++ W6 (words192 key) 28 ++ W6 (words192 key) 29)) 4).t = bitslice (W6 (words192 key) 32 ++ W6 (words192 key) 33 ++ W6 (words192 key) 40 ++ W6 (words192 key) 41) (W6 (words192 key) 32 ++ W6 (words192 key) 33 ++ W6 (words192 key) 40 ++ W6 (words192 key) 41) := by
    have u : (ks192Body (bitslice (rk192 key 6) (rk192 key 6)) (bitslice (a ++ b ++ W6 (words192 key) 28 ++ W6 (words192 key) 29) (a ++ b ++ W6 (words192 key) 28 ++ W6 (words192 key) 29)) 4).t =
        St.zip ks192_E (ks192Body (bitslice (rk192 key 6) (rk192 key 6)) (bitslice (a ++ b ++ W6 (words192 key) 28 ++ W6 (words192 key) 29) (a ++ b ++ W6 (words192 key) 28 ++ W6 (words192 key) 29)) 4).r3
          (ks192Body (bitslice (rk192 key 6) (rk192 key 6)) (bitslice (a ++ b ++ W6 (words192 key) 28 ++ W6 (words192 key) 29) (a ++ b ++ W6 (words192 key) 28 ++ W6 (words192 key) 29)) 4).r2 := rfl
    rw [u, e2, e3, ks192_E_bitslice, s4 (by omega)]
  exact ⟨e1, e2, e3, e4⟩

theorem ks192_iter_3 (key : BitVec 192) (r0 t : St) (a b : BitVec 32)
    (hR0 : r0 = bitslice (rk192 key 9) (rk192 key 9))
    (hT : t = bitslice (a ++ b ++ W6 (words192 key) 40 ++ W6 (words192 key) 41) (a ++ b ++ W6 (words192 key) 40 ++ W6 (words192 key) 41)) :
    (ks192Body r0 t 6).r1 = bitslice (rk192 key 10) (rk192 key 10) ∧
    (ks192Body r0 t 6).r2 = bitslice (rk192 key 11) (rk192 key 11) ∧
    (ks192Body r0 t 6).r3 = bitslice (rk192 key 12) (rk192 key 12) := by
  obtain ⟨s1, s2, s3, s4⟩ := iter192_spec (words192 key) rfl 3 (by omega) a b
  obtain ⟨c1, c2, c3, c4, c5, c6, c7, c8⟩ := rcon_vals8
  simp only [Nat.reduceMul, Nat.reduceAdd, c7, c8, rk192_eq] at s1 s2 s3 s4
  subst hR0 hT
  have e1 : (ks192Body (bitslice (rk192 key 9) (rk192 key 9)) (bitslice (a ++ b ++ W6 (words192 key) 40 ++ W6 (words192 key) 41) (a ++ b ++ W6 (words192 key) 40 ++ W6 (words192 key) 41)) 6).r1 = bitslice (rk192 key 10) (rk192 key 10) := by
    simp only [ks192Body]
    rw [ks192_A_bitslice, sub_bytes_rep0, sub_bytes_nots_invol, ks192_B_bitslice_6, s1]
  have e2 : (ks192Body (bitslice (rk192 key 9) (rk192 key 9)) (bitslice (a ++ b ++ W6 (words192 key) 40 ++ W6 (words192 key) 41) (a ++ b ++ W6 (words192 key) 40 ++ W6 (words192 key) 41)) 6).r2 = bitslice (rk192 key 11) (rk192 key 11) := by
    have u : (ks192Body (bitslice (rk192 key 9) (rk192 key 9)) (bitslice (a ++ b ++ W6 (words192 key) 40 ++ W6 (words192 key) 41) (a ++ b ++ W6 (words192 key) 40 ++ W6 (words192 key) 41)) 6).r2 =
        St.zip ks192_C (bitslice (rk192 key 9) (rk192 key 9)) (ks192Body (bitslice (rk192 key 9) (rk192 key 9)) (bitslice (a ++ b ++ W6 (words192 key) 40 ++ W6 (words192 key) 41) (a ++ b ++ W6 (words192 key) 40 ++ W6 (words192 key) 41)) 6).r1 := rfl
    rw [u, e1, ks192_C_bitslice, s2]
  have e3 : (ks192Body (bitslice (rk192 key 9) (rk192 key 9)) (bitslice (a ++ b ++ W6 (words192 key) 40 ++ W6 (words192 key) 41) (a ++ b ++ W6 (words192 key) 40 ++ W6 (words192 key) 41)) 6).r3 = bitslice (rk192 key 12) (rk192 key 12) := by
    have u : (ks192Body (bitslice (rk192 key 9) (rk192 key 9)) (bitslice (a ++ b ++ W6 (words192 key) 40 ++ W6 (words192 key) 41) (a ++ b ++ W6 (words192 key) 40 ++ W6 (words192 key) 41)) 6).r3 =
        St.zip3 ks192_D (ks192Body (bitslice (rk192 key 9) (rk192 key 9)) (bitslice (a ++ b ++ W6 (words192 key) 40 ++ W6 (words192 key) 41) (a ++ b ++ W6 (words192 key) 40 ++ W6 (words192 key) 41)) 6).r1
          (ks192Body (bitslice (rk192 key 9) (rk192 key 9)) (bitslice (a ++ b ++ W6 (words192 key) 40 ++ W6 (words192 key) 41) (a ++ b ++ W6 (words192 key) 40 ++ W6 (words192 key) 41)) 6).r2
          (add_round_constant_bit (sub_bytes_nots (sub_bytes (ks192Body (bitslice (rk192 key 9) (rk192 key 9)) (bitslice (a ++ b ++ W6 (words192 key) 40 ++ W6 (words192 key) 41) (a ++ b ++ W6 (words192 key) 40 ++ W6 (words192 key) 41)) 6).r2)) 7) := rfl
    rw [u, e1, e2, sub_bytes_rep0, sub_bytes_nots_invol, ks192_D_bitslice_7, s3]
  exact ⟨e1, e2, e3⟩

/-- the loop computes the FIPS round keys 1..12, same key in all two lanes -/
theorem ks192J_all (key : BitVec 192) :
    (ks192J key 0).r1 = bitslice (rk192 key 1) (rk192 key 1) ∧
    (ks192J key 0).r2 = bitslice (rk192 key 2) (rk192 key 2) ∧
    (ks192J key 0).r3 = bitslice (rk192 key 3) (rk192 key 3) ∧
    (ks192J key 1).r1 = bitslice (rk192 key 4) (rk192 key 4) ∧
    (ks192J key 1).r2 = bitslice (rk192 key 5) (rk192 key 5) ∧
    (ks192J key 1).r3 = bitslice (rk192 key 6) (rk192 key 6) ∧
    (ks192J key 2).r1 = bitslice (rk192 key 7) (rk192 key 7) ∧
    (ks192J key 2).r2 = bitslice (rk192 key 8) (rk192 key 8) ∧
    (ks192J key 2).r3 = bitslice (rk192 key 9) (rk192 key 9) ∧
    (ks192J key 3).r1 = bitslice (rk192 key 10) (rk192 key 10) ∧
    (ks192J key 3).r2 = bitslice (rk192 key 11) (rk192 key 11) ∧
    (ks192J key 3).r3 = bitslice (rk192 key 12) (rk192 key 12) := by
  have h0 : bitslice (key192_lo key) (key192_lo key) = bitslice (rk192 key 0) (rk192 key 0) := by
    rw [rk192_zero]
  have t0 := key192_hi_words key
  obtain ⟨a1, a2, a3, a4⟩ := ks192_iter_0 key _ (bitslice (key192_hi key) (key192_hi key))
    (W6 (words192 key) 2) (W6 (words192 key) 3) h0 (by rw [t0])
  have u1 : ks192J key 1 = ks192Body (ks192J key 0).r3 (ks192J key 0).t 2 := rfl
  have u2 : ks192J key 2 = ks192Body (ks192J key 1).r3 (ks192J key 1).t 4 := rfl
  have u3 : ks192J key 3 = ks192Body (ks192J key 2).r3 (ks192J key 2).t 6 := rfl
  have v0 : ks192J key 0 = ks192Body (bitslice (key192_lo key) (key192_lo key))
      (bitslice (key192_hi key) (key192_hi key)) 0 := rfl
  rw [← v0] at a1 a2 a3 a4
  obtain ⟨b1, b2, b3, b4⟩ := ks192_iter_1 key _ _ _ _ a3 a4
  rw [← u1] at b1 b2 b3 b4
  obtain ⟨d1, d2, d3, d4⟩ := ks192_iter_2 key _ _ _ _ b3 b4
  rw [← u2] at d1 d2 d3 d4
  obtain ⟨f1, f2, f3⟩ := ks192_iter_3 key _ _ _ _ d3 d4
  rw [← u3] at f1 f2 f3
  exact ⟨a1, a2, a3, b1, b2, b3, d1, d2, d3, f1, f2, f3⟩

end BC.AesFs32
