import Std.Tactic.BVDecide
import BlockCiphers.Impl.Twofish
/-
C20 for the `twofish` crate: every plain `+ *` and every computed index of the non-test code
(the `-- C20-SITE:` list at the top of `Impl/Twofish.lean`) stays in range.
-/
namespace BC.Twofish

/-- `QBOX[i]` with `i = QORD[y][z]`: the entries of `QORD` are 0 or 1 -/
theorem c20_qord_lt : ∀ (y : Fin 4) (z : Fin 5), qord y.val z.val < 2 := by decide

/-- the intermediate values of `sbox(i, x)`: the four `QBOX` column indices and the two output nibbles -/
structure SboxTrace where
  a1 : BitVec 8
  b1 : BitVec 8
  a3 : BitVec 8
  b3 : BitVec 8
  a4 : BitVec 8
  b4 : BitVec 8

def sboxTrace (i : Nat) (x : BitVec 8) : SboxTrace :=
  let a0 := (x >>> 4) &&& 15#8
  let b0 := x &&& 15#8
  let a1 := a0 ^^^ b0
  let b1 := (a0 ^^^ ((b0 <<< 3) ||| (b0 >>> 1)) ^^^ (a0 <<< 3)) &&& 15#8
  let a2 := qbox i 0 a1
  let b2 := qbox i 1 b1
  let a3 := a2 ^^^ b2
  let b3 := (a2 ^^^ ((b2 <<< 3) ||| (b2 >>> 1)) ^^^ (a2 <<< 3)) &&& 15#8
  { a1 := a1, b1 := b1, a3 := a3, b3 := b3, a4 := qbox i 2 a3, b4 := qbox i 3 b3 }

/-- the trace is the computation of `sbox` -/
theorem sbox_eq_trace (i : Nat) (x : BitVec 8) :
    sbox i x = ((sboxTrace i x).b4 <<< 4) + (sboxTrace i x).a4 := rfl

/-- sbox: the four table indices `a1, b1, a3, b3` are `< 16` (for both tables, all 256 inputs) -/
theorem c20_sbox_idx : ∀ (i : Fin 2) (x : BitVec 8),
    (sboxTrace i.val x).a1.toNat < 16 ∧ (sboxTrace i.val x).b1.toNat < 16 ∧
    (sboxTrace i.val x).a3.toNat < 16 ∧ (sboxTrace i.val x).b3.toNat < 16 := by decide +kernel

/-- sbox: `(b4 << 4) + a4` does not overflow `u8` (for both tables, all 256 inputs) -/
theorem c20_sbox_add : ∀ (i : Fin 2) (x : BitVec 8),
    BitVec.uaddOverflow ((sboxTrace i.val x).b4 <<< 4) (sboxTrace i.val x).a4 = false := by decide +kernel

/-- h: the byte indices into the key, `offset ≤ 1`, key length `8 k` -/
theorem c20_h_idx (k offset : Nat) (ho : offset ≤ 1) (hk : k = 2 ∨ k = 3 ∨ k = 4) :
    (k = 4 → 4 * (6 + offset) + 3 < 8 * k) ∧ (k ≥ 3 → 4 * (4 + offset) + 3 < 8 * k) ∧
    4 * (2 + offset) + 3 < 8 * k ∧ 4 * offset + 3 < 8 * k := by omega

/-- g_func: `self.s[4 * (z - self.start - 1) + y]` for `start < z < 5`, `y < 4` -/
theorem c20_g_idx (start z y : Nat) (hs : start ≤ 2) (hz1 : start + 1 ≤ z) (hz : z < 5) (hy : y < 4) :
    start + 1 ≤ z ∧ 4 * (z - start - 1) + y < 16 := by omega

/-- g_func: `x >> (8 * y)` -/
theorem c20_g_shift (y : Nat) (hy : y < 4) : 8 * y < 32 := by omega

/-- key_schedule: `rho * (2 * x)` and `rho * (2 * x + 1)` in `u32`, `x < 20` -/
theorem c20_rho (x : Nat) (hx : x < 20) :
    2 * x + 1 < 2 ^ 32 ∧ rho.toNat * (2 * x) < 2 ^ 32 ∧ rho.toNat * (2 * x + 1) < 2 ^ 32 := by
  have : rho.toNat = 0x1010101 := by decide
  rw [this]; omega

/-- key_schedule: `self.k[2 * x]`, `self.k[2 * x + 1]` -/
theorem c20_ks_idx (x : Nat) (hx : x < 20) : 2 * x + 1 < 40 := by omega

/-- key_schedule: `key[i*8..i*8+8]` and `self.s[i*4..(i+1)*4]` for `i < k = len / 8` -/
theorem c20_ks_slices (len i : Nat) (hl : len = 16 ∨ len = 24 ∨ len = 32) (hi : i < len / 8) :
    i * 8 + 8 ≤ len ∧ (i + 1) * 4 ≤ 16 := by omega

/-- encrypt_block / decrypt_block: `self.k[4 * r + 8 .. 4 * r + 11]` -/
theorem c20_round_idx (r : Nat) (hr : r < 8) : 4 * r + 8 + 3 < 40 := by omega

end BC.Twofish
