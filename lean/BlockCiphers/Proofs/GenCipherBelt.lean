import BlockCiphers.Gen.Cipher_Belt_block
import BlockCiphers.Impl.Belt
import BlockCiphers.Proofs.GenTables
import Std.Tactic.BVDecide
/-
Tie of the regenerated whole-cipher functions of the `belt-block` crate (`Gen/Cipher_Belt_block.lean`:
`BeltBlock::encrypt_block`, `BeltBlock::decrypt_block`) to the model `BC.Belt.encrypt/decrypt` of `Impl/Belt.lean`, for ALL
8 key words and ALL blocks.

BelT is an ARX-with-tables cipher, so nothing is bit-blasted except the byte loads/stores:
 * `tab_H5 … tab_H29` : a look-up `BC.Gen.tblAt BC.Gen.belt_block_Hn ((v &&& 0xff).setWidth 64).toNat 32` in the regenerated
   table is the model's `tab Hn (v &&& 0xff)` (from `belt_Hn_eq` of `Proofs/GenTables.lean`; the 64-bit widening of the masked index is harmless);
 * `toU32x4_eq`, `fromU32x4_eq` : the model's `bswap32`-based load/store written with the byte extractions of the
   regenerated text (bridging lemmas about the model, `bv_decide` on 32/128 bits);
 * `key_idx_i_d` : `key_idx #v[k0,…,k7] i d` for the literal `i`, `d` of the eight unrolled rounds;
 * then both sides are unfolded (`forRange 1 8`, `encRound`, `g5/g13/g21`) and agree syntactically, once the widths
   `8+8+8+8` that the byte concatenations of the regenerated text carry in their types / instances are normalised to
   literals (`dsimp (config := { instances := true }) only [Nat.reduceAdd]`).
-/
namespace BC.GenCipher.Belt
open BC.Gen.Fn BC.Belt
set_option maxRecDepth 100000
set_option linter.unusedSimpArgs false
set_option linter.unusedVariables false

/-! ### table look-ups -/

/-- a look-up in a regenerated table that `Proofs/GenTables.lean` ties to a model table is the model's look-up -/
theorem tblAt_of_toList (T : Array Nat) (H : Array (BitVec 32)) (h : T.toList = BC.GenTables.nats32 H) (i : Nat) :
    BC.Gen.tblAt T i 32 = H.getD i 0 := by
  have hT : T = (BC.GenTables.nats32 H).toArray := by rw [← h]
  subst hT
  unfold BC.Gen.tblAt BC.GenTables.nats32
  by_cases hi : i < H.size
  · simp [Array.getD, hi]
  · simp [Array.getD, hi]

theorem mask_lt (v : BitVec 32) : (v &&& 0xff#32).toNat < 256 := by
  rw [BitVec.toNat_and]
  exact Nat.lt_succ_of_le Nat.and_le_right

theorem idx_eq (v : BitVec 32) : ((v &&& 0xff#32).setWidth 64).toNat = (v &&& 0xff#32).toNat := by
  have h := mask_lt v
  rw [BitVec.toNat_setWidth]
  exact Nat.mod_eq_of_lt (by omega)

theorem tab_H5 (v : BitVec 32) :
    BC.Gen.tblAt BC.Gen.belt_block_H5 ((v &&& 0xff#32).setWidth 64).toNat 32 = tab H5 (v &&& 0xff#32) := by
  rw [idx_eq]; exact tblAt_of_toList _ _ BC.GenTables.belt_H5_eq _

theorem tab_H13 (v : BitVec 32) :
    BC.Gen.tblAt BC.Gen.belt_block_H13 ((v &&& 0xff#32).setWidth 64).toNat 32 = tab H13 (v &&& 0xff#32) := by
  rw [idx_eq]; exact tblAt_of_toList _ _ BC.GenTables.belt_H13_eq _

theorem tab_H21 (v : BitVec 32) :
    BC.Gen.tblAt BC.Gen.belt_block_H21 ((v &&& 0xff#32).setWidth 64).toNat 32 = tab H21 (v &&& 0xff#32) := by
  rw [idx_eq]; exact tblAt_of_toList _ _ BC.GenTables.belt_H21_eq _

theorem tab_H29 (v : BitVec 32) :
    BC.Gen.tblAt BC.Gen.belt_block_H29 ((v &&& 0xff#32).setWidth 64).toNat 32 = tab H29 (v &&& 0xff#32) := by
  rw [idx_eq]; exact tblAt_of_toList _ _ BC.GenTables.belt_H29_eq _

/-! ### load / store (bridging lemmas about the model) -/

theorem toU32x4_eq (b : BitVec 128) : toU32x4 b =
    { a := b.extractLsb' 96 8 ++ b.extractLsb' 104 8 ++ b.extractLsb' 112 8 ++ b.extractLsb' 120 8,
      b := b.extractLsb' 64 8 ++ b.extractLsb' 72 8 ++ b.extractLsb' 80 8 ++ b.extractLsb' 88 8,
      c := b.extractLsb' 32 8 ++ b.extractLsb' 40 8 ++ b.extractLsb' 48 8 ++ b.extractLsb' 56 8,
      d := b.extractLsb' 0 8 ++ b.extractLsb' 8 8 ++ b.extractLsb' 16 8 ++ b.extractLsb' 24 8 } := by
  simp only [toU32x4, bswap32, W4.mk.injEq]
  bv_decide (config := { timeout := 300 })

theorem fromU32x4_eq (w : W4) : fromU32x4 w =
    w.a.extractLsb' 0 8 ++ w.a.extractLsb' 8 8 ++ w.a.extractLsb' 16 8 ++ w.a.extractLsb' 24 8 ++
    w.b.extractLsb' 0 8 ++ w.b.extractLsb' 8 8 ++ w.b.extractLsb' 16 8 ++ w.b.extractLsb' 24 8 ++
    w.c.extractLsb' 0 8 ++ w.c.extractLsb' 8 8 ++ w.c.extractLsb' 16 8 ++ w.c.extractLsb' 24 8 ++
    w.d.extractLsb' 0 8 ++ w.d.extractLsb' 8 8 ++ w.d.extractLsb' 16 8 ++ w.d.extractLsb' 24 8 := by
  simp only [fromU32x4, bswap32]
  bv_decide (config := { timeout := 300 })

/-! ### `key_idx` on explicit key words -/

/-- the 8 key words `self.key` as the model's `Key` -/
def mkKey (k0 k1 k2 k3 k4 k5 k6 k7 : BitVec 32) : Key := #v[k0, k1, k2, k3, k4, k5, k6, k7]

theorem key_idx_1_0 (k0 k1 k2 k3 k4 k5 k6 k7 : BitVec 32) : key_idx (mkKey k0 k1 k2 k3 k4 k5 k6 k7) 1 0 = k6 := rfl
theorem key_idx_1_1 (k0 k1 k2 k3 k4 k5 k6 k7 : BitVec 32) : key_idx (mkKey k0 k1 k2 k3 k4 k5 k6 k7) 1 1 = k5 := rfl
theorem key_idx_1_2 (k0 k1 k2 k3 k4 k5 k6 k7 : BitVec 32) : key_idx (mkKey k0 k1 k2 k3 k4 k5 k6 k7) 1 2 = k4 := rfl
theorem key_idx_1_3 (k0 k1 k2 k3 k4 k5 k6 k7 : BitVec 32) : key_idx (mkKey k0 k1 k2 k3 k4 k5 k6 k7) 1 3 = k3 := rfl
theorem key_idx_1_4 (k0 k1 k2 k3 k4 k5 k6 k7 : BitVec 32) : key_idx (mkKey k0 k1 k2 k3 k4 k5 k6 k7) 1 4 = k2 := rfl
theorem key_idx_1_5 (k0 k1 k2 k3 k4 k5 k6 k7 : BitVec 32) : key_idx (mkKey k0 k1 k2 k3 k4 k5 k6 k7) 1 5 = k1 := rfl
theorem key_idx_1_6 (k0 k1 k2 k3 k4 k5 k6 k7 : BitVec 32) : key_idx (mkKey k0 k1 k2 k3 k4 k5 k6 k7) 1 6 = k0 := rfl
theorem key_idx_2_0 (k0 k1 k2 k3 k4 k5 k6 k7 : BitVec 32) : key_idx (mkKey k0 k1 k2 k3 k4 k5 k6 k7) 2 0 = k5 := rfl
theorem key_idx_2_1 (k0 k1 k2 k3 k4 k5 k6 k7 : BitVec 32) : key_idx (mkKey k0 k1 k2 k3 k4 k5 k6 k7) 2 1 = k4 := rfl
theorem key_idx_2_2 (k0 k1 k2 k3 k4 k5 k6 k7 : BitVec 32) : key_idx (mkKey k0 k1 k2 k3 k4 k5 k6 k7) 2 2 = k3 := rfl
theorem key_idx_2_3 (k0 k1 k2 k3 k4 k5 k6 k7 : BitVec 32) : key_idx (mkKey k0 k1 k2 k3 k4 k5 k6 k7) 2 3 = k2 := rfl
theorem key_idx_2_4 (k0 k1 k2 k3 k4 k5 k6 k7 : BitVec 32) : key_idx (mkKey k0 k1 k2 k3 k4 k5 k6 k7) 2 4 = k1 := rfl
theorem key_idx_2_5 (k0 k1 k2 k3 k4 k5 k6 k7 : BitVec 32) : key_idx (mkKey k0 k1 k2 k3 k4 k5 k6 k7) 2 5 = k0 := rfl
theorem key_idx_2_6 (k0 k1 k2 k3 k4 k5 k6 k7 : BitVec 32) : key_idx (mkKey k0 k1 k2 k3 k4 k5 k6 k7) 2 6 = k7 := rfl
theorem key_idx_3_0 (k0 k1 k2 k3 k4 k5 k6 k7 : BitVec 32) : key_idx (mkKey k0 k1 k2 k3 k4 k5 k6 k7) 3 0 = k4 := rfl
theorem key_idx_3_1 (k0 k1 k2 k3 k4 k5 k6 k7 : BitVec 32) : key_idx (mkKey k0 k1 k2 k3 k4 k5 k6 k7) 3 1 = k3 := rfl
theorem key_idx_3_2 (k0 k1 k2 k3 k4 k5 k6 k7 : BitVec 32) : key_idx (mkKey k0 k1 k2 k3 k4 k5 k6 k7) 3 2 = k2 := rfl
theorem key_idx_3_3 (k0 k1 k2 k3 k4 k5 k6 k7 : BitVec 32) : key_idx (mkKey k0 k1 k2 k3 k4 k5 k6 k7) 3 3 = k1 := rfl
theorem key_idx_3_4 (k0 k1 k2 k3 k4 k5 k6 k7 : BitVec 32) : key_idx (mkKey k0 k1 k2 k3 k4 k5 k6 k7) 3 4 = k0 := rfl
theorem key_idx_3_5 (k0 k1 k2 k3 k4 k5 k6 k7 : BitVec 32) : key_idx (mkKey k0 k1 k2 k3 k4 k5 k6 k7) 3 5 = k7 := rfl
theorem key_idx_3_6 (k0 k1 k2 k3 k4 k5 k6 k7 : BitVec 32) : key_idx (mkKey k0 k1 k2 k3 k4 k5 k6 k7) 3 6 = k6 := rfl
theorem key_idx_4_0 (k0 k1 k2 k3 k4 k5 k6 k7 : BitVec 32) : key_idx (mkKey k0 k1 k2 k3 k4 k5 k6 k7) 4 0 = k3 := rfl
theorem key_idx_4_1 (k0 k1 k2 k3 k4 k5 k6 k7 : BitVec 32) : key_idx (mkKey k0 k1 k2 k3 k4 k5 k6 k7) 4 1 = k2 := rfl
theorem key_idx_4_2 (k0 k1 k2 k3 k4 k5 k6 k7 : BitVec 32) : key_idx (mkKey k0 k1 k2 k3 k4 k5 k6 k7) 4 2 = k1 := rfl
theorem key_idx_4_3 (k0 k1 k2 k3 k4 k5 k6 k7 : BitVec 32) : key_idx (mkKey k0 k1 k2 k3 k4 k5 k6 k7) 4 3 = k0 := rfl
theorem key_idx_4_4 (k0 k1 k2 k3 k4 k5 k6 k7 : BitVec 32) : key_idx (mkKey k0 k1 k2 k3 k4 k5 k6 k7) 4 4 = k7 := rfl
theorem key_idx_4_5 (k0 k1 k2 k3 k4 k5 k6 k7 : BitVec 32) : key_idx (mkKey k0 k1 k2 k3 k4 k5 k6 k7) 4 5 = k6 := rfl
theorem key_idx_4_6 (k0 k1 k2 k3 k4 k5 k6 k7 : BitVec 32) : key_idx (mkKey k0 k1 k2 k3 k4 k5 k6 k7) 4 6 = k5 := rfl
theorem key_idx_5_0 (k0 k1 k2 k3 k4 k5 k6 k7 : BitVec 32) : key_idx (mkKey k0 k1 k2 k3 k4 k5 k6 k7) 5 0 = k2 := rfl
theorem key_idx_5_1 (k0 k1 k2 k3 k4 k5 k6 k7 : BitVec 32) : key_idx (mkKey k0 k1 k2 k3 k4 k5 k6 k7) 5 1 = k1 := rfl
theorem key_idx_5_2 (k0 k1 k2 k3 k4 k5 k6 k7 : BitVec 32) : key_idx (mkKey k0 k1 k2 k3 k4 k5 k6 k7) 5 2 = k0 := rfl
theorem key_idx_5_3 (k0 k1 k2 k3 k4 k5 k6 k7 : BitVec 32) : key_idx (mkKey k0 k1 k2 k3 k4 k5 k6 k7) 5 3 = k7 := rfl
theorem key_idx_5_4 (k0 k1 k2 k3 k4 k5 k6 k7 : BitVec 32) : key_idx (mkKey k0 k1 k2 k3 k4 k5 k6 k7) 5 4 = k6 := rfl
theorem key_idx_5_5 (k0 k1 k2 k3 k4 k5 k6 k7 : BitVec 32) : key_idx (mkKey k0 k1 k2 k3 k4 k5 k6 k7) 5 5 = k5 := rfl
theorem key_idx_5_6 (k0 k1 k2 k3 k4 k5 k6 k7 : BitVec 32) : key_idx (mkKey k0 k1 k2 k3 k4 k5 k6 k7) 5 6 = k4 := rfl
theorem key_idx_6_0 (k0 k1 k2 k3 k4 k5 k6 k7 : BitVec 32) : key_idx (mkKey k0 k1 k2 k3 k4 k5 k6 k7) 6 0 = k1 := rfl
theorem key_idx_6_1 (k0 k1 k2 k3 k4 k5 k6 k7 : BitVec 32) : key_idx (mkKey k0 k1 k2 k3 k4 k5 k6 k7) 6 1 = k0 := rfl
theorem key_idx_6_2 (k0 k1 k2 k3 k4 k5 k6 k7 : BitVec 32) : key_idx (mkKey k0 k1 k2 k3 k4 k5 k6 k7) 6 2 = k7 := rfl
theorem key_idx_6_3 (k0 k1 k2 k3 k4 k5 k6 k7 : BitVec 32) : key_idx (mkKey k0 k1 k2 k3 k4 k5 k6 k7) 6 3 = k6 := rfl
theorem key_idx_6_4 (k0 k1 k2 k3 k4 k5 k6 k7 : BitVec 32) : key_idx (mkKey k0 k1 k2 k3 k4 k5 k6 k7) 6 4 = k5 := rfl
theorem key_idx_6_5 (k0 k1 k2 k3 k4 k5 k6 k7 : BitVec 32) : key_idx (mkKey k0 k1 k2 k3 k4 k5 k6 k7) 6 5 = k4 := rfl
theorem key_idx_6_6 (k0 k1 k2 k3 k4 k5 k6 k7 : BitVec 32) : key_idx (mkKey k0 k1 k2 k3 k4 k5 k6 k7) 6 6 = k3 := rfl
theorem key_idx_7_0 (k0 k1 k2 k3 k4 k5 k6 k7 : BitVec 32) : key_idx (mkKey k0 k1 k2 k3 k4 k5 k6 k7) 7 0 = k0 := rfl
theorem key_idx_7_1 (k0 k1 k2 k3 k4 k5 k6 k7 : BitVec 32) : key_idx (mkKey k0 k1 k2 k3 k4 k5 k6 k7) 7 1 = k7 := rfl
theorem key_idx_7_2 (k0 k1 k2 k3 k4 k5 k6 k7 : BitVec 32) : key_idx (mkKey k0 k1 k2 k3 k4 k5 k6 k7) 7 2 = k6 := rfl
theorem key_idx_7_3 (k0 k1 k2 k3 k4 k5 k6 k7 : BitVec 32) : key_idx (mkKey k0 k1 k2 k3 k4 k5 k6 k7) 7 3 = k5 := rfl
theorem key_idx_7_4 (k0 k1 k2 k3 k4 k5 k6 k7 : BitVec 32) : key_idx (mkKey k0 k1 k2 k3 k4 k5 k6 k7) 7 4 = k4 := rfl
theorem key_idx_7_5 (k0 k1 k2 k3 k4 k5 k6 k7 : BitVec 32) : key_idx (mkKey k0 k1 k2 k3 k4 k5 k6 k7) 7 5 = k3 := rfl
theorem key_idx_7_6 (k0 k1 k2 k3 k4 k5 k6 k7 : BitVec 32) : key_idx (mkKey k0 k1 k2 k3 k4 k5 k6 k7) 7 6 = k2 := rfl
theorem key_idx_8_0 (k0 k1 k2 k3 k4 k5 k6 k7 : BitVec 32) : key_idx (mkKey k0 k1 k2 k3 k4 k5 k6 k7) 8 0 = k7 := rfl
theorem key_idx_8_1 (k0 k1 k2 k3 k4 k5 k6 k7 : BitVec 32) : key_idx (mkKey k0 k1 k2 k3 k4 k5 k6 k7) 8 1 = k6 := rfl
theorem key_idx_8_2 (k0 k1 k2 k3 k4 k5 k6 k7 : BitVec 32) : key_idx (mkKey k0 k1 k2 k3 k4 k5 k6 k7) 8 2 = k5 := rfl
theorem key_idx_8_3 (k0 k1 k2 k3 k4 k5 k6 k7 : BitVec 32) : key_idx (mkKey k0 k1 k2 k3 k4 k5 k6 k7) 8 3 = k4 := rfl
theorem key_idx_8_4 (k0 k1 k2 k3 k4 k5 k6 k7 : BitVec 32) : key_idx (mkKey k0 k1 k2 k3 k4 k5 k6 k7) 8 4 = k3 := rfl
theorem key_idx_8_5 (k0 k1 k2 k3 k4 k5 k6 k7 : BitVec 32) : key_idx (mkKey k0 k1 k2 k3 k4 k5 k6 k7) 8 5 = k2 := rfl
theorem key_idx_8_6 (k0 k1 k2 k3 k4 k5 k6 k7 : BitVec 32) : key_idx (mkKey k0 k1 k2 k3 k4 k5 k6 k7) 8 6 = k1 := rfl

theorem range'_1_8 : List.range' 1 8 = [1, 2, 3, 4, 5, 6, 7, 8] := rfl
theorem rev_1_8 : [1, 2, 3, 4, 5, 6, 7, 8].reverse = [8, 7, 6, 5, 4, 3, 2, 1] := rfl

/-- **BelT `encrypt_block`**: regenerated function = model, all key words, all blocks -/
theorem encrypt_block_eq' (k0 k1 k2 k3 k4 k5 k6 k7 : BitVec 32) (b : BitVec 128) :
    beltblock_encrypt_block k0 k1 k2 k3 k4 k5 k6 k7 b = BC.Belt.encrypt ⟨mkKey k0 k1 k2 k3 k4 k5 k6 k7⟩ b := by
  have hT := toU32x4_eq b
  have hF := fun w => fromU32x4_eq w
  dsimp (config := { instances := true }) only [Nat.reduceAdd] at hT hF
  simp only [beltblock_encrypt_block]
  dsimp (config := { instances := true }) only [Nat.reduceAdd]
  simp only [BC.Belt.encrypt, belt_block_raw, encRound, hT, hF, tab_H5, tab_H13, tab_H21, tab_H29, g5, g13, g21,
    BC.forRange, BC.forRangeRev, range'_1_8, rev_1_8, List.foldl,
    key_idx_1_0, key_idx_1_1, key_idx_1_2, key_idx_1_3, key_idx_1_4, key_idx_1_5, key_idx_1_6, key_idx_2_0, key_idx_2_1, key_idx_2_2, key_idx_2_3, key_idx_2_4, key_idx_2_5, key_idx_2_6, key_idx_3_0, key_idx_3_1, key_idx_3_2, key_idx_3_3, key_idx_3_4, key_idx_3_5, key_idx_3_6, key_idx_4_0, key_idx_4_1, key_idx_4_2, key_idx_4_3, key_idx_4_4, key_idx_4_5, key_idx_4_6, key_idx_5_0, key_idx_5_1, key_idx_5_2, key_idx_5_3, key_idx_5_4, key_idx_5_5, key_idx_5_6, key_idx_6_0, key_idx_6_1, key_idx_6_2, key_idx_6_3, key_idx_6_4, key_idx_6_5, key_idx_6_6, key_idx_7_0, key_idx_7_1, key_idx_7_2, key_idx_7_3, key_idx_7_4, key_idx_7_5, key_idx_7_6, key_idx_8_0, key_idx_8_1, key_idx_8_2, key_idx_8_3, key_idx_8_4, key_idx_8_5, key_idx_8_6]

/-- **BelT `decrypt_block`** -/
theorem decrypt_block_eq' (k0 k1 k2 k3 k4 k5 k6 k7 : BitVec 32) (b : BitVec 128) :
    beltblock_decrypt_block k0 k1 k2 k3 k4 k5 k6 k7 b = BC.Belt.decrypt ⟨mkKey k0 k1 k2 k3 k4 k5 k6 k7⟩ b := by
  have hT := toU32x4_eq b
  have hF := fun w => fromU32x4_eq w
  dsimp (config := { instances := true }) only [Nat.reduceAdd] at hT hF
  simp only [beltblock_decrypt_block]
  dsimp (config := { instances := true }) only [Nat.reduceAdd]
  simp only [BC.Belt.decrypt, belt_block_raw_dec, decRound, hT, hF, tab_H5, tab_H13, tab_H21, tab_H29, g5, g13, g21,
    BC.forRange, BC.forRangeRev, range'_1_8, rev_1_8, List.foldl,
    key_idx_1_0, key_idx_1_1, key_idx_1_2, key_idx_1_3, key_idx_1_4, key_idx_1_5, key_idx_1_6, key_idx_2_0, key_idx_2_1, key_idx_2_2, key_idx_2_3, key_idx_2_4, key_idx_2_5, key_idx_2_6, key_idx_3_0, key_idx_3_1, key_idx_3_2, key_idx_3_3, key_idx_3_4, key_idx_3_5, key_idx_3_6, key_idx_4_0, key_idx_4_1, key_idx_4_2, key_idx_4_3, key_idx_4_4, key_idx_4_5, key_idx_4_6, key_idx_5_0, key_idx_5_1, key_idx_5_2, key_idx_5_3, key_idx_5_4, key_idx_5_5, key_idx_5_6, key_idx_6_0, key_idx_6_1, key_idx_6_2, key_idx_6_3, key_idx_6_4, key_idx_6_5, key_idx_6_6, key_idx_7_0, key_idx_7_1, key_idx_7_2, key_idx_7_3, key_idx_7_4, key_idx_7_5, key_idx_7_6, key_idx_8_0, key_idx_8_1, key_idx_8_2, key_idx_8_3, key_idx_8_4, key_idx_8_5, key_idx_8_6]

theorem encrypt_block_eq (k0 k1 k2 k3 k4 k5 k6 k7 : BitVec 32) (b : BitVec 128) :
    beltblock_encrypt_block k0 k1 k2 k3 k4 k5 k6 k7 b = BC.Belt.encrypt ⟨#v[k0, k1, k2, k3, k4, k5, k6, k7]⟩ b :=
  encrypt_block_eq' k0 k1 k2 k3 k4 k5 k6 k7 b

theorem decrypt_block_eq (k0 k1 k2 k3 k4 k5 k6 k7 : BitVec 32) (b : BitVec 128) :
    beltblock_decrypt_block k0 k1 k2 k3 k4 k5 k6 k7 b = BC.Belt.decrypt ⟨#v[k0, k1, k2, k3, k4, k5, k6, k7]⟩ b :=
  decrypt_block_eq' k0 k1 k2 k3 k4 k5 k6 k7 b

end BC.GenCipher.Belt
