import BlockCiphers.Proofs.Basic
import BlockCiphers.Impl.Gift
import BlockCiphers.Spec.Gift
/-
GIFT-128 conformance (C10), definitions shared by the `GiftConf*` modules.

The Rust keeps the state in the *fixsliced* representation: four 32-bit words holding the four bit-slices of the 32
nibbles, with a nibble arrangement that changes from round to round with period 5 (and the roles of `s0`/`s3`
exchanged in the odd rounds).  `pack j` is the arrangement in force before round `j` of a quintuple round:

  `pack j x = G j (packing x)`,  `G0 = id`,  `G (j+1) t = lin j (… (G j (bsInvPerm t)))`

where `packing` is the plain bitslice arrangement (`s_j` bit `i` = state bit `4i+j`), `lin j` is the linear layer of the
Rust round `j` (the round with the S-box and the key/constant additions removed) and `bsInvPerm` is the inverse of
the spec's bit permutation acting on slices.  The fixsliced round-key words / constants are the images of the spec's
AddRoundKey / constant words under `G (j+1)` (`kmA`, `kmB`, `kmC`).  The proofs go through the bitsliced form
`bsRound` of the spec round: `packing (Spec.round x u v c) = bsRound (packing x) u v c` (`GiftConfBs`).
-/
namespace BC.Gift.Conf
open BC.Gift
open BC.Spec.Gift (permBits invPermBits subCells roundKeyWord constWord orRange)

/-! ### the S-box as a circuit on one nibble -/

/-- bit `i` of a nibble as a 1-bit word -/
def b1 (x : BitVec 4) (i : Nat) : BitVec 1 := (x >>> i).setWidth 1

/-- the circuit of `sbox` at width 1 on the nibble `(d c b a) = x`, result `(a' c' b' d')` read as `y3 y2 y1 y0`
(the Rust leaves the new bit 3 in its first argument and the new bit 0 in its last: the `s0`/`s3` role swap) -/
def gsCirc (x : BitVec 4) : BitVec 4 :=
  let a := b1 x 0; let b := b1 x 1; let c := b1 x 2; let d := b1 x 3
  let b := b ^^^ (a &&& c)
  let a := a ^^^ (b &&& d)
  let c := c ^^^ (a ||| b)
  let d := d ^^^ c
  let b := b ^^^ d
  let d := d ^^^ 1#1
  let c := c ^^^ (a &&& b)
  (a.setWidth 4 <<< 3) ||| (c.setWidth 4 <<< 2) ||| (b.setWidth 4 <<< 1) ||| d.setWidth 4

/-- the table `GS` of the paper is computed by the circuit (all 16 inputs, kernel) -/
theorem gs_eq_gsCirc : ∀ x : BitVec 4, BC.Spec.Gift.gs x = gsCirc x := by decide

/-! ### the bitslice arrangement -/

/-- slice `j` of the spec state: bit `i` of the word is bit `4i + j` of the state (bit `j` of nibble `i`) -/
def slice (x : BitVec 128) (j : Nat) : BitVec 32 :=
  (orRange 32 (fun i => ((x >>> (4 * i + j)) &&& 1#128) <<< i)).setWidth 32

/-! ### linear layers of the five round shapes (acting on the S-box output `r`) -/

def lin0 (r : St) : St := ⟨r.s0, nibbleRor2 r.s1, nibbleRor3 r.s2, nibbleRor1 r.s3⟩
def lin1 (r : St) : St := ⟨halfRor4 r.s3, halfRor8 r.s1, halfRor12 r.s2, r.s0⟩
def lin2 (r : St) : St :=
  ⟨r.s0, swapmovesingle r.s1 0x55555555#32 1, swapmovesingle (ror r.s2 16) 0x00005555#32 1,
   swapmovesingle (ror r.s3 16) 0x55550000#32 1⟩
def lin3 (r : St) : St := ⟨byteRor6 r.s3, byteRor4 r.s1, byteRor2 r.s2, r.s0⟩
def lin4 (r : St) : St := ⟨r.s0, ror r.s1 16, ror r.s2 8, ror r.s3 24⟩

/-! ### the spec round in bitsliced form (four 32-bit slices, `s_j` = bit `j` of every nibble) -/

/-- `f 0 ||| … ||| f (n-1)` on 32-bit words -/
def or32 (n : Nat) (f : Nat → BitVec 32) : BitVec 32 :=
  match n with
  | 0 => 0#32
  | n + 1 => or32 n f ||| f n

/-- where `P128` sends position `k` of slice `j`: `P128 (4k + j) = 4 * piS j k + j` -/
def piS (j k : Nat) : Nat := BC.Spec.Gift.P128 (4 * k + j) / 4

theorem P128_slice : ∀ j < 4, ∀ k < 32, BC.Spec.Gift.P128 (4 * k + j) = 4 * piS j k + j := by decide

def permSlice (j : Nat) (w : BitVec 32) : BitVec 32 := or32 32 (fun k => ((w >>> k) &&& 1#32) <<< piS j k)
def invPermSlice (j : Nat) (w : BitVec 32) : BitVec 32 := or32 32 (fun k => ((w >>> piS j k) &&& 1#32) <<< k)

def bsPerm (t : St) : St := ⟨permSlice 0 t.s0, permSlice 1 t.s1, permSlice 2 t.s2, permSlice 3 t.s3⟩
def bsInvPerm (t : St) : St := ⟨invPermSlice 0 t.s0, invPermSlice 1 t.s1, invPermSlice 2 t.s2, invPermSlice 3 t.s3⟩
/-- SubCells on slices: the Rust circuit followed by the exchange of the first and last word -/
def bsSub (t : St) : St := swap03 (sbox t.s0 t.s1 t.s2 t.s3)
def xorSt (a b : St) : St := ⟨a.s0 ^^^ b.s0, a.s1 ^^^ b.s1, a.s2 ^^^ b.s2, a.s3 ^^^ b.s3⟩
/-- AddRoundKey and the constant on slices: `V` into slice 1, `U` into slice 2, `1‖0…0‖c5…c0` into slice 3 -/
def bsKey (u v : BitVec 32) (c : BitVec 6) : St := ⟨0#32, v, u, 0x80000000#32 ||| c.setWidth 32⟩
def bsRound (t : St) (u v : BitVec 32) (c : BitVec 6) : St := xorSt (bsPerm (bsSub t)) (bsKey u v c)

/-- arrangement before round `j` of a quintuple round, relative to the plain bitslice arrangement `packing` -/
def G1 (t : St) : St := lin0 (swap03 (bsInvPerm t))
def G2 (t : St) : St := lin1 (G1 (bsInvPerm t))
def G3 (t : St) : St := lin2 (swap03 (G2 (bsInvPerm t)))
def G4 (t : St) : St := lin3 (G3 (bsInvPerm t))
def G5 (t : St) : St := lin4 (swap03 (G4 (bsInvPerm t)))

/-! ### fixsliced round-key words and constants as images of the spec's words -/

/-- `rkey[2j]` (added to `s1`) from the spec's `V` -/
def kmA0 (v : BitVec 32) : BitVec 32 := (G1 ⟨0#32, v, 0#32, 0#32⟩).s1
def kmA1 (v : BitVec 32) : BitVec 32 := (G2 ⟨0#32, v, 0#32, 0#32⟩).s1
def kmA2 (v : BitVec 32) : BitVec 32 := (G3 ⟨0#32, v, 0#32, 0#32⟩).s1
def kmA3 (v : BitVec 32) : BitVec 32 := (G4 ⟨0#32, v, 0#32, 0#32⟩).s1
def kmA4 (v : BitVec 32) : BitVec 32 := (G5 ⟨0#32, v, 0#32, 0#32⟩).s1
/-- `rkey[2j+1]` (added to `s2`) from the spec's `U` -/
def kmB0 (u : BitVec 32) : BitVec 32 := (G1 ⟨0#32, 0#32, u, 0#32⟩).s2
def kmB1 (u : BitVec 32) : BitVec 32 := (G2 ⟨0#32, 0#32, u, 0#32⟩).s2
def kmB2 (u : BitVec 32) : BitVec 32 := (G3 ⟨0#32, 0#32, u, 0#32⟩).s2
def kmB3 (u : BitVec 32) : BitVec 32 := (G4 ⟨0#32, 0#32, u, 0#32⟩).s2
def kmB4 (u : BitVec 32) : BitVec 32 := (G5 ⟨0#32, 0#32, u, 0#32⟩).s2
/-- `rconst[j]` (added to `s0` in rounds 0,2,4 and to `s3` in rounds 1,3) from the spec's constant -/
def kmC0 (c : BitVec 6) : BitVec 32 := (G1 ⟨0#32, 0#32, 0#32, 0x80000000#32 ||| c.setWidth 32⟩).s0
def kmC1 (c : BitVec 6) : BitVec 32 := (G2 ⟨0#32, 0#32, 0#32, 0x80000000#32 ||| c.setWidth 32⟩).s3
def kmC2 (c : BitVec 6) : BitVec 32 := (G3 ⟨0#32, 0#32, 0#32, 0x80000000#32 ||| c.setWidth 32⟩).s0
def kmC3 (c : BitVec 6) : BitVec 32 := (G4 ⟨0#32, 0#32, 0#32, 0x80000000#32 ||| c.setWidth 32⟩).s3
def kmC4 (c : BitVec 6) : BitVec 32 := (G5 ⟨0#32, 0#32, 0#32, 0x80000000#32 ||| c.setWidth 32⟩).s0

end BC.Gift.Conf
