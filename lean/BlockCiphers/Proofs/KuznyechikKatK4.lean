import BlockCiphers.Spec.Kuznyechik
/-
GOST R 34.12-2015 Annex A.1.4, kernel-evaluated: (K9, K10) = F[C32] … F[C25] (K7, K8).
(One module per pair so that the four evaluations run in parallel.)
-/
namespace BC.Kuznyechik.Kat
open BC.Spec.Kuznyechik

theorem nextPair_kat_4 : nextPair 4 (0x51e640757e8745de705727265a0098b1#128, 0x5a7925017b9fdd3ed72a91a22286f984#128) =
    (0xbb44e25378c73123a5f32f73cdb6e517#128, 0x72e9dd7416bcf45b755dbaa88e4a4043#128) := by decide +kernel

end BC.Kuznyechik.Kat
