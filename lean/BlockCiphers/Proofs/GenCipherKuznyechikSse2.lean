import BlockCiphers.Gen.Cipher_Kuznyechik_sse2
import BlockCiphers.Proofs.GenCipherKuznyechikSoft
import BlockCiphers.Proofs.KuznyechikBackends
/-!
Tie of the regenerated SSE2 back end of Kuznyechik (`Gen/Cipher_Kuznyechik_sse2.lean`, translated from
/repo/kuznyechik/src/sse2/backends.rs: `_mm_*` intrinsics as calls of their transcriptions in Prelude/X86Intrinsics.lean and
Prelude/KuzIntrinsics.lean, the fused tables computed by running the crate's `const fn`s and read through the data-dependent
pointers of `get!` as `BC.Gen.memRead16`) to the model `BC.Kuznyechik.Sse2`: for ALL round keys `k0 … k9` and ALL blocks

    kuznyechik_sse2_encrypt_block k0 … k9 b = Sse2.encrypt_block ⟨k0, …, k9⟩ b
    kuznyechik_sse2_decrypt_block k0 … k9 b = Sse2.decrypt_block ⟨k0, …, k9⟩ b
    kuznyechik_sse2_encrypt_par_blocks k0 … k9 b0 b1 b2 b3  (as a list) = Sse2.encrypt_par_blocks ⟨k0, …, k9⟩ [b0, b1, b2, b3]
    kuznyechik_sse2_decrypt_par_blocks k0 … k9 b0 b1 b2 b3  (as a list) = Sse2.decrypt_par_blocks ⟨k0, …, k9⟩ [b0, b1, b2, b3]

Steps: (0) every extern intrinsic of the Prelude equals the intrinsic function of the model (`loadu_eq` … `set_epi8_eq`);
(1) the generated text is definitionally the composition `encG` / `decG` of `trG` (`transform`) and `subG` (`sub_bytes`)
— kernel check (`kuz_kernel_rfl`); (2) the chunk tables are those of the big_soft translation (equality of array literals),
hence the model's `ENC_TABLE` / `DEC_TABLE` (`encS`, `decS` of Proofs/GenCipherKuznyechikSoft.lean): `MemOK`;
(3) the byte offset `_mm_extract_epi16(lind, k)` is a multiple of 16 (`Sse2.lind_lane_k`, `laneIdx_toNat` of
Proofs/KuznyechikSse2.lean), so the 16-byte load `memRead16` at that offset is word `offset / 16` = the model's `load_at`
(`getG_lind_k`, `getG_rind_k`); (4) the parallel functions are lane-wise the single-block ones (kernel check) and the
model's `*_par_blocks` on `ParBlocksSize` blocks is the map of the single-block function (Thm C04).
-/
set_option maxRecDepth 100000
set_option linter.unusedSimpArgs false
set_option linter.unusedVariables false
namespace BC.GenCipher.KuznyechikSse2
open BC BC.Kuznyechik BC.Gen.Fn BC.GenCipher.Kuznyechik

/-! ### the extern intrinsics are the model's -/
theorem rev128_eq (x : BitVec 128) : BC.X86.rev128 x = rev128 x := rfl
theorem loadu_eq (m : BitVec 128) : BC.X86._mm_loadu_si128 m = Sse2._mm_loadu_si128 m := rfl
theorem storeu_eq (m : BitVec 128) : BC.X86._mm_storeu_si128 m = Sse2._mm_storeu_si128 m := rfl
theorem xor_eq (a b : BitVec 128) : BC.X86._mm_xor_si128 a b = Sse2._mm_xor_si128 a b := rfl
theorem set_epi64x_eq (a b : BitVec 64) : BC.X86._mm_set_epi64x a b = Sse2._mm_set_epi64x a b := rfl
theorem extract_eq (a : BitVec 128) (i : Nat) (h : i < 8) :
    (BC.X86._mm_extract_epi16 a i).setWidth 16 = Sse2._mm_extract_epi16 a i := by
  simp only [BC.X86._mm_extract_epi16, BC.X86.word, Sse2._mm_extract_epi16, Nat.mod_eq_of_lt h]
  simp
theorem range16 : List.range 16 = [0,1,2,3,4,5,6,7,8,9,10,11,12,13,14,15] := by decide +kernel
theorem range8 : List.range 8 = [0,1,2,3,4,5,6,7] := by decide +kernel
theorem unpacklo_eq (a b : BitVec 128) : BC.X86._mm_unpacklo_epi8 a b = Sse2._mm_unpacklo_epi8 a b := by
  simp only [BC.X86._mm_unpacklo_epi8, BC.X86.byte, Sse2._mm_unpacklo_epi8, ofLeBytes, leByte, range16, List.foldl]
  simp
  bv_decide
theorem unpackhi_eq (a b : BitVec 128) : BC.X86._mm_unpackhi_epi8 a b = Sse2._mm_unpackhi_epi8 a b := by
  simp only [BC.X86._mm_unpackhi_epi8, BC.X86.byte, Sse2._mm_unpackhi_epi8, ofLeBytes, leByte, range16, List.foldl]
  simp
  bv_decide
theorem slli4_eq (a : BitVec 128) : BC.X86._mm_slli_epi16 a 4 = Sse2._mm_slli_epi16 a 4 := by
  simp only [BC.X86._mm_slli_epi16, BC.X86.word, Sse2._mm_slli_epi16, Sse2._mm_extract_epi16, range8, List.foldl,
    Nat.reduceSub, Nat.reduceMul, gt_iff_lt, Nat.reduceLT, ↓reduceIte]
  bv_decide
theorem set_epi8_eq (e15 e14 e13 e12 e11 e10 e9 e8 e7 e6 e5 e4 e3 e2 e1 e0 : BitVec 8) :
    BC.X86._mm_set_epi8 e15 e14 e13 e12 e11 e10 e9 e8 e7 e6 e5 e4 e3 e2 e1 e0 =
      Sse2._mm_set_epi8 [e15, e14, e13, e12, e11, e10, e9, e8, e7, e6, e5, e4, e3, e2, e1, e0] := by
  simp only [BC.X86._mm_set_epi8, Sse2._mm_set_epi8, List.foldl]
  bv_decide
theorem rev128_rev128 (x : BitVec 128) : rev128 (rev128 x) = x := by
  simp only [rev128, bswap64]; bv_decide
theorem load_memRead16 (mem : List (Array Nat)) (off : Nat) :
    BC.X86._mm_load_si128 (BC.Gen.memRead16 mem off) = BC.Gen.memLoadLE128 mem off := by
  simp only [BC.X86._mm_load_si128, BC.Gen.memRead16, rev128_eq, rev128_rev128]

/-- the chunks `mem` hold the model's table `tab` (word `q` = row `q`) -/
def MemOK (tab : Vector (BitVec 128) 4096) (mem : List (Array Nat)) : Prop :=
  ∀ (q : Nat) (h : q < 4096), BC.Gen.memWord mem q = tab[q]

theorem memLoad_aligned (mem : List (Array Nat)) (off : Nat) (h : off % 16 = 0) :
    BC.Gen.memLoadLE128 mem off = BC.Gen.memWord mem (off / 16) := by
  simp only [BC.Gen.memLoadLE128, h, Nat.mul_zero, Nat.sub_zero, BitVec.ushiftRight_zero]
  simp

theorem load_at_of_aligned (tab : Vector (BitVec 128) 4096) (mem : List (Array Nat)) (h : MemOK tab mem) (idx : BitVec 16)
    (ha : idx.toNat % 16 = 0) : BC.Gen.memLoadLE128 mem (idx.setWidth 64).toNat = load_at tab idx := by
  have h1 : (idx.setWidth 64).toNat = idx.toNat := by simp; omega
  rw [h1, memLoad_aligned _ _ ha, load_at]
  exact h _ (by have := idx.isLt; omega)

theorem row_at (tab : Vector (BitVec 128) 4096) (t : Array Nat) (i : Fin 16)
    (h : ∀ x : BitVec 8, BC.Gen.tblAt t (x.setWidth 64).toNat 128 = row tab i x) (x : Nat) (hx : x < 256) :
    BC.Gen.tblAt t x 128 = tab[256 * i.val + x]'(by have := i.isLt; omega) := by
  have h1 := h (BitVec.ofNat 8 x)
  rw [idx8] at h1
  simp only [row, BitVec.toNat_ofNat, Nat.reducePow, Nat.mod_eq_of_lt hx] at h1
  exact h1

theorem memWord_rows (tab : Vector (BitVec 128) 4096) (t0 t1 t2 t3 t4 t5 t6 t7 t8 t9 t10 t11 t12 t13 t14 t15 : Array Nat) (h : RowsOK tab t0 t1 t2 t3 t4 t5 t6 t7 t8 t9 t10 t11 t12 t13 t14 t15)
    (i x : Nat) (hi : i < 16) (hx : x < 256) :
    BC.Gen.memWord [t0, t1, t2, t3, t4, t5, t6, t7, t8, t9, t10, t11, t12, t13, t14, t15] (256 * i + x) = tab[256 * i + x]'(by omega) := by
  have e1 : (256 * i + x) / 256 = i := by omega
  have e2 : (256 * i + x) % 256 = x := by omega
  unfold BC.Gen.memWord
  rw [e1, e2]
  match i, hi with
  | 0, _ => exact row_at tab t0 ⟨0, by decide⟩ h.h0 x hx
  | 1, _ => exact row_at tab t1 ⟨1, by decide⟩ h.h1 x hx
  | 2, _ => exact row_at tab t2 ⟨2, by decide⟩ h.h2 x hx
  | 3, _ => exact row_at tab t3 ⟨3, by decide⟩ h.h3 x hx
  | 4, _ => exact row_at tab t4 ⟨4, by decide⟩ h.h4 x hx
  | 5, _ => exact row_at tab t5 ⟨5, by decide⟩ h.h5 x hx
  | 6, _ => exact row_at tab t6 ⟨6, by decide⟩ h.h6 x hx
  | 7, _ => exact row_at tab t7 ⟨7, by decide⟩ h.h7 x hx
  | 8, _ => exact row_at tab t8 ⟨8, by decide⟩ h.h8 x hx
  | 9, _ => exact row_at tab t9 ⟨9, by decide⟩ h.h9 x hx
  | 10, _ => exact row_at tab t10 ⟨10, by decide⟩ h.h10 x hx
  | 11, _ => exact row_at tab t11 ⟨11, by decide⟩ h.h11 x hx
  | 12, _ => exact row_at tab t12 ⟨12, by decide⟩ h.h12 x hx
  | 13, _ => exact row_at tab t13 ⟨13, by decide⟩ h.h13 x hx
  | 14, _ => exact row_at tab t14 ⟨14, by decide⟩ h.h14 x hx
  | 15, _ => exact row_at tab t15 ⟨15, by decide⟩ h.h15 x hx
  | n + 16, h' => omega

theorem memOK_of_rows (tab : Vector (BitVec 128) 4096) (t0 t1 t2 t3 t4 t5 t6 t7 t8 t9 t10 t11 t12 t13 t14 t15 : Array Nat) (h : RowsOK tab t0 t1 t2 t3 t4 t5 t6 t7 t8 t9 t10 t11 t12 t13 t14 t15) :
    MemOK tab [t0, t1, t2, t3, t4, t5, t6, t7, t8, t9, t10, t11, t12, t13, t14, t15] := by
  intro q hq
  have e : q = 256 * (q / 256) + q % 256 := by omega
  calc BC.Gen.memWord [t0, t1, t2, t3, t4, t5, t6, t7, t8, t9, t10, t11, t12, t13, t14, t15] q = BC.Gen.memWord [t0, t1, t2, t3, t4, t5, t6, t7, t8, t9, t10, t11, t12, t13, t14, t15] (256 * (q / 256) + q % 256) := by rw [← e]
    _ = tab[256 * (q / 256) + q % 256]'(by omega) := memWord_rows tab t0 t1 t2 t3 t4 t5 t6 t7 t8 t9 t10 t11 t12 t13 t14 t15 h _ _ (by omega) (by omega)
    _ = tab[q] := vec_getElem_congr _ _ _ _ _ e.symm

/-! ### `transform` -/

/-- `get!(table, ind, i)` -/
def getG (mem : List (Array Nat)) (ind : BitVec 128) (i : Nat) : BitVec 128 :=
  BC.X86._mm_load_si128 (BC.Gen.memRead16 mem (((BC.X86._mm_extract_epi16 ind i).setWidth 16).setWidth 64).toNat)

def indG : BitVec 128 := BC.X86._mm_set_epi64x 0xf0e0d0c0b0a0908#64 0x706050403020100#64
theorem indG_eq : indG = Sse2.ind := rfl

/-- `transform(block, table)` as generated -/
def trG (mem : List (Array Nat)) (b : BitVec 128) : BitVec 128 :=
  BC.X86._mm_xor_si128
    (BC.X86._mm_xor_si128 (BC.X86._mm_xor_si128 (BC.X86._mm_xor_si128 (BC.X86._mm_xor_si128 (BC.X86._mm_xor_si128 (BC.X86._mm_xor_si128 (BC.X86._mm_xor_si128 (getG mem (BC.X86._mm_slli_epi16 (BC.X86._mm_unpacklo_epi8 b indG) 4) 0) (getG mem (BC.X86._mm_slli_epi16 (BC.X86._mm_unpacklo_epi8 b indG) 4) 1)) (getG mem (BC.X86._mm_slli_epi16 (BC.X86._mm_unpacklo_epi8 b indG) 4) 2)) (getG mem (BC.X86._mm_slli_epi16 (BC.X86._mm_unpacklo_epi8 b indG) 4) 3)) (getG mem (BC.X86._mm_slli_epi16 (BC.X86._mm_unpacklo_epi8 b indG) 4) 4)) (getG mem (BC.X86._mm_slli_epi16 (BC.X86._mm_unpacklo_epi8 b indG) 4) 5)) (getG mem (BC.X86._mm_slli_epi16 (BC.X86._mm_unpacklo_epi8 b indG) 4) 6)) (getG mem (BC.X86._mm_slli_epi16 (BC.X86._mm_unpacklo_epi8 b indG) 4) 7))
    (BC.X86._mm_xor_si128 (BC.X86._mm_xor_si128 (BC.X86._mm_xor_si128 (BC.X86._mm_xor_si128 (BC.X86._mm_xor_si128 (BC.X86._mm_xor_si128 (BC.X86._mm_xor_si128 (getG mem (BC.X86._mm_slli_epi16 (BC.X86._mm_unpackhi_epi8 b indG) 4) 0) (getG mem (BC.X86._mm_slli_epi16 (BC.X86._mm_unpackhi_epi8 b indG) 4) 1)) (getG mem (BC.X86._mm_slli_epi16 (BC.X86._mm_unpackhi_epi8 b indG) 4) 2)) (getG mem (BC.X86._mm_slli_epi16 (BC.X86._mm_unpackhi_epi8 b indG) 4) 3)) (getG mem (BC.X86._mm_slli_epi16 (BC.X86._mm_unpackhi_epi8 b indG) 4) 4)) (getG mem (BC.X86._mm_slli_epi16 (BC.X86._mm_unpackhi_epi8 b indG) 4) 5)) (getG mem (BC.X86._mm_slli_epi16 (BC.X86._mm_unpackhi_epi8 b indG) 4) 6)) (getG mem (BC.X86._mm_slli_epi16 (BC.X86._mm_unpackhi_epi8 b indG) 4) 7))

theorem getG_eq (tab : Vector (BitVec 128) 4096) (mem : List (Array Nat)) (h : MemOK tab mem) (x : BitVec 128) (k : Nat) (hk : k < 8)
    (ha : (Sse2._mm_extract_epi16 x k).toNat % 16 = 0) : getG mem x k = Sse2.get tab x k := by
  unfold getG Sse2.get
  rw [load_memRead16, extract_eq _ k hk]
  exact load_at_of_aligned tab mem h _ ha
theorem getG_lind_0 (tab : Vector (BitVec 128) 4096) (mem : List (Array Nat)) (h : MemOK tab mem) (v : BitVec 128) :
    getG mem (Sse2._mm_slli_epi16 (Sse2._mm_unpacklo_epi8 v Sse2.ind) 4) 0 = Sse2.get tab (Sse2._mm_slli_epi16 (Sse2._mm_unpacklo_epi8 v Sse2.ind) 4) 0 := by
  apply getG_eq tab mem h _ 0 (by decide)
  rw [Sse2.lind_lane_0, laneIdx_toNat _ _ (by decide)]
  omega
theorem getG_rind_0 (tab : Vector (BitVec 128) 4096) (mem : List (Array Nat)) (h : MemOK tab mem) (v : BitVec 128) :
    getG mem (Sse2._mm_slli_epi16 (Sse2._mm_unpackhi_epi8 v Sse2.ind) 4) 0 = Sse2.get tab (Sse2._mm_slli_epi16 (Sse2._mm_unpackhi_epi8 v Sse2.ind) 4) 0 := by
  apply getG_eq tab mem h _ 0 (by decide)
  rw [Sse2.rind_lane_0, laneIdx_toNat _ _ (by decide)]
  omega
theorem getG_lind_1 (tab : Vector (BitVec 128) 4096) (mem : List (Array Nat)) (h : MemOK tab mem) (v : BitVec 128) :
    getG mem (Sse2._mm_slli_epi16 (Sse2._mm_unpacklo_epi8 v Sse2.ind) 4) 1 = Sse2.get tab (Sse2._mm_slli_epi16 (Sse2._mm_unpacklo_epi8 v Sse2.ind) 4) 1 := by
  apply getG_eq tab mem h _ 1 (by decide)
  rw [Sse2.lind_lane_1, laneIdx_toNat _ _ (by decide)]
  omega
theorem getG_rind_1 (tab : Vector (BitVec 128) 4096) (mem : List (Array Nat)) (h : MemOK tab mem) (v : BitVec 128) :
    getG mem (Sse2._mm_slli_epi16 (Sse2._mm_unpackhi_epi8 v Sse2.ind) 4) 1 = Sse2.get tab (Sse2._mm_slli_epi16 (Sse2._mm_unpackhi_epi8 v Sse2.ind) 4) 1 := by
  apply getG_eq tab mem h _ 1 (by decide)
  rw [Sse2.rind_lane_1, laneIdx_toNat _ _ (by decide)]
  omega
theorem getG_lind_2 (tab : Vector (BitVec 128) 4096) (mem : List (Array Nat)) (h : MemOK tab mem) (v : BitVec 128) :
    getG mem (Sse2._mm_slli_epi16 (Sse2._mm_unpacklo_epi8 v Sse2.ind) 4) 2 = Sse2.get tab (Sse2._mm_slli_epi16 (Sse2._mm_unpacklo_epi8 v Sse2.ind) 4) 2 := by
  apply getG_eq tab mem h _ 2 (by decide)
  rw [Sse2.lind_lane_2, laneIdx_toNat _ _ (by decide)]
  omega
theorem getG_rind_2 (tab : Vector (BitVec 128) 4096) (mem : List (Array Nat)) (h : MemOK tab mem) (v : BitVec 128) :
    getG mem (Sse2._mm_slli_epi16 (Sse2._mm_unpackhi_epi8 v Sse2.ind) 4) 2 = Sse2.get tab (Sse2._mm_slli_epi16 (Sse2._mm_unpackhi_epi8 v Sse2.ind) 4) 2 := by
  apply getG_eq tab mem h _ 2 (by decide)
  rw [Sse2.rind_lane_2, laneIdx_toNat _ _ (by decide)]
  omega
theorem getG_lind_3 (tab : Vector (BitVec 128) 4096) (mem : List (Array Nat)) (h : MemOK tab mem) (v : BitVec 128) :
    getG mem (Sse2._mm_slli_epi16 (Sse2._mm_unpacklo_epi8 v Sse2.ind) 4) 3 = Sse2.get tab (Sse2._mm_slli_epi16 (Sse2._mm_unpacklo_epi8 v Sse2.ind) 4) 3 := by
  apply getG_eq tab mem h _ 3 (by decide)
  rw [Sse2.lind_lane_3, laneIdx_toNat _ _ (by decide)]
  omega
theorem getG_rind_3 (tab : Vector (BitVec 128) 4096) (mem : List (Array Nat)) (h : MemOK tab mem) (v : BitVec 128) :
    getG mem (Sse2._mm_slli_epi16 (Sse2._mm_unpackhi_epi8 v Sse2.ind) 4) 3 = Sse2.get tab (Sse2._mm_slli_epi16 (Sse2._mm_unpackhi_epi8 v Sse2.ind) 4) 3 := by
  apply getG_eq tab mem h _ 3 (by decide)
  rw [Sse2.rind_lane_3, laneIdx_toNat _ _ (by decide)]
  omega
theorem getG_lind_4 (tab : Vector (BitVec 128) 4096) (mem : List (Array Nat)) (h : MemOK tab mem) (v : BitVec 128) :
    getG mem (Sse2._mm_slli_epi16 (Sse2._mm_unpacklo_epi8 v Sse2.ind) 4) 4 = Sse2.get tab (Sse2._mm_slli_epi16 (Sse2._mm_unpacklo_epi8 v Sse2.ind) 4) 4 := by
  apply getG_eq tab mem h _ 4 (by decide)
  rw [Sse2.lind_lane_4, laneIdx_toNat _ _ (by decide)]
  omega
theorem getG_rind_4 (tab : Vector (BitVec 128) 4096) (mem : List (Array Nat)) (h : MemOK tab mem) (v : BitVec 128) :
    getG mem (Sse2._mm_slli_epi16 (Sse2._mm_unpackhi_epi8 v Sse2.ind) 4) 4 = Sse2.get tab (Sse2._mm_slli_epi16 (Sse2._mm_unpackhi_epi8 v Sse2.ind) 4) 4 := by
  apply getG_eq tab mem h _ 4 (by decide)
  rw [Sse2.rind_lane_4, laneIdx_toNat _ _ (by decide)]
  omega
theorem getG_lind_5 (tab : Vector (BitVec 128) 4096) (mem : List (Array Nat)) (h : MemOK tab mem) (v : BitVec 128) :
    getG mem (Sse2._mm_slli_epi16 (Sse2._mm_unpacklo_epi8 v Sse2.ind) 4) 5 = Sse2.get tab (Sse2._mm_slli_epi16 (Sse2._mm_unpacklo_epi8 v Sse2.ind) 4) 5 := by
  apply getG_eq tab mem h _ 5 (by decide)
  rw [Sse2.lind_lane_5, laneIdx_toNat _ _ (by decide)]
  omega
theorem getG_rind_5 (tab : Vector (BitVec 128) 4096) (mem : List (Array Nat)) (h : MemOK tab mem) (v : BitVec 128) :
    getG mem (Sse2._mm_slli_epi16 (Sse2._mm_unpackhi_epi8 v Sse2.ind) 4) 5 = Sse2.get tab (Sse2._mm_slli_epi16 (Sse2._mm_unpackhi_epi8 v Sse2.ind) 4) 5 := by
  apply getG_eq tab mem h _ 5 (by decide)
  rw [Sse2.rind_lane_5, laneIdx_toNat _ _ (by decide)]
  omega
theorem getG_lind_6 (tab : Vector (BitVec 128) 4096) (mem : List (Array Nat)) (h : MemOK tab mem) (v : BitVec 128) :
    getG mem (Sse2._mm_slli_epi16 (Sse2._mm_unpacklo_epi8 v Sse2.ind) 4) 6 = Sse2.get tab (Sse2._mm_slli_epi16 (Sse2._mm_unpacklo_epi8 v Sse2.ind) 4) 6 := by
  apply getG_eq tab mem h _ 6 (by decide)
  rw [Sse2.lind_lane_6, laneIdx_toNat _ _ (by decide)]
  omega
theorem getG_rind_6 (tab : Vector (BitVec 128) 4096) (mem : List (Array Nat)) (h : MemOK tab mem) (v : BitVec 128) :
    getG mem (Sse2._mm_slli_epi16 (Sse2._mm_unpackhi_epi8 v Sse2.ind) 4) 6 = Sse2.get tab (Sse2._mm_slli_epi16 (Sse2._mm_unpackhi_epi8 v Sse2.ind) 4) 6 := by
  apply getG_eq tab mem h _ 6 (by decide)
  rw [Sse2.rind_lane_6, laneIdx_toNat _ _ (by decide)]
  omega
theorem getG_lind_7 (tab : Vector (BitVec 128) 4096) (mem : List (Array Nat)) (h : MemOK tab mem) (v : BitVec 128) :
    getG mem (Sse2._mm_slli_epi16 (Sse2._mm_unpacklo_epi8 v Sse2.ind) 4) 7 = Sse2.get tab (Sse2._mm_slli_epi16 (Sse2._mm_unpacklo_epi8 v Sse2.ind) 4) 7 := by
  apply getG_eq tab mem h _ 7 (by decide)
  rw [Sse2.lind_lane_7, laneIdx_toNat _ _ (by decide)]
  omega
theorem getG_rind_7 (tab : Vector (BitVec 128) 4096) (mem : List (Array Nat)) (h : MemOK tab mem) (v : BitVec 128) :
    getG mem (Sse2._mm_slli_epi16 (Sse2._mm_unpackhi_epi8 v Sse2.ind) 4) 7 = Sse2.get tab (Sse2._mm_slli_epi16 (Sse2._mm_unpackhi_epi8 v Sse2.ind) 4) 7 := by
  apply getG_eq tab mem h _ 7 (by decide)
  rw [Sse2.rind_lane_7, laneIdx_toNat _ _ (by decide)]
  omega

theorem trG_eq (tab : Vector (BitVec 128) 4096) (mem : List (Array Nat)) (h : MemOK tab mem) (b : BitVec 128) :
    trG mem b = Sse2.transform b tab := by
  simp only [trG, Sse2.transform, indG_eq, unpacklo_eq, unpackhi_eq, slli4_eq, xor_eq, getG_lind_0 tab mem h, getG_lind_1 tab mem h, getG_lind_2 tab mem h, getG_lind_3 tab mem h, getG_lind_4 tab mem h, getG_lind_5 tab mem h, getG_lind_6 tab mem h, getG_lind_7 tab mem h, getG_rind_0 tab mem h, getG_rind_1 tab mem h, getG_rind_2 tab mem h, getG_rind_3 tab mem h, getG_rind_4 tab mem h, getG_rind_5 tab mem h, getG_rind_6 tab mem h, getG_rind_7 tab mem h]

/-! ### `sub_bytes` -/

/-- `sub_bytes(block, sbox)` as generated -/
def subG (s : Array Nat) (b : BitVec 128) : BitVec 128 :=
  let t0 := (BC.X86._mm_extract_epi16 b 0).setWidth 16
  let t1 := (BC.X86._mm_extract_epi16 b 1).setWidth 16
  let t2 := (BC.X86._mm_extract_epi16 b 2).setWidth 16
  let t3 := (BC.X86._mm_extract_epi16 b 3).setWidth 16
  let t4 := (BC.X86._mm_extract_epi16 b 4).setWidth 16
  let t5 := (BC.X86._mm_extract_epi16 b 5).setWidth 16
  let t6 := (BC.X86._mm_extract_epi16 b 6).setWidth 16
  let t7 := (BC.X86._mm_extract_epi16 b 7).setWidth 16
  BC.X86._mm_set_epi8 (BC.Gen.tblAt s ((t7 >>> 8).setWidth 64).toNat 8) (BC.Gen.tblAt s ((t7 &&& 0xff#16).setWidth 64).toNat 8) (BC.Gen.tblAt s ((t6 >>> 8).setWidth 64).toNat 8) (BC.Gen.tblAt s ((t6 &&& 0xff#16).setWidth 64).toNat 8) (BC.Gen.tblAt s ((t5 >>> 8).setWidth 64).toNat 8) (BC.Gen.tblAt s ((t5 &&& 0xff#16).setWidth 64).toNat 8) (BC.Gen.tblAt s ((t4 >>> 8).setWidth 64).toNat 8) (BC.Gen.tblAt s ((t4 &&& 0xff#16).setWidth 64).toNat 8) (BC.Gen.tblAt s ((t3 >>> 8).setWidth 64).toNat 8) (BC.Gen.tblAt s ((t3 &&& 0xff#16).setWidth 64).toNat 8) (BC.Gen.tblAt s ((t2 >>> 8).setWidth 64).toNat 8) (BC.Gen.tblAt s ((t2 &&& 0xff#16).setWidth 64).toNat 8) (BC.Gen.tblAt s ((t1 >>> 8).setWidth 64).toNat 8) (BC.Gen.tblAt s ((t1 &&& 0xff#16).setWidth 64).toNat 8) (BC.Gen.tblAt s ((t0 >>> 8).setWidth 64).toNat 8) (BC.Gen.tblAt s ((t0 &&& 0xff#16).setWidth 64).toNat 8)

theorem hi_at (s : Array Nat) (sbox : Vector (BitVec 8) 256) (hs : ∀ x : BitVec 8, BC.Gen.tblAt s (x.setWidth 64).toNat 8 = lut sbox x)
    (t : BitVec 16) : BC.Gen.tblAt s ((t >>> 8).setWidth 64).toNat 8 = lut sbox ((t >>> 8).setWidth 8) := by
  have e : (t >>> 8).setWidth 64 = ((t >>> 8).setWidth 8).setWidth 64 := by bv_decide
  rw [e, hs]
theorem lo_at (s : Array Nat) (sbox : Vector (BitVec 8) 256) (hs : ∀ x : BitVec 8, BC.Gen.tblAt s (x.setWidth 64).toNat 8 = lut sbox x)
    (t : BitVec 16) : BC.Gen.tblAt s ((t &&& 0xff#16).setWidth 64).toNat 8 = lut sbox ((t &&& 0xFF#16).setWidth 8) := by
  have e : (t &&& 0xff#16).setWidth 64 = ((t &&& 0xff#16).setWidth 8).setWidth 64 := by bv_decide
  rw [e, hs]

theorem subG_eq (s : Array Nat) (sbox : Vector (BitVec 8) 256) (hs : ∀ x : BitVec 8, BC.Gen.tblAt s (x.setWidth 64).toNat 8 = lut sbox x)
    (b : BitVec 128) : subG s b = Sse2.sub_bytes b sbox := by
  simp only [subG, Sse2.sub_bytes, set_epi8_eq, hi_at s sbox hs, lo_at s sbox hs,
    extract_eq b 0 (by decide), extract_eq b 1 (by decide), extract_eq b 2 (by decide), extract_eq b 3 (by decide), extract_eq b 4 (by decide), extract_eq b 5 (by decide), extract_eq b 6 (by decide), extract_eq b 7 (by decide)]

/-! ### load / store of a block -/

def loadG (block : BitVec 128) : BitVec 128 := BC.X86._mm_loadu_si128 ((block.extractLsb' 120 8) ++ (block.extractLsb' 112 8) ++ (block.extractLsb' 104 8) ++ (block.extractLsb' 96 8) ++ (block.extractLsb' 88 8) ++ (block.extractLsb' 80 8) ++ (block.extractLsb' 72 8) ++ (block.extractLsb' 64 8) ++ (block.extractLsb' 56 8) ++ (block.extractLsb' 48 8) ++ (block.extractLsb' 40 8) ++ (block.extractLsb' 32 8) ++ (block.extractLsb' 24 8) ++ (block.extractLsb' 16 8) ++ (block.extractLsb' 8 8) ++ (block.extractLsb' 0 8))
def storeG (b : BitVec 128) : BitVec 128 :=
  let mem := BC.X86._mm_storeu_si128 b
  (mem.extractLsb' 120 8) ++ (mem.extractLsb' 112 8) ++ (mem.extractLsb' 104 8) ++ (mem.extractLsb' 96 8) ++ (mem.extractLsb' 88 8) ++ (mem.extractLsb' 80 8) ++ (mem.extractLsb' 72 8) ++ (mem.extractLsb' 64 8) ++ (mem.extractLsb' 56 8) ++ (mem.extractLsb' 48 8) ++ (mem.extractLsb' 40 8) ++ (mem.extractLsb' 32 8) ++ (mem.extractLsb' 24 8) ++ (mem.extractLsb' 16 8) ++ (mem.extractLsb' 8 8) ++ (mem.extractLsb' 0 8)
theorem bytes_id (x : BitVec 128) : (x.extractLsb' 120 8) ++ (x.extractLsb' 112 8) ++ (x.extractLsb' 104 8) ++ (x.extractLsb' 96 8) ++ (x.extractLsb' 88 8) ++ (x.extractLsb' 80 8) ++ (x.extractLsb' 72 8) ++ (x.extractLsb' 64 8) ++ (x.extractLsb' 56 8) ++ (x.extractLsb' 48 8) ++ (x.extractLsb' 40 8) ++ (x.extractLsb' 32 8) ++ (x.extractLsb' 24 8) ++ (x.extractLsb' 16 8) ++ (x.extractLsb' 8 8) ++ (x.extractLsb' 0 8) = x := by bv_decide
theorem loadG_eq (block : BitVec 128) : loadG block = Sse2._mm_loadu_si128 block := by
  simp only [loadG, bytes_id, loadu_eq]
theorem storeG_eq (b : BitVec 128) : storeG b = Sse2._mm_storeu_si128 b := by
  simp only [storeG, bytes_id, storeu_eq]

/-! ### `encrypt_block`, `decrypt_block` -/

def encG (mem : List (Array Nat)) (k0 k1 k2 k3 k4 k5 k6 k7 k8 k9 b : BitVec 128) : BitVec 128 :=
  storeG (BC.X86._mm_xor_si128 (trG mem (BC.X86._mm_xor_si128 (trG mem (BC.X86._mm_xor_si128 (trG mem (BC.X86._mm_xor_si128 (trG mem (BC.X86._mm_xor_si128 (trG mem (BC.X86._mm_xor_si128 (trG mem (BC.X86._mm_xor_si128 (trG mem (BC.X86._mm_xor_si128 (trG mem (BC.X86._mm_xor_si128 (trG mem (BC.X86._mm_xor_si128 (loadG b) k0)) k1)) k2)) k3)) k4)) k5)) k6)) k7)) k8)) k9)

def decG (mem : List (Array Nat)) (pinv : Array Nat) (k0 k1 k2 k3 k4 k5 k6 k7 k8 k9 b : BitVec 128) : BitVec 128 :=
  storeG (BC.X86._mm_xor_si128 (subG pinv (BC.X86._mm_xor_si128 (trG mem (BC.X86._mm_xor_si128 (trG mem (BC.X86._mm_xor_si128 (trG mem (BC.X86._mm_xor_si128 (trG mem (BC.X86._mm_xor_si128 (trG mem (BC.X86._mm_xor_si128 (trG mem (BC.X86._mm_xor_si128 (trG mem (BC.X86._mm_xor_si128 (trG mem (trG mem (subG BC.Gen.kuznyechik_P (BC.X86._mm_xor_si128 (loadG b) k0)))) k1)) k2)) k3)) k4)) k5)) k6)) k7)) k8)) k9)

theorem encG_eq (mem : List (Array Nat)) (h : MemOK ENC_TABLE.get mem) (k0 k1 k2 k3 k4 k5 k6 k7 k8 k9 b : BitVec 128) :
    encG mem k0 k1 k2 k3 k4 k5 k6 k7 k8 k9 b = Sse2.encrypt_block ⟨k0, k1, k2, k3, k4, k5, k6, k7, k8, k9⟩ b := by
  simp only [encG, Sse2.encrypt_block, List.foldl, loadG_eq, storeG_eq, xor_eq, trG_eq _ mem h]

theorem decG_eq (mem : List (Array Nat)) (h : MemOK DEC_TABLE.get mem) (pinv : Array Nat) (hp : PinvOK pinv) (k0 k1 k2 k3 k4 k5 k6 k7 k8 k9 b : BitVec 128) :
    decG mem pinv k0 k1 k2 k3 k4 k5 k6 k7 k8 k9 b = Sse2.decrypt_block ⟨k0, k1, k2, k3, k4, k5, k6, k7, k8, k9⟩ b := by
  simp only [decG, Sse2.decrypt_block, List.foldl, loadG_eq, storeG_eq, xor_eq, trG_eq _ mem h, subG_eq _ P p_at, subG_eq _ P_INV hp]

theorem encrypt_block_tbl_0 : kuznyechik_sse2_encrypt_block_tbl0 = kuznyechik_soft_encrypt_block_tbl0 := rfl
theorem encrypt_block_tbl_1 : kuznyechik_sse2_encrypt_block_tbl1 = kuznyechik_soft_encrypt_block_tbl1 := rfl
theorem encrypt_block_tbl_2 : kuznyechik_sse2_encrypt_block_tbl2 = kuznyechik_soft_encrypt_block_tbl2 := rfl
theorem encrypt_block_tbl_3 : kuznyechik_sse2_encrypt_block_tbl3 = kuznyechik_soft_encrypt_block_tbl3 := rfl
theorem encrypt_block_tbl_4 : kuznyechik_sse2_encrypt_block_tbl4 = kuznyechik_soft_encrypt_block_tbl4 := rfl
theorem encrypt_block_tbl_5 : kuznyechik_sse2_encrypt_block_tbl5 = kuznyechik_soft_encrypt_block_tbl5 := rfl
theorem encrypt_block_tbl_6 : kuznyechik_sse2_encrypt_block_tbl6 = kuznyechik_soft_encrypt_block_tbl6 := rfl
theorem encrypt_block_tbl_7 : kuznyechik_sse2_encrypt_block_tbl7 = kuznyechik_soft_encrypt_block_tbl7 := rfl
theorem encrypt_block_tbl_8 : kuznyechik_sse2_encrypt_block_tbl8 = kuznyechik_soft_encrypt_block_tbl8 := rfl
theorem encrypt_block_tbl_9 : kuznyechik_sse2_encrypt_block_tbl9 = kuznyechik_soft_encrypt_block_tbl9 := rfl
theorem encrypt_block_tbl_10 : kuznyechik_sse2_encrypt_block_tbl10 = kuznyechik_soft_encrypt_block_tbl10 := rfl
theorem encrypt_block_tbl_11 : kuznyechik_sse2_encrypt_block_tbl11 = kuznyechik_soft_encrypt_block_tbl11 := rfl
theorem encrypt_block_tbl_12 : kuznyechik_sse2_encrypt_block_tbl12 = kuznyechik_soft_encrypt_block_tbl12 := rfl
theorem encrypt_block_tbl_13 : kuznyechik_sse2_encrypt_block_tbl13 = kuznyechik_soft_encrypt_block_tbl13 := rfl
theorem encrypt_block_tbl_14 : kuznyechik_sse2_encrypt_block_tbl14 = kuznyechik_soft_encrypt_block_tbl14 := rfl
theorem encrypt_block_tbl_15 : kuznyechik_sse2_encrypt_block_tbl15 = kuznyechik_soft_encrypt_block_tbl15 := rfl
theorem encrypt_block_mem : MemOK ENC_TABLE.get kuznyechik_sse2_encrypt_block_mem0 := by
  rw [kuznyechik_sse2_encrypt_block_mem0, encrypt_block_tbl_0, encrypt_block_tbl_1, encrypt_block_tbl_2, encrypt_block_tbl_3, encrypt_block_tbl_4, encrypt_block_tbl_5, encrypt_block_tbl_6, encrypt_block_tbl_7, encrypt_block_tbl_8, encrypt_block_tbl_9, encrypt_block_tbl_10, encrypt_block_tbl_11, encrypt_block_tbl_12, encrypt_block_tbl_13, encrypt_block_tbl_14, encrypt_block_tbl_15]
  exact memOK_of_rows _ _ _ _ _ _ _ _ _ _ _ _ _ _ _ _ _ encS

theorem decrypt_block_tbl_0 : kuznyechik_sse2_decrypt_block_tbl0 = kuznyechik_soft_decrypt_block_tbl0 := rfl
theorem decrypt_block_tbl_1 : kuznyechik_sse2_decrypt_block_tbl1 = kuznyechik_soft_decrypt_block_tbl1 := rfl
theorem decrypt_block_tbl_2 : kuznyechik_sse2_decrypt_block_tbl2 = kuznyechik_soft_decrypt_block_tbl2 := rfl
theorem decrypt_block_tbl_3 : kuznyechik_sse2_decrypt_block_tbl3 = kuznyechik_soft_decrypt_block_tbl3 := rfl
theorem decrypt_block_tbl_4 : kuznyechik_sse2_decrypt_block_tbl4 = kuznyechik_soft_decrypt_block_tbl4 := rfl
theorem decrypt_block_tbl_5 : kuznyechik_sse2_decrypt_block_tbl5 = kuznyechik_soft_decrypt_block_tbl5 := rfl
theorem decrypt_block_tbl_6 : kuznyechik_sse2_decrypt_block_tbl6 = kuznyechik_soft_decrypt_block_tbl6 := rfl
theorem decrypt_block_tbl_7 : kuznyechik_sse2_decrypt_block_tbl7 = kuznyechik_soft_decrypt_block_tbl7 := rfl
theorem decrypt_block_tbl_8 : kuznyechik_sse2_decrypt_block_tbl8 = kuznyechik_soft_decrypt_block_tbl8 := rfl
theorem decrypt_block_tbl_9 : kuznyechik_sse2_decrypt_block_tbl9 = kuznyechik_soft_decrypt_block_tbl9 := rfl
theorem decrypt_block_tbl_10 : kuznyechik_sse2_decrypt_block_tbl10 = kuznyechik_soft_decrypt_block_tbl10 := rfl
theorem decrypt_block_tbl_11 : kuznyechik_sse2_decrypt_block_tbl11 = kuznyechik_soft_decrypt_block_tbl11 := rfl
theorem decrypt_block_tbl_12 : kuznyechik_sse2_decrypt_block_tbl12 = kuznyechik_soft_decrypt_block_tbl12 := rfl
theorem decrypt_block_tbl_13 : kuznyechik_sse2_decrypt_block_tbl13 = kuznyechik_soft_decrypt_block_tbl13 := rfl
theorem decrypt_block_tbl_14 : kuznyechik_sse2_decrypt_block_tbl14 = kuznyechik_soft_decrypt_block_tbl14 := rfl
theorem decrypt_block_tbl_15 : kuznyechik_sse2_decrypt_block_tbl15 = kuznyechik_soft_decrypt_block_tbl15 := rfl
theorem decrypt_block_tbl_16 : kuznyechik_sse2_decrypt_block_tbl16 = kuznyechik_soft_decrypt_block_tbl16 := rfl
theorem decrypt_block_mem : MemOK DEC_TABLE.get kuznyechik_sse2_decrypt_block_mem0 := by
  rw [kuznyechik_sse2_decrypt_block_mem0, decrypt_block_tbl_0, decrypt_block_tbl_1, decrypt_block_tbl_2, decrypt_block_tbl_3, decrypt_block_tbl_4, decrypt_block_tbl_5, decrypt_block_tbl_6, decrypt_block_tbl_7, decrypt_block_tbl_8, decrypt_block_tbl_9, decrypt_block_tbl_10, decrypt_block_tbl_11, decrypt_block_tbl_12, decrypt_block_tbl_13, decrypt_block_tbl_14, decrypt_block_tbl_15]
  exact memOK_of_rows _ _ _ _ _ _ _ _ _ _ _ _ _ _ _ _ _ decS

theorem decrypt_block_pinv : PinvOK kuznyechik_sse2_decrypt_block_tbl16 := by rw [decrypt_block_tbl_16]; exact pinvS

theorem sse2_encrypt_block_eq_G (k0 k1 k2 k3 k4 k5 k6 k7 k8 k9 b : BitVec 128) :
    kuznyechik_sse2_encrypt_block k0 k1 k2 k3 k4 k5 k6 k7 k8 k9 b = encG kuznyechik_sse2_encrypt_block_mem0 k0 k1 k2 k3 k4 k5 k6 k7 k8 k9 b := by
  kuz_kernel_rfl

theorem sse2_decrypt_block_eq_G (k0 k1 k2 k3 k4 k5 k6 k7 k8 k9 b : BitVec 128) :
    kuznyechik_sse2_decrypt_block k0 k1 k2 k3 k4 k5 k6 k7 k8 k9 b = decG kuznyechik_sse2_decrypt_block_mem0 kuznyechik_sse2_decrypt_block_tbl16 k0 k1 k2 k3 k4 k5 k6 k7 k8 k9 b := by
  kuz_kernel_rfl

/-- the regenerated `EncBackend::encrypt_block` (sse2) is the model's `Sse2.encrypt_block`, all keys, all blocks -/
theorem kuznyechik_sse2_encrypt_block_eq (k0 k1 k2 k3 k4 k5 k6 k7 k8 k9 b : BitVec 128) :
    kuznyechik_sse2_encrypt_block k0 k1 k2 k3 k4 k5 k6 k7 k8 k9 b = Sse2.encrypt_block ⟨k0, k1, k2, k3, k4, k5, k6, k7, k8, k9⟩ b := by
  rw [sse2_encrypt_block_eq_G, encG_eq _ encrypt_block_mem]

/-- the regenerated `DecBackend::decrypt_block` (sse2) is the model's `Sse2.decrypt_block`, all keys, all blocks -/
theorem kuznyechik_sse2_decrypt_block_eq (k0 k1 k2 k3 k4 k5 k6 k7 k8 k9 b : BitVec 128) :
    kuznyechik_sse2_decrypt_block k0 k1 k2 k3 k4 k5 k6 k7 k8 k9 b = Sse2.decrypt_block ⟨k0, k1, k2, k3, k4, k5, k6, k7, k8, k9⟩ b := by
  rw [sse2_decrypt_block_eq_G, decG_eq _ decrypt_block_mem _ decrypt_block_pinv]

/-! ### `encrypt_par_blocks`, `decrypt_par_blocks` (ParBlocksSize = 4) -/

theorem encrypt_par_blocks_tbl_0 : kuznyechik_sse2_encrypt_par_blocks_tbl0 = kuznyechik_soft_encrypt_block_tbl0 := rfl
theorem encrypt_par_blocks_tbl_1 : kuznyechik_sse2_encrypt_par_blocks_tbl1 = kuznyechik_soft_encrypt_block_tbl1 := rfl
theorem encrypt_par_blocks_tbl_2 : kuznyechik_sse2_encrypt_par_blocks_tbl2 = kuznyechik_soft_encrypt_block_tbl2 := rfl
theorem encrypt_par_blocks_tbl_3 : kuznyechik_sse2_encrypt_par_blocks_tbl3 = kuznyechik_soft_encrypt_block_tbl3 := rfl
theorem encrypt_par_blocks_tbl_4 : kuznyechik_sse2_encrypt_par_blocks_tbl4 = kuznyechik_soft_encrypt_block_tbl4 := rfl
theorem encrypt_par_blocks_tbl_5 : kuznyechik_sse2_encrypt_par_blocks_tbl5 = kuznyechik_soft_encrypt_block_tbl5 := rfl
theorem encrypt_par_blocks_tbl_6 : kuznyechik_sse2_encrypt_par_blocks_tbl6 = kuznyechik_soft_encrypt_block_tbl6 := rfl
theorem encrypt_par_blocks_tbl_7 : kuznyechik_sse2_encrypt_par_blocks_tbl7 = kuznyechik_soft_encrypt_block_tbl7 := rfl
theorem encrypt_par_blocks_tbl_8 : kuznyechik_sse2_encrypt_par_blocks_tbl8 = kuznyechik_soft_encrypt_block_tbl8 := rfl
theorem encrypt_par_blocks_tbl_9 : kuznyechik_sse2_encrypt_par_blocks_tbl9 = kuznyechik_soft_encrypt_block_tbl9 := rfl
theorem encrypt_par_blocks_tbl_10 : kuznyechik_sse2_encrypt_par_blocks_tbl10 = kuznyechik_soft_encrypt_block_tbl10 := rfl
theorem encrypt_par_blocks_tbl_11 : kuznyechik_sse2_encrypt_par_blocks_tbl11 = kuznyechik_soft_encrypt_block_tbl11 := rfl
theorem encrypt_par_blocks_tbl_12 : kuznyechik_sse2_encrypt_par_blocks_tbl12 = kuznyechik_soft_encrypt_block_tbl12 := rfl
theorem encrypt_par_blocks_tbl_13 : kuznyechik_sse2_encrypt_par_blocks_tbl13 = kuznyechik_soft_encrypt_block_tbl13 := rfl
theorem encrypt_par_blocks_tbl_14 : kuznyechik_sse2_encrypt_par_blocks_tbl14 = kuznyechik_soft_encrypt_block_tbl14 := rfl
theorem encrypt_par_blocks_tbl_15 : kuznyechik_sse2_encrypt_par_blocks_tbl15 = kuznyechik_soft_encrypt_block_tbl15 := rfl
theorem encrypt_par_blocks_mem : MemOK ENC_TABLE.get kuznyechik_sse2_encrypt_par_blocks_mem0 := by
  rw [kuznyechik_sse2_encrypt_par_blocks_mem0, encrypt_par_blocks_tbl_0, encrypt_par_blocks_tbl_1, encrypt_par_blocks_tbl_2, encrypt_par_blocks_tbl_3, encrypt_par_blocks_tbl_4, encrypt_par_blocks_tbl_5, encrypt_par_blocks_tbl_6, encrypt_par_blocks_tbl_7, encrypt_par_blocks_tbl_8, encrypt_par_blocks_tbl_9, encrypt_par_blocks_tbl_10, encrypt_par_blocks_tbl_11, encrypt_par_blocks_tbl_12, encrypt_par_blocks_tbl_13, encrypt_par_blocks_tbl_14, encrypt_par_blocks_tbl_15]
  exact memOK_of_rows _ _ _ _ _ _ _ _ _ _ _ _ _ _ _ _ _ encS

theorem decrypt_par_blocks_tbl_0 : kuznyechik_sse2_decrypt_par_blocks_tbl0 = kuznyechik_soft_decrypt_block_tbl0 := rfl
theorem decrypt_par_blocks_tbl_1 : kuznyechik_sse2_decrypt_par_blocks_tbl1 = kuznyechik_soft_decrypt_block_tbl1 := rfl
theorem decrypt_par_blocks_tbl_2 : kuznyechik_sse2_decrypt_par_blocks_tbl2 = kuznyechik_soft_decrypt_block_tbl2 := rfl
theorem decrypt_par_blocks_tbl_3 : kuznyechik_sse2_decrypt_par_blocks_tbl3 = kuznyechik_soft_decrypt_block_tbl3 := rfl
theorem decrypt_par_blocks_tbl_4 : kuznyechik_sse2_decrypt_par_blocks_tbl4 = kuznyechik_soft_decrypt_block_tbl4 := rfl
theorem decrypt_par_blocks_tbl_5 : kuznyechik_sse2_decrypt_par_blocks_tbl5 = kuznyechik_soft_decrypt_block_tbl5 := rfl
theorem decrypt_par_blocks_tbl_6 : kuznyechik_sse2_decrypt_par_blocks_tbl6 = kuznyechik_soft_decrypt_block_tbl6 := rfl
theorem decrypt_par_blocks_tbl_7 : kuznyechik_sse2_decrypt_par_blocks_tbl7 = kuznyechik_soft_decrypt_block_tbl7 := rfl
theorem decrypt_par_blocks_tbl_8 : kuznyechik_sse2_decrypt_par_blocks_tbl8 = kuznyechik_soft_decrypt_block_tbl8 := rfl
theorem decrypt_par_blocks_tbl_9 : kuznyechik_sse2_decrypt_par_blocks_tbl9 = kuznyechik_soft_decrypt_block_tbl9 := rfl
theorem decrypt_par_blocks_tbl_10 : kuznyechik_sse2_decrypt_par_blocks_tbl10 = kuznyechik_soft_decrypt_block_tbl10 := rfl
theorem decrypt_par_blocks_tbl_11 : kuznyechik_sse2_decrypt_par_blocks_tbl11 = kuznyechik_soft_decrypt_block_tbl11 := rfl
theorem decrypt_par_blocks_tbl_12 : kuznyechik_sse2_decrypt_par_blocks_tbl12 = kuznyechik_soft_decrypt_block_tbl12 := rfl
theorem decrypt_par_blocks_tbl_13 : kuznyechik_sse2_decrypt_par_blocks_tbl13 = kuznyechik_soft_decrypt_block_tbl13 := rfl
theorem decrypt_par_blocks_tbl_14 : kuznyechik_sse2_decrypt_par_blocks_tbl14 = kuznyechik_soft_decrypt_block_tbl14 := rfl
theorem decrypt_par_blocks_tbl_15 : kuznyechik_sse2_decrypt_par_blocks_tbl15 = kuznyechik_soft_decrypt_block_tbl15 := rfl
theorem decrypt_par_blocks_tbl_16 : kuznyechik_sse2_decrypt_par_blocks_tbl16 = kuznyechik_soft_decrypt_block_tbl16 := rfl
theorem decrypt_par_blocks_mem : MemOK DEC_TABLE.get kuznyechik_sse2_decrypt_par_blocks_mem0 := by
  rw [kuznyechik_sse2_decrypt_par_blocks_mem0, decrypt_par_blocks_tbl_0, decrypt_par_blocks_tbl_1, decrypt_par_blocks_tbl_2, decrypt_par_blocks_tbl_3, decrypt_par_blocks_tbl_4, decrypt_par_blocks_tbl_5, decrypt_par_blocks_tbl_6, decrypt_par_blocks_tbl_7, decrypt_par_blocks_tbl_8, decrypt_par_blocks_tbl_9, decrypt_par_blocks_tbl_10, decrypt_par_blocks_tbl_11, decrypt_par_blocks_tbl_12, decrypt_par_blocks_tbl_13, decrypt_par_blocks_tbl_14, decrypt_par_blocks_tbl_15]
  exact memOK_of_rows _ _ _ _ _ _ _ _ _ _ _ _ _ _ _ _ _ decS

theorem decrypt_par_blocks_pinv : PinvOK kuznyechik_sse2_decrypt_par_blocks_tbl16 := by rw [decrypt_par_blocks_tbl_16]; exact pinvS

theorem sse2_encrypt_par_blocks_eq_G (k0 k1 k2 k3 k4 k5 k6 k7 k8 k9 b0 b1 b2 b3 : BitVec 128) :
    kuznyechik_sse2_encrypt_par_blocks k0 k1 k2 k3 k4 k5 k6 k7 k8 k9 b0 b1 b2 b3 =
      (encG kuznyechik_sse2_encrypt_par_blocks_mem0 k0 k1 k2 k3 k4 k5 k6 k7 k8 k9 b0, encG kuznyechik_sse2_encrypt_par_blocks_mem0 k0 k1 k2 k3 k4 k5 k6 k7 k8 k9 b1, encG kuznyechik_sse2_encrypt_par_blocks_mem0 k0 k1 k2 k3 k4 k5 k6 k7 k8 k9 b2, encG kuznyechik_sse2_encrypt_par_blocks_mem0 k0 k1 k2 k3 k4 k5 k6 k7 k8 k9 b3) := by
  kuz_kernel_rfl

theorem sse2_decrypt_par_blocks_eq_G (k0 k1 k2 k3 k4 k5 k6 k7 k8 k9 b0 b1 b2 b3 : BitVec 128) :
    kuznyechik_sse2_decrypt_par_blocks k0 k1 k2 k3 k4 k5 k6 k7 k8 k9 b0 b1 b2 b3 =
      (decG kuznyechik_sse2_decrypt_par_blocks_mem0 kuznyechik_sse2_decrypt_par_blocks_tbl16 k0 k1 k2 k3 k4 k5 k6 k7 k8 k9 b0, decG kuznyechik_sse2_decrypt_par_blocks_mem0 kuznyechik_sse2_decrypt_par_blocks_tbl16 k0 k1 k2 k3 k4 k5 k6 k7 k8 k9 b1, decG kuznyechik_sse2_decrypt_par_blocks_mem0 kuznyechik_sse2_decrypt_par_blocks_tbl16 k0 k1 k2 k3 k4 k5 k6 k7 k8 k9 b2, decG kuznyechik_sse2_decrypt_par_blocks_mem0 kuznyechik_sse2_decrypt_par_blocks_tbl16 k0 k1 k2 k3 k4 k5 k6 k7 k8 k9 b3) := by
  kuz_kernel_rfl

/-- the four output blocks as a list -/
def list4 (t : BitVec 128 × BitVec 128 × BitVec 128 × BitVec 128) : List (BitVec 128) := [t.1, t.2.1, t.2.2.1, t.2.2.2]

/-- lane-wise form: the regenerated `encrypt_par_blocks` is `encrypt_block` on each of the four blocks -/
theorem kuznyechik_sse2_encrypt_par_blocks_lanes (k0 k1 k2 k3 k4 k5 k6 k7 k8 k9 b0 b1 b2 b3 : BitVec 128) :
    kuznyechik_sse2_encrypt_par_blocks k0 k1 k2 k3 k4 k5 k6 k7 k8 k9 b0 b1 b2 b3 =
      (Sse2.encrypt_block ⟨k0, k1, k2, k3, k4, k5, k6, k7, k8, k9⟩ b0, Sse2.encrypt_block ⟨k0, k1, k2, k3, k4, k5, k6, k7, k8, k9⟩ b1, Sse2.encrypt_block ⟨k0, k1, k2, k3, k4, k5, k6, k7, k8, k9⟩ b2, Sse2.encrypt_block ⟨k0, k1, k2, k3, k4, k5, k6, k7, k8, k9⟩ b3) := by
  rw [sse2_encrypt_par_blocks_eq_G]
  simp only [encG_eq _ encrypt_par_blocks_mem]

theorem kuznyechik_sse2_decrypt_par_blocks_lanes (k0 k1 k2 k3 k4 k5 k6 k7 k8 k9 b0 b1 b2 b3 : BitVec 128) :
    kuznyechik_sse2_decrypt_par_blocks k0 k1 k2 k3 k4 k5 k6 k7 k8 k9 b0 b1 b2 b3 =
      (Sse2.decrypt_block ⟨k0, k1, k2, k3, k4, k5, k6, k7, k8, k9⟩ b0, Sse2.decrypt_block ⟨k0, k1, k2, k3, k4, k5, k6, k7, k8, k9⟩ b1, Sse2.decrypt_block ⟨k0, k1, k2, k3, k4, k5, k6, k7, k8, k9⟩ b2, Sse2.decrypt_block ⟨k0, k1, k2, k3, k4, k5, k6, k7, k8, k9⟩ b3) := by
  rw [sse2_decrypt_par_blocks_eq_G]
  simp only [decG_eq _ decrypt_par_blocks_mem _ decrypt_par_blocks_pinv]

/-- the regenerated `EncBackend::encrypt_par_blocks` (sse2) is the model's `Sse2.encrypt_par_blocks` on four blocks -/
theorem kuznyechik_sse2_encrypt_par_blocks_eq (k0 k1 k2 k3 k4 k5 k6 k7 k8 k9 b0 b1 b2 b3 : BitVec 128) :
    list4 (kuznyechik_sse2_encrypt_par_blocks k0 k1 k2 k3 k4 k5 k6 k7 k8 k9 b0 b1 b2 b3) = Sse2.encrypt_par_blocks ⟨k0, k1, k2, k3, k4, k5, k6, k7, k8, k9⟩ [b0, b1, b2, b3] := by
  rw [kuznyechik_sse2_encrypt_par_blocks_lanes, Sse2.encrypt_par_blocks_eq_map _ _ rfl]
  rfl

/-- the regenerated `DecBackend::decrypt_par_blocks` (sse2) is the model's `Sse2.decrypt_par_blocks` on four blocks -/
theorem kuznyechik_sse2_decrypt_par_blocks_eq (k0 k1 k2 k3 k4 k5 k6 k7 k8 k9 b0 b1 b2 b3 : BitVec 128) :
    list4 (kuznyechik_sse2_decrypt_par_blocks k0 k1 k2 k3 k4 k5 k6 k7 k8 k9 b0 b1 b2 b3) = Sse2.decrypt_par_blocks ⟨k0, k1, k2, k3, k4, k5, k6, k7, k8, k9⟩ [b0, b1, b2, b3] := by
  rw [kuznyechik_sse2_decrypt_par_blocks_lanes, Sse2.decrypt_par_blocks_eq_map _ _ rfl]
  rfl

end BC.GenCipher.KuznyechikSse2
