import BlockCiphers.Proofs.KuznyechikKatK1
import BlockCiphers.Proofs.KuznyechikKatK2
import BlockCiphers.Proofs.KuznyechikKatK3
import BlockCiphers.Proofs.KuznyechikKatK4
/-
Known-answer vectors of GOST R 34.12-2015 Annex A.1 (= GOST 34.12-2018 A.1, RFC 7801 §5) evaluated by the Lean kernel on
the specification `Spec/Kuznyechik.lean`: A.1.1 (S), A.1.2 (R), A.1.3 (L), A.1.4 (C1..C8 and the iteration keys K1..K10).
-/
namespace BC.Kuznyechik.Kat
open BC.Spec.Kuznyechik

/-- A.1.4: the key of the annex -/
def K : BitVec 256 := 0x8899aabbccddeeff0011223344556677fedcba98765432100123456789abcdef#256

/-- A.1.4: K1, …, K10 -/
def Ks : List (BitVec 128) :=
  [0x8899aabbccddeeff0011223344556677#128, 0xfedcba98765432100123456789abcdef#128,
   0xdb31485315694343228d6aef8cc78c44#128, 0x3d4553d8e9cfec6815ebadc40a9ffd04#128,
   0x57646468c44a5e28d3e59246f429f1ac#128, 0xbd079435165c6432b532e82834da581b#128,
   0x51e640757e8745de705727265a0098b1#128, 0x5a7925017b9fdd3ed72a91a22286f984#128,
   0xbb44e25378c73123a5f32f73cdb6e517#128, 0x72e9dd7416bcf45b755dbaa88e4a4043#128]

-- A.1.1
example : S 0xffeeddccbbaa99881122334455667700#128 = 0xb66cd8887d38e8d77765aeea0c9a7efc#128 := by decide +kernel
example : S 0xb66cd8887d38e8d77765aeea0c9a7efc#128 = 0x559d8dd7bd06cbfe7e7b262523280d39#128 := by decide +kernel
example : S 0x559d8dd7bd06cbfe7e7b262523280d39#128 = 0x0c3322fed531e4630d80ef5c5a81c50b#128 := by decide +kernel
example : S 0x0c3322fed531e4630d80ef5c5a81c50b#128 = 0x23ae65633f842d29c5df529c13f5acda#128 := by decide +kernel
example : Sinv 0x23ae65633f842d29c5df529c13f5acda#128 = 0x0c3322fed531e4630d80ef5c5a81c50b#128 := by decide +kernel
-- A.1.2
example : R 0x00000000000000000000000000000100#128 = 0x94000000000000000000000000000001#128 := by decide +kernel
example : R 0x94000000000000000000000000000001#128 = 0xa5940000000000000000000000000000#128 := by decide +kernel
example : R 0xa5940000000000000000000000000000#128 = 0x64a59400000000000000000000000000#128 := by decide +kernel
example : R 0x64a59400000000000000000000000000#128 = 0x0d64a594000000000000000000000000#128 := by decide +kernel
example : Rinv 0x0d64a594000000000000000000000000#128 = 0x64a59400000000000000000000000000#128 := by decide +kernel
-- A.1.3
example : L 0x64a59400000000000000000000000000#128 = 0xd456584dd0e3e84cc3166e4b7fa2890d#128 := by decide +kernel
example : L 0xd456584dd0e3e84cc3166e4b7fa2890d#128 = 0x79d26221b87b584cd42fbc4ffea5de9a#128 := by decide +kernel
example : L 0x79d26221b87b584cd42fbc4ffea5de9a#128 = 0x0e93691a0cfc60408b7b68f66b513c13#128 := by decide +kernel
example : L 0x0e93691a0cfc60408b7b68f66b513c13#128 = 0xe6a8094fee0aa204fd97bcb0b44b8580#128 := by decide +kernel
example : Linv 0xe6a8094fee0aa204fd97bcb0b44b8580#128 = 0x0e93691a0cfc60408b7b68f66b513c13#128 := by decide +kernel
-- A.1.4: C1 … C8
example : (List.range 8).map (fun i => C (i + 1)) =
    [0x6ea276726c487ab85d27bd10dd849401#128, 0xdc87ece4d890f4b3ba4eb92079cbeb02#128,
     0xb2259a96b4d88e0be7690430a44f7f03#128, 0x7bcd1b0b73e32ba5b79cb140f2551504#128,
     0x156f6d791fab511deabb0c502fd18105#128, 0xa74af7efab73df160dd208608b9efe06#128,
     0xc9e8819dc73ba5ae50f5b570561a6a07#128, 0xf6593616e6055689adfba18027aa2a08#128] := by decide +kernel

/-- A.1.4: the iteration keys -/
theorem roundKeys_kat : roundKeys K = Ks := by
  have h0 : (BitVec.extractLsb' 128 128 K, BitVec.extractLsb' 0 128 K) =
      (0x8899aabbccddeeff0011223344556677#128, 0xfedcba98765432100123456789abcdef#128) := by decide +kernel
  simp only [roundKeys, h0, nextPair_kat_1, nextPair_kat_2, nextPair_kat_3, nextPair_kat_4, Ks]
  decide +kernel

end BC.Kuznyechik.Kat
