import BlockCiphers.Proofs.WordBytes
import BlockCiphers.Impl.Rc5
/-
RC5 (`BC.Rc5`, the model of /repo/rc5): decryption inverts encryption, for EVERY word width `w`, every
number of rounds, every expanded key table (hence every key of every length).
-/
namespace BC.Rc5

/-! ### the two shapes of `rotate_left` / `rotate_right` are "rotate by `n mod w`" -/

theorem amount_eq {w : Nat} (hw : w ≤ 2 ^ 32) (n : BitVec w) :
    (if w ≤ 32 then (n.setWidth 32).toNat else ((n % BitVec.ofNat w w).setWidth 32).toNat) % w
      = n.toNat % w := by
  by_cases h : w ≤ 32
  · simp only [h, if_true]
    rw [BitVec.toNat_setWidth_of_le h]
  · simp only [h, if_false]
    have hlt : w < 2 ^ w := Nat.lt_two_pow_self
    simp only [BitVec.toNat_setWidth, BitVec.toNat_umod, BitVec.toNat_ofNat, Nat.mod_eq_of_lt hlt]
    by_cases h0 : w = 0
    · omega
    · have : n.toNat % w < w := Nat.mod_lt _ (by omega)
      rw [Nat.mod_eq_of_lt (a := n.toNat % w) (by omega), Nat.mod_mod]

/-- u8/u16/u32 (amount passed unreduced) and u64/u128 (reduced explicitly) both rotate by `n mod w` -/
theorem rotlW_eq {w : Nat} (hw : w ≤ 2 ^ 32) (x n : BitVec w) :
    rotlW x n = x.rotateLeft (n.toNat % w) := by
  have := amount_eq hw n
  unfold rotlW
  split <;> rename_i h <;> simp only [h, if_true, if_false] at this <;>
    rw [← BitVec.rotateLeft_mod_eq_rotateLeft, this]

theorem rotrW_eq {w : Nat} (hw : w ≤ 2 ^ 32) (x n : BitVec w) :
    rotrW x n = x.rotateRight (n.toNat % w) := by
  have := amount_eq hw n
  unfold rotrW
  split <;> rename_i h <;> simp only [h, if_true, if_false] at this <;>
    rw [← BitVec.rotateRight_mod_eq_rotateRight, this]

theorem rotrW_rotlW {w : Nat} (x n : BitVec w) : rotrW (rotlW x n) n = x := by
  unfold rotrW rotlW; split <;> exact rotateRight_rotateLeft _ _

theorem rotlW_rotrW {w : Nat} (x n : BitVec w) : rotlW (rotrW x n) n = x := by
  unfold rotrW rotlW; split <;> exact rotateLeft_rotateRight _ _

/-! ### rounds -/

theorem decRound_encRound {w : Nat} (key : Array (BitVec w)) (i : Nat) (s : St w) :
    decRound key i (encRound key i s) = s := by
  cases s with | mk a b =>
  simp only [decRound, encRound, BitVec.add_sub_cancel, rotrW_rotlW, BitVec.xor_assoc,
    BitVec.xor_self, BitVec.xor_zero]

theorem encRound_decRound {w : Nat} (key : Array (BitVec w)) (i : Nat) (s : St w) :
    encRound key i (decRound key i s) = s := by
  cases s with | mk a b =>
  simp only [decRound, encRound, BitVec.xor_assoc, BitVec.xor_self, BitVec.xor_zero, rotlW_rotrW,
    BitVec.sub_add_cancel]

theorem decLoop_encLoop {w : Nat} (key : Array (BitVec w)) (n : Nat) (s : St w) :
    decLoop key n (encLoop key n s) = s := by
  induction n generalizing s with
  | zero => rfl
  | succ n ih => simp only [decLoop, encLoop, decRound_encRound, ih]

theorem encLoop_decLoop {w : Nat} (key : Array (BitVec w)) (n : Nat) (s : St w) :
    encLoop key n (decLoop key n s) = s := by
  induction n generalizing s with
  | zero => rfl
  | succ n ih => simp only [decLoop, encLoop, ih, encRound_decRound]

/-- word level, any `w`, any `r`, any table -/
theorem decryptWords_encryptWords {w : Nat} (key : Array (BitVec w)) (r : Nat) (s : St w) :
    decryptWords key r (encryptWords key r s) = s := by
  cases s with | mk a b =>
  simp only [decryptWords, encryptWords, decLoop_encLoop, BitVec.add_sub_cancel]

theorem encryptWords_decryptWords {w : Nat} (key : Array (BitVec w)) (r : Nat) (s : St w) :
    encryptWords key r (decryptWords key r s) = s := by
  cases s with | mk a b =>
  simp only [decryptWords, encryptWords, BitVec.sub_add_cancel]
  exact encLoop_decLoop key r ⟨a, b⟩

/-! ### bytes ↔ words -/

theorem fromLE_toLE {w : Nat} (hw : w % 8 = 0) (x : BitVec w) : fromLE w (toLE x) = x := by
  apply BitVec.eq_of_toNat_eq
  have h8 : 8 * (w / 8) = w := by omega
  simp only [fromLE, toLE, wordBytes, bytesToNatLE_toLEn, BitVec.toNat_ofNat, pow256, h8, Nat.mod_mod]
  exact Nat.mod_eq_of_lt x.isLt

theorem toLE_fromLE {w : Nat} (hw : w % 8 = 0) (bs : Bytes) (h : bs.length = wordBytes w) :
    toLE (fromLE w bs) = bs := by
  have h8 : 8 * (w / 8) = w := by omega
  have hp : 2 ^ w = 256 ^ (wordBytes w) := by rw [pow256, wordBytes, h8]
  simp only [fromLE, toLE, BitVec.toNat_ofNat]
  rw [hp, toLEn_mod, ← h, toLEn_bytesToNatLE]

theorem length_toLE {w : Nat} (x : BitVec w) : (toLE x).length = wordBytes w := by simp [toLE]

theorem wordsFromBlock_blockFromWords {w : Nat} (hw : w % 8 = 0) (s : St w) :
    wordsFromBlock w (blockFromWords s) = s := by
  cases s with | mk a b =>
  simp only [wordsFromBlock, blockFromWords]
  rw [List.take_left' (length_toLE a), List.drop_left' (length_toLE a), fromLE_toLE hw, fromLE_toLE hw]

theorem blockFromWords_wordsFromBlock {w : Nat} (hw : w % 8 = 0) (blk : Bytes)
    (h : blk.length = 2 * wordBytes w) : blockFromWords (wordsFromBlock w blk) = blk := by
  simp only [wordsFromBlock, blockFromWords]
  rw [toLE_fromLE hw _ (by simp; omega), toLE_fromLE hw _ (by simp; omega), List.take_append_drop]

theorem length_blockFromWords {w : Nat} (s : St w) : (blockFromWords s).length = 2 * wordBytes w := by
  simp [blockFromWords, length_toLE]; omega

/-! ### block level -/

/-- `decrypt_block ∘ encrypt_block = id` for every table (`w` a multiple of 8: the word has whole bytes) -/
theorem decryptBlock_encryptBlock {w : Nat} (hw : w % 8 = 0) (key : Array (BitVec w)) (r : Nat)
    (blk : Bytes) (h : blk.length = 2 * wordBytes w) :
    decryptBlock key r (encryptBlock key r blk) = blk := by
  simp only [decryptBlock, encryptBlock, wordsFromBlock_blockFromWords hw,
    decryptWords_encryptWords, blockFromWords_wordsFromBlock hw blk h]

theorem encryptBlock_decryptBlock {w : Nat} (hw : w % 8 = 0) (key : Array (BitVec w)) (r : Nat)
    (blk : Bytes) (h : blk.length = 2 * wordBytes w) :
    encryptBlock key r (decryptBlock key r blk) = blk := by
  simp only [decryptBlock, encryptBlock, wordsFromBlock_blockFromWords hw,
    encryptWords_decryptWords, blockFromWords_wordsFromBlock hw blk h]

/-- C01 for `RC5<W,R,B>`: every word width that is a multiple of 8 (in particular u8…u128), every round
count, every key length and key, every block. -/
theorem decrypt_encrypt (w r b : Nat) (hw : w % 8 = 0) (key blk : Bytes)
    (h : blk.length = 2 * wordBytes w) :
    decryptBlock (substituteKey w r b key) r (encryptBlock (substituteKey w r b key) r blk) = blk :=
  decryptBlock_encryptBlock hw _ r blk h

theorem encrypt_decrypt (w r b : Nat) (hw : w % 8 = 0) (key blk : Bytes)
    (h : blk.length = 2 * wordBytes w) :
    encryptBlock (substituteKey w r b key) r (decryptBlock (substituteKey w r b key) r blk) = blk :=
  encryptBlock_decryptBlock hw _ r blk h

end BC.Rc5
