import BlockCiphers.Gen.Aes_Armv8
import BlockCiphers.Impl.AesArmv8
import Std.Tactic.BVDecide
/-
Tie theorems: the functions regenerated from `/repo/aes/src/armv8/{encdec,expand,hazmat}.rs` (`Gen/Aes_Armv8.lean`, intrinsics mapped
to `Prelude/ArmIntrinsics.lean` by the extern table of the translator) ARE the functions of the hand-written model
`Impl/AesArmv8.lean`, for all inputs.  Round keys / registers: one `BitVec 128` each (register image, element 0 least
significant); blocks and keys: `BitVec (8n)`, byte 0 most significant; the model's `Bytes` key is `unpackBE n key`.  A tuple of
registers returned by a regenerated function is compared with the model's `List` through `l<n>`.
`expand_key::<L, N>`: the translator executes the `[u32]` view (`slice::from_raw_parts_mut`) of the register array as the
32-bit lanes of the registers and returns `BC.X86.ofDwords c3 c2 c1 c0` per register; the model's generic word loop
(`expand_columns`, `List.foldl` over `List.range'`) is evaluated by `simp only` on the literal index lists.
Produced by mk_armv8.py (only the long argument lists are mechanical).
-/
namespace BC.GenAesArmv8
open BC.Gen.Fn BC.X86 BC.Arm
set_option maxRecDepth 100000
set_option linter.unusedSimpArgs false

/-! ### glue -/

theorem cat16 (x : BitVec 128) : x.extractLsb' 120 8 ++ x.extractLsb' 112 8 ++ x.extractLsb' 104 8 ++ x.extractLsb' 96 8 ++ x.extractLsb' 88 8 ++ x.extractLsb' 80 8 ++ x.extractLsb' 72 8 ++ x.extractLsb' 64 8 ++ x.extractLsb' 56 8 ++ x.extractLsb' 48 8 ++ x.extractLsb' 40 8 ++ x.extractLsb' 32 8 ++ x.extractLsb' 24 8 ++ x.extractLsb' 16 8 ++ x.extractLsb' 8 8 ++ x.extractLsb' 0 8 = x := by
  bv_decide (config := { timeout := 300 })

/-- byte extraction as written by `unpackBE` -/
theorem ext8 {w : Nat} (x : BitVec w) (s : Nat) : x.extractLsb' s 8 = (x >>> s).setWidth 8 := by
  apply BitVec.eq_of_toNat_eq
  simp

theorem range11 : List.range 11 = [0,1,2,3,4,5,6,7,8,9,10] := by decide +kernel
theorem range13 : List.range 13 = [0,1,2,3,4,5,6,7,8,9,10,11,12] := by decide +kernel
theorem range15 : List.range 15 = [0,1,2,3,4,5,6,7,8,9,10,11,12,13,14] := by decide +kernel
theorem range16 : List.range 16 = [0,1,2,3,4,5,6,7,8,9,10,11,12,13,14,15] := by decide +kernel
theorem range24 : List.range 24 = [0,1,2,3,4,5,6,7,8,9,10,11,12,13,14,15,16,17,18,19,20,21,22,23] := by decide +kernel
theorem range32 : List.range 32 = [0,1,2,3,4,5,6,7,8,9,10,11,12,13,14,15,16,17,18,19,20,21,22,23,24,25,26,27,28,29,30,31] := by decide +kernel

def l8 (t : BitVec 128 × BitVec 128 × BitVec 128 × BitVec 128 × BitVec 128 × BitVec 128 × BitVec 128 × BitVec 128) : List (BitVec 128) :=
  match t with
  | (a0, a1, a2, a3, a4, a5, a6, a7) => [a0, a1, a2, a3, a4, a5, a6, a7]

def l11 (t : BitVec 128 × BitVec 128 × BitVec 128 × BitVec 128 × BitVec 128 × BitVec 128 × BitVec 128 × BitVec 128 × BitVec 128 × BitVec 128 × BitVec 128) : List (BitVec 128) :=
  match t with
  | (a0, a1, a2, a3, a4, a5, a6, a7, a8, a9, a10) => [a0, a1, a2, a3, a4, a5, a6, a7, a8, a9, a10]

def l13 (t : BitVec 128 × BitVec 128 × BitVec 128 × BitVec 128 × BitVec 128 × BitVec 128 × BitVec 128 × BitVec 128 × BitVec 128 × BitVec 128 × BitVec 128 × BitVec 128 × BitVec 128) : List (BitVec 128) :=
  match t with
  | (a0, a1, a2, a3, a4, a5, a6, a7, a8, a9, a10, a11, a12) => [a0, a1, a2, a3, a4, a5, a6, a7, a8, a9, a10, a11, a12]

def l15 (t : BitVec 128 × BitVec 128 × BitVec 128 × BitVec 128 × BitVec 128 × BitVec 128 × BitVec 128 × BitVec 128 × BitVec 128 × BitVec 128 × BitVec 128 × BitVec 128 × BitVec 128 × BitVec 128 × BitVec 128) : List (BitVec 128) :=
  match t with
  | (a0, a1, a2, a3, a4, a5, a6, a7, a8, a9, a10, a11, a12, a13, a14) => [a0, a1, a2, a3, a4, a5, a6, a7, a8, a9, a10, a11, a12, a13, a14]

def l17 (t : BitVec 128 × BitVec 128 × BitVec 128 × BitVec 128 × BitVec 128 × BitVec 128 × BitVec 128 × BitVec 128 × BitVec 128 × BitVec 128 × BitVec 128 × BitVec 128 × BitVec 128 × BitVec 128 × BitVec 128 × BitVec 128 × BitVec 128) : List (BitVec 128) :=
  match t with
  | (a0, a1, a2, a3, a4, a5, a6, a7, a8, a9, a10, a11, a12, a13, a14, a15, a16) => [a0, a1, a2, a3, a4, a5, a6, a7, a8, a9, a10, a11, a12, a13, a14, a15, a16]

def l19 (t : BitVec 128 × BitVec 128 × BitVec 128 × BitVec 128 × BitVec 128 × BitVec 128 × BitVec 128 × BitVec 128 × BitVec 128 × BitVec 128 × BitVec 128 × BitVec 128 × BitVec 128 × BitVec 128 × BitVec 128 × BitVec 128 × BitVec 128 × BitVec 128 × BitVec 128) : List (BitVec 128) :=
  match t with
  | (a0, a1, a2, a3, a4, a5, a6, a7, a8, a9, a10, a11, a12, a13, a14, a15, a16, a17, a18) => [a0, a1, a2, a3, a4, a5, a6, a7, a8, a9, a10, a11, a12, a13, a14, a15, a16, a17, a18]

def l21 (t : BitVec 128 × BitVec 128 × BitVec 128 × BitVec 128 × BitVec 128 × BitVec 128 × BitVec 128 × BitVec 128 × BitVec 128 × BitVec 128 × BitVec 128 × BitVec 128 × BitVec 128 × BitVec 128 × BitVec 128 × BitVec 128 × BitVec 128 × BitVec 128 × BitVec 128 × BitVec 128 × BitVec 128) : List (BitVec 128) :=
  match t with
  | (a0, a1, a2, a3, a4, a5, a6, a7, a8, a9, a10, a11, a12, a13, a14, a15, a16, a17, a18, a19, a20) => [a0, a1, a2, a3, a4, a5, a6, a7, a8, a9, a10, a11, a12, a13, a14, a15, a16, a17, a18, a19, a20]

/-! ### encdec.rs: `encrypt::<KEYS>`, `decrypt::<KEYS>` -/

theorem encrypt_11_eq (k0 k1 k2 k3 k4 k5 k6 k7 k8 k9 k10 b : BitVec 128) :
    armv8_encrypt_11 k0 k1 k2 k3 k4 k5 k6 k7 k8 k9 k10 b = BC.AesArmv8.encrypt [k0, k1, k2, k3, k4, k5, k6, k7, k8, k9, k10] b := by
  simp only [armv8_encrypt_11, cat16]
  rfl

theorem decrypt_11_eq (k0 k1 k2 k3 k4 k5 k6 k7 k8 k9 k10 b : BitVec 128) :
    armv8_decrypt_11 k0 k1 k2 k3 k4 k5 k6 k7 k8 k9 k10 b = BC.AesArmv8.decrypt [k0, k1, k2, k3, k4, k5, k6, k7, k8, k9, k10] b := by
  simp only [armv8_decrypt_11, cat16]
  rfl

theorem encrypt_13_eq (k0 k1 k2 k3 k4 k5 k6 k7 k8 k9 k10 k11 k12 b : BitVec 128) :
    armv8_encrypt_13 k0 k1 k2 k3 k4 k5 k6 k7 k8 k9 k10 k11 k12 b = BC.AesArmv8.encrypt [k0, k1, k2, k3, k4, k5, k6, k7, k8, k9, k10, k11, k12] b := by
  simp only [armv8_encrypt_13, cat16]
  rfl

theorem decrypt_13_eq (k0 k1 k2 k3 k4 k5 k6 k7 k8 k9 k10 k11 k12 b : BitVec 128) :
    armv8_decrypt_13 k0 k1 k2 k3 k4 k5 k6 k7 k8 k9 k10 k11 k12 b = BC.AesArmv8.decrypt [k0, k1, k2, k3, k4, k5, k6, k7, k8, k9, k10, k11, k12] b := by
  simp only [armv8_decrypt_13, cat16]
  rfl

theorem encrypt_15_eq (k0 k1 k2 k3 k4 k5 k6 k7 k8 k9 k10 k11 k12 k13 k14 b : BitVec 128) :
    armv8_encrypt_15 k0 k1 k2 k3 k4 k5 k6 k7 k8 k9 k10 k11 k12 k13 k14 b = BC.AesArmv8.encrypt [k0, k1, k2, k3, k4, k5, k6, k7, k8, k9, k10, k11, k12, k13, k14] b := by
  simp only [armv8_encrypt_15, cat16]
  rfl

theorem decrypt_15_eq (k0 k1 k2 k3 k4 k5 k6 k7 k8 k9 k10 k11 k12 k13 k14 b : BitVec 128) :
    armv8_decrypt_15 k0 k1 k2 k3 k4 k5 k6 k7 k8 k9 k10 k11 k12 k13 k14 b = BC.AesArmv8.decrypt [k0, k1, k2, k3, k4, k5, k6, k7, k8, k9, k10, k11, k12, k13, k14] b := by
  simp only [armv8_decrypt_15, cat16]
  rfl

/-! ### expand.rs -/

theorem expand_key_16_11_eq (key : BitVec 128) :
    l11 (armv8_expand_key_16_11 key) = BC.AesArmv8.expand_key (BC.unpackBE 16 key) 11 := by
  simp only [armv8_expand_key_16_11, ext8, l11]
  simp only [BC.AesArmv8.expand_key, BC.AesArmv8.expand_columns, BC.unpackBE, range16, range11, List.map_cons, List.map_nil,
    BC.AesArmv8.key_columns, BC.AesArmv8.store_columns, List.length_cons, List.length_nil, Nat.reduceAdd, Nat.reduceMul, Nat.reduceSub,
    Nat.reduceDiv, List.range', List.foldl_cons, List.foldl_nil, BC.AesArmv8.expand_word, Nat.reduceMod, ↓reduceIte,
    List.replicate, List.set_cons_zero, List.set_cons_succ, List.getD_cons_zero, List.getD_cons_succ,
    BC.AesArmv8.column_reg, BC.AesArmv8.ROUND_CONSTS, BC.AesArmv8.sub_word, Nat.reduceGT, false_and, true_and, Nat.reduceEqDiff]

theorem expand_key_24_13_eq (key : BitVec 192) :
    l13 (armv8_expand_key_24_13 key) = BC.AesArmv8.expand_key (BC.unpackBE 24 key) 13 := by
  simp only [armv8_expand_key_24_13, ext8, l13]
  simp only [BC.AesArmv8.expand_key, BC.AesArmv8.expand_columns, BC.unpackBE, range24, range13, List.map_cons, List.map_nil,
    BC.AesArmv8.key_columns, BC.AesArmv8.store_columns, List.length_cons, List.length_nil, Nat.reduceAdd, Nat.reduceMul, Nat.reduceSub,
    Nat.reduceDiv, List.range', List.foldl_cons, List.foldl_nil, BC.AesArmv8.expand_word, Nat.reduceMod, ↓reduceIte,
    List.replicate, List.set_cons_zero, List.set_cons_succ, List.getD_cons_zero, List.getD_cons_succ,
    BC.AesArmv8.column_reg, BC.AesArmv8.ROUND_CONSTS, BC.AesArmv8.sub_word, Nat.reduceGT, false_and, true_and, Nat.reduceEqDiff]

theorem expand_key_32_15_eq (key : BitVec 256) :
    l15 (armv8_expand_key_32_15 key) = BC.AesArmv8.expand_key (BC.unpackBE 32 key) 15 := by
  simp only [armv8_expand_key_32_15, ext8, l15]
  simp only [BC.AesArmv8.expand_key, BC.AesArmv8.expand_columns, BC.unpackBE, range32, range15, List.map_cons, List.map_nil,
    BC.AesArmv8.key_columns, BC.AesArmv8.store_columns, List.length_cons, List.length_nil, Nat.reduceAdd, Nat.reduceMul, Nat.reduceSub,
    Nat.reduceDiv, List.range', List.foldl_cons, List.foldl_nil, BC.AesArmv8.expand_word, Nat.reduceMod, ↓reduceIte,
    List.replicate, List.set_cons_zero, List.set_cons_succ, List.getD_cons_zero, List.getD_cons_succ,
    BC.AesArmv8.column_reg, BC.AesArmv8.ROUND_CONSTS, BC.AesArmv8.sub_word, Nat.reduceGT, false_and, true_and, Nat.reduceEqDiff]

theorem inv_expanded_keys_11_eq (k0 k1 k2 k3 k4 k5 k6 k7 k8 k9 k10 : BitVec 128) :
    l11 (armv8_inv_expanded_keys_11 k0 k1 k2 k3 k4 k5 k6 k7 k8 k9 k10) = BC.AesArmv8.inv_expanded_keys [k0, k1, k2, k3, k4, k5, k6, k7, k8, k9, k10] := by
  rfl

theorem inv_expanded_keys_13_eq (k0 k1 k2 k3 k4 k5 k6 k7 k8 k9 k10 k11 k12 : BitVec 128) :
    l13 (armv8_inv_expanded_keys_13 k0 k1 k2 k3 k4 k5 k6 k7 k8 k9 k10 k11 k12) = BC.AesArmv8.inv_expanded_keys [k0, k1, k2, k3, k4, k5, k6, k7, k8, k9, k10, k11, k12] := by
  rfl

theorem inv_expanded_keys_15_eq (k0 k1 k2 k3 k4 k5 k6 k7 k8 k9 k10 k11 k12 k13 k14 : BitVec 128) :
    l15 (armv8_inv_expanded_keys_15 k0 k1 k2 k3 k4 k5 k6 k7 k8 k9 k10 k11 k12 k13 k14) = BC.AesArmv8.inv_expanded_keys [k0, k1, k2, k3, k4, k5, k6, k7, k8, k9, k10, k11, k12, k13, k14] := by
  rfl

/-! ### encdec.rs: `encrypt_par::<KEYS, ParBlocks>`, `decrypt_par::<KEYS, ParBlocks>` for the three instantiations of armv8.rs (U21 / U19 / U17) -/

theorem encrypt_par_11_eq (k0 k1 k2 k3 k4 k5 k6 k7 k8 k9 k10 b0 b1 b2 b3 b4 b5 b6 b7 b8 b9 b10 b11 b12 b13 b14 b15 b16 b17 b18 b19 b20 : BitVec 128) :
    l21 (armv8_encrypt_par_11 k0 k1 k2 k3 k4 k5 k6 k7 k8 k9 k10 b0 b1 b2 b3 b4 b5 b6 b7 b8 b9 b10 b11 b12 b13 b14 b15 b16 b17 b18 b19 b20) = BC.AesArmv8.encrypt_par [k0, k1, k2, k3, k4, k5, k6, k7, k8, k9, k10] [b0, b1, b2, b3, b4, b5, b6, b7, b8, b9, b10, b11, b12, b13, b14, b15, b16, b17, b18, b19, b20] := by
  simp only [armv8_encrypt_par_11, cat16, l21]
  simp only [BC.AesArmv8.encrypt_par, BC.AesArmv8.enc_par_round, List.map_cons, List.map_nil, List.length_cons, List.length_nil, Nat.reduceAdd,
    Nat.reduceSub, List.getD_cons_zero, List.getD_cons_succ, ge_iff_le, Nat.reduceLeDiff, Nat.reduceEqDiff, ↓reduceIte]

theorem decrypt_par_11_eq (k0 k1 k2 k3 k4 k5 k6 k7 k8 k9 k10 b0 b1 b2 b3 b4 b5 b6 b7 b8 b9 b10 b11 b12 b13 b14 b15 b16 b17 b18 b19 b20 : BitVec 128) :
    l21 (armv8_decrypt_par_11 k0 k1 k2 k3 k4 k5 k6 k7 k8 k9 k10 b0 b1 b2 b3 b4 b5 b6 b7 b8 b9 b10 b11 b12 b13 b14 b15 b16 b17 b18 b19 b20) = BC.AesArmv8.decrypt_par [k0, k1, k2, k3, k4, k5, k6, k7, k8, k9, k10] [b0, b1, b2, b3, b4, b5, b6, b7, b8, b9, b10, b11, b12, b13, b14, b15, b16, b17, b18, b19, b20] := by
  simp only [armv8_decrypt_par_11, cat16, l21]
  simp only [BC.AesArmv8.decrypt_par, BC.AesArmv8.dec_par_round, List.map_cons, List.map_nil, List.length_cons, List.length_nil, Nat.reduceAdd,
    Nat.reduceSub, List.getD_cons_zero, List.getD_cons_succ, ge_iff_le, Nat.reduceLeDiff, Nat.reduceEqDiff, ↓reduceIte]

theorem encrypt_par_13_eq (k0 k1 k2 k3 k4 k5 k6 k7 k8 k9 k10 k11 k12 b0 b1 b2 b3 b4 b5 b6 b7 b8 b9 b10 b11 b12 b13 b14 b15 b16 b17 b18 : BitVec 128) :
    l19 (armv8_encrypt_par_13 k0 k1 k2 k3 k4 k5 k6 k7 k8 k9 k10 k11 k12 b0 b1 b2 b3 b4 b5 b6 b7 b8 b9 b10 b11 b12 b13 b14 b15 b16 b17 b18) = BC.AesArmv8.encrypt_par [k0, k1, k2, k3, k4, k5, k6, k7, k8, k9, k10, k11, k12] [b0, b1, b2, b3, b4, b5, b6, b7, b8, b9, b10, b11, b12, b13, b14, b15, b16, b17, b18] := by
  simp only [armv8_encrypt_par_13, cat16, l19]
  simp only [BC.AesArmv8.encrypt_par, BC.AesArmv8.enc_par_round, List.map_cons, List.map_nil, List.length_cons, List.length_nil, Nat.reduceAdd,
    Nat.reduceSub, List.getD_cons_zero, List.getD_cons_succ, ge_iff_le, Nat.reduceLeDiff, Nat.reduceEqDiff, ↓reduceIte]

theorem decrypt_par_13_eq (k0 k1 k2 k3 k4 k5 k6 k7 k8 k9 k10 k11 k12 b0 b1 b2 b3 b4 b5 b6 b7 b8 b9 b10 b11 b12 b13 b14 b15 b16 b17 b18 : BitVec 128) :
    l19 (armv8_decrypt_par_13 k0 k1 k2 k3 k4 k5 k6 k7 k8 k9 k10 k11 k12 b0 b1 b2 b3 b4 b5 b6 b7 b8 b9 b10 b11 b12 b13 b14 b15 b16 b17 b18) = BC.AesArmv8.decrypt_par [k0, k1, k2, k3, k4, k5, k6, k7, k8, k9, k10, k11, k12] [b0, b1, b2, b3, b4, b5, b6, b7, b8, b9, b10, b11, b12, b13, b14, b15, b16, b17, b18] := by
  simp only [armv8_decrypt_par_13, cat16, l19]
  simp only [BC.AesArmv8.decrypt_par, BC.AesArmv8.dec_par_round, List.map_cons, List.map_nil, List.length_cons, List.length_nil, Nat.reduceAdd,
    Nat.reduceSub, List.getD_cons_zero, List.getD_cons_succ, ge_iff_le, Nat.reduceLeDiff, Nat.reduceEqDiff, ↓reduceIte]

theorem encrypt_par_15_eq (k0 k1 k2 k3 k4 k5 k6 k7 k8 k9 k10 k11 k12 k13 k14 b0 b1 b2 b3 b4 b5 b6 b7 b8 b9 b10 b11 b12 b13 b14 b15 b16 : BitVec 128) :
    l17 (armv8_encrypt_par_15 k0 k1 k2 k3 k4 k5 k6 k7 k8 k9 k10 k11 k12 k13 k14 b0 b1 b2 b3 b4 b5 b6 b7 b8 b9 b10 b11 b12 b13 b14 b15 b16) = BC.AesArmv8.encrypt_par [k0, k1, k2, k3, k4, k5, k6, k7, k8, k9, k10, k11, k12, k13, k14] [b0, b1, b2, b3, b4, b5, b6, b7, b8, b9, b10, b11, b12, b13, b14, b15, b16] := by
  simp only [armv8_encrypt_par_15, cat16, l17]
  simp only [BC.AesArmv8.encrypt_par, BC.AesArmv8.enc_par_round, List.map_cons, List.map_nil, List.length_cons, List.length_nil, Nat.reduceAdd,
    Nat.reduceSub, List.getD_cons_zero, List.getD_cons_succ, ge_iff_le, Nat.reduceLeDiff, Nat.reduceEqDiff, ↓reduceIte]

theorem decrypt_par_15_eq (k0 k1 k2 k3 k4 k5 k6 k7 k8 k9 k10 k11 k12 k13 k14 b0 b1 b2 b3 b4 b5 b6 b7 b8 b9 b10 b11 b12 b13 b14 b15 b16 : BitVec 128) :
    l17 (armv8_decrypt_par_15 k0 k1 k2 k3 k4 k5 k6 k7 k8 k9 k10 k11 k12 k13 k14 b0 b1 b2 b3 b4 b5 b6 b7 b8 b9 b10 b11 b12 b13 b14 b15 b16) = BC.AesArmv8.decrypt_par [k0, k1, k2, k3, k4, k5, k6, k7, k8, k9, k10, k11, k12, k13, k14] [b0, b1, b2, b3, b4, b5, b6, b7, b8, b9, b10, b11, b12, b13, b14, b15, b16] := by
  simp only [armv8_decrypt_par_15, cat16, l17]
  simp only [BC.AesArmv8.decrypt_par, BC.AesArmv8.dec_par_round, List.map_cons, List.map_nil, List.length_cons, List.length_nil, Nat.reduceAdd,
    Nat.reduceSub, List.getD_cons_zero, List.getD_cons_succ, ge_iff_le, Nat.reduceLeDiff, Nat.reduceEqDiff, ↓reduceIte]

/-! ### hazmat.rs -/

theorem hazmat_cipher_round_eq (block round_key : BitVec 128) :
    armv8_hazmat_cipher_round block round_key = BC.AesArmv8.cipher_round block round_key := by
  simp only [armv8_hazmat_cipher_round, cat16]
  rfl

theorem hazmat_cipher_round_par_eq (b0 b1 b2 b3 b4 b5 b6 b7 k0 k1 k2 k3 k4 k5 k6 k7 : BitVec 128) :
    l8 (armv8_hazmat_cipher_round_par b0 b1 b2 b3 b4 b5 b6 b7 k0 k1 k2 k3 k4 k5 k6 k7) = BC.AesArmv8.cipher_round_par [b0, b1, b2, b3, b4, b5, b6, b7] [k0, k1, k2, k3, k4, k5, k6, k7] := by
  simp only [armv8_hazmat_cipher_round_par, cat16]
  rfl

theorem hazmat_equiv_inv_cipher_round_eq (block round_key : BitVec 128) :
    armv8_hazmat_equiv_inv_cipher_round block round_key = BC.AesArmv8.equiv_inv_cipher_round block round_key := by
  simp only [armv8_hazmat_equiv_inv_cipher_round, cat16]
  rfl

theorem hazmat_equiv_inv_cipher_round_par_eq (b0 b1 b2 b3 b4 b5 b6 b7 k0 k1 k2 k3 k4 k5 k6 k7 : BitVec 128) :
    l8 (armv8_hazmat_equiv_inv_cipher_round_par b0 b1 b2 b3 b4 b5 b6 b7 k0 k1 k2 k3 k4 k5 k6 k7) = BC.AesArmv8.equiv_inv_cipher_round_par [b0, b1, b2, b3, b4, b5, b6, b7] [k0, k1, k2, k3, k4, k5, k6, k7] := by
  simp only [armv8_hazmat_equiv_inv_cipher_round_par, cat16]
  rfl

theorem hazmat_mix_columns_eq (block : BitVec 128) :
    armv8_hazmat_mix_columns block = BC.AesArmv8.mix_columns block := by
  simp only [armv8_hazmat_mix_columns, cat16]
  rfl

theorem hazmat_inv_mix_columns_eq (block : BitVec 128) :
    armv8_hazmat_inv_mix_columns block = BC.AesArmv8.inv_mix_columns block := by
  simp only [armv8_hazmat_inv_mix_columns, cat16]
  rfl

end BC.GenAesArmv8