import BlockCiphers.Gen.Funcs
import BlockCiphers.Impl.Des
import Std.Tactic.BVDecide
/-
Tie of the regenerated DES bit-trick functions (`Gen/Funcs.lean`, translated from `/repo/des/src/utils.rs` on every
run) to the hand-written model `Impl/Des.lean`: each theorem says that the function *as it is in the repository now*
is, for every input, the function the DES theorems (C01, C05, C13, C20) are about.
-/
namespace BC.GenFuncs.Des
open BC.Gen.Fn

theorem pc1_eq (x : BitVec 64) : des_pc1 x = BC.Des.pc1 x := by
  first | rfl | (simp only [des_pc1, BC.Des.pc1, BC.Des.deltaSwap]; bv_decide)
theorem pc2_eq (x : BitVec 64) : des_pc2 x = BC.Des.pc2 x := by
  first | rfl | (simp only [des_pc2, BC.Des.pc2]; bv_decide)
theorem fp_eq (x : BitVec 64) : des_fp x = BC.Des.fp x := by
  first | rfl | (simp only [des_fp, BC.Des.fp, BC.Des.deltaSwap]; bv_decide)
theorem ip_eq (x : BitVec 64) : des_ip x = BC.Des.ip x := by
  first | rfl | (simp only [des_ip, BC.Des.ip, BC.Des.deltaSwap]; bv_decide)
theorem e_eq (x : BitVec 64) : des_e x = BC.Des.e x := by
  first | rfl | (simp only [des_e, BC.Des.e]; bv_decide)
theorem p_eq (x : BitVec 64) : des_p x = BC.Des.p x := by
  first | rfl | (simp only [des_p, BC.Des.p]; bv_decide)

end BC.GenFuncs.Des
