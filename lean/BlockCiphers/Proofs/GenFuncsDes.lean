import BlockCiphers.Gen.Funcs
import BlockCiphers.Impl.Des
import Std.Tactic.BVDecide
/-
Tie of the regenerated DES bit-trick functions (`Gen/Funcs.lean`, translated from `/repo/des/src/utils.rs` on every
run) to the hand-written model `Impl/Des.lean`: each theorem says that the function *as it is in the repository now*
is, for every input, the function the DES theorems (C01, C05, C13, C20) are about.
-/
namespace BC.GenFuncs.Des
open BC.Gen.Fn
set_option maxRecDepth 100000
set_option linter.unusedSimpArgs false

theorem pc1_eq (x : BitVec 64) : des_pc1 x = BC.Des.pc1 x := by
  simp only [des_pc1, BC.Des.pc1, BC.Des.deltaSwap] <;> bv_decide (config := { timeout := 300 })
theorem pc2_eq (x : BitVec 64) : des_pc2 x = BC.Des.pc2 x := by
  simp only [des_pc2, BC.Des.pc2] <;> bv_decide (config := { timeout := 300 })
theorem fp_eq (x : BitVec 64) : des_fp x = BC.Des.fp x := by
  simp only [des_fp, BC.Des.fp, BC.Des.deltaSwap] <;> bv_decide (config := { timeout := 300 })
theorem ip_eq (x : BitVec 64) : des_ip x = BC.Des.ip x := by
  simp only [des_ip, BC.Des.ip, BC.Des.deltaSwap] <;> bv_decide (config := { timeout := 300 })
theorem e_eq (x : BitVec 64) : des_e x = BC.Des.e x := by
  simp only [des_e, BC.Des.e] <;> bv_decide (config := { timeout := 300 })
theorem p_eq (x : BitVec 64) : des_p x = BC.Des.p x := by
  simp only [des_p, BC.Des.p] <;> bv_decide (config := { timeout := 300 })


/-! ### functions that read the S-box table: the regenerated table `Gen.des_SBOXES` (flattened `[[u8; 64]; 8]`) against the
model's `SBOXES`, entry by entry, then the three functions built on it -/

theorem sbox_entry : ∀ i : Fin 8, ∀ n : Fin 64,
    BC.Gen.tblAt BC.Gen.des_SBOXES (64 * i.val + n.val) 8 = (BC.Des.SBOXES.getD i.val #[]).getD n.val 0#8 := by
  decide +kernel

theorem mask_lt (v : BitVec 64) : (v &&& 0x3f#64).toNat < 64 := by
  rw [BitVec.toNat_and]
  exact Nat.lt_succ_of_le Nat.and_le_right

theorem sbox_at (i : Nat) (hi : i < 8) (v : BitVec 64) :
    (BC.Gen.tblAt BC.Gen.des_SBOXES (64 * i + (v &&& 0x3f#64).toNat) 8).setWidth 64 = BC.Des.sboxAt i (v &&& 0x3f#64) := by
  have h := sbox_entry ⟨i, hi⟩ ⟨(v &&& 0x3f#64).toNat, mask_lt v⟩
  simp only at h
  simp only [BC.Des.sboxAt, h]

theorem apply_sboxes_eq (x : BitVec 64) : des_apply_sboxes x = BC.Des.applySboxes x := by
  have h0 := sbox_at 0 (by omega) (x >>> 58)
  have h1 := sbox_at 1 (by omega) (x >>> 52)
  have h2 := sbox_at 2 (by omega) (x >>> 46)
  have h3 := sbox_at 3 (by omega) (x >>> 40)
  have h4 := sbox_at 4 (by omega) (x >>> 34)
  have h5 := sbox_at 5 (by omega) (x >>> 28)
  have h6 := sbox_at 6 (by omega) (x >>> 22)
  have h7 := sbox_at 7 (by omega) (x >>> 16)
  simp only [Nat.mul_zero, Nat.zero_add, Nat.mul_one, Nat.reduceMul] at h0 h1 h2 h3 h4 h5 h6 h7
  simp only [des_apply_sboxes, BC.Des.applySboxes, BC.Des.sboxStep, h0, h1, h2, h3, h4, h5, h6, h7,
    Nat.mul_zero, Nat.sub_zero, Nat.reduceMul, Nat.reduceSub, BitVec.zero_or]

theorem f_eq (x k : BitVec 64) : des_f x k = BC.Des.f x k := by
  have h : des_f x k = des_p (des_apply_sboxes (des_e x ^^^ k)) := rfl
  rw [h, e_eq, apply_sboxes_eq, p_eq]; rfl

theorem round_eq (x k : BitVec 64) : des_round x k = BC.Des.round x k := by
  have h : des_round x k = (x <<< 32) ||| ((des_f (x <<< 32) k ^^^ (x &&& 0xFFFFFFFF00000000#64)) >>> 32) := rfl
  rw [h, f_eq]; rfl

end BC.GenFuncs.Des
