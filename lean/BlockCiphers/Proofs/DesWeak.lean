import BlockCiphers.Proofs.DesSpec
import BlockCiphers.Spec.DesWeak
/-
C13 for the `des` crate: `weak_key_test` flags exactly the 64 degenerate keys, on the 56 key bits
(parity ignored), independently of the target's byte order; TDES: some part weak or two parts the same DES key.
-/
namespace BC.Des
open BC.Spec.Des (stripParity weak56 weak64 weakKeys semiWeakKeys possiblyWeakKeys roundKeys degenerate C0 D0)

/-! ### the u8 flag accumulation -/

theorem u8_or_ne_zero (a b : BitVec 8) : (a ||| b != 0#8) = (a != 0#8 || b != 0#8) := by bv_decide (config := { timeout := 600 })

theorem u8OfBool_ne_zero (b : Bool) : (u8OfBool b != 0#8) = b := by cases b <;> decide

theorem foldl_or_ne_zero {α : Type} (p : α → Bool) (l : List α) (a : BitVec 8) :
    ((l.foldl (fun acc w => acc ||| u8OfBool (p w)) a) != 0#8) = (a != 0#8 || l.any p) := by
  induction l generalizing a with
  | nil => simp
  | cons w l ih => rw [List.foldl_cons, ih, u8_or_ne_zero, u8OfBool_ne_zero, List.any_cons, Bool.or_assoc]

/-- lib.rs `weak_key_test(key) != 0` ⇔ some table entry is the same DES key -/
theorem weakKeyTestU64_ne_zero (le : Bool) (key : BitVec 64) :
    (weakKeyTestU64 le key != 0#8) = (WEAK_KEYS le).any (sameDesKey key) := by
  unfold weakKeyTestU64; rw [foldl_or_ne_zero]; simp

/-! ### the comparison ignores parity and the byte order -/

theorem sameDesKey_fromNe (le : Bool) (a b : BitVec 64) :
    sameDesKey (fromNe le a) (fromNe le b) = sameDesKey a b := by
  cases le
  · rfl
  · simp only [fromNe, sameDesKey, bswap64, if_true]; bv_decide (config := { timeout := 600 })

theorem sameDesKey_iff_stripParity (a b : BitVec 64) :
    sameDesKey a b = (stripParity a == stripParity b) := by
  unfold sameDesKey stripParity; bv_decide (config := { timeout := 600 })

/-- flipping parity bits of the candidate never changes the verdict -/
theorem sameDesKey_parity (a b m : BitVec 64) (hm : m &&& 0xFEFEFEFEFEFEFEFE#64 = 0#64) :
    sameDesKey (a ^^^ m) b = sameDesKey a b := by
  unfold sameDesKey; bv_decide (config := { timeout := 600 })

theorem weakNe_eq_any (le : Bool) (key : BitVec 64) :
    weakNe le key = WEAK_KEYS_BYTES.any (fun w => stripParity key == stripParity w) := by
  unfold weakNe
  rw [weakKeyTestU64_ne_zero, WEAK_KEYS, List.any_map]
  congr 1; funext w
  simp only [Function.comp, sameDesKey_fromNe]
  exact sameDesKey_iff_stripParity key w

/-! ### the table of consts.rs is the independent list -/

/-- consts.rs `WEAK_KEYS` and `Spec.weak64` contain the same 56-bit keys (both directions, all 64 entries) -/
theorem table_sub_weak56_bool :
    (WEAK_KEYS_BYTES.all fun w => weak56.contains (stripParity w)) = true := by decide +kernel
theorem weak56_sub_table_bool :
    (weak56.all fun x => (WEAK_KEYS_BYTES.map stripParity).contains x) = true := by decide +kernel
theorem table_sub_weak56 : ∀ w ∈ WEAK_KEYS_BYTES, stripParity w ∈ weak56 := by
  intro w hw
  have h := List.all_eq_true.mp table_sub_weak56_bool w hw
  simpa using h
theorem weak56_sub_table : ∀ x ∈ weak56, x ∈ WEAK_KEYS_BYTES.map stripParity := by
  intro x hx
  have h := List.all_eq_true.mp weak56_sub_table_bool x hx
  exact List.contains_iff_mem.mp h
theorem weak56_nodup : weak56.Nodup := by decide +kernel
theorem weak56_length : weak56.length = 64 := by decide +kernel
/-- the table as written already has odd parity in every byte and no duplicates -/
theorem table_nodup : (WEAK_KEYS_BYTES.map stripParity).Nodup := by decide +kernel

/-- **C13 (Des)**: `Des::weak_key_test(key)` is `Err(WeakKeyError)` exactly when the 56 key bits are one of
the 4 weak + 12 semi-weak + 48 possibly weak keys — whatever the parity bits and the target byte order. -/
theorem des_weak_iff (le : Bool) (key : BitVec 64) :
    weakNe le key = true ↔ stripParity key ∈ weak56 := by
  rw [weakNe_eq_any, List.any_eq_true]
  constructor
  · rintro ⟨w, hw, h⟩
    have : stripParity key = stripParity w := by simpa using h
    rw [this]; exact table_sub_weak56 w hw
  · intro h
    obtain ⟨w, hw, hEq⟩ := List.mem_map.mp (weak56_sub_table _ h)
    exact ⟨w, hw, by simp [hEq]⟩

theorem des_weak_iff' (key : BitVec 64) : weak key = true ↔ stripParity key ∈ weak56 := des_weak_iff true key

/-- the verdict does not depend on the byte order of the target (`from_ne_bytes` on both sides) -/
theorem weakNe_byteorder (key : BitVec 64) : weakNe true key = weakNe false key := by
  rw [weakNe_eq_any, weakNe_eq_any]

/-- the verdict does not depend on the parity bits -/
theorem weak_parity (key m : BitVec 64) (hm : m &&& 0xFEFEFEFEFEFEFEFE#64 = 0#64) :
    weak (key ^^^ m) = weak key := by
  have : stripParity (key ^^^ m) = stripParity key := by unfold stripParity; bv_decide (config := { timeout := 600 })
  unfold weak; rw [weakNe_eq_any, weakNe_eq_any, this]

/-- non-vacuity: the all-zero key (even parity) is flagged, like `01…01` -/
example : weak 0#64 = true := by decide +kernel
example : weak 0x0101010101010101#64 = true := by decide +kernel
example : weak 0x0123456789ABCDEF#64 = false := by decide +kernel

/-! ### TDES -/

/-- **C13 (TdesEde2 / TdesEee2)**: weak ⇔ a part is weak or the two parts are the same DES key -/
theorem tdes2_weak_iff (le : Bool) (key : BitVec 128) :
    weak2Ne le key = (weakNe le (k1of2 key) || weakNe le (k2of2 key) ||
      (stripParity (k1of2 key) == stripParity (k2of2 key))) := by
  simp only [weak2Ne, weakNe, u8_or_ne_zero, u8OfBool_ne_zero, sameDesKey_fromNe]
  simp [sameDesKey_iff_stripParity]

/-- **C13 (TdesEde3 / TdesEee3)**: weak ⇔ a part is weak or two parts are the same DES key -/
theorem tdes3_weak_iff (le : Bool) (key : BitVec 192) :
    weak3Ne le key = (weakNe le (k1of3 key) || weakNe le (k2of3 key) || weakNe le (k3of3 key) ||
      (stripParity (k1of3 key) == stripParity (k2of3 key)) ||
      (stripParity (k1of3 key) == stripParity (k3of3 key)) ||
      (stripParity (k2of3 key) == stripParity (k3of3 key))) := by
  simp only [weak3Ne, weakNe, u8_or_ne_zero, u8OfBool_ne_zero, sameDesKey_fromNe]
  simp [sameDesKey_iff_stripParity]

theorem tdes2_weak_iff' (key : BitVec 128) :
    weak2 key = true ↔ (stripParity (k1of2 key) ∈ weak56 ∨ stripParity (k2of2 key) ∈ weak56 ∨
      stripParity (k1of2 key) = stripParity (k2of2 key)) := by
  unfold weak2
  rw [tdes2_weak_iff]
  simp only [Bool.or_eq_true, des_weak_iff, beq_iff_eq, or_assoc]

theorem tdes3_weak_iff' (key : BitVec 192) :
    weak3 key = true ↔ (stripParity (k1of3 key) ∈ weak56 ∨ stripParity (k2of3 key) ∈ weak56 ∨
      stripParity (k3of3 key) ∈ weak56 ∨
      stripParity (k1of3 key) = stripParity (k2of3 key) ∨
      stripParity (k1of3 key) = stripParity (k3of3 key) ∨
      stripParity (k2of3 key) = stripParity (k3of3 key)) := by
  unfold weak3
  rw [tdes3_weak_iff]
  simp only [Bool.or_eq_true, des_weak_iff, beq_iff_eq, or_assoc]

/-! ### what the flagged keys mean for the cipher -/

/-- equal 56-bit keys give the same cipher instance -/
theorem genKeys_of_stripParity (k1 k2 : BitVec 64) (h : stripParity k1 = stripParity k2) :
    genKeys k1 = genKeys k2 :=
  genKeys_of_sameDesKey k1 k2 (by rw [sameDesKey_iff_stripParity, h]; simp)

/-- TDES-EDE whose first two parts are the same DES key is single DES under the third part -/
theorem ede3_degenerate_12 (key : BitVec 192) (b : BitVec 64)
    (h : stripParity (k1of3 key) = stripParity (k2of3 key)) :
    ede3Enc (Tdes3.new key) b = desEnc (k3of3 key) b := by
  simp only [ede3Enc, Tdes3.new, genKeys_of_stripParity _ _ h, decrypt_encrypt_keys, desEnc]

/-- … and whose last two parts are the same DES key is single DES under the first part -/
theorem ede3_degenerate_23 (key : BitVec 192) (b : BitVec 64)
    (h : stripParity (k2of3 key) = stripParity (k3of3 key)) :
    ede3Enc (Tdes3.new key) b = desEnc (k1of3 key) b := by
  simp only [ede3Enc, Tdes3.new, genKeys_of_stripParity _ _ h, encrypt_decrypt_keys, desEnc]

theorem ede2_degenerate (key : BitVec 128) (b : BitVec 64)
    (h : stripParity (k1of2 key) = stripParity (k2of2 key)) :
    ede2Enc (Tdes2.new key) b = desEnc (k1of2 key) b := by
  simp only [ede2Enc, Tdes2.new, ← genKeys_of_stripParity _ _ h, decrypt_encrypt_keys, desEnc]

end BC.Des
