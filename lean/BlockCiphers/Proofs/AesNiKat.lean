import BlockCiphers.Impl.AesNi
/-
FIPS-197 known-answer vectors run through the AES-NI *model* (`Impl/AesNi.lean`) by the kernel:
Appendix B, Appendix C.1–C.3 in both directions (exercising all three key expansions, `inv_keys`, and
every intrinsic definition), and the Appendix C.1 round values through the hazmat functions.
-/
namespace BC.AesNi

/-- Appendix B -/
example : encrypt128 0x2b7e151628aed2a6abf7158809cf4f3c#128 0x3243f6a8885a308d313198a2e0370734#128
    = 0x3925841d02dc09fbdc118597196a0b32#128 := by decide +kernel

/-- Appendix C.1 -/
example : encrypt128 0x000102030405060708090a0b0c0d0e0f#128 0x00112233445566778899aabbccddeeff#128
    = 0x69c4e0d86a7b0430d8cdb78070b4c55a#128 := by decide +kernel
example : decrypt128 0x000102030405060708090a0b0c0d0e0f#128 0x69c4e0d86a7b0430d8cdb78070b4c55a#128
    = 0x00112233445566778899aabbccddeeff#128 := by decide +kernel

/-- Appendix C.2 -/
example : encrypt192 0x000102030405060708090a0b0c0d0e0f1011121314151617#192 0x00112233445566778899aabbccddeeff#128
    = 0xdda97ca4864cdfe06eaf70a0ec0d7191#128 := by decide +kernel
example : decrypt192 0x000102030405060708090a0b0c0d0e0f1011121314151617#192 0xdda97ca4864cdfe06eaf70a0ec0d7191#128
    = 0x00112233445566778899aabbccddeeff#128 := by decide +kernel

/-- Appendix C.3 -/
example : encrypt256 0x000102030405060708090a0b0c0d0e0f101112131415161718191a1b1c1d1e1f#256
    0x00112233445566778899aabbccddeeff#128 = 0x8ea2b7ca516745bfeafc49904b496089#128 := by decide +kernel
example : decrypt256 0x000102030405060708090a0b0c0d0e0f101112131415161718191a1b1c1d1e1f#256
    0x8ea2b7ca516745bfeafc49904b496089#128 = 0x00112233445566778899aabbccddeeff#128 := by decide +kernel

/-- Appendix C.1 round 1 through `hazmat::cipher_round` (start, k_sch → next start) and
`hazmat::mix_columns` (s_row → m_col) -/
example : cipher_round 0x00102030405060708090a0b0c0d0e0f0#128 0xd6aa74fdd2af72fadaa678f1d6ab76fe#128
    = 0x89d810e8855ace682d1843d8cb128fe4#128 := by decide +kernel
example : mix_columns 0x6353e08c0960e104cd70b751bacad0e7#128 = 0x5f72641557f5bc92f7be3b291db9f91a#128 ∧
    inv_mix_columns 0x5f72641557f5bc92f7be3b291db9f91a#128 = 0x6353e08c0960e104cd70b751bacad0e7#128 := by decide +kernel

/-- Appendix C.1 equivalent inverse cipher, round 1 (istart, ik_sch of the equivalent schedule → next istart) -/
example : equiv_inv_cipher_round 0x7ad5fda789ef4e272bca100b3d9ff59f#128 0x13aa29be9c8faff6f770f58000f7bf03#128
    = 0x54d990a16ba09ab596bbf40ea111702f#128 := by decide +kernel

/-- weak-key screening on the three all-zero keys and on keys with only the last bit of the screened half set -/
example : weak_key_test128 0#128 = .weak ∧ weak_key_test192 0#192 = .weak ∧ weak_key_test256 0#256 = .weak ∧
    weak_key_test128 (1#128 <<< 64) = .ok ∧ weak_key_test128 (1#128 <<< 63) = .weak ∧
    weak_key_test192 (1#192 <<< 96) = .ok ∧ weak_key_test192 (1#192 <<< 95) = .weak ∧
    weak_key_test256 (1#256 <<< 128) = .ok ∧ weak_key_test256 (1#256 <<< 127) = .weak := by decide +kernel

end BC.AesNi
