import BlockCiphers.Proofs.Idea
import BlockCiphers.Spec.Idea
/-
IDEA: the model of the Rust code computes IDEA as defined by Lai–Massey / Schneier (`Spec/Idea.lean`):
`mul` = multiplication modulo 2^16+1 (0 ≙ 2^16), `add` = addition modulo 2^16, `expand_key` = the 52 sub-keys
obtained by 25-bit rotations, `crypt` = 8 rounds + output transformation, `invert_sub_keys` = Table 13.4.
-/
namespace BC.Idea
open BC.Spec

/-! ### the group operations -/

theorem toRes_eq_phi (a : BitVec 16) : Spec.Idea.toRes a = phi a := rfl

theorem mul_eq_mulMod (a b : BitVec 16) : mul a b = Spec.Idea.mulMod a b := by
  apply BitVec.eq_of_toNat_eq
  rw [mul_raw]
  simp only [Spec.Idea.mulMod, Spec.Idea.ofRes, toRes_eq_phi, BitVec.toNat_ofNat, Nat.reducePow, Nat.reduceAdd]

theorem add_eq_addMod (a b : BitVec 16) : add a b = Spec.Idea.addMod a b := add_eq a b

/-! ### key schedule -/


/-- the array after `n` iterations of the second loop of `expand_key` -/
def expandPrefix (key : BitVec 128) (n : Nat) : Array (BitVec 16) :=
  (List.range' 8 n).foldl expandStep (expandInit key (Array.replicate 52 0#16))

theorem expandKey_eq_prefix (key : BitVec 128) : expandKey key = expandPrefix key 44 := rfl

theorem expandPrefix_succ (key : BitVec 128) (n : Nat) :
    expandPrefix key (n + 1) = expandStep (expandPrefix key n) (8 + n) := by
  simp [expandPrefix, List.range'_concat, List.foldl_append]

theorem size_expandStep (ek : Array (BitVec 16)) (i : Nat) : (expandStep ek i).size = ek.size := by
  simp [expandStep]

theorem size_expandInit (key : BitVec 128) : (expandInit key (Array.replicate 52 0#16)).size = 52 := by
  simp [expandInit, List.range, List.range.loop]

theorem size_expandPrefix (key : BitVec 128) (n : Nat) : (expandPrefix key n).size = 52 := by
  induction n with
  | zero => simp only [expandPrefix, List.range', List.foldl]; exact size_expandInit key
  | succ n ih => rw [expandPrefix_succ, size_expandStep, ih]

theorem getD_expandStep_ne (ek : Array (BitVec 16)) (i j : Nat) (h : j ≠ i) :
    (expandStep ek i).getD j 0#16 = ek.getD j 0#16 := by
  simp [expandStep, Array.getD_eq_getD_getElem?, Ne.symm h]

theorem getD_expandStep_eq (ek : Array (BitVec 16)) (i : Nat) (h : i < ek.size) :
    (expandStep ek i).getD i 0#16 =
      (ek.getD (expandIdxA i) 0#16 <<< 9) + (ek.getD (expandIdxB i) 0#16 >>> 7) := by
  simp [expandStep, Array.getD_eq_getD_getElem?, h]

/-- entries below the write position are never touched again -/
theorem expandPrefix_stable (key : BitVec 128) (n m j : Nat) (hj : j < 8 + n) :
    (expandPrefix key (n + m)).getD j 0#16 = (expandPrefix key n).getD j 0#16 := by
  induction m with
  | zero => rfl
  | succ m ih =>
    rw [← Nat.add_assoc, expandPrefix_succ, getD_expandStep_ne _ _ _ (by omega), ih]

/-- **the index pattern of `expand_key`**: every sub-key from the 9th on is `(a << 9) + (b >> 7)` of the two
earlier sub-keys selected by the code's index computation -/
theorem expandKey_rec (key : BitVec 128) (i : Nat) (h8 : 8 ≤ i) (h : i < 52) :
    (expandKey key).getD i 0#16 =
      ((expandKey key).getD (expandIdxA i) 0#16 <<< 9) + ((expandKey key).getD (expandIdxB i) 0#16 >>> 7) := by
  obtain ⟨n, rfl⟩ : ∃ n, i = 8 + n := ⟨i - 8, by omega⟩
  have hA : expandIdxA (8 + n) < 8 + n := by unfold expandIdxA; split <;> omega
  have hB : expandIdxB (8 + n) < 8 + n := by unfold expandIdxB; split <;> omega
  rw [expandKey_eq_prefix]
  have e1 : 44 = (n + 1) + (44 - (n + 1)) := by omega
  have e2 : 44 = n + (44 - n) := by omega
  rw [e1, expandPrefix_stable key (n + 1) _ (8 + n) (by omega), ← e1]
  rw [expandPrefix_succ, getD_expandStep_eq _ _ (by rw [size_expandPrefix]; omega)]
  conv => rhs; rw [e2, expandPrefix_stable key n _ _ hA, expandPrefix_stable key n _ _ hB]


theorem expandKey_base (key : BitVec 128) (i : Nat) (h : i < 8) :
    (expandKey key).getD i 0#16 = Spec.Idea.Z key i := by
  rw [expandKey_eq_prefix, show 44 = 0 + 44 from rfl, expandPrefix_stable key 0 44 i (by omega)]
  simp only [expandPrefix, List.range', List.foldl]
  have : i = 0 ∨ i = 1 ∨ i = 2 ∨ i = 3 ∨ i = 4 ∨ i = 5 ∨ i = 6 ∨ i = 7 := by omega
  rcases this with rfl | rfl | rfl | rfl | rfl | rfl | rfl | rfl <;>
  (simp [expandInit, List.range, List.range.loop, keyByte, Spec.Idea.Z]; bv_decide (config := { timeout := 600 }))

/-- the sub-keys of the standard (25-bit rotations) satisfy the code's recurrence -/
theorem Z_rec (key : BitVec 128) (i : Nat) (h8 : 8 ≤ i) (h : i < 52) :
    Spec.Idea.Z key i = (Spec.Idea.Z key (expandIdxA i) <<< 9) + (Spec.Idea.Z key (expandIdxB i) >>> 7) := by
  have : i = 8 ∨ i = 9 ∨ i = 10 ∨ i = 11 ∨ i = 12 ∨ i = 13 ∨ i = 14 ∨ i = 15 ∨ i = 16 ∨ i = 17 ∨ i = 18 ∨ i = 19 ∨ i = 20 ∨ i = 21 ∨ i = 22 ∨ i = 23 ∨ i = 24 ∨ i = 25 ∨ i = 26 ∨ i = 27 ∨ i = 28 ∨ i = 29 ∨ i = 30 ∨ i = 31 ∨ i = 32 ∨ i = 33 ∨ i = 34 ∨ i = 35 ∨ i = 36 ∨ i = 37 ∨ i = 38 ∨ i = 39 ∨ i = 40 ∨ i = 41 ∨ i = 42 ∨ i = 43 ∨ i = 44 ∨ i = 45 ∨ i = 46 ∨ i = 47 ∨ i = 48 ∨ i = 49 ∨ i = 50 ∨ i = 51 := by omega
  rcases this with rfl | rfl | rfl | rfl | rfl | rfl | rfl | rfl | rfl | rfl | rfl | rfl | rfl | rfl | rfl | rfl | rfl | rfl | rfl | rfl | rfl | rfl | rfl | rfl | rfl | rfl | rfl | rfl | rfl | rfl | rfl | rfl | rfl | rfl | rfl | rfl | rfl | rfl | rfl | rfl | rfl | rfl | rfl | rfl <;>
  (simp only [Spec.Idea.Z, expandIdxA, expandIdxB, Nat.reduceAdd, Nat.reduceMod, Nat.reduceDiv, Nat.reduceMul, Nat.reduceSub,
     Nat.reduceLT, Nat.reduceEqDiff, if_true, if_false]; bv_decide (config := { timeout := 600 }))

/-- **`expand_key` = the 52 sub-keys of the standard** (25-bit left rotations of the 128-bit key) -/
theorem expandKey_eq_Z (key : BitVec 128) (i : Nat) (h : i < 52) :
    (expandKey key).getD i 0#16 = Spec.Idea.Z key i := by
  induction i using Nat.strongRecOn with
  | _ i ih =>
    by_cases h8 : i < 8
    · exact expandKey_base key i h8
    · have hA : expandIdxA i < i := by unfold expandIdxA; split <;> omega
      have hB : expandIdxB i < i := by unfold expandIdxB; split <;> omega
      rw [expandKey_rec key i (by omega) h, Z_rec key i (by omega) h, ih _ hA (by omega), ih _ hB (by omega)]


/-! ### data path -/



def toBlk (s : St) : Spec.Idea.Blk := { x1 := s.x1, x2 := s.x2, x3 := s.x3, x4 := s.x4 }

/-- the sub-key sequence held in an array -/
def keyFn (sk : Array (BitVec 16)) : Nat → BitVec 16 := fun i => sk.getD i 0#16

theorem round_toBlk (sk : Array (BitVec 16)) (s : St) (r : Nat) :
    Spec.Idea.swap (Spec.Idea.roundSteps (keyFn sk) r (toBlk s)) = toBlk (round sk s r) := by
  cases s
  simp only [Spec.Idea.roundSteps, Spec.Idea.steps, Spec.Idea.swap, round, toBlk, keyFn, mul_eq_mulMod, add_eq_addMod,
    Nat.mul_comm r 6]

theorem last_toBlk (sk : Array (BitVec 16)) (s : St) :
    Spec.Idea.output (keyFn sk) (Spec.Idea.roundSteps (keyFn sk) 7 (toBlk s)) = toBlk (final sk (round sk s 7)) := by
  cases s
  simp only [Spec.Idea.roundSteps, Spec.Idea.steps, Spec.Idea.output, round, final, toBlk, keyFn, mul_eq_mulMod, add_eq_addMod,
    Nat.reduceMul, Nat.reduceAdd]

theorem foldl_toBlk (sk : Array (BitVec 16)) (l : List Nat) (s : St) :
    l.foldl (fun x r => Spec.Idea.swap (Spec.Idea.roundSteps (keyFn sk) r x)) (toBlk s) = toBlk (l.foldl (round sk) s) := by
  induction l generalizing s with
  | nil => rfl
  | cons r l ih => simp only [List.foldl]; rw [round_toBlk, ih]

theorem split_eq (b : BitVec 64) : Spec.Idea.split b = toBlk (load b) := rfl
theorem join_eq (s : St) : Spec.Idea.join (toBlk s) = store s := rfl

/-- the data path of the code = the data path of the standard, for every sub-key array -/
theorem crypt_eq_spec (sk : Array (BitVec 16)) (b : BitVec 64) :
    crypt sk b = Spec.Idea.cryptWith (keyFn sk) b := by
  simp only [crypt, Spec.Idea.cryptWith]
  rw [split_eq, foldl_toBlk, last_toBlk, join_eq]
  have : List.range ROUNDS = List.range 7 ++ [7] := by decide
  rw [this, List.foldl_append]
  rfl


/-- `cryptWith` only looks at the 52 sub-keys -/
theorem cryptWith_congr (K K' : Nat → BitVec 16) (h : ∀ i, i < 52 → K i = K' i) (b : BitVec 64) :
    Spec.Idea.cryptWith K b = Spec.Idea.cryptWith K' b := by
  have hr : ∀ r, r < 8 → ∀ x, Spec.Idea.roundSteps K r x = Spec.Idea.roundSteps K' r x := by
    intro r hr x
    simp only [Spec.Idea.roundSteps]
    rw [h (6 * r) (by omega), h (6 * r + 1) (by omega), h (6 * r + 2) (by omega), h (6 * r + 3) (by omega),
      h (6 * r + 4) (by omega), h (6 * r + 5) (by omega)]
  have ho : ∀ x, Spec.Idea.output K x = Spec.Idea.output K' x := by
    intro x
    simp only [Spec.Idea.output]
    rw [h 48 (by omega), h 49 (by omega), h 50 (by omega), h 51 (by omega)]
  simp only [Spec.Idea.cryptWith, List.range, List.range.loop, List.foldl, ho,
    hr 0 (by omega), hr 1 (by omega), hr 2 (by omega), hr 3 (by omega), hr 4 (by omega), hr 5 (by omega),
    hr 6 (by omega), hr 7 (by omega)]

/-- **Impl = Spec** (encryption), all keys, all blocks -/
theorem encrypt_eq_spec (key : BitVec 128) (b : BitVec 64) :
    encrypt (new key) b = Spec.Idea.encrypt key b := by
  simp only [encrypt, new, Spec.Idea.encrypt]
  rw [crypt_eq_spec]
  exact cryptWith_congr _ _ (fun i hi => expandKey_eq_Z key i hi) b

/-! ### decryption sub-keys -/

/-- **`invert_sub_keys` = Table 13.4**: for every sub-key array -/
theorem invertSubKeys_isDecKeys (ek : Array (BitVec 16)) :
    Spec.Idea.IsDecKeys (keyFn ek) (keyFn (invertSubKeys ek)) := by
  intro j hj
  have : j = 0 ∨ j = 1 ∨ j = 2 ∨ j = 3 ∨ j = 4 ∨ j = 5 ∨ j = 6 ∨ j = 7 ∨ j = 8 ∨ j = 9 ∨ j = 10 ∨ j = 11 ∨ j = 12 ∨ j = 13 ∨ j = 14 ∨ j = 15 ∨ j = 16 ∨ j = 17 ∨ j = 18 ∨ j = 19 ∨ j = 20 ∨ j = 21 ∨ j = 22 ∨ j = 23 ∨ j = 24 ∨ j = 25 ∨ j = 26 ∨ j = 27 ∨ j = 28 ∨ j = 29 ∨ j = 30 ∨ j = 31 ∨ j = 32 ∨ j = 33 ∨ j = 34 ∨ j = 35 ∨ j = 36 ∨ j = 37 ∨ j = 38 ∨ j = 39 ∨ j = 40 ∨ j = 41 ∨ j = 42 ∨ j = 43 ∨ j = 44 ∨ j = 45 ∨ j = 46 ∨ j = 47 ∨ j = 48 ∨ j = 49 ∨ j = 50 ∨ j = 51 := by omega
  rcases this with rfl | rfl | rfl | rfl | rfl | rfl | rfl | rfl | rfl | rfl | rfl | rfl | rfl | rfl | rfl | rfl | rfl | rfl | rfl | rfl | rfl | rfl | rfl | rfl | rfl | rfl | rfl | rfl | rfl | rfl | rfl | rfl | rfl | rfl | rfl | rfl | rfl | rfl | rfl | rfl | rfl | rfl | rfl | rfl | rfl | rfl | rfl | rfl | rfl | rfl | rfl | rfl <;>
  simp only [Spec.Idea.dkTable, List.getD_cons_zero, List.getD_cons_succ, Spec.Idea.Rel, keyFn, Nat.reduceSub,
    dk_0, dk_1, dk_2, dk_3, dk_4, dk_5, dk_6, dk_7, dk_8, dk_9, dk_10, dk_11, dk_12, dk_13, dk_14, dk_15, dk_16, dk_17, dk_18, dk_19, dk_20, dk_21, dk_22, dk_23, dk_24, dk_25, dk_26, dk_27, dk_28, dk_29, dk_30, dk_31, dk_32, dk_33, dk_34, dk_35, dk_36, dk_37, dk_38, dk_39, dk_40, dk_41, dk_42, dk_43, dk_44, dk_45, dk_46, dk_47, dk_48, dk_49, dk_50, dk_51, ← mul_eq_mulMod, ← add_eq_addMod, mul_mulInv, add_addInv]

theorem dkTable_idx : ∀ j : Fin 52, (Spec.Idea.dkTable.getD j.val (Spec.Idea.Kind.same, 0)).2 - 1 < 52 := by decide

theorem new_dec (key : BitVec 128) : (new key).dec = invertSubKeys (expandKey key) := by simp only [new]

theorem new_isDecKeys (key : BitVec 128) :
    Spec.Idea.IsDecKeys (Spec.Idea.Z key) (keyFn (new key).dec) := by
  intro j hj
  rw [new_dec]
  have h := invertSubKeys_isDecKeys (expandKey key) j hj
  have hn := dkTable_idx ⟨j, hj⟩
  simp only [keyFn] at h ⊢
  rw [expandKey_eq_Z key _ hn] at h
  exact h

/-- **Impl = Spec** (decryption): `decrypt_block` is the standard's data path with the key schedule `dec_keys`,
and `dec_keys` is the decryption key schedule of Table 13.4 for `Z key` (`new_isDecKeys`). -/
theorem decrypt_eq_spec (key : BitVec 128) (b : BitVec 64) :
    decrypt (new key) b = Spec.Idea.cryptWith (keyFn (new key).dec) b := by
  simp only [decrypt]; exact crypt_eq_spec _ b

/-- inverses are unique, so Table 13.4 determines the decryption sub-keys -/
theorem rel_unique (kind : Spec.Idea.Kind) (d d' z : BitVec 16)
    (h : Spec.Idea.Rel kind d z) (h' : Spec.Idea.Rel kind d' z) : d = d' := by
  cases kind with
  | inv =>
    simp only [Spec.Idea.Rel, ← mul_eq_mulMod] at h h'
    calc d = mul d 1#16 := (mul_one d).symm
      _ = mul d (mul d' z) := by rw [h']
      _ = mul d (mul z d') := by rw [mul_comm d' z]
      _ = mul (mul d z) d' := (mul_assoc d z d').symm
      _ = mul 1#16 d' := by rw [h]
      _ = d' := by rw [mul_comm, mul_one]
  | neg =>
    simp only [Spec.Idea.Rel, Spec.Idea.addMod] at h h'
    bv_decide (config := { timeout := 600 })
  | same =>
    simp only [Spec.Idea.Rel] at h h'
    rw [h, h']

/-- the standard's decryption (the data path with ANY key schedule satisfying Table 13.4) inverts the standard's
encryption, and is what the code's `decrypt` computes -/
theorem spec_decrypt_unique (key : BitVec 128) (DK : Nat → BitVec 16)
    (h : Spec.Idea.IsDecKeys (Spec.Idea.Z key) DK) (b : BitVec 64) :
    Spec.Idea.cryptWith DK b = decrypt (new key) b := by
  rw [decrypt_eq_spec]
  apply cryptWith_congr
  intro j hj
  exact rel_unique _ _ _ _ (h j hj) (new_isDecKeys key j hj)

theorem spec_decrypt_encrypt (key : BitVec 128) (DK : Nat → BitVec 16)
    (h : Spec.Idea.IsDecKeys (Spec.Idea.Z key) DK) (b : BitVec 64) :
    Spec.Idea.cryptWith DK (Spec.Idea.encrypt key b) = b := by
  rw [spec_decrypt_unique key DK h, ← encrypt_eq_spec]; exact decrypt_encrypt key b

end BC.Idea
