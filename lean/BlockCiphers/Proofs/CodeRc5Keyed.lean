import Std.Tactic.BVDecide
import BlockCiphers.Gen.Cipher_Rc5
import BlockCiphers.Gen.Keys_Rc5
import BlockCiphers.Proofs.GenCipherRc5
import BlockCiphers.Proofs.GenKeysRc5
import BlockCiphers.Proofs.Rc5
import BlockCiphers.Proofs.Rc5Spec
/-!
Code-level theorems for RC5 WITH the key expansion (`RC5<u32, U12, U16>`, `RC5<u16, U16, U8>`, `RC5<u64, U24, U24>`,
`RC5<u8, U12, U4>`), for ALL keys and ALL blocks: the statements mention ONLY the regenerated code
(`BC.Gen.Fn.rc5_<w>_<r>_<b>_new` of `Gen/Keys_Rc5.lean`, `…_encrypt_block` / `…_decrypt_block` of `Gen/Cipher_Rc5.lean`) and
the specification `BC.Spec.Rc5` (Rivest 1994: `expand`, `encryptBytes`, `decryptBytes`, `IsP`, `IsQ`).
  `<pre>_enc key blk` := regenerated `encrypt_block` on the fields of the cipher constructed by the regenerated `new key`.
Keys and blocks are `BitVec`s, byte 0 of the Rust array = most significant byte; the Spec works on byte lists (`unpackBE n ·`).
Composition of
  (1) `BC.Rc5.decryptBlock_encryptBlock`, `encryptBlock_decryptBlock` (Proofs/Rc5.lean; Thm C01), `rc5_computes_spec`
      (Proofs/Rc5Spec.lean; Thm C10),
  (2) the enc/dec ties of `Proofs/GenCipherRc5.lean`,
  (3) the key-expansion ties of `Proofs/GenKeysRc5.lean` (`…_new_eq`, all keys).
Produced by `tools/tie_gen/bigstate/gen_rc5_code_keyed.py`.
-/
set_option maxRecDepth 100000
namespace BC.Code.Rc5Keyed
open BC BC.Gen.Fn BC.Rc5 BC.GenCipher.Rc5 BC.GenKeys.Rc5

/-! ### `RC5<u32, U12, U16>` (16-byte key, 8-byte block) -/

/-- `RC5::new(key).encrypt_block(blk)` on the regenerated code -/
def rc5_32_12_16_enc (key : BitVec 128) (blk : BitVec 64) : BitVec 64 :=
  match rc5_32_12_16_new key with
  | (k0, k1, k2, k3, k4, k5, k6, k7, k8, k9, k10, k11, k12, k13, k14, k15, k16, k17, k18, k19, k20, k21, k22, k23, k24, k25) => rc5_32_12_16_encrypt_block k0 k1 k2 k3 k4 k5 k6 k7 k8 k9 k10 k11 k12 k13 k14 k15 k16 k17 k18 k19 k20 k21 k22 k23 k24 k25 blk

/-- `RC5::new(key).decrypt_block(blk)` on the regenerated code -/
def rc5_32_12_16_dec (key : BitVec 128) (blk : BitVec 64) : BitVec 64 :=
  match rc5_32_12_16_new key with
  | (k0, k1, k2, k3, k4, k5, k6, k7, k8, k9, k10, k11, k12, k13, k14, k15, k16, k17, k18, k19, k20, k21, k22, k23, k24, k25) => rc5_32_12_16_decrypt_block k0 k1 k2 k3 k4 k5 k6 k7 k8 k9 k10 k11 k12 k13 k14 k15 k16 k17 k18 k19 k20 k21 k22 k23 k24 k25 blk

theorem rc5_32_12_16_len (x : BitVec 64) : (unpackBE 8 x).length = 2 * wordBytes 32 := by simp [unpackBE, wordBytes]
theorem rc5_32_12_16_keylen (x : BitVec 128) : (unpackBE 16 x).length = 16 := by simp [unpackBE]

theorem rc5_32_12_16_unpack_inj (x y : BitVec 64) (h : unpackBE 8 x = unpackBE 8 y) : x = y := by
  have hl : ∀ x : BitVec 64, unpackBE 8 x = [(x >>> 56).setWidth 8, (x >>> 48).setWidth 8, (x >>> 40).setWidth 8, (x >>> 32).setWidth 8, (x >>> 24).setWidth 8, (x >>> 16).setWidth 8, (x >>> 8).setWidth 8, (x >>> 0).setWidth 8] := fun _ => rfl
  rw [hl x, hl y] at h
  simp only [List.cons.injEq, and_true] at h
  obtain ⟨h0, h1, h2, h3, h4, h5, h6, h7⟩ := h
  bv_decide

/-- bridge: the keyed regenerated encryption is the model's (`Impl/Rc5.lean`) -/
theorem rc5_32_12_16_enc_eq_impl (key : BitVec 128) (blk : BitVec 64) :
    unpackBE 8 (rc5_32_12_16_enc key blk) = encryptBlock (substituteKey 32 12 16 (unpackBE 16 key)) 12 (unpackBE 8 blk) := by
  rw [← rc5_32_12_16_new_eq key]
  unfold rc5_32_12_16_enc
  generalize rc5_32_12_16_new key = t
  obtain ⟨k0, k1, k2, k3, k4, k5, k6, k7, k8, k9, k10, k11, k12, k13, k14, k15, k16, k17, k18, k19, k20, k21, k22, k23, k24, k25⟩ := t
  exact rc5_32_12_16_encrypt_block_eq k0 k1 k2 k3 k4 k5 k6 k7 k8 k9 k10 k11 k12 k13 k14 k15 k16 k17 k18 k19 k20 k21 k22 k23 k24 k25 blk

theorem rc5_32_12_16_dec_eq_impl (key : BitVec 128) (blk : BitVec 64) :
    unpackBE 8 (rc5_32_12_16_dec key blk) = decryptBlock (substituteKey 32 12 16 (unpackBE 16 key)) 12 (unpackBE 8 blk) := by
  rw [← rc5_32_12_16_new_eq key]
  unfold rc5_32_12_16_dec
  generalize rc5_32_12_16_new key = t
  obtain ⟨k0, k1, k2, k3, k4, k5, k6, k7, k8, k9, k10, k11, k12, k13, k14, k15, k16, k17, k18, k19, k20, k21, k22, k23, k24, k25⟩ := t
  exact rc5_32_12_16_decrypt_block_eq k0 k1 k2 k3 k4 k5 k6 k7 k8 k9 k10 k11 k12 k13 k14 k15 k16 k17 k18 k19 k20 k21 k22 k23 k24 k25 blk

/-- `decrypt_block ∘ encrypt_block = id` on the regenerated code, every key, every block -/
theorem rc5_32_12_16_dec_enc (key : BitVec 128) (blk : BitVec 64) : rc5_32_12_16_dec key (rc5_32_12_16_enc key blk) = blk := by
  apply rc5_32_12_16_unpack_inj
  rw [rc5_32_12_16_dec_eq_impl, rc5_32_12_16_enc_eq_impl]
  exact decryptBlock_encryptBlock (by decide) _ _ _ (rc5_32_12_16_len blk)

/-- `encrypt_block ∘ decrypt_block = id` on the regenerated code, every key, every block -/
theorem rc5_32_12_16_enc_dec (key : BitVec 128) (blk : BitVec 64) : rc5_32_12_16_enc key (rc5_32_12_16_dec key blk) = blk := by
  apply rc5_32_12_16_unpack_inj
  rw [rc5_32_12_16_enc_eq_impl, rc5_32_12_16_dec_eq_impl]
  exact encryptBlock_decryptBlock (by decide) _ _ _ (rc5_32_12_16_len blk)

/-- the magic constants `P_w`, `Q_w` in the statements below are Rivest's `Odd((e−2)·2^w)`, `Odd((φ−1)·2^w)` -/
theorem rc5_32_12_16_consts : Spec.Rc5.IsP 32 0xb7e15163 ∧ Spec.Rc5.IsQ 32 0x9e3779b9 :=
  consts_spec 32 (by simp [widths])

/-- the regenerated `new` computes Rivest's expanded key table `S[0..2r+1]`, every key -/
theorem rc5_32_12_16_new_eq_spec (key : BitVec 128) :
    (rc5_32_12_16_tbl (rc5_32_12_16_new key)).toList = (Spec.Rc5.expand 12 16 0xb7e15163#32 0x9e3779b9#32 (unpackBE 16 key)) := by
  rw [rc5_32_12_16_new_eq]
  exact (rc5_computes_spec 32 (by simp [widths]) 12 16 (unpackBE 16 key) (rc5_32_12_16_keylen key) []).2.2.1

/-- the regenerated `new` + `encrypt_block` is Rivest's RC5-32/12/16 encryption, every key, every block -/
theorem rc5_32_12_16_enc_eq_spec (key : BitVec 128) (blk : BitVec 64) :
    unpackBE 8 (rc5_32_12_16_enc key blk) = Spec.Rc5.encryptBytes (Spec.Rc5.expand 12 16 0xb7e15163#32 0x9e3779b9#32 (unpackBE 16 key)) 12 (unpackBE 8 blk) := by
  rw [rc5_32_12_16_enc_eq_impl]
  exact (rc5_computes_spec 32 (by simp [widths]) 12 16 (unpackBE 16 key) (rc5_32_12_16_keylen key) (unpackBE 8 blk)).2.2.2.1

theorem rc5_32_12_16_dec_eq_spec (key : BitVec 128) (blk : BitVec 64) :
    unpackBE 8 (rc5_32_12_16_dec key blk) = Spec.Rc5.decryptBytes (Spec.Rc5.expand 12 16 0xb7e15163#32 0x9e3779b9#32 (unpackBE 16 key)) 12 (unpackBE 8 blk) := by
  rw [rc5_32_12_16_dec_eq_impl]
  exact (rc5_computes_spec 32 (by simp [widths]) 12 16 (unpackBE 16 key) (rc5_32_12_16_keylen key) (unpackBE 8 blk)).2.2.2.2

/-! ### `RC5<u16, U16, U8>` (8-byte key, 4-byte block) -/

/-- `RC5::new(key).encrypt_block(blk)` on the regenerated code -/
def rc5_16_16_8_enc (key : BitVec 64) (blk : BitVec 32) : BitVec 32 :=
  match rc5_16_16_8_new key with
  | (k0, k1, k2, k3, k4, k5, k6, k7, k8, k9, k10, k11, k12, k13, k14, k15, k16, k17, k18, k19, k20, k21, k22, k23, k24, k25, k26, k27, k28, k29, k30, k31, k32, k33) => rc5_16_16_8_encrypt_block k0 k1 k2 k3 k4 k5 k6 k7 k8 k9 k10 k11 k12 k13 k14 k15 k16 k17 k18 k19 k20 k21 k22 k23 k24 k25 k26 k27 k28 k29 k30 k31 k32 k33 blk

/-- `RC5::new(key).decrypt_block(blk)` on the regenerated code -/
def rc5_16_16_8_dec (key : BitVec 64) (blk : BitVec 32) : BitVec 32 :=
  match rc5_16_16_8_new key with
  | (k0, k1, k2, k3, k4, k5, k6, k7, k8, k9, k10, k11, k12, k13, k14, k15, k16, k17, k18, k19, k20, k21, k22, k23, k24, k25, k26, k27, k28, k29, k30, k31, k32, k33) => rc5_16_16_8_decrypt_block k0 k1 k2 k3 k4 k5 k6 k7 k8 k9 k10 k11 k12 k13 k14 k15 k16 k17 k18 k19 k20 k21 k22 k23 k24 k25 k26 k27 k28 k29 k30 k31 k32 k33 blk

theorem rc5_16_16_8_len (x : BitVec 32) : (unpackBE 4 x).length = 2 * wordBytes 16 := by simp [unpackBE, wordBytes]
theorem rc5_16_16_8_keylen (x : BitVec 64) : (unpackBE 8 x).length = 8 := by simp [unpackBE]

theorem rc5_16_16_8_unpack_inj (x y : BitVec 32) (h : unpackBE 4 x = unpackBE 4 y) : x = y := by
  have hl : ∀ x : BitVec 32, unpackBE 4 x = [(x >>> 24).setWidth 8, (x >>> 16).setWidth 8, (x >>> 8).setWidth 8, (x >>> 0).setWidth 8] := fun _ => rfl
  rw [hl x, hl y] at h
  simp only [List.cons.injEq, and_true] at h
  obtain ⟨h0, h1, h2, h3⟩ := h
  bv_decide

/-- bridge: the keyed regenerated encryption is the model's (`Impl/Rc5.lean`) -/
theorem rc5_16_16_8_enc_eq_impl (key : BitVec 64) (blk : BitVec 32) :
    unpackBE 4 (rc5_16_16_8_enc key blk) = encryptBlock (substituteKey 16 16 8 (unpackBE 8 key)) 16 (unpackBE 4 blk) := by
  rw [← rc5_16_16_8_new_eq key]
  unfold rc5_16_16_8_enc
  generalize rc5_16_16_8_new key = t
  obtain ⟨k0, k1, k2, k3, k4, k5, k6, k7, k8, k9, k10, k11, k12, k13, k14, k15, k16, k17, k18, k19, k20, k21, k22, k23, k24, k25, k26, k27, k28, k29, k30, k31, k32, k33⟩ := t
  exact rc5_16_16_8_encrypt_block_eq k0 k1 k2 k3 k4 k5 k6 k7 k8 k9 k10 k11 k12 k13 k14 k15 k16 k17 k18 k19 k20 k21 k22 k23 k24 k25 k26 k27 k28 k29 k30 k31 k32 k33 blk

theorem rc5_16_16_8_dec_eq_impl (key : BitVec 64) (blk : BitVec 32) :
    unpackBE 4 (rc5_16_16_8_dec key blk) = decryptBlock (substituteKey 16 16 8 (unpackBE 8 key)) 16 (unpackBE 4 blk) := by
  rw [← rc5_16_16_8_new_eq key]
  unfold rc5_16_16_8_dec
  generalize rc5_16_16_8_new key = t
  obtain ⟨k0, k1, k2, k3, k4, k5, k6, k7, k8, k9, k10, k11, k12, k13, k14, k15, k16, k17, k18, k19, k20, k21, k22, k23, k24, k25, k26, k27, k28, k29, k30, k31, k32, k33⟩ := t
  exact rc5_16_16_8_decrypt_block_eq k0 k1 k2 k3 k4 k5 k6 k7 k8 k9 k10 k11 k12 k13 k14 k15 k16 k17 k18 k19 k20 k21 k22 k23 k24 k25 k26 k27 k28 k29 k30 k31 k32 k33 blk

/-- `decrypt_block ∘ encrypt_block = id` on the regenerated code, every key, every block -/
theorem rc5_16_16_8_dec_enc (key : BitVec 64) (blk : BitVec 32) : rc5_16_16_8_dec key (rc5_16_16_8_enc key blk) = blk := by
  apply rc5_16_16_8_unpack_inj
  rw [rc5_16_16_8_dec_eq_impl, rc5_16_16_8_enc_eq_impl]
  exact decryptBlock_encryptBlock (by decide) _ _ _ (rc5_16_16_8_len blk)

/-- `encrypt_block ∘ decrypt_block = id` on the regenerated code, every key, every block -/
theorem rc5_16_16_8_enc_dec (key : BitVec 64) (blk : BitVec 32) : rc5_16_16_8_enc key (rc5_16_16_8_dec key blk) = blk := by
  apply rc5_16_16_8_unpack_inj
  rw [rc5_16_16_8_enc_eq_impl, rc5_16_16_8_dec_eq_impl]
  exact encryptBlock_decryptBlock (by decide) _ _ _ (rc5_16_16_8_len blk)

/-- the magic constants `P_w`, `Q_w` in the statements below are Rivest's `Odd((e−2)·2^w)`, `Odd((φ−1)·2^w)` -/
theorem rc5_16_16_8_consts : Spec.Rc5.IsP 16 0xb7e1 ∧ Spec.Rc5.IsQ 16 0x9e37 :=
  consts_spec 16 (by simp [widths])

/-- the regenerated `new` computes Rivest's expanded key table `S[0..2r+1]`, every key -/
theorem rc5_16_16_8_new_eq_spec (key : BitVec 64) :
    (rc5_16_16_8_tbl (rc5_16_16_8_new key)).toList = (Spec.Rc5.expand 16 8 0xb7e1#16 0x9e37#16 (unpackBE 8 key)) := by
  rw [rc5_16_16_8_new_eq]
  exact (rc5_computes_spec 16 (by simp [widths]) 16 8 (unpackBE 8 key) (rc5_16_16_8_keylen key) []).2.2.1

/-- the regenerated `new` + `encrypt_block` is Rivest's RC5-16/16/8 encryption, every key, every block -/
theorem rc5_16_16_8_enc_eq_spec (key : BitVec 64) (blk : BitVec 32) :
    unpackBE 4 (rc5_16_16_8_enc key blk) = Spec.Rc5.encryptBytes (Spec.Rc5.expand 16 8 0xb7e1#16 0x9e37#16 (unpackBE 8 key)) 16 (unpackBE 4 blk) := by
  rw [rc5_16_16_8_enc_eq_impl]
  exact (rc5_computes_spec 16 (by simp [widths]) 16 8 (unpackBE 8 key) (rc5_16_16_8_keylen key) (unpackBE 4 blk)).2.2.2.1

theorem rc5_16_16_8_dec_eq_spec (key : BitVec 64) (blk : BitVec 32) :
    unpackBE 4 (rc5_16_16_8_dec key blk) = Spec.Rc5.decryptBytes (Spec.Rc5.expand 16 8 0xb7e1#16 0x9e37#16 (unpackBE 8 key)) 16 (unpackBE 4 blk) := by
  rw [rc5_16_16_8_dec_eq_impl]
  exact (rc5_computes_spec 16 (by simp [widths]) 16 8 (unpackBE 8 key) (rc5_16_16_8_keylen key) (unpackBE 4 blk)).2.2.2.2

/-! ### `RC5<u64, U24, U24>` (24-byte key, 16-byte block) -/

/-- `RC5::new(key).encrypt_block(blk)` on the regenerated code -/
def rc5_64_24_24_enc (key : BitVec 192) (blk : BitVec 128) : BitVec 128 :=
  match rc5_64_24_24_new key with
  | (k0, k1, k2, k3, k4, k5, k6, k7, k8, k9, k10, k11, k12, k13, k14, k15, k16, k17, k18, k19, k20, k21, k22, k23, k24, k25, k26, k27, k28, k29, k30, k31, k32, k33, k34, k35, k36, k37, k38, k39, k40, k41, k42, k43, k44, k45, k46, k47, k48, k49) => rc5_64_24_24_encrypt_block k0 k1 k2 k3 k4 k5 k6 k7 k8 k9 k10 k11 k12 k13 k14 k15 k16 k17 k18 k19 k20 k21 k22 k23 k24 k25 k26 k27 k28 k29 k30 k31 k32 k33 k34 k35 k36 k37 k38 k39 k40 k41 k42 k43 k44 k45 k46 k47 k48 k49 blk

/-- `RC5::new(key).decrypt_block(blk)` on the regenerated code -/
def rc5_64_24_24_dec (key : BitVec 192) (blk : BitVec 128) : BitVec 128 :=
  match rc5_64_24_24_new key with
  | (k0, k1, k2, k3, k4, k5, k6, k7, k8, k9, k10, k11, k12, k13, k14, k15, k16, k17, k18, k19, k20, k21, k22, k23, k24, k25, k26, k27, k28, k29, k30, k31, k32, k33, k34, k35, k36, k37, k38, k39, k40, k41, k42, k43, k44, k45, k46, k47, k48, k49) => rc5_64_24_24_decrypt_block k0 k1 k2 k3 k4 k5 k6 k7 k8 k9 k10 k11 k12 k13 k14 k15 k16 k17 k18 k19 k20 k21 k22 k23 k24 k25 k26 k27 k28 k29 k30 k31 k32 k33 k34 k35 k36 k37 k38 k39 k40 k41 k42 k43 k44 k45 k46 k47 k48 k49 blk

theorem rc5_64_24_24_len (x : BitVec 128) : (unpackBE 16 x).length = 2 * wordBytes 64 := by simp [unpackBE, wordBytes]
theorem rc5_64_24_24_keylen (x : BitVec 192) : (unpackBE 24 x).length = 24 := by simp [unpackBE]

theorem rc5_64_24_24_unpack_inj (x y : BitVec 128) (h : unpackBE 16 x = unpackBE 16 y) : x = y := by
  have hl : ∀ x : BitVec 128, unpackBE 16 x = [(x >>> 120).setWidth 8, (x >>> 112).setWidth 8, (x >>> 104).setWidth 8, (x >>> 96).setWidth 8, (x >>> 88).setWidth 8, (x >>> 80).setWidth 8, (x >>> 72).setWidth 8, (x >>> 64).setWidth 8, (x >>> 56).setWidth 8, (x >>> 48).setWidth 8, (x >>> 40).setWidth 8, (x >>> 32).setWidth 8, (x >>> 24).setWidth 8, (x >>> 16).setWidth 8, (x >>> 8).setWidth 8, (x >>> 0).setWidth 8] := fun _ => rfl
  rw [hl x, hl y] at h
  simp only [List.cons.injEq, and_true] at h
  obtain ⟨h0, h1, h2, h3, h4, h5, h6, h7, h8, h9, h10, h11, h12, h13, h14, h15⟩ := h
  bv_decide

/-- bridge: the keyed regenerated encryption is the model's (`Impl/Rc5.lean`) -/
theorem rc5_64_24_24_enc_eq_impl (key : BitVec 192) (blk : BitVec 128) :
    unpackBE 16 (rc5_64_24_24_enc key blk) = encryptBlock (substituteKey 64 24 24 (unpackBE 24 key)) 24 (unpackBE 16 blk) := by
  rw [← rc5_64_24_24_new_eq key]
  unfold rc5_64_24_24_enc
  generalize rc5_64_24_24_new key = t
  obtain ⟨k0, k1, k2, k3, k4, k5, k6, k7, k8, k9, k10, k11, k12, k13, k14, k15, k16, k17, k18, k19, k20, k21, k22, k23, k24, k25, k26, k27, k28, k29, k30, k31, k32, k33, k34, k35, k36, k37, k38, k39, k40, k41, k42, k43, k44, k45, k46, k47, k48, k49⟩ := t
  exact rc5_64_24_24_encrypt_block_eq k0 k1 k2 k3 k4 k5 k6 k7 k8 k9 k10 k11 k12 k13 k14 k15 k16 k17 k18 k19 k20 k21 k22 k23 k24 k25 k26 k27 k28 k29 k30 k31 k32 k33 k34 k35 k36 k37 k38 k39 k40 k41 k42 k43 k44 k45 k46 k47 k48 k49 blk

theorem rc5_64_24_24_dec_eq_impl (key : BitVec 192) (blk : BitVec 128) :
    unpackBE 16 (rc5_64_24_24_dec key blk) = decryptBlock (substituteKey 64 24 24 (unpackBE 24 key)) 24 (unpackBE 16 blk) := by
  rw [← rc5_64_24_24_new_eq key]
  unfold rc5_64_24_24_dec
  generalize rc5_64_24_24_new key = t
  obtain ⟨k0, k1, k2, k3, k4, k5, k6, k7, k8, k9, k10, k11, k12, k13, k14, k15, k16, k17, k18, k19, k20, k21, k22, k23, k24, k25, k26, k27, k28, k29, k30, k31, k32, k33, k34, k35, k36, k37, k38, k39, k40, k41, k42, k43, k44, k45, k46, k47, k48, k49⟩ := t
  exact rc5_64_24_24_decrypt_block_eq k0 k1 k2 k3 k4 k5 k6 k7 k8 k9 k10 k11 k12 k13 k14 k15 k16 k17 k18 k19 k20 k21 k22 k23 k24 k25 k26 k27 k28 k29 k30 k31 k32 k33 k34 k35 k36 k37 k38 k39 k40 k41 k42 k43 k44 k45 k46 k47 k48 k49 blk

/-- `decrypt_block ∘ encrypt_block = id` on the regenerated code, every key, every block -/
theorem rc5_64_24_24_dec_enc (key : BitVec 192) (blk : BitVec 128) : rc5_64_24_24_dec key (rc5_64_24_24_enc key blk) = blk := by
  apply rc5_64_24_24_unpack_inj
  rw [rc5_64_24_24_dec_eq_impl, rc5_64_24_24_enc_eq_impl]
  exact decryptBlock_encryptBlock (by decide) _ _ _ (rc5_64_24_24_len blk)

/-- `encrypt_block ∘ decrypt_block = id` on the regenerated code, every key, every block -/
theorem rc5_64_24_24_enc_dec (key : BitVec 192) (blk : BitVec 128) : rc5_64_24_24_enc key (rc5_64_24_24_dec key blk) = blk := by
  apply rc5_64_24_24_unpack_inj
  rw [rc5_64_24_24_enc_eq_impl, rc5_64_24_24_dec_eq_impl]
  exact encryptBlock_decryptBlock (by decide) _ _ _ (rc5_64_24_24_len blk)

/-- the magic constants `P_w`, `Q_w` in the statements below are Rivest's `Odd((e−2)·2^w)`, `Odd((φ−1)·2^w)` -/
theorem rc5_64_24_24_consts : Spec.Rc5.IsP 64 0xb7e151628aed2a6b ∧ Spec.Rc5.IsQ 64 0x9e3779b97f4a7c15 :=
  consts_spec 64 (by simp [widths])

/-- the regenerated `new` computes Rivest's expanded key table `S[0..2r+1]`, every key -/
theorem rc5_64_24_24_new_eq_spec (key : BitVec 192) :
    (rc5_64_24_24_tbl (rc5_64_24_24_new key)).toList = (Spec.Rc5.expand 24 24 0xb7e151628aed2a6b#64 0x9e3779b97f4a7c15#64 (unpackBE 24 key)) := by
  rw [rc5_64_24_24_new_eq]
  exact (rc5_computes_spec 64 (by simp [widths]) 24 24 (unpackBE 24 key) (rc5_64_24_24_keylen key) []).2.2.1

/-- the regenerated `new` + `encrypt_block` is Rivest's RC5-64/24/24 encryption, every key, every block -/
theorem rc5_64_24_24_enc_eq_spec (key : BitVec 192) (blk : BitVec 128) :
    unpackBE 16 (rc5_64_24_24_enc key blk) = Spec.Rc5.encryptBytes (Spec.Rc5.expand 24 24 0xb7e151628aed2a6b#64 0x9e3779b97f4a7c15#64 (unpackBE 24 key)) 24 (unpackBE 16 blk) := by
  rw [rc5_64_24_24_enc_eq_impl]
  exact (rc5_computes_spec 64 (by simp [widths]) 24 24 (unpackBE 24 key) (rc5_64_24_24_keylen key) (unpackBE 16 blk)).2.2.2.1

theorem rc5_64_24_24_dec_eq_spec (key : BitVec 192) (blk : BitVec 128) :
    unpackBE 16 (rc5_64_24_24_dec key blk) = Spec.Rc5.decryptBytes (Spec.Rc5.expand 24 24 0xb7e151628aed2a6b#64 0x9e3779b97f4a7c15#64 (unpackBE 24 key)) 24 (unpackBE 16 blk) := by
  rw [rc5_64_24_24_dec_eq_impl]
  exact (rc5_computes_spec 64 (by simp [widths]) 24 24 (unpackBE 24 key) (rc5_64_24_24_keylen key) (unpackBE 16 blk)).2.2.2.2

/-! ### `RC5<u8, U12, U4>` (4-byte key, 2-byte block) -/

/-- `RC5::new(key).encrypt_block(blk)` on the regenerated code -/
def rc5_8_12_4_enc (key : BitVec 32) (blk : BitVec 16) : BitVec 16 :=
  match rc5_8_12_4_new key with
  | (k0, k1, k2, k3, k4, k5, k6, k7, k8, k9, k10, k11, k12, k13, k14, k15, k16, k17, k18, k19, k20, k21, k22, k23, k24, k25) => rc5_8_12_4_encrypt_block k0 k1 k2 k3 k4 k5 k6 k7 k8 k9 k10 k11 k12 k13 k14 k15 k16 k17 k18 k19 k20 k21 k22 k23 k24 k25 blk

/-- `RC5::new(key).decrypt_block(blk)` on the regenerated code -/
def rc5_8_12_4_dec (key : BitVec 32) (blk : BitVec 16) : BitVec 16 :=
  match rc5_8_12_4_new key with
  | (k0, k1, k2, k3, k4, k5, k6, k7, k8, k9, k10, k11, k12, k13, k14, k15, k16, k17, k18, k19, k20, k21, k22, k23, k24, k25) => rc5_8_12_4_decrypt_block k0 k1 k2 k3 k4 k5 k6 k7 k8 k9 k10 k11 k12 k13 k14 k15 k16 k17 k18 k19 k20 k21 k22 k23 k24 k25 blk

theorem rc5_8_12_4_len (x : BitVec 16) : (unpackBE 2 x).length = 2 * wordBytes 8 := by simp [unpackBE, wordBytes]
theorem rc5_8_12_4_keylen (x : BitVec 32) : (unpackBE 4 x).length = 4 := by simp [unpackBE]

theorem rc5_8_12_4_unpack_inj (x y : BitVec 16) (h : unpackBE 2 x = unpackBE 2 y) : x = y := by
  have hl : ∀ x : BitVec 16, unpackBE 2 x = [(x >>> 8).setWidth 8, (x >>> 0).setWidth 8] := fun _ => rfl
  rw [hl x, hl y] at h
  simp only [List.cons.injEq, and_true] at h
  obtain ⟨h0, h1⟩ := h
  bv_decide

/-- bridge: the keyed regenerated encryption is the model's (`Impl/Rc5.lean`) -/
theorem rc5_8_12_4_enc_eq_impl (key : BitVec 32) (blk : BitVec 16) :
    unpackBE 2 (rc5_8_12_4_enc key blk) = encryptBlock (substituteKey 8 12 4 (unpackBE 4 key)) 12 (unpackBE 2 blk) := by
  rw [← rc5_8_12_4_new_eq key]
  unfold rc5_8_12_4_enc
  generalize rc5_8_12_4_new key = t
  obtain ⟨k0, k1, k2, k3, k4, k5, k6, k7, k8, k9, k10, k11, k12, k13, k14, k15, k16, k17, k18, k19, k20, k21, k22, k23, k24, k25⟩ := t
  exact rc5_8_12_4_encrypt_block_eq k0 k1 k2 k3 k4 k5 k6 k7 k8 k9 k10 k11 k12 k13 k14 k15 k16 k17 k18 k19 k20 k21 k22 k23 k24 k25 blk

theorem rc5_8_12_4_dec_eq_impl (key : BitVec 32) (blk : BitVec 16) :
    unpackBE 2 (rc5_8_12_4_dec key blk) = decryptBlock (substituteKey 8 12 4 (unpackBE 4 key)) 12 (unpackBE 2 blk) := by
  rw [← rc5_8_12_4_new_eq key]
  unfold rc5_8_12_4_dec
  generalize rc5_8_12_4_new key = t
  obtain ⟨k0, k1, k2, k3, k4, k5, k6, k7, k8, k9, k10, k11, k12, k13, k14, k15, k16, k17, k18, k19, k20, k21, k22, k23, k24, k25⟩ := t
  exact rc5_8_12_4_decrypt_block_eq k0 k1 k2 k3 k4 k5 k6 k7 k8 k9 k10 k11 k12 k13 k14 k15 k16 k17 k18 k19 k20 k21 k22 k23 k24 k25 blk

/-- `decrypt_block ∘ encrypt_block = id` on the regenerated code, every key, every block -/
theorem rc5_8_12_4_dec_enc (key : BitVec 32) (blk : BitVec 16) : rc5_8_12_4_dec key (rc5_8_12_4_enc key blk) = blk := by
  apply rc5_8_12_4_unpack_inj
  rw [rc5_8_12_4_dec_eq_impl, rc5_8_12_4_enc_eq_impl]
  exact decryptBlock_encryptBlock (by decide) _ _ _ (rc5_8_12_4_len blk)

/-- `encrypt_block ∘ decrypt_block = id` on the regenerated code, every key, every block -/
theorem rc5_8_12_4_enc_dec (key : BitVec 32) (blk : BitVec 16) : rc5_8_12_4_enc key (rc5_8_12_4_dec key blk) = blk := by
  apply rc5_8_12_4_unpack_inj
  rw [rc5_8_12_4_enc_eq_impl, rc5_8_12_4_dec_eq_impl]
  exact encryptBlock_decryptBlock (by decide) _ _ _ (rc5_8_12_4_len blk)

/-- the magic constants `P_w`, `Q_w` in the statements below are Rivest's `Odd((e−2)·2^w)`, `Odd((φ−1)·2^w)` -/
theorem rc5_8_12_4_consts : Spec.Rc5.IsP 8 0xb7 ∧ Spec.Rc5.IsQ 8 0x9f :=
  consts_spec 8 (by simp [widths])

/-- the regenerated `new` computes Rivest's expanded key table `S[0..2r+1]`, every key -/
theorem rc5_8_12_4_new_eq_spec (key : BitVec 32) :
    (rc5_8_12_4_tbl (rc5_8_12_4_new key)).toList = (Spec.Rc5.expand 12 4 0xb7#8 0x9f#8 (unpackBE 4 key)) := by
  rw [rc5_8_12_4_new_eq]
  exact (rc5_computes_spec 8 (by simp [widths]) 12 4 (unpackBE 4 key) (rc5_8_12_4_keylen key) []).2.2.1

/-- the regenerated `new` + `encrypt_block` is Rivest's RC5-8/12/4 encryption, every key, every block -/
theorem rc5_8_12_4_enc_eq_spec (key : BitVec 32) (blk : BitVec 16) :
    unpackBE 2 (rc5_8_12_4_enc key blk) = Spec.Rc5.encryptBytes (Spec.Rc5.expand 12 4 0xb7#8 0x9f#8 (unpackBE 4 key)) 12 (unpackBE 2 blk) := by
  rw [rc5_8_12_4_enc_eq_impl]
  exact (rc5_computes_spec 8 (by simp [widths]) 12 4 (unpackBE 4 key) (rc5_8_12_4_keylen key) (unpackBE 2 blk)).2.2.2.1

theorem rc5_8_12_4_dec_eq_spec (key : BitVec 32) (blk : BitVec 16) :
    unpackBE 2 (rc5_8_12_4_dec key blk) = Spec.Rc5.decryptBytes (Spec.Rc5.expand 12 4 0xb7#8 0x9f#8 (unpackBE 4 key)) 12 (unpackBE 2 blk) := by
  rw [rc5_8_12_4_dec_eq_impl]
  exact (rc5_computes_spec 8 (by simp [widths]) 12 4 (unpackBE 4 key) (rc5_8_12_4_keylen key) (unpackBE 2 blk)).2.2.2.2

end BC.Code.Rc5Keyed
