import BlockCiphers.Proofs.Basic
import BlockCiphers.Impl.Kuznyechik
import BlockCiphers.Spec.Kuznyechik
/-
Kuznyechik: byte-level bookkeeping on `BitVec 128` (memory image `getb`/`setb`/`mapIdx`, little-endian lanes
`leByte`/`ofLeBytes`, the 16-byte reversal `rev128`, and the standard's `byte`/`ofBytes`).
-/
namespace BC.Kuznyechik
open BC.Spec.Kuznyechik

theorem forall_lt_16 (p : Nat → Prop) (h0 : p 0) (h1 : p 1) (h2 : p 2) (h3 : p 3) (h4 : p 4) (h5 : p 5) (h6 : p 6)
    (h7 : p 7) (h8 : p 8) (h9 : p 9) (h10 : p 10) (h11 : p 11) (h12 : p 12) (h13 : p 13) (h14 : p 14)
    (h15 : p 15) : ∀ k, k < 16 → p k := by
  intro k hk
  match k, hk with
  | 0, _ => exact h0 | 1, _ => exact h1 | 2, _ => exact h2 | 3, _ => exact h3
  | 4, _ => exact h4 | 5, _ => exact h5 | 6, _ => exact h6 | 7, _ => exact h7
  | 8, _ => exact h8 | 9, _ => exact h9 | 10, _ => exact h10 | 11, _ => exact h11
  | 12, _ => exact h12 | 13, _ => exact h13 | 14, _ => exact h14 | 15, _ => exact h15
  | n + 16, h => omega

/-- element `k` of `[f 0, …, f 15]` -/
theorem getb_mapIdx (f : Nat → BitVec 8) : ∀ k, k < 16 → getb (mapIdx f) k = f k := by
  apply forall_lt_16 <;>
  · simp only [getb, mapIdx, List.range, List.range.loop, List.foldl]
    bv_decide (config := { timeout := 120 })

theorem mapIdx_getb (m : BitVec 128) : mapIdx (fun i => getb m i) = m := by
  simp only [getb, mapIdx, List.range, List.range.loop, List.foldl]
  bv_decide (config := { timeout := 120 })

theorem mapIdx_congr (f g : Nat → BitVec 8) (h : ∀ k, k < 16 → f k = g k) : mapIdx f = mapIdx g := by
  simp only [mapIdx, List.range, List.range.loop, List.foldl]
  rw [h 0 (by omega), h 1 (by omega), h 2 (by omega), h 3 (by omega), h 4 (by omega), h 5 (by omega),
    h 6 (by omega), h 7 (by omega), h 8 (by omega), h 9 (by omega), h 10 (by omega), h 11 (by omega),
    h 12 (by omega), h 13 (by omega), h 14 (by omega), h 15 (by omega)]

/-- two 16-byte arrays with the same elements are equal -/
theorem ext_getb (a b : BitVec 128) (h : ∀ k, k < 16 → getb a k = getb b k) : a = b := by
  rw [← mapIdx_getb a, ← mapIdx_getb b]; exact mapIdx_congr _ _ h

theorem getb_mapBytes (f : BitVec 8 → BitVec 8) (m : BitVec 128) (k : Nat) (hk : k < 16) :
    getb (mapBytes f m) k = f (getb m k) := by
  rw [mapBytes, getb_mapIdx _ k hk]

/-- a byte map that is undone by another one -/
theorem mapBytes_inv (f g : BitVec 8 → BitVec 8) (h : ∀ x, g (f x) = x) (m : BitVec 128) :
    mapBytes g (mapBytes f m) = m := by
  apply ext_getb; intro k hk
  rw [getb_mapBytes _ _ k hk, getb_mapBytes _ _ k hk, h]

theorem mapBytes_congr (f g : BitVec 8 → BitVec 8) (h : ∀ x, f x = g x) (m : BitVec 128) :
    mapBytes f m = mapBytes g m := by
  have : f = g := funext h
  rw [this]

/-- the standard's a_i is array element 15 − i -/
theorem byte_eq_getb (a : BitVec 128) : ∀ k, k < 16 → byte a (15 - k) = getb a k := by
  apply forall_lt_16 <;>
  · simp only [byte, getb]
    bv_decide (config := { timeout := 120 })

theorem ofBytes_eq_mapIdx (f : Nat → BitVec 8) : ofBytes f = mapIdx (fun i => f (15 - i)) := rfl

/-- the standard's S (π on every byte) is `mapBytes π` -/
theorem S_eq_mapBytes (a : BitVec 128) : S a = mapBytes pi a := by
  rw [S, ofBytes_eq_mapIdx, mapBytes]
  apply mapIdx_congr; intro k hk
  show pi (byte a (15 - k)) = pi (getb a k)
  rw [byte_eq_getb a k hk]

theorem Sinv_eq_mapBytes (a : BitVec 128) : Sinv a = mapBytes piInv a := by
  rw [Sinv, ofBytes_eq_mapIdx, mapBytes]
  apply mapIdx_congr; intro k hk
  show piInv (byte a (15 - k)) = piInv (getb a k)
  rw [byte_eq_getb a k hk]

/-! ### little-endian lanes -/

theorem rev128_rev128 (x : BitVec 128) : rev128 (rev128 x) = x := by
  simp only [rev128, bswap64]; bv_decide (config := { timeout := 120 })

theorem rev128_xor (x y : BitVec 128) : rev128 (x ^^^ y) = rev128 x ^^^ rev128 y := by
  simp only [rev128, bswap64]; bv_decide (config := { timeout := 120 })

theorem rev128_inj (x y : BitVec 128) (h : rev128 x = rev128 y) : x = y := by
  rw [← rev128_rev128 x, h, rev128_rev128]

/-- lane `k` of a register = element `k` of its memory image -/
theorem leByte_eq_getb (v : BitVec 128) : ∀ k, k < 16 → leByte v k = getb (rev128 v) k := by
  apply forall_lt_16 <;>
  · simp only [leByte, getb, rev128, bswap64]
    bv_decide (config := { timeout := 120 })

theorem ofLeBytes_eq (f : Nat → BitVec 8) : ofLeBytes f = rev128 (mapIdx f) := by
  simp only [ofLeBytes, mapIdx, rev128, bswap64, List.range, List.range.loop, List.foldl]
  bv_decide (config := { timeout := 120 })

theorem leByte_ofLeBytes (f : Nat → BitVec 8) (k : Nat) (hk : k < 16) : leByte (ofLeBytes f) k = f k := by
  rw [leByte_eq_getb _ k hk, ofLeBytes_eq, rev128_rev128, getb_mapIdx _ k hk]

theorem ofLeBytes_congr (f g : Nat → BitVec 8) (h : ∀ k, k < 16 → f k = g k) : ofLeBytes f = ofLeBytes g := by
  rw [ofLeBytes_eq, ofLeBytes_eq, mapIdx_congr f g h]

/-- `[f 0, …, f 15]` is the XOR of the sixteen arrays that hold `f i` at position `i` and zeros elsewhere -/
theorem mapIdx_eq_xor (f : Nat → BitVec 8) :
    mapIdx f = 0#128 ^^^ setb 0#128 0 (f 0) ^^^ setb 0#128 1 (f 1) ^^^ setb 0#128 2 (f 2) ^^^ setb 0#128 3 (f 3) ^^^
      setb 0#128 4 (f 4) ^^^ setb 0#128 5 (f 5) ^^^ setb 0#128 6 (f 6) ^^^ setb 0#128 7 (f 7) ^^^
      setb 0#128 8 (f 8) ^^^ setb 0#128 9 (f 9) ^^^ setb 0#128 10 (f 10) ^^^ setb 0#128 11 (f 11) ^^^
      setb 0#128 12 (f 12) ^^^ setb 0#128 13 (f 13) ^^^ setb 0#128 14 (f 14) ^^^ setb 0#128 15 (f 15) := by
  simp only [setb, mapIdx, List.range, List.range.loop, List.foldl]
  bv_decide (config := { timeout := 120 })

end BC.Kuznyechik
