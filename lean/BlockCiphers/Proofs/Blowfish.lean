import BlockCiphers.Proofs.Basic
import BlockCiphers.Impl.Blowfish
/-
Blowfish: the Feistel network is a permutation for EVERY state (arbitrary `p` and `s` arrays, of any
size — the model's look-ups are total), hence for every key of every length, in both byte orders.
-/
namespace BC.Blowfish

/-! ### round trip on `[u32; 2]` -/

/-- the pair as the *other* direction sees it in front of round `i` -/
def maskE (st : State) (i : Nat) (x : LR) : LR :=
  { l := x.r ^^^ st.p[2 * i + 1]!, r := x.l ^^^ st.p[2 * i]! }

def maskD (st : State) (i : Nat) (x : LR) : LR :=
  { l := x.r ^^^ st.p[2 * i]!, r := x.l ^^^ st.p[2 * i + 1]! }

theorem xor_cancel_r (a b : BitVec 32) : a ^^^ b ^^^ b = a := by
  rw [BitVec.xor_assoc, BitVec.xor_self, BitVec.xor_zero]

theorem xor_cancel_mid (a b c : BitVec 32) : a ^^^ b ^^^ c ^^^ b = a ^^^ c := by
  rw [BitVec.xor_assoc a b c, BitVec.xor_comm b c, ← BitVec.xor_assoc, xor_cancel_r]

theorem decRound_maskE_encRound (st : State) (x : LR) (i : Nat) :
    decRound st (maskE st (i + 1) (encRound st x i)) (i + 1) = maskE st i x := by
  simp only [decRound, maskE, encRound, xor_cancel_r, xor_cancel_mid]

theorem encRound_maskD_decRound (st : State) (x : LR) (i : Nat) :
    encRound st (maskD st i (decRound st x (i + 1))) i = maskD st (i + 1) x := by
  simp only [decRound, maskD, encRound, xor_cancel_r, xor_cancel_mid]

theorem range'_one_succ_reverse (n : Nat) :
    (List.range' 1 (n + 1)).reverse = (n + 1) :: (List.range' 1 n).reverse := by
  rw [List.range'_concat, List.reverse_append]; simp [Nat.add_comm]

theorem dec_enc_rounds (st : State) (n : Nat) (x : LR) :
    (List.range' 1 n).reverse.foldl (decRound st) (maskE st n ((List.range n).foldl (encRound st) x))
      = maskE st 0 x := by
  induction n with
  | zero => simp
  | succ n ih =>
    rw [List.range_succ, List.foldl_append, range'_one_succ_reverse]
    simp only [List.foldl_cons, List.foldl_nil]
    rw [decRound_maskE_encRound, ih]

theorem enc_dec_rounds (st : State) (n : Nat) (x : LR) :
    (List.range n).foldl (encRound st) (maskD st 0 ((List.range' 1 n).reverse.foldl (decRound st) x))
      = maskD st n x := by
  induction n generalizing x with
  | zero => simp
  | succ n ih =>
    rw [List.range_succ, List.foldl_append, range'_one_succ_reverse]
    simp only [List.foldl_cons, List.foldl_nil]
    rw [ih, encRound_maskD_decRound]

/-- `decrypt (encrypt x) = x` for every state -/
theorem decrypt_encrypt_lr (st : State) (x : LR) : decrypt st (encrypt st x) = x := by
  have h := dec_enc_rounds st 8 x
  simp only [maskE] at h
  simp only [decrypt, encrypt, h, xor_cancel_r]

/-- `encrypt (decrypt x) = x` for every state -/
theorem encrypt_decrypt_lr (st : State) (x : LR) : encrypt st (decrypt st x) = x := by
  have h := enc_dec_rounds st 8 x
  simp only [maskD] at h
  simp only [decrypt, encrypt, h, xor_cancel_r]

/-! ### round trip on blocks, both byte orders -/

theorem wordIO_wordIO (bo : ByteOrder) (x : BitVec 32) : wordIO bo (wordIO bo x) = x := by
  cases bo <;> simp [wordIO, bswap32_bswap32]

theorem extract_hi_append (a b : BitVec 32) : (a ++ b).extractLsb' 32 32 = a := by bv_decide (config := { timeout := 600 })
theorem extract_lo_append (a b : BitVec 32) : (a ++ b).extractLsb' 0 32 = b := by bv_decide (config := { timeout := 600 })
theorem append_extract (b : BitVec 64) : b.extractLsb' 32 32 ++ b.extractLsb' 0 32 = b := by bv_decide (config := { timeout := 600 })

theorem readBlock_writeBlock (bo : ByteOrder) (x : LR) : readBlock bo (writeBlock bo x) = x := by
  cases x; simp [readBlock, writeBlock, extract_hi_append, extract_lo_append, wordIO_wordIO]

theorem writeBlock_readBlock (bo : ByteOrder) (b : BitVec 64) : writeBlock bo (readBlock bo b) = b := by
  simp [readBlock, writeBlock, wordIO_wordIO, append_extract]

/-- C01 for Blowfish, every state (so every key of every length), both byte orders -/
theorem decrypt_encrypt (bo : ByteOrder) (st : State) (b : BitVec 64) :
    decryptBlock bo st (encryptBlock bo st b) = b := by
  simp [decryptBlock, encryptBlock, readBlock_writeBlock, decrypt_encrypt_lr, writeBlock_readBlock]

theorem encrypt_decrypt (bo : ByteOrder) (st : State) (b : BitVec 64) :
    encryptBlock bo st (decryptBlock bo st b) = b := by
  simp [decryptBlock, encryptBlock, readBlock_writeBlock, encrypt_decrypt_lr, writeBlock_readBlock]

/-- … in particular for the state of every accepted key -/
theorem decrypt_encrypt_key (bo : ByteOrder) (key : Array (BitVec 8)) (st : State) (_h : new key = some st)
    (b : BitVec 64) : decryptBlock bo st (encryptBlock bo st b) = b := decrypt_encrypt bo st b

theorem encrypt_decrypt_key (bo : ByteOrder) (key : Array (BitVec 8)) (st : State) (_h : new key = some st)
    (b : BitVec 64) : encryptBlock bo st (decryptBlock bo st b) = b := encrypt_decrypt bo st b

/-! ### `BlowfishLE` = byte-swap-halves ∘ `Blowfish` ∘ byte-swap-halves -/

/-- reverse the bytes of each 32-bit half of the block -/
def bswapHalves (b : BitVec 64) : BitVec 64 :=
  bswap32 (b.extractLsb' 32 32) ++ bswap32 (b.extractLsb' 0 32)

theorem bswapHalves_bswapHalves (b : BitVec 64) : bswapHalves (bswapHalves b) = b := by
  simp [bswapHalves, extract_hi_append, extract_lo_append, bswap32_bswap32, append_extract]

theorem encryptBlock_LE (st : State) (b : BitVec 64) :
    encryptBlock .LE st b = bswapHalves (encryptBlock .BE st (bswapHalves b)) := by
  simp [encryptBlock, readBlock, writeBlock, wordIO, bswapHalves, extract_hi_append, extract_lo_append]

theorem decryptBlock_LE (st : State) (b : BitVec 64) :
    decryptBlock .LE st b = bswapHalves (decryptBlock .BE st (bswapHalves b)) := by
  simp [decryptBlock, readBlock, writeBlock, wordIO, bswapHalves, extract_hi_append, extract_lo_append]

/-! ### key-length contract (C11) -/

theorem accepts_iff (n : Nat) : accepts n = true ↔ 4 ≤ n ∧ n ≤ 56 := by
  simp [accepts]

theorem new_isSome_iff (key : Array (BitVec 8)) : (new key).isSome ↔ 4 ≤ key.size ∧ key.size ≤ 56 := by
  rw [← accepts_iff]; unfold new; split <;> simp_all

end BC.Blowfish
