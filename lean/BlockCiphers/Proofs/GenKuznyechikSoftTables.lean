import BlockCiphers.Proofs.GenKuznyechikSoftTablesEnc0
import BlockCiphers.Proofs.GenKuznyechikSoftTablesEnc1
import BlockCiphers.Proofs.GenKuznyechikSoftTablesDec0
import BlockCiphers.Proofs.GenKuznyechikSoftTablesDec1
/-! `encT_<i>`, `decT_<i>` (i = 0 … 15): the regenerated fused tables of Kuznyechik's big software backend are the model's `ENC_TABLE` / `DEC_TABLE`; see `GenKuznyechikSoftTablesBase.lean`. -/
