import BlockCiphers.Proofs.AesNiKeysCommon
/-
`aes192_expand_key` (expand.rs) produces the FIPS-197 key schedule for Nk = 6, Nr = 12.
The Rust keeps six-word groups in a register pair `(t1, t3)` (four words in `t1`, two in the low half of
`t3`; the high half of `t3` holds values that are never used) and assembles the thirteen 4-word round keys
with `shuffle`.
-/
namespace BC.AesNi
open BC BC.X86 BC.Spec.Aes

/-- `t1` holds words `6m..6m+3` -/
def IsG4 (t1 : BitVec 128) (w : Array (BitVec 32)) (m : Nat) : Prop :=
  fw t1 0 = w.getD (6 * m) 0 ∧ fw t1 1 = w.getD (6 * m + 1) 0 ∧ fw t1 2 = w.getD (6 * m + 2) 0 ∧
    fw t1 3 = w.getD (6 * m + 3) 0

/-- the low half of `t3` holds words `6m+4, 6m+5` -/
def IsG2 (t3 : BitVec 128) (w : Array (BitVec 32)) (m : Nat) : Prop :=
  fw t3 0 = w.getD (6 * m + 4) 0 ∧ fw t3 1 = w.getD (6 * m + 5) 0

theorem expand_round192_words (rc : BitVec 8) (t1 t3 : BitVec 128) :
    fw (expand_round192_t1 rc t1 t3) 0 = fw t1 0 ^^^ (subWord (rotWord (fw t3 1)) ^^^ rcw rc) ∧
    fw (expand_round192_t1 rc t1 t3) 1 = fw t1 1 ^^^ fw (expand_round192_t1 rc t1 t3) 0 ∧
    fw (expand_round192_t1 rc t1 t3) 2 = fw t1 2 ^^^ fw (expand_round192_t1 rc t1 t3) 1 ∧
    fw (expand_round192_t1 rc t1 t3) 3 = fw t1 3 ^^^ fw (expand_round192_t1 rc t1 t3) 2 ∧
    fw (expand_round192_t3 rc t1 t3) 0 = fw t3 0 ^^^ fw (expand_round192_t1 rc t1 t3) 3 ∧
    fw (expand_round192_t3 rc t1 t3) 1 = fw t3 1 ^^^ fw (expand_round192_t3 rc t1 t3) 0 := by
  simp only [expand_round192_t3, expand_round192_t1, _mm_aeskeygenassist_si128, shuffle_ff, shuffle_55, slli_4,
    _mm_xor_si128, subWordLE, rotWordLE, subWord_rotWord, fw, rcw]
  generalize subWord (bswap32 (dword t3 3)) = s3
  generalize subWord (bswap32 (dword t3 1)) = s1
  simp only [dword, ofDwords, bswap32, rotWord]
  refine ⟨?_, ?_, ?_, ?_, ?_, ?_⟩ <;> bv_decide (config := { timeout := 600 })

theorem shuffle192_words (a b : BitVec 128) :
    fw (shuffle192 a b 0) 0 = fw a 0 ∧ fw (shuffle192 a b 0) 1 = fw a 1 ∧
    fw (shuffle192 a b 0) 2 = fw b 0 ∧ fw (shuffle192 a b 0) 3 = fw b 1 ∧
    fw (shuffle192 a b 1) 0 = fw a 2 ∧ fw (shuffle192 a b 1) 1 = fw a 3 ∧
    fw (shuffle192 a b 1) 2 = fw b 0 ∧ fw (shuffle192 a b 1) 3 = fw b 1 := by
  simp only [shuffle192, fw, dword, bswap32]
  refine ⟨?_, ?_, ?_, ?_, ?_, ?_, ?_, ?_⟩ <;> bv_decide (config := { timeout := 600 })

/-- FIPS-197 recurrence for Nk = 6 at the six words of group `m+1` (as far as they exist) -/
theorem spec_step192 (kw : List (BitVec 32)) (hk : kw.length = 6) (m : Nat) (hm : m < 8)
    (w : Array (BitVec 32)) (hw : w = keyExpansion 6 12 kw) :
    (w.getD (6 * (m + 1)) 0 = w.getD (6 * m) 0 ^^^ (subWord (rotWord (w.getD (6 * m + 5) 0)) ^^^ rcon (m + 1)) ∧
     w.getD (6 * (m + 1) + 1) 0 = w.getD (6 * m + 1) 0 ^^^ w.getD (6 * (m + 1)) 0 ∧
     w.getD (6 * (m + 1) + 2) 0 = w.getD (6 * m + 2) 0 ^^^ w.getD (6 * (m + 1) + 1) 0 ∧
     w.getD (6 * (m + 1) + 3) 0 = w.getD (6 * m + 3) 0 ^^^ w.getD (6 * (m + 1) + 2) 0) ∧
    (m < 7 →
     w.getD (6 * (m + 1) + 4) 0 = w.getD (6 * m + 4) 0 ^^^ w.getD (6 * (m + 1) + 3) 0 ∧
     w.getD (6 * (m + 1) + 5) 0 = w.getD (6 * m + 5) 0 ^^^ w.getD (6 * (m + 1) + 4) 0) := by
  subst hw
  have t0 : ∀ t, tempf 6 (6 * (m + 1)) t = subWord (rotWord t) ^^^ rcon (m + 1) := by
    intro t; rw [tempf_pos t (by omega)]; congr 2; omega
  have t1 : ∀ t, tempf 6 (6 * (m + 1) + 1) t = t := fun t => tempf_id t (by omega) (by omega)
  have t2 : ∀ t, tempf 6 (6 * (m + 1) + 2) t = t := fun t => tempf_id t (by omega) (by omega)
  have t3 : ∀ t, tempf 6 (6 * (m + 1) + 3) t = t := fun t => tempf_id t (by omega) (by omega)
  have t4 : ∀ t, tempf 6 (6 * (m + 1) + 4) t = t := fun t => tempf_id t (by omega) (by omega)
  have t5 : ∀ t, tempf 6 (6 * (m + 1) + 5) t = t := fun t => tempf_id t (by omega) (by omega)
  have e0 : 6 * (m + 1) - 6 = 6 * m := by omega
  have e0' : 6 * (m + 1) - 1 = 6 * m + 5 := by omega
  have e1 : 6 * (m + 1) + 1 - 6 = 6 * m + 1 := by omega
  have e1' : 6 * (m + 1) + 1 - 1 = 6 * (m + 1) := by omega
  have e2 : 6 * (m + 1) + 2 - 6 = 6 * m + 2 := by omega
  have e2' : 6 * (m + 1) + 2 - 1 = 6 * (m + 1) + 1 := by omega
  have e3 : 6 * (m + 1) + 3 - 6 = 6 * m + 3 := by omega
  have e3' : 6 * (m + 1) + 3 - 1 = 6 * (m + 1) + 2 := by omega
  have e4 : 6 * (m + 1) + 4 - 6 = 6 * m + 4 := by omega
  have e4' : 6 * (m + 1) + 4 - 1 = 6 * (m + 1) + 3 := by omega
  have e5 : 6 * (m + 1) + 5 - 6 = 6 * m + 5 := by omega
  have e5' : 6 * (m + 1) + 5 - 1 = 6 * (m + 1) + 4 := by omega
  have b0 : 6 * (m + 1) < 4 * (12 + 1) := by omega
  have b1 : 6 * (m + 1) + 1 < 4 * (12 + 1) := by omega
  have b2 : 6 * (m + 1) + 2 < 4 * (12 + 1) := by omega
  have b3 : 6 * (m + 1) + 3 < 4 * (12 + 1) := by omega
  have b4 : m < 7 → 6 * (m + 1) + 4 < 4 * (12 + 1) := by omega
  have b5 : m < 7 → 6 * (m + 1) + 5 < 4 * (12 + 1) := by omega
  have a0 : 6 ≤ 6 * (m + 1) := by omega
  have a1 : 6 ≤ 6 * (m + 1) + 1 := by omega
  have a2 : 6 ≤ 6 * (m + 1) + 2 := by omega
  have a3 : 6 ≤ 6 * (m + 1) + 3 := by omega
  have a4 : 6 ≤ 6 * (m + 1) + 4 := by omega
  have a5 : 6 ≤ 6 * (m + 1) + 5 := by omega
  have p6 : 0 < 6 := by omega
  have h0 := keyExpansion_rec 6 12 kw hk p6 (6 * (m + 1)) a0 b0
  have h1 := keyExpansion_rec 6 12 kw hk p6 (6 * (m + 1) + 1) a1 b1
  have h2 := keyExpansion_rec 6 12 kw hk p6 (6 * (m + 1) + 2) a2 b2
  have h3 := keyExpansion_rec 6 12 kw hk p6 (6 * (m + 1) + 3) a3 b3
  rw [t0] at h0; rw [t1] at h1; rw [t2] at h2; rw [t3] at h3
  rw [e0, e0'] at h0; rw [e1, e1'] at h1; rw [e2, e2'] at h2; rw [e3, e3'] at h3
  refine ⟨⟨h0, h1, h2, h3⟩, ?_⟩
  intro hm7
  have h4 := keyExpansion_rec 6 12 kw hk p6 (6 * (m + 1) + 4) a4 (b4 hm7)
  have h5 := keyExpansion_rec 6 12 kw hk p6 (6 * (m + 1) + 5) a5 (b5 hm7)
  rw [t4] at h4; rw [t5] at h5
  rw [e4, e4'] at h4; rw [e5, e5'] at h5
  exact ⟨h4, h5⟩

/-- one `expand_round` advances the group invariant -/
theorem IsG_step192 (kw : List (BitVec 32)) (hk : kw.length = 6) (rc : BitVec 8) (t1 t3 : BitVec 128) (m : Nat)
    (h4 : IsG4 t1 (keyExpansion 6 12 kw) m) (h2 : IsG2 t3 (keyExpansion 6 12 kw) m) (hm : m < 8)
    (hrc : rcw rc = rcon (m + 1)) :
    IsG4 (expand_round192 rc t1 t3).1 (keyExpansion 6 12 kw) (m + 1) ∧
    (m < 7 → IsG2 (expand_round192 rc t1 t3).2 (keyExpansion 6 12 kw) (m + 1)) := by
  obtain ⟨h0, h1, h2', h3⟩ := h4
  obtain ⟨g4, g5⟩ := h2
  obtain ⟨n0, n1, n2, n3, n4, n5⟩ := expand_round192_words rc t1 t3
  obtain ⟨⟨s0, s1, s2, s3⟩, s45⟩ := spec_step192 kw hk m hm _ rfl
  simp only [expand_round192]
  have a0 : fw (expand_round192_t1 rc t1 t3) 0 = (keyExpansion 6 12 kw).getD (6 * (m + 1)) 0 := by
    rw [n0, s0, h0, g5, hrc]
  have a1 : fw (expand_round192_t1 rc t1 t3) 1 = (keyExpansion 6 12 kw).getD (6 * (m + 1) + 1) 0 := by
    rw [n1, s1, h1, a0]
  have a2 : fw (expand_round192_t1 rc t1 t3) 2 = (keyExpansion 6 12 kw).getD (6 * (m + 1) + 2) 0 := by
    rw [n2, s2, h2', a1]
  have a3 : fw (expand_round192_t1 rc t1 t3) 3 = (keyExpansion 6 12 kw).getD (6 * (m + 1) + 3) 0 := by
    rw [n3, s3, h3, a2]
  refine ⟨⟨a0, a1, a2, a3⟩, ?_⟩
  intro hm7
  obtain ⟨s4, s5⟩ := s45 hm7
  have a4 : fw (expand_round192_t3 rc t1 t3) 0 = (keyExpansion 6 12 kw).getD (6 * (m + 1) + 4) 0 := by
    rw [n4, s4, g4, a3]
  have a5 : fw (expand_round192_t3 rc t1 t3) 1 = (keyExpansion 6 12 kw).getD (6 * (m + 1) + 5) 0 := by
    rw [n5, s5, g5, a4]
  exact ⟨a4, a5⟩

/-! ### assembling 4-word round keys from the 6-word groups -/

theorem rk_of_g4 {t1 : BitVec 128} {w : Array (BitVec 32)} {m r : Nat} (h : IsG4 t1 w m) (e : 4 * r = 6 * m) :
    IsRK t1 w r := by
  obtain ⟨h0, h1, h2, h3⟩ := h
  unfold IsRK; rw [e]; exact ⟨h0, h1, h2, h3⟩

theorem rk_of_shuffle0 {a b : BitVec 128} {w : Array (BitVec 32)} {m r : Nat}
    (ha : IsG2 a w m) (hb : IsG4 b w (m + 1)) (e : 4 * r = 6 * m + 4) : IsRK (shuffle192 a b 0) w r := by
  obtain ⟨a4, a5⟩ := ha
  obtain ⟨b0, b1, _, _⟩ := hb
  obtain ⟨f0, f1, f2, f3, _, _, _, _⟩ := shuffle192_words a b
  have e2 : 4 * r + 2 = 6 * (m + 1) := by omega
  have e3 : 4 * r + 3 = 6 * (m + 1) + 1 := by omega
  have e1 : 4 * r + 1 = 6 * m + 5 := by omega
  unfold IsRK; rw [e1, e2, e3, e, f0, f1, f2, f3]; exact ⟨a4, a5, b0, b1⟩

theorem rk_of_shuffle1 {a b : BitVec 128} {w : Array (BitVec 32)} {m r : Nat}
    (ha : IsG4 a w m) (hb : IsG2 b w m) (e : 4 * r = 6 * m + 2) : IsRK (shuffle192 a b 1) w r := by
  obtain ⟨_, _, a2, a3⟩ := ha
  obtain ⟨b4, b5⟩ := hb
  obtain ⟨_, _, _, _, f0, f1, f2, f3⟩ := shuffle192_words a b
  have e1 : 4 * r + 1 = 6 * m + 3 := by omega
  have e2 : 4 * r + 2 = 6 * m + 4 := by omega
  have e3 : 4 * r + 3 = 6 * m + 5 := by omega
  unfold IsRK; rw [e1, e2, e3, e, f0, f1, f2, f3]; exact ⟨a2, a3, b4, b5⟩

theorem fw_load192 (k : BitVec 192) :
    fw (rev128 ((k.setWidth 256 <<< 64).extractLsb' 128 128)) 0 = k.extractLsb' 160 32 ∧
    fw (rev128 ((k.setWidth 256 <<< 64).extractLsb' 128 128)) 1 = k.extractLsb' 128 32 ∧
    fw (rev128 ((k.setWidth 256 <<< 64).extractLsb' 128 128)) 2 = k.extractLsb' 96 32 ∧
    fw (rev128 ((k.setWidth 256 <<< 64).extractLsb' 128 128)) 3 = k.extractLsb' 64 32 ∧
    fw (rev128 ((k.setWidth 256 <<< 64).extractLsb' 0 128)) 0 = k.extractLsb' 32 32 ∧
    fw (rev128 ((k.setWidth 256 <<< 64).extractLsb' 0 128)) 1 = k.extractLsb' 0 32 := by
  simp only [fw, dword, rev128, bswap32, bswap64]
  refine ⟨?_, ?_, ?_, ?_, ?_, ?_⟩ <;> bv_decide (config := { timeout := 600 })

/-- the array built by `aes192_expand_key`, written out -/
theorem aes192_expand_key_eq (key : BitVec 192) :
    aes192_expand_key key =
      let t : BitVec 256 := key.setWidth 256 <<< 64
      let k0 := _mm_loadu_si128 (t.extractLsb' 128 128)
      let k1l := _mm_loadu_si128 (t.extractLsb' 0 128)
      let r1 := expand_round192 0x01#8 k0 k1l
      let r2 := expand_round192 0x02#8 r1.1 r1.2
      let r3 := expand_round192 0x04#8 r2.1 r2.2
      let r4 := expand_round192 0x08#8 r3.1 r3.2
      let r5 := expand_round192 0x10#8 r4.1 r4.2
      let r6 := expand_round192 0x20#8 r5.1 r5.2
      let r7 := expand_round192 0x40#8 r6.1 r6.2
      let r8 := expand_round192 0x80#8 r7.1 r7.2
      [k0, shuffle192 k1l r1.1 0, shuffle192 r1.1 r1.2 1, r2.1, shuffle192 r2.2 r3.1 0, shuffle192 r3.1 r3.2 1,
       r4.1, shuffle192 r4.2 r5.1 0, shuffle192 r5.1 r5.2 1, r6.1, shuffle192 r6.2 r7.1 0, shuffle192 r7.1 r7.2 1,
       r8.1] := rfl

/-- **key schedule, AES-192** -/
theorem aes192_keys_match (key : BitVec 192) :
    KeysMatch (aes192_expand_key key) 12 (keyExpansion 6 12 (keyWords (unpackBE 24 key))) := by
  rw [keyWords24, aes192_expand_key_eq]
  generalize hkw : [key.extractLsb' 160 32, key.extractLsb' 128 32, key.extractLsb' 96 32, key.extractLsb' 64 32,
     key.extractLsb' 32 32, key.extractLsb' 0 32] = kw
  have hk : kw.length = 6 := by rw [← hkw]; rfl
  obtain ⟨f0, f1, f2, f3, f4, f5⟩ := fw_load192 key
  have a0 : IsG4 (_mm_loadu_si128 ((key.setWidth 256 <<< 64).extractLsb' 128 128)) (keyExpansion 6 12 kw) 0 := by
    refine ⟨?_, ?_, ?_, ?_⟩
    · rw [_mm_loadu_si128, f0, keyExpansion_init 6 12 kw 0 (by omega), ← hkw]; rfl
    · rw [_mm_loadu_si128, f1, keyExpansion_init 6 12 kw 1 (by omega), ← hkw]; rfl
    · rw [_mm_loadu_si128, f2, keyExpansion_init 6 12 kw 2 (by omega), ← hkw]; rfl
    · rw [_mm_loadu_si128, f3, keyExpansion_init 6 12 kw 3 (by omega), ← hkw]; rfl
  have b0 : IsG2 (_mm_loadu_si128 ((key.setWidth 256 <<< 64).extractLsb' 0 128)) (keyExpansion 6 12 kw) 0 := by
    refine ⟨?_, ?_⟩
    · rw [_mm_loadu_si128, f4, keyExpansion_init 6 12 kw 4 (by omega), ← hkw]; rfl
    · rw [_mm_loadu_si128, f5, keyExpansion_init 6 12 kw 5 (by omega), ← hkw]; rfl
  obtain ⟨c1, c2, c3, c4, c5, c6, c7, c8, _, _⟩ := rcw_rcon
  obtain ⟨a1, b1⟩ := IsG_step192 kw hk 0x01#8 _ _ 0 a0 b0 (by omega) c1
  have b1 := b1 (by omega)
  obtain ⟨a2, b2⟩ := IsG_step192 kw hk 0x02#8 _ _ 1 a1 b1 (by omega) c2
  have b2 := b2 (by omega)
  obtain ⟨a3, b3⟩ := IsG_step192 kw hk 0x04#8 _ _ 2 a2 b2 (by omega) c3
  have b3 := b3 (by omega)
  obtain ⟨a4, b4⟩ := IsG_step192 kw hk 0x08#8 _ _ 3 a3 b3 (by omega) c4
  have b4 := b4 (by omega)
  obtain ⟨a5, b5⟩ := IsG_step192 kw hk 0x10#8 _ _ 4 a4 b4 (by omega) c5
  have b5 := b5 (by omega)
  obtain ⟨a6, b6⟩ := IsG_step192 kw hk 0x20#8 _ _ 5 a5 b5 (by omega) c6
  have b6 := b6 (by omega)
  obtain ⟨a7, b7⟩ := IsG_step192 kw hk 0x40#8 _ _ 6 a6 b6 (by omega) c7
  have b7 := b7 (by omega)
  obtain ⟨a8, _⟩ := IsG_step192 kw hk 0x80#8 _ _ 7 a7 b7 (by omega) c8
  refine ⟨rfl, ?_⟩
  intro r hr
  have hc : r = 0 ∨ r = 1 ∨ r = 2 ∨ r = 3 ∨ r = 4 ∨ r = 5 ∨ r = 6 ∨ r = 7 ∨ r = 8 ∨ r = 9 ∨ r = 10 ∨
      r = 11 ∨ r = 12 := by omega
  rcases hc with h|h|h|h|h|h|h|h|h|h|h|h|h <;> subst h
  · exact (rk_of_g4 a0 (by omega)).roundKey
  · exact (rk_of_shuffle0 b0 a1 (by omega)).roundKey
  · exact (rk_of_shuffle1 a1 b1 (by omega)).roundKey
  · exact (rk_of_g4 a2 (by omega)).roundKey
  · exact (rk_of_shuffle0 b2 a3 (by omega)).roundKey
  · exact (rk_of_shuffle1 a3 b3 (by omega)).roundKey
  · exact (rk_of_g4 a4 (by omega)).roundKey
  · exact (rk_of_shuffle0 b4 a5 (by omega)).roundKey
  · exact (rk_of_shuffle1 a5 b5 (by omega)).roundKey
  · exact (rk_of_g4 a6 (by omega)).roundKey
  · exact (rk_of_shuffle0 b6 a7 (by omega)).roundKey
  · exact (rk_of_shuffle1 a7 b7 (by omega)).roundKey
  · exact (rk_of_g4 a8 (by omega)).roundKey

end BC.AesNi
