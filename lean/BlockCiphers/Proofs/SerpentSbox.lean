import BlockCiphers.Proofs.Basic
import BlockCiphers.Impl.Serpent
/-
Serpent: the sixteen bitsliced S-box circuits are mutually inverse (`bv_decide (config := { timeout := 600 })` on 4×32 bits), and
`linear_transform_inv` undoes `linear_transform` (128 bits).
-/
namespace BC.Serpent

theorem sboxD0_sboxE0 (w : Words) : sboxD0 (sboxE0 w) = w := by
  cases w; simp only [sboxD0, sboxE0, Words.mk.injEq]; bv_decide (config := { timeout := 600 })
theorem sboxE0_sboxD0 (w : Words) : sboxE0 (sboxD0 w) = w := by
  cases w; simp only [sboxD0, sboxE0, Words.mk.injEq]; bv_decide (config := { timeout := 600 })

theorem sboxD1_sboxE1 (w : Words) : sboxD1 (sboxE1 w) = w := by
  cases w; simp only [sboxD1, sboxE1, Words.mk.injEq]; bv_decide (config := { timeout := 600 })
theorem sboxE1_sboxD1 (w : Words) : sboxE1 (sboxD1 w) = w := by
  cases w; simp only [sboxD1, sboxE1, Words.mk.injEq]; bv_decide (config := { timeout := 600 })

theorem sboxD2_sboxE2 (w : Words) : sboxD2 (sboxE2 w) = w := by
  cases w; simp only [sboxD2, sboxE2, Words.mk.injEq]; bv_decide (config := { timeout := 600 })
theorem sboxE2_sboxD2 (w : Words) : sboxE2 (sboxD2 w) = w := by
  cases w; simp only [sboxD2, sboxE2, Words.mk.injEq]; bv_decide (config := { timeout := 600 })

theorem sboxD3_sboxE3 (w : Words) : sboxD3 (sboxE3 w) = w := by
  cases w; simp only [sboxD3, sboxE3, Words.mk.injEq]; bv_decide (config := { timeout := 600 })
theorem sboxE3_sboxD3 (w : Words) : sboxE3 (sboxD3 w) = w := by
  cases w; simp only [sboxD3, sboxE3, Words.mk.injEq]; bv_decide (config := { timeout := 600 })

theorem sboxD4_sboxE4 (w : Words) : sboxD4 (sboxE4 w) = w := by
  cases w; simp only [sboxD4, sboxE4, Words.mk.injEq]; bv_decide (config := { timeout := 600 })
theorem sboxE4_sboxD4 (w : Words) : sboxE4 (sboxD4 w) = w := by
  cases w; simp only [sboxD4, sboxE4, Words.mk.injEq]; bv_decide (config := { timeout := 600 })

theorem sboxD5_sboxE5 (w : Words) : sboxD5 (sboxE5 w) = w := by
  cases w; simp only [sboxD5, sboxE5, Words.mk.injEq]; bv_decide (config := { timeout := 600 })
theorem sboxE5_sboxD5 (w : Words) : sboxE5 (sboxD5 w) = w := by
  cases w; simp only [sboxD5, sboxE5, Words.mk.injEq]; bv_decide (config := { timeout := 600 })

theorem sboxD6_sboxE6 (w : Words) : sboxD6 (sboxE6 w) = w := by
  cases w; simp only [sboxD6, sboxE6, Words.mk.injEq]; bv_decide (config := { timeout := 600 })
theorem sboxE6_sboxD6 (w : Words) : sboxE6 (sboxD6 w) = w := by
  cases w; simp only [sboxD6, sboxE6, Words.mk.injEq]; bv_decide (config := { timeout := 600 })

theorem sboxD7_sboxE7 (w : Words) : sboxD7 (sboxE7 w) = w := by
  cases w; simp only [sboxD7, sboxE7, Words.mk.injEq]; bv_decide (config := { timeout := 600 })
theorem sboxE7_sboxD7 (w : Words) : sboxE7 (sboxD7 w) = w := by
  cases w; simp only [sboxD7, sboxE7, Words.mk.injEq]; bv_decide (config := { timeout := 600 })

theorem linearTransformInv_linearTransform (w : Words) : linearTransformInv (linearTransform w) = w := by
  cases w; simp only [linearTransformInv, linearTransform, Words.mk.injEq]; bv_decide (config := { timeout := 600 })
theorem linearTransform_linearTransformInv (w : Words) : linearTransform (linearTransformInv w) = w := by
  cases w; simp only [linearTransformInv, linearTransform, Words.mk.injEq]; bv_decide (config := { timeout := 600 })

end BC.Serpent
