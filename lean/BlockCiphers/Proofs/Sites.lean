import BlockCiphers.Gen.Sites
import BlockCiphers.Sites.Reviewed
/-
C20 — the inventory of panic-capable sites.

`Gen.sites` is re-extracted from /repo on every run: every plain `+ - * / % << >>`, every computed index and every
`unwrap/expect/assert!/unreachable!` of the non-test code, keyed by (crate, file, fn, kind, normalised text).
`Sites.reviewed` is the committed list of the sites that were reviewed (each is either executed identically on every
call — loop counters and constants, so the dev-profile run of the correspondence covers it exhaustively — or has a
no-overflow / in-range lemma in the `Proofs/*` module of its cipher).  The theorem says that **no site exists in the
code now that was not reviewed**; a new or textually changed site breaks it.  Both lists are sorted by a 60-bit key so
the inclusion is decided by one linear merge in the kernel.
-/
namespace BC.Sites

abbrev Site := Nat × String × String × String × String × String

/-- linear merge: every element of `a` occurs in `b` (both sorted by key; `fuel ≥ |a| + |b|`) -/
def subsetSorted : Nat → List Site → List Site → Bool
  | _, [], _ => true
  | 0, _ :: _, _ => false
  | _ + 1, _ :: _, [] => false
  | f + 1, a :: as, b :: bs =>
    if a.1 = b.1 then (a.2 == b.2) && subsetSorted f as bs
    else if b.1 < a.1 then subsetSorted f (a :: as) bs
    else false

/-- soundness of the merge: whatever the order of the lists, `true` means inclusion -/
theorem subsetSorted_sound : ∀ (f : Nat) (a b : List Site), subsetSorted f a b = true → ∀ x ∈ a, x ∈ b := by
  intro f
  induction f with
  | zero =>
    intro a b h x hx
    cases a with
    | nil => cases hx
    | cons _ _ => simp [subsetSorted] at h
  | succ f ih =>
    intro a b h x hx
    cases a with
    | nil => cases hx
    | cons a0 as =>
      cases b with
      | nil => simp [subsetSorted] at h
      | cons b0 bs =>
        simp only [subsetSorted] at h
        by_cases h1 : a0.1 = b0.1
        · simp only [h1, if_true, Bool.and_eq_true, beq_iff_eq] at h
          rcases List.mem_cons.mp hx with rfl | hx'
          · have : x = b0 := Prod.ext h1 h.1
            exact this ▸ List.mem_cons_self
          · exact List.mem_cons_of_mem _ (ih as bs h.2 x hx')
        · simp only [h1, if_false] at h
          by_cases h2 : b0.1 < a0.1
          · simp only [h2, if_true] at h
            exact List.mem_cons_of_mem _ (ih (a0 :: as) bs h x hx)
          · simp [h2] at h

theorem sites_merge : subsetSorted (BC.Gen.sites.length + reviewed.length) BC.Gen.sites reviewed = true := by
  decide +kernel

/-- every panic-capable site present in /repo now was reviewed (no new plain arithmetic, indexing, unwrap or
assertion has appeared since the review) -/
theorem all_sites_reviewed : ∀ s ∈ BC.Gen.sites, s ∈ reviewed :=
  subsetSorted_sound _ _ _ sites_merge

/-- non-vacuity: the inventory is not empty (≈ 980 sites at the pinned commit) -/
theorem sites_nonempty : 900 < BC.Gen.sites.length := by decide +kernel

end BC.Sites
