import BlockCiphers.Proofs.AesFs64Ks256
import BlockCiphers.Proofs.AesFs64Lanes
/-!
C02 stage (v) end: evaluation of the array program `aes256_key_schedule[_compact]` and the end-to-end
theorems for AES-256 on the fixslice64 backend.
-/
namespace BC.AesFs64
open BC.Spec.Aes
set_option linter.unusedSimpArgs false

theorem stepBy_8_104_32 : stepBy 8 104 32 = [8, 40, 72] := by decide
theorem stepBy_8_120_16 : stepBy 8 120 16 = [8, 24, 40, 56, 72, 88, 104] := by decide
theorem range'_1_14 : List.range' 1 14 = [1,2,3,4,5,6,7,8,9,10,11,12,13,14] := by decide

set_option maxRecDepth 100000 in
/-- the array program writes the chain `ks256S` -/
theorem raw256_eval (key : BitVec 256) :
    (aes256_key_schedule_raw key).size = 15 ∧
    rd (aes256_key_schedule_raw key) 0 = ks256S key 0 ∧
    rd (aes256_key_schedule_raw key) 1 = ks256S key 1 ∧
    rd (aes256_key_schedule_raw key) 2 = ks256S key 2 ∧
    rd (aes256_key_schedule_raw key) 3 = ks256S key 3 ∧
    rd (aes256_key_schedule_raw key) 4 = ks256S key 4 ∧
    rd (aes256_key_schedule_raw key) 5 = ks256S key 5 ∧
    rd (aes256_key_schedule_raw key) 6 = ks256S key 6 ∧
    rd (aes256_key_schedule_raw key) 7 = ks256S key 7 ∧
    rd (aes256_key_schedule_raw key) 8 = ks256S key 8 ∧
    rd (aes256_key_schedule_raw key) 9 = ks256S key 9 ∧
    rd (aes256_key_schedule_raw key) 10 = ks256S key 10 ∧
    rd (aes256_key_schedule_raw key) 11 = ks256S key 11 ∧
    rd (aes256_key_schedule_raw key) 12 = ks256S key 12 ∧
    rd (aes256_key_schedule_raw key) 13 = ks256S key 13 ∧
    rd (aes256_key_schedule_raw key) 14 = ks256S key 14 := by
  simp only [aes256_key_schedule_raw, aes256_ks_loop, memshift32, xor_columns,
    Nat.reduceAdd, Nat.reduceSub, Nat.reduceDiv, Nat.reduceLT, Nat.reduceBEq, Nat.reduceMod, Bool.false_eq_true, if_true, if_false,
    rd_upd_same, rd_upd_ne, rd_wr_same, rd_wr_ne, size_wr, size_upd, Array.size_replicate, ne_eq, Nat.reduceEqDiff,
    not_false_eq_true, not_true_eq_false, ks256S, arc128, true_and, and_self, and_true]

set_option maxRecDepth 100000 in
theorem aes256_key_schedule_eval (key : BitVec 256) :
    rd (aes256_key_schedule key) 0 = bitslice (rk256 key 0) (rk256 key 0) (rk256 key 0) (rk256 key 0) ∧
    rd (aes256_key_schedule key) 1 = sub_bytes_nots (inv_shift_rows_1 (bitslice (rk256 key 1) (rk256 key 1) (rk256 key 1) (rk256 key 1))) ∧
    rd (aes256_key_schedule key) 2 = sub_bytes_nots (inv_shift_rows_2 (bitslice (rk256 key 2) (rk256 key 2) (rk256 key 2) (rk256 key 2))) ∧
    rd (aes256_key_schedule key) 3 = sub_bytes_nots (inv_shift_rows_3 (bitslice (rk256 key 3) (rk256 key 3) (rk256 key 3) (rk256 key 3))) ∧
    rd (aes256_key_schedule key) 4 = sub_bytes_nots (bitslice (rk256 key 4) (rk256 key 4) (rk256 key 4) (rk256 key 4)) ∧
    rd (aes256_key_schedule key) 5 = sub_bytes_nots (inv_shift_rows_1 (bitslice (rk256 key 5) (rk256 key 5) (rk256 key 5) (rk256 key 5))) ∧
    rd (aes256_key_schedule key) 6 = sub_bytes_nots (inv_shift_rows_2 (bitslice (rk256 key 6) (rk256 key 6) (rk256 key 6) (rk256 key 6))) ∧
    rd (aes256_key_schedule key) 7 = sub_bytes_nots (inv_shift_rows_3 (bitslice (rk256 key 7) (rk256 key 7) (rk256 key 7) (rk256 key 7))) ∧
    rd (aes256_key_schedule key) 8 = sub_bytes_nots (bitslice (rk256 key 8) (rk256 key 8) (rk256 key 8) (rk256 key 8)) ∧
    rd (aes256_key_schedule key) 9 = sub_bytes_nots (inv_shift_rows_1 (bitslice (rk256 key 9) (rk256 key 9) (rk256 key 9) (rk256 key 9))) ∧
    rd (aes256_key_schedule key) 10 = sub_bytes_nots (inv_shift_rows_2 (bitslice (rk256 key 10) (rk256 key 10) (rk256 key 10) (rk256 key 10))) ∧
    rd (aes256_key_schedule key) 11 = sub_bytes_nots (inv_shift_rows_3 (bitslice (rk256 key 11) (rk256 key 11) (rk256 key 11) (rk256 key 11))) ∧
    rd (aes256_key_schedule key) 12 = sub_bytes_nots (bitslice (rk256 key 12) (rk256 key 12) (rk256 key 12) (rk256 key 12)) ∧
    rd (aes256_key_schedule key) 13 = sub_bytes_nots (inv_shift_rows_1 (bitslice (rk256 key 13) (rk256 key 13) (rk256 key 13) (rk256 key 13))) ∧
    rd (aes256_key_schedule key) 14 = sub_bytes_nots (bitslice (rk256 key 14) (rk256 key 14) (rk256 key 14) (rk256 key 14)) := by
  obtain ⟨hs, e0, e1, e2, e3, e4, e5, e6, e7, e8, e9, e10, e11, e12, e13, e14⟩ := raw256_eval key
  obtain ⟨p0, p1, p2, p3, p4, p5, p6, p7, p8, p9, p10, p11, p12, p13, p14⟩ := ks256S_all key
  simp only [aes256_key_schedule, ks_nots, aes256_ks_adjust, stepBy_8_104_32, range'_1_14, List.foldl,
    Nat.reduceAdd, Nat.reduceSub, Nat.reduceDiv, Nat.reduceMul, Nat.reduceLT,
    rd_upd_same, rd_upd_ne, size_upd, hs, ne_eq, Nat.reduceEqDiff,
    not_false_eq_true, not_true_eq_false, e0, e1, e2, e3, e4, e5, e6, e7, e8, e9, e10, e11, e12, e13, e14]
  simp only [p0, p1, p2, p3, p4, p5, p6, p7, p8, p9, p10, p11, p12, p13, p14, and_self]

/-- **key schedule = FIPS-197 KeyExpansion in fixsliced form** (AES-256, normal) -/
theorem aes256_key_schedule_spec (key : BitVec 256) (r : Nat) (hr : r ≤ 14) :
    rkFn (aes256_key_schedule key) r = fsKey 14 r (uniformKeys (rk256 key) r) := by
  obtain ⟨e0, e1, e2, e3, e4, e5, e6, e7, e8, e9, e10, e11, e12, e13, e14⟩ := aes256_key_schedule_eval key
  exact match r, hr with
  | 0, _ => by simp [rkFn, fsKey, fsKeyC, repSt, bitsliceB, uniformKeys, e0]
  | 1, _ => by simp [rkFn, fsKey, fsKeyC, repSt, bitsliceB, uniformKeys, e1]
  | 2, _ => by simp [rkFn, fsKey, fsKeyC, repSt, bitsliceB, uniformKeys, e2]
  | 3, _ => by simp [rkFn, fsKey, fsKeyC, repSt, bitsliceB, uniformKeys, e3]
  | 4, _ => by simp [rkFn, fsKey, fsKeyC, repSt, bitsliceB, uniformKeys, e4]
  | 5, _ => by simp [rkFn, fsKey, fsKeyC, repSt, bitsliceB, uniformKeys, e5]
  | 6, _ => by simp [rkFn, fsKey, fsKeyC, repSt, bitsliceB, uniformKeys, e6]
  | 7, _ => by simp [rkFn, fsKey, fsKeyC, repSt, bitsliceB, uniformKeys, e7]
  | 8, _ => by simp [rkFn, fsKey, fsKeyC, repSt, bitsliceB, uniformKeys, e8]
  | 9, _ => by simp [rkFn, fsKey, fsKeyC, repSt, bitsliceB, uniformKeys, e9]
  | 10, _ => by simp [rkFn, fsKey, fsKeyC, repSt, bitsliceB, uniformKeys, e10]
  | 11, _ => by simp [rkFn, fsKey, fsKeyC, repSt, bitsliceB, uniformKeys, e11]
  | 12, _ => by simp [rkFn, fsKey, fsKeyC, repSt, bitsliceB, uniformKeys, e12]
  | 13, _ => by simp [rkFn, fsKey, fsKeyC, repSt, bitsliceB, uniformKeys, e13]
  | 14, _ => by simp [rkFn, fsKey, fsKeyC, repSt, bitsliceB, uniformKeys, e14]

/-- **C02 end-to-end, AES-256 fixslice64 normal** -/
theorem aes256_conforms (key : BitVec 256) (b : Batch) :
    aes256_encrypt (rkFn (aes256_key_schedule key)) b = b.map (cipherK 14 (rk256 key)) ∧
    aes256_decrypt (rkFn (aes256_key_schedule key)) b = b.map (invCipherK 14 (rk256 key)) ∧
    (∀ x, single (aes256_encrypt (rkFn (aes256_key_schedule key))) x = cipher 14 (keyExpansion 8 14 (words256 key)) x) ∧
    (∀ x, single (aes256_decrypt (rkFn (aes256_key_schedule key))) x = invCipher 14 (keyExpansion 8 14 (words256 key)) x) := by
  have h := aes256_key_schedule_spec key
  have he := aes256_encrypt_uniform _ (rk256 key) h
  have hd := aes256_decrypt_uniform _ (rk256 key) h
  exact ⟨(he b).1, (hd b).1, (he b).2, (hd b).2⟩

set_option maxRecDepth 100000 in
theorem aes256_key_schedule_compact_eval (key : BitVec 256) :
    rd (aes256_key_schedule_compact key) 0 = bitslice (rk256 key 0) (rk256 key 0) (rk256 key 0) (rk256 key 0) ∧
    rd (aes256_key_schedule_compact key) 1 = sub_bytes_nots (inv_shift_rows_1 (bitslice (rk256 key 1) (rk256 key 1) (rk256 key 1) (rk256 key 1))) ∧
    rd (aes256_key_schedule_compact key) 2 = sub_bytes_nots (bitslice (rk256 key 2) (rk256 key 2) (rk256 key 2) (rk256 key 2)) ∧
    rd (aes256_key_schedule_compact key) 3 = sub_bytes_nots (inv_shift_rows_1 (bitslice (rk256 key 3) (rk256 key 3) (rk256 key 3) (rk256 key 3))) ∧
    rd (aes256_key_schedule_compact key) 4 = sub_bytes_nots (bitslice (rk256 key 4) (rk256 key 4) (rk256 key 4) (rk256 key 4)) ∧
    rd (aes256_key_schedule_compact key) 5 = sub_bytes_nots (inv_shift_rows_1 (bitslice (rk256 key 5) (rk256 key 5) (rk256 key 5) (rk256 key 5))) ∧
    rd (aes256_key_schedule_compact key) 6 = sub_bytes_nots (bitslice (rk256 key 6) (rk256 key 6) (rk256 key 6) (rk256 key 6)) ∧
    rd (aes256_key_schedule_compact key) 7 = sub_bytes_nots (inv_shift_rows_1 (bitslice (rk256 key 7) (rk256 key 7) (rk256 key 7) (rk256 key 7))) ∧
    rd (aes256_key_schedule_compact key) 8 = sub_bytes_nots (bitslice (rk256 key 8) (rk256 key 8) (rk256 key 8) (rk256 key 8)) ∧
    rd (aes256_key_schedule_compact key) 9 = sub_bytes_nots (inv_shift_rows_1 (bitslice (rk256 key 9) (rk256 key 9) (rk256 key 9) (rk256 key 9))) ∧
    rd (aes256_key_schedule_compact key) 10 = sub_bytes_nots (bitslice (rk256 key 10) (rk256 key 10) (rk256 key 10) (rk256 key 10)) ∧
    rd (aes256_key_schedule_compact key) 11 = sub_bytes_nots (inv_shift_rows_1 (bitslice (rk256 key 11) (rk256 key 11) (rk256 key 11) (rk256 key 11))) ∧
    rd (aes256_key_schedule_compact key) 12 = sub_bytes_nots (bitslice (rk256 key 12) (rk256 key 12) (rk256 key 12) (rk256 key 12)) ∧
    rd (aes256_key_schedule_compact key) 13 = sub_bytes_nots (inv_shift_rows_1 (bitslice (rk256 key 13) (rk256 key 13) (rk256 key 13) (rk256 key 13))) ∧
    rd (aes256_key_schedule_compact key) 14 = sub_bytes_nots (bitslice (rk256 key 14) (rk256 key 14) (rk256 key 14) (rk256 key 14)) := by
  obtain ⟨hs, e0, e1, e2, e3, e4, e5, e6, e7, e8, e9, e10, e11, e12, e13, e14⟩ := raw256_eval key
  obtain ⟨p0, p1, p2, p3, p4, p5, p6, p7, p8, p9, p10, p11, p12, p13, p14⟩ := ks256S_all key
  simp only [aes256_key_schedule_compact, ks_nots, ks_adjust_compact, stepBy_8_120_16, range'_1_14, List.foldl,
    Nat.reduceAdd, Nat.reduceSub, Nat.reduceDiv, Nat.reduceMul, Nat.reduceLT,
    rd_upd_same, rd_upd_ne, size_upd, hs, ne_eq, Nat.reduceEqDiff,
    not_false_eq_true, not_true_eq_false, e0, e1, e2, e3, e4, e5, e6, e7, e8, e9, e10, e11, e12, e13, e14]
  simp only [p0, p1, p2, p3, p4, p5, p6, p7, p8, p9, p10, p11, p12, p13, p14, and_self]

/-- **key schedule = FIPS-197 KeyExpansion in fixsliced form** (AES-256, compact) -/
theorem aes256_key_schedule_compact_spec (key : BitVec 256) (r : Nat) (hr : r ≤ 14) :
    rkFn (aes256_key_schedule_compact key) r = fsKeyC r (uniformKeys (rk256 key) r) := by
  obtain ⟨e0, e1, e2, e3, e4, e5, e6, e7, e8, e9, e10, e11, e12, e13, e14⟩ := aes256_key_schedule_compact_eval key
  exact match r, hr with
  | 0, _ => by simp [rkFn, fsKey, fsKeyC, repSt, bitsliceB, uniformKeys, e0]
  | 1, _ => by simp [rkFn, fsKey, fsKeyC, repSt, bitsliceB, uniformKeys, e1]
  | 2, _ => by simp [rkFn, fsKey, fsKeyC, repSt, bitsliceB, uniformKeys, e2]
  | 3, _ => by simp [rkFn, fsKey, fsKeyC, repSt, bitsliceB, uniformKeys, e3]
  | 4, _ => by simp [rkFn, fsKey, fsKeyC, repSt, bitsliceB, uniformKeys, e4]
  | 5, _ => by simp [rkFn, fsKey, fsKeyC, repSt, bitsliceB, uniformKeys, e5]
  | 6, _ => by simp [rkFn, fsKey, fsKeyC, repSt, bitsliceB, uniformKeys, e6]
  | 7, _ => by simp [rkFn, fsKey, fsKeyC, repSt, bitsliceB, uniformKeys, e7]
  | 8, _ => by simp [rkFn, fsKey, fsKeyC, repSt, bitsliceB, uniformKeys, e8]
  | 9, _ => by simp [rkFn, fsKey, fsKeyC, repSt, bitsliceB, uniformKeys, e9]
  | 10, _ => by simp [rkFn, fsKey, fsKeyC, repSt, bitsliceB, uniformKeys, e10]
  | 11, _ => by simp [rkFn, fsKey, fsKeyC, repSt, bitsliceB, uniformKeys, e11]
  | 12, _ => by simp [rkFn, fsKey, fsKeyC, repSt, bitsliceB, uniformKeys, e12]
  | 13, _ => by simp [rkFn, fsKey, fsKeyC, repSt, bitsliceB, uniformKeys, e13]
  | 14, _ => by simp [rkFn, fsKey, fsKeyC, repSt, bitsliceB, uniformKeys, e14]

/-- **C02 end-to-end, AES-256 fixslice64 compact** -/
theorem aes256_compact_conforms (key : BitVec 256) (b : Batch) :
    aes256_encrypt_compact (rkFn (aes256_key_schedule_compact key)) b = b.map (cipherK 14 (rk256 key)) ∧
    aes256_decrypt_compact (rkFn (aes256_key_schedule_compact key)) b = b.map (invCipherK 14 (rk256 key)) ∧
    (∀ x, single (aes256_encrypt_compact (rkFn (aes256_key_schedule_compact key))) x = cipher 14 (keyExpansion 8 14 (words256 key)) x) ∧
    (∀ x, single (aes256_decrypt_compact (rkFn (aes256_key_schedule_compact key))) x = invCipher 14 (keyExpansion 8 14 (words256 key)) x) := by
  have h := aes256_key_schedule_compact_spec key
  have he := aes256_encrypt_compact_uniform _ (rk256 key) h
  have hd := aes256_decrypt_compact_uniform _ (rk256 key) h
  exact ⟨(he b).1, (hd b).1, (he b).2, (hd b).2⟩

end BC.AesFs64
