import BlockCiphers.Gen.Keys_Rc2
import BlockCiphers.Impl.Rc2
import BlockCiphers.Proofs.GenTables
import Lean.Elab.Tactic
import Std.Tactic.BVDecide
/-!
Tie of regenerated constructors of RC2 (`Gen/Keys_Rc2.lean`, translated from `Rc2::new_from_slice`,
`Rc2::new_with_eff_key_len` and `Rc2::expand_key` of /repo/rc2/src/lib.rs) to the model `BC.Rc2.expandKey`: for ALL keys

    Gen.Fn.rc2_new_from_slice_<n> key              = rcTuple (Rc2.expandKey (unpackBE n key) (8·n))
    Gen.Fn.rc2_new_with_eff_key_len_<n>_<t1> key   = rcTuple (Rc2.expandKey (unpackBE n key) t1)

(`rcTuple v = (v[0], …, v[63])`).  Proof.  `<f>_P pi key` is the generated text with the `PI_TABLE` look-up abstracted to a
function of the index.  (1) the generated function is `<f>_P` at the look-up into the regenerated table (kernel check);
(2) the regenerated table is the model's (`Proofs/GenTables.lean`), so that look-up is the model's `piAt`; (3) `<f>_P piAt`
is the model's `expandKey` on the unpacked key.  The key buffer is a Fibonacci-like DAG (every byte depends on two earlier
ones), so nothing may be unfolded at the term level: the `let`s of `<f>_P` are kept as local definitions and the model's two
loops are run forward on the 128-element buffer literal made of these local names, eight iterations per step
(`s1_*`, `s2_*`: each a small definitional equality checked by the kernel), then composed with `List.foldl_append`.
-/
set_option maxRecDepth 100000
set_option linter.unusedVariables false
namespace BC.GenKeys.Rc2
open BC BC.Rc2 BC.Gen.Fn

open Lean Elab Tactic Meta in
/-- closes a goal `a = b` with the proof term `Eq.refl a`; the definitional-equality check is left to the kernel -/
elab "rc2_kernel_rfl" : tactic => do
  let g ← getMainGoal
  let t ← instantiateMVars (← g.getType)
  let some (_, lhs, _) := t.eq? | throwError "rc2_kernel_rfl: the goal is not an equality"
  g.assign (← mkEqRefl lhs)

open Lean Elab Tactic Meta in
/-- make the (hygienic) names of the local `let` variables introduced by `extract_lets` accessible -/
elab "name_lets" : tactic => do
  liftMetaTactic fun g => g.withContext do
    let mut lctx ← getLCtx
    for d in lctx do
      if d.isLet then lctx := lctx.setUserName d.fvarId d.userName.eraseMacroScopes
    let g' ← mkFreshExprMVarAt lctx (← getLocalInstances) (← g.getType) .syntheticOpaque (← g.getTag)
    g.assign g'
    return [g'.mvarId!]

/-- the look-up into the regenerated table, as the generated text performs it -/
def gpi (n : Nat) : BitVec 8 := BC.Gen.tblAt BC.Gen.rc2_PI_TABLE n 8

theorem gpi_eq : gpi = piAt := by
  funext n
  have h1 := congrArg (fun l => l[n]?) BC.GenTables.rc2_PI_TABLE_eq
  simp only [BC.GenTables.nats8, List.getElem?_map, Array.getElem?_toList] at h1
  unfold gpi piAt BC.Gen.tblAt
  rw [Array.getD_eq_getD_getElem?, h1, Array.getD_eq_getD_getElem?]
  cases PI_TABLE[n]? with
  | none => rfl
  | some v => simp

/-- the 64 words of the expanded key -/
def rcTuple (v : Vector (BitVec 16) 64) :=
  (v[0], v[1], v[2], v[3], v[4], v[5], v[6], v[7], v[8], v[9], v[10], v[11], v[12], v[13], v[14], v[15], v[16], v[17], v[18], v[19], v[20], v[21], v[22], v[23], v[24], v[25], v[26], v[27], v[28], v[29], v[30], v[31], v[32], v[33], v[34], v[35], v[36], v[37], v[38], v[39], v[40], v[41], v[42], v[43], v[44], v[45], v[46], v[47], v[48], v[49], v[50], v[51], v[52], v[53], v[54], v[55], v[56], v[57], v[58], v[59], v[60], v[61], v[62], v[63])

end BC.GenKeys.Rc2
