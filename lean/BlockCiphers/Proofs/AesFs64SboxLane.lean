import BlockCiphers.Proofs.AesFs64Defs
import Std.Tactic.BVDecide
/-!
C02 stage (i), the crux: on a packed state the 64-bit circuit computes, in each of the 64 byte
lanes, the width-1 circuit (4×128 input bits, 64 S-box instances on the right-hand side).
-/
namespace BC.AesFs64
open BC.Spec.Aes

set_option maxRecDepth 10000000 in
theorem sub_bytes_bitslice (b0 b1 b2 b3 : BitVec 128) :
    sub_bytes (bitslice b0 b1 b2 b3) =
      bitslice (mapBytes sub_bytes_bit b0) (mapBytes sub_bytes_bit b1)
        (mapBytes sub_bytes_bit b2) (mapBytes sub_bytes_bit b3) := by
  simp only [sub_bytes, sub_bytes_bit, mapBytes, bitslice, index_swaps, delta_swap_2, read_reordered,
    byteOf, getB, St.mk.injEq]
  bv_decide (config := { timeout := 1800 })

end BC.AesFs64
