import BlockCiphers.Proofs.BlowfishKat
/-
Schneier / Young `vectors.txt`, the variable-key-length set: key = the first `n` bytes of
F0E1D2C3B4A5968778695A4B3C2D1E0F0011223344556677, plaintext FEDCBA9876543210.  The crate accepts
n ≥ 4 (the set starts at 1); n = 4..24 are checked by the kernel (key lengths that are not multiples of 4
exercise the byte-wise key wrap of `next_u32_wrap`).  The published sets stop at 24 bytes; lengths up
to 56 are covered by the correspondence runs and by the OpenSSL cross-check (see the report).
-/
namespace BC.Blowfish.Kat

example : modelEnc (hexKey 0xF0E1D2C3 4) 0xFEDCBA9876543210#64 = some 0xBE1E639408640F05#64 :=
  kat_transfer _ _ _ (by decide +kernel)
example : modelEnc (hexKey 0xF0E1D2C3B4 5) 0xFEDCBA9876543210#64 = some 0xB39E44481BDB1E6E#64 :=
  kat_transfer _ _ _ (by decide +kernel)
example : modelEnc (hexKey 0xF0E1D2C3B4A5 6) 0xFEDCBA9876543210#64 = some 0x9457AA83B1928C0D#64 :=
  kat_transfer _ _ _ (by decide +kernel)
example : modelEnc (hexKey 0xF0E1D2C3B4A596 7) 0xFEDCBA9876543210#64 = some 0x8BB77032F960629D#64 :=
  kat_transfer _ _ _ (by decide +kernel)
example : modelEnc (hexKey 0xF0E1D2C3B4A59687 8) 0xFEDCBA9876543210#64 = some 0xE87A244E2CC85E82#64 :=
  kat_transfer _ _ _ (by decide +kernel)
example : modelEnc (hexKey 0xF0E1D2C3B4A5968778 9) 0xFEDCBA9876543210#64 = some 0x15750E7A4F4EC577#64 :=
  kat_transfer _ _ _ (by decide +kernel)
example : modelEnc (hexKey 0xF0E1D2C3B4A596877869 10) 0xFEDCBA9876543210#64 = some 0x122BA70B3AB64AE0#64 :=
  kat_transfer _ _ _ (by decide +kernel)
example : modelEnc (hexKey 0xF0E1D2C3B4A5968778695A 11) 0xFEDCBA9876543210#64 = some 0x3A833C9AFFC537F6#64 :=
  kat_transfer _ _ _ (by decide +kernel)
example : modelEnc (hexKey 0xF0E1D2C3B4A5968778695A4B 12) 0xFEDCBA9876543210#64 = some 0x9409DA87A90F6BF2#64 :=
  kat_transfer _ _ _ (by decide +kernel)
example : modelEnc (hexKey 0xF0E1D2C3B4A5968778695A4B3C 13) 0xFEDCBA9876543210#64 = some 0x884F80625060B8B4#64 :=
  kat_transfer _ _ _ (by decide +kernel)
example : modelEnc (hexKey 0xF0E1D2C3B4A5968778695A4B3C2D 14) 0xFEDCBA9876543210#64 = some 0x1F85031C19E11968#64 :=
  kat_transfer _ _ _ (by decide +kernel)
example : modelEnc (hexKey 0xF0E1D2C3B4A5968778695A4B3C2D1E 15) 0xFEDCBA9876543210#64 = some 0x79D9373A714CA34F#64 :=
  kat_transfer _ _ _ (by decide +kernel)
example : modelEnc (hexKey 0xF0E1D2C3B4A5968778695A4B3C2D1E0F 16) 0xFEDCBA9876543210#64 = some 0x93142887EE3BE15C#64 :=
  kat_transfer _ _ _ (by decide +kernel)
example : modelEnc (hexKey 0xF0E1D2C3B4A5968778695A4B3C2D1E0F00 17) 0xFEDCBA9876543210#64 = some 0x03429E838CE2D14B#64 :=
  kat_transfer _ _ _ (by decide +kernel)
example : modelEnc (hexKey 0xF0E1D2C3B4A5968778695A4B3C2D1E0F0011 18) 0xFEDCBA9876543210#64 = some 0xA4299E27469FF67B#64 :=
  kat_transfer _ _ _ (by decide +kernel)
example : modelEnc (hexKey 0xF0E1D2C3B4A5968778695A4B3C2D1E0F001122 19) 0xFEDCBA9876543210#64 = some 0xAFD5AED1C1BC96A8#64 :=
  kat_transfer _ _ _ (by decide +kernel)
example : modelEnc (hexKey 0xF0E1D2C3B4A5968778695A4B3C2D1E0F00112233 20) 0xFEDCBA9876543210#64 = some 0x10851C0E3858DA9F#64 :=
  kat_transfer _ _ _ (by decide +kernel)
example : modelEnc (hexKey 0xF0E1D2C3B4A5968778695A4B3C2D1E0F0011223344 21) 0xFEDCBA9876543210#64 = some 0xE6F51ED79B9DB21F#64 :=
  kat_transfer _ _ _ (by decide +kernel)
example : modelEnc (hexKey 0xF0E1D2C3B4A5968778695A4B3C2D1E0F001122334455 22) 0xFEDCBA9876543210#64 = some 0x64A6E14AFD36B46F#64 :=
  kat_transfer _ _ _ (by decide +kernel)
example : modelEnc (hexKey 0xF0E1D2C3B4A5968778695A4B3C2D1E0F00112233445566 23) 0xFEDCBA9876543210#64 = some 0x80C7D7D45A5479AD#64 :=
  kat_transfer _ _ _ (by decide +kernel)
example : modelEnc (hexKey 0xF0E1D2C3B4A5968778695A4B3C2D1E0F0011223344556677 24) 0xFEDCBA9876543210#64 = some 0x05044B62FA52D080#64 :=
  kat_transfer _ _ _ (by decide +kernel)

end BC.Blowfish.Kat
