import BlockCiphers.Proofs.Basic
import BlockCiphers.Impl.Sm4
/-
SM4: decryption inverts encryption (both orders) for an arbitrary round-key function, hence for every
key; bounds of the table look-ups.
-/
namespace BC.Sm4

/-- word reversal: the output order `x[3], x[2], x[1], x[0]` -/
def rev (x : X) : X := { x0 := x.x3, x1 := x.x2, x2 := x.x1, x3 := x.x0 }

theorem rev_rev (x : X) : rev (rev x) = x := by cases x; rfl

theorem xor3_rev (a b c k : BitVec 32) : a ^^^ b ^^^ c ^^^ k = c ^^^ b ^^^ a ^^^ k := by
  bv_decide (config := { timeout := 600 })

theorem xor_cancel_right (a b : BitVec 32) : a ^^^ b ^^^ b = a := by
  rw [BitVec.xor_assoc, BitVec.xor_self, BitVec.xor_zero]

/-- one iteration with an explicit quadruple of round keys -/
def iter4 (k0 k1 k2 k3 : BitVec 32) (x : X) : X :=
  let x0 := x.x0 ^^^ t (x.x1 ^^^ x.x2 ^^^ x.x3 ^^^ k0)
  let x1 := x.x1 ^^^ t (x.x2 ^^^ x.x3 ^^^ x0 ^^^ k1)
  let x2 := x.x2 ^^^ t (x.x3 ^^^ x0 ^^^ x1 ^^^ k2)
  let x3 := x.x3 ^^^ t (x0 ^^^ x1 ^^^ x2 ^^^ k3)
  { x0 := x0, x1 := x1, x2 := x2, x3 := x3 }

/-- the four updates run backwards on the reversed state undo the four updates -/
theorem iter4_rev_iter4 (k0 k1 k2 k3 : BitVec 32) (x : X) :
    iter4 k3 k2 k1 k0 (rev (iter4 k0 k1 k2 k3 x)) = rev x := by
  cases x with | mk x0 x1 x2 x3 =>
  simp only [iter4, rev, X.mk.injEq]
  refine ⟨?_, ?_, ?_, ?_⟩
  · rw [xor3_rev _ _ _ k3, xor_cancel_right]
  · rw [xor3_rev _ _ _ k3, xor_cancel_right, xor3_rev _ _ x3 k2, xor_cancel_right]
  · rw [xor3_rev _ _ _ k3, xor_cancel_right, xor3_rev _ _ x3 k2, xor_cancel_right,
      xor3_rev _ x3 x2 k1, xor_cancel_right]
  · rw [xor3_rev _ _ _ k3, xor_cancel_right, xor3_rev _ _ x3 k2, xor_cancel_right,
      xor3_rev _ x3 x2 k1, xor_cancel_right, xor3_rev x3 x2 x1 k0, xor_cancel_right]

theorem encIter_eq (rk : Nat → BitVec 32) (i : Nat) (x : X) :
    encIter rk i x = iter4 (rk (i * 4)) (rk (i * 4 + 1)) (rk (i * 4 + 2)) (rk (i * 4 + 3)) x := rfl

theorem decIter_eq (rk : Nat → BitVec 32) (i : Nat) (x : X) :
    decIter rk i x =
      iter4 (rk (31 - i * 4)) (rk (31 - (i * 4 + 1))) (rk (31 - (i * 4 + 2))) (rk (31 - (i * 4 + 3))) x := rfl

/-- decryption iteration `7 - i` undoes encryption iteration `i` (on the reversed state) -/
theorem decIter_rev_encIter (rk : Nat → BitVec 32) (i : Nat) (hi : i < 8) (x : X) :
    decIter rk (7 - i) (rev (encIter rk i x)) = rev x := by
  rw [encIter_eq, decIter_eq]
  have e0 : 31 - (7 - i) * 4 = i * 4 + 3 := by omega
  have e1 : 31 - ((7 - i) * 4 + 1) = i * 4 + 2 := by omega
  have e2 : 31 - ((7 - i) * 4 + 2) = i * 4 + 1 := by omega
  have e3 : 31 - ((7 - i) * 4 + 3) = i * 4 := by omega
  rw [e0, e1, e2, e3, iter4_rev_iter4]

theorem encIter_rev_decIter (rk : Nat → BitVec 32) (i : Nat) (hi : i < 8) (x : X) :
    encIter rk (7 - i) (rev (decIter rk i x)) = rev x := by
  rw [encIter_eq, decIter_eq]
  have e0 : (7 - i) * 4 = 31 - (i * 4 + 3) := by omega
  have e1 : (7 - i) * 4 + 1 = 31 - (i * 4 + 2) := by omega
  have e2 : (7 - i) * 4 + 2 = 31 - (i * 4 + 1) := by omega
  have e3 : (7 - i) * 4 + 3 = 31 - i * 4 := by omega
  rw [e3, e2, e1, e0, iter4_rev_iter4]

/-- the loop `for i in 0..8` read backwards: `forRange 0 8 f = forRangeRev 0 8 (fun i => f (7 - i))` -/
theorem forRange8_as_rev {α : Type} (f : Nat → α → α) (a : α) :
    forRange 0 8 f a = forRangeRev 0 8 (fun i => f (7 - i)) a := by
  simp [forRange, forRangeRev, List.range']

theorem load_storeRev (x : X) : load (storeRev x) = rev x := by
  cases x with | mk x0 x1 x2 x3 =>
  simp only [load, storeRev, rev, X.mk.injEq]
  refine ⟨?_, ?_, ?_, ?_⟩ <;> bv_decide (config := { timeout := 600 })

theorem storeRev_rev_load (b : BitVec 128) : storeRev (rev (load b)) = b := by
  simp only [load, storeRev, rev]; bv_decide (config := { timeout := 600 })

/-- C01 for SM4, arbitrary 32 round keys -/
theorem decryptRk_encryptRk (rk : Nat → BitVec 32) (b : BitVec 128) :
    decryptRk rk (encryptRk rk b) = b := by
  unfold decryptRk encryptRk
  rw [load_storeRev, forRange8_as_rev (decIter rk),
    forRangeRev_forRange 0 8 (encIter rk) (fun i => decIter rk (7 - i)) rev
      (fun i _ hi s => decIter_rev_encIter rk i (by omega) s),
    storeRev_rev_load]

theorem encryptRk_decryptRk (rk : Nat → BitVec 32) (b : BitVec 128) :
    encryptRk rk (decryptRk rk b) = b := by
  unfold decryptRk encryptRk
  rw [load_storeRev, forRange8_as_rev (encIter rk),
    forRangeRev_forRange 0 8 (decIter rk) (fun i => encIter rk (7 - i)) rev
      (fun i _ hi s => encIter_rev_decIter rk i (by omega) s),
    storeRev_rev_load]

/-- C01: for every cipher instance (in particular `new key` for every 128-bit key) -/
theorem decrypt_encrypt (c : Sm4) (b : BitVec 128) : decrypt c (encrypt c b) = b :=
  decryptRk_encryptRk c.get b

theorem encrypt_decrypt (c : Sm4) (b : BitVec 128) : encrypt c (decrypt c b) = b :=
  encryptRk_decryptRk c.get b

theorem decrypt_encrypt_key (key : BitVec 128) (b : BitVec 128) :
    decrypt (new key) (encrypt (new key) b) = b := decrypt_encrypt _ b

theorem encrypt_decrypt_key (key : BitVec 128) (b : BitVec 128) :
    encrypt (new key) (decrypt (new key) b) = b := encrypt_decrypt _ b

end BC.Sm4
