import BlockCiphers.Proofs.GiftConfDefs
/-
GIFT-128 conformance: `packing` is the bitslice arrangement of the spec state, the bit-sliced S-box circuit is `GS` in
every lane, and `packing` turns the spec round (SubCells, PermBits, AddRoundKey, constant) into the bitsliced round
`bsRound` on the four slices.
-/
namespace BC.Gift.Conf
open BC.Gift
open BC.Spec.Gift (permBits subCells roundKeyWord constWord orRange nib bit kbit P128 gs gsInv)

set_option maxRecDepth 100000
set_option linter.unusedSimpArgs false

/-! ### packing = bitslice arrangement -/

/-- `packing` puts bit `j` of nibble `i` (state bit `4i+j`) at bit `i` of word `s_j` -/
theorem packing_eq_slices (x : BitVec 128) : packing x = ⟨slice x 0, slice x 1, slice x 2, slice x 3⟩ := by
  simp only [slice, orRange, packing, packMix, packWord, swapmoveA, swapmoveB, swapmovesingle, loadWord, inB,
    BC.Gift.St.mk.injEq]
  bv_decide (config := { timeout := 900, maxSteps := 100000000 })

/-! ### the S-box circuits in every bit lane (kernel only: no SAT) -/

/-- the circuit of `sbox` on single bits; result `(a', b', c', d')` -/
def sboxBit (a b c d : Bool) : Bool × Bool × Bool × Bool :=
  let b := b ^^ (a && c)
  let a := a ^^ (b && d)
  let c := c ^^ (a || b)
  let d := d ^^ c
  let b := b ^^ d
  let d := d ^^ true
  let c := c ^^ (a && b)
  (a, b, c, d)

/-- the circuit of `inv_sbox` on single bits -/
def invSboxBit (a b c d : Bool) : Bool × Bool × Bool × Bool :=
  let c := c ^^ (d && b)
  let a := a ^^ true
  let b := b ^^ a
  let a := a ^^ c
  let c := c ^^ (d || b)
  let d := d ^^ (b && a)
  let b := b ^^ (d && c)
  (a, b, c, d)

theorem allOnes32_getLsbD (i : Nat) (hi : i < 32) : (0xffffffff#32).getLsbD i = true := by
  have h : 0xffffffff#32 = BitVec.allOnes 32 := by decide
  rw [h, BitVec.getLsbD_allOnes]; simp [hi]

/-- lane lemma: bit `i` of the four output words of `sbox` is the bit circuit on bit `i` of the four input words -/
theorem sbox_lane (a b c d : BitVec 32) (i : Nat) (hi : i < 32) :
    ((sbox a b c d).s0.getLsbD i, (sbox a b c d).s1.getLsbD i, (sbox a b c d).s2.getLsbD i, (sbox a b c d).s3.getLsbD i)
      = sboxBit (a.getLsbD i) (b.getLsbD i) (c.getLsbD i) (d.getLsbD i) := by
  simp only [sbox, sboxBit, BitVec.getLsbD_xor, BitVec.getLsbD_and, BitVec.getLsbD_or, allOnes32_getLsbD i hi]

theorem invSbox_lane (a b c d : BitVec 32) (i : Nat) (hi : i < 32) :
    ((invSbox a b c d).s0.getLsbD i, (invSbox a b c d).s1.getLsbD i, (invSbox a b c d).s2.getLsbD i,
      (invSbox a b c d).s3.getLsbD i)
      = invSboxBit (a.getLsbD i) (b.getLsbD i) (c.getLsbD i) (d.getLsbD i) := by
  simp only [invSbox, invSboxBit, BitVec.getLsbD_xor, BitVec.getLsbD_and, BitVec.getLsbD_or, allOnes32_getLsbD i hi]

/-- the nibble `x3 x2 x1 x0` -/
def nibOf (x0 x1 x2 x3 : Bool) : BitVec 4 :=
  (BitVec.ofBool x3).setWidth 4 <<< 3 ||| (BitVec.ofBool x2).setWidth 4 <<< 2 |||
  (BitVec.ofBool x1).setWidth 4 <<< 1 ||| (BitVec.ofBool x0).setWidth 4

/-- in every lane, `sbox(s0,s1,s2,s3)` computes `GS` of the nibble `s3 s2 s1 s0`, leaving output bit 3 in the first
word and output bit 0 in the last (which is why the next round calls `sbox(s3,s1,s2,s0)`) -/
theorem sboxBit_eq_GS : ∀ a b c d : Bool,
    gs (nibOf a b c d) = nibOf (sboxBit a b c d).2.2.2 (sboxBit a b c d).2.1 (sboxBit a b c d).2.2.1 (sboxBit a b c d).1 := by
  decide

/-- in every lane, `inv_sbox(s3',s1',s2',s0')` (arguments in the Rust's order: first word = bit 0) computes `GS⁻¹`,
leaving output bit 3 in the first word and output bit 0 in the last -/
theorem invSboxBit_eq_GSInv : ∀ a b c d : Bool,
    gsInv (nibOf a b c d) =
      nibOf (invSboxBit a b c d).2.2.2 (invSboxBit a b c d).2.1 (invSboxBit a b c d).2.2.1 (invSboxBit a b c d).1 := by
  decide

/-! ### the spec round under `packing` -/

theorem packing_subCells (x : BitVec 128) : packing (subCells x) = bsSub (packing x) := by
  simp only [subCells, gs_eq_gsCirc, gsCirc, b1, nib, orRange, bsSub, swap03, sbox,
    packing, packMix, packWord, swapmoveA, swapmoveB, swapmovesingle, loadWord, inB, BC.Gift.St.mk.injEq]
  bv_decide (config := { timeout := 900, maxSteps := 100000000 })

theorem packing_permBits (x : BitVec 128) : packing (permBits x) = bsPerm (packing x) := by
  simp only [permBits, bit, P128, orRange, bsPerm, permSlice, or32, piS,
    packing, packMix, packWord, swapmoveA, swapmoveB, swapmovesingle, loadWord, inB, BC.Gift.St.mk.injEq]
  bv_decide (config := { timeout := 900, maxSteps := 100000000 })

theorem packing_xor (x y : BitVec 128) : packing (x ^^^ y) = xorSt (packing x) (packing y) := by
  simp only [xorSt, packing, packMix, packWord, swapmoveA, swapmoveB, swapmovesingle, loadWord, inB, BC.Gift.St.mk.injEq]
  bv_decide (config := { timeout := 900, maxSteps := 100000000 })

theorem packing_key (u v : BitVec 32) (c : BitVec 6) : packing (roundKeyWord u v ^^^ constWord c) = bsKey u v c := by
  simp only [roundKeyWord, kbit, constWord, orRange, bsKey,
    packing, packMix, packWord, swapmoveA, swapmoveB, swapmovesingle, loadWord, inB, BC.Gift.St.mk.injEq]
  bv_decide (config := { timeout := 900, maxSteps := 100000000 })

/-- `packing` of one spec round = the bitsliced round on the packed state -/
theorem packing_round (x : BitVec 128) (u v : BitVec 32) (c : BitVec 6) :
    packing (BC.Spec.Gift.round x u v c) = bsRound (packing x) u v c := by
  unfold BC.Spec.Gift.round bsRound
  rw [BitVec.xor_assoc, packing_xor, packing_permBits, packing_subCells, packing_key]

end BC.Gift.Conf
