import BlockCiphers.Proofs.AesNiKeysCommon
/-
`aes256_expand_key` (expand.rs) produces the FIPS-197 key schedule for Nk = 8, Nr = 14.
-/
namespace BC.AesNi
open BC BC.X86 BC.Spec.Aes

/-- first half of `expand_round` / `expand_round_last`: RotWord+SubWord+Rcon step -/
theorem expand_round256_a_words (rc : BitVec 8) (t1 t3 : BitVec 128) :
    fw (expand_round256_a rc t1 t3) 0 = fw t1 0 ^^^ (subWord (rotWord (fw t3 3)) ^^^ rcw rc) ∧
    fw (expand_round256_a rc t1 t3) 1 = fw t1 1 ^^^ fw (expand_round256_a rc t1 t3) 0 ∧
    fw (expand_round256_a rc t1 t3) 2 = fw t1 2 ^^^ fw (expand_round256_a rc t1 t3) 1 ∧
    fw (expand_round256_a rc t1 t3) 3 = fw t1 3 ^^^ fw (expand_round256_a rc t1 t3) 2 := by
  simp only [expand_round256_a, _mm_aeskeygenassist_si128, shuffle_ff, slli_4, _mm_xor_si128,
    subWordLE, rotWordLE, subWord_rotWord, fw, rcw]
  generalize subWord (bswap32 (dword t3 3)) = s3
  generalize subWord (bswap32 (dword t3 1)) = s1
  simp only [dword, ofDwords, bswap32, rotWord]
  refine ⟨?_, ?_, ?_, ?_⟩ <;> bv_decide (config := { timeout := 600 })

/-- second half of `expand_round`: the SubWord-only step of Nk = 8 -/
theorem expand_round256_b_words (t1 t3 : BitVec 128) :
    fw (expand_round256_b t1 t3) 0 = fw t3 0 ^^^ subWord (fw t1 3) ∧
    fw (expand_round256_b t1 t3) 1 = fw t3 1 ^^^ fw (expand_round256_b t1 t3) 0 ∧
    fw (expand_round256_b t1 t3) 2 = fw t3 2 ^^^ fw (expand_round256_b t1 t3) 1 ∧
    fw (expand_round256_b t1 t3) 3 = fw t3 3 ^^^ fw (expand_round256_b t1 t3) 2 := by
  simp only [expand_round256_b, _mm_aeskeygenassist_si128, shuffle_aa, slli_4, _mm_xor_si128,
    subWordLE, rotWordLE, fw]
  generalize subWord (bswap32 (dword t1 3)) = s3
  generalize subWord (bswap32 (dword t1 1)) = s1
  simp only [dword, ofDwords, bswap32]
  refine ⟨?_, ?_, ?_, ?_⟩ <;> bv_decide (config := { timeout := 600 })

theorem spec_step256a (kw : List (BitVec 32)) (hk : kw.length = 8) (m : Nat) (hm : m < 7)
    (w : Array (BitVec 32)) (hw : w = keyExpansion 8 14 kw) :
    w.getD (4 * (2 * m + 2)) 0 =
      w.getD (4 * (2 * m)) 0 ^^^ (subWord (rotWord (w.getD (4 * (2 * m + 1) + 3) 0)) ^^^ rcon (m + 1)) ∧
    w.getD (4 * (2 * m + 2) + 1) 0 = w.getD (4 * (2 * m) + 1) 0 ^^^ w.getD (4 * (2 * m + 2)) 0 ∧
    w.getD (4 * (2 * m + 2) + 2) 0 = w.getD (4 * (2 * m) + 2) 0 ^^^ w.getD (4 * (2 * m + 2) + 1) 0 ∧
    w.getD (4 * (2 * m + 2) + 3) 0 = w.getD (4 * (2 * m) + 3) 0 ^^^ w.getD (4 * (2 * m + 2) + 2) 0 := by
  subst hw
  have t0 : ∀ t, tempf 8 (4 * (2 * m + 2)) t = subWord (rotWord t) ^^^ rcon (m + 1) := by
    intro t; rw [tempf_pos t (by omega)]; congr 2; omega
  have t1 : ∀ t, tempf 8 (4 * (2 * m + 2) + 1) t = t := fun t => tempf_id t (by omega) (by omega)
  have t2 : ∀ t, tempf 8 (4 * (2 * m + 2) + 2) t = t := fun t => tempf_id t (by omega) (by omega)
  have t3 : ∀ t, tempf 8 (4 * (2 * m + 2) + 3) t = t := fun t => tempf_id t (by omega) (by omega)
  have e0 : 4 * (2 * m + 2) - 8 = 4 * (2 * m) := by omega
  have e0' : 4 * (2 * m + 2) - 1 = 4 * (2 * m + 1) + 3 := by omega
  have e1 : 4 * (2 * m + 2) + 1 - 8 = 4 * (2 * m) + 1 := by omega
  have e1' : 4 * (2 * m + 2) + 1 - 1 = 4 * (2 * m + 2) := by omega
  have e2 : 4 * (2 * m + 2) + 2 - 8 = 4 * (2 * m) + 2 := by omega
  have e2' : 4 * (2 * m + 2) + 2 - 1 = 4 * (2 * m + 2) + 1 := by omega
  have e3 : 4 * (2 * m + 2) + 3 - 8 = 4 * (2 * m) + 3 := by omega
  have e3' : 4 * (2 * m + 2) + 3 - 1 = 4 * (2 * m + 2) + 2 := by omega
  have h0 := keyExpansion_rec 8 14 kw hk (by omega) (4 * (2 * m + 2)) (by omega) (by omega)
  have h1 := keyExpansion_rec 8 14 kw hk (by omega) (4 * (2 * m + 2) + 1) (by omega) (by omega)
  have h2 := keyExpansion_rec 8 14 kw hk (by omega) (4 * (2 * m + 2) + 2) (by omega) (by omega)
  have h3 := keyExpansion_rec 8 14 kw hk (by omega) (4 * (2 * m + 2) + 3) (by omega) (by omega)
  rw [t0] at h0; rw [t1] at h1; rw [t2] at h2; rw [t3] at h3
  rw [e0, e0'] at h0; rw [e1, e1'] at h1; rw [e2, e2'] at h2; rw [e3, e3'] at h3
  exact ⟨h0, h1, h2, h3⟩

theorem spec_step256b (kw : List (BitVec 32)) (hk : kw.length = 8) (m : Nat) (hm : m < 6)
    (w : Array (BitVec 32)) (hw : w = keyExpansion 8 14 kw) :
    w.getD (4 * (2 * m + 3)) 0 = w.getD (4 * (2 * m + 1)) 0 ^^^ subWord (w.getD (4 * (2 * m + 2) + 3) 0) ∧
    w.getD (4 * (2 * m + 3) + 1) 0 = w.getD (4 * (2 * m + 1) + 1) 0 ^^^ w.getD (4 * (2 * m + 3)) 0 ∧
    w.getD (4 * (2 * m + 3) + 2) 0 = w.getD (4 * (2 * m + 1) + 2) 0 ^^^ w.getD (4 * (2 * m + 3) + 1) 0 ∧
    w.getD (4 * (2 * m + 3) + 3) 0 = w.getD (4 * (2 * m + 1) + 3) 0 ^^^ w.getD (4 * (2 * m + 3) + 2) 0 := by
  subst hw
  have t0 : ∀ t, tempf 8 (4 * (2 * m + 3)) t = subWord t := fun t => tempf_sub t (by omega) (by omega)
  have t1 : ∀ t, tempf 8 (4 * (2 * m + 3) + 1) t = t := fun t => tempf_id t (by omega) (by omega)
  have t2 : ∀ t, tempf 8 (4 * (2 * m + 3) + 2) t = t := fun t => tempf_id t (by omega) (by omega)
  have t3 : ∀ t, tempf 8 (4 * (2 * m + 3) + 3) t = t := fun t => tempf_id t (by omega) (by omega)
  have e0 : 4 * (2 * m + 3) - 8 = 4 * (2 * m + 1) := by omega
  have e0' : 4 * (2 * m + 3) - 1 = 4 * (2 * m + 2) + 3 := by omega
  have e1 : 4 * (2 * m + 3) + 1 - 8 = 4 * (2 * m + 1) + 1 := by omega
  have e1' : 4 * (2 * m + 3) + 1 - 1 = 4 * (2 * m + 3) := by omega
  have e2 : 4 * (2 * m + 3) + 2 - 8 = 4 * (2 * m + 1) + 2 := by omega
  have e2' : 4 * (2 * m + 3) + 2 - 1 = 4 * (2 * m + 3) + 1 := by omega
  have e3 : 4 * (2 * m + 3) + 3 - 8 = 4 * (2 * m + 1) + 3 := by omega
  have e3' : 4 * (2 * m + 3) + 3 - 1 = 4 * (2 * m + 3) + 2 := by omega
  have h0 := keyExpansion_rec 8 14 kw hk (by omega) (4 * (2 * m + 3)) (by omega) (by omega)
  have h1 := keyExpansion_rec 8 14 kw hk (by omega) (4 * (2 * m + 3) + 1) (by omega) (by omega)
  have h2 := keyExpansion_rec 8 14 kw hk (by omega) (4 * (2 * m + 3) + 2) (by omega) (by omega)
  have h3 := keyExpansion_rec 8 14 kw hk (by omega) (4 * (2 * m + 3) + 3) (by omega) (by omega)
  rw [t0] at h0; rw [t1] at h1; rw [t2] at h2; rw [t3] at h3
  rw [e0, e0'] at h0; rw [e1, e1'] at h1; rw [e2, e2'] at h2; rw [e3, e3'] at h3
  exact ⟨h0, h1, h2, h3⟩

theorem IsRK_step256a (kw : List (BitVec 32)) (hk : kw.length = 8) (rc : BitVec 8) (ka kb : BitVec 128) (m : Nat)
    (ha : IsRK ka (keyExpansion 8 14 kw) (2 * m)) (hb : IsRK kb (keyExpansion 8 14 kw) (2 * m + 1))
    (hm : m < 7) (hrc : rcw rc = rcon (m + 1)) :
    IsRK (expand_round256_a rc ka kb) (keyExpansion 8 14 kw) (2 * m + 2) := by
  obtain ⟨h0, h1, h2, h3⟩ := ha
  obtain ⟨_, _, _, g3⟩ := hb
  obtain ⟨n0, n1, n2, n3⟩ := expand_round256_a_words rc ka kb
  obtain ⟨s0, s1, s2, s3⟩ := spec_step256a kw hk m hm _ rfl
  have a0 : fw (expand_round256_a rc ka kb) 0 = (keyExpansion 8 14 kw).getD (4 * (2 * m + 2)) 0 := by
    rw [n0, s0, h0, g3, hrc]
  have a1 : fw (expand_round256_a rc ka kb) 1 = (keyExpansion 8 14 kw).getD (4 * (2 * m + 2) + 1) 0 := by
    rw [n1, s1, h1, a0]
  have a2 : fw (expand_round256_a rc ka kb) 2 = (keyExpansion 8 14 kw).getD (4 * (2 * m + 2) + 2) 0 := by
    rw [n2, s2, h2, a1]
  have a3 : fw (expand_round256_a rc ka kb) 3 = (keyExpansion 8 14 kw).getD (4 * (2 * m + 2) + 3) 0 := by
    rw [n3, s3, h3, a2]
  exact ⟨a0, a1, a2, a3⟩

theorem IsRK_step256b (kw : List (BitVec 32)) (hk : kw.length = 8) (kb kc : BitVec 128) (m : Nat)
    (hb : IsRK kb (keyExpansion 8 14 kw) (2 * m + 1)) (hc : IsRK kc (keyExpansion 8 14 kw) (2 * m + 2))
    (hm : m < 6) :
    IsRK (expand_round256_b kc kb) (keyExpansion 8 14 kw) (2 * m + 3) := by
  obtain ⟨h0, h1, h2, h3⟩ := hb
  obtain ⟨_, _, _, g3⟩ := hc
  obtain ⟨n0, n1, n2, n3⟩ := expand_round256_b_words kc kb
  obtain ⟨s0, s1, s2, s3⟩ := spec_step256b kw hk m hm _ rfl
  have a0 : fw (expand_round256_b kc kb) 0 = (keyExpansion 8 14 kw).getD (4 * (2 * m + 3)) 0 := by
    rw [n0, s0, h0, g3]
  have a1 : fw (expand_round256_b kc kb) 1 = (keyExpansion 8 14 kw).getD (4 * (2 * m + 3) + 1) 0 := by
    rw [n1, s1, h1, a0]
  have a2 : fw (expand_round256_b kc kb) 2 = (keyExpansion 8 14 kw).getD (4 * (2 * m + 3) + 2) 0 := by
    rw [n2, s2, h2, a1]
  have a3 : fw (expand_round256_b kc kb) 3 = (keyExpansion 8 14 kw).getD (4 * (2 * m + 3) + 3) 0 := by
    rw [n3, s3, h3, a2]
  exact ⟨a0, a1, a2, a3⟩

theorem fw_rev128_hi256 (k : BitVec 256) :
    fw (rev128 (k.extractLsb' 128 128)) 0 = k.extractLsb' 224 32 ∧ fw (rev128 (k.extractLsb' 128 128)) 1 = k.extractLsb' 192 32 ∧
    fw (rev128 (k.extractLsb' 128 128)) 2 = k.extractLsb' 160 32 ∧ fw (rev128 (k.extractLsb' 128 128)) 3 = k.extractLsb' 128 32 := by
  simp only [fw, dword, rev128, bswap32, bswap64]
  refine ⟨?_, ?_, ?_, ?_⟩ <;> bv_decide (config := { timeout := 600 })

theorem fw_rev128_lo256 (k : BitVec 256) :
    fw (rev128 (k.extractLsb' 0 128)) 0 = k.extractLsb' 96 32 ∧ fw (rev128 (k.extractLsb' 0 128)) 1 = k.extractLsb' 64 32 ∧
    fw (rev128 (k.extractLsb' 0 128)) 2 = k.extractLsb' 32 32 ∧ fw (rev128 (k.extractLsb' 0 128)) 3 = k.extractLsb' 0 32 := by
  simp only [fw, dword, rev128, bswap32, bswap64]
  refine ⟨?_, ?_, ?_, ?_⟩ <;> bv_decide (config := { timeout := 600 })

/-- the first `p` registers of a 15-element array are the first `p` FIPS round keys -/
def Good256 (keys : List (BitVec 128)) (w : Array (BitVec 32)) (p : Nat) : Prop :=
  keys.length = 15 ∧ ∀ j, j < p → IsRK (keys.getD j 0#128) w j

theorem good256_step (kw : List (BitVec 32)) (hk : kw.length = 8) (rc : BitVec 8) (keys : List (BitVec 128)) (m : Nat)
    (hg : Good256 keys (keyExpansion 8 14 kw) (2 * m + 2)) (hm : m < 6) (hrc : rcw rc = rcon (m + 1)) :
    Good256 (expand_round256_at rc keys (2 * m + 2)) (keyExpansion 8 14 kw) (2 * m + 4) := by
  obtain ⟨hl, hj⟩ := hg
  have ia := hj (2 * m) (by omega)
  have ib := hj (2 * m + 1) (by omega)
  have e1 : 2 * m + 2 - 2 = 2 * m := by omega
  have e2 : 2 * m + 2 - 1 = 2 * m + 1 := by omega
  have ic := IsRK_step256a kw hk rc _ _ m ia ib (by omega) hrc
  have id := IsRK_step256b kw hk _ _ m ib ic hm
  refine ⟨by simp only [expand_round256_at, List.length_set, hl], ?_⟩
  intro j hjlt
  simp only [expand_round256_at, e1, e2]
  by_cases h1 : j = 2 * m + 2 + 1
  · subst h1
    rw [getD_set_eq _ _ _ _ (by rw [List.length_set]; omega)]
    exact id
  · rw [getD_set_ne _ _ _ _ _ (fun e => h1 e.symm)]
    by_cases h2 : j = 2 * m + 2
    · subst h2
      rw [getD_set_eq _ _ _ _ (by omega)]
      exact ic
    · rw [getD_set_ne _ _ _ _ _ (fun e => h2 e.symm)]
      exact hj j (by omega)

theorem good256_last (kw : List (BitVec 32)) (hk : kw.length = 8) (rc : BitVec 8) (keys : List (BitVec 128))
    (hg : Good256 keys (keyExpansion 8 14 kw) 14) (hrc : rcw rc = rcon 7) :
    Good256 (expand_round256_last_at rc keys 14) (keyExpansion 8 14 kw) 15 := by
  obtain ⟨hl, hj⟩ := hg
  have ia := hj 12 (by omega)
  have ib := hj 13 (by omega)
  have ic := IsRK_step256a kw hk rc _ _ 6 ia ib (by omega) hrc
  refine ⟨by simp only [expand_round256_last_at, List.length_set, hl], ?_⟩
  intro j hjlt
  simp only [expand_round256_last_at]
  by_cases h2 : j = 14
  · subst h2
    rw [getD_set_eq _ _ _ _ (by omega)]
    exact ic
  · rw [getD_set_ne _ _ _ _ _ (fun e => h2 e.symm)]
    exact hj j (by omega)

/-- **key schedule, AES-256** -/
theorem aes256_keys_match (key : BitVec 256) :
    KeysMatch (aes256_expand_key key) 14 (keyExpansion 8 14 (keyWords (unpackBE 32 key))) := by
  rw [keyWords32]
  generalize hkw : [key.extractLsb' 224 32, key.extractLsb' 192 32, key.extractLsb' 160 32, key.extractLsb' 128 32,
     key.extractLsb' 96 32, key.extractLsb' 64 32, key.extractLsb' 32 32, key.extractLsb' 0 32] = kw
  have hk : kw.length = 8 := by rw [← hkw]; rfl
  have i0 : IsRK (_mm_loadu_si128 (key.extractLsb' 128 128)) (keyExpansion 8 14 kw) 0 := by
    obtain ⟨f0, f1, f2, f3⟩ := fw_rev128_hi256 key
    refine ⟨?_, ?_, ?_, ?_⟩
    · rw [_mm_loadu_si128, f0, keyExpansion_init 8 14 kw 0 (by omega), ← hkw]; rfl
    · rw [_mm_loadu_si128, f1, keyExpansion_init 8 14 kw 1 (by omega), ← hkw]; rfl
    · rw [_mm_loadu_si128, f2, keyExpansion_init 8 14 kw 2 (by omega), ← hkw]; rfl
    · rw [_mm_loadu_si128, f3, keyExpansion_init 8 14 kw 3 (by omega), ← hkw]; rfl
  have i1 : IsRK (_mm_loadu_si128 (key.extractLsb' 0 128)) (keyExpansion 8 14 kw) 1 := by
    obtain ⟨f0, f1, f2, f3⟩ := fw_rev128_lo256 key
    refine ⟨?_, ?_, ?_, ?_⟩
    · rw [_mm_loadu_si128, f0, keyExpansion_init 8 14 kw 4 (by omega), ← hkw]; rfl
    · rw [_mm_loadu_si128, f1, keyExpansion_init 8 14 kw 5 (by omega), ← hkw]; rfl
    · rw [_mm_loadu_si128, f2, keyExpansion_init 8 14 kw 6 (by omega), ← hkw]; rfl
    · rw [_mm_loadu_si128, f3, keyExpansion_init 8 14 kw 7 (by omega), ← hkw]; rfl
  obtain ⟨c1, c2, c3, c4, c5, c6, c7, _, _, _⟩ := rcw_rcon
  have g2 : Good256 (((List.replicate 15 0#128).set 0 (_mm_loadu_si128 (key.extractLsb' 128 128))).set 1
      (_mm_loadu_si128 (key.extractLsb' 0 128))) (keyExpansion 8 14 kw) 2 := by
    refine ⟨by simp, ?_⟩
    intro j hj
    have hc : j = 0 ∨ j = 1 := by omega
    rcases hc with h|h <;> subst h
    · exact i0
    · exact i1
  have g4 := good256_step kw hk 0x01#8 _ 0 g2 (by omega) c1
  have g6 := good256_step kw hk 0x02#8 _ 1 g4 (by omega) c2
  have g8 := good256_step kw hk 0x04#8 _ 2 g6 (by omega) c3
  have g10 := good256_step kw hk 0x08#8 _ 3 g8 (by omega) c4
  have g12 := good256_step kw hk 0x10#8 _ 4 g10 (by omega) c5
  have g14 := good256_step kw hk 0x20#8 _ 5 g12 (by omega) c6
  have g15 := good256_last kw hk 0x40#8 _ g14 c7
  obtain ⟨hl, hj⟩ := g15
  exact ⟨hl, fun r hr => (hj r (by omega)).roundKey⟩

end BC.AesNi
