import BlockCiphers.Proofs.Rc5
import BlockCiphers.Proofs.Speck
import BlockCiphers.Models.Rc5
import BlockCiphers.Models.Speck
/-
C01 at the level of the registry entries (`CipherModel`) the driver runs: for every RC5 menu entry and every
Speck type, a key of the accepted length yields an instance whose `dec` inverts its `enc` (and vice versa)
on every block of `blockLen` bytes; any other key length is rejected.
-/
namespace BC.Models

/-- `m.new key` succeeds with both directions, and they are mutually inverse on blocks of `m.blockLen` bytes -/
def RoundTrips (m : CipherModel) (key : Bytes) : Prop :=
  ∃ e d, m.new key = some { enc := some e, dec := some d } ∧
    ∀ blk : Bytes, blk.length = m.blockLen → d (e blk) = blk ∧ e (d blk) = blk

theorem rc5_mk_roundTrips (w r b : Nat) (hw : w % 8 = 0) (key : Bytes) (hk : key.length = b) :
    RoundTrips (Rc5.mk w r b) key := by
  refine ⟨BC.Rc5.encryptBlock (BC.Rc5.substituteKey w r b key) r,
    BC.Rc5.decryptBlock (BC.Rc5.substituteKey w r b key) r, ?_, ?_⟩
  · simp [Rc5.mk, BC.Rc5.accepts, hk]
  · intro blk hl
    exact ⟨BC.Rc5.decrypt_encrypt w r b hw key blk hl, BC.Rc5.encrypt_decrypt w r b hw key blk hl⟩

theorem rc5_mk_rejects (w r b : Nat) (key : Bytes) (hk : key.length ≠ b) : (Rc5.mk w r b).new key = none := by
  simp [Rc5.mk, BC.Rc5.accepts, hk]

/-- every type of the harness menu (and, by `rc5_mk_roundTrips`, every other `RC5<W,R,B>`) -/
theorem rc5_menu_roundTrips : ∀ t ∈ Rc5.menu, ∀ key : Bytes, key.length = t.2.2 →
    RoundTrips (Rc5.mk t.1 t.2.1 t.2.2) key := by
  intro t ht key hk
  have hall : ∀ t ∈ Rc5.menu, t.1 % 8 = 0 := by decide
  have hw : t.1 % 8 = 0 := hall t ht
  exact rc5_mk_roundTrips _ _ _ hw key hk

theorem speck_mk_roundTrips : ∀ p ∈ BC.Speck.all, ∀ key : Bytes, key.length = p.keyBytes →
    RoundTrips (Speck.mk p) key := by
  intro p hp key hk
  refine ⟨BC.Speck.encryptBlock p (BC.Speck.keySchedule p key),
    BC.Speck.decryptBlock p (BC.Speck.keySchedule p key), ?_, ?_⟩
  · simp [Speck.mk, BC.Speck.accepts, hk]
  · intro blk hl
    exact ⟨BC.Speck.decrypt_encrypt p hp key blk hl, BC.Speck.encrypt_decrypt p hp key blk hl⟩

theorem speck_mk_rejects (p : BC.Speck.Params) (key : Bytes) (hk : key.length ≠ p.keyBytes) :
    (Speck.mk p).new key = none := by
  simp [Speck.mk, BC.Speck.accepts, hk]

end BC.Models
