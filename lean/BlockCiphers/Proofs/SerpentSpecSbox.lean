import BlockCiphers.Proofs.Basic
import BlockCiphers.Impl.Serpent
import BlockCiphers.Spec.Serpent
/-
Serpent conformance, part 1: every bitsliced circuit `sbox_e_i` of bitslice.rs computes the table `S_i` of
the Serpent submission in each of the 32 lanes, and `sbox_d_i` computes `S_i⁻¹` — for ALL 4×32-bit inputs
(lane lemma `getLsbD_gather`, then `decide` over the 16 values of a lane).  The inverse tables are the
inverse permutations of the tables (`decide`).
-/
set_option linter.unusedSimpArgs false
namespace BC.Serpent
open BC.Spec.Serpent

/-- Impl words ↔ Spec words -/
def toX (w : Words) : X := ⟨w.w0, w.w1, w.w2, w.w3⟩
def ofX (x : X) : Words := ⟨x.x0, x.x1, x.x2, x.x3⟩
theorem ofX_toX (w : Words) : ofX (toX w) = w := rfl
theorem toX_ofX (x : X) : toX (ofX x) = x := rfl

theorem getLsbD_bitAt (b : Bool) (n j : Nat) :
    (bitAt b n).getLsbD j = (b && decide (j = n) && decide (j < 32)) := by
  unfold bitAt
  cases b with
  | false => simp
  | true =>
    simp only [if_true, BitVec.getLsbD_shiftLeft, Bool.true_and]
    by_cases h : j = n
    · subst h; simp
    · simp [h]; omega

/-- lane lemma: bit `j` of `gather f n` is `f j` -/
theorem getLsbD_gather (f : Nat → Bool) (n j : Nat) :
    (gather f n).getLsbD j = (decide (j < n) && decide (j < 32) && f j) := by
  induction n with
  | zero => simp [gather]
  | succ n ih =>
    simp only [gather, BitVec.getLsbD_or, ih, getLsbD_bitAt]
    by_cases h : j = n
    · subst h; simp; cases f j <;> simp
    · have : (decide (j < n + 1)) = decide (j < n) := by
        apply decide_eq_decide.mpr; omega
      simp [h, this]

/-- the tables are permutations of 0..15 and `SInv_i` is the inverse of `S_i` -/
theorem SInv_S : ∀ i : Fin 8, ∀ v : Fin 16,
    ((SInv i.val).getD ((S i.val).getD v.val 0#4).toNat 0#4).toNat = v.val := by decide
theorem S_SInv : ∀ i : Fin 8, ∀ v : Fin 16,
    ((S i.val).getD ((SInv i.val).getD v.val 0#4).toNat 0#4).toNat = v.val := by decide

theorem sboxE0_spec (w : Words) : toX (sboxE0 w) = sliceS S0 (toX w) := by
  simp only [toX, sliceS, X.mk.injEq]
  refine ⟨?_, ?_, ?_, ?_⟩ <;>
  · apply BitVec.eq_of_getLsbD_eq
    intro j hj
    rw [getLsbD_gather]
    simp only [sboxE0, nibble, BitVec.getLsbD_xor, BitVec.getLsbD_and, BitVec.getLsbD_or, BitVec.getLsbD_not,
      hj, decide_true, Bool.true_and]
    generalize w.w0.getLsbD j = a
    generalize w.w1.getLsbD j = b
    generalize w.w2.getLsbD j = c
    generalize w.w3.getLsbD j = d
    revert a b c d
    decide

theorem sboxE1_spec (w : Words) : toX (sboxE1 w) = sliceS S1 (toX w) := by
  simp only [toX, sliceS, X.mk.injEq]
  refine ⟨?_, ?_, ?_, ?_⟩ <;>
  · apply BitVec.eq_of_getLsbD_eq
    intro j hj
    rw [getLsbD_gather]
    simp only [sboxE1, nibble, BitVec.getLsbD_xor, BitVec.getLsbD_and, BitVec.getLsbD_or, BitVec.getLsbD_not,
      hj, decide_true, Bool.true_and]
    generalize w.w0.getLsbD j = a
    generalize w.w1.getLsbD j = b
    generalize w.w2.getLsbD j = c
    generalize w.w3.getLsbD j = d
    revert a b c d
    decide

theorem sboxE2_spec (w : Words) : toX (sboxE2 w) = sliceS S2 (toX w) := by
  simp only [toX, sliceS, X.mk.injEq]
  refine ⟨?_, ?_, ?_, ?_⟩ <;>
  · apply BitVec.eq_of_getLsbD_eq
    intro j hj
    rw [getLsbD_gather]
    simp only [sboxE2, nibble, BitVec.getLsbD_xor, BitVec.getLsbD_and, BitVec.getLsbD_or, BitVec.getLsbD_not,
      hj, decide_true, Bool.true_and]
    generalize w.w0.getLsbD j = a
    generalize w.w1.getLsbD j = b
    generalize w.w2.getLsbD j = c
    generalize w.w3.getLsbD j = d
    revert a b c d
    decide

theorem sboxE3_spec (w : Words) : toX (sboxE3 w) = sliceS S3 (toX w) := by
  simp only [toX, sliceS, X.mk.injEq]
  refine ⟨?_, ?_, ?_, ?_⟩ <;>
  · apply BitVec.eq_of_getLsbD_eq
    intro j hj
    rw [getLsbD_gather]
    simp only [sboxE3, nibble, BitVec.getLsbD_xor, BitVec.getLsbD_and, BitVec.getLsbD_or, BitVec.getLsbD_not,
      hj, decide_true, Bool.true_and]
    generalize w.w0.getLsbD j = a
    generalize w.w1.getLsbD j = b
    generalize w.w2.getLsbD j = c
    generalize w.w3.getLsbD j = d
    revert a b c d
    decide

theorem sboxE4_spec (w : Words) : toX (sboxE4 w) = sliceS S4 (toX w) := by
  simp only [toX, sliceS, X.mk.injEq]
  refine ⟨?_, ?_, ?_, ?_⟩ <;>
  · apply BitVec.eq_of_getLsbD_eq
    intro j hj
    rw [getLsbD_gather]
    simp only [sboxE4, nibble, BitVec.getLsbD_xor, BitVec.getLsbD_and, BitVec.getLsbD_or, BitVec.getLsbD_not,
      hj, decide_true, Bool.true_and]
    generalize w.w0.getLsbD j = a
    generalize w.w1.getLsbD j = b
    generalize w.w2.getLsbD j = c
    generalize w.w3.getLsbD j = d
    revert a b c d
    decide

theorem sboxE5_spec (w : Words) : toX (sboxE5 w) = sliceS S5 (toX w) := by
  simp only [toX, sliceS, X.mk.injEq]
  refine ⟨?_, ?_, ?_, ?_⟩ <;>
  · apply BitVec.eq_of_getLsbD_eq
    intro j hj
    rw [getLsbD_gather]
    simp only [sboxE5, nibble, BitVec.getLsbD_xor, BitVec.getLsbD_and, BitVec.getLsbD_or, BitVec.getLsbD_not,
      hj, decide_true, Bool.true_and]
    generalize w.w0.getLsbD j = a
    generalize w.w1.getLsbD j = b
    generalize w.w2.getLsbD j = c
    generalize w.w3.getLsbD j = d
    revert a b c d
    decide

theorem sboxE6_spec (w : Words) : toX (sboxE6 w) = sliceS S6 (toX w) := by
  simp only [toX, sliceS, X.mk.injEq]
  refine ⟨?_, ?_, ?_, ?_⟩ <;>
  · apply BitVec.eq_of_getLsbD_eq
    intro j hj
    rw [getLsbD_gather]
    simp only [sboxE6, nibble, BitVec.getLsbD_xor, BitVec.getLsbD_and, BitVec.getLsbD_or, BitVec.getLsbD_not,
      hj, decide_true, Bool.true_and]
    generalize w.w0.getLsbD j = a
    generalize w.w1.getLsbD j = b
    generalize w.w2.getLsbD j = c
    generalize w.w3.getLsbD j = d
    revert a b c d
    decide

theorem sboxE7_spec (w : Words) : toX (sboxE7 w) = sliceS S7 (toX w) := by
  simp only [toX, sliceS, X.mk.injEq]
  refine ⟨?_, ?_, ?_, ?_⟩ <;>
  · apply BitVec.eq_of_getLsbD_eq
    intro j hj
    rw [getLsbD_gather]
    simp only [sboxE7, nibble, BitVec.getLsbD_xor, BitVec.getLsbD_and, BitVec.getLsbD_or, BitVec.getLsbD_not,
      hj, decide_true, Bool.true_and]
    generalize w.w0.getLsbD j = a
    generalize w.w1.getLsbD j = b
    generalize w.w2.getLsbD j = c
    generalize w.w3.getLsbD j = d
    revert a b c d
    decide

theorem sboxD0_spec (w : Words) : toX (sboxD0 w) = sliceS SInv0 (toX w) := by
  simp only [toX, sliceS, X.mk.injEq]
  refine ⟨?_, ?_, ?_, ?_⟩ <;>
  · apply BitVec.eq_of_getLsbD_eq
    intro j hj
    rw [getLsbD_gather]
    simp only [sboxD0, nibble, BitVec.getLsbD_xor, BitVec.getLsbD_and, BitVec.getLsbD_or, BitVec.getLsbD_not,
      hj, decide_true, Bool.true_and]
    generalize w.w0.getLsbD j = a
    generalize w.w1.getLsbD j = b
    generalize w.w2.getLsbD j = c
    generalize w.w3.getLsbD j = d
    revert a b c d
    decide

theorem sboxD1_spec (w : Words) : toX (sboxD1 w) = sliceS SInv1 (toX w) := by
  simp only [toX, sliceS, X.mk.injEq]
  refine ⟨?_, ?_, ?_, ?_⟩ <;>
  · apply BitVec.eq_of_getLsbD_eq
    intro j hj
    rw [getLsbD_gather]
    simp only [sboxD1, nibble, BitVec.getLsbD_xor, BitVec.getLsbD_and, BitVec.getLsbD_or, BitVec.getLsbD_not,
      hj, decide_true, Bool.true_and]
    generalize w.w0.getLsbD j = a
    generalize w.w1.getLsbD j = b
    generalize w.w2.getLsbD j = c
    generalize w.w3.getLsbD j = d
    revert a b c d
    decide

theorem sboxD2_spec (w : Words) : toX (sboxD2 w) = sliceS SInv2 (toX w) := by
  simp only [toX, sliceS, X.mk.injEq]
  refine ⟨?_, ?_, ?_, ?_⟩ <;>
  · apply BitVec.eq_of_getLsbD_eq
    intro j hj
    rw [getLsbD_gather]
    simp only [sboxD2, nibble, BitVec.getLsbD_xor, BitVec.getLsbD_and, BitVec.getLsbD_or, BitVec.getLsbD_not,
      hj, decide_true, Bool.true_and]
    generalize w.w0.getLsbD j = a
    generalize w.w1.getLsbD j = b
    generalize w.w2.getLsbD j = c
    generalize w.w3.getLsbD j = d
    revert a b c d
    decide

theorem sboxD3_spec (w : Words) : toX (sboxD3 w) = sliceS SInv3 (toX w) := by
  simp only [toX, sliceS, X.mk.injEq]
  refine ⟨?_, ?_, ?_, ?_⟩ <;>
  · apply BitVec.eq_of_getLsbD_eq
    intro j hj
    rw [getLsbD_gather]
    simp only [sboxD3, nibble, BitVec.getLsbD_xor, BitVec.getLsbD_and, BitVec.getLsbD_or, BitVec.getLsbD_not,
      hj, decide_true, Bool.true_and]
    generalize w.w0.getLsbD j = a
    generalize w.w1.getLsbD j = b
    generalize w.w2.getLsbD j = c
    generalize w.w3.getLsbD j = d
    revert a b c d
    decide

theorem sboxD4_spec (w : Words) : toX (sboxD4 w) = sliceS SInv4 (toX w) := by
  simp only [toX, sliceS, X.mk.injEq]
  refine ⟨?_, ?_, ?_, ?_⟩ <;>
  · apply BitVec.eq_of_getLsbD_eq
    intro j hj
    rw [getLsbD_gather]
    simp only [sboxD4, nibble, BitVec.getLsbD_xor, BitVec.getLsbD_and, BitVec.getLsbD_or, BitVec.getLsbD_not,
      hj, decide_true, Bool.true_and]
    generalize w.w0.getLsbD j = a
    generalize w.w1.getLsbD j = b
    generalize w.w2.getLsbD j = c
    generalize w.w3.getLsbD j = d
    revert a b c d
    decide

theorem sboxD5_spec (w : Words) : toX (sboxD5 w) = sliceS SInv5 (toX w) := by
  simp only [toX, sliceS, X.mk.injEq]
  refine ⟨?_, ?_, ?_, ?_⟩ <;>
  · apply BitVec.eq_of_getLsbD_eq
    intro j hj
    rw [getLsbD_gather]
    simp only [sboxD5, nibble, BitVec.getLsbD_xor, BitVec.getLsbD_and, BitVec.getLsbD_or, BitVec.getLsbD_not,
      hj, decide_true, Bool.true_and]
    generalize w.w0.getLsbD j = a
    generalize w.w1.getLsbD j = b
    generalize w.w2.getLsbD j = c
    generalize w.w3.getLsbD j = d
    revert a b c d
    decide

theorem sboxD6_spec (w : Words) : toX (sboxD6 w) = sliceS SInv6 (toX w) := by
  simp only [toX, sliceS, X.mk.injEq]
  refine ⟨?_, ?_, ?_, ?_⟩ <;>
  · apply BitVec.eq_of_getLsbD_eq
    intro j hj
    rw [getLsbD_gather]
    simp only [sboxD6, nibble, BitVec.getLsbD_xor, BitVec.getLsbD_and, BitVec.getLsbD_or, BitVec.getLsbD_not,
      hj, decide_true, Bool.true_and]
    generalize w.w0.getLsbD j = a
    generalize w.w1.getLsbD j = b
    generalize w.w2.getLsbD j = c
    generalize w.w3.getLsbD j = d
    revert a b c d
    decide

theorem sboxD7_spec (w : Words) : toX (sboxD7 w) = sliceS SInv7 (toX w) := by
  simp only [toX, sliceS, X.mk.injEq]
  refine ⟨?_, ?_, ?_, ?_⟩ <;>
  · apply BitVec.eq_of_getLsbD_eq
    intro j hj
    rw [getLsbD_gather]
    simp only [sboxD7, nibble, BitVec.getLsbD_xor, BitVec.getLsbD_and, BitVec.getLsbD_or, BitVec.getLsbD_not,
      hj, decide_true, Bool.true_and]
    generalize w.w0.getLsbD j = a
    generalize w.w1.getLsbD j = b
    generalize w.w2.getLsbD j = c
    generalize w.w3.getLsbD j = d
    revert a b c d
    decide

end BC.Serpent
