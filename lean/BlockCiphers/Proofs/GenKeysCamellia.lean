import BlockCiphers.Gen.Keys_Camellia
import BlockCiphers.Impl.Camellia
import BlockCiphers.Proofs.GenTables
import Std.Tactic.BVDecide
/-!
Key-schedule ties for Camellia: the regenerated `Camellia128::new` / `Camellia192::new` / `Camellia256::new`
(`BC.Gen.Fn.camellia{128,192,256}_new`: `set_ka` / `set_kb` / `f` / `rotate_left_high/low` / `gen_subkeys26` /
`get_subkeys34` inlined, `SBOXES` read from the regenerated `Gen/Tables.lean`, `SIGMAS` inlined as literals) produce
exactly the 26 / 34 / 34 subkeys of the model's `BC.Camellia.new128` / `new192` / `new256`, for all keys.
Proof: S-box look-ups tied through `GenTables.camellia_SBOXES_eq` (the regenerated table is the concatenation of the
model's four S-boxes), byte-wise key loads rewritten into the model's 64-bit
extracts, the model's definitions unfolded; both sides are then the same term.
-/
set_option maxRecDepth 100000
set_option linter.unusedSimpArgs false
namespace BC.GenKeys.Camellia
open BC BC.Camellia BC.Gen.Fn BC.GenTables

/-! ### the four S-boxes: flattened `SBOXES[j][x]` of the regenerated table = the model's `sbJ x` -/

theorem nats8_len (a : Array (BitVec 8)) : (nats8 a).length = a.size := by simp [nats8]

theorem nats8_at (a : Array (BitVec 8)) (n : Nat) (h : n < a.size) :
    BitVec.ofNat 8 ((nats8 a)[n]?.getD 0) = a[n] := by
  simp [nats8, h]

/-- the regenerated flattened table is the concatenation of the four model S-boxes (`GenTables.camellia_SBOXES_eq`) -/
theorem tbl_split (n : Nat) :
    BC.Gen.tblAt BC.Gen.camellia_SBOXES n 8 =
      BitVec.ofNat 8 ((nats8 SBOX1 ++ nats8 SBOX2 ++ nats8 SBOX3 ++ nats8 SBOX4)[n]?.getD 0) := by
  rw [← camellia_SBOXES_eq]
  simp [BC.Gen.tblAt, Array.getD_eq_getD_getElem?]

theorem idx_eq (v : BitVec 8) : (v.setWidth 64).toNat = v.toNat := by
  simp only [BitVec.toNat_setWidth]; omega

theorem sb1_at (v : BitVec 8) : BC.Gen.tblAt BC.Gen.camellia_SBOXES ((v.setWidth 64).toNat) 8 = sb1 v := by
  have h := v.isLt
  rw [idx_eq, tbl_split, List.getElem?_append_left (by simp [nats8_len, SBOX1_size, SBOX2_size, SBOX3_size]; omega),
    List.getElem?_append_left (by simp [nats8_len, SBOX1_size, SBOX2_size]; omega),
    List.getElem?_append_left (by simp [nats8_len, SBOX1_size]; omega)]
  exact nats8_at SBOX1 v.toNat (by rw [SBOX1_size]; exact h)

theorem sb2_at (v : BitVec 8) : BC.Gen.tblAt BC.Gen.camellia_SBOXES (256 + (v.setWidth 64).toNat) 8 = sb2 v := by
  have h := v.isLt
  rw [idx_eq, tbl_split, List.getElem?_append_left (by simp [nats8_len, SBOX1_size, SBOX2_size, SBOX3_size]; omega),
    List.getElem?_append_left (by simp [nats8_len, SBOX1_size, SBOX2_size]; omega),
    List.getElem?_append_right (by simp [nats8_len, SBOX1_size])]
  simp only [nats8_len, SBOX1_size, Nat.add_sub_cancel_left]
  exact nats8_at SBOX2 v.toNat (by rw [SBOX2_size]; exact h)

theorem sb3_at (v : BitVec 8) : BC.Gen.tblAt BC.Gen.camellia_SBOXES (512 + (v.setWidth 64).toNat) 8 = sb3 v := by
  have h := v.isLt
  rw [idx_eq, tbl_split, List.getElem?_append_left (by simp [nats8_len, SBOX1_size, SBOX2_size, SBOX3_size]; omega),
    List.getElem?_append_right (by simp [nats8_len, SBOX1_size, SBOX2_size])]
  simp only [List.length_append, nats8_len, SBOX1_size, SBOX2_size, Nat.reduceAdd, Nat.add_sub_cancel_left]
  exact nats8_at SBOX3 v.toNat (by rw [SBOX3_size]; exact h)

theorem sb4_at (v : BitVec 8) : BC.Gen.tblAt BC.Gen.camellia_SBOXES (768 + (v.setWidth 64).toNat) 8 = sb4 v := by
  have h := v.isLt
  rw [idx_eq, tbl_split, List.getElem?_append_right (by simp [nats8_len, SBOX1_size, SBOX2_size, SBOX3_size])]
  simp only [List.length_append, nats8_len, SBOX1_size, SBOX2_size, SBOX3_size, Nat.reduceAdd, Nat.add_sub_cancel_left]
  exact nats8_at SBOX4 v.toNat (by rw [SBOX4_size]; exact h)

/-! ### `u64::from_be_bytes(key[8j..8j+8])` = a 64-bit extract -/

theorem ld128_64 (k : BitVec 128) : k.extractLsb' 120 8 ++ k.extractLsb' 112 8 ++ k.extractLsb' 104 8 ++ k.extractLsb' 96 8 ++ k.extractLsb' 88 8 ++ k.extractLsb' 80 8 ++ k.extractLsb' 72 8 ++ k.extractLsb' 64 8 = k.extractLsb' 64 64 := by bv_decide
theorem ld128_0 (k : BitVec 128) : k.extractLsb' 56 8 ++ k.extractLsb' 48 8 ++ k.extractLsb' 40 8 ++ k.extractLsb' 32 8 ++ k.extractLsb' 24 8 ++ k.extractLsb' 16 8 ++ k.extractLsb' 8 8 ++ k.extractLsb' 0 8 = k.extractLsb' 0 64 := by bv_decide
theorem ld192_128 (k : BitVec 192) : k.extractLsb' 184 8 ++ k.extractLsb' 176 8 ++ k.extractLsb' 168 8 ++ k.extractLsb' 160 8 ++ k.extractLsb' 152 8 ++ k.extractLsb' 144 8 ++ k.extractLsb' 136 8 ++ k.extractLsb' 128 8 = k.extractLsb' 128 64 := by bv_decide
theorem ld192_64 (k : BitVec 192) : k.extractLsb' 120 8 ++ k.extractLsb' 112 8 ++ k.extractLsb' 104 8 ++ k.extractLsb' 96 8 ++ k.extractLsb' 88 8 ++ k.extractLsb' 80 8 ++ k.extractLsb' 72 8 ++ k.extractLsb' 64 8 = k.extractLsb' 64 64 := by bv_decide
theorem ld192_0 (k : BitVec 192) : k.extractLsb' 56 8 ++ k.extractLsb' 48 8 ++ k.extractLsb' 40 8 ++ k.extractLsb' 32 8 ++ k.extractLsb' 24 8 ++ k.extractLsb' 16 8 ++ k.extractLsb' 8 8 ++ k.extractLsb' 0 8 = k.extractLsb' 0 64 := by bv_decide
theorem ld256_192 (k : BitVec 256) : k.extractLsb' 248 8 ++ k.extractLsb' 240 8 ++ k.extractLsb' 232 8 ++ k.extractLsb' 224 8 ++ k.extractLsb' 216 8 ++ k.extractLsb' 208 8 ++ k.extractLsb' 200 8 ++ k.extractLsb' 192 8 = k.extractLsb' 192 64 := by bv_decide
theorem ld256_128 (k : BitVec 256) : k.extractLsb' 184 8 ++ k.extractLsb' 176 8 ++ k.extractLsb' 168 8 ++ k.extractLsb' 160 8 ++ k.extractLsb' 152 8 ++ k.extractLsb' 144 8 ++ k.extractLsb' 136 8 ++ k.extractLsb' 128 8 = k.extractLsb' 128 64 := by bv_decide
theorem ld256_64 (k : BitVec 256) : k.extractLsb' 120 8 ++ k.extractLsb' 112 8 ++ k.extractLsb' 104 8 ++ k.extractLsb' 96 8 ++ k.extractLsb' 88 8 ++ k.extractLsb' 80 8 ++ k.extractLsb' 72 8 ++ k.extractLsb' 64 8 = k.extractLsb' 64 64 := by bv_decide
theorem ld256_0 (k : BitVec 256) : k.extractLsb' 56 8 ++ k.extractLsb' 48 8 ++ k.extractLsb' 40 8 ++ k.extractLsb' 32 8 ++ k.extractLsb' 24 8 ++ k.extractLsb' 16 8 ++ k.extractLsb' 8 8 ++ k.extractLsb' 0 8 = k.extractLsb' 0 64 := by bv_decide

/-! ### `rotate_left_high` / `rotate_left_low` at the seven literal amounts -/

theorem rlh15 (v : Pair) : rotateLeftHigh v 15 = (v.fst <<< 15) ||| (v.snd >>> 49) := rfl
theorem rll15 (v : Pair) : rotateLeftLow v 15 = (v.fst >>> 49) ||| (v.snd <<< 15) := rfl
theorem rlh30 (v : Pair) : rotateLeftHigh v 30 = (v.fst <<< 30) ||| (v.snd >>> 34) := rfl
theorem rll30 (v : Pair) : rotateLeftLow v 30 = (v.fst >>> 34) ||| (v.snd <<< 30) := rfl
theorem rlh45 (v : Pair) : rotateLeftHigh v 45 = (v.fst <<< 45) ||| (v.snd >>> 19) := rfl
theorem rll45 (v : Pair) : rotateLeftLow v 45 = (v.fst >>> 19) ||| (v.snd <<< 45) := rfl
theorem rlh60 (v : Pair) : rotateLeftHigh v 60 = (v.fst <<< 60) ||| (v.snd >>> 4) := rfl
theorem rll60 (v : Pair) : rotateLeftLow v 60 = (v.fst >>> 4) ||| (v.snd <<< 60) := rfl
theorem rlh77 (v : Pair) : rotateLeftHigh v 77 = (v.fst <<< 13) ||| (v.snd >>> 51) := rfl
theorem rll77 (v : Pair) : rotateLeftLow v 77 = (v.fst >>> 51) ||| (v.snd <<< 13) := rfl
theorem rlh94 (v : Pair) : rotateLeftHigh v 94 = (v.fst <<< 30) ||| (v.snd >>> 34) := rfl
theorem rll94 (v : Pair) : rotateLeftLow v 94 = (v.fst >>> 34) ||| (v.snd <<< 30) := rfl
theorem rlh111 (v : Pair) : rotateLeftHigh v 111 = (v.fst <<< 47) ||| (v.snd >>> 17) := rfl
theorem rll111 (v : Pair) : rotateLeftLow v 111 = (v.fst >>> 17) ||| (v.snd <<< 47) := rfl

/-- `self.k[0..26]` of a model subkey array, flattened -/
def tup26 (ks : Array (BitVec 64)) :=
  (BC.Camellia.key ks 0, BC.Camellia.key ks 1, BC.Camellia.key ks 2, BC.Camellia.key ks 3, BC.Camellia.key ks 4, BC.Camellia.key ks 5, BC.Camellia.key ks 6, BC.Camellia.key ks 7, BC.Camellia.key ks 8, BC.Camellia.key ks 9, BC.Camellia.key ks 10, BC.Camellia.key ks 11, BC.Camellia.key ks 12, BC.Camellia.key ks 13, BC.Camellia.key ks 14, BC.Camellia.key ks 15, BC.Camellia.key ks 16, BC.Camellia.key ks 17, BC.Camellia.key ks 18, BC.Camellia.key ks 19, BC.Camellia.key ks 20, BC.Camellia.key ks 21, BC.Camellia.key ks 22, BC.Camellia.key ks 23, BC.Camellia.key ks 24, BC.Camellia.key ks 25)
/-- `self.k[0..34]` of a model subkey array, flattened -/
def tup34 (ks : Array (BitVec 64)) :=
  (BC.Camellia.key ks 0, BC.Camellia.key ks 1, BC.Camellia.key ks 2, BC.Camellia.key ks 3, BC.Camellia.key ks 4, BC.Camellia.key ks 5, BC.Camellia.key ks 6, BC.Camellia.key ks 7, BC.Camellia.key ks 8, BC.Camellia.key ks 9, BC.Camellia.key ks 10, BC.Camellia.key ks 11, BC.Camellia.key ks 12, BC.Camellia.key ks 13, BC.Camellia.key ks 14, BC.Camellia.key ks 15, BC.Camellia.key ks 16, BC.Camellia.key ks 17, BC.Camellia.key ks 18, BC.Camellia.key ks 19, BC.Camellia.key ks 20, BC.Camellia.key ks 21, BC.Camellia.key ks 22, BC.Camellia.key ks 23, BC.Camellia.key ks 24, BC.Camellia.key ks 25, BC.Camellia.key ks 26, BC.Camellia.key ks 27, BC.Camellia.key ks 28, BC.Camellia.key ks 29, BC.Camellia.key ks 30, BC.Camellia.key ks 31, BC.Camellia.key ks 32, BC.Camellia.key ks 33)

theorem getD_lit (l : List (BitVec 64)) (i : Nat) (d : BitVec 64) : l.toArray.getD i d = l.getD i d := by
  simp [Array.getD_eq_getD_getElem?, List.getD_eq_getElem?_getD]


/-- `Camellia128::new` regenerated from the Rust = the 26 subkeys of the model's `new128` -/
theorem camellia128_new_eq (k : BitVec 128) : camellia128_new k = tup26 (new128 k) := by
  simp only [camellia128_new, ld128_64, ld128_0, tup26, new128, genSubkeys26, sb1_at, sb2_at, sb3_at, sb4_at, BC.Camellia.key, setKa, setKb, f, SIGMA0, SIGMA1, SIGMA2, SIGMA3, SIGMA4, SIGMA5, rlh15, rll15, rlh30, rll30, rlh45, rll45, rlh60, rll60, rlh77, rll77, rlh94, rll94, rlh111, rll111, getD_lit, List.getD_cons_zero, List.getD_cons_succ]

/-- `Camellia192::new` regenerated from the Rust = the 34 subkeys of the model's `new192` -/
theorem camellia192_new_eq (k : BitVec 192) : camellia192_new k = tup34 (new192 k) := by
  simp only [camellia192_new, ld192_128, ld192_64, ld192_0, tup34, new192, getSubkeys34, sb1_at, sb2_at, sb3_at, sb4_at, BC.Camellia.key, setKa, setKb, f, SIGMA0, SIGMA1, SIGMA2, SIGMA3, SIGMA4, SIGMA5, rlh15, rll15, rlh30, rll30, rlh45, rll45, rlh60, rll60, rlh77, rll77, rlh94, rll94, rlh111, rll111, getD_lit, List.getD_cons_zero, List.getD_cons_succ]

/-- `Camellia256::new` regenerated from the Rust = the 34 subkeys of the model's `new256` -/
theorem camellia256_new_eq (k : BitVec 256) : camellia256_new k = tup34 (new256 k) := by
  simp only [camellia256_new, ld256_192, ld256_128, ld256_64, ld256_0, tup34, new256, getSubkeys34, sb1_at, sb2_at, sb3_at, sb4_at, BC.Camellia.key, setKa, setKb, f, SIGMA0, SIGMA1, SIGMA2, SIGMA3, SIGMA4, SIGMA5, rlh15, rll15, rlh30, rll30, rlh45, rll45, rlh60, rll60, rlh77, rll77, rlh94, rll94, rlh111, rll111, getD_lit, List.getD_cons_zero, List.getD_cons_succ]

/-! ### array form: the model's round-key array is the list of components of the generated tuple -/

theorem arr_eta {α : Type} (a : Array α) (d : α) (n : Nat) (h : a.size = n) :
    a = ((List.range n).map (fun i => a.getD i d)).toArray := by
  apply Array.ext
  · simp [h]
  · intro i h1 h2
    simp [Array.getD_eq_getD_getElem?, h1]

/-- the components of a generated 26-tuple as a list -/
def list26 : BitVec 64 × BitVec 64 × BitVec 64 × BitVec 64 × BitVec 64 × BitVec 64 × BitVec 64 × BitVec 64 × BitVec 64 × BitVec 64 × BitVec 64 × BitVec 64 × BitVec 64 × BitVec 64 × BitVec 64 × BitVec 64 × BitVec 64 × BitVec 64 × BitVec 64 × BitVec 64 × BitVec 64 × BitVec 64 × BitVec 64 × BitVec 64 × BitVec 64 × BitVec 64 → List (BitVec 64)
  | (a0, a1, a2, a3, a4, a5, a6, a7, a8, a9, a10, a11, a12, a13, a14, a15, a16, a17, a18, a19, a20, a21, a22, a23, a24, a25) => [a0, a1, a2, a3, a4, a5, a6, a7, a8, a9, a10, a11, a12, a13, a14, a15, a16, a17, a18, a19, a20, a21, a22, a23, a24, a25]

/-- the components of a generated 34-tuple as a list -/
def list34 : BitVec 64 × BitVec 64 × BitVec 64 × BitVec 64 × BitVec 64 × BitVec 64 × BitVec 64 × BitVec 64 × BitVec 64 × BitVec 64 × BitVec 64 × BitVec 64 × BitVec 64 × BitVec 64 × BitVec 64 × BitVec 64 × BitVec 64 × BitVec 64 × BitVec 64 × BitVec 64 × BitVec 64 × BitVec 64 × BitVec 64 × BitVec 64 × BitVec 64 × BitVec 64 × BitVec 64 × BitVec 64 × BitVec 64 × BitVec 64 × BitVec 64 × BitVec 64 × BitVec 64 × BitVec 64 → List (BitVec 64)
  | (a0, a1, a2, a3, a4, a5, a6, a7, a8, a9, a10, a11, a12, a13, a14, a15, a16, a17, a18, a19, a20, a21, a22, a23, a24, a25, a26, a27, a28, a29, a30, a31, a32, a33) => [a0, a1, a2, a3, a4, a5, a6, a7, a8, a9, a10, a11, a12, a13, a14, a15, a16, a17, a18, a19, a20, a21, a22, a23, a24, a25, a26, a27, a28, a29, a30, a31, a32, a33]

theorem new128_size (k : BitVec 128) : (new128 k).size = 26 := rfl
theorem new192_size (k : BitVec 192) : (new192 k).size = 34 := rfl
theorem new256_size (k : BitVec 256) : (new256 k).size = 34 := rfl

/-- the model's subkey array `k: [u64; 26]` = the array of the words returned by the regenerated `Camellia128::new` -/
theorem new128_eq (k : BitVec 128) : new128 k = (list26 (camellia128_new k)).toArray := by
  rw [camellia128_new_eq]
  simp only [tup26, list26]
  have h := arr_eta (new128 k) 0#64 26 (new128_size k)
  simpa [List.range, List.range.loop, BC.Camellia.key] using h

theorem new192_eq (k : BitVec 192) : new192 k = (list34 (camellia192_new k)).toArray := by
  rw [camellia192_new_eq]
  simp only [tup34, list34]
  have h := arr_eta (new192 k) 0#64 34 (new192_size k)
  simpa [List.range, List.range.loop, BC.Camellia.key] using h

theorem new256_eq (k : BitVec 256) : new256 k = (list34 (camellia256_new k)).toArray := by
  rw [camellia256_new_eq]
  simp only [tup34, list34]
  have h := arr_eta (new256 k) 0#64 34 (new256_size k)
  simpa [List.range, List.range.loop, BC.Camellia.key] using h

end BC.GenKeys.Camellia
