import BlockCiphers.Proofs.Magma
import BlockCiphers.Spec.Magma
/-
Magma / GOST 28147-89 conformance (C07), for EVERY set of eight 4-bit tables `S` (the `programs`
quantifier of the property: a user-supplied `impl Sbox`):

* `genExpSbox_get` / `expByte_genExpSbox`: the three nested loops of `gen_exp_sbox` fill entry
  `[i][x]` with `S[2i+1][x >> 4] ‖ S[2i][x & 15]`;
* `applySbox_eq_bytes`: the `+=` of `apply_sbox` over disjoint bytes is concatenation; `sboxIndex_lt`:
  its table index is < 256;
* `applySbox_genExpSbox`: `apply_sbox = t`; `g_eq`; `round_eq_G`;
* `encrypt_eq_spec`, `decrypt_eq_spec`: `Gost89<S>` = the 32-round network `E` / `D` of the standard
  (key order 3 × forward + reversed, big-endian words);
* the Annex A.2 values of GOST R 34.12-2015 as kernel-checked examples.
-/
namespace BC.Magma

/-- frame rule for a fold of writes -/
theorem foldl_write_frame {τ β P V : Type} (W : τ → β → β) (rd : β → P → V) (pos : τ → P)
    (hW : ∀ t b p, p ≠ pos t → rd (W t b) p = rd b p) (p : P) (L : List τ)
    (hp : ∀ t, t ∈ L → pos t ≠ p) (b : β) :
    rd (L.foldl (fun b t => W t b) b) p = rd b p := by
  induction L generalizing b with
  | nil => rfl
  | cons t L ih =>
    rw [List.foldl_cons, ih (fun t' ht' => hp t' (List.mem_cons_of_mem _ ht'))]
    exact hW t b p (fun h => hp t List.mem_cons_self h.symm)

theorem foldl_write_hit {τ β P V : Type} (W : τ → β → β) (rd : β → P → V) (pos : τ → P) (val : τ → V)
    (hW : ∀ t b p, p ≠ pos t → rd (W t b) p = rd b p) (hH : ∀ t b, rd (W t b) (pos t) = val t)
    (L : List τ) (hinj : ∀ t, t ∈ L → ∀ t', t' ∈ L → pos t = pos t' → t = t') (t : τ) (ht : t ∈ L) (b : β) :
    rd (L.foldl (fun b t => W t b) b) (pos t) = val t := by
  induction L generalizing b with
  | nil => cases ht
  | cons u L ih =>
    rw [List.foldl_cons]
    by_cases hm : t ∈ L
    · exact ih (fun a ha a' ha' => hinj a (List.mem_cons_of_mem _ ha) a' (List.mem_cons_of_mem _ ha')) hm _
    · have htu : t = u := by
        cases ht with
        | head => rfl
        | tail _ h => exact absurd h hm
      subst htu
      rw [foldl_write_frame W rd pos hW (pos t) L
        (fun t' ht' h => hm (by
          have := hinj t' (List.mem_cons_of_mem _ ht') t List.mem_cons_self h
          rwa [this] at ht'))]
      exact hH t b


/-- value written at `out[i][j + (k << 4)]` -/
def expVal (sbox : SmallSbox) (t : Fin 4 × Fin 16 × Fin 16) : BitVec 8 :=
  (sbox[2 * t.1.val]'(by omega))[t.2.1].setWidth 8 + ((sbox[2 * t.1.val + 1]'(by omega))[t.2.2].setWidth 8 <<< 4)

def expPos (t : Fin 4 × Fin 16 × Fin 16) : Fin 4 × Fin 256 :=
  (t.1, ⟨t.2.1.val + (t.2.2.val <<< 4), idx_c_lt t.2.1 t.2.2⟩)

def expWrite (sbox : SmallSbox) (t : Fin 4 × Fin 16 × Fin 16) (out : ExpSbox) : ExpSbox :=
  out.set t.1 (out[t.1].set (expPos t).2 (expVal sbox t))

def expRd (out : ExpSbox) (p : Fin 4 × Fin 256) : BitVec 8 := out[p.1][p.2]

def triples : List (Fin 4 × Fin 16 × Fin 16) :=
  (List.finRange 4).flatMap (fun i => (List.finRange 16).flatMap (fun j => (List.finRange 16).map (fun k => (i, j, k))))

theorem genExpSbox_eq_foldl (sbox : SmallSbox) :
    genExpSbox sbox = triples.foldl (fun out t => expWrite sbox t out)
      (Vector.replicate 4 (Vector.replicate 256 0#8)) := by
  simp only [genExpSbox, finLoop, triples, List.foldl_flatMap, List.foldl_map]
  rfl

theorem mem_triples (t : Fin 4 × Fin 16 × Fin 16) : t ∈ triples := by
  obtain ⟨i, j, k⟩ := t
  simp [triples, List.mem_flatMap, List.mem_map, List.mem_finRange]

theorem expPos_inj (t t' : Fin 4 × Fin 16 × Fin 16) (h : expPos t = expPos t') : t = t' := by
  obtain ⟨i, j, k⟩ := t
  obtain ⟨i', j', k'⟩ := t'
  simp only [expPos, Prod.mk.injEq, Fin.mk.injEq, Nat.shiftLeft_eq] at h
  obtain ⟨h1, h2⟩ := h
  have hj := j.isLt; have hj' := j'.isLt
  have e1 : j.val = j'.val := by omega
  have e2 : k.val = k'.val := by omega
  rw [h1, Fin.ext e1, Fin.ext e2]

theorem expWrite_frame (sbox : SmallSbox) (t : Fin 4 × Fin 16 × Fin 16) (out : ExpSbox) (p : Fin 4 × Fin 256)
    (hp : p ≠ expPos t) : expRd (expWrite sbox t out) p = expRd out p := by
  obtain ⟨pi, pc⟩ := p
  simp only [expRd, expWrite, Fin.getElem_fin]
  by_cases hi : t.1.val = pi.val
  · have hc : (expPos t).2.val ≠ pc.val := by
      intro hc; apply hp
      simp only [expPos] at hc ⊢
      exact Prod.ext (Fin.ext hi.symm) (Fin.ext hc.symm)
    simp only [Vector.getElem_set, hi, ↓reduceIte]
    rw [if_neg hc]
  · simp only [Vector.getElem_set, hi, ↓reduceIte]

theorem expWrite_hit (sbox : SmallSbox) (t : Fin 4 × Fin 16 × Fin 16) (out : ExpSbox) :
    expRd (expWrite sbox t out) (expPos t) = expVal sbox t := by
  simp only [expRd, expWrite, expPos, Fin.getElem_fin, Vector.getElem_set_self]

/-- every entry of the expanded table, for EVERY S-box set -/
theorem genExpSbox_get (sbox : SmallSbox) (t : Fin 4 × Fin 16 × Fin 16) :
    expRd (genExpSbox sbox) (expPos t) = expVal sbox t := by
  rw [genExpSbox_eq_foldl]
  exact foldl_write_hit (expWrite sbox) expRd expPos (expVal sbox) (expWrite_frame sbox) (expWrite_hit sbox)
    triples (fun a _ b _ h => expPos_inj a b h) t (mem_triples t) _


/-! ### `apply_sbox` -/

/-- `exp[i][x]` for a byte `x` -/
def expByte (exp : ExpSbox) (i : Fin 4) (x : BitVec 8) : BitVec 8 := exp[i][x.toNat]'(x.isLt)

theorem sboxIndex_def0 (a : BitVec 32) : sboxIndex a 0 = (a &&& (0xff#32 <<< 0)) >>> 0 := rfl
theorem sboxIndex_def1 (a : BitVec 32) : sboxIndex a 1 = (a &&& (0xff#32 <<< 8)) >>> 8 := rfl
theorem sboxIndex_def2 (a : BitVec 32) : sboxIndex a 2 = (a &&& (0xff#32 <<< 16)) >>> 16 := rfl
theorem sboxIndex_def3 (a : BitVec 32) : sboxIndex a 3 = (a &&& (0xff#32 <<< 24)) >>> 24 := rfl

/-- C20: the index of `apply_sbox` is < 256 -/
theorem sboxIndex_lt (a : BitVec 32) (i : Fin 4) : (sboxIndex a i).toNat < 256 := by
  have h : sboxIndex a i ≤ 0xff#32 := by
    match i with
    | 0 => rw [sboxIndex_def0]; bv_decide (config := { timeout := 600 })
    | 1 => rw [sboxIndex_def1]; bv_decide (config := { timeout := 600 })
    | 2 => rw [sboxIndex_def2]; bv_decide (config := { timeout := 600 })
    | 3 => rw [sboxIndex_def3]; bv_decide (config := { timeout := 600 })
  have := BitVec.le_def.mp h
  simpa using Nat.lt_succ_of_le this

theorem sboxIndex_0 (a : BitVec 32) : (sboxIndex a 0).setWidth 8 = a.extractLsb' 0 8 := by
  rw [sboxIndex_def0]; bv_decide (config := { timeout := 600 })
theorem sboxIndex_1 (a : BitVec 32) : (sboxIndex a 1).setWidth 8 = a.extractLsb' 8 8 := by
  rw [sboxIndex_def1]; bv_decide (config := { timeout := 600 })
theorem sboxIndex_2 (a : BitVec 32) : (sboxIndex a 2).setWidth 8 = a.extractLsb' 16 8 := by
  rw [sboxIndex_def2]; bv_decide (config := { timeout := 600 })
theorem sboxIndex_3 (a : BitVec 32) : (sboxIndex a 3).setWidth 8 = a.extractLsb' 24 8 := by
  rw [sboxIndex_def3]; bv_decide (config := { timeout := 600 })

theorem finRange4 : List.finRange 4 = [0, 1, 2, 3] := by decide

/-- the `+=` over disjoint bytes is concatenation -/
theorem add_shifted_bytes (e0 e1 e2 e3 : BitVec 8) :
    0#32 + (e0.setWidth 32 <<< (8 * 0)) + (e1.setWidth 32 <<< (8 * 1)) + (e2.setWidth 32 <<< (8 * 2)) +
      (e3.setWidth 32 <<< (8 * 3)) = e3 ++ e2 ++ e1 ++ e0 := by
  bv_decide (config := { timeout := 600 })

theorem applySbox_eq_bytes (exp : ExpSbox) (a : BitVec 32) :
    applySbox exp a = expByte exp 3 (a.extractLsb' 24 8) ++ expByte exp 2 (a.extractLsb' 16 8) ++
      expByte exp 1 (a.extractLsb' 8 8) ++ expByte exp 0 (a.extractLsb' 0 8) := by
  have h : applySbox exp a =
      0#32 + ((expByte exp 0 ((sboxIndex a 0).setWidth 8)).setWidth 32 <<< (8 * 0)) +
        ((expByte exp 1 ((sboxIndex a 1).setWidth 8)).setWidth 32 <<< (8 * 1)) +
        ((expByte exp 2 ((sboxIndex a 2).setWidth 8)).setWidth 32 <<< (8 * 2)) +
        ((expByte exp 3 ((sboxIndex a 3).setWidth 8)).setWidth 32 <<< (8 * 3)) := by
    simp only [applySbox, finLoop, finRange4, List.foldl_cons, List.foldl_nil]
    rfl
  rw [h, sboxIndex_0, sboxIndex_1, sboxIndex_2, sboxIndex_3, add_shifted_bytes]


/-! ### the expanded table pairs two nibble tables — for ALL tables -/

theorem nib_lo_toNat (x : BitVec 8) : (x.extractLsb' 0 4).toNat = x.toNat % 16 := by
  simp [BitVec.extractLsb'_toNat]
theorem nib_hi_toNat (x : BitVec 8) : (x.extractLsb' 4 4).toNat = x.toNat / 16 := by
  have := x.isLt
  simp only [BitVec.extractLsb'_toNat, Nat.shiftRight_eq_div_pow]; omega

/-- `u8` sum of a nibble and a shifted nibble = concatenation (C20: no overflow) -/
theorem pair_nibbles (lo hi : BitVec 4) : lo.setWidth 8 + (hi.setWidth 8 <<< 4) = hi ++ lo := by
  bv_decide (config := { timeout := 600 })

/-- `gen_exp_sbox(S)[i][x] = S[2i+1][x >> 4] ‖ S[2i][x & 15]` for every S-box set `S` -/
theorem expByte_genExpSbox (sbox : SmallSbox) (i : Fin 4) (x : BitVec 8) :
    expByte (genExpSbox sbox) i x =
      Spec.Magma.sub sbox ⟨2 * i.val + 1, by omega⟩ (x.extractLsb' 4 4) ++
      Spec.Magma.sub sbox ⟨2 * i.val, by omega⟩ (x.extractLsb' 0 4) := by
  have hx := x.isLt
  have h := genExpSbox_get sbox (i, ⟨x.toNat % 16, by omega⟩, ⟨x.toNat / 16, by omega⟩)
  have hp : expPos (i, ⟨x.toNat % 16, by omega⟩, ⟨x.toNat / 16, by omega⟩) = (i, ⟨x.toNat, hx⟩) := by
    simp only [expPos, Prod.mk.injEq, Fin.mk.injEq, true_and, Nat.shiftLeft_eq]; omega
  rw [hp] at h
  have e : expByte (genExpSbox sbox) i x = expRd (genExpSbox sbox) (i, ⟨x.toNat, hx⟩) := rfl
  rw [e, h, expVal, pair_nibbles]
  simp only [Spec.Magma.sub, Fin.getElem_fin, BitVec.val_toFin, nib_lo_toNat, nib_hi_toNat]


/-! ### `apply_sbox ∘ gen_exp_sbox = t`, `g`, rounds -/

theorem nib_of_byte (a : BitVec 32) :
    (a.extractLsb' 24 8).extractLsb' 4 4 = a.extractLsb' 28 4 ∧ (a.extractLsb' 24 8).extractLsb' 0 4 = a.extractLsb' 24 4 ∧
    (a.extractLsb' 16 8).extractLsb' 4 4 = a.extractLsb' 20 4 ∧ (a.extractLsb' 16 8).extractLsb' 0 4 = a.extractLsb' 16 4 ∧
    (a.extractLsb' 8 8).extractLsb' 4 4 = a.extractLsb' 12 4 ∧ (a.extractLsb' 8 8).extractLsb' 0 4 = a.extractLsb' 8 4 ∧
    (a.extractLsb' 0 8).extractLsb' 4 4 = a.extractLsb' 4 4 ∧ (a.extractLsb' 0 8).extractLsb' 0 4 = a.extractLsb' 0 4 := by
  refine ⟨?_, ?_, ?_, ?_, ?_, ?_, ?_, ?_⟩ <;> bv_decide (config := { timeout := 600 })

/-- for every S-box set: `apply_sbox` over the expanded table is the transformation `t` -/
theorem applySbox_genExpSbox (sbox : SmallSbox) (a : BitVec 32) :
    applySbox (genExpSbox sbox) a = Spec.Magma.t sbox a := by
  obtain ⟨h1, h2, h3, h4, h5, h6, h7, h8⟩ := nib_of_byte a
  rw [applySbox_eq_bytes, expByte_genExpSbox, expByte_genExpSbox, expByte_genExpSbox, expByte_genExpSbox,
    h1, h2, h3, h4, h5, h6, h7, h8]
  simp only [Spec.Magma.t]
  have f1 : ∀ h, (⟨2 * ((0 : Fin 4) : Nat) + 1, h⟩ : Fin 8) = 1 := fun _ => rfl
  have f0 : ∀ h, (⟨2 * ((0 : Fin 4) : Nat), h⟩ : Fin 8) = 0 := fun _ => rfl
  have f3 : ∀ h, (⟨2 * ((1 : Fin 4) : Nat) + 1, h⟩ : Fin 8) = 3 := fun _ => rfl
  have f2 : ∀ h, (⟨2 * ((1 : Fin 4) : Nat), h⟩ : Fin 8) = 2 := fun _ => rfl
  have f5 : ∀ h, (⟨2 * ((2 : Fin 4) : Nat) + 1, h⟩ : Fin 8) = 5 := fun _ => rfl
  have f4 : ∀ h, (⟨2 * ((2 : Fin 4) : Nat), h⟩ : Fin 8) = 4 := fun _ => rfl
  have f7 : ∀ h, (⟨2 * ((3 : Fin 4) : Nat) + 1, h⟩ : Fin 8) = 7 := fun _ => rfl
  have f6 : ∀ h, (⟨2 * ((3 : Fin 4) : Nat), h⟩ : Fin 8) = 6 := fun _ => rfl
  simp only [f0, f1, f2, f3, f4, f5, f6, f7]
  generalize Spec.Magma.sub sbox 7 _ = n7
  generalize Spec.Magma.sub sbox 6 _ = n6
  generalize Spec.Magma.sub sbox 5 _ = n5
  generalize Spec.Magma.sub sbox 4 _ = n4
  generalize Spec.Magma.sub sbox 3 _ = n3
  generalize Spec.Magma.sub sbox 2 _ = n2
  generalize Spec.Magma.sub sbox 1 _ = n1
  generalize Spec.Magma.sub sbox 0 _ = n0
  bv_decide (config := { timeout := 600 })


theorem g_eq (sbox : SmallSbox) (a k : BitVec 32) : g (genExpSbox sbox) a k = Spec.Magma.g sbox k a := by
  simp only [g, Spec.Magma.g, applySbox_genExpSbox]

def toPair (v : V) : Spec.Magma.Pair := { a1 := v.v0, a0 := v.v1 }

theorem round_eq_G (sbox : SmallSbox) (c : Gost89) (i : Fin 8) (v : V) :
    toPair (round (genExpSbox sbox) c i v) = Spec.Magma.G sbox c.key[i] (toPair v) := by
  simp only [toPair, round, Spec.Magma.G, g_eq, BitVec.xor_comm]

theorem store_round_eq_Gstar (sbox : SmallSbox) (c : Gost89) (i : Fin 8) (v : V) :
    store (round (genExpSbox sbox) c i v) = Spec.Magma.Gstar sbox c.key[i] (toPair v) := by
  simp only [toPair, round, store, Spec.Magma.Gstar, g_eq, BitVec.xor_comm]

theorem toPair_load (b : BitVec 64) : toPair (load b) = Spec.Magma.split b := rfl

theorem key_0 (key : BitVec 256) : (new key).key[(0 : Fin 8)] = Spec.Magma.keyWord key 1 := by
  simp only [new, Fin.getElem_fin, Vector.getElem_ofFn, Spec.Magma.keyWord]
  show BitVec.setWidth 32 (key >>> 224) = BitVec.extractLsb' 224 32 key
  bv_decide (config := { timeout := 600 })
theorem key_1 (key : BitVec 256) : (new key).key[(1 : Fin 8)] = Spec.Magma.keyWord key 2 := by
  simp only [new, Fin.getElem_fin, Vector.getElem_ofFn, Spec.Magma.keyWord]
  show BitVec.setWidth 32 (key >>> 192) = BitVec.extractLsb' 192 32 key
  bv_decide (config := { timeout := 600 })
theorem key_2 (key : BitVec 256) : (new key).key[(2 : Fin 8)] = Spec.Magma.keyWord key 3 := by
  simp only [new, Fin.getElem_fin, Vector.getElem_ofFn, Spec.Magma.keyWord]
  show BitVec.setWidth 32 (key >>> 160) = BitVec.extractLsb' 160 32 key
  bv_decide (config := { timeout := 600 })
theorem key_3 (key : BitVec 256) : (new key).key[(3 : Fin 8)] = Spec.Magma.keyWord key 4 := by
  simp only [new, Fin.getElem_fin, Vector.getElem_ofFn, Spec.Magma.keyWord]
  show BitVec.setWidth 32 (key >>> 128) = BitVec.extractLsb' 128 32 key
  bv_decide (config := { timeout := 600 })
theorem key_4 (key : BitVec 256) : (new key).key[(4 : Fin 8)] = Spec.Magma.keyWord key 5 := by
  simp only [new, Fin.getElem_fin, Vector.getElem_ofFn, Spec.Magma.keyWord]
  show BitVec.setWidth 32 (key >>> 96) = BitVec.extractLsb' 96 32 key
  bv_decide (config := { timeout := 600 })
theorem key_5 (key : BitVec 256) : (new key).key[(5 : Fin 8)] = Spec.Magma.keyWord key 6 := by
  simp only [new, Fin.getElem_fin, Vector.getElem_ofFn, Spec.Magma.keyWord]
  show BitVec.setWidth 32 (key >>> 64) = BitVec.extractLsb' 64 32 key
  bv_decide (config := { timeout := 600 })
theorem key_6 (key : BitVec 256) : (new key).key[(6 : Fin 8)] = Spec.Magma.keyWord key 7 := by
  simp only [new, Fin.getElem_fin, Vector.getElem_ofFn, Spec.Magma.keyWord]
  show BitVec.setWidth 32 (key >>> 32) = BitVec.extractLsb' 32 32 key
  bv_decide (config := { timeout := 600 })
theorem key_7 (key : BitVec 256) : (new key).key[(7 : Fin 8)] = Spec.Magma.keyWord key 8 := by
  simp only [new, Fin.getElem_fin, Vector.getElem_ofFn, Spec.Magma.keyWord]
  show BitVec.setWidth 32 (key >>> 0) = BitVec.extractLsb' 0 32 key
  bv_decide (config := { timeout := 600 })

theorem encOrder_lit : encOrder = [0, 1, 2, 3, 4, 5, 6, 7, 0, 1, 2, 3, 4, 5, 6, 7, 0, 1, 2, 3, 4, 5, 6, 7,
    7, 6, 5, 4, 3, 2, 1, 0] := by decide

theorem decOrder_lit : decOrder = [0, 1, 2, 3, 4, 5, 6, 7, 7, 6, 5, 4, 3, 2, 1, 0, 7, 6, 5, 4, 3, 2, 1, 0,
    7, 6, 5, 4, 3, 2, 1, 0] := by decide

theorem iterKeys_lit (key : BitVec 256) : Spec.Magma.iterKeys key =
    let k := Spec.Magma.keyWord key
    [k 1, k 2, k 3, k 4, k 5, k 6, k 7, k 8, k 1, k 2, k 3, k 4, k 5, k 6, k 7, k 8,
     k 1, k 2, k 3, k 4, k 5, k 6, k 7, k 8, k 8, k 7, k 6, k 5, k 4, k 3, k 2, k 1] := rfl

/-- C07 (Magma / GOST 28147-89): for EVERY S-box set, key and block the crate's encryption is the
32-round network `E` of the standard over that set -/
theorem encrypt_eq_spec (sbox : SmallSbox) (key : BitVec 256) (b : BitVec 64) :
    encrypt sbox (new key) b = Spec.Magma.E sbox key b := by
  unfold encrypt Spec.Magma.E Spec.Magma.run
  rw [encryptExp_eq, encOrder_lit, iterKeys_lit]
  simp only [List.foldl_cons, List.foldl_nil, store_round_eq_Gstar, round_eq_G, toPair_load,
    key_0, key_1, key_2, key_3, key_4, key_5, key_6, key_7, List.take, List.getD_cons_succ,
    List.getD_cons_zero]

theorem decrypt_eq_spec (sbox : SmallSbox) (key : BitVec 256) (b : BitVec 64) :
    decrypt sbox (new key) b = Spec.Magma.D sbox key b := by
  unfold decrypt Spec.Magma.D Spec.Magma.run
  rw [decryptExp_eq, decOrder_lit, iterKeys_lit]
  simp only [List.foldl_cons, List.foldl_nil, store_round_eq_Gstar, round_eq_G, toPair_load,
    key_0, key_1, key_2, key_3, key_4, key_5, key_6, key_7, List.take, List.getD_cons_succ,
    List.getD_cons_zero, List.reverse_cons, List.reverse_nil, List.nil_append, List.cons_append]


/-! ### the bundled S-box sets and the standard's vectors -/

/-- the crate's `Tc26` table is the substitution π of GOST R 34.12-2015 -/
theorem Tc26_eq : Tc26 = Spec.Magma.piTc26 := by decide +kernel

/-- C07 for `Magma = Gost89<Tc26>` -/
theorem magma_encrypt_eq_spec (key : BitVec 256) (b : BitVec 64) :
    encrypt Tc26 (new key) b = Spec.Magma.magmaE key b := by
  rw [encrypt_eq_spec, Tc26_eq]; rfl

theorem magma_decrypt_eq_spec (key : BitVec 256) (b : BitVec 64) :
    decrypt Tc26 (new key) b = Spec.Magma.magmaD key b := by
  rw [decrypt_eq_spec, Tc26_eq]; rfl

/-- the standard's `D` inverts its `E`, for every substitution set -/
theorem spec_D_E (π : Spec.Magma.Pi) (key : BitVec 256) (a : BitVec 64) :
    Spec.Magma.D π key (Spec.Magma.E π key a) = a := by
  rw [← encrypt_eq_spec, ← decrypt_eq_spec, decrypt_encrypt]

/-- the user-supplied set of the harness is NOT a set of permutations (row 7 maps 1 and 7 to 8) … -/
example : UserSbox[7][1] = UserSbox[7][7] := by decide +kernel
/-- … and the theorems above hold for it all the same -/
example (key : BitVec 256) (b : BitVec 64) :
    decrypt UserSbox (new key) (encrypt UserSbox (new key) b) = b := decrypt_encrypt_key _ key b

/-- all entries of the bundled tables are nibbles by type; every row of the six bundled sets is a
permutation of 0..15 (sanity of the copy from sboxes.rs) -/
def rowIsPerm (r : Vector (BitVec 4) 16) : Bool :=
  (List.range 16).all (fun y => (List.range 16).any (fun x => r.getD x 0 == BitVec.ofNat 4 y))

example : [Tc26, TestSbox, CryptoProA, CryptoProB, CryptoProC, CryptoProD].all
    (fun s => (List.range 8).all (fun i => rowIsPerm (s.getD i (Vector.replicate 16 0)))) = true := by
  decide +kernel

/-! GOST R 34.12-2015, A.2.1 (transformation t), A.2.2 (transformation g), A.2.3 (key schedule),
A.2.4 / A.2.5 (encryption / decryption) -/

example : Spec.Magma.t Spec.Magma.piTc26 0xfdb97531#32 = 0x2a196f34#32 := by decide +kernel
example : Spec.Magma.t Spec.Magma.piTc26 0x2a196f34#32 = 0xebd9f03a#32 := by decide +kernel
example : Spec.Magma.t Spec.Magma.piTc26 0xebd9f03a#32 = 0xb039bb3d#32 := by decide +kernel
example : Spec.Magma.t Spec.Magma.piTc26 0xb039bb3d#32 = 0x68695433#32 := by decide +kernel

example : Spec.Magma.g Spec.Magma.piTc26 0x87654321#32 0xfedcba98#32 = 0xfdcbc20c#32 := by decide +kernel
example : Spec.Magma.g Spec.Magma.piTc26 0xfdcbc20c#32 0x87654321#32 = 0x7e791a4b#32 := by decide +kernel
example : Spec.Magma.g Spec.Magma.piTc26 0x7e791a4b#32 0xfdcbc20c#32 = 0xc76549ec#32 := by decide +kernel
example : Spec.Magma.g Spec.Magma.piTc26 0xc76549ec#32 0x7e791a4b#32 = 0x9791c849#32 := by decide +kernel

example : Spec.Magma.iterKeys 0xffeeddccbbaa99887766554433221100f0f1f2f3f4f5f6f7f8f9fafbfcfdfeff#256 =
    [0xffeeddcc#32, 0xbbaa9988#32, 0x77665544#32, 0x33221100#32, 0xf0f1f2f3#32, 0xf4f5f6f7#32, 0xf8f9fafb#32, 0xfcfdfeff#32,
     0xffeeddcc#32, 0xbbaa9988#32, 0x77665544#32, 0x33221100#32, 0xf0f1f2f3#32, 0xf4f5f6f7#32, 0xf8f9fafb#32, 0xfcfdfeff#32,
     0xffeeddcc#32, 0xbbaa9988#32, 0x77665544#32, 0x33221100#32, 0xf0f1f2f3#32, 0xf4f5f6f7#32, 0xf8f9fafb#32, 0xfcfdfeff#32,
     0xfcfdfeff#32, 0xf8f9fafb#32, 0xf4f5f6f7#32, 0xf0f1f2f3#32, 0x33221100#32, 0x77665544#32, 0xbbaa9988#32, 0xffeeddcc#32] := by
  decide +kernel

example : Spec.Magma.magmaE 0xffeeddccbbaa99887766554433221100f0f1f2f3f4f5f6f7f8f9fafbfcfdfeff#256
    0xfedcba9876543210#64 = 0x4ee901e5c2d8ca3d#64 := by decide +kernel

example : Spec.Magma.magmaD 0xffeeddccbbaa99887766554433221100f0f1f2f3f4f5f6f7f8f9fafbfcfdfeff#256
    0x4ee901e5c2d8ca3d#64 = 0xfedcba9876543210#64 := by decide +kernel

/-- the same vector through the model of the crate (the crate's doc example; Magma has no test) -/
example : encrypt Tc26 (new 0xffeeddccbbaa99887766554433221100f0f1f2f3f4f5f6f7f8f9fafbfcfdfeff#256)
    0xfedcba9876543210#64 = 0x4ee901e5c2d8ca3d#64 := by decide +kernel

example : decrypt Tc26 (new 0xffeeddccbbaa99887766554433221100f0f1f2f3f4f5f6f7f8f9fafbfcfdfeff#256)
    0x4ee901e5c2d8ca3d#64 = 0xfedcba9876543210#64 := by decide +kernel

end BC.Magma
