import BlockCiphers.Proofs.AesSpec
/-
MixColumns has order 4 and InvMixColumns = MixColumns³ (FIPS-197 §5.1.3/§5.3.3: c(x)⁴ = 1 mod x⁴+1),
hence InvMixColumns³ = MixColumns — the identity behind `aes::hazmat::mix_columns` on AES-NI
("three inverse mix columns").  Column-wise maps are composed abstractly (`colMap`), the only
bit-vector fact is one identity on the four bytes of a column.
-/
namespace BC.Spec.Aes

/-- apply `g` to every column, the arguments starting at the output row and going down cyclically -/
def colMap (g : BitVec 8 → BitVec 8 → BitVec 8 → BitVec 8 → BitVec 8) (s : BitVec 128) : BitVec 128 :=
  ofFn (fun i => g (getB s (i % 4 + 4 * (i / 4))) (getB s ((i % 4 + 1) % 4 + 4 * (i / 4)))
    (getB s ((i % 4 + 2) % 4 + 4 * (i / 4))) (getB s ((i % 4 + 3) % 4 + 4 * (i / 4))))

theorem getB_colMap (g : BitVec 8 → BitVec 8 → BitVec 8 → BitVec 8 → BitVec 8) (s : BitVec 128) (i : Nat) (hi : i < 16) :
    getB (colMap g s) i = g (getB s (i % 4 + 4 * (i / 4))) (getB s ((i % 4 + 1) % 4 + 4 * (i / 4)))
      (getB s ((i % 4 + 2) % 4 + 4 * (i / 4))) (getB s ((i % 4 + 3) % 4 + 4 * (i / 4))) := by
  simp only [colMap, getB_ofFn _ i hi]

theorem mixColumns_eq_colMap (s : BitVec 128) : mixColumns s = colMap mcB s := by
  apply ext_getB; intro i hi; rw [getB_mixColumns _ i hi, getB_colMap _ _ i hi]

theorem invMixColumns_eq_colMap (s : BitVec 128) : invMixColumns s = colMap imcB s := by
  apply ext_getB; intro i hi; rw [getB_invMixColumns _ i hi, getB_colMap _ _ i hi]

/-- composition of two column maps -/
def colComp (g f : BitVec 8 → BitVec 8 → BitVec 8 → BitVec 8 → BitVec 8) (a b c d : BitVec 8) : BitVec 8 :=
  g (f a b c d) (f b c d a) (f c d a b) (f d a b c)

theorem colMap_colMap (g f : BitVec 8 → BitVec 8 → BitVec 8 → BitVec 8 → BitVec 8) (s : BitVec 128) :
    colMap g (colMap f s) = colMap (colComp g f) s := by
  apply ext_getB; intro i hi
  rw [getB_colMap _ _ i hi, getB_colMap _ _ i hi]
  bytes16 hi <;>
  simp (disch := omega) only [Nat.reduceMod, Nat.reduceDiv, Nat.reduceAdd, Nat.reduceMul, getB_colMap, colComp]

theorem colMap_congr {g f : BitVec 8 → BitVec 8 → BitVec 8 → BitVec 8 → BitVec 8}
    (h : ∀ a b c d, g a b c d = f a b c d) (s : BitVec 128) : colMap g s = colMap f s := by
  have : g = f := by funext a b c d; exact h a b c d
  rw [this]

/-- c(x)³ = c(x)⁻¹ on one column -/
theorem mcB_cube (a b c d : BitVec 8) : colComp mcB (colComp mcB mcB) a b c d = imcB a b c d := by
  simp only [colComp, imcB, mcB, gmul_02, gmul_03, gmul_09, gmul_0b, gmul_0d, gmul_0e, xtime_xor]
  bv_decide (config := { timeout := 600 })

theorem mixColumns_cube (s : BitVec 128) : mixColumns (mixColumns (mixColumns s)) = invMixColumns s := by
  rw [mixColumns_eq_colMap s, mixColumns_eq_colMap, mixColumns_eq_colMap, colMap_colMap, colMap_colMap,
    invMixColumns_eq_colMap]
  exact colMap_congr mcB_cube s

/-- MixColumns⁴ = id -/
theorem mixColumns_pow4 (s : BitVec 128) : mixColumns (mixColumns (mixColumns (mixColumns s))) = s := by
  rw [mixColumns_cube, invMixColumns_mixColumns]

/-- InvMixColumns³ = MixColumns -/
theorem invMixColumns_cube (s : BitVec 128) : invMixColumns (invMixColumns (invMixColumns s)) = mixColumns s := by
  conv => lhs; rw [← mixColumns_pow4 s]
  rw [invMixColumns_mixColumns, invMixColumns_mixColumns, invMixColumns_mixColumns]

end BC.Spec.Aes
