import BlockCiphers.Gen.Cipher_Speck
import BlockCiphers.Gen.Keys_Speck
import BlockCiphers.Proofs.GenCipherSpeck
import BlockCiphers.Proofs.GenKeysSpeck
import BlockCiphers.Proofs.Speck
import BlockCiphers.Proofs.SpeckKeys
/-!
Code-level theorems for the ten Speck variants: statements mention ONLY the regenerated code (`BC.Gen.Fn.<v>_new`,
`<v>_encrypt_block`, `<v>_decrypt_block`, translated from the `define_speck_impl!` macro of /repo/speck/src/lib.rs) and the
specification `BC.Spec.Speck` (Beaulieu et al., "The SIMON and SPECK families…", key schedule and rounds).  Composition of
  (1) `BC.Speck.decrypt_encrypt`, `encrypt_decrypt` (Proofs/Speck.lean; Thm C01), `speck_computes_spec`
      (Proofs/SpeckKeys.lean; Thm C10), `wf_all`,
  (2) `BC.GenCipher.Speck.<v>_encrypt_block_eq` / `<v>_decrypt_block_eq`,
  (3) `BC.GenKeys.Speck.<v>_new_eq`.
Keys and blocks are `BitVec`s, byte 0 of the Rust array = most significant byte (`unpackBE n` gives the byte list of the Spec).
The name-related row parameters of the Spec are those of the model's parameter row `BC.Speck.<v>` (a `Params` record of
literals: `n`, `m`, `alpha`, `beta`, `rounds`), which `Proofs/Speck.lean` (`table_ok`) shows to be the rows of the paper's table.
-/
set_option maxRecDepth 100000
namespace BC.Code.Speck
open BC BC.Gen.Fn BC.Speck

theorem range4 : List.range 4 = [0,1,2,3] := by decide +kernel

theorem unpackBE4_inj (x y : BitVec 32) (h : unpackBE 4 x = unpackBE 4 y) : x = y := by
  simp only [unpackBE, range4, List.map_cons, List.map_nil, List.cons.injEq, Nat.reduceSub, Nat.reduceMul, and_true] at h
  obtain ⟨h0, h1, h2, h3⟩ := h
  bv_decide (config := { timeout := 300 })

theorem range6 : List.range 6 = [0,1,2,3,4,5] := by decide +kernel

theorem unpackBE6_inj (x y : BitVec 48) (h : unpackBE 6 x = unpackBE 6 y) : x = y := by
  simp only [unpackBE, range6, List.map_cons, List.map_nil, List.cons.injEq, Nat.reduceSub, Nat.reduceMul, and_true] at h
  obtain ⟨h0, h1, h2, h3, h4, h5⟩ := h
  bv_decide (config := { timeout := 300 })

theorem range8 : List.range 8 = [0,1,2,3,4,5,6,7] := by decide +kernel

theorem unpackBE8_inj (x y : BitVec 64) (h : unpackBE 8 x = unpackBE 8 y) : x = y := by
  simp only [unpackBE, range8, List.map_cons, List.map_nil, List.cons.injEq, Nat.reduceSub, Nat.reduceMul, and_true] at h
  obtain ⟨h0, h1, h2, h3, h4, h5, h6, h7⟩ := h
  bv_decide (config := { timeout := 300 })

theorem range12 : List.range 12 = [0,1,2,3,4,5,6,7,8,9,10,11] := by decide +kernel

theorem unpackBE12_inj (x y : BitVec 96) (h : unpackBE 12 x = unpackBE 12 y) : x = y := by
  simp only [unpackBE, range12, List.map_cons, List.map_nil, List.cons.injEq, Nat.reduceSub, Nat.reduceMul, and_true] at h
  obtain ⟨h0, h1, h2, h3, h4, h5, h6, h7, h8, h9, h10, h11⟩ := h
  bv_decide (config := { timeout := 300 })

theorem range16 : List.range 16 = [0,1,2,3,4,5,6,7,8,9,10,11,12,13,14,15] := by decide +kernel

theorem unpackBE16_inj (x y : BitVec 128) (h : unpackBE 16 x = unpackBE 16 y) : x = y := by
  simp only [unpackBE, range16, List.map_cons, List.map_nil, List.cons.injEq, Nat.reduceSub, Nat.reduceMul, and_true] at h
  obtain ⟨h0, h1, h2, h3, h4, h5, h6, h7, h8, h9, h10, h11, h12, h13, h14, h15⟩ := h
  bv_decide (config := { timeout := 300 })

theorem unpackBE_length (n : Nat) {w : Nat} (x : BitVec w) : (unpackBE n x).length = n := by simp [unpackBE]

/-! ### speck32_64 -/

theorem speck32_64_mem : speck32_64 ∈ all := by decide

/-- `Speck32_64::new(key).encrypt_block(b)` on the regenerated code -/
def speck32_64_enc (key : BitVec 64) (b : BitVec 32) : BitVec 32 :=
  match speck32_64_new key with
  | (k0, k1, k2, k3, k4, k5, k6, k7, k8, k9, k10, k11, k12, k13, k14, k15, k16, k17, k18, k19, k20, k21) => speck32_64_encrypt_block k0 k1 k2 k3 k4 k5 k6 k7 k8 k9 k10 k11 k12 k13 k14 k15 k16 k17 k18 k19 k20 k21 b

/-- `Speck32_64::new(key).decrypt_block(b)` on the regenerated code -/
def speck32_64_dec (key : BitVec 64) (b : BitVec 32) : BitVec 32 :=
  match speck32_64_new key with
  | (k0, k1, k2, k3, k4, k5, k6, k7, k8, k9, k10, k11, k12, k13, k14, k15, k16, k17, k18, k19, k20, k21) => speck32_64_decrypt_block k0 k1 k2 k3 k4 k5 k6 k7 k8 k9 k10 k11 k12 k13 k14 k15 k16 k17 k18 k19 k20 k21 b

theorem speck32_64_enc_eq_impl (key : BitVec 64) (b : BitVec 32) :
    unpackBE 4 (speck32_64_enc key b) = encryptBlock speck32_64 (keySchedule speck32_64 (unpackBE 8 key)) (unpackBE 4 b) := by
  rw [← BC.GenKeys.Speck.speck32_64_new_eq]
  unfold speck32_64_enc
  generalize speck32_64_new key = t
  obtain ⟨k0, k1, k2, k3, k4, k5, k6, k7, k8, k9, k10, k11, k12, k13, k14, k15, k16, k17, k18, k19, k20, k21⟩ := t
  exact BC.GenCipher.Speck.speck32_64_encrypt_block_eq k0 k1 k2 k3 k4 k5 k6 k7 k8 k9 k10 k11 k12 k13 k14 k15 k16 k17 k18 k19 k20 k21 b

theorem speck32_64_dec_eq_impl (key : BitVec 64) (b : BitVec 32) :
    unpackBE 4 (speck32_64_dec key b) = decryptBlock speck32_64 (keySchedule speck32_64 (unpackBE 8 key)) (unpackBE 4 b) := by
  rw [← BC.GenKeys.Speck.speck32_64_new_eq]
  unfold speck32_64_dec
  generalize speck32_64_new key = t
  obtain ⟨k0, k1, k2, k3, k4, k5, k6, k7, k8, k9, k10, k11, k12, k13, k14, k15, k16, k17, k18, k19, k20, k21⟩ := t
  exact BC.GenCipher.Speck.speck32_64_decrypt_block_eq k0 k1 k2 k3 k4 k5 k6 k7 k8 k9 k10 k11 k12 k13 k14 k15 k16 k17 k18 k19 k20 k21 b

theorem speck32_64_dec_enc (key : BitVec 64) (b : BitVec 32) : speck32_64_dec key (speck32_64_enc key b) = b := by
  apply unpackBE4_inj
  rw [speck32_64_dec_eq_impl, speck32_64_enc_eq_impl]
  exact decrypt_encrypt speck32_64 speck32_64_mem _ _ (unpackBE_length _ _)

theorem speck32_64_enc_dec (key : BitVec 64) (b : BitVec 32) : speck32_64_enc key (speck32_64_dec key b) = b := by
  apply unpackBE4_inj
  rw [speck32_64_enc_eq_impl, speck32_64_dec_eq_impl]
  exact encrypt_decrypt speck32_64 speck32_64_mem _ _ (unpackBE_length _ _)

/-- the regenerated code computes the paper's Speck (rounds and key schedule), every key, every block -/
theorem speck32_64_enc_eq_spec (key : BitVec 64) (b : BitVec 32) :
    unpackBE 4 (speck32_64_enc key b) = BC.Spec.Speck.encryptBytes speck32_64.n speck32_64.alpha speck32_64.beta speck32_64.rounds
        (fun j => (BC.Spec.Speck.roundKeys speck32_64.n speck32_64.m speck32_64.alpha speck32_64.beta speck32_64.rounds (unpackBE 8 key)).getD j 0) (unpackBE 4 b) := by
  rw [speck32_64_enc_eq_impl]
  exact (speck_computes_spec speck32_64 (wf_all speck32_64 speck32_64_mem) _ _).1

theorem speck32_64_dec_eq_spec (key : BitVec 64) (b : BitVec 32) :
    unpackBE 4 (speck32_64_dec key b) = BC.Spec.Speck.decryptBytes speck32_64.n speck32_64.alpha speck32_64.beta speck32_64.rounds
        (fun j => (BC.Spec.Speck.roundKeys speck32_64.n speck32_64.m speck32_64.alpha speck32_64.beta speck32_64.rounds (unpackBE 8 key)).getD j 0) (unpackBE 4 b) := by
  rw [speck32_64_dec_eq_impl]
  exact (speck_computes_spec speck32_64 (wf_all speck32_64 speck32_64_mem) _ _).2

/-! ### speck48_72 -/

theorem speck48_72_mem : speck48_72 ∈ all := by decide

/-- `Speck48_72::new(key).encrypt_block(b)` on the regenerated code -/
def speck48_72_enc (key : BitVec 72) (b : BitVec 48) : BitVec 48 :=
  match speck48_72_new key with
  | (k0, k1, k2, k3, k4, k5, k6, k7, k8, k9, k10, k11, k12, k13, k14, k15, k16, k17, k18, k19, k20, k21) => speck48_72_encrypt_block k0 k1 k2 k3 k4 k5 k6 k7 k8 k9 k10 k11 k12 k13 k14 k15 k16 k17 k18 k19 k20 k21 b

/-- `Speck48_72::new(key).decrypt_block(b)` on the regenerated code -/
def speck48_72_dec (key : BitVec 72) (b : BitVec 48) : BitVec 48 :=
  match speck48_72_new key with
  | (k0, k1, k2, k3, k4, k5, k6, k7, k8, k9, k10, k11, k12, k13, k14, k15, k16, k17, k18, k19, k20, k21) => speck48_72_decrypt_block k0 k1 k2 k3 k4 k5 k6 k7 k8 k9 k10 k11 k12 k13 k14 k15 k16 k17 k18 k19 k20 k21 b

theorem speck48_72_enc_eq_impl (key : BitVec 72) (b : BitVec 48) :
    unpackBE 6 (speck48_72_enc key b) = encryptBlock speck48_72 (keySchedule speck48_72 (unpackBE 9 key)) (unpackBE 6 b) := by
  rw [← BC.GenKeys.Speck.speck48_72_new_eq]
  unfold speck48_72_enc
  generalize speck48_72_new key = t
  obtain ⟨k0, k1, k2, k3, k4, k5, k6, k7, k8, k9, k10, k11, k12, k13, k14, k15, k16, k17, k18, k19, k20, k21⟩ := t
  exact BC.GenCipher.Speck.speck48_72_encrypt_block_eq k0 k1 k2 k3 k4 k5 k6 k7 k8 k9 k10 k11 k12 k13 k14 k15 k16 k17 k18 k19 k20 k21 b

theorem speck48_72_dec_eq_impl (key : BitVec 72) (b : BitVec 48) :
    unpackBE 6 (speck48_72_dec key b) = decryptBlock speck48_72 (keySchedule speck48_72 (unpackBE 9 key)) (unpackBE 6 b) := by
  rw [← BC.GenKeys.Speck.speck48_72_new_eq]
  unfold speck48_72_dec
  generalize speck48_72_new key = t
  obtain ⟨k0, k1, k2, k3, k4, k5, k6, k7, k8, k9, k10, k11, k12, k13, k14, k15, k16, k17, k18, k19, k20, k21⟩ := t
  exact BC.GenCipher.Speck.speck48_72_decrypt_block_eq k0 k1 k2 k3 k4 k5 k6 k7 k8 k9 k10 k11 k12 k13 k14 k15 k16 k17 k18 k19 k20 k21 b

theorem speck48_72_dec_enc (key : BitVec 72) (b : BitVec 48) : speck48_72_dec key (speck48_72_enc key b) = b := by
  apply unpackBE6_inj
  rw [speck48_72_dec_eq_impl, speck48_72_enc_eq_impl]
  exact decrypt_encrypt speck48_72 speck48_72_mem _ _ (unpackBE_length _ _)

theorem speck48_72_enc_dec (key : BitVec 72) (b : BitVec 48) : speck48_72_enc key (speck48_72_dec key b) = b := by
  apply unpackBE6_inj
  rw [speck48_72_enc_eq_impl, speck48_72_dec_eq_impl]
  exact encrypt_decrypt speck48_72 speck48_72_mem _ _ (unpackBE_length _ _)

/-- the regenerated code computes the paper's Speck (rounds and key schedule), every key, every block -/
theorem speck48_72_enc_eq_spec (key : BitVec 72) (b : BitVec 48) :
    unpackBE 6 (speck48_72_enc key b) = BC.Spec.Speck.encryptBytes speck48_72.n speck48_72.alpha speck48_72.beta speck48_72.rounds
        (fun j => (BC.Spec.Speck.roundKeys speck48_72.n speck48_72.m speck48_72.alpha speck48_72.beta speck48_72.rounds (unpackBE 9 key)).getD j 0) (unpackBE 6 b) := by
  rw [speck48_72_enc_eq_impl]
  exact (speck_computes_spec speck48_72 (wf_all speck48_72 speck48_72_mem) _ _).1

theorem speck48_72_dec_eq_spec (key : BitVec 72) (b : BitVec 48) :
    unpackBE 6 (speck48_72_dec key b) = BC.Spec.Speck.decryptBytes speck48_72.n speck48_72.alpha speck48_72.beta speck48_72.rounds
        (fun j => (BC.Spec.Speck.roundKeys speck48_72.n speck48_72.m speck48_72.alpha speck48_72.beta speck48_72.rounds (unpackBE 9 key)).getD j 0) (unpackBE 6 b) := by
  rw [speck48_72_dec_eq_impl]
  exact (speck_computes_spec speck48_72 (wf_all speck48_72 speck48_72_mem) _ _).2

/-! ### speck48_96 -/

theorem speck48_96_mem : speck48_96 ∈ all := by decide

/-- `Speck48_96::new(key).encrypt_block(b)` on the regenerated code -/
def speck48_96_enc (key : BitVec 96) (b : BitVec 48) : BitVec 48 :=
  match speck48_96_new key with
  | (k0, k1, k2, k3, k4, k5, k6, k7, k8, k9, k10, k11, k12, k13, k14, k15, k16, k17, k18, k19, k20, k21, k22) => speck48_96_encrypt_block k0 k1 k2 k3 k4 k5 k6 k7 k8 k9 k10 k11 k12 k13 k14 k15 k16 k17 k18 k19 k20 k21 k22 b

/-- `Speck48_96::new(key).decrypt_block(b)` on the regenerated code -/
def speck48_96_dec (key : BitVec 96) (b : BitVec 48) : BitVec 48 :=
  match speck48_96_new key with
  | (k0, k1, k2, k3, k4, k5, k6, k7, k8, k9, k10, k11, k12, k13, k14, k15, k16, k17, k18, k19, k20, k21, k22) => speck48_96_decrypt_block k0 k1 k2 k3 k4 k5 k6 k7 k8 k9 k10 k11 k12 k13 k14 k15 k16 k17 k18 k19 k20 k21 k22 b

theorem speck48_96_enc_eq_impl (key : BitVec 96) (b : BitVec 48) :
    unpackBE 6 (speck48_96_enc key b) = encryptBlock speck48_96 (keySchedule speck48_96 (unpackBE 12 key)) (unpackBE 6 b) := by
  rw [← BC.GenKeys.Speck.speck48_96_new_eq]
  unfold speck48_96_enc
  generalize speck48_96_new key = t
  obtain ⟨k0, k1, k2, k3, k4, k5, k6, k7, k8, k9, k10, k11, k12, k13, k14, k15, k16, k17, k18, k19, k20, k21, k22⟩ := t
  exact BC.GenCipher.Speck.speck48_96_encrypt_block_eq k0 k1 k2 k3 k4 k5 k6 k7 k8 k9 k10 k11 k12 k13 k14 k15 k16 k17 k18 k19 k20 k21 k22 b

theorem speck48_96_dec_eq_impl (key : BitVec 96) (b : BitVec 48) :
    unpackBE 6 (speck48_96_dec key b) = decryptBlock speck48_96 (keySchedule speck48_96 (unpackBE 12 key)) (unpackBE 6 b) := by
  rw [← BC.GenKeys.Speck.speck48_96_new_eq]
  unfold speck48_96_dec
  generalize speck48_96_new key = t
  obtain ⟨k0, k1, k2, k3, k4, k5, k6, k7, k8, k9, k10, k11, k12, k13, k14, k15, k16, k17, k18, k19, k20, k21, k22⟩ := t
  exact BC.GenCipher.Speck.speck48_96_decrypt_block_eq k0 k1 k2 k3 k4 k5 k6 k7 k8 k9 k10 k11 k12 k13 k14 k15 k16 k17 k18 k19 k20 k21 k22 b

theorem speck48_96_dec_enc (key : BitVec 96) (b : BitVec 48) : speck48_96_dec key (speck48_96_enc key b) = b := by
  apply unpackBE6_inj
  rw [speck48_96_dec_eq_impl, speck48_96_enc_eq_impl]
  exact decrypt_encrypt speck48_96 speck48_96_mem _ _ (unpackBE_length _ _)

theorem speck48_96_enc_dec (key : BitVec 96) (b : BitVec 48) : speck48_96_enc key (speck48_96_dec key b) = b := by
  apply unpackBE6_inj
  rw [speck48_96_enc_eq_impl, speck48_96_dec_eq_impl]
  exact encrypt_decrypt speck48_96 speck48_96_mem _ _ (unpackBE_length _ _)

/-- the regenerated code computes the paper's Speck (rounds and key schedule), every key, every block -/
theorem speck48_96_enc_eq_spec (key : BitVec 96) (b : BitVec 48) :
    unpackBE 6 (speck48_96_enc key b) = BC.Spec.Speck.encryptBytes speck48_96.n speck48_96.alpha speck48_96.beta speck48_96.rounds
        (fun j => (BC.Spec.Speck.roundKeys speck48_96.n speck48_96.m speck48_96.alpha speck48_96.beta speck48_96.rounds (unpackBE 12 key)).getD j 0) (unpackBE 6 b) := by
  rw [speck48_96_enc_eq_impl]
  exact (speck_computes_spec speck48_96 (wf_all speck48_96 speck48_96_mem) _ _).1

theorem speck48_96_dec_eq_spec (key : BitVec 96) (b : BitVec 48) :
    unpackBE 6 (speck48_96_dec key b) = BC.Spec.Speck.decryptBytes speck48_96.n speck48_96.alpha speck48_96.beta speck48_96.rounds
        (fun j => (BC.Spec.Speck.roundKeys speck48_96.n speck48_96.m speck48_96.alpha speck48_96.beta speck48_96.rounds (unpackBE 12 key)).getD j 0) (unpackBE 6 b) := by
  rw [speck48_96_dec_eq_impl]
  exact (speck_computes_spec speck48_96 (wf_all speck48_96 speck48_96_mem) _ _).2

/-! ### speck64_96 -/

theorem speck64_96_mem : speck64_96 ∈ all := by decide

/-- `Speck64_96::new(key).encrypt_block(b)` on the regenerated code -/
def speck64_96_enc (key : BitVec 96) (b : BitVec 64) : BitVec 64 :=
  match speck64_96_new key with
  | (k0, k1, k2, k3, k4, k5, k6, k7, k8, k9, k10, k11, k12, k13, k14, k15, k16, k17, k18, k19, k20, k21, k22, k23, k24, k25) => speck64_96_encrypt_block k0 k1 k2 k3 k4 k5 k6 k7 k8 k9 k10 k11 k12 k13 k14 k15 k16 k17 k18 k19 k20 k21 k22 k23 k24 k25 b

/-- `Speck64_96::new(key).decrypt_block(b)` on the regenerated code -/
def speck64_96_dec (key : BitVec 96) (b : BitVec 64) : BitVec 64 :=
  match speck64_96_new key with
  | (k0, k1, k2, k3, k4, k5, k6, k7, k8, k9, k10, k11, k12, k13, k14, k15, k16, k17, k18, k19, k20, k21, k22, k23, k24, k25) => speck64_96_decrypt_block k0 k1 k2 k3 k4 k5 k6 k7 k8 k9 k10 k11 k12 k13 k14 k15 k16 k17 k18 k19 k20 k21 k22 k23 k24 k25 b

theorem speck64_96_enc_eq_impl (key : BitVec 96) (b : BitVec 64) :
    unpackBE 8 (speck64_96_enc key b) = encryptBlock speck64_96 (keySchedule speck64_96 (unpackBE 12 key)) (unpackBE 8 b) := by
  rw [← BC.GenKeys.Speck.speck64_96_new_eq]
  unfold speck64_96_enc
  generalize speck64_96_new key = t
  obtain ⟨k0, k1, k2, k3, k4, k5, k6, k7, k8, k9, k10, k11, k12, k13, k14, k15, k16, k17, k18, k19, k20, k21, k22, k23, k24, k25⟩ := t
  exact BC.GenCipher.Speck.speck64_96_encrypt_block_eq k0 k1 k2 k3 k4 k5 k6 k7 k8 k9 k10 k11 k12 k13 k14 k15 k16 k17 k18 k19 k20 k21 k22 k23 k24 k25 b

theorem speck64_96_dec_eq_impl (key : BitVec 96) (b : BitVec 64) :
    unpackBE 8 (speck64_96_dec key b) = decryptBlock speck64_96 (keySchedule speck64_96 (unpackBE 12 key)) (unpackBE 8 b) := by
  rw [← BC.GenKeys.Speck.speck64_96_new_eq]
  unfold speck64_96_dec
  generalize speck64_96_new key = t
  obtain ⟨k0, k1, k2, k3, k4, k5, k6, k7, k8, k9, k10, k11, k12, k13, k14, k15, k16, k17, k18, k19, k20, k21, k22, k23, k24, k25⟩ := t
  exact BC.GenCipher.Speck.speck64_96_decrypt_block_eq k0 k1 k2 k3 k4 k5 k6 k7 k8 k9 k10 k11 k12 k13 k14 k15 k16 k17 k18 k19 k20 k21 k22 k23 k24 k25 b

theorem speck64_96_dec_enc (key : BitVec 96) (b : BitVec 64) : speck64_96_dec key (speck64_96_enc key b) = b := by
  apply unpackBE8_inj
  rw [speck64_96_dec_eq_impl, speck64_96_enc_eq_impl]
  exact decrypt_encrypt speck64_96 speck64_96_mem _ _ (unpackBE_length _ _)

theorem speck64_96_enc_dec (key : BitVec 96) (b : BitVec 64) : speck64_96_enc key (speck64_96_dec key b) = b := by
  apply unpackBE8_inj
  rw [speck64_96_enc_eq_impl, speck64_96_dec_eq_impl]
  exact encrypt_decrypt speck64_96 speck64_96_mem _ _ (unpackBE_length _ _)

/-- the regenerated code computes the paper's Speck (rounds and key schedule), every key, every block -/
theorem speck64_96_enc_eq_spec (key : BitVec 96) (b : BitVec 64) :
    unpackBE 8 (speck64_96_enc key b) = BC.Spec.Speck.encryptBytes speck64_96.n speck64_96.alpha speck64_96.beta speck64_96.rounds
        (fun j => (BC.Spec.Speck.roundKeys speck64_96.n speck64_96.m speck64_96.alpha speck64_96.beta speck64_96.rounds (unpackBE 12 key)).getD j 0) (unpackBE 8 b) := by
  rw [speck64_96_enc_eq_impl]
  exact (speck_computes_spec speck64_96 (wf_all speck64_96 speck64_96_mem) _ _).1

theorem speck64_96_dec_eq_spec (key : BitVec 96) (b : BitVec 64) :
    unpackBE 8 (speck64_96_dec key b) = BC.Spec.Speck.decryptBytes speck64_96.n speck64_96.alpha speck64_96.beta speck64_96.rounds
        (fun j => (BC.Spec.Speck.roundKeys speck64_96.n speck64_96.m speck64_96.alpha speck64_96.beta speck64_96.rounds (unpackBE 12 key)).getD j 0) (unpackBE 8 b) := by
  rw [speck64_96_dec_eq_impl]
  exact (speck_computes_spec speck64_96 (wf_all speck64_96 speck64_96_mem) _ _).2

/-! ### speck64_128 -/

theorem speck64_128_mem : speck64_128 ∈ all := by decide

/-- `Speck64_128::new(key).encrypt_block(b)` on the regenerated code -/
def speck64_128_enc (key : BitVec 128) (b : BitVec 64) : BitVec 64 :=
  match speck64_128_new key with
  | (k0, k1, k2, k3, k4, k5, k6, k7, k8, k9, k10, k11, k12, k13, k14, k15, k16, k17, k18, k19, k20, k21, k22, k23, k24, k25, k26) => speck64_128_encrypt_block k0 k1 k2 k3 k4 k5 k6 k7 k8 k9 k10 k11 k12 k13 k14 k15 k16 k17 k18 k19 k20 k21 k22 k23 k24 k25 k26 b

/-- `Speck64_128::new(key).decrypt_block(b)` on the regenerated code -/
def speck64_128_dec (key : BitVec 128) (b : BitVec 64) : BitVec 64 :=
  match speck64_128_new key with
  | (k0, k1, k2, k3, k4, k5, k6, k7, k8, k9, k10, k11, k12, k13, k14, k15, k16, k17, k18, k19, k20, k21, k22, k23, k24, k25, k26) => speck64_128_decrypt_block k0 k1 k2 k3 k4 k5 k6 k7 k8 k9 k10 k11 k12 k13 k14 k15 k16 k17 k18 k19 k20 k21 k22 k23 k24 k25 k26 b

theorem speck64_128_enc_eq_impl (key : BitVec 128) (b : BitVec 64) :
    unpackBE 8 (speck64_128_enc key b) = encryptBlock speck64_128 (keySchedule speck64_128 (unpackBE 16 key)) (unpackBE 8 b) := by
  rw [← BC.GenKeys.Speck.speck64_128_new_eq]
  unfold speck64_128_enc
  generalize speck64_128_new key = t
  obtain ⟨k0, k1, k2, k3, k4, k5, k6, k7, k8, k9, k10, k11, k12, k13, k14, k15, k16, k17, k18, k19, k20, k21, k22, k23, k24, k25, k26⟩ := t
  exact BC.GenCipher.Speck.speck64_128_encrypt_block_eq k0 k1 k2 k3 k4 k5 k6 k7 k8 k9 k10 k11 k12 k13 k14 k15 k16 k17 k18 k19 k20 k21 k22 k23 k24 k25 k26 b

theorem speck64_128_dec_eq_impl (key : BitVec 128) (b : BitVec 64) :
    unpackBE 8 (speck64_128_dec key b) = decryptBlock speck64_128 (keySchedule speck64_128 (unpackBE 16 key)) (unpackBE 8 b) := by
  rw [← BC.GenKeys.Speck.speck64_128_new_eq]
  unfold speck64_128_dec
  generalize speck64_128_new key = t
  obtain ⟨k0, k1, k2, k3, k4, k5, k6, k7, k8, k9, k10, k11, k12, k13, k14, k15, k16, k17, k18, k19, k20, k21, k22, k23, k24, k25, k26⟩ := t
  exact BC.GenCipher.Speck.speck64_128_decrypt_block_eq k0 k1 k2 k3 k4 k5 k6 k7 k8 k9 k10 k11 k12 k13 k14 k15 k16 k17 k18 k19 k20 k21 k22 k23 k24 k25 k26 b

theorem speck64_128_dec_enc (key : BitVec 128) (b : BitVec 64) : speck64_128_dec key (speck64_128_enc key b) = b := by
  apply unpackBE8_inj
  rw [speck64_128_dec_eq_impl, speck64_128_enc_eq_impl]
  exact decrypt_encrypt speck64_128 speck64_128_mem _ _ (unpackBE_length _ _)

theorem speck64_128_enc_dec (key : BitVec 128) (b : BitVec 64) : speck64_128_enc key (speck64_128_dec key b) = b := by
  apply unpackBE8_inj
  rw [speck64_128_enc_eq_impl, speck64_128_dec_eq_impl]
  exact encrypt_decrypt speck64_128 speck64_128_mem _ _ (unpackBE_length _ _)

/-- the regenerated code computes the paper's Speck (rounds and key schedule), every key, every block -/
theorem speck64_128_enc_eq_spec (key : BitVec 128) (b : BitVec 64) :
    unpackBE 8 (speck64_128_enc key b) = BC.Spec.Speck.encryptBytes speck64_128.n speck64_128.alpha speck64_128.beta speck64_128.rounds
        (fun j => (BC.Spec.Speck.roundKeys speck64_128.n speck64_128.m speck64_128.alpha speck64_128.beta speck64_128.rounds (unpackBE 16 key)).getD j 0) (unpackBE 8 b) := by
  rw [speck64_128_enc_eq_impl]
  exact (speck_computes_spec speck64_128 (wf_all speck64_128 speck64_128_mem) _ _).1

theorem speck64_128_dec_eq_spec (key : BitVec 128) (b : BitVec 64) :
    unpackBE 8 (speck64_128_dec key b) = BC.Spec.Speck.decryptBytes speck64_128.n speck64_128.alpha speck64_128.beta speck64_128.rounds
        (fun j => (BC.Spec.Speck.roundKeys speck64_128.n speck64_128.m speck64_128.alpha speck64_128.beta speck64_128.rounds (unpackBE 16 key)).getD j 0) (unpackBE 8 b) := by
  rw [speck64_128_dec_eq_impl]
  exact (speck_computes_spec speck64_128 (wf_all speck64_128 speck64_128_mem) _ _).2

/-! ### speck96_96 -/

theorem speck96_96_mem : speck96_96 ∈ all := by decide

/-- `Speck96_96::new(key).encrypt_block(b)` on the regenerated code -/
def speck96_96_enc (key : BitVec 96) (b : BitVec 96) : BitVec 96 :=
  match speck96_96_new key with
  | (k0, k1, k2, k3, k4, k5, k6, k7, k8, k9, k10, k11, k12, k13, k14, k15, k16, k17, k18, k19, k20, k21, k22, k23, k24, k25, k26, k27) => speck96_96_encrypt_block k0 k1 k2 k3 k4 k5 k6 k7 k8 k9 k10 k11 k12 k13 k14 k15 k16 k17 k18 k19 k20 k21 k22 k23 k24 k25 k26 k27 b

/-- `Speck96_96::new(key).decrypt_block(b)` on the regenerated code -/
def speck96_96_dec (key : BitVec 96) (b : BitVec 96) : BitVec 96 :=
  match speck96_96_new key with
  | (k0, k1, k2, k3, k4, k5, k6, k7, k8, k9, k10, k11, k12, k13, k14, k15, k16, k17, k18, k19, k20, k21, k22, k23, k24, k25, k26, k27) => speck96_96_decrypt_block k0 k1 k2 k3 k4 k5 k6 k7 k8 k9 k10 k11 k12 k13 k14 k15 k16 k17 k18 k19 k20 k21 k22 k23 k24 k25 k26 k27 b

theorem speck96_96_enc_eq_impl (key : BitVec 96) (b : BitVec 96) :
    unpackBE 12 (speck96_96_enc key b) = encryptBlock speck96_96 (keySchedule speck96_96 (unpackBE 12 key)) (unpackBE 12 b) := by
  rw [← BC.GenKeys.Speck.speck96_96_new_eq]
  unfold speck96_96_enc
  generalize speck96_96_new key = t
  obtain ⟨k0, k1, k2, k3, k4, k5, k6, k7, k8, k9, k10, k11, k12, k13, k14, k15, k16, k17, k18, k19, k20, k21, k22, k23, k24, k25, k26, k27⟩ := t
  exact BC.GenCipher.Speck.speck96_96_encrypt_block_eq k0 k1 k2 k3 k4 k5 k6 k7 k8 k9 k10 k11 k12 k13 k14 k15 k16 k17 k18 k19 k20 k21 k22 k23 k24 k25 k26 k27 b

theorem speck96_96_dec_eq_impl (key : BitVec 96) (b : BitVec 96) :
    unpackBE 12 (speck96_96_dec key b) = decryptBlock speck96_96 (keySchedule speck96_96 (unpackBE 12 key)) (unpackBE 12 b) := by
  rw [← BC.GenKeys.Speck.speck96_96_new_eq]
  unfold speck96_96_dec
  generalize speck96_96_new key = t
  obtain ⟨k0, k1, k2, k3, k4, k5, k6, k7, k8, k9, k10, k11, k12, k13, k14, k15, k16, k17, k18, k19, k20, k21, k22, k23, k24, k25, k26, k27⟩ := t
  exact BC.GenCipher.Speck.speck96_96_decrypt_block_eq k0 k1 k2 k3 k4 k5 k6 k7 k8 k9 k10 k11 k12 k13 k14 k15 k16 k17 k18 k19 k20 k21 k22 k23 k24 k25 k26 k27 b

theorem speck96_96_dec_enc (key : BitVec 96) (b : BitVec 96) : speck96_96_dec key (speck96_96_enc key b) = b := by
  apply unpackBE12_inj
  rw [speck96_96_dec_eq_impl, speck96_96_enc_eq_impl]
  exact decrypt_encrypt speck96_96 speck96_96_mem _ _ (unpackBE_length _ _)

theorem speck96_96_enc_dec (key : BitVec 96) (b : BitVec 96) : speck96_96_enc key (speck96_96_dec key b) = b := by
  apply unpackBE12_inj
  rw [speck96_96_enc_eq_impl, speck96_96_dec_eq_impl]
  exact encrypt_decrypt speck96_96 speck96_96_mem _ _ (unpackBE_length _ _)

/-- the regenerated code computes the paper's Speck (rounds and key schedule), every key, every block -/
theorem speck96_96_enc_eq_spec (key : BitVec 96) (b : BitVec 96) :
    unpackBE 12 (speck96_96_enc key b) = BC.Spec.Speck.encryptBytes speck96_96.n speck96_96.alpha speck96_96.beta speck96_96.rounds
        (fun j => (BC.Spec.Speck.roundKeys speck96_96.n speck96_96.m speck96_96.alpha speck96_96.beta speck96_96.rounds (unpackBE 12 key)).getD j 0) (unpackBE 12 b) := by
  rw [speck96_96_enc_eq_impl]
  exact (speck_computes_spec speck96_96 (wf_all speck96_96 speck96_96_mem) _ _).1

theorem speck96_96_dec_eq_spec (key : BitVec 96) (b : BitVec 96) :
    unpackBE 12 (speck96_96_dec key b) = BC.Spec.Speck.decryptBytes speck96_96.n speck96_96.alpha speck96_96.beta speck96_96.rounds
        (fun j => (BC.Spec.Speck.roundKeys speck96_96.n speck96_96.m speck96_96.alpha speck96_96.beta speck96_96.rounds (unpackBE 12 key)).getD j 0) (unpackBE 12 b) := by
  rw [speck96_96_dec_eq_impl]
  exact (speck_computes_spec speck96_96 (wf_all speck96_96 speck96_96_mem) _ _).2

/-! ### speck96_144 -/

theorem speck96_144_mem : speck96_144 ∈ all := by decide

/-- `Speck96_144::new(key).encrypt_block(b)` on the regenerated code -/
def speck96_144_enc (key : BitVec 144) (b : BitVec 96) : BitVec 96 :=
  match speck96_144_new key with
  | (k0, k1, k2, k3, k4, k5, k6, k7, k8, k9, k10, k11, k12, k13, k14, k15, k16, k17, k18, k19, k20, k21, k22, k23, k24, k25, k26, k27, k28) => speck96_144_encrypt_block k0 k1 k2 k3 k4 k5 k6 k7 k8 k9 k10 k11 k12 k13 k14 k15 k16 k17 k18 k19 k20 k21 k22 k23 k24 k25 k26 k27 k28 b

/-- `Speck96_144::new(key).decrypt_block(b)` on the regenerated code -/
def speck96_144_dec (key : BitVec 144) (b : BitVec 96) : BitVec 96 :=
  match speck96_144_new key with
  | (k0, k1, k2, k3, k4, k5, k6, k7, k8, k9, k10, k11, k12, k13, k14, k15, k16, k17, k18, k19, k20, k21, k22, k23, k24, k25, k26, k27, k28) => speck96_144_decrypt_block k0 k1 k2 k3 k4 k5 k6 k7 k8 k9 k10 k11 k12 k13 k14 k15 k16 k17 k18 k19 k20 k21 k22 k23 k24 k25 k26 k27 k28 b

theorem speck96_144_enc_eq_impl (key : BitVec 144) (b : BitVec 96) :
    unpackBE 12 (speck96_144_enc key b) = encryptBlock speck96_144 (keySchedule speck96_144 (unpackBE 18 key)) (unpackBE 12 b) := by
  rw [← BC.GenKeys.Speck.speck96_144_new_eq]
  unfold speck96_144_enc
  generalize speck96_144_new key = t
  obtain ⟨k0, k1, k2, k3, k4, k5, k6, k7, k8, k9, k10, k11, k12, k13, k14, k15, k16, k17, k18, k19, k20, k21, k22, k23, k24, k25, k26, k27, k28⟩ := t
  exact BC.GenCipher.Speck.speck96_144_encrypt_block_eq k0 k1 k2 k3 k4 k5 k6 k7 k8 k9 k10 k11 k12 k13 k14 k15 k16 k17 k18 k19 k20 k21 k22 k23 k24 k25 k26 k27 k28 b

theorem speck96_144_dec_eq_impl (key : BitVec 144) (b : BitVec 96) :
    unpackBE 12 (speck96_144_dec key b) = decryptBlock speck96_144 (keySchedule speck96_144 (unpackBE 18 key)) (unpackBE 12 b) := by
  rw [← BC.GenKeys.Speck.speck96_144_new_eq]
  unfold speck96_144_dec
  generalize speck96_144_new key = t
  obtain ⟨k0, k1, k2, k3, k4, k5, k6, k7, k8, k9, k10, k11, k12, k13, k14, k15, k16, k17, k18, k19, k20, k21, k22, k23, k24, k25, k26, k27, k28⟩ := t
  exact BC.GenCipher.Speck.speck96_144_decrypt_block_eq k0 k1 k2 k3 k4 k5 k6 k7 k8 k9 k10 k11 k12 k13 k14 k15 k16 k17 k18 k19 k20 k21 k22 k23 k24 k25 k26 k27 k28 b

theorem speck96_144_dec_enc (key : BitVec 144) (b : BitVec 96) : speck96_144_dec key (speck96_144_enc key b) = b := by
  apply unpackBE12_inj
  rw [speck96_144_dec_eq_impl, speck96_144_enc_eq_impl]
  exact decrypt_encrypt speck96_144 speck96_144_mem _ _ (unpackBE_length _ _)

theorem speck96_144_enc_dec (key : BitVec 144) (b : BitVec 96) : speck96_144_enc key (speck96_144_dec key b) = b := by
  apply unpackBE12_inj
  rw [speck96_144_enc_eq_impl, speck96_144_dec_eq_impl]
  exact encrypt_decrypt speck96_144 speck96_144_mem _ _ (unpackBE_length _ _)

/-- the regenerated code computes the paper's Speck (rounds and key schedule), every key, every block -/
theorem speck96_144_enc_eq_spec (key : BitVec 144) (b : BitVec 96) :
    unpackBE 12 (speck96_144_enc key b) = BC.Spec.Speck.encryptBytes speck96_144.n speck96_144.alpha speck96_144.beta speck96_144.rounds
        (fun j => (BC.Spec.Speck.roundKeys speck96_144.n speck96_144.m speck96_144.alpha speck96_144.beta speck96_144.rounds (unpackBE 18 key)).getD j 0) (unpackBE 12 b) := by
  rw [speck96_144_enc_eq_impl]
  exact (speck_computes_spec speck96_144 (wf_all speck96_144 speck96_144_mem) _ _).1

theorem speck96_144_dec_eq_spec (key : BitVec 144) (b : BitVec 96) :
    unpackBE 12 (speck96_144_dec key b) = BC.Spec.Speck.decryptBytes speck96_144.n speck96_144.alpha speck96_144.beta speck96_144.rounds
        (fun j => (BC.Spec.Speck.roundKeys speck96_144.n speck96_144.m speck96_144.alpha speck96_144.beta speck96_144.rounds (unpackBE 18 key)).getD j 0) (unpackBE 12 b) := by
  rw [speck96_144_dec_eq_impl]
  exact (speck_computes_spec speck96_144 (wf_all speck96_144 speck96_144_mem) _ _).2

/-! ### speck128_128 -/

theorem speck128_128_mem : speck128_128 ∈ all := by decide

/-- `Speck128_128::new(key).encrypt_block(b)` on the regenerated code -/
def speck128_128_enc (key : BitVec 128) (b : BitVec 128) : BitVec 128 :=
  match speck128_128_new key with
  | (k0, k1, k2, k3, k4, k5, k6, k7, k8, k9, k10, k11, k12, k13, k14, k15, k16, k17, k18, k19, k20, k21, k22, k23, k24, k25, k26, k27, k28, k29, k30, k31) => speck128_128_encrypt_block k0 k1 k2 k3 k4 k5 k6 k7 k8 k9 k10 k11 k12 k13 k14 k15 k16 k17 k18 k19 k20 k21 k22 k23 k24 k25 k26 k27 k28 k29 k30 k31 b

/-- `Speck128_128::new(key).decrypt_block(b)` on the regenerated code -/
def speck128_128_dec (key : BitVec 128) (b : BitVec 128) : BitVec 128 :=
  match speck128_128_new key with
  | (k0, k1, k2, k3, k4, k5, k6, k7, k8, k9, k10, k11, k12, k13, k14, k15, k16, k17, k18, k19, k20, k21, k22, k23, k24, k25, k26, k27, k28, k29, k30, k31) => speck128_128_decrypt_block k0 k1 k2 k3 k4 k5 k6 k7 k8 k9 k10 k11 k12 k13 k14 k15 k16 k17 k18 k19 k20 k21 k22 k23 k24 k25 k26 k27 k28 k29 k30 k31 b

theorem speck128_128_enc_eq_impl (key : BitVec 128) (b : BitVec 128) :
    unpackBE 16 (speck128_128_enc key b) = encryptBlock speck128_128 (keySchedule speck128_128 (unpackBE 16 key)) (unpackBE 16 b) := by
  rw [← BC.GenKeys.Speck.speck128_128_new_eq]
  unfold speck128_128_enc
  generalize speck128_128_new key = t
  obtain ⟨k0, k1, k2, k3, k4, k5, k6, k7, k8, k9, k10, k11, k12, k13, k14, k15, k16, k17, k18, k19, k20, k21, k22, k23, k24, k25, k26, k27, k28, k29, k30, k31⟩ := t
  exact BC.GenCipher.Speck.speck128_128_encrypt_block_eq k0 k1 k2 k3 k4 k5 k6 k7 k8 k9 k10 k11 k12 k13 k14 k15 k16 k17 k18 k19 k20 k21 k22 k23 k24 k25 k26 k27 k28 k29 k30 k31 b

theorem speck128_128_dec_eq_impl (key : BitVec 128) (b : BitVec 128) :
    unpackBE 16 (speck128_128_dec key b) = decryptBlock speck128_128 (keySchedule speck128_128 (unpackBE 16 key)) (unpackBE 16 b) := by
  rw [← BC.GenKeys.Speck.speck128_128_new_eq]
  unfold speck128_128_dec
  generalize speck128_128_new key = t
  obtain ⟨k0, k1, k2, k3, k4, k5, k6, k7, k8, k9, k10, k11, k12, k13, k14, k15, k16, k17, k18, k19, k20, k21, k22, k23, k24, k25, k26, k27, k28, k29, k30, k31⟩ := t
  exact BC.GenCipher.Speck.speck128_128_decrypt_block_eq k0 k1 k2 k3 k4 k5 k6 k7 k8 k9 k10 k11 k12 k13 k14 k15 k16 k17 k18 k19 k20 k21 k22 k23 k24 k25 k26 k27 k28 k29 k30 k31 b

theorem speck128_128_dec_enc (key : BitVec 128) (b : BitVec 128) : speck128_128_dec key (speck128_128_enc key b) = b := by
  apply unpackBE16_inj
  rw [speck128_128_dec_eq_impl, speck128_128_enc_eq_impl]
  exact decrypt_encrypt speck128_128 speck128_128_mem _ _ (unpackBE_length _ _)

theorem speck128_128_enc_dec (key : BitVec 128) (b : BitVec 128) : speck128_128_enc key (speck128_128_dec key b) = b := by
  apply unpackBE16_inj
  rw [speck128_128_enc_eq_impl, speck128_128_dec_eq_impl]
  exact encrypt_decrypt speck128_128 speck128_128_mem _ _ (unpackBE_length _ _)

/-- the regenerated code computes the paper's Speck (rounds and key schedule), every key, every block -/
theorem speck128_128_enc_eq_spec (key : BitVec 128) (b : BitVec 128) :
    unpackBE 16 (speck128_128_enc key b) = BC.Spec.Speck.encryptBytes speck128_128.n speck128_128.alpha speck128_128.beta speck128_128.rounds
        (fun j => (BC.Spec.Speck.roundKeys speck128_128.n speck128_128.m speck128_128.alpha speck128_128.beta speck128_128.rounds (unpackBE 16 key)).getD j 0) (unpackBE 16 b) := by
  rw [speck128_128_enc_eq_impl]
  exact (speck_computes_spec speck128_128 (wf_all speck128_128 speck128_128_mem) _ _).1

theorem speck128_128_dec_eq_spec (key : BitVec 128) (b : BitVec 128) :
    unpackBE 16 (speck128_128_dec key b) = BC.Spec.Speck.decryptBytes speck128_128.n speck128_128.alpha speck128_128.beta speck128_128.rounds
        (fun j => (BC.Spec.Speck.roundKeys speck128_128.n speck128_128.m speck128_128.alpha speck128_128.beta speck128_128.rounds (unpackBE 16 key)).getD j 0) (unpackBE 16 b) := by
  rw [speck128_128_dec_eq_impl]
  exact (speck_computes_spec speck128_128 (wf_all speck128_128 speck128_128_mem) _ _).2

/-! ### speck128_192 -/

theorem speck128_192_mem : speck128_192 ∈ all := by decide

/-- `Speck128_192::new(key).encrypt_block(b)` on the regenerated code -/
def speck128_192_enc (key : BitVec 192) (b : BitVec 128) : BitVec 128 :=
  match speck128_192_new key with
  | (k0, k1, k2, k3, k4, k5, k6, k7, k8, k9, k10, k11, k12, k13, k14, k15, k16, k17, k18, k19, k20, k21, k22, k23, k24, k25, k26, k27, k28, k29, k30, k31, k32) => speck128_192_encrypt_block k0 k1 k2 k3 k4 k5 k6 k7 k8 k9 k10 k11 k12 k13 k14 k15 k16 k17 k18 k19 k20 k21 k22 k23 k24 k25 k26 k27 k28 k29 k30 k31 k32 b

/-- `Speck128_192::new(key).decrypt_block(b)` on the regenerated code -/
def speck128_192_dec (key : BitVec 192) (b : BitVec 128) : BitVec 128 :=
  match speck128_192_new key with
  | (k0, k1, k2, k3, k4, k5, k6, k7, k8, k9, k10, k11, k12, k13, k14, k15, k16, k17, k18, k19, k20, k21, k22, k23, k24, k25, k26, k27, k28, k29, k30, k31, k32) => speck128_192_decrypt_block k0 k1 k2 k3 k4 k5 k6 k7 k8 k9 k10 k11 k12 k13 k14 k15 k16 k17 k18 k19 k20 k21 k22 k23 k24 k25 k26 k27 k28 k29 k30 k31 k32 b

theorem speck128_192_enc_eq_impl (key : BitVec 192) (b : BitVec 128) :
    unpackBE 16 (speck128_192_enc key b) = encryptBlock speck128_192 (keySchedule speck128_192 (unpackBE 24 key)) (unpackBE 16 b) := by
  rw [← BC.GenKeys.Speck.speck128_192_new_eq]
  unfold speck128_192_enc
  generalize speck128_192_new key = t
  obtain ⟨k0, k1, k2, k3, k4, k5, k6, k7, k8, k9, k10, k11, k12, k13, k14, k15, k16, k17, k18, k19, k20, k21, k22, k23, k24, k25, k26, k27, k28, k29, k30, k31, k32⟩ := t
  exact BC.GenCipher.Speck.speck128_192_encrypt_block_eq k0 k1 k2 k3 k4 k5 k6 k7 k8 k9 k10 k11 k12 k13 k14 k15 k16 k17 k18 k19 k20 k21 k22 k23 k24 k25 k26 k27 k28 k29 k30 k31 k32 b

theorem speck128_192_dec_eq_impl (key : BitVec 192) (b : BitVec 128) :
    unpackBE 16 (speck128_192_dec key b) = decryptBlock speck128_192 (keySchedule speck128_192 (unpackBE 24 key)) (unpackBE 16 b) := by
  rw [← BC.GenKeys.Speck.speck128_192_new_eq]
  unfold speck128_192_dec
  generalize speck128_192_new key = t
  obtain ⟨k0, k1, k2, k3, k4, k5, k6, k7, k8, k9, k10, k11, k12, k13, k14, k15, k16, k17, k18, k19, k20, k21, k22, k23, k24, k25, k26, k27, k28, k29, k30, k31, k32⟩ := t
  exact BC.GenCipher.Speck.speck128_192_decrypt_block_eq k0 k1 k2 k3 k4 k5 k6 k7 k8 k9 k10 k11 k12 k13 k14 k15 k16 k17 k18 k19 k20 k21 k22 k23 k24 k25 k26 k27 k28 k29 k30 k31 k32 b

theorem speck128_192_dec_enc (key : BitVec 192) (b : BitVec 128) : speck128_192_dec key (speck128_192_enc key b) = b := by
  apply unpackBE16_inj
  rw [speck128_192_dec_eq_impl, speck128_192_enc_eq_impl]
  exact decrypt_encrypt speck128_192 speck128_192_mem _ _ (unpackBE_length _ _)

theorem speck128_192_enc_dec (key : BitVec 192) (b : BitVec 128) : speck128_192_enc key (speck128_192_dec key b) = b := by
  apply unpackBE16_inj
  rw [speck128_192_enc_eq_impl, speck128_192_dec_eq_impl]
  exact encrypt_decrypt speck128_192 speck128_192_mem _ _ (unpackBE_length _ _)

/-- the regenerated code computes the paper's Speck (rounds and key schedule), every key, every block -/
theorem speck128_192_enc_eq_spec (key : BitVec 192) (b : BitVec 128) :
    unpackBE 16 (speck128_192_enc key b) = BC.Spec.Speck.encryptBytes speck128_192.n speck128_192.alpha speck128_192.beta speck128_192.rounds
        (fun j => (BC.Spec.Speck.roundKeys speck128_192.n speck128_192.m speck128_192.alpha speck128_192.beta speck128_192.rounds (unpackBE 24 key)).getD j 0) (unpackBE 16 b) := by
  rw [speck128_192_enc_eq_impl]
  exact (speck_computes_spec speck128_192 (wf_all speck128_192 speck128_192_mem) _ _).1

theorem speck128_192_dec_eq_spec (key : BitVec 192) (b : BitVec 128) :
    unpackBE 16 (speck128_192_dec key b) = BC.Spec.Speck.decryptBytes speck128_192.n speck128_192.alpha speck128_192.beta speck128_192.rounds
        (fun j => (BC.Spec.Speck.roundKeys speck128_192.n speck128_192.m speck128_192.alpha speck128_192.beta speck128_192.rounds (unpackBE 24 key)).getD j 0) (unpackBE 16 b) := by
  rw [speck128_192_dec_eq_impl]
  exact (speck_computes_spec speck128_192 (wf_all speck128_192 speck128_192_mem) _ _).2

/-! ### speck128_256 -/

theorem speck128_256_mem : speck128_256 ∈ all := by decide

/-- `Speck128_256::new(key).encrypt_block(b)` on the regenerated code -/
def speck128_256_enc (key : BitVec 256) (b : BitVec 128) : BitVec 128 :=
  match speck128_256_new key with
  | (k0, k1, k2, k3, k4, k5, k6, k7, k8, k9, k10, k11, k12, k13, k14, k15, k16, k17, k18, k19, k20, k21, k22, k23, k24, k25, k26, k27, k28, k29, k30, k31, k32, k33) => speck128_256_encrypt_block k0 k1 k2 k3 k4 k5 k6 k7 k8 k9 k10 k11 k12 k13 k14 k15 k16 k17 k18 k19 k20 k21 k22 k23 k24 k25 k26 k27 k28 k29 k30 k31 k32 k33 b

/-- `Speck128_256::new(key).decrypt_block(b)` on the regenerated code -/
def speck128_256_dec (key : BitVec 256) (b : BitVec 128) : BitVec 128 :=
  match speck128_256_new key with
  | (k0, k1, k2, k3, k4, k5, k6, k7, k8, k9, k10, k11, k12, k13, k14, k15, k16, k17, k18, k19, k20, k21, k22, k23, k24, k25, k26, k27, k28, k29, k30, k31, k32, k33) => speck128_256_decrypt_block k0 k1 k2 k3 k4 k5 k6 k7 k8 k9 k10 k11 k12 k13 k14 k15 k16 k17 k18 k19 k20 k21 k22 k23 k24 k25 k26 k27 k28 k29 k30 k31 k32 k33 b

theorem speck128_256_enc_eq_impl (key : BitVec 256) (b : BitVec 128) :
    unpackBE 16 (speck128_256_enc key b) = encryptBlock speck128_256 (keySchedule speck128_256 (unpackBE 32 key)) (unpackBE 16 b) := by
  rw [← BC.GenKeys.Speck.speck128_256_new_eq]
  unfold speck128_256_enc
  generalize speck128_256_new key = t
  obtain ⟨k0, k1, k2, k3, k4, k5, k6, k7, k8, k9, k10, k11, k12, k13, k14, k15, k16, k17, k18, k19, k20, k21, k22, k23, k24, k25, k26, k27, k28, k29, k30, k31, k32, k33⟩ := t
  exact BC.GenCipher.Speck.speck128_256_encrypt_block_eq k0 k1 k2 k3 k4 k5 k6 k7 k8 k9 k10 k11 k12 k13 k14 k15 k16 k17 k18 k19 k20 k21 k22 k23 k24 k25 k26 k27 k28 k29 k30 k31 k32 k33 b

theorem speck128_256_dec_eq_impl (key : BitVec 256) (b : BitVec 128) :
    unpackBE 16 (speck128_256_dec key b) = decryptBlock speck128_256 (keySchedule speck128_256 (unpackBE 32 key)) (unpackBE 16 b) := by
  rw [← BC.GenKeys.Speck.speck128_256_new_eq]
  unfold speck128_256_dec
  generalize speck128_256_new key = t
  obtain ⟨k0, k1, k2, k3, k4, k5, k6, k7, k8, k9, k10, k11, k12, k13, k14, k15, k16, k17, k18, k19, k20, k21, k22, k23, k24, k25, k26, k27, k28, k29, k30, k31, k32, k33⟩ := t
  exact BC.GenCipher.Speck.speck128_256_decrypt_block_eq k0 k1 k2 k3 k4 k5 k6 k7 k8 k9 k10 k11 k12 k13 k14 k15 k16 k17 k18 k19 k20 k21 k22 k23 k24 k25 k26 k27 k28 k29 k30 k31 k32 k33 b

theorem speck128_256_dec_enc (key : BitVec 256) (b : BitVec 128) : speck128_256_dec key (speck128_256_enc key b) = b := by
  apply unpackBE16_inj
  rw [speck128_256_dec_eq_impl, speck128_256_enc_eq_impl]
  exact decrypt_encrypt speck128_256 speck128_256_mem _ _ (unpackBE_length _ _)

theorem speck128_256_enc_dec (key : BitVec 256) (b : BitVec 128) : speck128_256_enc key (speck128_256_dec key b) = b := by
  apply unpackBE16_inj
  rw [speck128_256_enc_eq_impl, speck128_256_dec_eq_impl]
  exact encrypt_decrypt speck128_256 speck128_256_mem _ _ (unpackBE_length _ _)

/-- the regenerated code computes the paper's Speck (rounds and key schedule), every key, every block -/
theorem speck128_256_enc_eq_spec (key : BitVec 256) (b : BitVec 128) :
    unpackBE 16 (speck128_256_enc key b) = BC.Spec.Speck.encryptBytes speck128_256.n speck128_256.alpha speck128_256.beta speck128_256.rounds
        (fun j => (BC.Spec.Speck.roundKeys speck128_256.n speck128_256.m speck128_256.alpha speck128_256.beta speck128_256.rounds (unpackBE 32 key)).getD j 0) (unpackBE 16 b) := by
  rw [speck128_256_enc_eq_impl]
  exact (speck_computes_spec speck128_256 (wf_all speck128_256 speck128_256_mem) _ _).1

theorem speck128_256_dec_eq_spec (key : BitVec 256) (b : BitVec 128) :
    unpackBE 16 (speck128_256_dec key b) = BC.Spec.Speck.decryptBytes speck128_256.n speck128_256.alpha speck128_256.beta speck128_256.rounds
        (fun j => (BC.Spec.Speck.roundKeys speck128_256.n speck128_256.m speck128_256.alpha speck128_256.beta speck128_256.rounds (unpackBE 32 key)).getD j 0) (unpackBE 16 b) := by
  rw [speck128_256_dec_eq_impl]
  exact (speck_computes_spec speck128_256 (wf_all speck128_256 speck128_256_mem) _ _).2

end BC.Code.Speck
