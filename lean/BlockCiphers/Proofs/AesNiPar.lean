import BlockCiphers.Proofs.AesNiRound
/-
`encrypt_par` / `decrypt_par` of encdec.rs (key loop unrolled by hand, `if KEYS >= 13`, `if KEYS == 15`,
every lane treated alike) equal the single-block function applied to every lane, for the three array
sizes the crate instantiates (KEYS = 11, 13, 15) and any number of lanes (the crate uses 9).
-/
set_option linter.unusedSimpArgs false
namespace BC.AesNi
open BC BC.X86

theorem encrypt_par_eq11 (k0 k1 k2 k3 k4 k5 k6 k7 k8 k9 k10 : BitVec 128) (bs : List (BitVec 128)) :
    encrypt_par [k0, k1, k2, k3, k4, k5, k6, k7, k8, k9, k10] bs = bs.map (encrypt [k0, k1, k2, k3, k4, k5, k6, k7, k8, k9, k10]) := by
  simp only [encrypt_par, load, store, xor, aesenc, aesenclast, List.map_map, List.length_cons, List.length_nil,
    List.getD_cons_zero, List.getD_cons_succ, Nat.reduceAdd, Nat.reduceSub, Nat.reduceLeDiff, Nat.reduceEqDiff,
    ge_iff_le, ↓reduceIte]
  rfl

theorem encrypt_par_eq13 (k0 k1 k2 k3 k4 k5 k6 k7 k8 k9 k10 k11 k12 : BitVec 128) (bs : List (BitVec 128)) :
    encrypt_par [k0, k1, k2, k3, k4, k5, k6, k7, k8, k9, k10, k11, k12] bs = bs.map (encrypt [k0, k1, k2, k3, k4, k5, k6, k7, k8, k9, k10, k11, k12]) := by
  simp only [encrypt_par, load, store, xor, aesenc, aesenclast, List.map_map, List.length_cons, List.length_nil,
    List.getD_cons_zero, List.getD_cons_succ, Nat.reduceAdd, Nat.reduceSub, Nat.reduceLeDiff, Nat.reduceEqDiff,
    ge_iff_le, ↓reduceIte]
  rfl

theorem encrypt_par_eq15 (k0 k1 k2 k3 k4 k5 k6 k7 k8 k9 k10 k11 k12 k13 k14 : BitVec 128) (bs : List (BitVec 128)) :
    encrypt_par [k0, k1, k2, k3, k4, k5, k6, k7, k8, k9, k10, k11, k12, k13, k14] bs = bs.map (encrypt [k0, k1, k2, k3, k4, k5, k6, k7, k8, k9, k10, k11, k12, k13, k14]) := by
  simp only [encrypt_par, load, store, xor, aesenc, aesenclast, List.map_map, List.length_cons, List.length_nil,
    List.getD_cons_zero, List.getD_cons_succ, Nat.reduceAdd, Nat.reduceSub, Nat.reduceLeDiff, Nat.reduceEqDiff,
    ge_iff_le, ↓reduceIte]
  rfl

/-- `encrypt_par` = lane-wise `encrypt` whenever the key array has one of the three legal sizes -/
theorem encrypt_par_eq_map (keys bs : List (BitVec 128)) (h : keys.length = 11 ∨ keys.length = 13 ∨ keys.length = 15) :
    encrypt_par keys bs = bs.map (encrypt keys) := by
  rcases h with h | h | h
  · match keys, h with
    | [k0, k1, k2, k3, k4, k5, k6, k7, k8, k9, k10], _ => exact encrypt_par_eq11 ..
  · match keys, h with
    | [k0, k1, k2, k3, k4, k5, k6, k7, k8, k9, k10, k11, k12], _ => exact encrypt_par_eq13 ..
  · match keys, h with
    | [k0, k1, k2, k3, k4, k5, k6, k7, k8, k9, k10, k11, k12, k13, k14], _ => exact encrypt_par_eq15 ..

theorem decrypt_par_eq11 (k0 k1 k2 k3 k4 k5 k6 k7 k8 k9 k10 : BitVec 128) (bs : List (BitVec 128)) :
    decrypt_par [k0, k1, k2, k3, k4, k5, k6, k7, k8, k9, k10] bs = bs.map (decrypt [k0, k1, k2, k3, k4, k5, k6, k7, k8, k9, k10]) := by
  simp only [decrypt_par, load, store, xor, aesdec, aesdeclast, List.map_map, List.length_cons, List.length_nil,
    List.getD_cons_zero, List.getD_cons_succ, Nat.reduceAdd, Nat.reduceSub, Nat.reduceLeDiff, Nat.reduceEqDiff,
    ge_iff_le, ↓reduceIte]
  rfl

theorem decrypt_par_eq13 (k0 k1 k2 k3 k4 k5 k6 k7 k8 k9 k10 k11 k12 : BitVec 128) (bs : List (BitVec 128)) :
    decrypt_par [k0, k1, k2, k3, k4, k5, k6, k7, k8, k9, k10, k11, k12] bs = bs.map (decrypt [k0, k1, k2, k3, k4, k5, k6, k7, k8, k9, k10, k11, k12]) := by
  simp only [decrypt_par, load, store, xor, aesdec, aesdeclast, List.map_map, List.length_cons, List.length_nil,
    List.getD_cons_zero, List.getD_cons_succ, Nat.reduceAdd, Nat.reduceSub, Nat.reduceLeDiff, Nat.reduceEqDiff,
    ge_iff_le, ↓reduceIte]
  rfl

theorem decrypt_par_eq15 (k0 k1 k2 k3 k4 k5 k6 k7 k8 k9 k10 k11 k12 k13 k14 : BitVec 128) (bs : List (BitVec 128)) :
    decrypt_par [k0, k1, k2, k3, k4, k5, k6, k7, k8, k9, k10, k11, k12, k13, k14] bs = bs.map (decrypt [k0, k1, k2, k3, k4, k5, k6, k7, k8, k9, k10, k11, k12, k13, k14]) := by
  simp only [decrypt_par, load, store, xor, aesdec, aesdeclast, List.map_map, List.length_cons, List.length_nil,
    List.getD_cons_zero, List.getD_cons_succ, Nat.reduceAdd, Nat.reduceSub, Nat.reduceLeDiff, Nat.reduceEqDiff,
    ge_iff_le, ↓reduceIte]
  rfl

/-- `decrypt_par` = lane-wise `decrypt` whenever the key array has one of the three legal sizes -/
theorem decrypt_par_eq_map (keys bs : List (BitVec 128)) (h : keys.length = 11 ∨ keys.length = 13 ∨ keys.length = 15) :
    decrypt_par keys bs = bs.map (decrypt keys) := by
  rcases h with h | h | h
  · match keys, h with
    | [k0, k1, k2, k3, k4, k5, k6, k7, k8, k9, k10], _ => exact decrypt_par_eq11 ..
  · match keys, h with
    | [k0, k1, k2, k3, k4, k5, k6, k7, k8, k9, k10, k11, k12], _ => exact decrypt_par_eq13 ..
  · match keys, h with
    | [k0, k1, k2, k3, k4, k5, k6, k7, k8, k9, k10, k11, k12, k13, k14], _ => exact decrypt_par_eq15 ..

end BC.AesNi
