import BlockCiphers.Impl.AesFixslice64
import BlockCiphers.Proofs.AesFs64Finite
import Std.Tactic.BVDecide
/-! C01 (fixslice64): `inv_mix_columns_1` and `mix_columns_1` are mutually inverse (all 8×64 bits).
`inv ∘ mix = id` is a SAT-checked miter; `mix ∘ inv = id` follows because `St` is finite. -/
namespace BC.AesFs64

set_option maxRecDepth 1000000 in
theorem inv_mix_columns_1_mix_columns_1 (s : St) : inv_mix_columns_1 (mix_columns_1 s) = s := by
  cases s
  simp only [inv_mix_columns_1, mix_columns_1, inv_mix_columns_gen, mix_columns_gen, rotate_rows_and_columns_1_1, rotate_rows_and_columns_2_2,
    ror, ror_distance, St.mk.injEq]
  bv_decide (config := { timeout := 1800 })

theorem mix_columns_1_inv_mix_columns_1 (s : St) : mix_columns_1 (inv_mix_columns_1 s) = s :=
  St.right_inv_of_left_inv inv_mix_columns_1_mix_columns_1 s

end BC.AesFs64
