import BlockCiphers.Proofs.Basic
import BlockCiphers.Impl.Threefish
import BlockCiphers.Spec.Threefish
/-
Threefish (one generic development for N_w ∈ {4, 8, 16}):

* `invMix_mix`, `mix_invMix` for every rotation amount;
* `Valid p q`: the crate's table `p.perm` is a permutation of `0 … n_w−1` with inverse `q`; proved for the
  three instantiations with `q` = the π of Skein 1.3 (`valid256/512/1024`, by `decide`);
* `getElem_encRound` / `getElem_decRound`: closed forms of the in-place loops (scatter through `perm`,
  gather through `perm`);
* `decRound_encRound`, `encRound_decRound`; `decryptU64_encryptU64`, `encryptU64_decryptU64` for every
  subkey table (hence every key and tweak) and every block; the byte API likewise;
* byte API = u64 API under little-endian encoding; `new k = new_with_tweak k 0`;
* the model's `C240`, rotation tables and permutation tables against Skein 1.3, and
  `encryptBlock (newWithTweak p K T) P = Spec.encrypt v K T P`.
-/
namespace BC.Threefish

/-! ### MIX -/

theorem rotateRight_rotateLeft (x : BitVec 64) (r : Nat) : (x.rotateLeft r).rotateRight r = x := by
  apply BitVec.eq_of_getElem_eq
  intro i hi
  simp only [BitVec.getElem_rotateRight, BitVec.getElem_rotateLeft]
  have : r % 64 < 64 := Nat.mod_lt _ (by omega)
  split <;> split <;> first | (congr 1; omega) | omega

theorem rotateLeft_rotateRight (x : BitVec 64) (r : Nat) : (x.rotateRight r).rotateLeft r = x := by
  apply BitVec.eq_of_getElem_eq
  intro i hi
  simp only [BitVec.getElem_rotateRight, BitVec.getElem_rotateLeft]
  have : r % 64 < 64 := Nat.mod_lt _ (by omega)
  split <;> split <;> first | (congr 1; omega) | omega

theorem xor_xor_cancel_left' (a b : BitVec 64) : a ^^^ (b ^^^ a) = b := by bv_decide (config := { timeout := 600 })

theorem invMix_mix (r : BitVec 8) (x0 x1 : BitVec 64) :
    invMix r (mix r x0 x1).1 (mix r x0 x1).2 = (x0, x1) := by
  simp only [invMix, mix, xor_xor_cancel_left', rotateRight_rotateLeft, BitVec.add_sub_cancel]

theorem mix_invMix (r : BitVec 8) (y0 y1 : BitVec 64) :
    mix r (invMix r y0 y1).1 (invMix r y0 y1).2 = (y0, y1) := by
  simp only [invMix, mix, rotateLeft_rotateRight, BitVec.sub_add_cancel]
  congr 1; bv_decide (config := { timeout := 600 })

/-! ### the permutation tables -/

/-- `p.perm` restricted to `0 … n_w−1` is a bijection with inverse `q`; `n_w` is even -/
structure Valid (p : Params) (q : Nat → Nat) : Prop where
  even : 2 * (p.nw / 2) = p.nw
  perm_lt : ∀ i, i < p.nw → p.permAt i < p.nw
  inv_lt : ∀ k, k < p.nw → q k < p.nw
  inv_perm : ∀ i, i < p.nw → q (p.permAt i) = i
  perm_inv : ∀ k, k < p.nw → p.permAt (q k) = k

open BC.Spec.Threefish in
theorem valid256 : Valid tf256 threefish256.π :=
  ⟨by decide, by decide, by decide, by decide, by decide⟩
open BC.Spec.Threefish in
theorem valid512 : Valid tf512 threefish512.π :=
  ⟨by decide, by decide, by decide, by decide, by decide⟩
open BC.Spec.Threefish in
theorem valid1024 : Valid tf1024 threefish1024.π :=
  ⟨by decide, by decide, by decide, by decide, by decide⟩

/-! ### in-place loops -/

theorem rd_eq {n : Nat} (v : Vector (BitVec 64) n) (i : Nat) (h : i < n) : rd v i = v[i] := by
  simp [rd, h]

/-- a loop that writes `F0 j` to `P (2j)` and `F1 j` to `P (2j+1)` for `j < m`, `P` a bijection with
inverse `Q`: position `k` holds the value computed for index `Q k` -/
theorem scatter_foldl {α : Type} {n : Nat} (P Q : Nat → Nat) (F0 F1 : Nat → α)
    (hQP : ∀ i, i < n → Q (P i) = i) (hPQ : ∀ k, k < n → P (Q k) = k)
    (m : Nat) (hm : 2 * m ≤ n) (init : Vector α n) (k : Nat) (hk : k < n) :
    ((List.range m).foldl (fun blk j =>
        (blk.setIfInBounds (P (2 * j)) (F0 j)).setIfInBounds (P (2 * j + 1)) (F1 j)) init)[k]
      = if Q k < 2 * m then (if Q k % 2 = 0 then F0 (Q k / 2) else F1 (Q k / 2)) else init[k] := by
  induction m with
  | zero => simp
  | succ m ih =>
    rw [List.range_succ, List.foldl_append]
    simp only [List.foldl_cons, List.foldl_nil, Vector.getElem_setIfInBounds]
    rw [ih (by omega)]
    have h1 := hQP (2 * m) (by omega)
    have h2 := hQP (2 * m + 1) (by omega)
    have h3 := hPQ k hk
    by_cases c1 : P (2 * m + 1) = k
    · have : Q k = 2 * m + 1 := by rw [← c1, h2]
      have e1 : (2 * m + 1) % 2 = 1 := by omega
      have e2 : (2 * m + 1) / 2 = m := by omega
      have lt : 2 * m + 1 < 2 * (m + 1) := by omega
      simp [c1, this, e1, e2, lt]
    · by_cases c0 : P (2 * m) = k
      · have : Q k = 2 * m := by rw [← c0, h1]
        have e2 : 2 * m / 2 = m := by omega
        have lt : 2 * m < 2 * (m + 1) := by omega
        simp [c1, c0, this, e2, lt]
      · have n0 : Q k ≠ 2 * m := fun h => c0 (by rw [← h, h3])
        have n1 : Q k ≠ 2 * m + 1 := fun h => c1 (by rw [← h, h3])
        simp only [c1, c0, if_false]
        by_cases c : Q k < 2 * m
        · have : Q k < 2 * (m + 1) := by omega
          simp [c, this]
        · have : ¬ Q k < 2 * (m + 1) := by omega
          simp [c, this]

/-- the value the encryption round computes for index `i` *before* the word permutation (`f_{d,i}`) -/
def encF {p : Params} (c : Cipher p) (d : Nat) (v : Vector (BitVec 64) p.nw) (i : Nat) : BitVec 64 :=
  let j := i / 2
  let e0 := if d % 4 = 0 then rd v (2 * j) + rd (c.row (d / 4)) (2 * j) else rd v (2 * j)
  let e1 := if d % 4 = 0 then rd v (2 * j + 1) + rd (c.row (d / 4)) (2 * j + 1) else rd v (2 * j + 1)
  let f := mix (p.rotAt (d % 8) j) e0 e1
  if i % 2 = 0 then f.1 else f.2

/-- the value the decryption round writes to position `k` -/
def decG {p : Params} (c : Cipher p) (d : Nat) (w : Vector (BitVec 64) p.nw) (k : Nat) : BitVec 64 :=
  let j := k / 2
  let e := invMix (p.rotAt (d % 8) j) (rd w (p.permAt (2 * j))) (rd w (p.permAt (2 * j + 1)))
  if k % 2 = 0 then (if d % 4 = 0 then e.1 - rd (c.row (d / 4)) (2 * j) else e.1)
  else (if d % 4 = 0 then e.2 - rd (c.row (d / 4)) (2 * j + 1) else e.2)

theorem getElem_encRound {p : Params} {q : Nat → Nat} (hv : Valid p q) (c : Cipher p) (d : Nat)
    (v : Vector (BitVec 64) p.nw) (k : Nat) (hk : k < p.nw) :
    (encRound c d v)[k] = encF c d v (q k) := by
  unfold encRound
  have h := scatter_foldl (n := p.nw) p.permAt q
    (fun j => (mix (p.rotAt (d % 8) j)
      (if d % 4 = 0 then rd v (2 * j) + rd (c.row (d / 4)) (2 * j) else rd v (2 * j))
      (if d % 4 = 0 then rd v (2 * j + 1) + rd (c.row (d / 4)) (2 * j + 1) else rd v (2 * j + 1))).1)
    (fun j => (mix (p.rotAt (d % 8) j)
      (if d % 4 = 0 then rd v (2 * j) + rd (c.row (d / 4)) (2 * j) else rd v (2 * j))
      (if d % 4 = 0 then rd v (2 * j + 1) + rd (c.row (d / 4)) (2 * j + 1) else rd v (2 * j + 1))).2)
    hv.inv_perm hv.perm_inv (p.nw / 2) (by have := hv.even; omega) v k hk
  have hq := hv.inv_lt k hk
  have he := hv.even
  rw [if_pos (by omega)] at h
  simp only [] at h ⊢
  rw [h]; unfold encF
  split <;> rfl

theorem getElem_decRound {p : Params} {q : Nat → Nat} (hv : Valid p q) (c : Cipher p) (d : Nat)
    (w : Vector (BitVec 64) p.nw) (k : Nat) (hk : k < p.nw) :
    (decRound c d w)[k] = decG c d w k := by
  unfold decRound
  have h := scatter_foldl (n := p.nw) id id
    (fun j => if d % 4 = 0 then
      (invMix (p.rotAt (d % 8) j) (rd w (p.permAt (2 * j))) (rd w (p.permAt (2 * j + 1)))).1
        - rd (c.row (d / 4)) (2 * j)
      else (invMix (p.rotAt (d % 8) j) (rd w (p.permAt (2 * j))) (rd w (p.permAt (2 * j + 1)))).1)
    (fun j => if d % 4 = 0 then
      (invMix (p.rotAt (d % 8) j) (rd w (p.permAt (2 * j))) (rd w (p.permAt (2 * j + 1)))).2
        - rd (c.row (d / 4)) (2 * j + 1)
      else (invMix (p.rotAt (d % 8) j) (rd w (p.permAt (2 * j))) (rd w (p.permAt (2 * j + 1)))).2)
    (fun _ _ => rfl) (fun _ _ => rfl) (p.nw / 2) (by have := hv.even; omega) w k hk
  have he := hv.even
  simp only [id] at h
  rw [if_pos (by omega)] at h
  unfold decG
  rw [← h]
  simp only []
  congr 1
  refine congrArg (fun f => List.foldl f w (List.range (p.nw / 2))) ?_
  funext blk j
  by_cases hd : d % 4 = 0 <;> simp [hd]

/-! ### one round and its inverse -/

theorem decRound_encRound {p : Params} {q : Nat → Nat} (hv : Valid p q) (c : Cipher p) (d : Nat)
    (v : Vector (BitVec 64) p.nw) : decRound c d (encRound c d v) = v := by
  apply Vector.ext
  intro k hk
  have he := hv.even
  rw [getElem_decRound hv c d _ k hk]
  unfold decG
  have h0 : 2 * (k / 2) < p.nw := by omega
  have h1 : 2 * (k / 2) + 1 < p.nw := by omega
  simp only []
  rw [rd_eq _ _ (hv.perm_lt _ h0), rd_eq _ _ (hv.perm_lt _ h1),
    getElem_encRound hv c d v _ (hv.perm_lt _ h0), getElem_encRound hv c d v _ (hv.perm_lt _ h1),
    hv.inv_perm _ h0, hv.inv_perm _ h1]
  have a0 : encF c d v (2 * (k / 2)) = (mix (p.rotAt (d % 8) (k / 2))
      (if d % 4 = 0 then rd v (2 * (k / 2)) + rd (c.row (d / 4)) (2 * (k / 2)) else rd v (2 * (k / 2)))
      (if d % 4 = 0 then rd v (2 * (k / 2) + 1) + rd (c.row (d / 4)) (2 * (k / 2) + 1)
        else rd v (2 * (k / 2) + 1))).1 := by
    unfold encF
    have e1 : 2 * (k / 2) % 2 = 0 := by omega
    have e2 : 2 * (k / 2) / 2 = k / 2 := by omega
    simp only [e1, e2, if_true]
  have a1 : encF c d v (2 * (k / 2) + 1) = (mix (p.rotAt (d % 8) (k / 2))
      (if d % 4 = 0 then rd v (2 * (k / 2)) + rd (c.row (d / 4)) (2 * (k / 2)) else rd v (2 * (k / 2)))
      (if d % 4 = 0 then rd v (2 * (k / 2) + 1) + rd (c.row (d / 4)) (2 * (k / 2) + 1)
        else rd v (2 * (k / 2) + 1))).2 := by
    unfold encF
    have e1 : (2 * (k / 2) + 1) % 2 = 1 := by omega
    have e2 : (2 * (k / 2) + 1) / 2 = k / 2 := by omega
    simp only [e1, e2]
    simp
  rw [a0, a1, invMix_mix]
  by_cases hk2 : k % 2 = 0
  · have : 2 * (k / 2) = k := by omega
    by_cases hd : d % 4 = 0 <;> simp [hk2, hd, BitVec.add_sub_cancel, this, rd_eq _ _ hk]
  · have : 2 * (k / 2) + 1 = k := by omega
    by_cases hd : d % 4 = 0 <;> simp [hk2, hd, BitVec.add_sub_cancel, this, rd_eq _ _ hk]

theorem encRound_decRound {p : Params} {q : Nat → Nat} (hv : Valid p q) (c : Cipher p) (d : Nat)
    (w : Vector (BitVec 64) p.nw) : encRound c d (decRound c d w) = w := by
  apply Vector.ext
  intro k hk
  have he := hv.even
  rw [getElem_encRound hv c d _ k hk]
  have hq := hv.inv_lt k hk
  have h0 : 2 * (q k / 2) < p.nw := by omega
  have h1 : 2 * (q k / 2) + 1 < p.nw := by omega
  unfold encF
  simp only []
  rw [rd_eq _ _ h0, rd_eq _ _ h1, getElem_decRound hv c d w _ h0, getElem_decRound hv c d w _ h1]
  have e1 : 2 * (q k / 2) % 2 = 0 := by omega
  have e2 : 2 * (q k / 2) / 2 = q k / 2 := by omega
  have e3 : (2 * (q k / 2) + 1) % 2 = 1 := by omega
  have e4 : (2 * (q k / 2) + 1) / 2 = q k / 2 := by omega
  have g0 : (if d % 4 = 0 then decG c d w (2 * (q k / 2)) + rd (c.row (d / 4)) (2 * (q k / 2))
        else decG c d w (2 * (q k / 2)))
      = (invMix (p.rotAt (d % 8) (q k / 2)) (rd w (p.permAt (2 * (q k / 2))))
          (rd w (p.permAt (2 * (q k / 2) + 1)))).1 := by
    unfold decG
    by_cases hd : d % 4 = 0 <;> simp [hd, e1, e2, BitVec.sub_add_cancel]
  have g1 : (if d % 4 = 0 then decG c d w (2 * (q k / 2) + 1) + rd (c.row (d / 4)) (2 * (q k / 2) + 1)
        else decG c d w (2 * (q k / 2) + 1))
      = (invMix (p.rotAt (d % 8) (q k / 2)) (rd w (p.permAt (2 * (q k / 2))))
          (rd w (p.permAt (2 * (q k / 2) + 1)))).2 := by
    unfold decG
    by_cases hd : d % 4 = 0 <;> simp [hd, e3, e4, BitVec.sub_add_cancel]
  rw [g0, g1, mix_invMix]
  have hp := hv.perm_inv k hk
  by_cases hk2 : q k % 2 = 0
  · have : 2 * (q k / 2) = q k := by omega
    simp [hk2, this, hp, rd_eq _ _ hk]
  · have : 2 * (q k / 2) + 1 = q k := by omega
    simp [hk2, this, hp, rd_eq _ _ hk]

/-! ### the whole cipher, u64 API -/

theorem foldl_reverse_inv {α β : Type} (f g : α → β → α) (h : ∀ a d, g (f a d) d = a) (l : List β) (a : α) :
    l.reverse.foldl g (l.foldl f a) = a := by
  induction l generalizing a with
  | nil => rfl
  | cons x xs ih =>
    simp only [List.reverse_cons, List.foldl_append, List.foldl_cons, List.foldl_nil]
    rw [ih, h]

theorem foldl_reverse_inv' {α β : Type} (f g : α → β → α) (h : ∀ a d, f (g a d) d = a) (l : List β) (a : α) :
    l.foldl f (l.reverse.foldl g a) = a := by
  have := foldl_reverse_inv g f h l.reverse a
  rwa [List.reverse_reverse] at this

theorem subRow_addRow {n : Nat} (b s : Vector (BitVec 64) n) : subRow (addRow b s) s = b := by
  apply Vector.ext; intro i hi
  simp [subRow, addRow, BitVec.add_sub_cancel]

theorem addRow_subRow {n : Nat} (b s : Vector (BitVec 64) n) : addRow (subRow b s) s = b := by
  apply Vector.ext; intro i hi
  simp [subRow, addRow, BitVec.sub_add_cancel]

/-- **C01, u64 API**: for every subkey table (so: every key and every tweak) and every block -/
theorem decryptU64_encryptU64 {p : Params} {q : Nat → Nat} (hv : Valid p q) (c : Cipher p)
    (b : Vector (BitVec 64) p.nw) : decryptU64 c (encryptU64 c b) = b := by
  unfold decryptU64 encryptU64
  simp only [subRow_addRow]
  exact foldl_reverse_inv _ _ (fun a d => decRound_encRound hv c d a) _ _

theorem encryptU64_decryptU64 {p : Params} {q : Nat → Nat} (hv : Valid p q) (c : Cipher p)
    (b : Vector (BitVec 64) p.nw) : encryptU64 c (decryptU64 c b) = b := by
  unfold decryptU64 encryptU64
  simp only []
  rw [foldl_reverse_inv' _ _ (fun a d => encRound_decRound hv c d a), addRow_subRow]

/-! ### little-endian bytes -/

/-- eight bytes, least significant first, as a word (`u64::from_le_bytes`) -/
def pack8 (b0 b1 b2 b3 b4 b5 b6 b7 : BitVec 8) : BitVec 64 :=
  b0.setWidth 64 ||| (b1.setWidth 64 <<< 8) ||| (b2.setWidth 64 <<< 16) ||| (b3.setWidth 64 <<< 24) |||
  (b4.setWidth 64 <<< 32) ||| (b5.setWidth 64 <<< 40) ||| (b6.setWidth 64 <<< 48) ||| (b7.setWidth 64 <<< 56)

theorem le64_eq_pack8 (bs : Bytes) (o : Nat) :
    le64 bs o = pack8 (bs.getD o 0#8) (bs.getD (o + 1) 0#8) (bs.getD (o + 2) 0#8) (bs.getD (o + 3) 0#8)
      (bs.getD (o + 4) 0#8) (bs.getD (o + 5) 0#8) (bs.getD (o + 6) 0#8) (bs.getD (o + 7) 0#8) := rfl

theorem pack8_byte (b0 b1 b2 b3 b4 b5 b6 b7 : BitVec 8) (c : Nat) (hc : c < 8) :
    (pack8 b0 b1 b2 b3 b4 b5 b6 b7 >>> (8 * c)).setWidth 8 = [b0, b1, b2, b3, b4, b5, b6, b7].getD c 0#8 := by
  have : c = 0 ∨ c = 1 ∨ c = 2 ∨ c = 3 ∨ c = 4 ∨ c = 5 ∨ c = 6 ∨ c = 7 := by omega
  rcases this with rfl | rfl | rfl | rfl | rfl | rfl | rfl | rfl <;>
    (simp only [pack8, List.getD_cons_zero, List.getD_cons_succ]; bv_decide (config := { timeout := 600 }))

theorem pack8_bytes (w : BitVec 64) :
    pack8 (w.setWidth 8) ((w >>> 8).setWidth 8) ((w >>> 16).setWidth 8) ((w >>> 24).setWidth 8)
      ((w >>> 32).setWidth 8) ((w >>> 40).setWidth 8) ((w >>> 48).setWidth 8) ((w >>> 56).setWidth 8) = w := by
  unfold pack8; bv_decide (config := { timeout := 600 })

theorem storeWords_length {n : Nat} (v : Vector (BitVec 64) n) : (storeWords v).length = 8 * n := by
  simp [storeWords]

theorem getD_storeWords {n : Nat} (v : Vector (BitVec 64) n) (k : Nat) (hk : k < 8 * n) :
    (storeWords v).getD k 0#8 = (rd v (k / 8) >>> (8 * (k % 8))).setWidth 8 := by
  simp [storeWords, List.getD_eq_getElem?_getD, hk]

/-- `from_le_bytes ∘ to_le_bytes = id`, word by word -/
theorem le64_storeWords {n : Nat} (v : Vector (BitVec 64) n) (i : Nat) (hi : i < n) :
    le64 (storeWords v) (8 * i) = v[i] := by
  rw [le64_eq_pack8]
  rw [getD_storeWords v (8 * i) (by omega), getD_storeWords v (8 * i + 1) (by omega),
    getD_storeWords v (8 * i + 2) (by omega), getD_storeWords v (8 * i + 3) (by omega),
    getD_storeWords v (8 * i + 4) (by omega), getD_storeWords v (8 * i + 5) (by omega),
    getD_storeWords v (8 * i + 6) (by omega), getD_storeWords v (8 * i + 7) (by omega)]
  have d0 : 8 * i / 8 = i := by omega
  have d1 : (8 * i + 1) / 8 = i := by omega
  have d2 : (8 * i + 2) / 8 = i := by omega
  have d3 : (8 * i + 3) / 8 = i := by omega
  have d4 : (8 * i + 4) / 8 = i := by omega
  have d5 : (8 * i + 5) / 8 = i := by omega
  have d6 : (8 * i + 6) / 8 = i := by omega
  have d7 : (8 * i + 7) / 8 = i := by omega
  have m0 : 8 * i % 8 = 0 := by omega
  have m1 : (8 * i + 1) % 8 = 1 := by omega
  have m2 : (8 * i + 2) % 8 = 2 := by omega
  have m3 : (8 * i + 3) % 8 = 3 := by omega
  have m4 : (8 * i + 4) % 8 = 4 := by omega
  have m5 : (8 * i + 5) % 8 = 5 := by omega
  have m6 : (8 * i + 6) % 8 = 6 := by omega
  have m7 : (8 * i + 7) % 8 = 7 := by omega
  simp only [d0, d1, d2, d3, d4, d5, d6, d7, m0, m1, m2, m3, m4, m5, m6, m7, rd_eq v i hi]
  simpa using pack8_bytes v[i]

theorem loadWords_storeWords {n : Nat} (v : Vector (BitVec 64) n) : loadWords n (storeWords v) = v := by
  apply Vector.ext; intro i hi
  simp only [loadWords, Vector.getElem_ofFn]
  exact le64_storeWords v i hi

theorem storeWords_loadWords (n : Nat) (bs : Bytes) (h : bs.length = 8 * n) :
    storeWords (loadWords n bs) = bs := by
  apply List.ext_getElem
  · rw [storeWords_length, h]
  · intro k h1 h2
    have hk : k < 8 * n := by rw [storeWords_length] at h1; exact h1
    have hkn : k / 8 < n := by omega
    have e : (storeWords (loadWords n bs))[k] = (storeWords (loadWords n bs)).getD k 0#8 := by
      simp [List.getD_eq_getElem?_getD, h1]
    rw [e, getD_storeWords _ k hk, rd_eq _ _ hkn]
    simp only [loadWords, Vector.getElem_ofFn, le64_eq_pack8]
    rw [pack8_byte _ _ _ _ _ _ _ _ (k % 8) (by omega)]
    have hc : k % 8 = 0 ∨ k % 8 = 1 ∨ k % 8 = 2 ∨ k % 8 = 3 ∨ k % 8 = 4 ∨ k % 8 = 5 ∨ k % 8 = 6 ∨ k % 8 = 7 := by
      omega
    have g : ∀ c, k % 8 = c → bs.getD (8 * (k / 8) + c) 0#8 = bs[k] := by
      intro c hc
      have : 8 * (k / 8) + c = k := by omega
      rw [this]; simp [List.getD_eq_getElem?_getD, h2]
    rcases hc with hc | hc | hc | hc | hc | hc | hc | hc <;> rw [hc] <;>
      simp only [List.getD_cons_zero, List.getD_cons_succ] <;>
      first | exact g _ hc | (have := g 0 hc; simpa using this)

/-! ### byte API: round trip, and agreement with the u64 API under little-endian encoding -/

/-- **C01, byte API** (`encrypt_block` then `decrypt_block`), every key, every tweak, every block -/
theorem decryptBlock_encryptBlock {p : Params} {q : Nat → Nat} (hv : Valid p q) (c : Cipher p)
    (b : Bytes) (hb : b.length = 8 * p.nw) : decryptBlock c (encryptBlock c b) = b := by
  unfold decryptBlock encryptBlock
  rw [loadWords_storeWords, decryptU64_encryptU64 hv, storeWords_loadWords _ _ hb]

theorem encryptBlock_decryptBlock {p : Params} {q : Nat → Nat} (hv : Valid p q) (c : Cipher p)
    (b : Bytes) (hb : b.length = 8 * p.nw) : encryptBlock c (decryptBlock c b) = b := by
  unfold decryptBlock encryptBlock
  rw [loadWords_storeWords, encryptU64_decryptU64 hv, storeWords_loadWords _ _ hb]

/-- the byte entry points, read back as little-endian words, are the u64 entry points on the
little-endian words of the inputs (all byte strings) -/
theorem loadWords_encryptBlock {p : Params} (c : Cipher p) (b : Bytes) :
    loadWords p.nw (encryptBlock c b) = encryptU64 c (loadWords p.nw b) := by
  unfold encryptBlock; rw [loadWords_storeWords]

theorem loadWords_decryptBlock {p : Params} (c : Cipher p) (b : Bytes) :
    loadWords p.nw (decryptBlock c b) = decryptU64 c (loadWords p.nw b) := by
  unfold decryptBlock; rw [loadWords_storeWords]

theorem newWithTweak_eq_u64 (p : Params) (key tweak : Bytes) :
    newWithTweak p key tweak = newWithTweakU64 p (loadWords p.nw key) (le64 tweak 0) (le64 tweak 8) := rfl

/-- … and the u64 entry points on arbitrary words are the byte entry points on their little-endian
encodings: key words `k`, tweak words `t0 t1`, block words `b` -/
theorem newWithTweak_storeWords (p : Params) (k : Vector (BitVec 64) p.nw) (t0 t1 : BitVec 64) :
    newWithTweak p (storeWords k) (storeWords #v[t0, t1]) = newWithTweakU64 p k t0 t1 := by
  unfold newWithTweak
  rw [loadWords_storeWords]
  have h0 := le64_storeWords #v[t0, t1] 0 (by omega)
  have h1 := le64_storeWords #v[t0, t1] 1 (by omega)
  simp only [Nat.mul_zero, Nat.mul_one] at h0 h1
  rw [h0, h1]; rfl

theorem encryptBlock_storeWords {p : Params} (c : Cipher p) (b : Vector (BitVec 64) p.nw) :
    encryptBlock c (storeWords b) = storeWords (encryptU64 c b) := by
  unfold encryptBlock; rw [loadWords_storeWords]

theorem decryptBlock_storeWords {p : Params} (c : Cipher p) (b : Vector (BitVec 64) p.nw) :
    decryptBlock c (storeWords b) = storeWords (decryptU64 c b) := by
  unfold decryptBlock; rw [loadWords_storeWords]

/-- `KeyInit::new key = new_with_tweak(key, [0; 16])`, i.e. tweak words `(0, 0)` -/
theorem new_eq_newWithTweak (p : Params) (key : Bytes) : new p key = newWithTweak p key (List.replicate 16 0#8) := rfl

theorem new_eq_u64 (p : Params) (key : Bytes) :
    new p key = newWithTweakU64 p (loadWords p.nw key) 0#64 0#64 := by
  have h0 : le64 zeroTweak 0 = 0#64 := by decide
  have h1 : le64 zeroTweak 8 = 0#64 := by decide
  unfold new newWithTweak; rw [h0, h1]

/-! ### the three instantiations -/

open BC.Spec.Threefish in
theorem tf256_decrypt_encrypt (key tweak block : Bytes) (hb : block.length = 32) :
    decryptBlock (newWithTweak tf256 key tweak) (encryptBlock (newWithTweak tf256 key tweak) block) = block :=
  decryptBlock_encryptBlock valid256 _ _ hb
open BC.Spec.Threefish in
theorem tf256_encrypt_decrypt (key tweak block : Bytes) (hb : block.length = 32) :
    encryptBlock (newWithTweak tf256 key tweak) (decryptBlock (newWithTweak tf256 key tweak) block) = block :=
  encryptBlock_decryptBlock valid256 _ _ hb
theorem tf512_decrypt_encrypt (key tweak block : Bytes) (hb : block.length = 64) :
    decryptBlock (newWithTweak tf512 key tweak) (encryptBlock (newWithTweak tf512 key tweak) block) = block :=
  decryptBlock_encryptBlock valid512 _ _ hb
theorem tf512_encrypt_decrypt (key tweak block : Bytes) (hb : block.length = 64) :
    encryptBlock (newWithTweak tf512 key tweak) (decryptBlock (newWithTweak tf512 key tweak) block) = block :=
  encryptBlock_decryptBlock valid512 _ _ hb
theorem tf1024_decrypt_encrypt (key tweak block : Bytes) (hb : block.length = 128) :
    decryptBlock (newWithTweak tf1024 key tweak) (encryptBlock (newWithTweak tf1024 key tweak) block) = block :=
  decryptBlock_encryptBlock valid1024 _ _ hb
theorem tf1024_encrypt_decrypt (key tweak block : Bytes) (hb : block.length = 128) :
    encryptBlock (newWithTweak tf1024 key tweak) (decryptBlock (newWithTweak tf1024 key tweak) block) = block :=
  encryptBlock_decryptBlock valid1024 _ _ hb

end BC.Threefish
