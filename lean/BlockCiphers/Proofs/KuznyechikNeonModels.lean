import BlockCiphers.Models.KuznyechikNeon
import BlockCiphers.Proofs.Kuznyechik
/-
The registry entries `NeonKuznyechik`, `NeonKuznyechikEnc`, `NeonKuznyechikDec` (Models/KuznyechikNeon.lean — the models
that the executed NEON shadow of the harness is compared with, line by line) are tied to the theorems about the NEON
model:

* `new_eq`, `newEnc_eq`, `newDec_eq` (C03/C07): for EVERY byte string `k` the registered NEON model is *the same value*
  as the registered generic model of the same type (`Models/Kuznyechik.lean`, the compact_soft model, which
  `Thm/C07` proves equal to GOST R 34.12-2015) — same length contract, same encryption and decryption functions.
* `routeKeyed_fresh` (C12): each of the 14 conversion / clone routes reaches exactly the instance that a fresh
  construction of the route's target type gives.
* `blocks_eq_map` (C04): the `neonblocks` line (the model of the parallel path, ParBlocksSize 8) is the block-wise map.
-/
set_option linter.unusedSimpArgs false
namespace BC.Models.KuznyechikNeon
open BC BC.Kuznyechik

theorem lift_enc (key : BitVec 256) :
    liftBlock 16 (Neon.encrypt_block (Neon.expand_enc_keys key)) = liftBlock 16 (Compact.encrypt_block (Compact.expand key)) := by
  funext b; simp only [liftBlock, Neon.encrypt_eq_compact]

theorem lift_dec (key : BitVec 256) :
    liftBlock 16 (Neon.decrypt_block (Neon.inv_enc_keys (Neon.expand_enc_keys key))) =
      liftBlock 16 (Compact.decrypt_block (Compact.expand key)) := by
  funext b; simp only [liftBlock, Neon.decrypt_eq_compact]

/-- `NeonKuznyechik` = `Kuznyechik` of the registry, as values, for every key string -/
theorem new_eq (k : Bytes) : kuznyechik.new k = Models.Kuznyechik.kuznyechik.new k := by
  simp only [kuznyechik, mk, newEnc, Models.Kuznyechik.kuznyechik, Models.Kuznyechik.mk]
  by_cases h : accepts k.length = true
  · simp only [h, if_true, Option.map_some, keyedC, Neon.EncDecKeys.fromEnc, Neon.EncKeys.new, Neon.DecKeys.fromEnc,
      Compact.EncDecKeys.fromEnc, Compact.DecKeys.fromEnc, Compact.EncKeys.new, lift_enc, lift_dec]
  · simp only [h, Option.map_none]; rfl

theorem newEnc_eq (k : Bytes) : kuznyechikEnc.new k = Models.Kuznyechik.kuznyechikEnc.new k := by
  simp only [kuznyechikEnc, mk, newEnc, Models.Kuznyechik.kuznyechikEnc, Models.Kuznyechik.mk]
  by_cases h : accepts k.length = true
  · simp only [h, if_true, Option.map_some, keyedE, Neon.EncDecKeys.fromEnc, Neon.EncKeys.new, Neon.DecKeys.fromEnc,
      Compact.EncDecKeys.fromEnc, Compact.DecKeys.fromEnc, Compact.EncKeys.new, lift_enc, lift_dec]
    rfl
  · simp only [h, Option.map_none]; rfl

theorem newDec_eq (k : Bytes) : kuznyechikDec.new k = Models.Kuznyechik.kuznyechikDec.new k := by
  simp only [kuznyechikDec, mk, newEnc, Models.Kuznyechik.kuznyechikDec, Models.Kuznyechik.mk]
  by_cases h : accepts k.length = true
  · simp only [h, if_true, Option.map_some, keyedD, Neon.EncDecKeys.fromEnc, Neon.EncKeys.new, Neon.DecKeys.fromEnc,
      Compact.EncDecKeys.fromEnc, Compact.DecKeys.fromEnc, Compact.EncKeys.new, lift_enc, lift_dec]
    rfl
  · simp only [h, Option.map_none]; rfl

/-- C12 for the NEON key types: every route of the `route` line reaches the freshly keyed cipher of its target type —
`c.*` → `Kuznyechik::new`, `e.*` → `KuznyechikEnc::new`, `d.*` → `KuznyechikDec::new` (all defined through
`EncKeys::new` in lib.rs; `Clone` is the identity on the model values) -/
theorem routeKeyed_fresh (e : EncKeys) :
    (∀ r ∈ ["c.new", "c.from_e", "c.from_eref", "c.clone", "c.clone_from_e", "c.from_eclone"],
      routeKeyed r e = some (keyedC (Neon.EncDecKeys.fromEnc e))) ∧
    (∀ r ∈ ["e.new", "e.clone"], routeKeyed r e = some (keyedE e)) ∧
    (∀ r ∈ ["d.new", "d.from_e", "d.from_eref", "d.clone", "d.clone_from_e", "d.from_eclone"],
      routeKeyed r e = some (keyedD (Neon.DecKeys.fromEnc e))) := by
  refine ⟨?_, ?_, ?_⟩ <;> intro r h <;>
    simp only [List.mem_cons, List.not_mem_nil, or_false] at h
  · rcases h with h | h | h | h | h | h <;> subst h <;> simp [routeKeyed, cloneE, cloneC]
  · rcases h with h | h <;> subst h <;> simp [routeKeyed, cloneE]
  · rcases h with h | h | h | h | h | h <;> subst h <;> simp [routeKeyed, cloneE, cloneD]

/-- the three lists above are all the routes of the line protocol -/
theorem routes_complete : ∀ r ∈ Models.Aes.routeNames,
    r ∈ ["c.new", "c.from_e", "c.from_eref", "c.clone", "c.clone_from_e", "c.from_eclone"] ++ ["e.new", "e.clone"] ++
      ["d.new", "d.from_e", "d.from_eref", "d.clone", "d.clone_from_e", "d.from_eclone"] := by
  decide

/-- C04 for the `neonblocks` line: the block loop over the parallel functions is the block-wise map -/
theorem blocks_eq_map (k : RoundKeys) (bs : List (BitVec 128)) :
    procBlocks Neon.parEnc (Neon.encrypt_par_blocks k) (Neon.encrypt_block k) bs = bs.map (Neon.encrypt_block k) ∧
    procBlocks Neon.parDec (Neon.decrypt_par_blocks k) (Neon.decrypt_block k) bs = bs.map (Neon.decrypt_block k) :=
  Neon.blocks_eq_map k bs

/-- TBL is TBX into a zero destination (Arm ARM: the two differ only in the initial value of `result`) -/
theorem tbl_eq_tbx_zero (t : Neon.U8x16x4) (idx : BitVec 128) : Neon.vqtbl4q_u8 t idx = tbx4 0#128 t idx := by
  simp only [Neon.vqtbl4q_u8, tbx4]
  have h0 : ∀ n, leByte 0#128 n = 0#8 := by
    intro n; simp [leByte]
  simp only [h0]

end BC.Models.KuznyechikNeon
