import BlockCiphers.Gen.Cipher_Threefish
import BlockCiphers.Impl.Threefish
import Lean.Elab.Tactic
/-
Tie of the regenerated `encrypt_block_u64` / `decrypt_block_u64` of Threefish-256/512/1024 (`Gen/Cipher_Threefish.lean`,
translated from /repo/threefish/src/lib.rs) to the hand-written generic model `BlockCiphers.Impl.Threefish`
(`encryptU64` / `decryptU64` at the parameter rows `tf256`, `tf512`, `tf1024`).  For ALL subkey tables
`sk<s>_<i>` (row `s`, word `i`: arbitrary words, not only key-schedule outputs) and ALL blocks `b0 … b(N-1)`:

    Gen.Fn.threefish256_encrypt_block_u64 sk0_0 … sk18_3 b0 b1 b2 b3
      = tup4 (Threefish.encryptU64 (p := tf256) ⟨#v[#v[sk0_0, …], …, #v[sk18_0, …]]⟩ #v[b0, b1, b2, b3])

(`tupN v = (v[0], …, v[N-1])`; the `&mut [u64; N]` block is returned by the generated function as an `N`-tuple), and
the same statement as a vector equality (`…_vec`).

Proof.  ARX, so no SAT: both sides are *definitionally* equal — the model's `List.foldl` over `List.range rounds`,
the in-place `setIfInBounds` scatter/gather through `perm`, `rotAt`, `if d % 4 = 0`, `row` all evaluate, and what remains
is the same expression DAG as the unrolled generated text.  Only `Vector.zipWith` (`addRow`/`subRow`) does not reduce; it
is rewritten first (`addRowN`, `subRowN`).  The definitional equality is checked by the KERNEL (`tf_kernel_rfl` assigns
`Eq.refl lhs` to the goal; the kernel type-checks it when the theorem is added): the elaborator's `rfl` does not
cache `whnf` of terms with free variables and is exponential on these 72/80-round expression DAGs, the kernel is linear
(about 2 s / 6 s / 18 s for 256 / 512 / 1024).  The theorems depend on `propext` and `Quot.sound` only.
If the Rust changes semantically the kernel check does not succeed (it may run until the time limit instead of
failing quickly: a failing definitional-equality search on these terms is exponential).
-/
set_option maxRecDepth 100000
namespace BC.GenCipher.Threefish
open BC BC.Threefish BC.Gen.Fn

open Lean Elab Tactic Meta in
/-- closes a goal `a = b` with the proof term `Eq.refl a`; the definitional-equality check `a ≡ b` is left to the
kernel (it happens when the enclosing theorem is added to the environment; nothing is trusted) -/
elab "tf_kernel_rfl" : tactic => do
  let g ← getMainGoal
  let t ← instantiateMVars (← g.getType)
  let some (_, lhs, _) := t.eq? | throwError "tf_kernel_rfl: the goal is not an equality"
  g.assign (← mkEqRefl lhs)

/-! ### 4 words -/

/-- the `4`-tuple returned by a generated function as a word vector -/
def vec4 (t : BitVec 64 × BitVec 64 × BitVec 64 × BitVec 64) : Vector (BitVec 64) 4 :=
  #v[t.1, t.2.1, t.2.2.1, t.2.2.2]
/-- a word vector as the `4`-tuple of the generated functions -/
def tup4 (v : Vector (BitVec 64) 4) : BitVec 64 × BitVec 64 × BitVec 64 × BitVec 64 :=
  (v[0], v[1], v[2], v[3])
theorem tup4_vec4 (t : BitVec 64 × BitVec 64 × BitVec 64 × BitVec 64) : tup4 (vec4 t) = t := rfl

theorem addRow4 (b s : Vector (BitVec 64) 4) :
    addRow b s = #v[b[0] + s[0], b[1] + s[1], b[2] + s[2], b[3] + s[3]] := by
  apply Vector.ext; intro i hi
  simp only [addRow, Vector.getElem_zipWith]
  match i, hi with
  | 0, _ => rfl
  | 1, _ => rfl
  | 2, _ => rfl
  | 3, _ => rfl
  | n + 4, h => omega
theorem subRow4 (b s : Vector (BitVec 64) 4) :
    subRow b s = #v[b[0] - s[0], b[1] - s[1], b[2] - s[2], b[3] - s[3]] := by
  apply Vector.ext; intro i hi
  simp only [subRow, Vector.getElem_zipWith]
  match i, hi with
  | 0, _ => rfl
  | 1, _ => rfl
  | 2, _ => rfl
  | 3, _ => rfl
  | n + 4, h => omega

/-! ### 8 words -/

/-- the `8`-tuple returned by a generated function as a word vector -/
def vec8 (t : BitVec 64 × BitVec 64 × BitVec 64 × BitVec 64 × BitVec 64 × BitVec 64 × BitVec 64 × BitVec 64) : Vector (BitVec 64) 8 :=
  #v[t.1, t.2.1, t.2.2.1, t.2.2.2.1, t.2.2.2.2.1, t.2.2.2.2.2.1, t.2.2.2.2.2.2.1, t.2.2.2.2.2.2.2]
/-- a word vector as the `8`-tuple of the generated functions -/
def tup8 (v : Vector (BitVec 64) 8) : BitVec 64 × BitVec 64 × BitVec 64 × BitVec 64 × BitVec 64 × BitVec 64 × BitVec 64 × BitVec 64 :=
  (v[0], v[1], v[2], v[3], v[4], v[5], v[6], v[7])
theorem tup8_vec8 (t : BitVec 64 × BitVec 64 × BitVec 64 × BitVec 64 × BitVec 64 × BitVec 64 × BitVec 64 × BitVec 64) : tup8 (vec8 t) = t := rfl

theorem addRow8 (b s : Vector (BitVec 64) 8) :
    addRow b s = #v[b[0] + s[0], b[1] + s[1], b[2] + s[2], b[3] + s[3], b[4] + s[4], b[5] + s[5], b[6] + s[6], b[7] + s[7]] := by
  apply Vector.ext; intro i hi
  simp only [addRow, Vector.getElem_zipWith]
  match i, hi with
  | 0, _ => rfl
  | 1, _ => rfl
  | 2, _ => rfl
  | 3, _ => rfl
  | 4, _ => rfl
  | 5, _ => rfl
  | 6, _ => rfl
  | 7, _ => rfl
  | n + 8, h => omega
theorem subRow8 (b s : Vector (BitVec 64) 8) :
    subRow b s = #v[b[0] - s[0], b[1] - s[1], b[2] - s[2], b[3] - s[3], b[4] - s[4], b[5] - s[5], b[6] - s[6], b[7] - s[7]] := by
  apply Vector.ext; intro i hi
  simp only [subRow, Vector.getElem_zipWith]
  match i, hi with
  | 0, _ => rfl
  | 1, _ => rfl
  | 2, _ => rfl
  | 3, _ => rfl
  | 4, _ => rfl
  | 5, _ => rfl
  | 6, _ => rfl
  | 7, _ => rfl
  | n + 8, h => omega

/-! ### 16 words -/

/-- the `16`-tuple returned by a generated function as a word vector -/
def vec16 (t : BitVec 64 × BitVec 64 × BitVec 64 × BitVec 64 × BitVec 64 × BitVec 64 × BitVec 64 × BitVec 64 × BitVec 64 × BitVec 64 × BitVec 64 × BitVec 64 × BitVec 64 × BitVec 64 × BitVec 64 × BitVec 64) : Vector (BitVec 64) 16 :=
  #v[t.1, t.2.1, t.2.2.1, t.2.2.2.1, t.2.2.2.2.1, t.2.2.2.2.2.1, t.2.2.2.2.2.2.1, t.2.2.2.2.2.2.2.1, t.2.2.2.2.2.2.2.2.1, t.2.2.2.2.2.2.2.2.2.1, t.2.2.2.2.2.2.2.2.2.2.1, t.2.2.2.2.2.2.2.2.2.2.2.1, t.2.2.2.2.2.2.2.2.2.2.2.2.1, t.2.2.2.2.2.2.2.2.2.2.2.2.2.1, t.2.2.2.2.2.2.2.2.2.2.2.2.2.2.1, t.2.2.2.2.2.2.2.2.2.2.2.2.2.2.2]
/-- a word vector as the `16`-tuple of the generated functions -/
def tup16 (v : Vector (BitVec 64) 16) : BitVec 64 × BitVec 64 × BitVec 64 × BitVec 64 × BitVec 64 × BitVec 64 × BitVec 64 × BitVec 64 × BitVec 64 × BitVec 64 × BitVec 64 × BitVec 64 × BitVec 64 × BitVec 64 × BitVec 64 × BitVec 64 :=
  (v[0], v[1], v[2], v[3], v[4], v[5], v[6], v[7], v[8], v[9], v[10], v[11], v[12], v[13], v[14], v[15])
theorem tup16_vec16 (t : BitVec 64 × BitVec 64 × BitVec 64 × BitVec 64 × BitVec 64 × BitVec 64 × BitVec 64 × BitVec 64 × BitVec 64 × BitVec 64 × BitVec 64 × BitVec 64 × BitVec 64 × BitVec 64 × BitVec 64 × BitVec 64) : tup16 (vec16 t) = t := rfl

theorem addRow16 (b s : Vector (BitVec 64) 16) :
    addRow b s = #v[b[0] + s[0], b[1] + s[1], b[2] + s[2], b[3] + s[3], b[4] + s[4], b[5] + s[5], b[6] + s[6], b[7] + s[7], b[8] + s[8], b[9] + s[9], b[10] + s[10], b[11] + s[11], b[12] + s[12], b[13] + s[13], b[14] + s[14], b[15] + s[15]] := by
  apply Vector.ext; intro i hi
  simp only [addRow, Vector.getElem_zipWith]
  match i, hi with
  | 0, _ => rfl
  | 1, _ => rfl
  | 2, _ => rfl
  | 3, _ => rfl
  | 4, _ => rfl
  | 5, _ => rfl
  | 6, _ => rfl
  | 7, _ => rfl
  | 8, _ => rfl
  | 9, _ => rfl
  | 10, _ => rfl
  | 11, _ => rfl
  | 12, _ => rfl
  | 13, _ => rfl
  | 14, _ => rfl
  | 15, _ => rfl
  | n + 16, h => omega
theorem subRow16 (b s : Vector (BitVec 64) 16) :
    subRow b s = #v[b[0] - s[0], b[1] - s[1], b[2] - s[2], b[3] - s[3], b[4] - s[4], b[5] - s[5], b[6] - s[6], b[7] - s[7], b[8] - s[8], b[9] - s[9], b[10] - s[10], b[11] - s[11], b[12] - s[12], b[13] - s[13], b[14] - s[14], b[15] - s[15]] := by
  apply Vector.ext; intro i hi
  simp only [subRow, Vector.getElem_zipWith]
  match i, hi with
  | 0, _ => rfl
  | 1, _ => rfl
  | 2, _ => rfl
  | 3, _ => rfl
  | 4, _ => rfl
  | 5, _ => rfl
  | 6, _ => rfl
  | 7, _ => rfl
  | 8, _ => rfl
  | 9, _ => rfl
  | 10, _ => rfl
  | 11, _ => rfl
  | 12, _ => rfl
  | 13, _ => rfl
  | 14, _ => rfl
  | 15, _ => rfl
  | n + 16, h => omega

/-! ### threefish256: 4 words, 72 rounds, 19 subkeys -/

/-- `Threefish256::encrypt_block_u64` as regenerated from the Rust source IS the model's `encryptU64` -/
theorem threefish256_encrypt_block_u64_vec (sk0_0 sk0_1 sk0_2 sk0_3 sk1_0 sk1_1 sk1_2 sk1_3 sk2_0 sk2_1 sk2_2 sk2_3 sk3_0 sk3_1 sk3_2 sk3_3 sk4_0 sk4_1 sk4_2 sk4_3 sk5_0 sk5_1 sk5_2 sk5_3 sk6_0 sk6_1 sk6_2 sk6_3 sk7_0 sk7_1 sk7_2 sk7_3 sk8_0 sk8_1 sk8_2 sk8_3 sk9_0 sk9_1 sk9_2 sk9_3 sk10_0 sk10_1 sk10_2 sk10_3 sk11_0 sk11_1 sk11_2 sk11_3 sk12_0 sk12_1 sk12_2 sk12_3 sk13_0 sk13_1 sk13_2 sk13_3 sk14_0 sk14_1 sk14_2 sk14_3 sk15_0 sk15_1 sk15_2 sk15_3 sk16_0 sk16_1 sk16_2 sk16_3 sk17_0 sk17_1 sk17_2 sk17_3 sk18_0 sk18_1 sk18_2 sk18_3 b0 b1 b2 b3 : BitVec 64) :
    encryptU64 (p := tf256) ⟨#v[#v[sk0_0, sk0_1, sk0_2, sk0_3],
        #v[sk1_0, sk1_1, sk1_2, sk1_3],
        #v[sk2_0, sk2_1, sk2_2, sk2_3],
        #v[sk3_0, sk3_1, sk3_2, sk3_3],
        #v[sk4_0, sk4_1, sk4_2, sk4_3],
        #v[sk5_0, sk5_1, sk5_2, sk5_3],
        #v[sk6_0, sk6_1, sk6_2, sk6_3],
        #v[sk7_0, sk7_1, sk7_2, sk7_3],
        #v[sk8_0, sk8_1, sk8_2, sk8_3],
        #v[sk9_0, sk9_1, sk9_2, sk9_3],
        #v[sk10_0, sk10_1, sk10_2, sk10_3],
        #v[sk11_0, sk11_1, sk11_2, sk11_3],
        #v[sk12_0, sk12_1, sk12_2, sk12_3],
        #v[sk13_0, sk13_1, sk13_2, sk13_3],
        #v[sk14_0, sk14_1, sk14_2, sk14_3],
        #v[sk15_0, sk15_1, sk15_2, sk15_3],
        #v[sk16_0, sk16_1, sk16_2, sk16_3],
        #v[sk17_0, sk17_1, sk17_2, sk17_3],
        #v[sk18_0, sk18_1, sk18_2, sk18_3]]⟩ #v[b0, b1, b2, b3] =
      vec4 (threefish256_encrypt_block_u64 sk0_0 sk0_1 sk0_2 sk0_3 sk1_0 sk1_1 sk1_2 sk1_3 sk2_0 sk2_1 sk2_2 sk2_3 sk3_0 sk3_1 sk3_2 sk3_3 sk4_0 sk4_1 sk4_2 sk4_3 sk5_0 sk5_1 sk5_2 sk5_3 sk6_0 sk6_1 sk6_2 sk6_3 sk7_0 sk7_1 sk7_2 sk7_3 sk8_0 sk8_1 sk8_2 sk8_3 sk9_0 sk9_1 sk9_2 sk9_3 sk10_0 sk10_1 sk10_2 sk10_3 sk11_0 sk11_1 sk11_2 sk11_3 sk12_0 sk12_1 sk12_2 sk12_3 sk13_0 sk13_1 sk13_2 sk13_3 sk14_0 sk14_1 sk14_2 sk14_3 sk15_0 sk15_1 sk15_2 sk15_3 sk16_0 sk16_1 sk16_2 sk16_3 sk17_0 sk17_1 sk17_2 sk17_3 sk18_0 sk18_1 sk18_2 sk18_3 b0 b1 b2 b3) := by
  refine (addRow4 _ _).trans ?_
  tf_kernel_rfl

theorem threefish256_encrypt_block_u64_eq (sk0_0 sk0_1 sk0_2 sk0_3 sk1_0 sk1_1 sk1_2 sk1_3 sk2_0 sk2_1 sk2_2 sk2_3 sk3_0 sk3_1 sk3_2 sk3_3 sk4_0 sk4_1 sk4_2 sk4_3 sk5_0 sk5_1 sk5_2 sk5_3 sk6_0 sk6_1 sk6_2 sk6_3 sk7_0 sk7_1 sk7_2 sk7_3 sk8_0 sk8_1 sk8_2 sk8_3 sk9_0 sk9_1 sk9_2 sk9_3 sk10_0 sk10_1 sk10_2 sk10_3 sk11_0 sk11_1 sk11_2 sk11_3 sk12_0 sk12_1 sk12_2 sk12_3 sk13_0 sk13_1 sk13_2 sk13_3 sk14_0 sk14_1 sk14_2 sk14_3 sk15_0 sk15_1 sk15_2 sk15_3 sk16_0 sk16_1 sk16_2 sk16_3 sk17_0 sk17_1 sk17_2 sk17_3 sk18_0 sk18_1 sk18_2 sk18_3 b0 b1 b2 b3 : BitVec 64) :
    threefish256_encrypt_block_u64 sk0_0 sk0_1 sk0_2 sk0_3 sk1_0 sk1_1 sk1_2 sk1_3 sk2_0 sk2_1 sk2_2 sk2_3 sk3_0 sk3_1 sk3_2 sk3_3 sk4_0 sk4_1 sk4_2 sk4_3 sk5_0 sk5_1 sk5_2 sk5_3 sk6_0 sk6_1 sk6_2 sk6_3 sk7_0 sk7_1 sk7_2 sk7_3 sk8_0 sk8_1 sk8_2 sk8_3 sk9_0 sk9_1 sk9_2 sk9_3 sk10_0 sk10_1 sk10_2 sk10_3 sk11_0 sk11_1 sk11_2 sk11_3 sk12_0 sk12_1 sk12_2 sk12_3 sk13_0 sk13_1 sk13_2 sk13_3 sk14_0 sk14_1 sk14_2 sk14_3 sk15_0 sk15_1 sk15_2 sk15_3 sk16_0 sk16_1 sk16_2 sk16_3 sk17_0 sk17_1 sk17_2 sk17_3 sk18_0 sk18_1 sk18_2 sk18_3 b0 b1 b2 b3 =
      tup4 (encryptU64 (p := tf256) ⟨#v[#v[sk0_0, sk0_1, sk0_2, sk0_3],
        #v[sk1_0, sk1_1, sk1_2, sk1_3],
        #v[sk2_0, sk2_1, sk2_2, sk2_3],
        #v[sk3_0, sk3_1, sk3_2, sk3_3],
        #v[sk4_0, sk4_1, sk4_2, sk4_3],
        #v[sk5_0, sk5_1, sk5_2, sk5_3],
        #v[sk6_0, sk6_1, sk6_2, sk6_3],
        #v[sk7_0, sk7_1, sk7_2, sk7_3],
        #v[sk8_0, sk8_1, sk8_2, sk8_3],
        #v[sk9_0, sk9_1, sk9_2, sk9_3],
        #v[sk10_0, sk10_1, sk10_2, sk10_3],
        #v[sk11_0, sk11_1, sk11_2, sk11_3],
        #v[sk12_0, sk12_1, sk12_2, sk12_3],
        #v[sk13_0, sk13_1, sk13_2, sk13_3],
        #v[sk14_0, sk14_1, sk14_2, sk14_3],
        #v[sk15_0, sk15_1, sk15_2, sk15_3],
        #v[sk16_0, sk16_1, sk16_2, sk16_3],
        #v[sk17_0, sk17_1, sk17_2, sk17_3],
        #v[sk18_0, sk18_1, sk18_2, sk18_3]]⟩ #v[b0, b1, b2, b3]) := by
  rw [threefish256_encrypt_block_u64_vec, tup4_vec4]

/-- `Threefish256::decrypt_block_u64` as regenerated from the Rust source IS the model's `decryptU64` -/
theorem threefish256_decrypt_block_u64_vec (sk0_0 sk0_1 sk0_2 sk0_3 sk1_0 sk1_1 sk1_2 sk1_3 sk2_0 sk2_1 sk2_2 sk2_3 sk3_0 sk3_1 sk3_2 sk3_3 sk4_0 sk4_1 sk4_2 sk4_3 sk5_0 sk5_1 sk5_2 sk5_3 sk6_0 sk6_1 sk6_2 sk6_3 sk7_0 sk7_1 sk7_2 sk7_3 sk8_0 sk8_1 sk8_2 sk8_3 sk9_0 sk9_1 sk9_2 sk9_3 sk10_0 sk10_1 sk10_2 sk10_3 sk11_0 sk11_1 sk11_2 sk11_3 sk12_0 sk12_1 sk12_2 sk12_3 sk13_0 sk13_1 sk13_2 sk13_3 sk14_0 sk14_1 sk14_2 sk14_3 sk15_0 sk15_1 sk15_2 sk15_3 sk16_0 sk16_1 sk16_2 sk16_3 sk17_0 sk17_1 sk17_2 sk17_3 sk18_0 sk18_1 sk18_2 sk18_3 b0 b1 b2 b3 : BitVec 64) :
    decryptU64 (p := tf256) ⟨#v[#v[sk0_0, sk0_1, sk0_2, sk0_3],
        #v[sk1_0, sk1_1, sk1_2, sk1_3],
        #v[sk2_0, sk2_1, sk2_2, sk2_3],
        #v[sk3_0, sk3_1, sk3_2, sk3_3],
        #v[sk4_0, sk4_1, sk4_2, sk4_3],
        #v[sk5_0, sk5_1, sk5_2, sk5_3],
        #v[sk6_0, sk6_1, sk6_2, sk6_3],
        #v[sk7_0, sk7_1, sk7_2, sk7_3],
        #v[sk8_0, sk8_1, sk8_2, sk8_3],
        #v[sk9_0, sk9_1, sk9_2, sk9_3],
        #v[sk10_0, sk10_1, sk10_2, sk10_3],
        #v[sk11_0, sk11_1, sk11_2, sk11_3],
        #v[sk12_0, sk12_1, sk12_2, sk12_3],
        #v[sk13_0, sk13_1, sk13_2, sk13_3],
        #v[sk14_0, sk14_1, sk14_2, sk14_3],
        #v[sk15_0, sk15_1, sk15_2, sk15_3],
        #v[sk16_0, sk16_1, sk16_2, sk16_3],
        #v[sk17_0, sk17_1, sk17_2, sk17_3],
        #v[sk18_0, sk18_1, sk18_2, sk18_3]]⟩ #v[b0, b1, b2, b3] =
      vec4 (threefish256_decrypt_block_u64 sk0_0 sk0_1 sk0_2 sk0_3 sk1_0 sk1_1 sk1_2 sk1_3 sk2_0 sk2_1 sk2_2 sk2_3 sk3_0 sk3_1 sk3_2 sk3_3 sk4_0 sk4_1 sk4_2 sk4_3 sk5_0 sk5_1 sk5_2 sk5_3 sk6_0 sk6_1 sk6_2 sk6_3 sk7_0 sk7_1 sk7_2 sk7_3 sk8_0 sk8_1 sk8_2 sk8_3 sk9_0 sk9_1 sk9_2 sk9_3 sk10_0 sk10_1 sk10_2 sk10_3 sk11_0 sk11_1 sk11_2 sk11_3 sk12_0 sk12_1 sk12_2 sk12_3 sk13_0 sk13_1 sk13_2 sk13_3 sk14_0 sk14_1 sk14_2 sk14_3 sk15_0 sk15_1 sk15_2 sk15_3 sk16_0 sk16_1 sk16_2 sk16_3 sk17_0 sk17_1 sk17_2 sk17_3 sk18_0 sk18_1 sk18_2 sk18_3 b0 b1 b2 b3) := by
  refine (congrArg (List.foldl _ · _) (subRow4 _ _)).trans ?_
  tf_kernel_rfl

theorem threefish256_decrypt_block_u64_eq (sk0_0 sk0_1 sk0_2 sk0_3 sk1_0 sk1_1 sk1_2 sk1_3 sk2_0 sk2_1 sk2_2 sk2_3 sk3_0 sk3_1 sk3_2 sk3_3 sk4_0 sk4_1 sk4_2 sk4_3 sk5_0 sk5_1 sk5_2 sk5_3 sk6_0 sk6_1 sk6_2 sk6_3 sk7_0 sk7_1 sk7_2 sk7_3 sk8_0 sk8_1 sk8_2 sk8_3 sk9_0 sk9_1 sk9_2 sk9_3 sk10_0 sk10_1 sk10_2 sk10_3 sk11_0 sk11_1 sk11_2 sk11_3 sk12_0 sk12_1 sk12_2 sk12_3 sk13_0 sk13_1 sk13_2 sk13_3 sk14_0 sk14_1 sk14_2 sk14_3 sk15_0 sk15_1 sk15_2 sk15_3 sk16_0 sk16_1 sk16_2 sk16_3 sk17_0 sk17_1 sk17_2 sk17_3 sk18_0 sk18_1 sk18_2 sk18_3 b0 b1 b2 b3 : BitVec 64) :
    threefish256_decrypt_block_u64 sk0_0 sk0_1 sk0_2 sk0_3 sk1_0 sk1_1 sk1_2 sk1_3 sk2_0 sk2_1 sk2_2 sk2_3 sk3_0 sk3_1 sk3_2 sk3_3 sk4_0 sk4_1 sk4_2 sk4_3 sk5_0 sk5_1 sk5_2 sk5_3 sk6_0 sk6_1 sk6_2 sk6_3 sk7_0 sk7_1 sk7_2 sk7_3 sk8_0 sk8_1 sk8_2 sk8_3 sk9_0 sk9_1 sk9_2 sk9_3 sk10_0 sk10_1 sk10_2 sk10_3 sk11_0 sk11_1 sk11_2 sk11_3 sk12_0 sk12_1 sk12_2 sk12_3 sk13_0 sk13_1 sk13_2 sk13_3 sk14_0 sk14_1 sk14_2 sk14_3 sk15_0 sk15_1 sk15_2 sk15_3 sk16_0 sk16_1 sk16_2 sk16_3 sk17_0 sk17_1 sk17_2 sk17_3 sk18_0 sk18_1 sk18_2 sk18_3 b0 b1 b2 b3 =
      tup4 (decryptU64 (p := tf256) ⟨#v[#v[sk0_0, sk0_1, sk0_2, sk0_3],
        #v[sk1_0, sk1_1, sk1_2, sk1_3],
        #v[sk2_0, sk2_1, sk2_2, sk2_3],
        #v[sk3_0, sk3_1, sk3_2, sk3_3],
        #v[sk4_0, sk4_1, sk4_2, sk4_3],
        #v[sk5_0, sk5_1, sk5_2, sk5_3],
        #v[sk6_0, sk6_1, sk6_2, sk6_3],
        #v[sk7_0, sk7_1, sk7_2, sk7_3],
        #v[sk8_0, sk8_1, sk8_2, sk8_3],
        #v[sk9_0, sk9_1, sk9_2, sk9_3],
        #v[sk10_0, sk10_1, sk10_2, sk10_3],
        #v[sk11_0, sk11_1, sk11_2, sk11_3],
        #v[sk12_0, sk12_1, sk12_2, sk12_3],
        #v[sk13_0, sk13_1, sk13_2, sk13_3],
        #v[sk14_0, sk14_1, sk14_2, sk14_3],
        #v[sk15_0, sk15_1, sk15_2, sk15_3],
        #v[sk16_0, sk16_1, sk16_2, sk16_3],
        #v[sk17_0, sk17_1, sk17_2, sk17_3],
        #v[sk18_0, sk18_1, sk18_2, sk18_3]]⟩ #v[b0, b1, b2, b3]) := by
  rw [threefish256_decrypt_block_u64_vec, tup4_vec4]

/-! ### threefish512: 8 words, 72 rounds, 19 subkeys -/

/-- `Threefish512::encrypt_block_u64` as regenerated from the Rust source IS the model's `encryptU64` -/
theorem threefish512_encrypt_block_u64_vec (sk0_0 sk0_1 sk0_2 sk0_3 sk0_4 sk0_5 sk0_6 sk0_7 sk1_0 sk1_1 sk1_2 sk1_3 sk1_4 sk1_5 sk1_6 sk1_7 sk2_0 sk2_1 sk2_2 sk2_3 sk2_4 sk2_5 sk2_6 sk2_7 sk3_0 sk3_1 sk3_2 sk3_3 sk3_4 sk3_5 sk3_6 sk3_7 sk4_0 sk4_1 sk4_2 sk4_3 sk4_4 sk4_5 sk4_6 sk4_7 sk5_0 sk5_1 sk5_2 sk5_3 sk5_4 sk5_5 sk5_6 sk5_7 sk6_0 sk6_1 sk6_2 sk6_3 sk6_4 sk6_5 sk6_6 sk6_7 sk7_0 sk7_1 sk7_2 sk7_3 sk7_4 sk7_5 sk7_6 sk7_7 sk8_0 sk8_1 sk8_2 sk8_3 sk8_4 sk8_5 sk8_6 sk8_7 sk9_0 sk9_1 sk9_2 sk9_3 sk9_4 sk9_5 sk9_6 sk9_7 sk10_0 sk10_1 sk10_2 sk10_3 sk10_4 sk10_5 sk10_6 sk10_7 sk11_0 sk11_1 sk11_2 sk11_3 sk11_4 sk11_5 sk11_6 sk11_7 sk12_0 sk12_1 sk12_2 sk12_3 sk12_4 sk12_5 sk12_6 sk12_7 sk13_0 sk13_1 sk13_2 sk13_3 sk13_4 sk13_5 sk13_6 sk13_7 sk14_0 sk14_1 sk14_2 sk14_3 sk14_4 sk14_5 sk14_6 sk14_7 sk15_0 sk15_1 sk15_2 sk15_3 sk15_4 sk15_5 sk15_6 sk15_7 sk16_0 sk16_1 sk16_2 sk16_3 sk16_4 sk16_5 sk16_6 sk16_7 sk17_0 sk17_1 sk17_2 sk17_3 sk17_4 sk17_5 sk17_6 sk17_7 sk18_0 sk18_1 sk18_2 sk18_3 sk18_4 sk18_5 sk18_6 sk18_7 b0 b1 b2 b3 b4 b5 b6 b7 : BitVec 64) :
    encryptU64 (p := tf512) ⟨#v[#v[sk0_0, sk0_1, sk0_2, sk0_3, sk0_4, sk0_5, sk0_6, sk0_7],
        #v[sk1_0, sk1_1, sk1_2, sk1_3, sk1_4, sk1_5, sk1_6, sk1_7],
        #v[sk2_0, sk2_1, sk2_2, sk2_3, sk2_4, sk2_5, sk2_6, sk2_7],
        #v[sk3_0, sk3_1, sk3_2, sk3_3, sk3_4, sk3_5, sk3_6, sk3_7],
        #v[sk4_0, sk4_1, sk4_2, sk4_3, sk4_4, sk4_5, sk4_6, sk4_7],
        #v[sk5_0, sk5_1, sk5_2, sk5_3, sk5_4, sk5_5, sk5_6, sk5_7],
        #v[sk6_0, sk6_1, sk6_2, sk6_3, sk6_4, sk6_5, sk6_6, sk6_7],
        #v[sk7_0, sk7_1, sk7_2, sk7_3, sk7_4, sk7_5, sk7_6, sk7_7],
        #v[sk8_0, sk8_1, sk8_2, sk8_3, sk8_4, sk8_5, sk8_6, sk8_7],
        #v[sk9_0, sk9_1, sk9_2, sk9_3, sk9_4, sk9_5, sk9_6, sk9_7],
        #v[sk10_0, sk10_1, sk10_2, sk10_3, sk10_4, sk10_5, sk10_6, sk10_7],
        #v[sk11_0, sk11_1, sk11_2, sk11_3, sk11_4, sk11_5, sk11_6, sk11_7],
        #v[sk12_0, sk12_1, sk12_2, sk12_3, sk12_4, sk12_5, sk12_6, sk12_7],
        #v[sk13_0, sk13_1, sk13_2, sk13_3, sk13_4, sk13_5, sk13_6, sk13_7],
        #v[sk14_0, sk14_1, sk14_2, sk14_3, sk14_4, sk14_5, sk14_6, sk14_7],
        #v[sk15_0, sk15_1, sk15_2, sk15_3, sk15_4, sk15_5, sk15_6, sk15_7],
        #v[sk16_0, sk16_1, sk16_2, sk16_3, sk16_4, sk16_5, sk16_6, sk16_7],
        #v[sk17_0, sk17_1, sk17_2, sk17_3, sk17_4, sk17_5, sk17_6, sk17_7],
        #v[sk18_0, sk18_1, sk18_2, sk18_3, sk18_4, sk18_5, sk18_6, sk18_7]]⟩ #v[b0, b1, b2, b3, b4, b5, b6, b7] =
      vec8 (threefish512_encrypt_block_u64 sk0_0 sk0_1 sk0_2 sk0_3 sk0_4 sk0_5 sk0_6 sk0_7 sk1_0 sk1_1 sk1_2 sk1_3 sk1_4 sk1_5 sk1_6 sk1_7 sk2_0 sk2_1 sk2_2 sk2_3 sk2_4 sk2_5 sk2_6 sk2_7 sk3_0 sk3_1 sk3_2 sk3_3 sk3_4 sk3_5 sk3_6 sk3_7 sk4_0 sk4_1 sk4_2 sk4_3 sk4_4 sk4_5 sk4_6 sk4_7 sk5_0 sk5_1 sk5_2 sk5_3 sk5_4 sk5_5 sk5_6 sk5_7 sk6_0 sk6_1 sk6_2 sk6_3 sk6_4 sk6_5 sk6_6 sk6_7 sk7_0 sk7_1 sk7_2 sk7_3 sk7_4 sk7_5 sk7_6 sk7_7 sk8_0 sk8_1 sk8_2 sk8_3 sk8_4 sk8_5 sk8_6 sk8_7 sk9_0 sk9_1 sk9_2 sk9_3 sk9_4 sk9_5 sk9_6 sk9_7 sk10_0 sk10_1 sk10_2 sk10_3 sk10_4 sk10_5 sk10_6 sk10_7 sk11_0 sk11_1 sk11_2 sk11_3 sk11_4 sk11_5 sk11_6 sk11_7 sk12_0 sk12_1 sk12_2 sk12_3 sk12_4 sk12_5 sk12_6 sk12_7 sk13_0 sk13_1 sk13_2 sk13_3 sk13_4 sk13_5 sk13_6 sk13_7 sk14_0 sk14_1 sk14_2 sk14_3 sk14_4 sk14_5 sk14_6 sk14_7 sk15_0 sk15_1 sk15_2 sk15_3 sk15_4 sk15_5 sk15_6 sk15_7 sk16_0 sk16_1 sk16_2 sk16_3 sk16_4 sk16_5 sk16_6 sk16_7 sk17_0 sk17_1 sk17_2 sk17_3 sk17_4 sk17_5 sk17_6 sk17_7 sk18_0 sk18_1 sk18_2 sk18_3 sk18_4 sk18_5 sk18_6 sk18_7 b0 b1 b2 b3 b4 b5 b6 b7) := by
  refine (addRow8 _ _).trans ?_
  tf_kernel_rfl

theorem threefish512_encrypt_block_u64_eq (sk0_0 sk0_1 sk0_2 sk0_3 sk0_4 sk0_5 sk0_6 sk0_7 sk1_0 sk1_1 sk1_2 sk1_3 sk1_4 sk1_5 sk1_6 sk1_7 sk2_0 sk2_1 sk2_2 sk2_3 sk2_4 sk2_5 sk2_6 sk2_7 sk3_0 sk3_1 sk3_2 sk3_3 sk3_4 sk3_5 sk3_6 sk3_7 sk4_0 sk4_1 sk4_2 sk4_3 sk4_4 sk4_5 sk4_6 sk4_7 sk5_0 sk5_1 sk5_2 sk5_3 sk5_4 sk5_5 sk5_6 sk5_7 sk6_0 sk6_1 sk6_2 sk6_3 sk6_4 sk6_5 sk6_6 sk6_7 sk7_0 sk7_1 sk7_2 sk7_3 sk7_4 sk7_5 sk7_6 sk7_7 sk8_0 sk8_1 sk8_2 sk8_3 sk8_4 sk8_5 sk8_6 sk8_7 sk9_0 sk9_1 sk9_2 sk9_3 sk9_4 sk9_5 sk9_6 sk9_7 sk10_0 sk10_1 sk10_2 sk10_3 sk10_4 sk10_5 sk10_6 sk10_7 sk11_0 sk11_1 sk11_2 sk11_3 sk11_4 sk11_5 sk11_6 sk11_7 sk12_0 sk12_1 sk12_2 sk12_3 sk12_4 sk12_5 sk12_6 sk12_7 sk13_0 sk13_1 sk13_2 sk13_3 sk13_4 sk13_5 sk13_6 sk13_7 sk14_0 sk14_1 sk14_2 sk14_3 sk14_4 sk14_5 sk14_6 sk14_7 sk15_0 sk15_1 sk15_2 sk15_3 sk15_4 sk15_5 sk15_6 sk15_7 sk16_0 sk16_1 sk16_2 sk16_3 sk16_4 sk16_5 sk16_6 sk16_7 sk17_0 sk17_1 sk17_2 sk17_3 sk17_4 sk17_5 sk17_6 sk17_7 sk18_0 sk18_1 sk18_2 sk18_3 sk18_4 sk18_5 sk18_6 sk18_7 b0 b1 b2 b3 b4 b5 b6 b7 : BitVec 64) :
    threefish512_encrypt_block_u64 sk0_0 sk0_1 sk0_2 sk0_3 sk0_4 sk0_5 sk0_6 sk0_7 sk1_0 sk1_1 sk1_2 sk1_3 sk1_4 sk1_5 sk1_6 sk1_7 sk2_0 sk2_1 sk2_2 sk2_3 sk2_4 sk2_5 sk2_6 sk2_7 sk3_0 sk3_1 sk3_2 sk3_3 sk3_4 sk3_5 sk3_6 sk3_7 sk4_0 sk4_1 sk4_2 sk4_3 sk4_4 sk4_5 sk4_6 sk4_7 sk5_0 sk5_1 sk5_2 sk5_3 sk5_4 sk5_5 sk5_6 sk5_7 sk6_0 sk6_1 sk6_2 sk6_3 sk6_4 sk6_5 sk6_6 sk6_7 sk7_0 sk7_1 sk7_2 sk7_3 sk7_4 sk7_5 sk7_6 sk7_7 sk8_0 sk8_1 sk8_2 sk8_3 sk8_4 sk8_5 sk8_6 sk8_7 sk9_0 sk9_1 sk9_2 sk9_3 sk9_4 sk9_5 sk9_6 sk9_7 sk10_0 sk10_1 sk10_2 sk10_3 sk10_4 sk10_5 sk10_6 sk10_7 sk11_0 sk11_1 sk11_2 sk11_3 sk11_4 sk11_5 sk11_6 sk11_7 sk12_0 sk12_1 sk12_2 sk12_3 sk12_4 sk12_5 sk12_6 sk12_7 sk13_0 sk13_1 sk13_2 sk13_3 sk13_4 sk13_5 sk13_6 sk13_7 sk14_0 sk14_1 sk14_2 sk14_3 sk14_4 sk14_5 sk14_6 sk14_7 sk15_0 sk15_1 sk15_2 sk15_3 sk15_4 sk15_5 sk15_6 sk15_7 sk16_0 sk16_1 sk16_2 sk16_3 sk16_4 sk16_5 sk16_6 sk16_7 sk17_0 sk17_1 sk17_2 sk17_3 sk17_4 sk17_5 sk17_6 sk17_7 sk18_0 sk18_1 sk18_2 sk18_3 sk18_4 sk18_5 sk18_6 sk18_7 b0 b1 b2 b3 b4 b5 b6 b7 =
      tup8 (encryptU64 (p := tf512) ⟨#v[#v[sk0_0, sk0_1, sk0_2, sk0_3, sk0_4, sk0_5, sk0_6, sk0_7],
        #v[sk1_0, sk1_1, sk1_2, sk1_3, sk1_4, sk1_5, sk1_6, sk1_7],
        #v[sk2_0, sk2_1, sk2_2, sk2_3, sk2_4, sk2_5, sk2_6, sk2_7],
        #v[sk3_0, sk3_1, sk3_2, sk3_3, sk3_4, sk3_5, sk3_6, sk3_7],
        #v[sk4_0, sk4_1, sk4_2, sk4_3, sk4_4, sk4_5, sk4_6, sk4_7],
        #v[sk5_0, sk5_1, sk5_2, sk5_3, sk5_4, sk5_5, sk5_6, sk5_7],
        #v[sk6_0, sk6_1, sk6_2, sk6_3, sk6_4, sk6_5, sk6_6, sk6_7],
        #v[sk7_0, sk7_1, sk7_2, sk7_3, sk7_4, sk7_5, sk7_6, sk7_7],
        #v[sk8_0, sk8_1, sk8_2, sk8_3, sk8_4, sk8_5, sk8_6, sk8_7],
        #v[sk9_0, sk9_1, sk9_2, sk9_3, sk9_4, sk9_5, sk9_6, sk9_7],
        #v[sk10_0, sk10_1, sk10_2, sk10_3, sk10_4, sk10_5, sk10_6, sk10_7],
        #v[sk11_0, sk11_1, sk11_2, sk11_3, sk11_4, sk11_5, sk11_6, sk11_7],
        #v[sk12_0, sk12_1, sk12_2, sk12_3, sk12_4, sk12_5, sk12_6, sk12_7],
        #v[sk13_0, sk13_1, sk13_2, sk13_3, sk13_4, sk13_5, sk13_6, sk13_7],
        #v[sk14_0, sk14_1, sk14_2, sk14_3, sk14_4, sk14_5, sk14_6, sk14_7],
        #v[sk15_0, sk15_1, sk15_2, sk15_3, sk15_4, sk15_5, sk15_6, sk15_7],
        #v[sk16_0, sk16_1, sk16_2, sk16_3, sk16_4, sk16_5, sk16_6, sk16_7],
        #v[sk17_0, sk17_1, sk17_2, sk17_3, sk17_4, sk17_5, sk17_6, sk17_7],
        #v[sk18_0, sk18_1, sk18_2, sk18_3, sk18_4, sk18_5, sk18_6, sk18_7]]⟩ #v[b0, b1, b2, b3, b4, b5, b6, b7]) := by
  rw [threefish512_encrypt_block_u64_vec, tup8_vec8]

/-- `Threefish512::decrypt_block_u64` as regenerated from the Rust source IS the model's `decryptU64` -/
theorem threefish512_decrypt_block_u64_vec (sk0_0 sk0_1 sk0_2 sk0_3 sk0_4 sk0_5 sk0_6 sk0_7 sk1_0 sk1_1 sk1_2 sk1_3 sk1_4 sk1_5 sk1_6 sk1_7 sk2_0 sk2_1 sk2_2 sk2_3 sk2_4 sk2_5 sk2_6 sk2_7 sk3_0 sk3_1 sk3_2 sk3_3 sk3_4 sk3_5 sk3_6 sk3_7 sk4_0 sk4_1 sk4_2 sk4_3 sk4_4 sk4_5 sk4_6 sk4_7 sk5_0 sk5_1 sk5_2 sk5_3 sk5_4 sk5_5 sk5_6 sk5_7 sk6_0 sk6_1 sk6_2 sk6_3 sk6_4 sk6_5 sk6_6 sk6_7 sk7_0 sk7_1 sk7_2 sk7_3 sk7_4 sk7_5 sk7_6 sk7_7 sk8_0 sk8_1 sk8_2 sk8_3 sk8_4 sk8_5 sk8_6 sk8_7 sk9_0 sk9_1 sk9_2 sk9_3 sk9_4 sk9_5 sk9_6 sk9_7 sk10_0 sk10_1 sk10_2 sk10_3 sk10_4 sk10_5 sk10_6 sk10_7 sk11_0 sk11_1 sk11_2 sk11_3 sk11_4 sk11_5 sk11_6 sk11_7 sk12_0 sk12_1 sk12_2 sk12_3 sk12_4 sk12_5 sk12_6 sk12_7 sk13_0 sk13_1 sk13_2 sk13_3 sk13_4 sk13_5 sk13_6 sk13_7 sk14_0 sk14_1 sk14_2 sk14_3 sk14_4 sk14_5 sk14_6 sk14_7 sk15_0 sk15_1 sk15_2 sk15_3 sk15_4 sk15_5 sk15_6 sk15_7 sk16_0 sk16_1 sk16_2 sk16_3 sk16_4 sk16_5 sk16_6 sk16_7 sk17_0 sk17_1 sk17_2 sk17_3 sk17_4 sk17_5 sk17_6 sk17_7 sk18_0 sk18_1 sk18_2 sk18_3 sk18_4 sk18_5 sk18_6 sk18_7 b0 b1 b2 b3 b4 b5 b6 b7 : BitVec 64) :
    decryptU64 (p := tf512) ⟨#v[#v[sk0_0, sk0_1, sk0_2, sk0_3, sk0_4, sk0_5, sk0_6, sk0_7],
        #v[sk1_0, sk1_1, sk1_2, sk1_3, sk1_4, sk1_5, sk1_6, sk1_7],
        #v[sk2_0, sk2_1, sk2_2, sk2_3, sk2_4, sk2_5, sk2_6, sk2_7],
        #v[sk3_0, sk3_1, sk3_2, sk3_3, sk3_4, sk3_5, sk3_6, sk3_7],
        #v[sk4_0, sk4_1, sk4_2, sk4_3, sk4_4, sk4_5, sk4_6, sk4_7],
        #v[sk5_0, sk5_1, sk5_2, sk5_3, sk5_4, sk5_5, sk5_6, sk5_7],
        #v[sk6_0, sk6_1, sk6_2, sk6_3, sk6_4, sk6_5, sk6_6, sk6_7],
        #v[sk7_0, sk7_1, sk7_2, sk7_3, sk7_4, sk7_5, sk7_6, sk7_7],
        #v[sk8_0, sk8_1, sk8_2, sk8_3, sk8_4, sk8_5, sk8_6, sk8_7],
        #v[sk9_0, sk9_1, sk9_2, sk9_3, sk9_4, sk9_5, sk9_6, sk9_7],
        #v[sk10_0, sk10_1, sk10_2, sk10_3, sk10_4, sk10_5, sk10_6, sk10_7],
        #v[sk11_0, sk11_1, sk11_2, sk11_3, sk11_4, sk11_5, sk11_6, sk11_7],
        #v[sk12_0, sk12_1, sk12_2, sk12_3, sk12_4, sk12_5, sk12_6, sk12_7],
        #v[sk13_0, sk13_1, sk13_2, sk13_3, sk13_4, sk13_5, sk13_6, sk13_7],
        #v[sk14_0, sk14_1, sk14_2, sk14_3, sk14_4, sk14_5, sk14_6, sk14_7],
        #v[sk15_0, sk15_1, sk15_2, sk15_3, sk15_4, sk15_5, sk15_6, sk15_7],
        #v[sk16_0, sk16_1, sk16_2, sk16_3, sk16_4, sk16_5, sk16_6, sk16_7],
        #v[sk17_0, sk17_1, sk17_2, sk17_3, sk17_4, sk17_5, sk17_6, sk17_7],
        #v[sk18_0, sk18_1, sk18_2, sk18_3, sk18_4, sk18_5, sk18_6, sk18_7]]⟩ #v[b0, b1, b2, b3, b4, b5, b6, b7] =
      vec8 (threefish512_decrypt_block_u64 sk0_0 sk0_1 sk0_2 sk0_3 sk0_4 sk0_5 sk0_6 sk0_7 sk1_0 sk1_1 sk1_2 sk1_3 sk1_4 sk1_5 sk1_6 sk1_7 sk2_0 sk2_1 sk2_2 sk2_3 sk2_4 sk2_5 sk2_6 sk2_7 sk3_0 sk3_1 sk3_2 sk3_3 sk3_4 sk3_5 sk3_6 sk3_7 sk4_0 sk4_1 sk4_2 sk4_3 sk4_4 sk4_5 sk4_6 sk4_7 sk5_0 sk5_1 sk5_2 sk5_3 sk5_4 sk5_5 sk5_6 sk5_7 sk6_0 sk6_1 sk6_2 sk6_3 sk6_4 sk6_5 sk6_6 sk6_7 sk7_0 sk7_1 sk7_2 sk7_3 sk7_4 sk7_5 sk7_6 sk7_7 sk8_0 sk8_1 sk8_2 sk8_3 sk8_4 sk8_5 sk8_6 sk8_7 sk9_0 sk9_1 sk9_2 sk9_3 sk9_4 sk9_5 sk9_6 sk9_7 sk10_0 sk10_1 sk10_2 sk10_3 sk10_4 sk10_5 sk10_6 sk10_7 sk11_0 sk11_1 sk11_2 sk11_3 sk11_4 sk11_5 sk11_6 sk11_7 sk12_0 sk12_1 sk12_2 sk12_3 sk12_4 sk12_5 sk12_6 sk12_7 sk13_0 sk13_1 sk13_2 sk13_3 sk13_4 sk13_5 sk13_6 sk13_7 sk14_0 sk14_1 sk14_2 sk14_3 sk14_4 sk14_5 sk14_6 sk14_7 sk15_0 sk15_1 sk15_2 sk15_3 sk15_4 sk15_5 sk15_6 sk15_7 sk16_0 sk16_1 sk16_2 sk16_3 sk16_4 sk16_5 sk16_6 sk16_7 sk17_0 sk17_1 sk17_2 sk17_3 sk17_4 sk17_5 sk17_6 sk17_7 sk18_0 sk18_1 sk18_2 sk18_3 sk18_4 sk18_5 sk18_6 sk18_7 b0 b1 b2 b3 b4 b5 b6 b7) := by
  refine (congrArg (List.foldl _ · _) (subRow8 _ _)).trans ?_
  tf_kernel_rfl

theorem threefish512_decrypt_block_u64_eq (sk0_0 sk0_1 sk0_2 sk0_3 sk0_4 sk0_5 sk0_6 sk0_7 sk1_0 sk1_1 sk1_2 sk1_3 sk1_4 sk1_5 sk1_6 sk1_7 sk2_0 sk2_1 sk2_2 sk2_3 sk2_4 sk2_5 sk2_6 sk2_7 sk3_0 sk3_1 sk3_2 sk3_3 sk3_4 sk3_5 sk3_6 sk3_7 sk4_0 sk4_1 sk4_2 sk4_3 sk4_4 sk4_5 sk4_6 sk4_7 sk5_0 sk5_1 sk5_2 sk5_3 sk5_4 sk5_5 sk5_6 sk5_7 sk6_0 sk6_1 sk6_2 sk6_3 sk6_4 sk6_5 sk6_6 sk6_7 sk7_0 sk7_1 sk7_2 sk7_3 sk7_4 sk7_5 sk7_6 sk7_7 sk8_0 sk8_1 sk8_2 sk8_3 sk8_4 sk8_5 sk8_6 sk8_7 sk9_0 sk9_1 sk9_2 sk9_3 sk9_4 sk9_5 sk9_6 sk9_7 sk10_0 sk10_1 sk10_2 sk10_3 sk10_4 sk10_5 sk10_6 sk10_7 sk11_0 sk11_1 sk11_2 sk11_3 sk11_4 sk11_5 sk11_6 sk11_7 sk12_0 sk12_1 sk12_2 sk12_3 sk12_4 sk12_5 sk12_6 sk12_7 sk13_0 sk13_1 sk13_2 sk13_3 sk13_4 sk13_5 sk13_6 sk13_7 sk14_0 sk14_1 sk14_2 sk14_3 sk14_4 sk14_5 sk14_6 sk14_7 sk15_0 sk15_1 sk15_2 sk15_3 sk15_4 sk15_5 sk15_6 sk15_7 sk16_0 sk16_1 sk16_2 sk16_3 sk16_4 sk16_5 sk16_6 sk16_7 sk17_0 sk17_1 sk17_2 sk17_3 sk17_4 sk17_5 sk17_6 sk17_7 sk18_0 sk18_1 sk18_2 sk18_3 sk18_4 sk18_5 sk18_6 sk18_7 b0 b1 b2 b3 b4 b5 b6 b7 : BitVec 64) :
    threefish512_decrypt_block_u64 sk0_0 sk0_1 sk0_2 sk0_3 sk0_4 sk0_5 sk0_6 sk0_7 sk1_0 sk1_1 sk1_2 sk1_3 sk1_4 sk1_5 sk1_6 sk1_7 sk2_0 sk2_1 sk2_2 sk2_3 sk2_4 sk2_5 sk2_6 sk2_7 sk3_0 sk3_1 sk3_2 sk3_3 sk3_4 sk3_5 sk3_6 sk3_7 sk4_0 sk4_1 sk4_2 sk4_3 sk4_4 sk4_5 sk4_6 sk4_7 sk5_0 sk5_1 sk5_2 sk5_3 sk5_4 sk5_5 sk5_6 sk5_7 sk6_0 sk6_1 sk6_2 sk6_3 sk6_4 sk6_5 sk6_6 sk6_7 sk7_0 sk7_1 sk7_2 sk7_3 sk7_4 sk7_5 sk7_6 sk7_7 sk8_0 sk8_1 sk8_2 sk8_3 sk8_4 sk8_5 sk8_6 sk8_7 sk9_0 sk9_1 sk9_2 sk9_3 sk9_4 sk9_5 sk9_6 sk9_7 sk10_0 sk10_1 sk10_2 sk10_3 sk10_4 sk10_5 sk10_6 sk10_7 sk11_0 sk11_1 sk11_2 sk11_3 sk11_4 sk11_5 sk11_6 sk11_7 sk12_0 sk12_1 sk12_2 sk12_3 sk12_4 sk12_5 sk12_6 sk12_7 sk13_0 sk13_1 sk13_2 sk13_3 sk13_4 sk13_5 sk13_6 sk13_7 sk14_0 sk14_1 sk14_2 sk14_3 sk14_4 sk14_5 sk14_6 sk14_7 sk15_0 sk15_1 sk15_2 sk15_3 sk15_4 sk15_5 sk15_6 sk15_7 sk16_0 sk16_1 sk16_2 sk16_3 sk16_4 sk16_5 sk16_6 sk16_7 sk17_0 sk17_1 sk17_2 sk17_3 sk17_4 sk17_5 sk17_6 sk17_7 sk18_0 sk18_1 sk18_2 sk18_3 sk18_4 sk18_5 sk18_6 sk18_7 b0 b1 b2 b3 b4 b5 b6 b7 =
      tup8 (decryptU64 (p := tf512) ⟨#v[#v[sk0_0, sk0_1, sk0_2, sk0_3, sk0_4, sk0_5, sk0_6, sk0_7],
        #v[sk1_0, sk1_1, sk1_2, sk1_3, sk1_4, sk1_5, sk1_6, sk1_7],
        #v[sk2_0, sk2_1, sk2_2, sk2_3, sk2_4, sk2_5, sk2_6, sk2_7],
        #v[sk3_0, sk3_1, sk3_2, sk3_3, sk3_4, sk3_5, sk3_6, sk3_7],
        #v[sk4_0, sk4_1, sk4_2, sk4_3, sk4_4, sk4_5, sk4_6, sk4_7],
        #v[sk5_0, sk5_1, sk5_2, sk5_3, sk5_4, sk5_5, sk5_6, sk5_7],
        #v[sk6_0, sk6_1, sk6_2, sk6_3, sk6_4, sk6_5, sk6_6, sk6_7],
        #v[sk7_0, sk7_1, sk7_2, sk7_3, sk7_4, sk7_5, sk7_6, sk7_7],
        #v[sk8_0, sk8_1, sk8_2, sk8_3, sk8_4, sk8_5, sk8_6, sk8_7],
        #v[sk9_0, sk9_1, sk9_2, sk9_3, sk9_4, sk9_5, sk9_6, sk9_7],
        #v[sk10_0, sk10_1, sk10_2, sk10_3, sk10_4, sk10_5, sk10_6, sk10_7],
        #v[sk11_0, sk11_1, sk11_2, sk11_3, sk11_4, sk11_5, sk11_6, sk11_7],
        #v[sk12_0, sk12_1, sk12_2, sk12_3, sk12_4, sk12_5, sk12_6, sk12_7],
        #v[sk13_0, sk13_1, sk13_2, sk13_3, sk13_4, sk13_5, sk13_6, sk13_7],
        #v[sk14_0, sk14_1, sk14_2, sk14_3, sk14_4, sk14_5, sk14_6, sk14_7],
        #v[sk15_0, sk15_1, sk15_2, sk15_3, sk15_4, sk15_5, sk15_6, sk15_7],
        #v[sk16_0, sk16_1, sk16_2, sk16_3, sk16_4, sk16_5, sk16_6, sk16_7],
        #v[sk17_0, sk17_1, sk17_2, sk17_3, sk17_4, sk17_5, sk17_6, sk17_7],
        #v[sk18_0, sk18_1, sk18_2, sk18_3, sk18_4, sk18_5, sk18_6, sk18_7]]⟩ #v[b0, b1, b2, b3, b4, b5, b6, b7]) := by
  rw [threefish512_decrypt_block_u64_vec, tup8_vec8]

/-! ### threefish1024: 16 words, 80 rounds, 21 subkeys -/

/-- `Threefish1024::encrypt_block_u64` as regenerated from the Rust source IS the model's `encryptU64` -/
theorem threefish1024_encrypt_block_u64_vec (sk0_0 sk0_1 sk0_2 sk0_3 sk0_4 sk0_5 sk0_6 sk0_7 sk0_8 sk0_9 sk0_10 sk0_11 sk0_12 sk0_13 sk0_14 sk0_15 sk1_0 sk1_1 sk1_2 sk1_3 sk1_4 sk1_5 sk1_6 sk1_7 sk1_8 sk1_9 sk1_10 sk1_11 sk1_12 sk1_13 sk1_14 sk1_15 sk2_0 sk2_1 sk2_2 sk2_3 sk2_4 sk2_5 sk2_6 sk2_7 sk2_8 sk2_9 sk2_10 sk2_11 sk2_12 sk2_13 sk2_14 sk2_15 sk3_0 sk3_1 sk3_2 sk3_3 sk3_4 sk3_5 sk3_6 sk3_7 sk3_8 sk3_9 sk3_10 sk3_11 sk3_12 sk3_13 sk3_14 sk3_15 sk4_0 sk4_1 sk4_2 sk4_3 sk4_4 sk4_5 sk4_6 sk4_7 sk4_8 sk4_9 sk4_10 sk4_11 sk4_12 sk4_13 sk4_14 sk4_15 sk5_0 sk5_1 sk5_2 sk5_3 sk5_4 sk5_5 sk5_6 sk5_7 sk5_8 sk5_9 sk5_10 sk5_11 sk5_12 sk5_13 sk5_14 sk5_15 sk6_0 sk6_1 sk6_2 sk6_3 sk6_4 sk6_5 sk6_6 sk6_7 sk6_8 sk6_9 sk6_10 sk6_11 sk6_12 sk6_13 sk6_14 sk6_15 sk7_0 sk7_1 sk7_2 sk7_3 sk7_4 sk7_5 sk7_6 sk7_7 sk7_8 sk7_9 sk7_10 sk7_11 sk7_12 sk7_13 sk7_14 sk7_15 sk8_0 sk8_1 sk8_2 sk8_3 sk8_4 sk8_5 sk8_6 sk8_7 sk8_8 sk8_9 sk8_10 sk8_11 sk8_12 sk8_13 sk8_14 sk8_15 sk9_0 sk9_1 sk9_2 sk9_3 sk9_4 sk9_5 sk9_6 sk9_7 sk9_8 sk9_9 sk9_10 sk9_11 sk9_12 sk9_13 sk9_14 sk9_15 sk10_0 sk10_1 sk10_2 sk10_3 sk10_4 sk10_5 sk10_6 sk10_7 sk10_8 sk10_9 sk10_10 sk10_11 sk10_12 sk10_13 sk10_14 sk10_15 sk11_0 sk11_1 sk11_2 sk11_3 sk11_4 sk11_5 sk11_6 sk11_7 sk11_8 sk11_9 sk11_10 sk11_11 sk11_12 sk11_13 sk11_14 sk11_15 sk12_0 sk12_1 sk12_2 sk12_3 sk12_4 sk12_5 sk12_6 sk12_7 sk12_8 sk12_9 sk12_10 sk12_11 sk12_12 sk12_13 sk12_14 sk12_15 sk13_0 sk13_1 sk13_2 sk13_3 sk13_4 sk13_5 sk13_6 sk13_7 sk13_8 sk13_9 sk13_10 sk13_11 sk13_12 sk13_13 sk13_14 sk13_15 sk14_0 sk14_1 sk14_2 sk14_3 sk14_4 sk14_5 sk14_6 sk14_7 sk14_8 sk14_9 sk14_10 sk14_11 sk14_12 sk14_13 sk14_14 sk14_15 sk15_0 sk15_1 sk15_2 sk15_3 sk15_4 sk15_5 sk15_6 sk15_7 sk15_8 sk15_9 sk15_10 sk15_11 sk15_12 sk15_13 sk15_14 sk15_15 sk16_0 sk16_1 sk16_2 sk16_3 sk16_4 sk16_5 sk16_6 sk16_7 sk16_8 sk16_9 sk16_10 sk16_11 sk16_12 sk16_13 sk16_14 sk16_15 sk17_0 sk17_1 sk17_2 sk17_3 sk17_4 sk17_5 sk17_6 sk17_7 sk17_8 sk17_9 sk17_10 sk17_11 sk17_12 sk17_13 sk17_14 sk17_15 sk18_0 sk18_1 sk18_2 sk18_3 sk18_4 sk18_5 sk18_6 sk18_7 sk18_8 sk18_9 sk18_10 sk18_11 sk18_12 sk18_13 sk18_14 sk18_15 sk19_0 sk19_1 sk19_2 sk19_3 sk19_4 sk19_5 sk19_6 sk19_7 sk19_8 sk19_9 sk19_10 sk19_11 sk19_12 sk19_13 sk19_14 sk19_15 sk20_0 sk20_1 sk20_2 sk20_3 sk20_4 sk20_5 sk20_6 sk20_7 sk20_8 sk20_9 sk20_10 sk20_11 sk20_12 sk20_13 sk20_14 sk20_15 b0 b1 b2 b3 b4 b5 b6 b7 b8 b9 b10 b11 b12 b13 b14 b15 : BitVec 64) :
    encryptU64 (p := tf1024) ⟨#v[#v[sk0_0, sk0_1, sk0_2, sk0_3, sk0_4, sk0_5, sk0_6, sk0_7, sk0_8, sk0_9, sk0_10, sk0_11, sk0_12, sk0_13, sk0_14, sk0_15],
        #v[sk1_0, sk1_1, sk1_2, sk1_3, sk1_4, sk1_5, sk1_6, sk1_7, sk1_8, sk1_9, sk1_10, sk1_11, sk1_12, sk1_13, sk1_14, sk1_15],
        #v[sk2_0, sk2_1, sk2_2, sk2_3, sk2_4, sk2_5, sk2_6, sk2_7, sk2_8, sk2_9, sk2_10, sk2_11, sk2_12, sk2_13, sk2_14, sk2_15],
        #v[sk3_0, sk3_1, sk3_2, sk3_3, sk3_4, sk3_5, sk3_6, sk3_7, sk3_8, sk3_9, sk3_10, sk3_11, sk3_12, sk3_13, sk3_14, sk3_15],
        #v[sk4_0, sk4_1, sk4_2, sk4_3, sk4_4, sk4_5, sk4_6, sk4_7, sk4_8, sk4_9, sk4_10, sk4_11, sk4_12, sk4_13, sk4_14, sk4_15],
        #v[sk5_0, sk5_1, sk5_2, sk5_3, sk5_4, sk5_5, sk5_6, sk5_7, sk5_8, sk5_9, sk5_10, sk5_11, sk5_12, sk5_13, sk5_14, sk5_15],
        #v[sk6_0, sk6_1, sk6_2, sk6_3, sk6_4, sk6_5, sk6_6, sk6_7, sk6_8, sk6_9, sk6_10, sk6_11, sk6_12, sk6_13, sk6_14, sk6_15],
        #v[sk7_0, sk7_1, sk7_2, sk7_3, sk7_4, sk7_5, sk7_6, sk7_7, sk7_8, sk7_9, sk7_10, sk7_11, sk7_12, sk7_13, sk7_14, sk7_15],
        #v[sk8_0, sk8_1, sk8_2, sk8_3, sk8_4, sk8_5, sk8_6, sk8_7, sk8_8, sk8_9, sk8_10, sk8_11, sk8_12, sk8_13, sk8_14, sk8_15],
        #v[sk9_0, sk9_1, sk9_2, sk9_3, sk9_4, sk9_5, sk9_6, sk9_7, sk9_8, sk9_9, sk9_10, sk9_11, sk9_12, sk9_13, sk9_14, sk9_15],
        #v[sk10_0, sk10_1, sk10_2, sk10_3, sk10_4, sk10_5, sk10_6, sk10_7, sk10_8, sk10_9, sk10_10, sk10_11, sk10_12, sk10_13, sk10_14, sk10_15],
        #v[sk11_0, sk11_1, sk11_2, sk11_3, sk11_4, sk11_5, sk11_6, sk11_7, sk11_8, sk11_9, sk11_10, sk11_11, sk11_12, sk11_13, sk11_14, sk11_15],
        #v[sk12_0, sk12_1, sk12_2, sk12_3, sk12_4, sk12_5, sk12_6, sk12_7, sk12_8, sk12_9, sk12_10, sk12_11, sk12_12, sk12_13, sk12_14, sk12_15],
        #v[sk13_0, sk13_1, sk13_2, sk13_3, sk13_4, sk13_5, sk13_6, sk13_7, sk13_8, sk13_9, sk13_10, sk13_11, sk13_12, sk13_13, sk13_14, sk13_15],
        #v[sk14_0, sk14_1, sk14_2, sk14_3, sk14_4, sk14_5, sk14_6, sk14_7, sk14_8, sk14_9, sk14_10, sk14_11, sk14_12, sk14_13, sk14_14, sk14_15],
        #v[sk15_0, sk15_1, sk15_2, sk15_3, sk15_4, sk15_5, sk15_6, sk15_7, sk15_8, sk15_9, sk15_10, sk15_11, sk15_12, sk15_13, sk15_14, sk15_15],
        #v[sk16_0, sk16_1, sk16_2, sk16_3, sk16_4, sk16_5, sk16_6, sk16_7, sk16_8, sk16_9, sk16_10, sk16_11, sk16_12, sk16_13, sk16_14, sk16_15],
        #v[sk17_0, sk17_1, sk17_2, sk17_3, sk17_4, sk17_5, sk17_6, sk17_7, sk17_8, sk17_9, sk17_10, sk17_11, sk17_12, sk17_13, sk17_14, sk17_15],
        #v[sk18_0, sk18_1, sk18_2, sk18_3, sk18_4, sk18_5, sk18_6, sk18_7, sk18_8, sk18_9, sk18_10, sk18_11, sk18_12, sk18_13, sk18_14, sk18_15],
        #v[sk19_0, sk19_1, sk19_2, sk19_3, sk19_4, sk19_5, sk19_6, sk19_7, sk19_8, sk19_9, sk19_10, sk19_11, sk19_12, sk19_13, sk19_14, sk19_15],
        #v[sk20_0, sk20_1, sk20_2, sk20_3, sk20_4, sk20_5, sk20_6, sk20_7, sk20_8, sk20_9, sk20_10, sk20_11, sk20_12, sk20_13, sk20_14, sk20_15]]⟩ #v[b0, b1, b2, b3, b4, b5, b6, b7, b8, b9, b10, b11, b12, b13, b14, b15] =
      vec16 (threefish1024_encrypt_block_u64 sk0_0 sk0_1 sk0_2 sk0_3 sk0_4 sk0_5 sk0_6 sk0_7 sk0_8 sk0_9 sk0_10 sk0_11 sk0_12 sk0_13 sk0_14 sk0_15 sk1_0 sk1_1 sk1_2 sk1_3 sk1_4 sk1_5 sk1_6 sk1_7 sk1_8 sk1_9 sk1_10 sk1_11 sk1_12 sk1_13 sk1_14 sk1_15 sk2_0 sk2_1 sk2_2 sk2_3 sk2_4 sk2_5 sk2_6 sk2_7 sk2_8 sk2_9 sk2_10 sk2_11 sk2_12 sk2_13 sk2_14 sk2_15 sk3_0 sk3_1 sk3_2 sk3_3 sk3_4 sk3_5 sk3_6 sk3_7 sk3_8 sk3_9 sk3_10 sk3_11 sk3_12 sk3_13 sk3_14 sk3_15 sk4_0 sk4_1 sk4_2 sk4_3 sk4_4 sk4_5 sk4_6 sk4_7 sk4_8 sk4_9 sk4_10 sk4_11 sk4_12 sk4_13 sk4_14 sk4_15 sk5_0 sk5_1 sk5_2 sk5_3 sk5_4 sk5_5 sk5_6 sk5_7 sk5_8 sk5_9 sk5_10 sk5_11 sk5_12 sk5_13 sk5_14 sk5_15 sk6_0 sk6_1 sk6_2 sk6_3 sk6_4 sk6_5 sk6_6 sk6_7 sk6_8 sk6_9 sk6_10 sk6_11 sk6_12 sk6_13 sk6_14 sk6_15 sk7_0 sk7_1 sk7_2 sk7_3 sk7_4 sk7_5 sk7_6 sk7_7 sk7_8 sk7_9 sk7_10 sk7_11 sk7_12 sk7_13 sk7_14 sk7_15 sk8_0 sk8_1 sk8_2 sk8_3 sk8_4 sk8_5 sk8_6 sk8_7 sk8_8 sk8_9 sk8_10 sk8_11 sk8_12 sk8_13 sk8_14 sk8_15 sk9_0 sk9_1 sk9_2 sk9_3 sk9_4 sk9_5 sk9_6 sk9_7 sk9_8 sk9_9 sk9_10 sk9_11 sk9_12 sk9_13 sk9_14 sk9_15 sk10_0 sk10_1 sk10_2 sk10_3 sk10_4 sk10_5 sk10_6 sk10_7 sk10_8 sk10_9 sk10_10 sk10_11 sk10_12 sk10_13 sk10_14 sk10_15 sk11_0 sk11_1 sk11_2 sk11_3 sk11_4 sk11_5 sk11_6 sk11_7 sk11_8 sk11_9 sk11_10 sk11_11 sk11_12 sk11_13 sk11_14 sk11_15 sk12_0 sk12_1 sk12_2 sk12_3 sk12_4 sk12_5 sk12_6 sk12_7 sk12_8 sk12_9 sk12_10 sk12_11 sk12_12 sk12_13 sk12_14 sk12_15 sk13_0 sk13_1 sk13_2 sk13_3 sk13_4 sk13_5 sk13_6 sk13_7 sk13_8 sk13_9 sk13_10 sk13_11 sk13_12 sk13_13 sk13_14 sk13_15 sk14_0 sk14_1 sk14_2 sk14_3 sk14_4 sk14_5 sk14_6 sk14_7 sk14_8 sk14_9 sk14_10 sk14_11 sk14_12 sk14_13 sk14_14 sk14_15 sk15_0 sk15_1 sk15_2 sk15_3 sk15_4 sk15_5 sk15_6 sk15_7 sk15_8 sk15_9 sk15_10 sk15_11 sk15_12 sk15_13 sk15_14 sk15_15 sk16_0 sk16_1 sk16_2 sk16_3 sk16_4 sk16_5 sk16_6 sk16_7 sk16_8 sk16_9 sk16_10 sk16_11 sk16_12 sk16_13 sk16_14 sk16_15 sk17_0 sk17_1 sk17_2 sk17_3 sk17_4 sk17_5 sk17_6 sk17_7 sk17_8 sk17_9 sk17_10 sk17_11 sk17_12 sk17_13 sk17_14 sk17_15 sk18_0 sk18_1 sk18_2 sk18_3 sk18_4 sk18_5 sk18_6 sk18_7 sk18_8 sk18_9 sk18_10 sk18_11 sk18_12 sk18_13 sk18_14 sk18_15 sk19_0 sk19_1 sk19_2 sk19_3 sk19_4 sk19_5 sk19_6 sk19_7 sk19_8 sk19_9 sk19_10 sk19_11 sk19_12 sk19_13 sk19_14 sk19_15 sk20_0 sk20_1 sk20_2 sk20_3 sk20_4 sk20_5 sk20_6 sk20_7 sk20_8 sk20_9 sk20_10 sk20_11 sk20_12 sk20_13 sk20_14 sk20_15 b0 b1 b2 b3 b4 b5 b6 b7 b8 b9 b10 b11 b12 b13 b14 b15) := by
  refine (addRow16 _ _).trans ?_
  tf_kernel_rfl

theorem threefish1024_encrypt_block_u64_eq (sk0_0 sk0_1 sk0_2 sk0_3 sk0_4 sk0_5 sk0_6 sk0_7 sk0_8 sk0_9 sk0_10 sk0_11 sk0_12 sk0_13 sk0_14 sk0_15 sk1_0 sk1_1 sk1_2 sk1_3 sk1_4 sk1_5 sk1_6 sk1_7 sk1_8 sk1_9 sk1_10 sk1_11 sk1_12 sk1_13 sk1_14 sk1_15 sk2_0 sk2_1 sk2_2 sk2_3 sk2_4 sk2_5 sk2_6 sk2_7 sk2_8 sk2_9 sk2_10 sk2_11 sk2_12 sk2_13 sk2_14 sk2_15 sk3_0 sk3_1 sk3_2 sk3_3 sk3_4 sk3_5 sk3_6 sk3_7 sk3_8 sk3_9 sk3_10 sk3_11 sk3_12 sk3_13 sk3_14 sk3_15 sk4_0 sk4_1 sk4_2 sk4_3 sk4_4 sk4_5 sk4_6 sk4_7 sk4_8 sk4_9 sk4_10 sk4_11 sk4_12 sk4_13 sk4_14 sk4_15 sk5_0 sk5_1 sk5_2 sk5_3 sk5_4 sk5_5 sk5_6 sk5_7 sk5_8 sk5_9 sk5_10 sk5_11 sk5_12 sk5_13 sk5_14 sk5_15 sk6_0 sk6_1 sk6_2 sk6_3 sk6_4 sk6_5 sk6_6 sk6_7 sk6_8 sk6_9 sk6_10 sk6_11 sk6_12 sk6_13 sk6_14 sk6_15 sk7_0 sk7_1 sk7_2 sk7_3 sk7_4 sk7_5 sk7_6 sk7_7 sk7_8 sk7_9 sk7_10 sk7_11 sk7_12 sk7_13 sk7_14 sk7_15 sk8_0 sk8_1 sk8_2 sk8_3 sk8_4 sk8_5 sk8_6 sk8_7 sk8_8 sk8_9 sk8_10 sk8_11 sk8_12 sk8_13 sk8_14 sk8_15 sk9_0 sk9_1 sk9_2 sk9_3 sk9_4 sk9_5 sk9_6 sk9_7 sk9_8 sk9_9 sk9_10 sk9_11 sk9_12 sk9_13 sk9_14 sk9_15 sk10_0 sk10_1 sk10_2 sk10_3 sk10_4 sk10_5 sk10_6 sk10_7 sk10_8 sk10_9 sk10_10 sk10_11 sk10_12 sk10_13 sk10_14 sk10_15 sk11_0 sk11_1 sk11_2 sk11_3 sk11_4 sk11_5 sk11_6 sk11_7 sk11_8 sk11_9 sk11_10 sk11_11 sk11_12 sk11_13 sk11_14 sk11_15 sk12_0 sk12_1 sk12_2 sk12_3 sk12_4 sk12_5 sk12_6 sk12_7 sk12_8 sk12_9 sk12_10 sk12_11 sk12_12 sk12_13 sk12_14 sk12_15 sk13_0 sk13_1 sk13_2 sk13_3 sk13_4 sk13_5 sk13_6 sk13_7 sk13_8 sk13_9 sk13_10 sk13_11 sk13_12 sk13_13 sk13_14 sk13_15 sk14_0 sk14_1 sk14_2 sk14_3 sk14_4 sk14_5 sk14_6 sk14_7 sk14_8 sk14_9 sk14_10 sk14_11 sk14_12 sk14_13 sk14_14 sk14_15 sk15_0 sk15_1 sk15_2 sk15_3 sk15_4 sk15_5 sk15_6 sk15_7 sk15_8 sk15_9 sk15_10 sk15_11 sk15_12 sk15_13 sk15_14 sk15_15 sk16_0 sk16_1 sk16_2 sk16_3 sk16_4 sk16_5 sk16_6 sk16_7 sk16_8 sk16_9 sk16_10 sk16_11 sk16_12 sk16_13 sk16_14 sk16_15 sk17_0 sk17_1 sk17_2 sk17_3 sk17_4 sk17_5 sk17_6 sk17_7 sk17_8 sk17_9 sk17_10 sk17_11 sk17_12 sk17_13 sk17_14 sk17_15 sk18_0 sk18_1 sk18_2 sk18_3 sk18_4 sk18_5 sk18_6 sk18_7 sk18_8 sk18_9 sk18_10 sk18_11 sk18_12 sk18_13 sk18_14 sk18_15 sk19_0 sk19_1 sk19_2 sk19_3 sk19_4 sk19_5 sk19_6 sk19_7 sk19_8 sk19_9 sk19_10 sk19_11 sk19_12 sk19_13 sk19_14 sk19_15 sk20_0 sk20_1 sk20_2 sk20_3 sk20_4 sk20_5 sk20_6 sk20_7 sk20_8 sk20_9 sk20_10 sk20_11 sk20_12 sk20_13 sk20_14 sk20_15 b0 b1 b2 b3 b4 b5 b6 b7 b8 b9 b10 b11 b12 b13 b14 b15 : BitVec 64) :
    threefish1024_encrypt_block_u64 sk0_0 sk0_1 sk0_2 sk0_3 sk0_4 sk0_5 sk0_6 sk0_7 sk0_8 sk0_9 sk0_10 sk0_11 sk0_12 sk0_13 sk0_14 sk0_15 sk1_0 sk1_1 sk1_2 sk1_3 sk1_4 sk1_5 sk1_6 sk1_7 sk1_8 sk1_9 sk1_10 sk1_11 sk1_12 sk1_13 sk1_14 sk1_15 sk2_0 sk2_1 sk2_2 sk2_3 sk2_4 sk2_5 sk2_6 sk2_7 sk2_8 sk2_9 sk2_10 sk2_11 sk2_12 sk2_13 sk2_14 sk2_15 sk3_0 sk3_1 sk3_2 sk3_3 sk3_4 sk3_5 sk3_6 sk3_7 sk3_8 sk3_9 sk3_10 sk3_11 sk3_12 sk3_13 sk3_14 sk3_15 sk4_0 sk4_1 sk4_2 sk4_3 sk4_4 sk4_5 sk4_6 sk4_7 sk4_8 sk4_9 sk4_10 sk4_11 sk4_12 sk4_13 sk4_14 sk4_15 sk5_0 sk5_1 sk5_2 sk5_3 sk5_4 sk5_5 sk5_6 sk5_7 sk5_8 sk5_9 sk5_10 sk5_11 sk5_12 sk5_13 sk5_14 sk5_15 sk6_0 sk6_1 sk6_2 sk6_3 sk6_4 sk6_5 sk6_6 sk6_7 sk6_8 sk6_9 sk6_10 sk6_11 sk6_12 sk6_13 sk6_14 sk6_15 sk7_0 sk7_1 sk7_2 sk7_3 sk7_4 sk7_5 sk7_6 sk7_7 sk7_8 sk7_9 sk7_10 sk7_11 sk7_12 sk7_13 sk7_14 sk7_15 sk8_0 sk8_1 sk8_2 sk8_3 sk8_4 sk8_5 sk8_6 sk8_7 sk8_8 sk8_9 sk8_10 sk8_11 sk8_12 sk8_13 sk8_14 sk8_15 sk9_0 sk9_1 sk9_2 sk9_3 sk9_4 sk9_5 sk9_6 sk9_7 sk9_8 sk9_9 sk9_10 sk9_11 sk9_12 sk9_13 sk9_14 sk9_15 sk10_0 sk10_1 sk10_2 sk10_3 sk10_4 sk10_5 sk10_6 sk10_7 sk10_8 sk10_9 sk10_10 sk10_11 sk10_12 sk10_13 sk10_14 sk10_15 sk11_0 sk11_1 sk11_2 sk11_3 sk11_4 sk11_5 sk11_6 sk11_7 sk11_8 sk11_9 sk11_10 sk11_11 sk11_12 sk11_13 sk11_14 sk11_15 sk12_0 sk12_1 sk12_2 sk12_3 sk12_4 sk12_5 sk12_6 sk12_7 sk12_8 sk12_9 sk12_10 sk12_11 sk12_12 sk12_13 sk12_14 sk12_15 sk13_0 sk13_1 sk13_2 sk13_3 sk13_4 sk13_5 sk13_6 sk13_7 sk13_8 sk13_9 sk13_10 sk13_11 sk13_12 sk13_13 sk13_14 sk13_15 sk14_0 sk14_1 sk14_2 sk14_3 sk14_4 sk14_5 sk14_6 sk14_7 sk14_8 sk14_9 sk14_10 sk14_11 sk14_12 sk14_13 sk14_14 sk14_15 sk15_0 sk15_1 sk15_2 sk15_3 sk15_4 sk15_5 sk15_6 sk15_7 sk15_8 sk15_9 sk15_10 sk15_11 sk15_12 sk15_13 sk15_14 sk15_15 sk16_0 sk16_1 sk16_2 sk16_3 sk16_4 sk16_5 sk16_6 sk16_7 sk16_8 sk16_9 sk16_10 sk16_11 sk16_12 sk16_13 sk16_14 sk16_15 sk17_0 sk17_1 sk17_2 sk17_3 sk17_4 sk17_5 sk17_6 sk17_7 sk17_8 sk17_9 sk17_10 sk17_11 sk17_12 sk17_13 sk17_14 sk17_15 sk18_0 sk18_1 sk18_2 sk18_3 sk18_4 sk18_5 sk18_6 sk18_7 sk18_8 sk18_9 sk18_10 sk18_11 sk18_12 sk18_13 sk18_14 sk18_15 sk19_0 sk19_1 sk19_2 sk19_3 sk19_4 sk19_5 sk19_6 sk19_7 sk19_8 sk19_9 sk19_10 sk19_11 sk19_12 sk19_13 sk19_14 sk19_15 sk20_0 sk20_1 sk20_2 sk20_3 sk20_4 sk20_5 sk20_6 sk20_7 sk20_8 sk20_9 sk20_10 sk20_11 sk20_12 sk20_13 sk20_14 sk20_15 b0 b1 b2 b3 b4 b5 b6 b7 b8 b9 b10 b11 b12 b13 b14 b15 =
      tup16 (encryptU64 (p := tf1024) ⟨#v[#v[sk0_0, sk0_1, sk0_2, sk0_3, sk0_4, sk0_5, sk0_6, sk0_7, sk0_8, sk0_9, sk0_10, sk0_11, sk0_12, sk0_13, sk0_14, sk0_15],
        #v[sk1_0, sk1_1, sk1_2, sk1_3, sk1_4, sk1_5, sk1_6, sk1_7, sk1_8, sk1_9, sk1_10, sk1_11, sk1_12, sk1_13, sk1_14, sk1_15],
        #v[sk2_0, sk2_1, sk2_2, sk2_3, sk2_4, sk2_5, sk2_6, sk2_7, sk2_8, sk2_9, sk2_10, sk2_11, sk2_12, sk2_13, sk2_14, sk2_15],
        #v[sk3_0, sk3_1, sk3_2, sk3_3, sk3_4, sk3_5, sk3_6, sk3_7, sk3_8, sk3_9, sk3_10, sk3_11, sk3_12, sk3_13, sk3_14, sk3_15],
        #v[sk4_0, sk4_1, sk4_2, sk4_3, sk4_4, sk4_5, sk4_6, sk4_7, sk4_8, sk4_9, sk4_10, sk4_11, sk4_12, sk4_13, sk4_14, sk4_15],
        #v[sk5_0, sk5_1, sk5_2, sk5_3, sk5_4, sk5_5, sk5_6, sk5_7, sk5_8, sk5_9, sk5_10, sk5_11, sk5_12, sk5_13, sk5_14, sk5_15],
        #v[sk6_0, sk6_1, sk6_2, sk6_3, sk6_4, sk6_5, sk6_6, sk6_7, sk6_8, sk6_9, sk6_10, sk6_11, sk6_12, sk6_13, sk6_14, sk6_15],
        #v[sk7_0, sk7_1, sk7_2, sk7_3, sk7_4, sk7_5, sk7_6, sk7_7, sk7_8, sk7_9, sk7_10, sk7_11, sk7_12, sk7_13, sk7_14, sk7_15],
        #v[sk8_0, sk8_1, sk8_2, sk8_3, sk8_4, sk8_5, sk8_6, sk8_7, sk8_8, sk8_9, sk8_10, sk8_11, sk8_12, sk8_13, sk8_14, sk8_15],
        #v[sk9_0, sk9_1, sk9_2, sk9_3, sk9_4, sk9_5, sk9_6, sk9_7, sk9_8, sk9_9, sk9_10, sk9_11, sk9_12, sk9_13, sk9_14, sk9_15],
        #v[sk10_0, sk10_1, sk10_2, sk10_3, sk10_4, sk10_5, sk10_6, sk10_7, sk10_8, sk10_9, sk10_10, sk10_11, sk10_12, sk10_13, sk10_14, sk10_15],
        #v[sk11_0, sk11_1, sk11_2, sk11_3, sk11_4, sk11_5, sk11_6, sk11_7, sk11_8, sk11_9, sk11_10, sk11_11, sk11_12, sk11_13, sk11_14, sk11_15],
        #v[sk12_0, sk12_1, sk12_2, sk12_3, sk12_4, sk12_5, sk12_6, sk12_7, sk12_8, sk12_9, sk12_10, sk12_11, sk12_12, sk12_13, sk12_14, sk12_15],
        #v[sk13_0, sk13_1, sk13_2, sk13_3, sk13_4, sk13_5, sk13_6, sk13_7, sk13_8, sk13_9, sk13_10, sk13_11, sk13_12, sk13_13, sk13_14, sk13_15],
        #v[sk14_0, sk14_1, sk14_2, sk14_3, sk14_4, sk14_5, sk14_6, sk14_7, sk14_8, sk14_9, sk14_10, sk14_11, sk14_12, sk14_13, sk14_14, sk14_15],
        #v[sk15_0, sk15_1, sk15_2, sk15_3, sk15_4, sk15_5, sk15_6, sk15_7, sk15_8, sk15_9, sk15_10, sk15_11, sk15_12, sk15_13, sk15_14, sk15_15],
        #v[sk16_0, sk16_1, sk16_2, sk16_3, sk16_4, sk16_5, sk16_6, sk16_7, sk16_8, sk16_9, sk16_10, sk16_11, sk16_12, sk16_13, sk16_14, sk16_15],
        #v[sk17_0, sk17_1, sk17_2, sk17_3, sk17_4, sk17_5, sk17_6, sk17_7, sk17_8, sk17_9, sk17_10, sk17_11, sk17_12, sk17_13, sk17_14, sk17_15],
        #v[sk18_0, sk18_1, sk18_2, sk18_3, sk18_4, sk18_5, sk18_6, sk18_7, sk18_8, sk18_9, sk18_10, sk18_11, sk18_12, sk18_13, sk18_14, sk18_15],
        #v[sk19_0, sk19_1, sk19_2, sk19_3, sk19_4, sk19_5, sk19_6, sk19_7, sk19_8, sk19_9, sk19_10, sk19_11, sk19_12, sk19_13, sk19_14, sk19_15],
        #v[sk20_0, sk20_1, sk20_2, sk20_3, sk20_4, sk20_5, sk20_6, sk20_7, sk20_8, sk20_9, sk20_10, sk20_11, sk20_12, sk20_13, sk20_14, sk20_15]]⟩ #v[b0, b1, b2, b3, b4, b5, b6, b7, b8, b9, b10, b11, b12, b13, b14, b15]) := by
  rw [threefish1024_encrypt_block_u64_vec, tup16_vec16]

/-- `Threefish1024::decrypt_block_u64` as regenerated from the Rust source IS the model's `decryptU64` -/
theorem threefish1024_decrypt_block_u64_vec (sk0_0 sk0_1 sk0_2 sk0_3 sk0_4 sk0_5 sk0_6 sk0_7 sk0_8 sk0_9 sk0_10 sk0_11 sk0_12 sk0_13 sk0_14 sk0_15 sk1_0 sk1_1 sk1_2 sk1_3 sk1_4 sk1_5 sk1_6 sk1_7 sk1_8 sk1_9 sk1_10 sk1_11 sk1_12 sk1_13 sk1_14 sk1_15 sk2_0 sk2_1 sk2_2 sk2_3 sk2_4 sk2_5 sk2_6 sk2_7 sk2_8 sk2_9 sk2_10 sk2_11 sk2_12 sk2_13 sk2_14 sk2_15 sk3_0 sk3_1 sk3_2 sk3_3 sk3_4 sk3_5 sk3_6 sk3_7 sk3_8 sk3_9 sk3_10 sk3_11 sk3_12 sk3_13 sk3_14 sk3_15 sk4_0 sk4_1 sk4_2 sk4_3 sk4_4 sk4_5 sk4_6 sk4_7 sk4_8 sk4_9 sk4_10 sk4_11 sk4_12 sk4_13 sk4_14 sk4_15 sk5_0 sk5_1 sk5_2 sk5_3 sk5_4 sk5_5 sk5_6 sk5_7 sk5_8 sk5_9 sk5_10 sk5_11 sk5_12 sk5_13 sk5_14 sk5_15 sk6_0 sk6_1 sk6_2 sk6_3 sk6_4 sk6_5 sk6_6 sk6_7 sk6_8 sk6_9 sk6_10 sk6_11 sk6_12 sk6_13 sk6_14 sk6_15 sk7_0 sk7_1 sk7_2 sk7_3 sk7_4 sk7_5 sk7_6 sk7_7 sk7_8 sk7_9 sk7_10 sk7_11 sk7_12 sk7_13 sk7_14 sk7_15 sk8_0 sk8_1 sk8_2 sk8_3 sk8_4 sk8_5 sk8_6 sk8_7 sk8_8 sk8_9 sk8_10 sk8_11 sk8_12 sk8_13 sk8_14 sk8_15 sk9_0 sk9_1 sk9_2 sk9_3 sk9_4 sk9_5 sk9_6 sk9_7 sk9_8 sk9_9 sk9_10 sk9_11 sk9_12 sk9_13 sk9_14 sk9_15 sk10_0 sk10_1 sk10_2 sk10_3 sk10_4 sk10_5 sk10_6 sk10_7 sk10_8 sk10_9 sk10_10 sk10_11 sk10_12 sk10_13 sk10_14 sk10_15 sk11_0 sk11_1 sk11_2 sk11_3 sk11_4 sk11_5 sk11_6 sk11_7 sk11_8 sk11_9 sk11_10 sk11_11 sk11_12 sk11_13 sk11_14 sk11_15 sk12_0 sk12_1 sk12_2 sk12_3 sk12_4 sk12_5 sk12_6 sk12_7 sk12_8 sk12_9 sk12_10 sk12_11 sk12_12 sk12_13 sk12_14 sk12_15 sk13_0 sk13_1 sk13_2 sk13_3 sk13_4 sk13_5 sk13_6 sk13_7 sk13_8 sk13_9 sk13_10 sk13_11 sk13_12 sk13_13 sk13_14 sk13_15 sk14_0 sk14_1 sk14_2 sk14_3 sk14_4 sk14_5 sk14_6 sk14_7 sk14_8 sk14_9 sk14_10 sk14_11 sk14_12 sk14_13 sk14_14 sk14_15 sk15_0 sk15_1 sk15_2 sk15_3 sk15_4 sk15_5 sk15_6 sk15_7 sk15_8 sk15_9 sk15_10 sk15_11 sk15_12 sk15_13 sk15_14 sk15_15 sk16_0 sk16_1 sk16_2 sk16_3 sk16_4 sk16_5 sk16_6 sk16_7 sk16_8 sk16_9 sk16_10 sk16_11 sk16_12 sk16_13 sk16_14 sk16_15 sk17_0 sk17_1 sk17_2 sk17_3 sk17_4 sk17_5 sk17_6 sk17_7 sk17_8 sk17_9 sk17_10 sk17_11 sk17_12 sk17_13 sk17_14 sk17_15 sk18_0 sk18_1 sk18_2 sk18_3 sk18_4 sk18_5 sk18_6 sk18_7 sk18_8 sk18_9 sk18_10 sk18_11 sk18_12 sk18_13 sk18_14 sk18_15 sk19_0 sk19_1 sk19_2 sk19_3 sk19_4 sk19_5 sk19_6 sk19_7 sk19_8 sk19_9 sk19_10 sk19_11 sk19_12 sk19_13 sk19_14 sk19_15 sk20_0 sk20_1 sk20_2 sk20_3 sk20_4 sk20_5 sk20_6 sk20_7 sk20_8 sk20_9 sk20_10 sk20_11 sk20_12 sk20_13 sk20_14 sk20_15 b0 b1 b2 b3 b4 b5 b6 b7 b8 b9 b10 b11 b12 b13 b14 b15 : BitVec 64) :
    decryptU64 (p := tf1024) ⟨#v[#v[sk0_0, sk0_1, sk0_2, sk0_3, sk0_4, sk0_5, sk0_6, sk0_7, sk0_8, sk0_9, sk0_10, sk0_11, sk0_12, sk0_13, sk0_14, sk0_15],
        #v[sk1_0, sk1_1, sk1_2, sk1_3, sk1_4, sk1_5, sk1_6, sk1_7, sk1_8, sk1_9, sk1_10, sk1_11, sk1_12, sk1_13, sk1_14, sk1_15],
        #v[sk2_0, sk2_1, sk2_2, sk2_3, sk2_4, sk2_5, sk2_6, sk2_7, sk2_8, sk2_9, sk2_10, sk2_11, sk2_12, sk2_13, sk2_14, sk2_15],
        #v[sk3_0, sk3_1, sk3_2, sk3_3, sk3_4, sk3_5, sk3_6, sk3_7, sk3_8, sk3_9, sk3_10, sk3_11, sk3_12, sk3_13, sk3_14, sk3_15],
        #v[sk4_0, sk4_1, sk4_2, sk4_3, sk4_4, sk4_5, sk4_6, sk4_7, sk4_8, sk4_9, sk4_10, sk4_11, sk4_12, sk4_13, sk4_14, sk4_15],
        #v[sk5_0, sk5_1, sk5_2, sk5_3, sk5_4, sk5_5, sk5_6, sk5_7, sk5_8, sk5_9, sk5_10, sk5_11, sk5_12, sk5_13, sk5_14, sk5_15],
        #v[sk6_0, sk6_1, sk6_2, sk6_3, sk6_4, sk6_5, sk6_6, sk6_7, sk6_8, sk6_9, sk6_10, sk6_11, sk6_12, sk6_13, sk6_14, sk6_15],
        #v[sk7_0, sk7_1, sk7_2, sk7_3, sk7_4, sk7_5, sk7_6, sk7_7, sk7_8, sk7_9, sk7_10, sk7_11, sk7_12, sk7_13, sk7_14, sk7_15],
        #v[sk8_0, sk8_1, sk8_2, sk8_3, sk8_4, sk8_5, sk8_6, sk8_7, sk8_8, sk8_9, sk8_10, sk8_11, sk8_12, sk8_13, sk8_14, sk8_15],
        #v[sk9_0, sk9_1, sk9_2, sk9_3, sk9_4, sk9_5, sk9_6, sk9_7, sk9_8, sk9_9, sk9_10, sk9_11, sk9_12, sk9_13, sk9_14, sk9_15],
        #v[sk10_0, sk10_1, sk10_2, sk10_3, sk10_4, sk10_5, sk10_6, sk10_7, sk10_8, sk10_9, sk10_10, sk10_11, sk10_12, sk10_13, sk10_14, sk10_15],
        #v[sk11_0, sk11_1, sk11_2, sk11_3, sk11_4, sk11_5, sk11_6, sk11_7, sk11_8, sk11_9, sk11_10, sk11_11, sk11_12, sk11_13, sk11_14, sk11_15],
        #v[sk12_0, sk12_1, sk12_2, sk12_3, sk12_4, sk12_5, sk12_6, sk12_7, sk12_8, sk12_9, sk12_10, sk12_11, sk12_12, sk12_13, sk12_14, sk12_15],
        #v[sk13_0, sk13_1, sk13_2, sk13_3, sk13_4, sk13_5, sk13_6, sk13_7, sk13_8, sk13_9, sk13_10, sk13_11, sk13_12, sk13_13, sk13_14, sk13_15],
        #v[sk14_0, sk14_1, sk14_2, sk14_3, sk14_4, sk14_5, sk14_6, sk14_7, sk14_8, sk14_9, sk14_10, sk14_11, sk14_12, sk14_13, sk14_14, sk14_15],
        #v[sk15_0, sk15_1, sk15_2, sk15_3, sk15_4, sk15_5, sk15_6, sk15_7, sk15_8, sk15_9, sk15_10, sk15_11, sk15_12, sk15_13, sk15_14, sk15_15],
        #v[sk16_0, sk16_1, sk16_2, sk16_3, sk16_4, sk16_5, sk16_6, sk16_7, sk16_8, sk16_9, sk16_10, sk16_11, sk16_12, sk16_13, sk16_14, sk16_15],
        #v[sk17_0, sk17_1, sk17_2, sk17_3, sk17_4, sk17_5, sk17_6, sk17_7, sk17_8, sk17_9, sk17_10, sk17_11, sk17_12, sk17_13, sk17_14, sk17_15],
        #v[sk18_0, sk18_1, sk18_2, sk18_3, sk18_4, sk18_5, sk18_6, sk18_7, sk18_8, sk18_9, sk18_10, sk18_11, sk18_12, sk18_13, sk18_14, sk18_15],
        #v[sk19_0, sk19_1, sk19_2, sk19_3, sk19_4, sk19_5, sk19_6, sk19_7, sk19_8, sk19_9, sk19_10, sk19_11, sk19_12, sk19_13, sk19_14, sk19_15],
        #v[sk20_0, sk20_1, sk20_2, sk20_3, sk20_4, sk20_5, sk20_6, sk20_7, sk20_8, sk20_9, sk20_10, sk20_11, sk20_12, sk20_13, sk20_14, sk20_15]]⟩ #v[b0, b1, b2, b3, b4, b5, b6, b7, b8, b9, b10, b11, b12, b13, b14, b15] =
      vec16 (threefish1024_decrypt_block_u64 sk0_0 sk0_1 sk0_2 sk0_3 sk0_4 sk0_5 sk0_6 sk0_7 sk0_8 sk0_9 sk0_10 sk0_11 sk0_12 sk0_13 sk0_14 sk0_15 sk1_0 sk1_1 sk1_2 sk1_3 sk1_4 sk1_5 sk1_6 sk1_7 sk1_8 sk1_9 sk1_10 sk1_11 sk1_12 sk1_13 sk1_14 sk1_15 sk2_0 sk2_1 sk2_2 sk2_3 sk2_4 sk2_5 sk2_6 sk2_7 sk2_8 sk2_9 sk2_10 sk2_11 sk2_12 sk2_13 sk2_14 sk2_15 sk3_0 sk3_1 sk3_2 sk3_3 sk3_4 sk3_5 sk3_6 sk3_7 sk3_8 sk3_9 sk3_10 sk3_11 sk3_12 sk3_13 sk3_14 sk3_15 sk4_0 sk4_1 sk4_2 sk4_3 sk4_4 sk4_5 sk4_6 sk4_7 sk4_8 sk4_9 sk4_10 sk4_11 sk4_12 sk4_13 sk4_14 sk4_15 sk5_0 sk5_1 sk5_2 sk5_3 sk5_4 sk5_5 sk5_6 sk5_7 sk5_8 sk5_9 sk5_10 sk5_11 sk5_12 sk5_13 sk5_14 sk5_15 sk6_0 sk6_1 sk6_2 sk6_3 sk6_4 sk6_5 sk6_6 sk6_7 sk6_8 sk6_9 sk6_10 sk6_11 sk6_12 sk6_13 sk6_14 sk6_15 sk7_0 sk7_1 sk7_2 sk7_3 sk7_4 sk7_5 sk7_6 sk7_7 sk7_8 sk7_9 sk7_10 sk7_11 sk7_12 sk7_13 sk7_14 sk7_15 sk8_0 sk8_1 sk8_2 sk8_3 sk8_4 sk8_5 sk8_6 sk8_7 sk8_8 sk8_9 sk8_10 sk8_11 sk8_12 sk8_13 sk8_14 sk8_15 sk9_0 sk9_1 sk9_2 sk9_3 sk9_4 sk9_5 sk9_6 sk9_7 sk9_8 sk9_9 sk9_10 sk9_11 sk9_12 sk9_13 sk9_14 sk9_15 sk10_0 sk10_1 sk10_2 sk10_3 sk10_4 sk10_5 sk10_6 sk10_7 sk10_8 sk10_9 sk10_10 sk10_11 sk10_12 sk10_13 sk10_14 sk10_15 sk11_0 sk11_1 sk11_2 sk11_3 sk11_4 sk11_5 sk11_6 sk11_7 sk11_8 sk11_9 sk11_10 sk11_11 sk11_12 sk11_13 sk11_14 sk11_15 sk12_0 sk12_1 sk12_2 sk12_3 sk12_4 sk12_5 sk12_6 sk12_7 sk12_8 sk12_9 sk12_10 sk12_11 sk12_12 sk12_13 sk12_14 sk12_15 sk13_0 sk13_1 sk13_2 sk13_3 sk13_4 sk13_5 sk13_6 sk13_7 sk13_8 sk13_9 sk13_10 sk13_11 sk13_12 sk13_13 sk13_14 sk13_15 sk14_0 sk14_1 sk14_2 sk14_3 sk14_4 sk14_5 sk14_6 sk14_7 sk14_8 sk14_9 sk14_10 sk14_11 sk14_12 sk14_13 sk14_14 sk14_15 sk15_0 sk15_1 sk15_2 sk15_3 sk15_4 sk15_5 sk15_6 sk15_7 sk15_8 sk15_9 sk15_10 sk15_11 sk15_12 sk15_13 sk15_14 sk15_15 sk16_0 sk16_1 sk16_2 sk16_3 sk16_4 sk16_5 sk16_6 sk16_7 sk16_8 sk16_9 sk16_10 sk16_11 sk16_12 sk16_13 sk16_14 sk16_15 sk17_0 sk17_1 sk17_2 sk17_3 sk17_4 sk17_5 sk17_6 sk17_7 sk17_8 sk17_9 sk17_10 sk17_11 sk17_12 sk17_13 sk17_14 sk17_15 sk18_0 sk18_1 sk18_2 sk18_3 sk18_4 sk18_5 sk18_6 sk18_7 sk18_8 sk18_9 sk18_10 sk18_11 sk18_12 sk18_13 sk18_14 sk18_15 sk19_0 sk19_1 sk19_2 sk19_3 sk19_4 sk19_5 sk19_6 sk19_7 sk19_8 sk19_9 sk19_10 sk19_11 sk19_12 sk19_13 sk19_14 sk19_15 sk20_0 sk20_1 sk20_2 sk20_3 sk20_4 sk20_5 sk20_6 sk20_7 sk20_8 sk20_9 sk20_10 sk20_11 sk20_12 sk20_13 sk20_14 sk20_15 b0 b1 b2 b3 b4 b5 b6 b7 b8 b9 b10 b11 b12 b13 b14 b15) := by
  refine (congrArg (List.foldl _ · _) (subRow16 _ _)).trans ?_
  tf_kernel_rfl

theorem threefish1024_decrypt_block_u64_eq (sk0_0 sk0_1 sk0_2 sk0_3 sk0_4 sk0_5 sk0_6 sk0_7 sk0_8 sk0_9 sk0_10 sk0_11 sk0_12 sk0_13 sk0_14 sk0_15 sk1_0 sk1_1 sk1_2 sk1_3 sk1_4 sk1_5 sk1_6 sk1_7 sk1_8 sk1_9 sk1_10 sk1_11 sk1_12 sk1_13 sk1_14 sk1_15 sk2_0 sk2_1 sk2_2 sk2_3 sk2_4 sk2_5 sk2_6 sk2_7 sk2_8 sk2_9 sk2_10 sk2_11 sk2_12 sk2_13 sk2_14 sk2_15 sk3_0 sk3_1 sk3_2 sk3_3 sk3_4 sk3_5 sk3_6 sk3_7 sk3_8 sk3_9 sk3_10 sk3_11 sk3_12 sk3_13 sk3_14 sk3_15 sk4_0 sk4_1 sk4_2 sk4_3 sk4_4 sk4_5 sk4_6 sk4_7 sk4_8 sk4_9 sk4_10 sk4_11 sk4_12 sk4_13 sk4_14 sk4_15 sk5_0 sk5_1 sk5_2 sk5_3 sk5_4 sk5_5 sk5_6 sk5_7 sk5_8 sk5_9 sk5_10 sk5_11 sk5_12 sk5_13 sk5_14 sk5_15 sk6_0 sk6_1 sk6_2 sk6_3 sk6_4 sk6_5 sk6_6 sk6_7 sk6_8 sk6_9 sk6_10 sk6_11 sk6_12 sk6_13 sk6_14 sk6_15 sk7_0 sk7_1 sk7_2 sk7_3 sk7_4 sk7_5 sk7_6 sk7_7 sk7_8 sk7_9 sk7_10 sk7_11 sk7_12 sk7_13 sk7_14 sk7_15 sk8_0 sk8_1 sk8_2 sk8_3 sk8_4 sk8_5 sk8_6 sk8_7 sk8_8 sk8_9 sk8_10 sk8_11 sk8_12 sk8_13 sk8_14 sk8_15 sk9_0 sk9_1 sk9_2 sk9_3 sk9_4 sk9_5 sk9_6 sk9_7 sk9_8 sk9_9 sk9_10 sk9_11 sk9_12 sk9_13 sk9_14 sk9_15 sk10_0 sk10_1 sk10_2 sk10_3 sk10_4 sk10_5 sk10_6 sk10_7 sk10_8 sk10_9 sk10_10 sk10_11 sk10_12 sk10_13 sk10_14 sk10_15 sk11_0 sk11_1 sk11_2 sk11_3 sk11_4 sk11_5 sk11_6 sk11_7 sk11_8 sk11_9 sk11_10 sk11_11 sk11_12 sk11_13 sk11_14 sk11_15 sk12_0 sk12_1 sk12_2 sk12_3 sk12_4 sk12_5 sk12_6 sk12_7 sk12_8 sk12_9 sk12_10 sk12_11 sk12_12 sk12_13 sk12_14 sk12_15 sk13_0 sk13_1 sk13_2 sk13_3 sk13_4 sk13_5 sk13_6 sk13_7 sk13_8 sk13_9 sk13_10 sk13_11 sk13_12 sk13_13 sk13_14 sk13_15 sk14_0 sk14_1 sk14_2 sk14_3 sk14_4 sk14_5 sk14_6 sk14_7 sk14_8 sk14_9 sk14_10 sk14_11 sk14_12 sk14_13 sk14_14 sk14_15 sk15_0 sk15_1 sk15_2 sk15_3 sk15_4 sk15_5 sk15_6 sk15_7 sk15_8 sk15_9 sk15_10 sk15_11 sk15_12 sk15_13 sk15_14 sk15_15 sk16_0 sk16_1 sk16_2 sk16_3 sk16_4 sk16_5 sk16_6 sk16_7 sk16_8 sk16_9 sk16_10 sk16_11 sk16_12 sk16_13 sk16_14 sk16_15 sk17_0 sk17_1 sk17_2 sk17_3 sk17_4 sk17_5 sk17_6 sk17_7 sk17_8 sk17_9 sk17_10 sk17_11 sk17_12 sk17_13 sk17_14 sk17_15 sk18_0 sk18_1 sk18_2 sk18_3 sk18_4 sk18_5 sk18_6 sk18_7 sk18_8 sk18_9 sk18_10 sk18_11 sk18_12 sk18_13 sk18_14 sk18_15 sk19_0 sk19_1 sk19_2 sk19_3 sk19_4 sk19_5 sk19_6 sk19_7 sk19_8 sk19_9 sk19_10 sk19_11 sk19_12 sk19_13 sk19_14 sk19_15 sk20_0 sk20_1 sk20_2 sk20_3 sk20_4 sk20_5 sk20_6 sk20_7 sk20_8 sk20_9 sk20_10 sk20_11 sk20_12 sk20_13 sk20_14 sk20_15 b0 b1 b2 b3 b4 b5 b6 b7 b8 b9 b10 b11 b12 b13 b14 b15 : BitVec 64) :
    threefish1024_decrypt_block_u64 sk0_0 sk0_1 sk0_2 sk0_3 sk0_4 sk0_5 sk0_6 sk0_7 sk0_8 sk0_9 sk0_10 sk0_11 sk0_12 sk0_13 sk0_14 sk0_15 sk1_0 sk1_1 sk1_2 sk1_3 sk1_4 sk1_5 sk1_6 sk1_7 sk1_8 sk1_9 sk1_10 sk1_11 sk1_12 sk1_13 sk1_14 sk1_15 sk2_0 sk2_1 sk2_2 sk2_3 sk2_4 sk2_5 sk2_6 sk2_7 sk2_8 sk2_9 sk2_10 sk2_11 sk2_12 sk2_13 sk2_14 sk2_15 sk3_0 sk3_1 sk3_2 sk3_3 sk3_4 sk3_5 sk3_6 sk3_7 sk3_8 sk3_9 sk3_10 sk3_11 sk3_12 sk3_13 sk3_14 sk3_15 sk4_0 sk4_1 sk4_2 sk4_3 sk4_4 sk4_5 sk4_6 sk4_7 sk4_8 sk4_9 sk4_10 sk4_11 sk4_12 sk4_13 sk4_14 sk4_15 sk5_0 sk5_1 sk5_2 sk5_3 sk5_4 sk5_5 sk5_6 sk5_7 sk5_8 sk5_9 sk5_10 sk5_11 sk5_12 sk5_13 sk5_14 sk5_15 sk6_0 sk6_1 sk6_2 sk6_3 sk6_4 sk6_5 sk6_6 sk6_7 sk6_8 sk6_9 sk6_10 sk6_11 sk6_12 sk6_13 sk6_14 sk6_15 sk7_0 sk7_1 sk7_2 sk7_3 sk7_4 sk7_5 sk7_6 sk7_7 sk7_8 sk7_9 sk7_10 sk7_11 sk7_12 sk7_13 sk7_14 sk7_15 sk8_0 sk8_1 sk8_2 sk8_3 sk8_4 sk8_5 sk8_6 sk8_7 sk8_8 sk8_9 sk8_10 sk8_11 sk8_12 sk8_13 sk8_14 sk8_15 sk9_0 sk9_1 sk9_2 sk9_3 sk9_4 sk9_5 sk9_6 sk9_7 sk9_8 sk9_9 sk9_10 sk9_11 sk9_12 sk9_13 sk9_14 sk9_15 sk10_0 sk10_1 sk10_2 sk10_3 sk10_4 sk10_5 sk10_6 sk10_7 sk10_8 sk10_9 sk10_10 sk10_11 sk10_12 sk10_13 sk10_14 sk10_15 sk11_0 sk11_1 sk11_2 sk11_3 sk11_4 sk11_5 sk11_6 sk11_7 sk11_8 sk11_9 sk11_10 sk11_11 sk11_12 sk11_13 sk11_14 sk11_15 sk12_0 sk12_1 sk12_2 sk12_3 sk12_4 sk12_5 sk12_6 sk12_7 sk12_8 sk12_9 sk12_10 sk12_11 sk12_12 sk12_13 sk12_14 sk12_15 sk13_0 sk13_1 sk13_2 sk13_3 sk13_4 sk13_5 sk13_6 sk13_7 sk13_8 sk13_9 sk13_10 sk13_11 sk13_12 sk13_13 sk13_14 sk13_15 sk14_0 sk14_1 sk14_2 sk14_3 sk14_4 sk14_5 sk14_6 sk14_7 sk14_8 sk14_9 sk14_10 sk14_11 sk14_12 sk14_13 sk14_14 sk14_15 sk15_0 sk15_1 sk15_2 sk15_3 sk15_4 sk15_5 sk15_6 sk15_7 sk15_8 sk15_9 sk15_10 sk15_11 sk15_12 sk15_13 sk15_14 sk15_15 sk16_0 sk16_1 sk16_2 sk16_3 sk16_4 sk16_5 sk16_6 sk16_7 sk16_8 sk16_9 sk16_10 sk16_11 sk16_12 sk16_13 sk16_14 sk16_15 sk17_0 sk17_1 sk17_2 sk17_3 sk17_4 sk17_5 sk17_6 sk17_7 sk17_8 sk17_9 sk17_10 sk17_11 sk17_12 sk17_13 sk17_14 sk17_15 sk18_0 sk18_1 sk18_2 sk18_3 sk18_4 sk18_5 sk18_6 sk18_7 sk18_8 sk18_9 sk18_10 sk18_11 sk18_12 sk18_13 sk18_14 sk18_15 sk19_0 sk19_1 sk19_2 sk19_3 sk19_4 sk19_5 sk19_6 sk19_7 sk19_8 sk19_9 sk19_10 sk19_11 sk19_12 sk19_13 sk19_14 sk19_15 sk20_0 sk20_1 sk20_2 sk20_3 sk20_4 sk20_5 sk20_6 sk20_7 sk20_8 sk20_9 sk20_10 sk20_11 sk20_12 sk20_13 sk20_14 sk20_15 b0 b1 b2 b3 b4 b5 b6 b7 b8 b9 b10 b11 b12 b13 b14 b15 =
      tup16 (decryptU64 (p := tf1024) ⟨#v[#v[sk0_0, sk0_1, sk0_2, sk0_3, sk0_4, sk0_5, sk0_6, sk0_7, sk0_8, sk0_9, sk0_10, sk0_11, sk0_12, sk0_13, sk0_14, sk0_15],
        #v[sk1_0, sk1_1, sk1_2, sk1_3, sk1_4, sk1_5, sk1_6, sk1_7, sk1_8, sk1_9, sk1_10, sk1_11, sk1_12, sk1_13, sk1_14, sk1_15],
        #v[sk2_0, sk2_1, sk2_2, sk2_3, sk2_4, sk2_5, sk2_6, sk2_7, sk2_8, sk2_9, sk2_10, sk2_11, sk2_12, sk2_13, sk2_14, sk2_15],
        #v[sk3_0, sk3_1, sk3_2, sk3_3, sk3_4, sk3_5, sk3_6, sk3_7, sk3_8, sk3_9, sk3_10, sk3_11, sk3_12, sk3_13, sk3_14, sk3_15],
        #v[sk4_0, sk4_1, sk4_2, sk4_3, sk4_4, sk4_5, sk4_6, sk4_7, sk4_8, sk4_9, sk4_10, sk4_11, sk4_12, sk4_13, sk4_14, sk4_15],
        #v[sk5_0, sk5_1, sk5_2, sk5_3, sk5_4, sk5_5, sk5_6, sk5_7, sk5_8, sk5_9, sk5_10, sk5_11, sk5_12, sk5_13, sk5_14, sk5_15],
        #v[sk6_0, sk6_1, sk6_2, sk6_3, sk6_4, sk6_5, sk6_6, sk6_7, sk6_8, sk6_9, sk6_10, sk6_11, sk6_12, sk6_13, sk6_14, sk6_15],
        #v[sk7_0, sk7_1, sk7_2, sk7_3, sk7_4, sk7_5, sk7_6, sk7_7, sk7_8, sk7_9, sk7_10, sk7_11, sk7_12, sk7_13, sk7_14, sk7_15],
        #v[sk8_0, sk8_1, sk8_2, sk8_3, sk8_4, sk8_5, sk8_6, sk8_7, sk8_8, sk8_9, sk8_10, sk8_11, sk8_12, sk8_13, sk8_14, sk8_15],
        #v[sk9_0, sk9_1, sk9_2, sk9_3, sk9_4, sk9_5, sk9_6, sk9_7, sk9_8, sk9_9, sk9_10, sk9_11, sk9_12, sk9_13, sk9_14, sk9_15],
        #v[sk10_0, sk10_1, sk10_2, sk10_3, sk10_4, sk10_5, sk10_6, sk10_7, sk10_8, sk10_9, sk10_10, sk10_11, sk10_12, sk10_13, sk10_14, sk10_15],
        #v[sk11_0, sk11_1, sk11_2, sk11_3, sk11_4, sk11_5, sk11_6, sk11_7, sk11_8, sk11_9, sk11_10, sk11_11, sk11_12, sk11_13, sk11_14, sk11_15],
        #v[sk12_0, sk12_1, sk12_2, sk12_3, sk12_4, sk12_5, sk12_6, sk12_7, sk12_8, sk12_9, sk12_10, sk12_11, sk12_12, sk12_13, sk12_14, sk12_15],
        #v[sk13_0, sk13_1, sk13_2, sk13_3, sk13_4, sk13_5, sk13_6, sk13_7, sk13_8, sk13_9, sk13_10, sk13_11, sk13_12, sk13_13, sk13_14, sk13_15],
        #v[sk14_0, sk14_1, sk14_2, sk14_3, sk14_4, sk14_5, sk14_6, sk14_7, sk14_8, sk14_9, sk14_10, sk14_11, sk14_12, sk14_13, sk14_14, sk14_15],
        #v[sk15_0, sk15_1, sk15_2, sk15_3, sk15_4, sk15_5, sk15_6, sk15_7, sk15_8, sk15_9, sk15_10, sk15_11, sk15_12, sk15_13, sk15_14, sk15_15],
        #v[sk16_0, sk16_1, sk16_2, sk16_3, sk16_4, sk16_5, sk16_6, sk16_7, sk16_8, sk16_9, sk16_10, sk16_11, sk16_12, sk16_13, sk16_14, sk16_15],
        #v[sk17_0, sk17_1, sk17_2, sk17_3, sk17_4, sk17_5, sk17_6, sk17_7, sk17_8, sk17_9, sk17_10, sk17_11, sk17_12, sk17_13, sk17_14, sk17_15],
        #v[sk18_0, sk18_1, sk18_2, sk18_3, sk18_4, sk18_5, sk18_6, sk18_7, sk18_8, sk18_9, sk18_10, sk18_11, sk18_12, sk18_13, sk18_14, sk18_15],
        #v[sk19_0, sk19_1, sk19_2, sk19_3, sk19_4, sk19_5, sk19_6, sk19_7, sk19_8, sk19_9, sk19_10, sk19_11, sk19_12, sk19_13, sk19_14, sk19_15],
        #v[sk20_0, sk20_1, sk20_2, sk20_3, sk20_4, sk20_5, sk20_6, sk20_7, sk20_8, sk20_9, sk20_10, sk20_11, sk20_12, sk20_13, sk20_14, sk20_15]]⟩ #v[b0, b1, b2, b3, b4, b5, b6, b7, b8, b9, b10, b11, b12, b13, b14, b15]) := by
  rw [threefish1024_decrypt_block_u64_vec, tup16_vec16]

end BC.GenCipher.Threefish
