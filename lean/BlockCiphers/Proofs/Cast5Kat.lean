import BlockCiphers.Impl.Cast5
/-
RFC 2144 Appendix B.1 known-answer vectors (128-, 80-, 40-bit key), checked by the kernel on the model
of the crate, both directions.  (They exercise both round counts and the zero padding.)
-/
namespace BC.Cast5.Kat

def hexBytes (n : Nat) (len : Nat) : Bytes := unpackBE len (BitVec.ofNat (8 * len) n)

/-- encrypt / decrypt with the schedule of `key`; `none` if the length is rejected -/
def enc (key : Bytes) (b : BitVec 64) : Option (BitVec 64) := (new key).map (fun ks => encrypt ks b)
def dec (key : Bytes) (b : BitVec 64) : Option (BitVec 64) := (new key).map (fun ks => decrypt ks b)

def key128 : Bytes := hexBytes 0x0123456712345678234567893456789A 16
def key80 : Bytes := hexBytes 0x01234567123456782345 10
def key40 : Bytes := hexBytes 0x0123456712 5
def pt : BitVec 64 := 0x0123456789ABCDEF#64

set_option maxRecDepth 100000 in
example : enc key128 pt = some 0x238B4FE5847E44B2#64 := by decide +kernel
set_option maxRecDepth 100000 in
example : dec key128 0x238B4FE5847E44B2#64 = some pt := by decide +kernel
set_option maxRecDepth 100000 in
example : enc key80 pt = some 0xEB6A711A2C02271B#64 := by decide +kernel
set_option maxRecDepth 100000 in
example : dec key80 0xEB6A711A2C02271B#64 = some pt := by decide +kernel
set_option maxRecDepth 100000 in
example : enc key40 pt = some 0x7AC816D16E9B302E#64 := by decide +kernel
set_option maxRecDepth 100000 in
example : dec key40 0x7AC816D16E9B302E#64 = some pt := by decide +kernel

/-- RFC 2144 §2.5: the 80-bit key is the 128-bit key `01 23 45 67 12 34 56 78 23 45 00 00 00 00 00 00`
with 12 rounds; with 16 rounds (i.e. given as a 16-byte key) the ciphertext differs -/
example : enc (hexBytes 0x01234567123456782345000000000000 16) pt ≠ some 0xEB6A711A2C02271B#64 := by
  decide +kernel

end BC.Cast5.Kat
