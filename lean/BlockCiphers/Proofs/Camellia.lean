import BlockCiphers.Proofs.Basic
import BlockCiphers.Impl.Camellia
/-
C01 for the `camellia` crate: `decrypt_block ∘ encrypt_block = id` and `encrypt_block ∘ decrypt_block = id`
for every subkey array (hence for every key of the three sizes) and every block.
The proof uses nothing about `f` (any round function works), `flinv ∘ fl = id = fl ∘ flinv`
(`bv_decide (config := { timeout := 600 })`), and the index pattern of the two loops of lib.rs.
-/
namespace BC.Camellia

/-! ### FL layer -/

theorem flinv_fl (x k : BitVec 64) : flinv (fl x k) k = x := by
  unfold fl flinv; bv_decide (config := { timeout := 600 })

theorem fl_flinv (x k : BitVec 64) : fl (flinv x k) k = x := by
  unfold fl flinv; bv_decide (config := { timeout := 600 })

/-! ### one loop iteration -/

/-- the exchange of halves done by `b1.copy_from_slice(&d2..); b2.copy_from_slice(&d1..)` -/
def swap (s : St) : St := { d1 := s.d2, d2 := s.d1 }

theorem swap_swap (s : St) : swap (swap s) = s := rfl

theorem decStep_encStep (k : Nat → BitVec 64) (s : St) (i : Nat) :
    decStep k (swap (encStep k s i)) (i + 1) = swap s := by
  cases s with | mk d1 d2 =>
  unfold decStep encStep swap
  simp only [Nat.add_sub_cancel]
  split
  · simp [flinv_fl, fl_flinv]
  · simp [BitVec.xor_assoc]

theorem encStep_decStep (k : Nat → BitVec 64) (s : St) (i : Nat) :
    encStep k (swap (decStep k s (i + 1))) i = swap s := by
  cases s with | mk d1 d2 =>
  unfold decStep encStep swap
  simp only [Nat.add_sub_cancel]
  split
  · simp [flinv_fl, fl_flinv]
  · simp [BitVec.xor_assoc]

/-! ### the loops -/

theorem dec_enc_loop (k : Nat → BitVec 64) (l : List Nat) (s : St) :
    (l.reverse.map (· + 1)).foldl (decStep k) (swap (l.foldl (encStep k) s)) = swap s := by
  induction l generalizing s with
  | nil => rfl
  | cons i l ih =>
    simp only [List.foldl_cons, List.reverse_cons, List.map_append, List.foldl_append, List.map_cons,
      List.map_nil, List.foldl_nil]
    rw [ih, decStep_encStep]

theorem enc_dec_loop_aux (k : Nat → BitVec 64) (m : List Nat) (s : St) :
    m.reverse.foldl (encStep k) (swap ((m.map (· + 1)).foldl (decStep k) s)) = swap s := by
  induction m generalizing s with
  | nil => rfl
  | cons j m ih =>
    simp only [List.foldl_cons, List.reverse_cons, List.foldl_append, List.map_cons, List.foldl_nil]
    rw [ih, encStep_decStep]

theorem enc_dec_loop (k : Nat → BitVec 64) (l : List Nat) (s : St) :
    l.foldl (encStep k) (swap ((l.reverse.map (· + 1)).foldl (decStep k) s)) = swap s := by
  have := enc_dec_loop_aux k l.reverse s
  rwa [List.reverse_reverse] at this

/-- the decryption loop visits the encryption indices in reverse, shifted by one (`i` vs `i + 1`) -/
theorem decIdx_eq_26 : decIdx 26 = (encIdx 26).reverse.map (· + 1) := by decide
theorem decIdx_eq_34 : decIdx 34 = (encIdx 34).reverse.map (· + 1) := by decide

/-! ### whole block -/

theorem hi_append (x y : BitVec 64) : (x ++ y).extractLsb' 64 64 = x := by bv_decide (config := { timeout := 600 })
theorem lo_append (x y : BitVec 64) : (x ++ y).extractLsb' 0 64 = y := by bv_decide (config := { timeout := 600 })
theorem append_hi_lo (b : BitVec 128) : b.extractLsb' 64 64 ++ b.extractLsb' 0 64 = b := by bv_decide (config := { timeout := 600 })

theorem xor_xor_cancel_right (a b : BitVec 64) : (a ^^^ b) ^^^ b = a := by
  rw [BitVec.xor_assoc, BitVec.xor_self, BitVec.xor_zero]

theorem decryptWith_encryptWith (k : Nat → BitVec 64) (rk : Nat)
    (h : decIdx rk = (encIdx rk).reverse.map (· + 1)) (b : BitVec 128) :
    decryptWith k rk (encryptWith k rk b) = b := by
  unfold decryptWith encryptWith
  simp only [hi_append, lo_append, xor_xor_cancel_right, h]
  have := dec_enc_loop k (encIdx rk)
    { d1 := b.extractLsb' 64 64 ^^^ k 0, d2 := b.extractLsb' 0 64 ^^^ k 1 }
  simp only [swap] at this
  rw [this]
  simp only [xor_xor_cancel_right, append_hi_lo]

theorem encryptWith_decryptWith (k : Nat → BitVec 64) (rk : Nat)
    (h : decIdx rk = (encIdx rk).reverse.map (· + 1)) (b : BitVec 128) :
    encryptWith k rk (decryptWith k rk b) = b := by
  unfold decryptWith encryptWith
  simp only [hi_append, lo_append, xor_xor_cancel_right, h]
  have := enc_dec_loop k (encIdx rk)
    { d1 := b.extractLsb' 64 64 ^^^ k (rk - 2), d2 := b.extractLsb' 0 64 ^^^ k (rk - 1) }
  simp only [swap] at this
  rw [this]
  simp only [xor_xor_cancel_right, append_hi_lo]

/-! ### the three public types: every key, every block -/

theorem decrypt_encrypt128 (key b : BitVec 128) : decrypt128 key (encrypt128 key b) = b :=
  decryptWith_encryptWith _ 26 decIdx_eq_26 b
theorem encrypt_decrypt128 (key b : BitVec 128) : encrypt128 key (decrypt128 key b) = b :=
  encryptWith_decryptWith _ 26 decIdx_eq_26 b
theorem decrypt_encrypt192 (key : BitVec 192) (b : BitVec 128) : decrypt192 key (encrypt192 key b) = b :=
  decryptWith_encryptWith _ 34 decIdx_eq_34 b
theorem encrypt_decrypt192 (key : BitVec 192) (b : BitVec 128) : encrypt192 key (decrypt192 key b) = b :=
  encryptWith_decryptWith _ 34 decIdx_eq_34 b
theorem decrypt_encrypt256 (key : BitVec 256) (b : BitVec 128) : decrypt256 key (encrypt256 key b) = b :=
  decryptWith_encryptWith _ 34 decIdx_eq_34 b
theorem encrypt_decrypt256 (key : BitVec 256) (b : BitVec 128) : encrypt256 key (decrypt256 key b) = b :=
  encryptWith_decryptWith _ 34 decIdx_eq_34 b

/-- the same for any subkey array whatsoever (the statement used by `Models.Camellia`) -/
theorem decryptBlock_encryptBlock (ks : Array (BitVec 64)) (b : BitVec 128) :
    decryptBlock ks 26 (encryptBlock ks 26 b) = b ∧ decryptBlock ks 34 (encryptBlock ks 34 b) = b :=
  ⟨decryptWith_encryptWith _ 26 decIdx_eq_26 b, decryptWith_encryptWith _ 34 decIdx_eq_34 b⟩
theorem encryptBlock_decryptBlock (ks : Array (BitVec 64)) (b : BitVec 128) :
    encryptBlock ks 26 (decryptBlock ks 26 b) = b ∧ encryptBlock ks 34 (decryptBlock ks 34 b) = b :=
  ⟨encryptWith_decryptWith _ 26 decIdx_eq_26 b, encryptWith_decryptWith _ 34 decIdx_eq_34 b⟩

end BC.Camellia
