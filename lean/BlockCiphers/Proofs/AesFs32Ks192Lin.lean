import BlockCiphers.Proofs.AesFs32Defs
import BlockCiphers.Proofs.AesFs32KsLin
import Std.Tactic.BVDecide
/-!
C02 stage (v), AES-192, linear parts of the key-schedule loop body in bitsliced form.  The five
word-shuffling steps `ks192_A … ks192_E` of `aes192_key_schedule` on packed (lane-uniform) operands
are the packings of the column operations `linA … linE` on 128-bit values (columns = 32-bit words).
-/
namespace BC.AesFs32
open BC.Spec.Aes
set_option linter.unusedSimpArgs false

def pack4 (n0 n1 n2 n3 : BitVec 32) : BitVec 128 :=
  (n0.setWidth 128 <<< 96) ||| (n1.setWidth 128 <<< 64) ||| (n2.setWidth 128 <<< 32) ||| n3.setWidth 128

/-- step A: `[T₂, T₃, P₀, P₁]` -/
def linA (T P : BitVec 128) : BitVec 128 :=
  pack4 (T.extractLsb' 32 32) (T.extractLsb' 0 32) (P.extractLsb' 96 32) (P.extractLsb' 64 32)

/-- step B: `[X₀, X₁, X₂ ⊕ RotWord(Y₃) ⊕ rc, X₃ ⊕ that]` -/
def linB (rc : BitVec 32) (X Y : BitVec 128) : BitVec 128 :=
  let n2 := X.extractLsb' 32 32 ^^^ ((Y.extractLsb' 0 32).rotateLeft 8 ^^^ rc)
  pack4 (X.extractLsb' 96 32) (X.extractLsb' 64 32) n2 (X.extractLsb' 0 32 ^^^ n2)

/-- step C: prefix XOR over `[P₂ ⊕ U₃, P₃, U₀, U₁]` -/
def linC (P U : BitVec 128) : BitVec 128 :=
  let n0 := P.extractLsb' 32 32 ^^^ U.extractLsb' 0 32
  let n1 := P.extractLsb' 0 32 ^^^ n0
  let n2 := U.extractLsb' 96 32 ^^^ n1
  let n3 := U.extractLsb' 64 32 ^^^ n2
  pack4 n0 n1 n2 n3

/-- step D: prefix XOR over `[P₂ ⊕ RotWord(Y₃) ⊕ rc, P₃, Q₀, Q₁]` -/
def linD (rc : BitVec 32) (P Q Y : BitVec 128) : BitVec 128 :=
  let n0 := P.extractLsb' 32 32 ^^^ ((Y.extractLsb' 0 32).rotateLeft 8 ^^^ rc)
  let n1 := P.extractLsb' 0 32 ^^^ n0
  let n2 := Q.extractLsb' 96 32 ^^^ n1
  let n3 := Q.extractLsb' 64 32 ^^^ n2
  pack4 n0 n1 n2 n3

/-- step E: `[T₀, T₁, T₂ ⊕ U₃, T₃ ⊕ that]` -/
def linE (U T : BitVec 128) : BitVec 128 :=
  let n2 := T.extractLsb' 32 32 ^^^ U.extractLsb' 0 32
  pack4 (T.extractLsb' 96 32) (T.extractLsb' 64 32) n2 (T.extractLsb' 0 32 ^^^ n2)

set_option maxRecDepth 1000000 in
theorem ks192_A_bitslice (T P : BitVec 128) :
    St.zip ks192_A (bitslice T T) (bitslice P P) = bitslice (linA T P) (linA T P) := by
  simp only [St.zip, ks192_A, linA, pack4, bitslice, index_swaps, delta_swap_2, le32, St.mk.injEq]
  bv_decide (config := { timeout := 1800 })

set_option maxRecDepth 1000000 in
theorem ks192_C_bitslice (P U : BitVec 128) :
    St.zip ks192_C (bitslice P P) (bitslice U U) = bitslice (linC P U) (linC P U) := by
  simp only [St.zip, ks192_C, ks192_spread, linC, pack4, bitslice, index_swaps, delta_swap_2, le32, St.mk.injEq]
  bv_decide (config := { timeout := 1800 })

set_option maxRecDepth 1000000 in
theorem ks192_E_bitslice (U T : BitVec 128) :
    St.zip ks192_E (bitslice U U) (bitslice T T) = bitslice (linE U T) (linE U T) := by
  simp only [St.zip, ks192_E, linE, pack4, bitslice, index_swaps, delta_swap_2, le32, St.mk.injEq]
  bv_decide (config := { timeout := 1800 })

set_option maxRecDepth 1000000 in
theorem ks192_B_bitslice_0 (X Y : BitVec 128) :
    St.zip ks192_B (bitslice X X) (add_round_constant_bit (bitslice Y Y) 0) = bitslice (linB 0x01000000#32 X Y) (linB 0x01000000#32 X Y) := by
  simp only [St.zip, ks192_B, ror, ror_distance, add_round_constant_bit, St.modify, linB, pack4, bitslice, index_swaps, delta_swap_2, le32, St.mk.injEq]
  bv_decide (config := { timeout := 1800 })

set_option maxRecDepth 1000000 in
theorem ks192_B_bitslice_2 (X Y : BitVec 128) :
    St.zip ks192_B (bitslice X X) (add_round_constant_bit (bitslice Y Y) 2) = bitslice (linB 0x04000000#32 X Y) (linB 0x04000000#32 X Y) := by
  simp only [St.zip, ks192_B, ror, ror_distance, add_round_constant_bit, St.modify, linB, pack4, bitslice, index_swaps, delta_swap_2, le32, St.mk.injEq]
  bv_decide (config := { timeout := 1800 })

set_option maxRecDepth 1000000 in
theorem ks192_B_bitslice_4 (X Y : BitVec 128) :
    St.zip ks192_B (bitslice X X) (add_round_constant_bit (bitslice Y Y) 4) = bitslice (linB 0x10000000#32 X Y) (linB 0x10000000#32 X Y) := by
  simp only [St.zip, ks192_B, ror, ror_distance, add_round_constant_bit, St.modify, linB, pack4, bitslice, index_swaps, delta_swap_2, le32, St.mk.injEq]
  bv_decide (config := { timeout := 1800 })

set_option maxRecDepth 1000000 in
theorem ks192_B_bitslice_6 (X Y : BitVec 128) :
    St.zip ks192_B (bitslice X X) (add_round_constant_bit (bitslice Y Y) 6) = bitslice (linB 0x40000000#32 X Y) (linB 0x40000000#32 X Y) := by
  simp only [St.zip, ks192_B, ror, ror_distance, add_round_constant_bit, St.modify, linB, pack4, bitslice, index_swaps, delta_swap_2, le32, St.mk.injEq]
  bv_decide (config := { timeout := 1800 })

set_option maxRecDepth 1000000 in
theorem ks192_D_bitslice_1 (P Q Y : BitVec 128) :
    St.zip3 ks192_D (bitslice P P) (bitslice Q Q) (add_round_constant_bit (bitslice Y Y) 1) =
      bitslice (linD 0x02000000#32 P Q Y) (linD 0x02000000#32 P Q Y) := by
  simp only [St.zip3, ks192_D, ks192_spread, ror, ror_distance, add_round_constant_bit, St.modify, linD, pack4, bitslice, index_swaps, delta_swap_2, le32, St.mk.injEq]
  bv_decide (config := { timeout := 1800 })

set_option maxRecDepth 1000000 in
theorem ks192_D_bitslice_3 (P Q Y : BitVec 128) :
    St.zip3 ks192_D (bitslice P P) (bitslice Q Q) (add_round_constant_bit (bitslice Y Y) 3) =
      bitslice (linD 0x08000000#32 P Q Y) (linD 0x08000000#32 P Q Y) := by
  simp only [St.zip3, ks192_D, ks192_spread, ror, ror_distance, add_round_constant_bit, St.modify, linD, pack4, bitslice, index_swaps, delta_swap_2, le32, St.mk.injEq]
  bv_decide (config := { timeout := 1800 })

set_option maxRecDepth 1000000 in
theorem ks192_D_bitslice_5 (P Q Y : BitVec 128) :
    St.zip3 ks192_D (bitslice P P) (bitslice Q Q) (add_round_constant_bit (bitslice Y Y) 5) =
      bitslice (linD 0x20000000#32 P Q Y) (linD 0x20000000#32 P Q Y) := by
  simp only [St.zip3, ks192_D, ks192_spread, ror, ror_distance, add_round_constant_bit, St.modify, linD, pack4, bitslice, index_swaps, delta_swap_2, le32, St.mk.injEq]
  bv_decide (config := { timeout := 1800 })

set_option maxRecDepth 1000000 in
theorem ks192_D_bitslice_7 (P Q Y : BitVec 128) :
    St.zip3 ks192_D (bitslice P P) (bitslice Q Q) (add_round_constant_bit (bitslice Y Y) 7) =
      bitslice (linD 0x80000000#32 P Q Y) (linD 0x80000000#32 P Q Y) := by
  simp only [St.zip3, ks192_D, ks192_spread, ror, ror_distance, add_round_constant_bit, St.modify, linD, pack4, bitslice, index_swaps, delta_swap_2, le32, St.mk.injEq]
  bv_decide (config := { timeout := 1800 })

end BC.AesFs32
