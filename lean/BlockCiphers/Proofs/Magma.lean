import BlockCiphers.Proofs.Basic
import BlockCiphers.Impl.Magma
/-
Magma / GOST 28147-89: decryption inverts encryption (both orders) for EVERY expanded S-box table —
hence for every S-box set, permutation or not — and every key.
-/
namespace BC.Magma

def swap (v : V) : V := { v0 := v.v1, v1 := v.v0 }

theorem swap_swap (v : V) : swap (swap v) = v := by cases v; rfl

/-- a Feistel round is undone by the same round on the swapped state -/
theorem round_swap_round (exp : ExpSbox) (c : Gost89) (i : Fin 8) (v : V) :
    round exp c i (swap (round exp c i v)) = swap v := by
  cases v with | mk v0 v1 =>
  simp only [round, swap, V.mk.injEq, true_and]
  rw [BitVec.xor_assoc, BitVec.xor_self, BitVec.xor_zero]

/-- the 32 round indices of `encrypt_block` -/
def encOrder : List (Fin 8) :=
  List.finRange 8 ++ List.finRange 8 ++ List.finRange 8 ++ (List.finRange 8).reverse

/-- the 32 round indices of `decrypt_block` -/
def decOrder : List (Fin 8) :=
  List.finRange 8 ++ (List.finRange 8).reverse ++ (List.finRange 8).reverse ++ (List.finRange 8).reverse

theorem decOrder_eq : decOrder = encOrder.reverse := by
  simp [decOrder, encOrder, List.reverse_append, List.append_assoc]

theorem encOrder_eq : encOrder = decOrder.reverse := by
  rw [decOrder_eq, List.reverse_reverse]

theorem encryptExp_eq (exp : ExpSbox) (c : Gost89) (b : BitVec 64) :
    encryptExp exp c b = store (encOrder.foldl (fun v i => round exp c i v) (load b)) := by
  simp only [encryptExp, encOrder, iter, finLoop, finLoopRev, List.foldl_append]

theorem decryptExp_eq (exp : ExpSbox) (c : Gost89) (b : BitVec 64) :
    decryptExp exp c b = store (decOrder.foldl (fun v i => round exp c i v) (load b)) := by
  simp only [decryptExp, decOrder, iter, finLoop, finLoopRev, List.foldl_append]

theorem load_store (v : V) : load (store v) = swap v := by
  cases v with | mk v0 v1 =>
  simp only [load, store, swap, V.mk.injEq]
  constructor <;> bv_decide (config := { timeout := 600 })

theorem store_swap_load (b : BitVec 64) : store (swap (load b)) = b := by
  simp only [load, store, swap]; bv_decide (config := { timeout := 600 })

/-- C01, every expanded table, every key -/
theorem decryptExp_encryptExp (exp : ExpSbox) (c : Gost89) (b : BitVec 64) :
    decryptExp exp c (encryptExp exp c b) = b := by
  rw [decryptExp_eq, encryptExp_eq, load_store, decOrder_eq,
    foldl_inv (fun i v => round exp c i v) (fun i v => round exp c i v) swap
      (fun i s => round_swap_round exp c i s),
    store_swap_load]

theorem encryptExp_decryptExp (exp : ExpSbox) (c : Gost89) (b : BitVec 64) :
    encryptExp exp c (decryptExp exp c b) = b := by
  rw [decryptExp_eq, encryptExp_eq, load_store, encOrder_eq,
    foldl_inv (fun i v => round exp c i v) (fun i v => round exp c i v) swap
      (fun i s => round_swap_round exp c i s),
    store_swap_load]

/-- C01 for `Gost89<S>` with an arbitrary S-box set `S` (not necessarily permutations) -/
theorem decrypt_encrypt (sbox : SmallSbox) (c : Gost89) (b : BitVec 64) :
    decrypt sbox c (encrypt sbox c b) = b := decryptExp_encryptExp _ c b

theorem encrypt_decrypt (sbox : SmallSbox) (c : Gost89) (b : BitVec 64) :
    encrypt sbox c (decrypt sbox c b) = b := encryptExp_decryptExp _ c b

theorem decrypt_encrypt_key (sbox : SmallSbox) (key : BitVec 256) (b : BitVec 64) :
    decrypt sbox (new key) (encrypt sbox (new key) b) = b := decrypt_encrypt sbox _ b

theorem encrypt_decrypt_key (sbox : SmallSbox) (key : BitVec 256) (b : BitVec 64) :
    encrypt sbox (new key) (decrypt sbox (new key) b) = b := encrypt_decrypt sbox _ b

end BC.Magma
